(* Properties/C01.v — Mann-Whitney exact test: U is the pair count, P the exact permutation tail.
   ONLY statements; each is closed by [exact] of a lemma from Proofs/Utest.v, Proofs/UtestP.v.
   The model (Model/Utest.v) is generic in the value type A and its three-way comparison cmp, which is
   assumed to be a total preorder (reflexive, antisymmetric up to CompOpp, transitive) — Z.compare and
   Qcompare (the instance the check runs on the decoded float64 values) satisfy this, see the Examples.
   pool = the pooled values from the largest down; count_le cmp pool n1 w = number of the C(n1+n2,n1)
   relabellings (size-n1 subsets of the pool taken as the first sample) whose 2U is <= w. *)
From Coq Require Import List ZArith QArith Permutation.
From MM Require Import Base.Num Base.GEComb Base.GESort Spec.Ucount Model.GEChoose Model.Udist Model.Utest
  Proofs.Utest Proofs.UtestP Proofs.UtestLaws Proofs.UtestSym Proofs.UtestSymLaws Check.GEMw Proofs.CheckMw.
Import ListNotations.
Local Open Scope Z_scope.

Definition total_preorder {A} (cmp : A -> A -> comparison) : Prop :=
  (forall a, cmp a a = Eq) /\ (forall a b, cmp b a = CompOpp (cmp a b)) /\
  (forall a b c, cmp a b <> Gt -> cmp b c <> Gt -> cmp a c <> Gt).

(* U = R1 - n1(n1+1)/2 from the average ranks of the merged sorted samples is the pair count:
   2U = 2 #{(a,b) : a > b} + #{(a,b) : a = b}, for ALL samples (any order, ties, sizes) *)
Theorem C01_U_is_pair_count : forall {A} (cmp : A -> A -> comparison), total_preorder cmp ->
  forall x1 x2 : list A, ms_twoU (mw_stat cmp x1 x2) = twoU_pairs cmp x1 x2.
Proof. intros A cmp (Hr & Ha & Ht). exact (mw_U_is_pair_count cmp Hr Ha Ht). Qed.
Print Assumptions C01_U_is_pair_count.

(* T lists the multiplicities of the distinct pooled values in ascending order; the merged list is the
   sorted pool; hasTies <-> some multiplicity exceeds 1 *)
Theorem C01_T_is_tie_vector : forall {A} (cmp : A -> A -> comparison), total_preorder cmp ->
  forall x1 x2 : list A,
  let s := mw_stat cmp x1 x2 in let z := mvals (merged cmp x1 x2) in
  grouped (flip cmp) (ms_T s) z /\ Permutation z (x1 ++ x2) /\ sorted (leb cmp) z /\
  Forall (fun t => (1 <= t)%nat) (ms_T s) /\ lsum (ms_T s) = (length x1 + length x2)%nat /\
  ms_ties s = has_ties (ms_T s).
Proof. intros A cmp (Hr & Ha & Ht). exact (mw_T_is_tie_vector cmp Hr Ha Ht). Qed.
Print Assumptions C01_T_is_tie_vector.

(* the result on the exact branch: N1, N2, the pair-count U, and the three tail formulas on UDist.CDF *)
Theorem C01_exact_result : forall {A} (cmp : A -> A -> comparison), total_preorder cmp ->
  forall (cdf : nat -> nat -> list nat -> Q -> Q) EL TL (x1 x2 : list A) alt,
  x1 <> [] -> x2 <> [] ->
  let s := mw_stat cmp x1 x2 in
  use_exact (ms_ties s) (length x1) (length x2) EL TL = true -> length (ms_T s) <> 1%nat ->
  mw_test cmp cdf EL TL x1 x2 alt =
  MWExact (length x1) (length x2) (twoU_pairs cmp x1 x2)
          (mw_exact_p (cdf (length x1) (length x2) (ms_T s)) (length x1) (length x2) (twoU_pairs cmp x1 x2) alt)
          (mw_spec_p (cdf (length x1) (length x2) (ms_T s)) (length x1) (length x2) (twoU_pairs cmp x1 x2) alt).
Proof. intros A cmp (Hr & Ha & Ht). exact (mw_exact_result cmp Hr Ha Ht). Qed.
Print Assumptions C01_exact_result.

(* P(LocationLess) = Pr[U' <= U] over all C(n1+n2,n1) relabellings (rests on C02's counting theorems) *)
Theorem C01_less_is_perm_tail : forall {A} (cmp : A -> A -> comparison), total_preorder cmp ->
  forall x1 x2 : list A, x1 <> [] -> x2 <> [] ->
  let s := mw_stat cmp x1 x2 in length (ms_T s) <> 1%nat ->
  (mw_exact_p (udist_cdf (length x1) (length x2) (ms_T s)) (length x1) (length x2) (ms_twoU s) (-1) ==
   inject_Z (count_le cmp (pool cmp x1 x2) (length x1) (ms_twoU s)) / inject_Z (C (length x1 + length x2) (length x1)))%Q.
Proof. intros A cmp (Hr & Ha & Ht). exact (mw_less_is_perm_tail cmp Hr Ha Ht). Qed.
Print Assumptions C01_less_is_perm_tail.

(* P(LocationGreater) = Pr[U' >= U] = (C - #{2U' <= 2U - 1}) / C   (repaired code, D3) *)
Theorem C01_greater_is_perm_tail : forall {A} (cmp : A -> A -> comparison), total_preorder cmp ->
  forall x1 x2 : list A, x1 <> [] -> x2 <> [] ->
  let s := mw_stat cmp x1 x2 in length (ms_T s) <> 1%nat ->
  (mw_exact_p (udist_cdf (length x1) (length x2) (ms_T s)) (length x1) (length x2) (ms_twoU s) 1 ==
   inject_Z (C (length x1 + length x2) (length x1) - count_le cmp (pool cmp x1 x2) (length x1) (ms_twoU s - 1))
   / inject_Z (C (length x1 + length x2) (length x1)))%Q.
Proof. intros A cmp (Hr & Ha & Ht). exact (mw_greater_is_perm_tail cmp Hr Ha Ht). Qed.
Print Assumptions C01_greater_is_perm_tail.

(* Finding D2: the two-sided exact value the code computes, 2*CDF(min(U1,U2)), is NOT the specified
   min(1, 2 min(Pr[U'<=U], Pr[U'>=U])): witness {2,1,3,5} vs {1,1,1,1,1} (0 vs 12/126) *)
Theorem C01_two_sided_refuted : exists x1 x2 : list Z,
  match mw_test Z.compare udist_cdf 50 25 x1 x2 0 with
  | MWExact _ _ _ p pspec => ~ (p == pspec)%Q
  | _ => False
  end.
Proof. exact mw_two_sided_refuted. Qed.
Print Assumptions C01_two_sided_refuted.

(* ---- the two-sided value ---- *)
(* "all C(n1+n2,n1) relabellings of the pooled values" is well defined: the counts do not depend on the
   order in which the pooled values are listed *)
Theorem C01_pool_order_irrelevant : forall {A} (cmp : A -> A -> comparison) (z z' : list A) n w,
  Permutation z z' -> count_le cmp z n w = count_le cmp z' n w /\ count_eq cmp z n w = count_eq cmp z' n w.
Proof. intros A cmp z z' n w H. exact (conj (count_le_perm cmp z z' n w H) (count_eq_perm cmp z z' n w H)). Qed.
Print Assumptions C01_pool_order_irrelevant.

(* the specified LocationDiffers value of the model IS min(1, 2 min(Pr[U'<=U], Pr[U'>=U])) over the
   relabellings — for EVERY tie vector *)
Theorem C01_spec_two_sided_is_perm_tails : forall {A} (cmp : A -> A -> comparison), total_preorder cmp ->
  forall x1 x2 : list A, x1 <> [] -> x2 <> [] ->
  let s := mw_stat cmp x1 x2 in length (ms_T s) <> 1%nat ->
  let Ct := C (length x1 + length x2) (length x1) in
  (mw_spec_p (udist_cdf (length x1) (length x2) (ms_T s)) (length x1) (length x2) (ms_twoU s) 0 ==
   Qminb 1 (2 * Qminb (inject_Z (count_le cmp (pool cmp x1 x2) (length x1) (ms_twoU s)) / inject_Z Ct)
                      (inject_Z (Ct - count_le cmp (pool cmp x1 x2) (length x1) (ms_twoU s - 1)) / inject_Z Ct)))%Q.
Proof. intros A cmp (Hr & Ha & Ht). exact (mw_spec_two_sided_is_perm_tails cmp Hr Ha Ht). Qed.
Print Assumptions C01_spec_two_sided_is_perm_tails.

(* for a palindromic tie vector (T = rev T) the null distribution of U is symmetric about n1 n2 / 2 ... *)
Theorem C01_null_distribution_symmetric : forall {A} (cmp : A -> A -> comparison), total_preorder cmp ->
  forall x1 x2 : list A, let s := mw_stat cmp x1 x2 in
  length (ms_T s) <> 1%nat -> rev (ms_T s) = ms_T s ->
  forall w, count_eq cmp (pool cmp x1 x2) (length x1) w =
            count_eq cmp (pool cmp x1 x2) (length x1) (2 * Z.of_nat (length x1) * Z.of_nat (length x2) - w).
Proof. intros A cmp (Hr & Ha & Ht). exact (mw_null_distribution_symmetric cmp Hr Ha Ht). Qed.
Print Assumptions C01_null_distribution_symmetric.
(* ... hence the value the code computes, 2 CDF(min(U1,U2)) (1 when U1 = U2), equals the specified
   min(1, 2 min(Pr[U'<=U], Pr[U'>=U])): finding D2 is confined to NON-palindromic tie vectors *)
Theorem C01_two_sided_symmetric : forall {A} (cmp : A -> A -> comparison), total_preorder cmp ->
  forall x1 x2 : list A, x1 <> [] -> x2 <> [] ->
  let s := mw_stat cmp x1 x2 in length (ms_T s) <> 1%nat -> rev (ms_T s) = ms_T s ->
  (mw_exact_p (udist_cdf (length x1) (length x2) (ms_T s)) (length x1) (length x2) (ms_twoU s) 0 ==
   mw_spec_p (udist_cdf (length x1) (length x2) (ms_T s)) (length x1) (length x2) (ms_twoU s) 0)%Q.
Proof. intros A cmp (Hr & Ha & Ht). exact (mw_two_sided_symmetric cmp Hr Ha Ht). Qed.
Print Assumptions C01_two_sided_symmetric.
(* in particular whenever no two pooled values are equal *)
Theorem C01_two_sided_untied : forall {A} (cmp : A -> A -> comparison), total_preorder cmp ->
  forall x1 x2 : list A, x1 <> [] -> x2 <> [] ->
  let s := mw_stat cmp x1 x2 in length (ms_T s) <> 1%nat -> ms_ties s = false ->
  (mw_exact_p (udist_cdf (length x1) (length x2) (ms_T s)) (length x1) (length x2) (ms_twoU s) 0 ==
   mw_spec_p (udist_cdf (length x1) (length x2) (ms_T s)) (length x1) (length x2) (ms_twoU s) 0)%Q.
Proof. intros A cmp (Hr & Ha & Ht). exact (mw_two_sided_untied cmp Hr Ha Ht). Qed.
Print Assumptions C01_two_sided_untied.

(* ---- method selection and error cases ---- *)
(* hasTies <-> fewer distinct pooled values than values; the exact method runs exactly when both sample
   sizes are within the limit that applies (MannWhitneyTiesExactLimit with ties, MannWhitneyExactLimit
   without), for ANY values of the two limit variables; otherwise the normal approximation *)
Theorem C01_exact_selected_iff : forall {A} (cmp : A -> A -> comparison), total_preorder cmp ->
  forall (cdf : nat -> nat -> list nat -> Q -> Q) EL TL (x1 x2 : list A) alt, x1 <> [] -> x2 <> [] ->
  let s := mw_stat cmp x1 x2 in let n1 := length x1 in let n2 := length x2 in
  length (ms_T s) <> 1%nat ->
  (ms_ties s = true <-> (length (ms_T s) < n1 + n2)%nat) /\
  ((exists p ps, mw_test cmp cdf EL TL x1 x2 alt = MWExact n1 n2 (twoU_pairs cmp x1 x2) p ps) <->
   (Z.of_nat n1 <= (if ms_ties s then TL else EL) /\ Z.of_nat n2 <= (if ms_ties s then TL else EL))) /\
  ((exists num sig, mw_test cmp cdf EL TL x1 x2 alt = MWApprox n1 n2 (twoU_pairs cmp x1 x2) num sig) <->
   ~ (Z.of_nat n1 <= (if ms_ties s then TL else EL) /\ Z.of_nat n2 <= (if ms_ties s then TL else EL))).
Proof. intros A cmp (Hr & Ha & Ht). exact (mw_exact_selected_iff cmp Hr Ha Ht). Qed.
Print Assumptions C01_exact_selected_iff.
(* the inputs the statement excludes: an empty sample <-> ErrSampleSize, all pooled values equal <-> ErrSamplesEqual *)
Theorem C01_error_cases : forall {A} (cmp : A -> A -> comparison), total_preorder cmp ->
  forall cdf EL TL (x1 x2 : list A) alt,
  (mw_test cmp cdf EL TL x1 x2 alt = MWErrSize <-> (x1 = [] \/ x2 = [])) /\
  (x1 <> [] -> x2 <> [] -> (mw_test cmp cdf EL TL x1 x2 alt = MWErrEqual <-> all_equal cmp (x1 ++ x2))).
Proof.
  intros A cmp (Hr & Ha & Ht) cdf EL TL x1 x2 alt.
  exact (conj (mw_err_size_iff cmp cdf EL TL x1 x2 alt) (mw_err_equal_iff cmp Hr Ha Ht cdf EL TL x1 x2 alt)).
Qed.
Print Assumptions C01_error_cases.

(* ---- what the correspondence check establishes (Check/GEMw.v, Check/C01.v) ---- *)
(* the executable distribution table the comparator evaluates IS the model's UDist.CDF on every real argument,
   so the expected p-values of the check are the model's (and hence, by the theorems above, the specified ones) *)
Theorem C01_check_table_is_cdf : forall {A} (cmp : A -> A -> comparison), total_preorder cmp ->
  forall x1 x2 : list A, x1 <> [] -> x2 <> [] ->
  let s := mw_stat cmp x1 x2 in length (ms_T s) <> 1%nat ->
  forall u : Q, (table_cdf (length x1) (length x2) (ms_T s) u == udist_cdf (length x1) (length x2) (ms_T s) u)%Q.
Proof. intros A cmp (Hr & Ha & Ht). exact (table_cdf_is_udist_cdf cmp Hr Ha Ht). Qed.
Print Assumptions C01_check_table_is_cdf.
(* a run the comparator accepts with code V_OK: arguments and limit variables intact; for EVERY call the status,
   N1, N2, U (exactly), the echoed alternative and P (within 1e-10 + 1e-9 |P| of the SPECIFIED value on the exact
   branch; within 1e-9 of the tail expression over the implementation's own Phi at the model's z otherwise)
   agree with the model result on the exactly decoded inputs *)
Theorem C01_check_ok_sound : forall run tag, check_run run = (V_OK, tag, None) ->
  r_pure run = 1 /\
  Forall (fun c => call_ok (mw_test Qcompare udist_cdf (r_EL run) (r_TL run) (r_x1 run) (r_x2 run) (c_alt c)) c) (r_calls run).
Proof. exact check_run_ok_sound. Qed.
Print Assumptions C01_check_ok_sound.
(* a run accepted with ANY code (no mismatch): each call is as above, or is the known finding D2 — P near the legacy
   two-sided value and NOT near the specified one — which can only happen for the two-sided alternative on a
   non-palindromic tie vector *)
Theorem C01_check_accept_sound : forall run code tag, check_run run = (code, tag, None) ->
  r_pure run = 1 /\
  Forall (fun c => let r := mw_test Qcompare udist_cdf (r_EL run) (r_TL run) (r_x1 run) (r_x2 run) (c_alt c) in
                   call_ok r c \/
                   (call_d2 r c /\ c_alt c = 0 /\
                    rev (ms_T (mw_stat Qcompare (r_x1 run) (r_x2 run))) <> ms_T (mw_stat Qcompare (r_x1 run) (r_x2 run))))
         (r_calls run).
Proof. exact check_run_accept_sound. Qed.
Print Assumptions C01_check_accept_sound.

(* ---------- non-vacuity ---------- *)
Example C01_Z_is_total_preorder : total_preorder Z.compare.
Proof. exact (conj Zcmp_refl (conj Zcmp_antisym Zcmp_trans)). Qed.
Example C01_Q_is_total_preorder : total_preorder Qcompare.
Proof. exact (conj Qcmp_refl (conj Qcmp_antisym Qcmp_trans)). Qed.
(* tied, two-valued and untied inputs on the exact branch *)
Example C01_examples :
  mw_test Z.compare udist_cdf 50 25 [2; 1; 3; 5] [1; 1; 1; 1; 1] (-1) = MWExact 4 5 35 (126 # 126) (126 # 126) /\
  twoU_pairs Z.compare [2; 1; 3; 5] [1; 1; 1; 1; 1] = 35 /\
  count_le Z.compare (pool Z.compare [2; 1; 3; 5] [1; 1; 1; 1; 1]) 4 35 = 126 /\
  ms_T (mw_stat Z.compare [0; 1; 1] [1; 0]) = [2; 3]%nat /\
  (match mw_test Z.compare udist_cdf 50 25 [0; 1; 1] [1; 0] 1 with MWExact 3 2 7 p _ => Qred p = (7 # 10)%Q | _ => False end) /\
  (match mw_test Z.compare udist_cdf 50 25 [5; 1; 4] [2; 3; 6; 0] (-1) with MWExact 3 4 14 p _ => Qred p = (24 # 35)%Q | _ => False end) /\
  count_le Z.compare (pool Z.compare [5; 1; 4] [2; 3; 6; 0]) 3 14 = 24.
Proof. vm_compute. repeat split; reflexivity. Qed.
(* palindromic tied input (T = [2;1;2]): hypotheses of C01_two_sided_symmetric hold, both values 4/5;
   untied input: hypothesis of C01_two_sided_untied; both sides of the selection rule *)
Example C01_palindromic_examples :
  ms_T (mw_stat Z.compare [1; 3; 3] [1; 2]) = [2; 1; 2]%nat /\
  rev (ms_T (mw_stat Z.compare [1; 3; 3] [1; 2])) = ms_T (mw_stat Z.compare [1; 3; 3] [1; 2]) /\
  (match mw_test Z.compare udist_cdf 50 25 [1; 3; 3] [1; 2] 0 with
   | MWExact 3 2 9 p ps => Qred p = Qred ps | _ => False end) /\
  ms_ties (mw_stat Z.compare [5; 1; 4] [2; 3; 6; 0]) = false /\
  (match mw_test Z.compare udist_cdf 2 25 [1; 3; 3] [1; 2] 0 with MWExact _ _ _ _ _ => True | _ => False end) /\
  (match mw_test Z.compare udist_cdf 50 2 [1; 3; 3] [1; 2] 0 with MWApprox 3 2 9 _ _ => True | _ => False end) /\
  (match mw_test Z.compare udist_cdf 2 25 [5; 1; 4] [2; 3; 6; 0] 0 with MWApprox 3 4 14 _ _ => True | _ => False end).
Proof. vm_compute. repeat split; reflexivity. Qed.
(* the hypothesis of C01_check_ok_sound is satisfiable: a run (one call, LocationLess, P = 9/10) the comparator accepts *)
Example C01_check_accepts_example :
  check_run (mkRun 50 25 [1; 3; 3]%Q [1; 2]%Q [mkCall (-1) 0 3 2 (XFin (9 # 2)) (XFin (9 # 10)) (-1) (XFin 0) (XFin 0)] 1)
  = (V_OK, 34, None).
Proof. vm_compute. reflexivity. Qed.

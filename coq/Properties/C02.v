(* Properties/C02.v — UDist is the exact null distribution of U for every tie vector.
   ONLY statements; each is closed by [exact] of a lemma from Proofs/.
   Vocabulary (Spec/Ucount.v): a pool z is listed from the largest value down and is [grouped] by the
   tie vector Tr = rev T (highest rank first); a labelling l in [labs N n1] marks the size-n1 subset that
   forms sample 1; [twoU_lab] is 2U of the relabelled data (pairs a>b count 2, a=b count 1);
   [count_le]/[count_eq] count labellings by 2U.  Model (Model/Udist.v, Model/GEChoose.v): [choose],
   [tiedA] (memoised A_k recurrence with its three leaves), [untied_p]/[untied_c], [udist_pmf]/[udist_cdf]. *)
From Coq Require Import List ZArith QArith Qround Permutation Lia.
(* the comparator first: its boolean [valid_T] must not shadow the Prop [valid_T] of Proofs/UdistLaws.v *)
From MM Require Import Check.C02 Proofs.CheckC02.
From MM Require Import Base.Num Base.GEComb Spec.Ucount Proofs.Ucount Model.GEChoose Model.Udist
  Proofs.Udist Proofs.UdistTied Proofs.UdistTable Proofs.UdistLaws Proofs.UdistUntied Proofs.UdistCor Proofs.UtestSym Proofs.UdistSym.
Import ListNotations.
Local Open Scope Z_scope.

(* mathx.Choose (exact part) is the binomial coefficient, 0 outside 0..n *)
Theorem C02_choose_is_binomial : forall n k : nat, choosen n k = C n k.
Proof. exact choose_C. Qed.
Print Assumptions C02_choose_is_binomial.

(* there are C(N,n) labellings, and they are exactly the boolean lists of length N with n marks *)
Theorem C02_labellings_are_subsets : forall N n l, In l (labs N n) <-> (length l = N /\ ntrue l = n).
Proof. exact labs_spec. Qed.
Print Assumptions C02_labellings_are_subsets.
Theorem C02_labellings_count : forall N n, zsum (fun _ => 1) (labs N n) = C N n.
Proof. exact labs_count. Qed.
Print Assumptions C02_labellings_count.

(* splits <-> labellings: a split r of n over the ranks stands for prod C(t_k, r_k) labellings *)
Theorem C02_splits_labellings : forall Tr n (f : list nat -> Z),
  zsum (fun l => f (gsplit Tr l)) (labs (lsum Tr) n) = zsum (fun r => weight Tr r * f r) (splits Tr n).
Proof. exact sum_labs_by_split. Qed.
Print Assumptions C02_splits_labellings.
(* ... all of which have 2U = the split formula of Klotz *)
Theorem C02_pair_count_of_split : forall {X} (cmp : X -> X -> comparison) Tr z l,
  grouped cmp Tr z -> length l = lsum Tr -> twoU_lab cmp z l = twoU Tr (gsplit Tr l).
Proof. exact @twoU_lab_split. Qed.
Print Assumptions C02_pair_count_of_split.
Theorem C02_twoU_split_formula : forall Tr r, length r = length Tr ->
  twoU Tr r = lin Tr r - Z.of_nat (lsum r) * Z.of_nat (lsum r).
Proof. exact twoU_split_formula. Qed.
Print Assumptions C02_twoU_split_formula.
(* Vandermonde for any number of groups (the upper pruning leaf) *)
Theorem C02_vandermonde : forall Tr n, zsum (fun r => weight Tr r) (splits Tr n) = C (lsum Tr) n.
Proof. exact weight_sum. Qed.
Print Assumptions C02_vandermonde.

(* feasible range of 2U per prefix: udist.go twoUmin / twoUmax bound every split *)
Theorem C02_twoUmin_is_lower_bound : forall Tr n r, In r (splits Tr n) -> twoUmin n Tr <= twoU Tr r.
Proof. exact twoUmin_is_lower_bound. Qed.
Print Assumptions C02_twoUmin_is_lower_bound.
Theorem C02_twoUmax_is_upper_bound : forall Tr n r, In r (splits Tr n) -> twoU Tr r <= twoUmax n Tr.
Proof. exact twoUmax_is_upper_bound. Qed.
Print Assumptions C02_twoUmax_is_upper_bound.

(* MAIN, tied: the memoised recurrence with the K=2 floor-division base case and the two pruning
   leaves returns, for every valid tie vector, every n1 and EVERY integer w (negative included),
   the number of size-n1 subsets of the pool with 2U <= w *)
Theorem C02_tied_A_counts_subsets : forall {X} (cmp : X -> X -> comparison) Tr z n1 w,
  valid_Tr Tr -> grouped cmp Tr z -> tiedA Tr n1 w = count_le cmp z n1 w.
Proof. exact @tied_A_counts_subsets. Qed.
Print Assumptions C02_tied_A_counts_subsets.
(* the two-rank closed form needs FLOOR division: the truncating variant of the pinned tree (D1) is wrong *)
Theorem C02_D1_refuted : base2_trunc 2 1 1 0 = 2 /\ A [1%nat; 2%nat] 1 0 = 0 /\ base2 2 1 1 0 = 0.
Proof. exact D1_refuted. Qed.
Print Assumptions C02_D1_refuted.

(* MAIN, untied: the Mann-Whitney recurrence counts subsets of n+m distinct values by U, ... *)
Theorem C02_untied_c_counts_subsets : forall {X} (cmp : X -> X -> comparison) n m z u,
  grouped cmp (ones (n + m)) z -> untied_c n m u = count_eq cmp z n (2 * u).
Proof. exact @untied_c_counts_subsets. Qed.
Print Assumptions C02_untied_c_counts_subsets.
(* ... is symmetric in the sample sizes (the code computes only n <= m), ... *)
Theorem C02_untied_symmetric : forall n m u, untied_c n m u = untied_c m n u.
Proof. exact untied_c_sym. Qed.
Print Assumptions C02_untied_symmetric.
(* ... and the code's p_{n,m}(U) recurrence, diagonal read through symmetry, is count / C(n+m,n) *)
Theorem C02_untied_p_is_count : forall fuel n m U, (n <= m)%nat -> (n + m < fuel)%nat ->
  (untied_p fuel n m U * inject_Z (C (n + m) n) == inject_Z (untied_c n m U))%Q.
Proof. exact untied_p_count. Qed.
Print Assumptions C02_untied_p_is_count.

(* UDist.CDF / UDist.PMF on a REAL argument.  With ties (every real u): *)
Theorem C02_cdf_tied : forall {X} (cmp : X -> X -> comparison) N1 N2 T z, valid_T N1 N2 T -> has_ties T = true ->
  grouped cmp (rev T) z -> forall u : Q,
  (udist_cdf N1 N2 T u == inject_Z (count_le cmp z N1 (Qfloor (2 * u))) / inject_Z (C (N1 + N2) N1))%Q.
Proof. exact @udist_cdf_tied. Qed.
Print Assumptions C02_cdf_tied.
Theorem C02_pmf_tied : forall {X} (cmp : X -> X -> comparison) N1 N2 T z, valid_T N1 N2 T -> has_ties T = true ->
  grouped cmp (rev T) z -> forall u : Q,
  (udist_pmf N1 N2 T u == inject_Z (count_eq cmp z N1 (Qfloor (2 * u))) / inject_Z (C (N1 + N2) N1))%Q.
Proof. exact @udist_pmf_tied. Qed.
Print Assumptions C02_pmf_tied.
(* Without ties (T nil or all ones): PMF at every integer point, CDF at every real u — including the
   code's summation of the smaller tail and its use of the symmetry about N1*N2/2 *)
Theorem C02_pmf_untied : forall {X} (cmp : X -> X -> comparison) N1 N2 T z, (1 <= N1)%nat -> (1 <= N2)%nat ->
  has_ties T = false -> grouped cmp (ones (N1 + N2)) z -> forall k : Z,
  (udist_pmf N1 N2 T (inject_Z k) == inject_Z (count_eq cmp z N1 (2 * k)) / inject_Z (C (N1 + N2) N1))%Q.
Proof. exact @udist_pmf_untied. Qed.
Print Assumptions C02_pmf_untied.
Theorem C02_cdf_untied : forall {X} (cmp : X -> X -> comparison) N1 N2 T z, (1 <= N1)%nat -> (1 <= N2)%nat ->
  has_ties T = false -> grouped cmp (ones (N1 + N2)) z -> (forall a b, cmp b a = CompOpp (cmp a b)) -> forall u : Q,
  (udist_cdf N1 N2 T u == inject_Z (count_le cmp z N1 (2 * Qfloor u)) / inject_Z (C (N1 + N2) N1))%Q.
Proof. exact @udist_cdf_untied. Qed.
Print Assumptions C02_cdf_untied.

(* Laws.  CDF is 0 below zero, 1 from N1*N2 upward, non-decreasing; PMF is the CDF difference;
   the masses sum to the total; (N1,N2,T) mirrors (N2,N1,T) about N1*N2/2. *)
Theorem C02_cdf_zero_below : forall N1 N2 T u, (u < 0)%Q -> (udist_cdf N1 N2 T u == 0)%Q.
Proof. exact cdf_zero_below. Qed.
Print Assumptions C02_cdf_zero_below.
Theorem C02_cdf_one_from_top : forall N1 N2 T u, (QN (N1 * N2) <= u)%Q -> (udist_cdf N1 N2 T u == 1)%Q.
Proof. exact cdf_one_from_top. Qed.
Print Assumptions C02_cdf_one_from_top.
Theorem C02_cdf_monotone_tied : forall {X} (cmp : X -> X -> comparison) N1 N2 T z u u',
  valid_T N1 N2 T -> has_ties T = true -> grouped cmp (rev T) z ->
  (u <= u')%Q -> (udist_cdf N1 N2 T u <= udist_cdf N1 N2 T u')%Q.
Proof. exact @cdf_monotone_tied. Qed.
Print Assumptions C02_cdf_monotone_tied.
Theorem C02_cdf_monotone_untied : forall {X} (cmp : X -> X -> comparison) N1 N2 T z u u',
  (1 <= N1)%nat -> (1 <= N2)%nat -> has_ties T = false -> grouped cmp (ones (N1 + N2)) z ->
  (forall a b, cmp b a = CompOpp (cmp a b)) ->
  (u <= u')%Q -> (udist_cdf N1 N2 T u <= udist_cdf N1 N2 T u')%Q.
Proof. exact @cdf_monotone_untied. Qed.
Print Assumptions C02_cdf_monotone_untied.
Theorem C02_pmf_is_cdf_difference : forall {X} (cmp : X -> X -> comparison) z n w,
  count_eq cmp z n w = count_le cmp z n w - count_le cmp z n (w - 1).
Proof. exact @count_eq_diff. Qed.
Print Assumptions C02_pmf_is_cdf_difference.
Theorem C02_masses_sum_to_total : forall {X} (cmp : X -> X -> comparison) z n, (n <= length z)%nat ->
  zsum (fun v => count_eq cmp z n v) (zrange 0 (2 * Z.of_nat n * Z.of_nat (length z - n))) = C (length z) n.
Proof. exact @masses_sum_to_total. Qed.
Print Assumptions C02_masses_sum_to_total.
Theorem C02_mirror : forall {X} (cmp : X -> X -> comparison) z n w,
  (forall a b, cmp b a = CompOpp (cmp a b)) -> (n <= length z)%nat ->
  count_eq cmp z n w = count_eq cmp z (length z - n) (2 * Z.of_nat n * Z.of_nat (length z - n) - w).
Proof. exact @count_eq_mirror. Qed.
Print Assumptions C02_mirror.

(* The counts depend on the pool only through its tie vector: any two pools (any value types, any
   comparisons) grouped by the same vector give the same counts; in particular the arrangement of the
   pooled values is irrelevant *)
Theorem C02_counts_depend_on_T_only : forall {X Y} (cmp : X -> X -> comparison) (cmp' : Y -> Y -> comparison) Tr z z' n w,
  grouped cmp Tr z -> grouped cmp' Tr z' ->
  count_le cmp z n w = count_le cmp' z' n w /\ count_eq cmp z n w = count_eq cmp' z' n w.
Proof.
  intros X Y cmp cmp' Tr z z' n w H H'.
  exact (conj (eq_trans (count_le_cntS cmp Tr z n w H) (eq_sym (count_le_cntS cmp' Tr z' n w H')))
              (eq_trans (count_eq_massS cmp Tr z n w H) (eq_sym (count_eq_massS cmp' Tr z' n w H')))).
Qed.
Print Assumptions C02_counts_depend_on_T_only.
Theorem C02_pool_order_irrelevant : forall {X} (cmp : X -> X -> comparison) (z z' : list X) n w,
  Permutation z z' -> count_le cmp z n w = count_le cmp z' n w /\ count_eq cmp z n w = count_eq cmp z' n w.
Proof. intros X cmp z z' n w H. exact (conj (count_le_perm cmp z z' n w H) (count_eq_perm cmp z z' n w H)). Qed.
Print Assumptions C02_pool_order_irrelevant.
(* a tie vector that reads the same in both directions (in particular: no ties) gives a distribution
   symmetric about n1 n2 / 2 — the fact behind the two-sided p-value of C01 *)
Theorem C02_symmetric_palindromic : forall {X} (cmp : X -> X -> comparison), (forall a b, cmp b a = CompOpp (cmp a b)) ->
  forall Tr z n w, grouped cmp Tr z -> rev Tr = Tr -> (n <= length z)%nat ->
  count_eq cmp z n w = count_eq cmp z n (2 * Z.of_nat n * Z.of_nat (length z - n) - w) /\
  count_le cmp z n w = C (length z) n - count_le cmp z n (2 * Z.of_nat n * Z.of_nat (length z - n) - w - 1).
Proof.
  intros X cmp Ha Tr z n w Hg Hp Hn.
  exact (conj (count_eq_palin cmp Ha Tr z n w Hg Hp Hn) (count_le_palin cmp Ha Tr z n w Hg Hp Hn)).
Qed.
Print Assumptions C02_symmetric_palindromic.

(* The same laws for UDist.PMF itself, with no pool in the statement (grid: u = w/2 with ties, integers without) *)
Theorem C02_pmf_mirror_tied : forall N1 N2 T, valid_T N1 N2 T -> has_ties T = true -> forall w : Z,
  (udist_pmf N1 N2 T (w # 2) == udist_pmf N2 N1 T (QN (N1 * N2) - (w # 2)))%Q.
Proof. exact udist_pmf_mirror_tied. Qed.
Print Assumptions C02_pmf_mirror_tied.
Theorem C02_pmf_mirror_untied : forall N1 N2 T, (1 <= N1)%nat -> (1 <= N2)%nat -> has_ties T = false -> forall k : Z,
  (udist_pmf N1 N2 T (inject_Z k) == udist_pmf N2 N1 T (inject_Z (Z.of_nat (N1 * N2) - k)))%Q.
Proof. exact udist_pmf_mirror_untied. Qed.
Print Assumptions C02_pmf_mirror_untied.
Theorem C02_pmf_sums_to_one_tied : forall N1 N2 T, valid_T N1 N2 T -> has_ties T = true ->
  (Qsum (map (fun w => udist_pmf N1 N2 T (w # 2)) (zrange 0 (2 * Z.of_nat N1 * Z.of_nat N2))) == 1)%Q.
Proof. exact udist_pmf_sum_tied. Qed.
Print Assumptions C02_pmf_sums_to_one_tied.
Theorem C02_pmf_sums_to_one_untied : forall N1 N2 T, (1 <= N1)%nat -> (1 <= N2)%nat -> has_ties T = false ->
  (Qsum (map (fun k => udist_pmf N1 N2 T (inject_Z k)) (zrange 0 (Z.of_nat (N1 * N2)))) == 1)%Q.
Proof. exact udist_pmf_sum_untied. Qed.
Print Assumptions C02_pmf_sums_to_one_untied.
Theorem C02_pmf_symmetric_palindromic : forall N1 N2 T, valid_T N1 N2 T -> has_ties T = true -> forall w : Z, rev T = T ->
  (udist_pmf N1 N2 T (w # 2) == udist_pmf N1 N2 T (QN (N1 * N2) - (w # 2)))%Q.
Proof. exact udist_pmf_symmetric_palin. Qed.
Print Assumptions C02_pmf_symmetric_palindromic.
Theorem C02_pmf_symmetric_untied : forall N1 N2 T, (1 <= N1)%nat -> (1 <= N2)%nat -> has_ties T = false -> forall k : Z,
  (udist_pmf N1 N2 T (inject_Z k) == udist_pmf N1 N2 T (inject_Z (Z.of_nat (N1 * N2) - k)))%Q.
Proof. exact udist_pmf_symmetric_untied. Qed.
Print Assumptions C02_pmf_symmetric_untied.

(* The executable twins the correspondence check runs (whole distribution at once; index 2U with ties,
   index U without) are the same counts *)
Theorem C02_table_counts_subsets : forall {X} (cmp : X -> X -> comparison) N1 N2 T z w,
  grouped cmp (rev (eff_T N1 N2 T)) z ->
  cum_at (cumsum 0 (mass_table N1 N2 T)) w = count_le cmp z N1 w /\
  coef (mass_table N1 N2 T) w = count_eq cmp z N1 w.
Proof. exact @table_counts_subsets. Qed.
Print Assumptions C02_table_counts_subsets.
Theorem C02_untied_table_counts_subsets : forall {X} (cmp : X -> X -> comparison) N1 N2 z k,
  grouped cmp (ones (N1 + N2)) z ->
  coef (untied_table N1 N2) k = count_eq cmp z N1 (2 * k) /\
  cum_at (cumsum 0 (untied_table N1 N2)) k = count_le cmp z N1 (2 * k).
Proof. exact @untied_table_counts_subsets. Qed.
Print Assumptions C02_untied_table_counts_subsets.

(* ---------- what an accepted verdict of check_C02 certifies ---------- *)
(* check_C02 = parse (p_line02) then compare.  If the verdict is accepted (code 0 = ok; code 1 = borderline is
   never produced by this check: there is no borderline window) then the decoded case
   cs = (N1, N2, tnil, T, us, (lo, hi, st), status) satisfies [case_ok] (Proofs/CheckC02.v):
   status = 0 (no call panicked, T not modified);  N1, N2 >= 1 and T is nil or a vector of >= 2 positive counts
   summing to N1+N2;  Bounds() = (0, N1*N2) and Step() = 1/2 exactly;  and for EVERY pool z whose tie groups
   (highest rank first) are rev T -- or N1+N2 distinct values when T has no ties -- and EVERY item
   (u, PMF(u), CDF(u)) of the line, with w = floor(2u) (ties) resp. 2*floor(u) (no ties) and C = C(N1+N2,N1):
     |CDF - count_le z N1 w / C| <= tol_prob (= 1e-10)  for every real u   (count_le: #subsets with 2U <= w),
     CDF = 0 exactly for u < 0  and  CDF = 1 exactly for u >= N1*N2,
     |PMF - count_eq z N1 w / C| <= tol_prob            for 0 <= u < N1*N2 + 1/2  (count_eq: #subsets with 2U = w),
     PMF = 0 exactly                                     for u < 0 or u >= N1*N2 + 1/2.
   (Without ties and at a non-integer u the code answers for floor(u); the property speaks about the attainable
   points only, there w = 2u.)  The model's table functions do not occur: only observed numbers and Spec/Ucount.v. *)
Theorem C02_check_ok_sound : forall line code tag pos diag (cs : case02),
  check_C02 line = verdict code tag pos diag -> (code = 0 \/ code = 1)%Z ->
  p_line02 line = Some (cs, []) -> case_ok cs.
Proof. exact check_ok_sound. Qed.
Print Assumptions C02_check_ok_sound.

(* the hypothesis on p_line02 costs nothing: an accepted line always parses, completely *)
Theorem C02_check_accepted_parses : forall line code tag pos diag,
  check_C02 line = verdict code tag pos diag -> (code = 0 \/ code = 1)%Z -> exists cs, p_line02 line = Some (cs, []).
Proof. exact check_accepted_parses. Qed.
Print Assumptions C02_check_accepted_parses.

(* with ties the PMF clause needs no case split: the comparison is against the count at every real u *)
Theorem C02_check_pmf_tied_uniform : forall {X} (cmp : X -> X -> comparison) z N1 N2 tnil T u p oc,
  tie_vector_ok N1 N2 tnil T -> grouped cmp (pool_shape N1 N2 T) z -> has_ties T = true ->
  u_ok cmp z N1 N2 T (u, XFin p, oc) ->
  (Qabs (p - inject_Z (count_eq cmp z N1 (Qfloor (2 * u))) / inject_Z (C (N1 + N2) N1)) <= tol_prob)%Q.
Proof. exact @u_ok_tied_uniform. Qed.
Print Assumptions C02_check_pmf_tied_uniform.

(* ---------- non-vacuity ---------- *)
(* the canonical ranked pool satisfies [grouped] for every tie vector; Nat.compare is antisymmetric *)
Example C02_pool_exists : forall Tr, grouped Nat.compare Tr (rank_pool Tr).
Proof. exact rank_pool_grouped. Qed.
Example C02_cmp_antisym : forall a b, Nat.compare b a = CompOpp (Nat.compare a b).
Proof. intros. apply Nat.compare_antisym. Qed.
(* T = [2;1;3;1] (valid, tied, K = 4), N1 = 3: cumulative counts by the mirror model, by the table the check
   uses, and by brute-force enumeration of the 35 subsets agree for w = -2 .. 26 *)
Example C02_tied_example :
  let T := [2; 1; 3; 1]%nat in
  map (tiedA (rev T) 3) (zrange (-2) 26) = map (count_le Nat.compare (rank_pool (rev T)) 3) (zrange (-2) 26) /\
  map (cum_at (cumsum 0 (mass_table 3 4 T))) (zrange (-2) 26) = map (tiedA (rev T) 3) (zrange (-2) 26) /\
  tiedA (rev T) 3 26 = 35 /\ has_ties T = true.
Proof. vm_compute. repeat split; reflexivity. Qed.
(* two ranks (the base case at the top), negative threshold included *)
Example C02_two_rank_example :
  map (tiedA [1; 2]%nat 1) (zrange (-1) 4) = [0; 0; 2; 2; 2; 3] /\
  map (count_le Nat.compare (rank_pool [1; 2]%nat) 1) (zrange (-1) 4) = [0; 0; 2; 2; 2; 3].
Proof. vm_compute. split; reflexivity. Qed.
(* untied 3+3: the float recurrence, the integer recurrence and enumeration *)
Example C02_untied_example :
  map (fun u => Qred (untied_p 7 3 3 u)) (zrange 0 9) = map (fun u => Qred (inject_Z (untied_c 3 3 u) / 20)) (zrange 0 9) /\
  map (untied_c 3 3) (zrange 0 9) = [1; 1; 2; 3; 3; 3; 3; 2; 1; 1] /\
  map (fun u => count_eq Nat.compare (rank_pool (ones 6)) 3 (2 * u)) (zrange 0 9) = [1; 1; 2; 3; 3; 3; 3; 2; 1; 1] /\
  untied_table 3 3 = [1; 1; 2; 3; 3; 3; 3; 2; 1; 1] /\
  Qred (udist_cdf 3 3 [] (7 # 2)) = (7 # 20)%Q /\ Qred (udist_cdf 3 3 [] (13 # 2)) = (4 # 5)%Q.
Proof. vm_compute. repeat split; reflexivity. Qed.
(* the hypotheses of the PMF-level laws are satisfiable: a tied palindromic and a tied non-palindromic vector; the
   mirror law on the latter, evaluated *)
Example C02_pmf_law_examples :
  valid_T 3 2 [2; 1; 2]%nat /\ has_ties [2; 1; 2]%nat = true /\ rev [2; 1; 2]%nat = [2; 1; 2]%nat /\
  valid_T 3 4 [2; 1; 3; 1]%nat /\ has_ties [2; 1; 3; 1]%nat = true /\
  Qred (udist_pmf 3 4 [2; 1; 3; 1]%nat (5 # 2)) = Qred (udist_pmf 4 3 [2; 1; 3; 1]%nat (QN (3 * 4) - (5 # 2))) /\
  has_ties [1; 1; 1]%nat = false /\ has_ties [] = false.
Proof. unfold valid_T. vm_compute. repeat split; try reflexivity; try lia; repeat constructor. Qed.

(* two accepted lines of a real run (harness output on /repo): UDist{2,3,T=[2,1,2]} at u = -0.5, 0, 1.5, 2.25, 3, 6,
   6.5, 7 and UDist{2,2,nil} at u = -1, 0, 1.5, 2, 4, 4.5, 4.75; both parse completely and get verdict ok, so the
   hypotheses of C02_check_ok_sound are satisfiable; and the pool hypothesis of case_ok is satisfiable by
   C02_pool_exists *)
Example C02_check_ok_example :
  let l1 := [2; 2; 3; 0; 3; 2; 1; 2; 8;
             0xbfe0000000000000; 0; 0;   0; 0x3fb999999999999a; 0x3fb999999999999a;
             0x3ff8000000000000; 0x3fc999999999999a; 0x3fd3333333333333;
             0x4002000000000000; 0; 0x3fd3333333333333;
             0x4008000000000000; 0x3fd999999999999a; 0x3fe6666666666666;
             0x4018000000000000; 0x3fb999999999999a; 0x3ff0000000000000;
             0x401a000000000000; 0; 0x3ff0000000000000;   0x401c000000000000; 0; 0x3ff0000000000000;
             0; 0x4018000000000000; 0x3fe0000000000000; 0]%Z in
  let l2 := [2; 2; 2; 1; 0; 7;
             0xbff0000000000000; 0; 0;   0; 0x3fc5555555555555; 0x3fc5555555555555;
             0x3ff8000000000000; 0x3fc5555555555555; 0x3fd5555555555555;
             0x4000000000000000; 0x3fd5555555555555; 0x3fe5555555555556;
             0x4010000000000000; 0x3fc5555555555555; 0x3ff0000000000000;
             0x4012000000000000; 0; 0x3ff0000000000000;   0x4013000000000000; 0; 0x3ff0000000000000;
             0; 0x4010000000000000; 0x3fe0000000000000; 0]%Z in
  check_C02 l1 = verdict V_OK 8 (-1) [] /\ check_C02 l2 = verdict V_OK 1 (-1) [] /\
  (match p_line02 l1 with Some ((N1, N2, _, T, us, _, _), []) => (N1, N2, T, length us) = (2, 3, [2; 1; 2], 8)%nat | _ => False end) /\
  (match p_line02 l2 with Some ((N1, N2, _, T, us, _, _), []) => (N1, N2, T, length us) = (2, 2, [], 7)%nat | _ => False end).
Proof. vm_compute. repeat split; reflexivity. Qed.

(* Properties/C02.v — placeholder while the pipeline is brought up; replaced below. *)
From MM Require Import Base.Num Base.GEComb.
Theorem C02_placeholder : forall n, C n 0 = 1%Z.
Proof. exact C_n0. Qed.
Print Assumptions C02_placeholder.

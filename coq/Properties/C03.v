(* placeholder while the pipeline is brought up *)
From MM Require Import Base.Num Base.GEComb.
Theorem C03_placeholder : forall n, C n 0 = 1%Z.
Proof. exact C_n0. Qed.
Print Assumptions C03_placeholder.

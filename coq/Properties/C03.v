(* Properties/C03.v — Mann-Whitney laws at every size: errors, invariance, swap, ranges, approximation.
   ONLY statements; each is closed by a lemma from Proofs/UtestLaws.v (Proofs/Utest.v, Proofs/UtestP.v).
   The model (Model/Utest.v) is generic in the value type and its three-way comparison, assumed to be a
   total preorder; the laws that identify the sorted pool additionally assume that values comparing
   equal are the same value ([eq_is_identity]: true of Z, and of float64 values decoded exactly, where
   +0 and -0 are the same 0).  Purity (arguments unmodified, limits restored) is an observable of the
   correspondence check (flag per run), not a theorem: the model is a pure function. *)
From Coq Require Import List ZArith QArith Permutation Lia.
From MM Require Import Base.Num Base.GEComb Base.GESort Spec.Ucount Model.GEChoose Model.Udist Model.Utest
  Proofs.Utest Proofs.UtestP Proofs.UtestLaws Proofs.UtestSym Proofs.UtestSymLaws Check.GEMw Check.C03 Proofs.CheckMw Proofs.CheckC03.
Import ListNotations.
Local Open Scope Z_scope.

Definition total_preorder {A} (cmp : A -> A -> comparison) : Prop :=
  (forall a, cmp a a = Eq) /\ (forall a b, cmp b a = CompOpp (cmp a b)) /\
  (forall a b c, cmp a b <> Gt -> cmp b c <> Gt -> cmp a c <> Gt).
Definition eq_is_identity {A} (cmp : A -> A -> comparison) : Prop := forall a b, cmp a b = Eq -> a = b.

(* ErrSampleSize exactly when a sample is empty (any limits, any alternative) *)
Theorem C03_err_size_iff : forall {A} (cmp : A -> A -> comparison) cdf EL TL x1 x2 alt,
  mw_test cmp cdf EL TL x1 x2 alt = MWErrSize <-> (x1 = [] \/ x2 = []).
Proof. exact @mw_err_size_iff. Qed.
Print Assumptions C03_err_size_iff.

(* ErrSamplesEqual exactly when all pooled values are equal — in the exact branch (one tie group) and in
   the normal branch (sigma = 0) alike *)
Theorem C03_err_equal_iff : forall {A} (cmp : A -> A -> comparison), total_preorder cmp ->
  forall cdf EL TL (x1 x2 : list A) alt, x1 <> [] -> x2 <> [] ->
  (mw_test cmp cdf EL TL x1 x2 alt = MWErrEqual <-> all_equal cmp (x1 ++ x2)).
Proof. intros A cmp (Hr & Ha & Ht). exact (mw_err_equal_iff cmp Hr Ha Ht). Qed.
Print Assumptions C03_err_equal_iff.
(* sigma_U^2 of the statement is 0 exactly for one tie group and positive otherwise *)
Theorem C03_sigma2_zero_iff : forall n1 n2 T, (1 <= n1)%nat -> (1 <= n2)%nat -> Forall (fun t => (1 <= t)%nat) T ->
  lsum T = (n1 + n2)%nat -> ((sigma2 n1 n2 T == 0)%Q <-> length T = 1%nat) /\ (0 <= sigma2 n1 n2 T)%Q.
Proof. exact sigma2_zero_iff. Qed.
Print Assumptions C03_sigma2_zero_iff.

(* the result is unchanged by reordering either sample *)
Theorem C03_perm_invariant : forall {A} (cmp : A -> A -> comparison), total_preorder cmp -> eq_is_identity cmp ->
  forall cdf EL TL (x1 x1' x2 x2' : list A) alt, Permutation x1 x1' -> Permutation x2 x2' ->
  mw_test cmp cdf EL TL x1' x2' alt = mw_test cmp cdf EL TL x1 x2 alt.
Proof. intros A cmp (Hr & Ha & Ht) He. exact (mw_perm_invariant cmp Ha Ht He). Qed.
Print Assumptions C03_perm_invariant.

(* ... and by applying one strictly increasing map to all values (between any two value types) *)
Theorem C03_mono_invariant : forall {A B} (cmpA : A -> A -> comparison) (cmpB : B -> B -> comparison) (f : A -> B),
  (forall a b, cmpB (f a) (f b) = cmpA a b) ->
  forall cdf EL TL (x1 x2 : list A) alt,
  mw_test cmpB cdf EL TL (map f x1) (map f x2) alt = mw_test cmpA cdf EL TL x1 x2 alt.
Proof. exact @mw_mono_invariant. Qed.
Print Assumptions C03_mono_invariant.

(* swapping the samples: N1 <-> N2, U -> N1*N2 - U, same tie vector *)
Theorem C03_swap_stat : forall {A} (cmp : A -> A -> comparison), total_preorder cmp -> eq_is_identity cmp ->
  forall x1 x2 : list A, let s := mw_stat cmp x1 x2 in
  mw_stat cmp x2 x1 = mkStat (ms_n2 s) (ms_n1 s) (ms_T s) (ms_ties s)
                             (2 * Z.of_nat (ms_n1 s) * Z.of_nat (ms_n2 s) - ms_twoU s).
Proof. intros A cmp (Hr & Ha & Ht) He. exact (mw_swap_stat cmp Hr Ha Ht He). Qed.
Print Assumptions C03_swap_stat.
(* ... and exchanges the LocationLess and LocationGreater p-values (exact branch; via C02's mirror law) *)
Theorem C03_swap_less_greater : forall {A} (cmp : A -> A -> comparison), total_preorder cmp -> eq_is_identity cmp ->
  forall x1 x2 : list A, x1 <> [] -> x2 <> [] ->
  let s := mw_stat cmp x1 x2 in let n1 := length x1 in let n2 := length x2 in
  length (ms_T s) <> 1%nat ->
  (mw_exact_p (udist_cdf n2 n1 (ms_T s)) n2 n1 (2 * Z.of_nat n1 * Z.of_nat n2 - ms_twoU s) (-1) ==
   mw_exact_p (udist_cdf n1 n2 (ms_T s)) n1 n2 (ms_twoU s) 1)%Q /\
  (mw_exact_p (udist_cdf n2 n1 (ms_T s)) n2 n1 (2 * Z.of_nat n1 * Z.of_nat n2 - ms_twoU s) 1 ==
   mw_exact_p (udist_cdf n1 n2 (ms_T s)) n1 n2 (ms_twoU s) (-1))%Q.
Proof.
  intros A cmp (Hr & Ha & Ht) He x1 x2 H1 H2 s n1 n2 HK.
  exact (conj (mw_swap_less_greater cmp Hr Ha Ht He x1 x2 H1 H2 HK) (mw_swap_greater_less cmp Hr Ha Ht He x1 x2 H1 H2 HK)).
Qed.
Print Assumptions C03_swap_less_greater.
(* ... preserves the specified two-sided value min(1, 2 min(Pr[U'<=U], Pr[U'>=U])) for EVERY tie vector ... *)
Theorem C03_swap_two_sided_spec : forall {A} (cmp : A -> A -> comparison), total_preorder cmp -> eq_is_identity cmp ->
  forall x1 x2 : list A, x1 <> [] -> x2 <> [] ->
  let s := mw_stat cmp x1 x2 in let n1 := length x1 in let n2 := length x2 in
  length (ms_T s) <> 1%nat ->
  (mw_spec_p (udist_cdf n2 n1 (ms_T s)) n2 n1 (2 * Z.of_nat n1 * Z.of_nat n2 - ms_twoU s) 0 ==
   mw_spec_p (udist_cdf n1 n2 (ms_T s)) n1 n2 (ms_twoU s) 0)%Q.
Proof.
  intros A cmp (Hr & Ha & Ht) He x1 x2 H1 H2 s n1 n2 HK.
  exact (mw_swap_spec_two_sided cmp Hr Ha Ht x1 x2 H1 H2 HK He).
Qed.
Print Assumptions C03_swap_two_sided_spec.
(* ... and preserves the two-sided exact p-value THE CODE computes whenever the tie vector is palindromic
   (T = rev T, in particular without ties); for other tie vectors see finding D2 *)
Theorem C03_swap_two_sided_palindromic : forall {A} (cmp : A -> A -> comparison), total_preorder cmp -> eq_is_identity cmp ->
  forall x1 x2 : list A, x1 <> [] -> x2 <> [] ->
  let s := mw_stat cmp x1 x2 in let n1 := length x1 in let n2 := length x2 in
  length (ms_T s) <> 1%nat -> rev (ms_T s) = ms_T s ->
  (mw_exact_p (udist_cdf n2 n1 (ms_T s)) n2 n1 (2 * Z.of_nat n1 * Z.of_nat n2 - ms_twoU s) 0 ==
   mw_exact_p (udist_cdf n1 n2 (ms_T s)) n1 n2 (ms_twoU s) 0)%Q.
Proof.
  intros A cmp (Hr & Ha & Ht) He x1 x2 H1 H2 s n1 n2 HK Hp.
  exact (mw_swap_two_sided_palin cmp Hr Ha Ht x1 x2 H1 H2 HK He Hp).
Qed.
Print Assumptions C03_swap_two_sided_palindromic.
(* normal branch under the swap: same sigma^2, negated numerator with Less/Greater exchanged; hence for every
   Phi with Phi(-z) = 1 - Phi(z) the one-sided p-values are exchanged and the two-sided one is preserved *)
Theorem C03_swap_sigma2 : forall n1 n2 T, sigma2 n2 n1 T = sigma2 n1 n2 T.
Proof. exact sigma2_swap. Qed.
Print Assumptions C03_swap_sigma2.
Theorem C03_swap_numer : forall n1 n2 tu alt, alt = -1 \/ alt = 0 \/ alt = 1 ->
  numer2 n2 n1 (2 * Z.of_nat n1 * Z.of_nat n2 - tu) alt = - numer2 n1 n2 tu (- alt).
Proof. exact numer2_swap. Qed.
Print Assumptions C03_swap_numer.
Theorem C03_approx_swap : forall (phi_z phi_mz : Q) alt, (phi_mz == 1 - phi_z)%Q -> alt = -1 \/ alt = 0 \/ alt = 1 ->
  (mw_approx_p phi_mz alt == mw_approx_p phi_z (- alt))%Q.
Proof. exact mw_approx_swap. Qed.
Print Assumptions C03_approx_swap.
Theorem C03_use_exact_swap : forall ties n1 n2 EL TL, use_exact ties n2 n1 EL TL = use_exact ties n1 n2 EL TL.
Proof. exact use_exact_swap. Qed.
Print Assumptions C03_use_exact_swap.

(* 0 <= P <= 1: one-sided exact tails; approximate p-values for every Phi with values in [0,1] *)
Theorem C03_exact_P_range : forall {A} (cmp : A -> A -> comparison), total_preorder cmp ->
  forall x1 x2 : list A, x1 <> [] -> x2 <> [] -> let s := mw_stat cmp x1 x2 in length (ms_T s) <> 1%nat ->
  forall alt, alt = -1 \/ alt = 1 ->
  (0 <= mw_exact_p (udist_cdf (length x1) (length x2) (ms_T s)) (length x1) (length x2) (ms_twoU s) alt <= 1)%Q.
Proof. intros A cmp (Hr & Ha & Ht). exact (mw_exact_P_range cmp Hr Ha Ht). Qed.
Print Assumptions C03_exact_P_range.
(* the specified p-value is a probability for all three alternatives and EVERY tie vector; the two-sided value
   the code computes is one whenever T is palindromic (for other T it can exceed 1: finding D2) *)
Theorem C03_spec_P_range : forall {A} (cmp : A -> A -> comparison), total_preorder cmp ->
  forall x1 x2 : list A, x1 <> [] -> x2 <> [] -> let s := mw_stat cmp x1 x2 in length (ms_T s) <> 1%nat ->
  forall alt, alt = -1 \/ alt = 0 \/ alt = 1 ->
  (0 <= mw_spec_p (udist_cdf (length x1) (length x2) (ms_T s)) (length x1) (length x2) (ms_twoU s) alt <= 1)%Q.
Proof. intros A cmp (Hr & Ha & Ht). exact (mw_spec_P_range cmp Hr Ha Ht). Qed.
Print Assumptions C03_spec_P_range.
Theorem C03_exact_two_sided_range : forall {A} (cmp : A -> A -> comparison), total_preorder cmp ->
  forall x1 x2 : list A, x1 <> [] -> x2 <> [] -> let s := mw_stat cmp x1 x2 in length (ms_T s) <> 1%nat ->
  rev (ms_T s) = ms_T s ->
  (0 <= mw_exact_p (udist_cdf (length x1) (length x2) (ms_T s)) (length x1) (length x2) (ms_twoU s) 0 <= 1)%Q.
Proof. intros A cmp (Hr & Ha & Ht). exact (mw_exact_two_sided_range cmp Hr Ha Ht). Qed.
Print Assumptions C03_exact_two_sided_range.
Theorem C03_approx_P_range : forall phi alt, (0 <= phi <= 1)%Q -> (0 <= mw_approx_p phi alt <= 1)%Q.
Proof. exact mw_approx_P_range. Qed.
Print Assumptions C03_approx_P_range.

(* above the limits: N1, N2, the pair-count U, and the normal approximation of the statement — mean N1*N2/2,
   variance N1*N2/12*((N+1) - sum(t^3-t)/(N(N-1))) (Model.Utest.sigma2, positive here), continuity correction *)
Theorem C03_approx_result : forall {A} (cmp : A -> A -> comparison), total_preorder cmp ->
  forall (cdf : nat -> nat -> list nat -> Q -> Q) EL TL (x1 x2 : list A) alt, x1 <> [] -> x2 <> [] ->
  let s := mw_stat cmp x1 x2 in
  use_exact (ms_ties s) (length x1) (length x2) EL TL = false -> length (ms_T s) <> 1%nat ->
  mw_test cmp cdf EL TL x1 x2 alt =
  MWApprox (length x1) (length x2) (twoU_pairs cmp x1 x2)
           (numer2 (length x1) (length x2) (twoU_pairs cmp x1 x2) alt) (sigma2 (length x1) (length x2) (ms_T s))
  /\ (0 < sigma2 (length x1) (length x2) (ms_T s))%Q.
Proof. intros A cmp (Hr & Ha & Ht). exact (mw_approx_result cmp Hr Ha Ht). Qed.
Print Assumptions C03_approx_result.
Theorem C03_continuity_correction : forall n1 n2 tu,
  let d := tu - Z.of_nat (n1 * n2) in
  numer2 n1 n2 tu (-1) = d + 1 /\ numer2 n1 n2 tu 1 = d - 1 /\
  Z.abs (numer2 n1 n2 tu 0) = Z.max 0 (Z.abs d - 1) /\ (d <> 0 -> Z.sgn (numer2 n1 n2 tu 0) = Z.sgn d \/ numer2 n1 n2 tu 0 = 0).
Proof. exact numer2_textbook. Qed.
Print Assumptions C03_continuity_correction.

(* ---- what the correspondence check establishes (Check/C03.v over Check/GEMw.v) ---- *)
(* a family of runs accepted with code V_OK: in every run the arguments (whole backing arrays) and the limit variables
   are intact and every call agrees with the model result on the decoded inputs (run_ok, Proofs/CheckC03.v: status,
   N1, N2, U exactly, P within tolerance of the specified value / of the tail expression over the implementation's
   own Phi at the model's z); the laws above are theorems about that model result *)
Theorem C03_check_ok_sound : forall rs tag, check_runs rs 0 V_OK 0 = (V_OK, tag, None) -> Forall run_ok rs.
Proof. intros rs tag H. exact (proj2 (check_runs_ok_sound rs 0 V_OK 0 tag H ltac:(unfold V_OK; lia))). Qed.
Print Assumptions C03_check_ok_sound.
(* accepted with any code (no mismatch): additionally calls showing the known finding D2, only for the two-sided
   alternative on a non-palindromic tie vector (run_accepted) *)
Theorem C03_check_accept_sound : forall rs code tag, check_runs rs 0 V_OK 0 = (code, tag, None) -> Forall run_accepted rs.
Proof. intros rs code tag H. exact (check_runs_accept_sound rs 0 V_OK 0 code tag H). Qed.
Print Assumptions C03_check_accept_sound.

(* ---------- non-vacuity ---------- *)
Example C03_Z_instance : total_preorder Z.compare /\ eq_is_identity Z.compare.
Proof. split; [exact (conj Zcmp_refl (conj Zcmp_antisym Zcmp_trans))|]. intros a b H. now apply Z.compare_eq. Qed.
Example C03_mono_example : forall a b, Z.compare (3 * a - 7) (3 * b - 7) = Z.compare a b.
Proof.
  intros. destruct (Z.compare_spec a b); [subst; apply Z.compare_refl | apply Z.compare_lt_iff; lia | apply Z.compare_gt_iff; lia].
Qed.
(* both branches on the same data: default limits (exact) and limits (0,0) (normal approximation); swap *)
Example C03_examples :
  mw_test Z.compare udist_cdf 50 25 [1; 2; 2] [2; 3; 3; 3] (-1) = MWExact 3 4 2 (3 # 35) (3 # 35) /\
  mw_test Z.compare udist_cdf 50 25 [2; 3; 3; 3] [1; 2; 2] 1 = MWExact 4 3 22 (3 # 35) (3 # 35) /\
  mw_test Z.compare udist_cdf 0 0 [1; 2; 2] [2; 3; 3; 3] (-1) = MWApprox 3 4 2 (-9) (3456 # 504) /\
  mw_test Z.compare udist_cdf 0 0 [2; 3; 3; 3] [1; 2; 2] 1 = MWApprox 4 3 22 9 (3456 # 504) /\
  mw_test Z.compare udist_cdf 0 0 [4; 4] [4; 4; 4] 0 = MWErrEqual /\
  mw_test Z.compare udist_cdf 50 25 [4; 4] [4; 4; 4] 0 = MWErrEqual /\
  mw_test Z.compare udist_cdf 50 25 [] [4] 0 = MWErrSize.
Proof. vm_compute. repeat split; reflexivity. Qed.
(* palindromic tie vector [2;1;2]: the two-sided exact value is the same in both orders (and equals the specified one) *)
Example C03_palindromic_swap :
  rev (ms_T (mw_stat Z.compare [1; 3; 3] [1; 2])) = ms_T (mw_stat Z.compare [1; 3; 3] [1; 2]) /\
  (match mw_test Z.compare udist_cdf 50 25 [1; 3; 3] [1; 2] 0, mw_test Z.compare udist_cdf 50 25 [1; 2] [1; 3; 3] 0 with
   | MWExact 3 2 9 p ps, MWExact 2 3 3 p' ps' => Qred p = Qred p' /\ Qred p = Qred ps /\ Qred ps = Qred ps'
   | _, _ => False end).
Proof. vm_compute. repeat split; reflexivity. Qed.
(* the hypothesis of C03_check_ok_sound is satisfiable: a family of two runs (the pair and the swapped pair) accepted *)
Example C03_check_accepts_example :
  check_runs [mkRun 50 25 [1; 3; 3]%Q [1; 2]%Q [mkCall (-1) 0 3 2 (XFin (9 # 2)) (XFin (9 # 10)) (-1) (XFin 0) (XFin 0)] 1;
              mkRun 50 25 [1; 2]%Q [1; 3; 3]%Q [mkCall 1 0 2 3 (XFin (3 # 2)) (XFin (9 # 10)) 1 (XFin 0) (XFin 0)] 1] 0 V_OK 0
  = (V_OK, 34, None).
Proof. vm_compute. reflexivity. Qed.

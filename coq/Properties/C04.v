(* Properties/C04.v — t-tests and MeanCI return the textbook statistic, DoF and Student-t tails.
   ONLY statements; each is closed by [exact] of a lemma from Proofs/TTest.v.
   A test result is (N1, N2, sign of T, T^2, DoF) — the square root is never taken; mean_def and var_def
   are the definitional mean (sum/n) and sample variance (sum of squared deviations / (n-1)).
   The Student-t CDF is abstract (a function F with the stated hypotheses); the correspondence check
   instantiates it with the implementation's own TDist{DoF}.CDF, whose accuracy is property C05. *)
From Coq Require Import Reals Qreals.
From MM Require Import Base.Num Model.TTest Proofs.TTest Check.C04 Proofs.C04Sound.
Local Open Scope Q_scope.

(* The Welford loops of sample.go compute the definitional mean and variance. *)
Theorem C04_welford_mean_var : forall xs,
  (xs <> [] -> w_mean xs == mean_def xs) /\ ((2 <= length xs)%nat -> w_variance xs == var_def xs).
Proof. intros xs. split; [apply w_mean_eq | apply w_variance_eq]. Qed.
Print Assumptions C04_welford_mean_var.

(* TwoSampleTTest: pooled statistic and n1+n2-2 degrees of freedom. *)
Theorem C04_pooled_T_textbook : forall x1 x2, (2 <= length x1)%nat -> (2 <= length x2)%nat ->
  ~ (var_def x1 == 0 /\ var_def x2 == 0) ->
  exists r, two_sample x1 x2 = TOk r /\
    t_n1 r = zlen x1 /\ t_n2 r = zlen x2 /\
    t_sign r = Qsign (mean_def x1 - mean_def x2) /\
    t_sq r == (mean_def x1 - mean_def x2) * (mean_def x1 - mean_def x2) /
              (((lenQ x1 - 1) * var_def x1 + (lenQ x2 - 1) * var_def x2) / (lenQ x1 + lenQ x2 - 2) * (1 / lenQ x1 + 1 / lenQ x2)) /\
    t_dof r == lenQ x1 + lenQ x2 - 2.
Proof. exact pooled_T_textbook. Qed.
Print Assumptions C04_pooled_T_textbook.

(* TwoSampleWelchTTest: unpooled statistic and Welch-Satterthwaite degrees of freedom. *)
Theorem C04_welch_T_dof_textbook : forall x1 x2, (2 <= length x1)%nat -> (2 <= length x2)%nat ->
  ~ (var_def x1 == 0 /\ var_def x2 == 0) ->
  exists r, welch x1 x2 = TOk r /\
    t_n1 r = zlen x1 /\ t_n2 r = zlen x2 /\
    t_sign r = Qsign (mean_def x1 - mean_def x2) /\
    (let a := var_def x1 / lenQ x1 in let b := var_def x2 / lenQ x2 in
     t_sq r == (mean_def x1 - mean_def x2) * (mean_def x1 - mean_def x2) / (a + b) /\
     t_dof r == (a + b) * (a + b) / (a * a / (lenQ x1 - 1) + b * b / (lenQ x2 - 1))).
Proof. exact welch_T_dof_textbook. Qed.
Print Assumptions C04_welch_T_dof_textbook.

(* PairedTTest: the one-sample statistic of the differences against mu0, n-1 degrees of freedom. *)
Theorem C04_paired_textbook : forall x1 x2 mu0, length x1 = length x2 -> (2 <= length x1)%nat ->
  let d := vdiff x1 x2 in ~ var_def d == 0 ->
  exists r, paired x1 x2 mu0 = TOk r /\
    t_n1 r = zlen x1 /\ t_n2 r = zlen x2 /\
    t_sign r = Qsign (mean_def d - mu0) /\
    t_sq r == (mean_def d - mu0) * (mean_def d - mu0) * lenQ x1 / var_def d /\
    t_dof r == lenQ x1 - 1.
Proof. exact paired_textbook. Qed.
Print Assumptions C04_paired_textbook.

(* OneSampleTTest: T = (mean - mu0) sqrt(n) / s, n-1 degrees of freedom, N2 = 0. *)
Theorem C04_one_sample_textbook : forall x mu0, (2 <= length x)%nat -> ~ var_def x == 0 ->
  exists r, one_sample x mu0 = TOk r /\
    t_n1 r = zlen x /\ t_n2 r = 0%Z /\
    t_sign r = Qsign (mean_def x - mu0) /\
    t_sq r == (mean_def x - mu0) * (mean_def x - mu0) * lenQ x / var_def x /\
    t_dof r == lenQ x - 1.
Proof. exact one_sample_textbook. Qed.
Print Assumptions C04_one_sample_textbook.

(* The documented errors are returned exactly on these inputs (w_variance is 0 for fewer than two values
   and the definitional variance otherwise; zero variance means all values equal). *)
Theorem C04_ttest_errors_iff : forall x1 x2 mu0,
  ((two_sample x1 x2 = TErr ErrSampleSize <-> length x1 = 0%nat \/ length x2 = 0%nat) /\
   (two_sample x1 x2 = TErr ErrZeroVariance <->
      length x1 <> 0%nat /\ length x2 <> 0%nat /\ w_variance x1 == 0 /\ w_variance x2 == 0) /\
   two_sample x1 x2 <> TErr ErrMismatchedSamples) /\
  ((welch x1 x2 = TErr ErrSampleSize <-> (length x1 <= 1)%nat \/ (length x2 <= 1)%nat) /\
   (welch x1 x2 = TErr ErrZeroVariance <->
      (2 <= length x1)%nat /\ (2 <= length x2)%nat /\ w_variance x1 == 0 /\ w_variance x2 == 0) /\
   welch x1 x2 <> TErr ErrMismatchedSamples) /\
  ((paired x1 x2 mu0 = TErr ErrMismatchedSamples <-> length x1 <> length x2) /\
   (paired x1 x2 mu0 = TErr ErrSampleSize <-> length x1 = length x2 /\ (length x1 <= 1)%nat) /\
   (paired x1 x2 mu0 = TErr ErrZeroVariance <->
      length x1 = length x2 /\ (2 <= length x1)%nat /\ w_variance (vdiff x1 x2) == 0)) /\
  ((one_sample x1 mu0 = TErr ErrSampleSize <-> length x1 = 0%nat) /\
   (one_sample x1 mu0 = TErr ErrZeroVariance <-> length x1 <> 0%nat /\ w_variance x1 == 0) /\
   one_sample x1 mu0 <> TErr ErrMismatchedSamples).
Proof.
  intros. split; [apply two_sample_errors|]. split; [apply welch_errors|]. split; [apply paired_errors | apply one_sample_errors].
Qed.
Print Assumptions C04_ttest_errors_iff.

Theorem C04_zero_variance_iff_constant : forall xs, (2 <= length xs)%nat ->
  (var_def xs == 0 <-> forall x, In x xs -> x == mean_def xs).
Proof. exact var_def_zero_iff. Qed.
Print Assumptions C04_zero_variance_iff_constant.

(* Swapping the samples: T -> -T, T^2 and DoF unchanged, N1 and N2 exchanged, same error if any
   (paired test: with mu0 -> -mu0). *)
Theorem C04_ttest_swap : forall x1 x2 mu0,
  tout_rel tres_swapped (two_sample x1 x2) (two_sample x2 x1) /\
  tout_rel tres_swapped (welch x1 x2) (welch x2 x1) /\
  tout_rel tres_swapped (paired x1 x2 mu0) (paired x2 x1 (- mu0)).
Proof. intros. split; [apply two_sample_swap | split; [apply welch_swap | apply paired_swap]]. Qed.
Print Assumptions C04_ttest_swap.

(* x -> a x + b with a > 0 applied to all data (mu0 -> a mu0 for the paired test, a mu0 + b for the
   one-sample test): N1, N2, sign T, T^2, DoF and errors are unchanged. *)
Theorem C04_ttest_affine_invariant : forall a b, 0 < a -> forall x1 x2 mu0,
  let f := fun x => a * x + b in
  tout_rel tres_same (two_sample x1 x2) (two_sample (map f x1) (map f x2)) /\
  tout_rel tres_same (welch x1 x2) (welch (map f x1) (map f x2)) /\
  tout_rel tres_same (paired x1 x2 mu0) (paired (map f x1) (map f x2) (a * mu0)) /\
  tout_rel tres_same (one_sample x1 mu0) (one_sample (map f x1) (a * mu0 + b)).
Proof.
  intros a b Ha x1 x2 mu0 f. split; [apply two_sample_affine, Ha|]. split; [apply welch_affine, Ha|].
  split; [apply paired_affine, Ha | apply one_sample_affine, Ha].
Qed.
Print Assumptions C04_ttest_affine_invariant.

(* Tail selection: with T -> -T the one-sided p-values are exchanged and the two-sided one is unchanged,
   for every F with F(-t) = 1 - F(t). *)
Theorem C04_ttail_swap : forall F : Q -> Q, (forall a b, a == b -> F a == F b) -> (forall t, F (- t) == 1 - F t) ->
  forall t, ttail F (-1) (- t) == ttail F 1 t /\ ttail F 1 (- t) == ttail F (-1) t /\ ttail F 0 (- t) == ttail F 0 t.
Proof. exact ttail_swap. Qed.
Print Assumptions C04_ttail_swap.

(* Every p-value lies in [0,1] (the two-sided one for monotone F). *)
Theorem C04_ttail_range : forall F : Q -> Q, (forall a b, a == b -> F a == F b) -> (forall t, F (- t) == 1 - F t) ->
  (forall t, 0 <= F t <= 1) -> forall t,
  0 <= ttail F (-1) t <= 1 /\ 0 <= ttail F 1 t <= 1 /\
  ((forall a b, a <= b -> F a <= F b) -> 0 <= ttail F 0 t <= 1).
Proof. exact ttail_range. Qed.
Print Assumptions C04_ttail_range.

(* MeanCI: the symmetric interval whose half width t satisfies F(-t) = (1-c)/2 has content exactly c. *)
Theorem C04_meanci_content : forall F : Q -> Q, (forall t, F (- t) == 1 - F t) ->
  forall t c, F (- t) == (1 - c) / 2 -> F t - F (- t) == c.
Proof. exact meanci_content. Qed.
Print Assumptions C04_meanci_content.

(* MeanCI edges: zero width for c <= 0; infinite for c >= 1 or n <= 1; otherwise t s/sqrt(n) with the
   definitional variance and alpha = (1-c)/2; mean NaN exactly for empty input, else the definitional mean. *)
Theorem C04_meanci_edges : forall xs c,
  (c <= 0 -> snd (meanci xs c) = CIZero) /\
  (0 < c -> (1 <= c \/ (length xs <= 1)%nat) -> snd (meanci xs c) = CIInf) /\
  (0 < c -> c < 1 -> (2 <= length xs)%nat ->
     snd (meanci xs c) = CIStudent (length xs) (w_variance xs) ((1 - c) / 2) /\ w_variance xs == var_def xs) /\
  (xs = [] <-> fst (meanci xs c) = None) /\
  (xs <> [] -> exists m, fst (meanci xs c) = Some m /\ m == mean_def xs).
Proof. exact meanci_edges. Qed.
Print Assumptions C04_meanci_edges.

(* ---------- what an OK verdict of the comparator means (Check/C04.v, Proofs/C04Sound.v) ---------- *)
(* [ok v] : the verdict's code is V_OK.  [test_sound] (Proofs/C04Sound.v) unfolds to: if the model returns the
   error e then the Go call returned exactly that error; if it returns the result r then the Go call returned a
   result with N1 = t_n1 r, N2 = t_n2 r, the requested alternative, finite T, DoF, P with
     - T within tau = tr |T| + tr of  t_sign r * sqrt (t_sq r)  (stated without a root: [near_signed_root], and
       for every rational root of t_sq r as |T - sign * root| <= tau),
     - |DoF - t_dof r| <= tr * t_dof r,   tr = 1e-9 + 2^-46 n kappa(samples),
     - |P - ttail F alt T| <= 1e-9 for F = the implementation's own TDist{DoF}.CDF values at T and |T|,
     - P and both CDF values in [-1e-12, 1 + 1e-12]. *)
Theorem C04_check_test_ok_sound : forall op x1 x2 mu0 alt st n1 n2 T dof altout P cdfT cdfAbs,
  ok (check_test op x1 x2 mu0 alt st n1 n2 T dof altout P cdfT cdfAbs) ->
  test_sound op x1 x2 mu0 alt st n1 n2 T dof altout P cdfT cdfAbs.
Proof. exact check_test_ok_sound. Qed.
Print Assumptions C04_check_test_ok_sound.

(* the model's results are well formed: T^2 >= 0, sign in {-1,0,1}, sign = 0 only if T^2 = 0 (this is what
   makes the root-free comparison of T sound) *)
Theorem C04_model_result_wf : forall op x1 x2 mu0 r, c04_model op x1 x2 mu0 = TOk r -> tres_wf r.
Proof. exact model_tres_wf. Qed.
Print Assumptions C04_model_result_wf.

(* the root-free clause IS the statement about the real square root *)
Theorem C04_near_signed_root_real : forall s q x tau, (0 <= q)%Q ->
  (near_signed_root s q x tau <-> (Rabs (Q2R x - IZR s * sqrt (Q2R q)) <= Q2R tau)%R).
Proof. exact near_signed_root_real. Qed.
Print Assumptions C04_near_signed_root_real.

(* ... composed with the textbook theorems: an OK verdict on a legal input means the observed T and DoF are
   within the stated tolerance of the TEXTBOOK statistic and degrees of freedom, N1/N2 are the sample sizes *)
Theorem C04_check_welch_ok_textbook : forall x1 x2 mu0 alt st n1 n2 T dof altout P cdfT cdfAbs,
  (2 <= length x1)%nat -> (2 <= length x2)%nat -> ~ (var_def x1 == 0 /\ var_def x2 == 0) ->
  ok (check_test 1 x1 x2 mu0 alt st n1 n2 T dof altout P cdfT cdfAbs) ->
  st = 0%Z /\ n1 = zlen x1 /\ n2 = zlen x2 /\ altout = alt /\
  let d := mean_def x1 - mean_def x2 in let a := var_def x1 / lenQ x1 in let b := var_def x2 / lenQ x2 in
  T_dof_sound (c04_tr 1 x1 x2) (Qsign d) (d * d / (a + b))
    ((a + b) * (a + b) / (a * a / (lenQ x1 - 1) + b * b / (lenQ x2 - 1))) T dof.
Proof. exact check_welch_ok_textbook. Qed.
Print Assumptions C04_check_welch_ok_textbook.

Theorem C04_check_pooled_ok_textbook : forall x1 x2 mu0 alt st n1 n2 T dof altout P cdfT cdfAbs,
  (2 <= length x1)%nat -> (2 <= length x2)%nat -> ~ (var_def x1 == 0 /\ var_def x2 == 0) ->
  ok (check_test 0 x1 x2 mu0 alt st n1 n2 T dof altout P cdfT cdfAbs) ->
  st = 0%Z /\ n1 = zlen x1 /\ n2 = zlen x2 /\ altout = alt /\
  let d := mean_def x1 - mean_def x2 in
  let sp2 := ((lenQ x1 - 1) * var_def x1 + (lenQ x2 - 1) * var_def x2) / (lenQ x1 + lenQ x2 - 2) in
  T_dof_sound (c04_tr 0 x1 x2) (Qsign d) (d * d / (sp2 * (1 / lenQ x1 + 1 / lenQ x2))) (lenQ x1 + lenQ x2 - 2) T dof.
Proof. exact check_pooled_ok_textbook. Qed.
Print Assumptions C04_check_pooled_ok_textbook.

Theorem C04_check_paired_ok_textbook : forall x1 x2 mu0 alt st n1 n2 T dof altout P cdfT cdfAbs,
  length x1 = length x2 -> (2 <= length x1)%nat -> ~ var_def (vdiff x1 x2) == 0 ->
  ok (check_test 2 x1 x2 mu0 alt st n1 n2 T dof altout P cdfT cdfAbs) ->
  st = 0%Z /\ n1 = zlen x1 /\ n2 = zlen x2 /\ altout = alt /\
  let dm := mean_def (vdiff x1 x2) - mu0 in
  T_dof_sound (c04_tr 2 x1 x2) (Qsign dm) (dm * dm * lenQ x1 / var_def (vdiff x1 x2)) (lenQ x1 - 1) T dof.
Proof. exact check_paired_ok_textbook. Qed.
Print Assumptions C04_check_paired_ok_textbook.

Theorem C04_check_one_sample_ok_textbook : forall x x2 mu0 alt st n1 n2 T dof altout P cdfT cdfAbs,
  (2 <= length x)%nat -> ~ var_def x == 0 ->
  ok (check_test 3 x x2 mu0 alt st n1 n2 T dof altout P cdfT cdfAbs) ->
  st = 0%Z /\ n1 = zlen x /\ n2 = 0%Z /\ altout = alt /\
  let dm := mean_def x - mu0 in
  T_dof_sound (c04_tr 3 x x2) (Qsign dm) (dm * dm * lenQ x / var_def x) (lenQ x - 1) T dof.
Proof. exact check_one_sample_ok_textbook. Qed.
Print Assumptions C04_check_one_sample_ok_textbook.

(* MeanCI: [ci_sound] unfolds to: NaN triple for empty input; otherwise the observed mean within rounding of the
   Welford mean, zero width for c <= 0 or zero variance, (-inf, +inf) for c >= 1 or n <= 1, and for 0 < c < 1,
   n >= 2: lo < mean < hi, symmetric within rounding, (hi-mean)^2 n = t^2 s^2 within the stated relative
   tolerance for the recovered t > 0, and F(-t) within 1e-9 + t (tr + relw) of (1-c)/2 *)
Theorem C04_check_ci_ok_sound : forall xs c mean lo hi trec fneg,
  ok (check_ci xs c mean lo hi trec fneg) -> ci_sound xs c mean lo hi trec fneg.
Proof. exact check_ci_ok_sound. Qed.
Print Assumptions C04_check_ci_ok_sound.

Theorem C04_check_ci_mean_textbook : forall xs c mean lo hi trec fneg, xs <> [] ->
  ok (check_ci xs c mean lo hi trec fneg) ->
  exists mgo, mean = XFin mgo /\ Qabs (mgo - mean_def xs) <= (4 * Qofnat (length xs) + 16) * ulp53 * Qmaxabs xs.
Proof. exact check_ci_mean_textbook. Qed.
Print Assumptions C04_check_ci_mean_textbook.

(* content of the interval when F(-t) is only within e of (1-c)/2: within 2e of c *)
Theorem C04_meanci_content_approx : forall (F : Q -> Q) t c f e,
  F (- t) == f -> F t == 1 - F (- t) -> Qabs (f - (1 - c) / 2) <= e -> Qabs (F t - F (- t) - c) <= 2 * e.
Proof. exact ci_content_approx. Qed.
Print Assumptions C04_meanci_content_approx.

(* the whole comparator: an OK verdict on a line means the line decodes to a case that is sound *)
Theorem C04_check_ok_sound : forall line, ok (check_C04 line) ->
  exists cs rest, p_line line = Some (cs, rest) /\ case_sound cs.
Proof. exact check_C04_ok_sound. Qed.
Print Assumptions C04_check_ok_sound.

(* ---------- non-vacuity ---------- *)
(* {1,2,3,4} vs {2,4,6,9}: pooled T^2 = 363/127 with 6 DoF, Welch the same T^2 (equal sizes) with DoF 48387/11849; T < 0 *)
Example C04_two_sample_example :
  two_sample [1; 2; 3; 4] [2; 4; 6; 9] = TOk (mkT 4 4 (-1) (363 # 127) 6) /\
  welch [1; 2; 3; 4] [2; 4; 6; 9] = TOk (mkT 4 4 (-1) (363 # 127) (48387 # 11849)) /\
  paired [1; 2; 3; 4] [2; 4; 6; 9] 0 = TOk (mkT 4 4 (-1) (363 # 35) 3) /\
  one_sample [1; 2; 3; 4] 2 = TOk (mkT 4 0 1 (3 # 5) 3).
Proof. vm_compute. repeat split; reflexivity. Qed.
Example C04_errors_example :
  two_sample [] [1; 2] = TErr ErrSampleSize /\ two_sample [3; 3] [5; 5; 5] = TErr ErrZeroVariance /\
  welch [1] [1; 2] = TErr ErrSampleSize /\ paired [1; 2; 3] [1; 2] 0 = TErr ErrMismatchedSamples /\
  paired [1; 2; 3] [3; 4; 5] 0 = TErr ErrZeroVariance /\ one_sample [7] 1 = TErr ErrZeroVariance /\
  meanci [] (1 # 2) = (None, CIInf) /\ meanci [1; 2; 3] 0 = (Some 2, CIZero) /\
  meanci [1; 2; 3] (19 # 20) = (Some 2, CIStudent 3 1 (1 # 40)) /\ meanci [1; 2; 3] 1 = (Some 2, CIInf).
Proof. vm_compute. repeat split; reflexivity. Qed.
(* comparator soundness: ten real Go outputs (harness on /repo) are accepted, a negated T and a wrong DoF are not *)
Example C04_check_ok_example :
  ok (check_C04 ex_line_one) /\ ok (check_C04 ex_line_welch) /\ ok (check_C04 ex_line_pooled) /\
  ok (check_C04 ex_line_paired) /\ ok (check_C04 ex_line_err) /\
  ok (check_C04 ex_line_ci) /\ ok (check_C04 ex_line_ci0) /\ ok (check_C04 ex_line_ci1) /\
  ok (check_C04 ex_line_ci_empty) /\ ok (check_C04 ex_line_ci_const).
Proof. exact check_C04_ok_example. Qed.

(* Properties/C04.v — t-tests and MeanCI.  ONLY statements. *)
From MM Require Import Base.Num Model.TTest Proofs.TTest.
Local Open Scope Q_scope.

Theorem C04_ttail_swap : forall F : Q -> Q, (forall a b, a == b -> F a == F b) -> (forall t, F (- t) == 1 - F t) ->
  forall t, ttail F (-1) (- t) == ttail F 1 t /\ ttail F 1 (- t) == ttail F (-1) t /\ ttail F 0 (- t) == ttail F 0 t.
Proof. exact ttail_swap. Qed.
Print Assumptions C04_ttail_swap.

(* Properties/C05.v — Normal, Student-t and delta distributions are coherent and accurate.
   ONLY statements.  Real-valued definitions: RealSpec/Normal.v (phi, Phi), RealSpec/TDistGen.v
   (tcdf_gen, tpdf_gen: Student's t for every real nu > 0) and RealSpec/TDist.v (tcdf, tpdf: the
   same functions for nu >= 1, the form the certificate goals use).  The ACCURACY clause
   ("agrees with an independent high-precision evaluation to within 1e-9") is not a theorem:
   it is decided per case by kernel-certified goals against these definitions
   (bin/plugins/C05.py); see meta/C05.json "partial". *)
From Coq Require Import Reals.
From Coquelicot Require Import Coquelicot.
From MM Require Import Base.Num Model.Dists Proofs.Dists.
From MM Require Import RealSpec.Normal RealSpec.TDist RealSpec.TDistGen.
From MM Require Import Proofs.NormalR Proofs.NormalLim Proofs.TDistR Proofs.TDistGen.
From MM Require Check.C05 Proofs.CheckC05.

(* ---- NormalDist with Sigma > 0 (over the reals) ---- *)
(* PDF is (strictly) positive *)
Theorem C05_normal_pdf_pos : forall mu sigma : R, (0 < sigma)%R -> forall x, (0 < phi mu sigma x)%R.
Proof. exact phi_pos. Qed.
Print Assumptions C05_normal_pdf_pos.

(* CDF is increasing *)
Theorem C05_normal_cdf_increasing : forall mu sigma : R, (0 < sigma)%R ->
  forall a b, (a < b)%R -> (Phi mu sigma a < Phi mu sigma b)%R.
Proof. exact Phi_increasing. Qed.
Print Assumptions C05_normal_cdf_increasing.

(* CDF has values in (0,1) *)
Theorem C05_normal_cdf_range : forall mu sigma x : R, (0 < sigma)%R -> (0 < Phi mu sigma x < 1)%R.
Proof. exact Phi_range. Qed.
Print Assumptions C05_normal_cdf_range.

(* "tends to 0 and 1 at -inf and +inf" *)
Theorem C05_normal_cdf_limits : forall mu sigma : R, (0 < sigma)%R ->
  is_lim (Phi mu sigma) m_infty 0 /\ is_lim (Phi mu sigma) p_infty 1.
Proof. intros mu sigma Hs. split; [exact (Phi_lim_m_infty mu sigma Hs) | exact (Phi_lim_p_infty mu sigma Hs)]. Qed.
Print Assumptions C05_normal_cdf_limits.

(* ... with an explicit rate: the upper tail beyond z standard units is at most 2/pi exp(-z^2/2)
   (so Phi is within 1e-9 of 1 from 6.4 standard units on, and the Gaussian integral is sqrt(pi)/2) *)
Theorem C05_normal_tail_bound : forall mu sigma x : R, (0 < sigma)%R -> (mu <= x)%R ->
  (1 - Phi mu sigma x <= 2 / PI * exp (- ((x - mu) / sigma * ((x - mu) / sigma)) / 2))%R.
Proof. exact Phi_tail_bound. Qed.
Print Assumptions C05_normal_tail_bound.

(* CDF(c-d) + CDF(c+d) = 1 about the centre c = mu *)
Theorem C05_normal_cdf_symmetric : forall mu sigma : R, (0 < sigma)%R ->
  forall d, (Phi mu sigma (mu - d) + Phi mu sigma (mu + d) = 1)%R.
Proof. exact Phi_symmetric. Qed.
Print Assumptions C05_normal_cdf_symmetric.

(* the integral of PDF over any interval equals the difference of CDF at the end points *)
Theorem C05_normal_pdf_integral : forall mu sigma : R, (0 < sigma)%R ->
  forall a b, RInt (phi mu sigma) a b = (Phi mu sigma b - Phi mu sigma a)%R.
Proof. exact Phi_is_integral_of_phi. Qed.
Print Assumptions C05_normal_pdf_integral.

(* CDF is the antiderivative of PDF; location-scale family *)
Theorem C05_normal_cdf_derive : forall mu sigma : R, (0 < sigma)%R ->
  forall x, is_derive (Phi mu sigma) x (phi mu sigma x).
Proof. exact Phi_derive. Qed.
Print Assumptions C05_normal_cdf_derive.

Theorem C05_normal_standardise : forall mu sigma x : R, (0 < sigma)%R ->
  Phi mu sigma x = Phi 0 1 ((x - mu) / sigma).
Proof. exact Phi_standard. Qed.
Print Assumptions C05_normal_standardise.

(* ---- NormalDist.InvCDF on (0,1): specification of an exact inverse ---- *)
(* every 0 < p < 1 has exactly one quantile *)
Theorem C05_normal_quantile_exists_unique : forall mu sigma p : R, (0 < sigma)%R -> (0 < p < 1)%R ->
  exists x, Phi mu sigma x = p /\ forall y, Phi mu sigma y = p -> y = x.
Proof. exact Phi_quantile_exists. Qed.
Print Assumptions C05_normal_quantile_exists_unique.

(* "InvCDF inverts CDF": ANY q with CDF(q p) = p on (0,1) is strictly increasing in p, satisfies
   q(CDF x) = x, is the least x with CDF x >= p, and is symmetric about Mu *)
Theorem C05_normal_invcdf_spec : forall (mu sigma : R) (q : R -> R), (0 < sigma)%R ->
  (forall p, (0 < p < 1)%R -> Phi mu sigma (q p) = p) ->
  (forall p1 p2, (0 < p1)%R -> (p1 < p2)%R -> (p2 < 1)%R -> (q p1 < q p2)%R) /\
  (forall x, q (Phi mu sigma x) = x) /\
  (forall p x, (0 < p < 1)%R -> ((p <= Phi mu sigma x)%R <-> (q p <= x)%R)) /\
  (forall p, (0 < p < 1)%R -> q (1 - p)%R = (2 * mu - q p)%R) /\
  q (1 / 2)%R = mu.
Proof.
  intros mu sigma q Hs Hq. split; [exact (quantile_increasing mu sigma q Hs Hq)|].
  split; [exact (quantile_left_inverse mu sigma q Hs Hq)|].
  split; [exact (quantile_galois mu sigma q Hs Hq)|].
  split; [exact (quantile_symmetric mu sigma q Hs Hq) | exact (quantile_median mu sigma q Hs Hq)].
Qed.
Print Assumptions C05_normal_invcdf_spec.

(* "Adjust from standard normal" (normaldist.go:124): the quantile of N(mu, sigma^2) is
   x * sigma + mu for the standard quantile x *)
Theorem C05_normal_invcdf_location_scale : forall (mu sigma : R) (q : R -> R), (0 < sigma)%R ->
  (forall p, (0 < p < 1)%R -> Phi mu sigma (q p) = p) ->
  forall q0 : R -> R, (forall p, (0 < p < 1)%R -> Phi 0 1 (q0 p) = p) ->
  forall p, (0 < p < 1)%R -> q p = (q0 p * sigma + mu)%R.
Proof. exact quantile_location_scale. Qed.
Print Assumptions C05_normal_invcdf_location_scale.

(* "Rand is consistent with Mu and Sigma": x -> x * sigma + mu carries a variate with distribution
   function Phi 0 1 to one with Phi mu sigma *)
Theorem C05_normal_rand_law : forall mu sigma z x : R, (0 < sigma)%R ->
  ((z * sigma + mu <= x)%R <-> (z <= (x - mu) / sigma)%R) /\
  Phi mu sigma (z * sigma + mu) = Phi 0 1 z.
Proof. exact normal_rand_law. Qed.
Print Assumptions C05_normal_rand_law.

(* ---- TDist with EVERY real V > 0 (over the reals) ---- *)
Theorem C05_t_pdf_pos : forall nu : R, (0 < nu)%R -> forall x, (0 < tpdf_gen nu x)%R.
Proof. exact tpdf_gen_pos. Qed.
Print Assumptions C05_t_pdf_pos.

Theorem C05_t_cdf_monotone : forall nu : R, (0 < nu)%R -> forall x y, (x <= y)%R -> (tcdf_gen nu x <= tcdf_gen nu y)%R.
Proof. exact tcdf_gen_monotone. Qed.
Print Assumptions C05_t_cdf_monotone.

Theorem C05_t_cdf_increasing : forall nu : R, (0 < nu)%R -> forall x y, (x < y)%R -> (tcdf_gen nu x < tcdf_gen nu y)%R.
Proof. exact tcdf_gen_increasing. Qed.
Print Assumptions C05_t_cdf_increasing.

Theorem C05_t_cdf_range : forall nu : R, (0 < nu)%R -> forall x, (0 < tcdf_gen nu x < 1)%R.
Proof. exact tcdf_gen_range. Qed.
Print Assumptions C05_t_cdf_range.

Theorem C05_t_cdf_limits : forall nu : R, (0 < nu)%R ->
  is_lim (tcdf_gen nu) m_infty 0 /\ is_lim (tcdf_gen nu) p_infty 1.
Proof. intros nu Hnu. split; [exact (tcdf_gen_lim_m_infty nu Hnu) | exact (tcdf_gen_lim_p_infty nu Hnu)]. Qed.
Print Assumptions C05_t_cdf_limits.

Theorem C05_t_cdf_symmetric : forall nu : R, (0 < nu)%R -> forall x, (tcdf_gen nu (- x) + tcdf_gen nu x = 1)%R.
Proof. exact tcdf_gen_symmetric. Qed.
Print Assumptions C05_t_cdf_symmetric.

Theorem C05_t_pdf_integral : forall nu : R, (0 < nu)%R ->
  forall a b, RInt (tpdf_gen nu) a b = (tcdf_gen nu b - tcdf_gen nu a)%R.
Proof. exact tcdf_gen_is_integral_of_tpdf_gen. Qed.
Print Assumptions C05_t_pdf_integral.

(* the normalising constant of RealSpec/TDistGen.v, defined by J(nu) = (nu+1)/nu J(nu+2), IS the
   improper integral int_0^(pi/2) cos^(nu-1) *)
Theorem C05_t_norm_is_improper_integral : forall nu : R, (0 < nu)%R ->
  filterlim (fun A => RInt (tkernel nu) 0 A) (at_left (PI / 2)) (locally (tnorm_gen nu)).
Proof. exact tnorm_gen_is_improper. Qed.
Print Assumptions C05_t_norm_is_improper_integral.

(* for nu >= 1 these are the functions of RealSpec/TDist.v the certificate goals speak about *)
Theorem C05_t_gen_agrees : forall nu x : R, (1 <= nu)%R ->
  tcdf_gen nu x = tcdf nu x /\ tpdf_gen nu x = tpdf nu x.
Proof. intros nu x Hnu. split; [exact (tcdf_gen_eq nu x Hnu) | exact (tpdf_gen_eq nu x Hnu)]. Qed.
Print Assumptions C05_t_gen_agrees.

(* ---- exact models (Q / extended reals) ---- *)
Local Open Scope Q_scope.
(* DeltaDist.CDF is the unit step at T *)
Theorem C05_delta_cdf_step : forall T x : Q,
  (T <= x -> delta_cdf (XFin T) (XFin x) = XFin 1) /\ (x < T -> delta_cdf (XFin T) (XFin x) = XFin 0).
Proof. exact delta_cdf_step. Qed.
Print Assumptions C05_delta_cdf_step.

(* ... with quantile T: InvCDF y = T on [0,1] (NaN outside), and T is the least x with CDF x >= y *)
Theorem C05_delta_quantile : forall T y : Q,
  (0 <= y <= 1 -> delta_invcdf (XFin T) (XFin y) = XFin T) /\
  ((y < 0 \/ 1 < y) -> delta_invcdf (XFin T) (XFin y) = XNaN) /\
  (0 < y <= 1 -> forall x : Q, y <= cdf_value (delta_cdf (XFin T) (XFin x)) <-> T <= x).
Proof. exact delta_quantile. Qed.
Print Assumptions C05_delta_quantile.

(* Mean, Variance and Bounds are consistent with Mu and Sigma *)
Theorem C05_normal_moments : forall mu sigma : Q,
  normal_mean mu sigma == mu /\ normal_variance mu sigma == sigma * sigma /\
  (fst (normal_bounds mu sigma) + snd (normal_bounds mu sigma)) / 2 == mu /\
  snd (normal_bounds mu sigma) - fst (normal_bounds mu sigma) == 6 * sigma.
Proof. exact normal_moments. Qed.
Print Assumptions C05_normal_moments.

(* Rand is the affine image z * Sigma + Mu of the standard variate z drawn from the source *)
Theorem C05_normal_rand_affine : forall mu sigma z : Q, normal_rand mu sigma z == mu + sigma * z.
Proof. exact normal_rand_affine. Qed.
Print Assumptions C05_normal_rand_affine.

(* InvCDF special values: NaN outside [0,1], -inf at 0, +inf at 1 *)
Theorem C05_invcdf_special_values : forall p : Q,
  ((p < 0 \/ 1 < p) -> normal_invcdf_special (XFin p) = Some XNaN) /\
  (p == 0 -> normal_invcdf_special (XFin p) = Some (XInf true)) /\
  (p == 1 -> normal_invcdf_special (XFin p) = Some (XInf false)) /\
  (0 < p < 1 -> normal_invcdf_special (XFin p) = None).
Proof. exact invcdf_special_values. Qed.
Print Assumptions C05_invcdf_special_values.

(* the interior probabilities are split into Acklam's three regions by the float64 constants
   plow = 0.02425 and phigh = 1 - plow (this is what the coverage tags of the check report) *)
Theorem C05_invcdf_regions : forall p : Q,
  (invcdf_region_of p = RLow <-> p < acklam_plow) /\
  (invcdf_region_of p = RHigh <-> acklam_phigh < p) /\
  (invcdf_region_of p = RCentral <-> acklam_plow <= p <= acklam_phigh).
Proof. exact invcdf_regions. Qed.
Print Assumptions C05_invcdf_regions.

(* non-vacuity *)
Example C05_delta_example :
  delta_cdf (XFin 2) (XFin 2) = XFin 1 /\ delta_cdf (XFin 2) (XFin (3 # 2)) = XFin 0 /\
  delta_pdf (XFin 2) (XFin 2) = XInf false /\ delta_invcdf (XFin 2) (XFin (1 # 2)) = XFin 2 /\
  delta_invcdf (XFin 2) (XFin (3 # 2)) = XNaN /\ normal_invcdf_special (XFin (1 # 4)) = None.
Proof. vm_compute. repeat split; reflexivity. Qed.

(* the hypothesis "q inverts the CDF on (0,1)" of the InvCDF theorems is satisfiable for every
   mu and sigma > 0 (intermediate value theorem + the limits) *)
Example C05_invcdf_hypothesis_satisfiable : forall mu sigma : R, (0 < sigma)%R ->
  exists q : R -> R, forall p, (0 < p < 1)%R -> Phi mu sigma (q p) = p.
Proof. exact quantile_hyp_satisfiable. Qed.

(* ---------- what an accepted case line means, for the sub-checks with exact expected values ----------
   For EVERY line (nothing about the generator): if the comparator returns V_OK on a line that parses to a
   DeltaDist case, every reported PDF/CDF/InvCDF value equals the model's delta_pdf / delta_cdf / delta_invcdf
   (same NaN, same signed infinity, Qeq on finite values); on a Rand case every draw is finite and within
   2*2^-52*(|z sigma| + |mu + sigma z|) of normal_rand mu sigma z; on a scan case there is at least one pair,
   all values are finite and in [0,1], and xlo < xhi gives CDF(xlo) <= CDF(xhi) + 1e-12.  (Ops 1, 2 and 4 —
   the normal / t grids — judge laws on the outputs plus certificate goals and are not covered here.) *)
Theorem C05_check_ok_sound_exact_ops : forall line tag pos diag c r,
  Check.C05.check_C05 line = verdict V_OK tag pos diag -> Check.C05.p_line line = Some (c, r) ->
  Proofs.CheckC05.case05_exact_ok c.
Proof. exact Proofs.CheckC05.check_exact_ok_sound. Qed.
Print Assumptions C05_check_ok_sound_exact_ops.

(* Properties/C05.v — Normal, Student-t and delta distributions are coherent and accurate.
   ONLY statements.  Real-valued definitions: RealSpec/Normal.v (phi, Phi), RealSpec/TDist.v
   (tkernel, tcdf, tpdf).  The ACCURACY clause ("agrees with an independent high-precision
   evaluation to within 1e-9") is not a theorem: it is decided per case by kernel-certified
   goals against these definitions (bin/plugins/C05.py); see meta/C05.json "partial". *)
From Coq Require Import Reals.
From Coquelicot Require Import Coquelicot.
From MM Require Import Base.Num Model.Dists Proofs.Dists.
From MM Require Import RealSpec.Normal RealSpec.TDist Proofs.NormalR Proofs.TDistR.

(* ---- NormalDist with Sigma > 0 (over the reals) ---- *)
(* PDF is (strictly) positive *)
Theorem C05_normal_pdf_pos : forall mu sigma : R, (0 < sigma)%R -> forall x, (0 < phi mu sigma x)%R.
Proof. exact phi_pos. Qed.
Print Assumptions C05_normal_pdf_pos.

(* CDF is increasing *)
Theorem C05_normal_cdf_increasing : forall mu sigma : R, (0 < sigma)%R ->
  forall a b, (a < b)%R -> (Phi mu sigma a < Phi mu sigma b)%R.
Proof. exact Phi_increasing. Qed.
Print Assumptions C05_normal_cdf_increasing.

(* CDF has values in (0,1) *)
Theorem C05_normal_cdf_range : forall mu sigma x : R, (0 < sigma)%R -> (0 < Phi mu sigma x < 1)%R.
Proof. exact Phi_range. Qed.
Print Assumptions C05_normal_cdf_range.

(* CDF(c-d) + CDF(c+d) = 1 about the centre c = mu *)
Theorem C05_normal_cdf_symmetric : forall mu sigma : R, (0 < sigma)%R ->
  forall d, (Phi mu sigma (mu - d) + Phi mu sigma (mu + d) = 1)%R.
Proof. exact Phi_symmetric. Qed.
Print Assumptions C05_normal_cdf_symmetric.

(* the integral of PDF over any interval equals the difference of CDF at the end points *)
Theorem C05_normal_pdf_integral : forall mu sigma : R, (0 < sigma)%R ->
  forall a b, RInt (phi mu sigma) a b = (Phi mu sigma b - Phi mu sigma a)%R.
Proof. exact Phi_is_integral_of_phi. Qed.
Print Assumptions C05_normal_pdf_integral.

(* CDF is the antiderivative of PDF; location-scale family *)
Theorem C05_normal_cdf_derive : forall mu sigma : R, (0 < sigma)%R ->
  forall x, is_derive (Phi mu sigma) x (phi mu sigma x).
Proof. exact Phi_derive. Qed.
Print Assumptions C05_normal_cdf_derive.

Theorem C05_normal_standardise : forall mu sigma x : R, (0 < sigma)%R ->
  Phi mu sigma x = Phi 0 1 ((x - mu) / sigma).
Proof. exact Phi_standard. Qed.
Print Assumptions C05_normal_standardise.

(* ---- TDist with V >= 1 (over the reals) ---- *)
Theorem C05_t_pdf_pos : forall nu : R, (1 <= nu)%R -> forall x, (0 < tpdf nu x)%R.
Proof. exact tpdf_pos. Qed.
Print Assumptions C05_t_pdf_pos.

Theorem C05_t_cdf_monotone : forall nu : R, (1 <= nu)%R -> forall x y, (x <= y)%R -> (tcdf nu x <= tcdf nu y)%R.
Proof. exact tcdf_monotone. Qed.
Print Assumptions C05_t_cdf_monotone.

Theorem C05_t_cdf_range : forall nu : R, (1 <= nu)%R -> forall x, (0 <= tcdf nu x <= 1)%R.
Proof. exact tcdf_range. Qed.
Print Assumptions C05_t_cdf_range.

Theorem C05_t_cdf_symmetric : forall nu : R, (1 <= nu)%R -> forall x, (tcdf nu (- x) + tcdf nu x = 1)%R.
Proof. exact tcdf_symmetric. Qed.
Print Assumptions C05_t_cdf_symmetric.

Theorem C05_t_pdf_integral : forall nu : R, (1 <= nu)%R ->
  forall a b, RInt (tpdf nu) a b = (tcdf nu b - tcdf nu a)%R.
Proof. exact tcdf_is_integral_of_tpdf. Qed.
Print Assumptions C05_t_pdf_integral.

(* ---- exact models (Q / extended reals) ---- *)
Local Open Scope Q_scope.
(* DeltaDist.CDF is the unit step at T *)
Theorem C05_delta_cdf_step : forall T x : Q,
  (T <= x -> delta_cdf (XFin T) (XFin x) = XFin 1) /\ (x < T -> delta_cdf (XFin T) (XFin x) = XFin 0).
Proof. exact delta_cdf_step. Qed.
Print Assumptions C05_delta_cdf_step.

(* ... with quantile T: InvCDF y = T on [0,1] (NaN outside), and T is the least x with CDF x >= y *)
Theorem C05_delta_quantile : forall T y : Q,
  (0 <= y <= 1 -> delta_invcdf (XFin T) (XFin y) = XFin T) /\
  ((y < 0 \/ 1 < y) -> delta_invcdf (XFin T) (XFin y) = XNaN) /\
  (0 < y <= 1 -> forall x : Q, y <= cdf_value (delta_cdf (XFin T) (XFin x)) <-> T <= x).
Proof. exact delta_quantile. Qed.
Print Assumptions C05_delta_quantile.

(* Mean, Variance and Bounds are consistent with Mu and Sigma; Rand is the affine image of a standard variate *)
Theorem C05_normal_moments : forall mu sigma : Q,
  normal_mean mu sigma == mu /\ normal_variance mu sigma == sigma * sigma /\
  (fst (normal_bounds mu sigma) + snd (normal_bounds mu sigma)) / 2 == mu /\
  snd (normal_bounds mu sigma) - fst (normal_bounds mu sigma) == 6 * sigma.
Proof. exact normal_moments. Qed.
Print Assumptions C05_normal_moments.

(* InvCDF special values: NaN outside [0,1], -inf at 0, +inf at 1 *)
Theorem C05_invcdf_special_values : forall p : Q,
  ((p < 0 \/ 1 < p) -> normal_invcdf_special (XFin p) = Some XNaN) /\
  (p == 0 -> normal_invcdf_special (XFin p) = Some (XInf true)) /\
  (p == 1 -> normal_invcdf_special (XFin p) = Some (XInf false)) /\
  (0 < p < 1 -> normal_invcdf_special (XFin p) = None).
Proof. exact invcdf_special_values. Qed.
Print Assumptions C05_invcdf_special_values.

(* non-vacuity *)
Example C05_delta_example :
  delta_cdf (XFin 2) (XFin 2) = XFin 1 /\ delta_cdf (XFin 2) (XFin (3 # 2)) = XFin 0 /\
  delta_pdf (XFin 2) (XFin 2) = XInf false /\ delta_invcdf (XFin 2) (XFin (1 # 2)) = XFin 2 /\
  delta_invcdf (XFin 2) (XFin (3 # 2)) = XNaN /\ normal_invcdf_special (XFin (1 # 4)) = None.
Proof. vm_compute. repeat split; reflexivity. Qed.

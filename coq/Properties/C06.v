(* placeholder — replaced by the real statements *)
From MM Require Import Base.Num Model.Choose.
Theorem C06_placeholder : choose 4 2 = 6%Z.
Proof. reflexivity. Qed.
Print Assumptions C06_placeholder.

(* Properties/C06.v — Binomial and hypergeometric PMF/CDF equal the exact rational probabilities.
   ONLY statements; each is closed by [exact] of a lemma from Proofs/{Choose,Binom,Hyperg}.v.
   Conventions: n, N, K are Go ints (Z); p is the exact rational value of the float64 P; k is the
   exact rational value of the float64 argument, ki = floor k.  [binom] is Pascal's triangle,
   [bterm p q n k] = C(n,k) p^k q^(n-k), [Qsum_range f lo hi] = sum of f over the integers lo..hi. *)
From MM Require Import Base.Num Base.GFSum Base.GFComb Model.Choose Model.Binom Model.Hyperg
                       Proofs.Choose Proofs.Binom Proofs.Hyperg Check.C06 Proofs.C06Table
                       Spec.C06Prob Proofs.CheckC06 Proofs.C06Encl.
From Coq Require Import Qround.
Local Open Scope Q_scope.

(* ---------- mathx.Choose ---------- *)
(* the model of Choose is the binomial coefficient defined by Pascal's rule *)
Theorem C06_choose_is_binomial : forall n k : nat, choose (Z.of_nat n) (Z.of_nat k) = binom n k.
Proof. exact choose_binom. Qed.
Print Assumptions C06_choose_is_binomial.

(* the int64 branch of Choose (n <= 20): the running product stays below 2^63 and numer/denom is
   the binomial coefficient (finite sweep, bound in the name) *)
Theorem C06_choose_small_no_overflow_upto20 : forall n k, (0 <= n <= 20)%Z -> (0 <= k <= n)%Z ->
  (falling n k < 2 ^ 63)%Z /\ choose_small n k = choose n k.
Proof. exact choose_small_no_overflow_upto20. Qed.
Print Assumptions C06_choose_small_no_overflow_upto20.

(* ---------- BinomialDist ---------- *)
(* PMF(k) is the exact rational probability C(n,k) p^k (1-p)^(n-k), 0 beyond n *)
Theorem C06_binom_pmf_exact : forall (n k : nat) p,
  binom_pmf_i (Z.of_nat n) p (Z.of_nat k) == bterm p (1 - p) n k.
Proof. exact binom_pmf_i_bterm. Qed.
Print Assumptions C06_binom_pmf_exact.

(* non-integer k is treated as floor k; zero outside the support *)
Theorem C06_binom_pmf_floor_support : forall n p k,
  binom_pmf n p k = binom_pmf n p (inject_Z (Qfloor k)) /\
  ((Qfloor k < 0 \/ n < Qfloor k)%Z -> binom_pmf n p k = 0).
Proof. intros n p k. split; [apply binom_pmf_floor | apply binom_pmf_zero_outside]. Qed.
Print Assumptions C06_binom_pmf_floor_support.

(* Bounds() = (0, N) are exactly the end points of the support (for 0 < P < 1) *)
Theorem C06_binom_bounds_support : forall (n : nat) p ki, 0 < p -> p < 1 ->
  (~ binom_pmf_i (Z.of_nat n) p ki == 0 <-> (fst (binom_bounds (Z.of_nat n)) <= ki <= snd (binom_bounds (Z.of_nat n)))%Z).
Proof. exact binom_bounds_support. Qed.
Print Assumptions C06_binom_bounds_support.

(* the PMF sums to 1 (binomial theorem) *)
Theorem C06_binom_pmf_sums_to_one : forall (n : nat) p,
  Qsum_range (binom_pmf_i (Z.of_nat n) p) 0 (Z.of_nat n) == 1.
Proof. exact binom_pmf_sums_to_one. Qed.
Print Assumptions C06_binom_pmf_sums_to_one.

(* CDF(k) as the code computes it — guards, then the regularized incomplete beta function at the
   integer parameters (N-ki, ki+1) evaluated at 1-P — equals the sum of PMF over the integers
   <= floor k, for EVERY k (0 below the support, 1 from its top are the two corollaries) *)
Theorem C06_binom_cdf_is_sum : forall (n : nat) p k,
  binom_cdf (Z.of_nat n) p k == Qsum_range (fun j => binom_pmf (Z.of_nat n) p (inject_Z j)) 0 (Qfloor k).
Proof. exact binom_cdf_is_sum. Qed.
Print Assumptions C06_binom_cdf_is_sum.

Theorem C06_binom_cdf_tails : forall n p k, (0 <= n)%Z ->
  ((Qfloor k < 0)%Z -> binom_cdf n p k = 0) /\ ((n <= Qfloor k)%Z -> binom_cdf n p k = 1).
Proof.
  intros n p k Hn. split; [apply binom_cdf_zero_below | apply binom_cdf_one_from_top; assumption].
Qed.
Print Assumptions C06_binom_cdf_tails.

(* Mean() and Variance() are the first two moments of the PMF; NormalApprox has these parameters *)
Theorem C06_binom_mean : forall (n : nat) p,
  Qsum_range (fun j => inject_Z j * binom_pmf_i (Z.of_nat n) p j) 0 (Z.of_nat n) == binom_mean (Z.of_nat n) p.
Proof. exact binom_mean_is_first_moment. Qed.
Print Assumptions C06_binom_mean.

Theorem C06_binom_variance : forall (n : nat) p,
  Qsum_range (fun j => (inject_Z j - binom_mean (Z.of_nat n) p) * (inject_Z j - binom_mean (Z.of_nat n) p)
                       * binom_pmf_i (Z.of_nat n) p j) 0 (Z.of_nat n)
  == binom_var (Z.of_nat n) p.
Proof. exact binom_variance_is_second_central_moment. Qed.
Print Assumptions C06_binom_variance.

Theorem C06_binom_normal_approx : forall n p,
  binom_normal_approx n p = (binom_mean n p, binom_var n p) /\ binom_step = 1%Z.
Proof. intros. split; reflexivity. Qed.
Print Assumptions C06_binom_normal_approx.

(* ---------- HypergeometicDist ---------- *)
(* PMF is the ratio of binomial coefficients by definition of the model (hg_pmf_i), with
   [choose] = Pascal's binomial by C06_choose_is_binomial.  The support is exactly Bounds() *)
Theorem C06_hyperg_bounds_support : forall N K n, hg_valid N K n -> forall k,
  (~ hg_pmf_i N K n k == 0 <-> (fst (hg_bounds N K n) <= k <= snd (hg_bounds N K n))%Z).
Proof. exact hg_bounds_support. Qed.
Print Assumptions C06_hyperg_bounds_support.

(* Vandermonde: the PMF sums to 1 over the support *)
Theorem C06_hyperg_pmf_sums_to_one : forall N K n, hg_valid N K n ->
  Qsum_range (hg_pmf_i N K n) (hg_lo N K n) (hg_hi N K n) == 1.
Proof. exact hg_pmf_sums_to_one. Qed.
Print Assumptions C06_hyperg_pmf_sums_to_one.

(* the series of sum(): pmf(k) * (1 + a_1 + ... + a_{k-L}) telescopes to the lower partial sum *)
Theorem C06_hyperg_sum_is_cdf : forall N K n, hg_valid N K n -> forall k, (hg_lo N K n <= k <= hg_hi N K n)%Z ->
  hg_pmf_i N K n k * hg_sum N K n k == Qsum_range (hg_pmf_i N K n) (hg_lo N K n) k.
Proof. exact hg_sum_is_cdf. Qed.
Print Assumptions C06_hyperg_sum_is_cdf.

(* the flipped branch computes the same number: lower sum = 1 - lower sum of the mirrored distribution *)
Theorem C06_hyperg_flip : forall N K n k, hg_valid N K n -> (hg_lo N K n <= k < hg_hi N K n)%Z ->
  Qsum_range (hg_pmf_i N K n) (hg_lo N K n) k ==
  1 - Qsum_range (hg_pmf_i N K (N - n)) (hg_lo N K (N - n)) (K - k - 1).
Proof. exact hg_flip. Qed.
Print Assumptions C06_hyperg_flip.

(* hence CDF(k), whichever branch the flip heuristic takes, is the sum of PMF over the integers
   <= floor k; 0 below the support and 1 from its top *)
Theorem C06_hyperg_cdf_is_sum : forall N K n k, hg_valid N K n ->
  hg_cdf N K n k == Qsum_range (fun j => hg_pmf N K n (inject_Z j)) (hg_lo N K n) (Qfloor k).
Proof. exact hg_cdf_is_sum. Qed.
Print Assumptions C06_hyperg_cdf_is_sum.

Theorem C06_hyperg_floor_tails : forall N K n k, hg_valid N K n ->
  hg_pmf N K n k = hg_pmf N K n (inject_Z (Qfloor k)) /\
  ((Qfloor k < hg_lo N K n \/ hg_hi N K n < Qfloor k)%Z -> hg_pmf N K n k = 0) /\
  ((Qfloor k < hg_lo N K n)%Z -> hg_cdf N K n k = 0) /\
  ((hg_hi N K n <= Qfloor k)%Z -> hg_cdf N K n k = 1) /\ hg_step = 1%Z.
Proof.
  intros N K n k Hv. repeat split.
  - apply hg_pmf_floor.
  - apply hg_pmf_zero_outside.
  - apply hg_cdf_zero_below.
  - apply hg_cdf_one_from_top. assumption.
Qed.
Print Assumptions C06_hyperg_floor_tails.

(* Mean() and Variance() are the first two moments of the PMF, for ALL valid (N, K, Draws) *)
Theorem C06_hyperg_mean : forall N K n, hg_valid N K n -> (0 < N)%Z ->
  Qsum_range (fun j => inject_Z j * hg_pmf_i N K n j) (hg_lo N K n) (hg_hi N K n) == hg_mean N K n.
Proof. exact hg_mean_is_first_moment. Qed.
Print Assumptions C06_hyperg_mean.

Theorem C06_hyperg_variance : forall N K n, hg_valid N K n -> (2 <= N)%Z ->
  Qsum_range (fun j => (inject_Z j - hg_mean N K n) * (inject_Z j - hg_mean N K n) * hg_pmf_i N K n j)
             (hg_lo N K n) (hg_hi N K n) == hg_var N K n.
Proof. exact hg_variance_is_second_central_moment. Qed.
Print Assumptions C06_hyperg_variance.

(* ---------- the comparator ---------- *)
(* Check/C06.v evaluates one shared integer table per distribution instead of calling the model
   functions for every k.  The test it applies to an observed PMF / CDF value IS the property's
   tolerance test against the model functions: |observed - model| <= 1e-10, exactly. *)
Theorem C06_comparator_binomial : forall n p, (0 <= n)%Z -> 0 <= p <= 1 ->
  forall ki obs, (0 <= ki <= n)%Z ->
  (tab_close (binom_table n p) (t_w (binom_table n p)) (ki - t_lo (binom_table n p)) (XFin obs) = true
     <-> Qabs (obs - binom_pmf_i n p ki) <= 1 # 10000000000) /\
  (tab_close (binom_table n p) (t_cum (binom_table n p)) (ki - t_lo (binom_table n p)) (XFin obs) = true
     <-> Qabs (obs - binom_cdf_i n p ki) <= 1 # 10000000000).
Proof.
  intros n p Hn Hp ki obs Hk. destruct (binom_table_bounds n p) as [B1 B2].
  split; [apply (binom_tab_close_pmf n p Hn Hp) | apply (binom_tab_close_cdf n p Hn Hp)]; rewrite B1, B2; exact Hk.
Qed.
Print Assumptions C06_comparator_binomial.

Theorem C06_comparator_hypergeometric : forall N K n, hg_valid N K n ->
  forall ki obs, (hg_lo N K n <= ki <= hg_hi N K n)%Z ->
  (tab_close (hg_table N K n) (t_w (hg_table N K n)) (ki - t_lo (hg_table N K n)) (XFin obs) = true
     <-> Qabs (obs - hg_pmf_i N K n ki) <= 1 # 10000000000) /\
  ((ki < hg_hi N K n)%Z ->
   (tab_close (hg_table N K n) (t_cum (hg_table N K n)) (ki - t_lo (hg_table N K n)) (XFin obs) = true
     <-> Qabs (obs - hg_cdf_i N K n ki) <= 1 # 10000000000)).
Proof.
  intros N K n Hv ki obs Hk. split.
  - apply (hg_tab_close_pmf N K n Hv). exact Hk.
  - intros Hlt. apply (hg_tab_close_cdf N K n Hv). cbn [hg_table t_lo t_hi]. lia.
Qed.
Print Assumptions C06_comparator_hypergeometric.

(* ---------- what an accepted verdict of check_C06 certifies ---------- *)
(* check_C06 = parse (p_line) then compare (check_case).  If the verdict is accepted (code 0 = ok; code 1 =
   borderline is never produced by this check: there is no borderline window) then the decoded case [cs]
   satisfies [case_ok] (Proofs/CheckC06.v), which mentions only observed numbers and Spec/C06Prob.v:
   - a line on which a call panicked is never accepted;
   - binomial (N = b_n, P = b_p): 0 <= N, 0 <= P <= 1; with pr k = bin_prob N P k = C(N,k) P^k (1-P)^(N-k)
     (Pascal's C; 0 outside 0..N): Mean and NormalApprox.Mu are finite floats within tol_moment_rel
     (= 8 ulp53, relative) of the first moment  sum_{j=0..N} j pr j;  Variance likewise of the second central
     moment;  NormalApprox.Sigma = s >= 0 with |s^2 - variance| <= 2 tol_moment_rel variance;  Bounds = (0, N)
     and Step = 1 exactly;  and for EVERY item (k, PMF(k), CDF(k)) of the line: k is finite and, with
     ki = floor k, |PMF - pr ki| <= tol_abs (= 1e-10) and PMF = 0 exactly outside 0..N,
     |CDF - sum_{j=0..ki} pr j| <= tol_abs, CDF = 0 exactly for ki < 0 and CDF = 1 exactly for ki >= N;
   - hypergeometric (N, K, n = Draws): 2 <= N, 0 <= K <= N, 0 <= n <= N; the same with
     pr k = hg_prob N K n k = C(K,k) C(N-K,n-k) / C(N,n), lo = max(0, n+K-N), hi = min(n, K) in place of 0, N
     (there is no NormalApprox). *)
Theorem C06_check_ok_sound : forall line code tag pos diag cs,
  check_C06 line = verdict code tag pos diag -> (code = 0 \/ code = 1)%Z ->
  p_line line = Some (cs, []) -> case_ok cs.
Proof. exact check_ok_sound. Qed.
Print Assumptions C06_check_ok_sound.

(* the hypothesis on p_line costs nothing: an accepted line always parses, completely *)
Theorem C06_check_accepted_parses : forall line code tag pos diag,
  check_C06 line = verdict code tag pos diag -> (code = 0 \/ code = 1)%Z -> exists cs, p_line line = Some (cs, []).
Proof. exact check_accepted_parses. Qed.
Print Assumptions C06_check_accepted_parses.

(* the PMF / CDF part spelled out without the predicates, for every item of an accepted line *)
Theorem C06_accepted_binomial_item : forall line code tag pos diag c kb pb cb,
  check_C06 line = verdict code tag pos diag -> (code = 0 \/ code = 1)%Z -> p_line line = Some (CBin c, []) ->
  In (kb, pb, cb) (b_items c) ->
  exists k pm cd, decode_bits kb = XFin k /\ decode_bits pb = XFin pm /\ decode_bits cb = XFin cd /\
    Qabs (pm - bin_prob (b_n c) (b_p c) (Qfloor k)) <= tol_abs /\
    Qabs (cd - Qsum_range (bin_prob (b_n c) (b_p c)) 0 (Qfloor k)) <= tol_abs /\
    ((Qfloor k < 0 \/ b_n c < Qfloor k)%Z -> pm == 0) /\ ((Qfloor k < 0)%Z -> cd == 0) /\ ((b_n c <= Qfloor k)%Z -> cd == 1).
Proof. exact accepted_binomial_item. Qed.
Print Assumptions C06_accepted_binomial_item.

Theorem C06_accepted_hypergeometric_item : forall line code tag pos diag c kb pb cb,
  check_C06 line = verdict code tag pos diag -> (code = 0 \/ code = 1)%Z -> p_line line = Some (CHg c, []) ->
  In (kb, pb, cb) (h_items c) ->
  let lo := Z.max 0 (h_n c + h_K c - h_N c) in let hi := Z.min (h_n c) (h_K c) in
  exists k pm cd, decode_bits kb = XFin k /\ decode_bits pb = XFin pm /\ decode_bits cb = XFin cd /\
    Qabs (pm - hg_prob (h_N c) (h_K c) (h_n c) (Qfloor k)) <= tol_abs /\
    Qabs (cd - Qsum_range (hg_prob (h_N c) (h_K c) (h_n c)) lo (Qfloor k)) <= tol_abs /\
    ((Qfloor k < lo \/ hi < Qfloor k)%Z -> pm == 0) /\ ((Qfloor k < lo)%Z -> cd == 0) /\ ((hi <= Qfloor k)%Z -> cd == 1).
Proof. exact accepted_hypergeometric_item. Qed.
Print Assumptions C06_accepted_hypergeometric_item.

(* ---------- non-vacuity ---------- *)
Example C06_binom_example :
  Qred (binom_pmf 5 (1 # 5) (5 # 2)) = 128 # 625 /\ Qred (binom_cdf 5 (1 # 5) (5 # 2)) = 2944 # 3125 /\
  Qred (binom_cdf 5 (1 # 5) (-1 # 2)) = 0 /\ Qred (binom_cdf 5 (1 # 5) 5) = 1 /\
  Qred (binom_mean 5 (1 # 5)) = 1 /\ Qred (binom_var 5 (1 # 5)) = 4 # 5 /\ choose 52 5 = 2598960%Z.
Proof. vm_compute. repeat split; reflexivity. Qed.

Example C06_hyperg_example :
  hg_valid 50 5 10 /\ hg_bounds 50 5 10 = (0, 5)%Z /\ hg_bounds 10 7 8 = (5, 7)%Z /\
  Qred (hg_pmf 50 5 10 (5 # 2)) = 11115 # 52969 /\
  hg_flip_test 50 5 10 2 = true /\ Qred (hg_cdf 50 5 10 2) = 504127 # 529690 /\
  hg_flip_test 50 5 10 0 = false /\ Qred (hg_cdf 50 5 10 0) = 82251 # 264845 /\
  Qred (hg_mean 50 5 10) = 1 /\ Qred (hg_var 50 5 10) = 36 # 49.
Proof. vm_compute. repeat split; try reflexivity; discriminate. Qed.

(* two accepted lines of a real run (harness output on /repo): BinomialDist{3, 0.25} at k = -1, 0, 1.5, 1.5, 3, 4
   and HypergeometicDist{6, 4, 3} at k = 0, 1, 2.5, 2.5, 3, 7; both parse completely and get verdict ok, so the
   hypotheses of C06_check_ok_sound are satisfiable (and the repeated item exercises the skip) *)
Example C06_check_ok_example :
  let l1 := [6; 0; 0; 3; 0x3fd0000000000000; 0x3fe8000000000000; 0x3fe2000000000000; 0x3fe8000000000000;
             0x3fe8000000000000; 0; 0x4008000000000000; 0x3ff0000000000000; 6;
             0xbff0000000000000; 0; 0;   0; 0x3fdb000000000000; 0x3fdb000000000002;
             0x3ff8000000000000; 0x3fdb000000000000; 0x3feb000000000000;
             0x3ff8000000000000; 0x3fdb000000000000; 0x3feb000000000000;
             0x4008000000000000; 0x3f90000000000000; 0x3ff0000000000000;
             0x4010000000000000; 0; 0x3ff0000000000000]%Z in
  let l2 := [6; 1; 0; 6; 4; 3; 0x4000000000000000; 0x3fd999999999999a; 0x3ff0000000000000; 0x4008000000000000;
             0x3ff0000000000000; 6;
             0; 0; 0;   0x3ff0000000000000; 0x3fc9999999999996; 0x3fc99999999999b0;
             0x4004000000000000; 0x3fe333333333332f; 0x3fe999999999999a;
             0x4004000000000000; 0x3fe333333333332f; 0x3fe999999999999a;
             0x4008000000000000; 0x3fc9999999999996; 0x3ff0000000000000;
             0x401c000000000000; 0; 0x3ff0000000000000]%Z in
  check_C06 l1 = verdict V_OK 1087 (-1) [] /\ check_C06 l2 = verdict V_OK 1279 (-1) [] /\
  (match p_line l1 with Some (CBin c, []) => b_n c = 3%Z /\ length (b_items c) = 6%nat | _ => False end) /\
  (match p_line l2 with Some (CHg c, []) => h_N c = 6%Z /\ length (h_items c) = 6%nat | _ => False end).
Proof. vm_compute. repeat split; reflexivity. Qed.

(* ---------- enclosure mode of the comparator (round 3, group hK) ----------
   For P (or 1-P) = m within 1e-12 of 0 at large N the exact rational (1-m)^N is out of the comparator's reach
   (N * log2 (denominator of P) bits); Check/C06.v then compares with PROVED enclosures of the exact
   probabilities instead (C06_check_ok_sound above covers that path too: its conclusion is unchanged,
   "within 1e-10 of the exact probability").  The enclosures hold for EVERY n >= 1 and 0 <= p <= 1:
   Bernoulli's inequality and "probabilities are >= 0 and sum to 1" *)
Theorem C06_binom_enclosure :
  (* Bernoulli's inequality *)
  (forall x k, 0 <= x <= 1 -> 1 - inject_Z (Z.of_nat k) * x <= qpow (1 - x) k) /\
  (* the enclosure of every probability pr ki = C(n,ki) p^ki (1-p)^(n-ki) and of every lower partial sum
     (flip = false: m = p, the big atoms are 0 and 1: pr 0 in [1 - n m, 1 - n m + eps], pr 1 in [n m - eps, n m],
     pr j in [0, eps] for j >= 2, sums in [1 - eps, 1] from j = 1;  flip = true: m = 1 - p, mirrored) *)
  (forall n p (flip : bool), (1 <= n)%Z -> 0 <= p <= 1 ->
     let m := if flip then 1 - p else p in
     (forall ki, (0 <= ki <= n)%Z ->
        fst (epmf_encl n m flip ki) <= bin_prob n p ki /\ bin_prob n p ki <= snd (epmf_encl n m flip ki)) /\
     (forall ki, (0 <= ki < n)%Z ->
        fst (ecdf_encl n m flip ki) <= Qsum_range (bin_prob n p) 0 ki /\
        Qsum_range (bin_prob n p) 0 ki <= snd (ecdf_encl n m flip ki))) /\
  (* eps = n (n-1) m^2 is the width of every one of them *)
  (forall n m flip ki,
     snd (epmf_encl n m flip ki) - fst (epmf_encl n m flip ki) == encl_eps n m /\
     snd (ecdf_encl n m flip ki) - fst (ecdf_encl n m flip ki) == encl_eps n m).
Proof. exact binom_enclosure_all. Qed.
Print Assumptions C06_binom_enclosure.

Theorem C06_enclosure_mode :
  (* the mode is entered only with n >= 1 and eps <= 1e-12 *)
  (forall n p (flip : bool), encl_side n p = Some flip ->
     (1 <= n)%Z /\ encl_eps n (if flip then 1 - p else p) <= 1 # 1000000000000) /\
  (* the acceptance test on an enclosure [L, U]:  U - 1e-10 <= q <= L + 1e-10  puts q within 1e-10 of EVERY v in [L, U] *)
  (forall lu x v, encl_close lu x = true -> fst lu <= v -> v <= snd lu ->
     exists q, x = XFin q /\ Qabs (q - v) <= tol_abs).
Proof. exact encl_mode_all. Qed.
Print Assumptions C06_enclosure_mode.

(* non-vacuity: two accepted lines of a real run in enclosure mode (tag bit 2048): BinomialDist{1000, 2e-13} at
   k = -1, 0, 1, 2, 998.5, 999, 1000 and BinomialDist{300, 1 - 5e-13} at k = 0, 298, 299, 300; the mode is entered
   for both (P near 0 / P near 1), not for BinomialDist{170, 2^-40} (the largest case of the exact path) *)
Example C06_enclosure_example :
  let l1 := [0x6; 0; 0; 0x3e8; 0x3d4c25c268497682; 0x3deb7cdfd9d7bdbb; 0x3deb7cdfd9d7b7b0; 0x3deb7cdfd9d7bdbb; 0x3eeda88051ea80b2; 0; 0x408f400000000000; 0x3ff0000000000000; 0x7; 0xbff0000000000000; 0; 0; 0; 0x3fefffffffe484d8; 0x3fefffffffe484d8; 0x3ff0000000000000; 0x3deb7cdfd9c02b31; 0x3ff0000000000000; 0x4000000000000000; 0x3bd796959faddf76; 0x3ff0000000000000; 0x408f340000000000; 0; 0x3ff0000000000000; 0x408f380000000000; 0; 0x3ff0000000000000; 0x408f400000000000; 0; 0x3ff0000000000000]%Z in
  let l2 := [0x6; 0; 0; 0x12c; 0x3fefffffffffee68; 0x4072bffffffff5b1; 0x3de49e1ffffff4aa; 0x4072bffffffff5b1; 0x3ee9af975abab40e; 0; 0x4072c00000000000; 0x3ff0000000000000; 0x4; 0; 0; 0; 0x4072a00000000000; 0x3bca7abed7ff0dbd; 0x3bca7abed804b3fc; 0x4072b00000000000; 0x3de49e1ffff2be46; 0x3de49e1ffff95cfe; 0x4072c00000000000; 0x3fefffffffeb61e0; 0x3ff0000000000000]%Z in
  check_C06 l1 = verdict V_OK 0x83f (-1) [] /\ check_C06 l2 = verdict V_OK 0x815 (-1) [] /\
  (match p_line l1 with Some (CBin c, []) => b_n c = 1000%Z /\ encl_side (b_n c) (b_p c) = Some false | _ => False end) /\
  (match p_line l2 with Some (CBin c, []) => b_n c = 300%Z /\ encl_side (b_n c) (b_p c) = Some true | _ => False end) /\
  encl_side 170 (1 # 1099511627776) = None.
Proof. vm_compute. repeat split; reflexivity. Qed.

(* Properties/C07.v — generic InvCDF returns the smallest x with CDF(x) >= y; Rand samples the dist.
   ONLY statements; each is closed by [exact] of a lemma from Proofs/InvCDF.v.
   Model: Model/InvCDF.v (dist.go:116-178, 197-209; alg.go:80-102).  F is ANY function Q -> Q
   (hypotheses are stated where they are needed); pwf is the executable family of piecewise
   cdfs (ramps, jumps, flat stretches) the correspondence check runs against the Go code. *)
From MM Require Import Base.Num Model.Choose Model.Binom Model.Hyperg Model.InvCDF Proofs.InvCDF Check.C07 Proofs.InvCDFCheck.
From MM Require Import Spec.C06Prob Proofs.CheckC07.
Local Open Scope Q_scope.

(* ----- bracket expansion by doubling from 0 (dist.go:146-167), WITH its float64 rounding -----
   The model rounds every sum hiX+xdelta / loX-xdelta to 53 bits (ties to even) and overflows at 2^1024
   (Model: f64_round_Z; all operands are integers, so this is the exact float64 result).  The probes do not
   depend on the cdf: computed with that rounding they are 2^k - 1 for k <= 53, 2^k for 54 <= k <= 1023,
   then the sum overflows — to the right, and mirrored to the left. *)
Theorem C07_go_probes_closed_form :
  rprobes go_expand_fuel 0 1 = go_probes /\ rend go_expand_fuel 0 1 = BInf false /\
  lprobes go_expand_fuel 0 1 = go_probes_neg /\ lend go_expand_fuel 0 1 = BInf true.
Proof. exact go_probes_closed_form. Qed.
Print Assumptions C07_go_probes_closed_form.
Theorem C07_go_probes_values : go_probes = map (fun k => probe_closed (Z.of_nat k)) (seq 1 1023).
Proof. exact go_probes_values. Qed.
Print Assumptions C07_go_probes_values.

(* the function the correspondence check executes (a walk over the closed-form probes) IS the model of
   the Go loops, for every F and y *)
Theorem C07_bracket_fast_correct : forall (F : Q -> Q) y, bracket_fast F y = bracket F go_expand_fuel y.
Proof. exact bracket_fast_correct. Qed.
Print Assumptions C07_bracket_fast_correct.

(* the result of the expansion, for ANY F: a bracket F lo < y <= F hi of neighbouring probes (no wider than
   its distance from the origin, + 2), or an overflow after every probe on that side failed; never out of fuel *)
Theorem C07_bracket_spec : forall (F : Q -> Q) y,
  match bracket F go_expand_fuel y with
  | BFound lo hi => F (inject_Z lo) < y /\ y <= F (inject_Z hi) /\ (lo < hi)%Z /\
                    (- go_last_probe <= lo)%Z /\ (hi <= go_last_probe)%Z /\
                    ((goes_right F y = true /\ 0 <= lo /\ hi <= 2 * lo + 2)%Z \/ (goes_right F y = false /\ hi <= 0 /\ 2 * hi - 2 <= lo)%Z)
  | BInf false => goes_right F y = true /\ forall p, In p go_probes -> F (inject_Z p) < y
  | BInf true => goes_right F y = false /\ forall p, In p go_probes_neg -> y <= F (inject_Z p)
  | BFuel => False
  end.
Proof. exact bracket_spec. Qed.
Print Assumptions C07_bracket_spec.

(* for a non-decreasing F the infinite result is never a wrong finite value: +Inf only if F < y all the
   way up to 2^1023, -Inf only if F >= y all the way down to -2^1023 *)
Theorem C07_bracket_inv : forall (F : Q -> Q), (forall a b, a <= b -> F a <= F b) -> forall y,
  match bracket F go_expand_fuel y with
  | BFound lo hi => F (inject_Z lo) < y /\ y <= F (inject_Z hi) /\ (lo < hi)%Z
  | BInf false => forall x, x <= inject_Z go_last_probe -> F x < y
  | BInf true => forall x, - inject_Z go_last_probe <= x -> y <= F x
  | BFuel => False
  end.
Proof. exact bracket_inv. Qed.
Print Assumptions C07_bracket_inv.

(* witnesses on both sides within +-2^1023: a finite bracket is found *)
Theorem C07_bracket_found : forall (F : Q -> Q), (forall a b, a <= b -> F a <= F b) -> forall y a b,
  - inject_Z go_last_probe <= a -> F a < y -> b <= inject_Z go_last_probe -> y <= F b ->
  exists lo hi, bracket F go_expand_fuel y = BFound lo hi.
Proof. exact bracket_found. Qed.
Print Assumptions C07_bracket_found.

(* ----- boolean bisection (alg.go:80-102 with f x := CDF x < y) -----
   after EVERY number k of halvings: F x1 < y <= F x2 and x2 - x1 = (hi - lo) / 2^k.
   (The float stopping rule only decides when to stop; no hypothesis on F at all.) *)
Theorem C07_bisect_inv : forall (F : Q -> Q) k y lo hi,
  F lo < y -> y <= F hi -> lo <= hi ->
  let '(x1, x2) := bisect_bool F k y lo hi in
  F x1 < y /\ y <= F x2 /\ (x2 - x1) * qpow2 k == hi - lo /\ lo <= x1 /\ x1 <= x2 /\ x2 <= hi.
Proof. exact bisect_inv. Qed.
Print Assumptions C07_bisect_inv.

(* ----- the complete routine for ANY non-decreasing F at 0 < y < 1 -----
   never NaN, never a panic: the UPPER end x2 of a pair with F x1 < y <= F x2 that is (hi - lo) / 2^k wide
   (so x2 is within that distance of inf {x | F x >= y}, from above), or +Inf / -Inf with the guarantee of
   C07_bracket_inv *)
Theorem C07_invcdf_generic_regular : forall (F : Q -> Q) (bl bh : Q), (forall a b, a <= b -> F a <= F b) ->
  forall k y, 0 < y -> y < 1 ->
  (exists lo hi x1 x2, bracket F go_expand_fuel y = BFound lo hi /\
      bisect_bool F k y (inject_Z lo) (inject_Z hi) = (x1, x2) /\
      invcdf_generic F bl bh go_expand_fuel k y = IVal (XFin x2) /\ F x1 < y /\ y <= F x2 /\ x1 <= x2 /\
      (x2 - x1) * qpow2 k == inject_Z hi - inject_Z lo)
  \/ (invcdf_generic F bl bh go_expand_fuel k y = IVal (XInf false) /\ forall x, x <= inject_Z go_last_probe -> F x < y)
  \/ (invcdf_generic F bl bh go_expand_fuel k y = IVal (XInf true) /\ forall x, - inject_Z go_last_probe <= x -> y <= F x).
Proof. exact invcdf_generic_regular. Qed.
Print Assumptions C07_invcdf_generic_regular.

(* the value RETURNED BY THE ALGORITHM (same number of halvings) is non-decreasing in y — for every F
   whatsoever, monotone or not, infinite results included; and it always is a value (no panic) *)
Theorem C07_invcdf_generic_monotone_in_y : forall (F : Q -> Q) (bl bh : Q) k y1 y2,
  0 < y1 -> y1 <= y2 -> y2 < 1 ->
  exists r1 r2, invcdf_generic F bl bh go_expand_fuel k y1 = IVal r1 /\
                invcdf_generic F bl bh go_expand_fuel k y2 = IVal r2 /\ xr_le r1 r2.
Proof. exact invcdf_generic_monotone_in_y. Qed.
Print Assumptions C07_invcdf_generic_monotone_in_y.

(* ----- special values (dist.go:123-144) ----- *)
Theorem C07_invcdf_special_values : forall (F : Q -> Q) (bl bh : Q) fuel k y,
  ((y < 0 \/ 1 < y) -> invcdf_generic F bl bh fuel k y = IVal XNaN) /\
  (y == 0 -> F bl == 0 -> invcdf_generic F bl bh fuel k y = IVal (XFin bl)) /\
  (y == 0 -> ~ F bl == 0 -> invcdf_generic F bl bh fuel k y = IVal (XInf true)) /\
  (y == 1 -> F bh == 1 -> invcdf_generic F bl bh fuel k y = IVal (XFin bh)) /\
  (y == 1 -> ~ F bh == 1 -> invcdf_generic F bl bh fuel k y = IVal (XInf false)) /\
  (0 < y -> y < 1 -> inv_special F bl bh y = None).
Proof. exact invcdf_special_values. Qed.
Print Assumptions C07_invcdf_special_values.

(* ----- the executable oracle: pw_quantile is the generalized inverse of pw_cdf ----- *)
(* Galois connection — the lemma that makes inverse-transform sampling correct:
   the event {quantile(U) <= x} is the event {U <= cdf x} *)
Theorem C07_galois : forall pw y, pw_wf pw -> 0 < y -> y <= 1 ->
  exists q, pw_quantile pw y = Some q /\ forall x, q <= x <-> y <= pw_cdf pw x.
Proof. exact galois. Qed.
Print Assumptions C07_galois.

(* smallest x with cdf x >= y: at a flat stretch of level y its LEFT end, at a jump the jump point *)
Theorem C07_pw_quantile_spec : forall pw y, pw_wf pw -> 0 < y -> y <= 1 ->
  exists q, pw_quantile pw y = Some q /\ y <= pw_cdf pw q /\ forall x, x < q -> pw_cdf pw x < y.
Proof. exact pw_quantile_spec. Qed.
Print Assumptions C07_pw_quantile_spec.

(* a well-formed piecewise cdf is a cdf: non-decreasing, within [0,1] (so the hypotheses on F
   above are satisfiable by every member of the family) *)
Theorem C07_pw_cdf_monotone : forall pw, pw_wf pw -> forall a b, a <= b -> pw_cdf pw a <= pw_cdf pw b.
Proof. exact pw_cdf_monotone. Qed.
Print Assumptions C07_pw_cdf_monotone.
Theorem C07_pw_cdf_range : forall pw x, pw_wf pw -> 0 <= pw_cdf pw x /\ pw_cdf pw x <= 1.
Proof. exact pw_cdf_range. Qed.
Print Assumptions C07_pw_cdf_range.

Theorem C07_invcdf_monotone_in_y : forall pw y1 y2 q1 q2, pw_wf pw -> 0 < y1 -> y1 <= y2 -> y2 <= 1 ->
  pw_quantile pw y1 = Some q1 -> pw_quantile pw y2 = Some q2 -> q1 <= q2.
Proof. exact invcdf_monotone_in_y. Qed.
Print Assumptions C07_invcdf_monotone_in_y.

(* ----- algorithm vs oracle ----- *)
(* every pair the bisection can stop at encloses the quantile: x1 < x* <= x2 (strict on the left,
   also at jumps and flats), and the returned upper end exceeds x* by less than (hi - lo) / 2^k *)
Theorem C07_invcdf_enclosure : forall pw y lo hi k, pw_wf pw -> 0 < y -> y <= 1 ->
  pw_cdf pw lo < y -> y <= pw_cdf pw hi ->
  let '(x1, x2) := bisect_bool (pw_cdf pw) k y lo hi in
  exists q, pw_quantile pw y = Some q /\ x1 < q /\ q <= x2 /\ (x2 - q) * qpow2 k < hi - lo.
Proof. exact invcdf_enclosure. Qed.
Print Assumptions C07_invcdf_enclosure.

(* the complete routine (prelude, expansion with float64 rounding, k halvings) at 0 < y < 1 in terms of
   the quantile q: within (-2^1023, 2^1023] a finite value at or above q, closer than (|q| + 2) / 2^k;
   beyond 2^1023 the closure returns +Inf, at or below -2^1023 it returns -Inf *)
Theorem C07_invcdf_generic_pw_spec : forall pw bl bh k y q, pw_wf pw -> 0 < y -> y < 1 -> pw_quantile pw y = Some q ->
  (- inject_Z go_last_probe < q -> q <= inject_Z go_last_probe ->
     exists x2, invcdf_generic (pw_cdf pw) bl bh go_expand_fuel k y = IVal (XFin x2) /\
                q <= x2 /\ (x2 - q) * qpow2 k < Qabs q + 2) /\
  (inject_Z go_last_probe < q -> invcdf_generic (pw_cdf pw) bl bh go_expand_fuel k y = IVal (XInf false)) /\
  (q <= - inject_Z go_last_probe -> invcdf_generic (pw_cdf pw) bl bh go_expand_fuel k y = IVal (XInf true)).
Proof. exact invcdf_generic_pw_spec. Qed.
Print Assumptions C07_invcdf_generic_pw_spec.

Theorem C07_invcdf_generic_pw_total : forall pw bl bh k y, pw_wf pw -> 0 < y -> y < 1 ->
  (forall kn, In kn pw -> - inject_Z go_last_probe < fst (fst kn) /\ fst (fst kn) <= inject_Z go_last_probe) ->
  exists x2 q, invcdf_generic (pw_cdf pw) bl bh go_expand_fuel k y = IVal (XFin x2) /\ pw_quantile pw y = Some q /\
               q <= x2 /\ (x2 - q) * qpow2 k < Qabs q + 2.
Proof. exact invcdf_generic_pw_total. Qed.
Print Assumptions C07_invcdf_generic_pw_total.

(* the well-formedness test the check runs on every line implies the hypothesis of the theorems *)
Theorem C07_pw_wfb_sound : forall pw, pw_wfb pw = true -> pw_wf pw.
Proof. exact pw_wfb_sound. Qed.
Print Assumptions C07_pw_wfb_sound.

(* ----- built-in discrete distributions: the expected value of the check is the FIRST support point
   of the exact cdf table (Model/Binom.v, Model/Hyperg.v) with cdf >= y: all earlier ones are below y ----- *)
Theorem C07_disc_quantile_spec : forall tab t dflt,
  (exists pre c post, tab = pre ++ (disc_quantile tab t dflt, c) :: post /\ t <= c /\
                      forall k' c', In (k', c') pre -> c' < t)
  \/ ((forall k' c', In (k', c') tab -> c' < t) /\ disc_quantile tab t dflt = last (map fst tab) dflt).
Proof. exact disc_quantile_spec. Qed.
Print Assumptions C07_disc_quantile_spec.

Example C07_disc_example :
  let tab := disc_table (binom_cdf_i 10 (1 # 2)) 0 11 in
  map (fun y => disc_quantile tab y 10) [1 # 1024; 2 # 1024; 1 # 2; 638 # 1024; 639 # 1024; 1023 # 1024; 1]
    = [0; 1; 5; 5; 6; 9; 10]%Z /\
  disc_quantile (disc_table (hg_cdf_i 10 4 3) (hg_lo 10 4 3) 4) (1 # 2) (hg_hi 10 4 3) = 1%Z.
Proof. vm_compute. repeat split; reflexivity. Qed.

(* ----- Rand (dist.go:197-209): the inverse at the FIRST NON-ZERO value of the source,
   consuming exactly the leading zeros and that value; a source of zeros only yields nothing ----- *)
Theorem C07_rand_is_inv_of_first_nonzero : forall (R : Type) (inv : Q -> R) (zeros : list Q) (y : Q) (rest : list Q),
  (forall z, In z zeros -> z == 0) -> ~ y == 0 ->
  rand_model inv (zeros ++ y :: rest) = Some (inv y, S (length zeros)).
Proof. exact rand_is_inv_of_first_nonzero. Qed.
Print Assumptions C07_rand_is_inv_of_first_nonzero.

Theorem C07_rand_none_iff_all_zero : forall (R : Type) (inv : Q -> R) (src : list Q),
  rand_model inv src = None <-> (forall z, In z src -> z == 0).
Proof. exact rand_none_iff_all_zero. Qed.
Print Assumptions C07_rand_none_iff_all_zero.

(* ----- what an ACCEPTED level of the comparator (Check/C07.v, piecewise distributions, ops 0 and 4) means,
   in terms of the specification only: the observation is within the tolerance of THE LEAST x with
   cdf x >= y, or the matching infinity exactly when that x is out of float64's reach; NaN out of range;
   the end-point rule.  No model function (bracket, bisection, probes, pw_quantile) in the conclusion. ----- *)
Theorem C07_check_pw_y_sound : forall pw bl bh y st obs tag, pw_wf pw -> 0 < y -> y < 1 ->
  check_pw_y pw bl bh (XFin y) st obs = (tag, None) ->
  st = 0%Z /\ exists q, least_ge (pw_cdf pw) y q /\
    ((- inject_Z go_last_probe < q /\ q <= inject_Z go_last_probe /\
      exists o, obs = XFin o /\ Qabs (o - q) <= tol_x pw y q /\ y - eps_level <= pw_cdf pw o)
     \/ (inject_Z go_last_probe < q /\ obs = XInf false)
     \/ (q <= - inject_Z go_last_probe /\ obs = XInf true)).
Proof. exact check_pw_y_sound. Qed.
Print Assumptions C07_check_pw_y_sound.

Theorem C07_check_pw_y_sound_special : forall pw bl bh y st obs tag,
  check_pw_y pw bl bh (XFin y) st obs = (tag, None) ->
  ((y < 0 \/ 1 < y) -> st = 0%Z /\ obs = XNaN) /\
  (y == 0 -> st = 0%Z /\ ((pw_cdf pw bl == 0 /\ exists o, obs = XFin o /\ o == bl) \/ (~ pw_cdf pw bl == 0 /\ obs = XInf true))) /\
  (y == 1 -> st = 0%Z /\ ((pw_cdf pw bh == 1 /\ exists o, obs = XFin o /\ o == bh) \/ (~ pw_cdf pw bh == 1 /\ obs = XInf false))).
Proof. exact check_pw_y_sound_special. Qed.
Print Assumptions C07_check_pw_y_sound_special.

(* the direct comparison of "non-decreasing in y": an accepted list of (index, level, result) is ordered *)
Theorem C07_mono_check_sound : forall tol l, mono_check tol l = None ->
  forall l1 i yi xi l2 j yj xj l3, l = l1 ++ (i, yi, xi) :: l2 ++ (j, yj, xj) :: l3 ->
  (yi <= yj -> xr_leb tol xi xj = true) /\ (yj <= yi -> xr_leb tol xj xi = true).
Proof. exact mono_check_sound. Qed.
Print Assumptions C07_mono_check_sound.

(* the WHOLE comparator on an op-0 line (stats.InvCDF of a harness-defined piecewise distribution): an accepted
   verdict (0 = ok, 1 = borderline) means the line parses into a well-formed cdf, every level satisfies
   [level_spec] (Proofs/InvCDFCheck.v: NaN out of range, the end-point rule at 0 and 1, within tolerance of
   the LEAST x with cdf x >= y or the matching infinity for 0 < y < 1) and the results are ordered like the levels *)
Theorem C07_check_op0_sound : forall rest c tag pos diag,
  check_C07 (7 :: 0 :: rest)%Z = verdict c tag pos diag -> (c = 0 \/ c = 1)%Z ->
  exists pw bl bh items,
    (do pw <- plist p_knot; do bl <- pQ; do bh <- pQ; do items <- plist p_item; pend (pw, bl, bh, items)) rest = Some ((pw, bl, bh, items), []) /\
    pw_wf pw /\ Forall (level_spec pw bl bh) items /\ levels_ordered items.
Proof. exact check_C07_op0_sound. Qed.
Print Assumptions C07_check_op0_sound.

Example C07_check_example :
  (* uniform on [0, 2]: level 1/4 answered by 1/2 is accepted, by 0.5000001 it is not; a point mass beyond the
     last probe must be answered by +Inf *)
  snd (check_pw_y [(0, 0, 0); (2, 1, 1)] 0 2 (XFin (1 # 4)) 0 (XFin (1 # 2))) = None /\
  snd (check_pw_y [(0, 0, 0); (2, 1, 1)] 0 2 (XFin (1 # 4)) 0 (XFin (5000001 # 10000000))) <> None /\
  snd (check_pw_y [(inject_Z (3 * 2 ^ 1022), 0, 1)] 0 0 (XFin (1 # 2)) 0 (XInf false)) = None /\
  snd (check_pw_y [(inject_Z (3 * 2 ^ 1022), 0, 1)] 0 0 (XFin (1 # 2)) 0 (XFin (inject_Z (3 * 2 ^ 1022)))) <> None.
Proof. vm_compute. repeat split; try reflexivity; discriminate. Qed.

(* ----- non-vacuity ----- *)
(* ramp from -1 to 0 reaching 1/4, jump to 1/2 at 0, flat until 2, ramp to 1 at 3 *)
Definition C07_ex : pwf := [(-1, 0, 0); (0, 1 # 4, 1 # 2); (2, 1 # 2, 1 # 2); (3, 1, 1)].

Example C07_oracle_example :
  pw_wfb C07_ex = true /\
  map (fun y => option_map Qred (pw_quantile C07_ex y)) [1 # 8; 1 # 4; 3 # 8; 1 # 2; 3 # 4; 1]
    = [Some (-1 # 2); Some 0; Some 0; Some 0; Some (5 # 2); Some 3] /\     (* 1/2: the LEFT end of the flat *)
  map (fun x => Qred (pw_cdf C07_ex x)) [-2; -1 # 2; 0; 1; 2; 5 # 2; 3; 4]
    = [0; 1 # 8; 1 # 2; 1 # 2; 1 # 2; 3 # 4; 1; 1].
Proof. vm_compute. repeat split; reflexivity. Qed.

Example C07_algorithm_example :
  (* left expansion, jump hit exactly / flat level: the upper end is the jump point itself *)
  invcdf_generic (pw_cdf C07_ex) (-1) 3 go_expand_fuel 30 (1 # 2) = IVal (XFin 0) /\
  bracket (pw_cdf C07_ex) go_expand_fuel (1 # 2) = BFound (-1) 0 /\
  (* right expansion 0 -> 1 -> 3, ramp *)
  bracket (pw_cdf C07_ex) go_expand_fuel (3 # 4) = BFound 1 3 /\
  invcdf_generic (pw_cdf C07_ex) (-1) 3 go_expand_fuel 30 (3 # 4) = IVal (XFin (5 # 2)) /\
  (* fuel too small to reach the support (model artefact, never with go_expand_fuel) *)
  invcdf_generic (pw_cdf C07_ex) (-1) 3 1 30 (3 # 4) = INoBracket false /\
  (* special values *)
  invcdf_generic (pw_cdf C07_ex) (-1) 3 go_expand_fuel 30 0 = IVal (XFin (-1)) /\
  invcdf_generic (pw_cdf C07_ex) 0 3 go_expand_fuel 30 0 = IVal (XInf true) /\
  invcdf_generic (pw_cdf C07_ex) (-1) 3 go_expand_fuel 30 1 = IVal (XFin 3) /\
  invcdf_generic (pw_cdf C07_ex) (-1) (5 # 2) go_expand_fuel 30 1 = IVal (XInf false) /\
  invcdf_generic (pw_cdf C07_ex) (-1) 3 go_expand_fuel 30 (-1 # 10) = IVal XNaN /\
  invcdf_generic (pw_cdf C07_ex) (-1) 3 go_expand_fuel 30 (11 # 10) = IVal XNaN /\
  pw_invcdf C07_ex (-1) 3 30 XNaN = IPanic.
Proof. vm_compute. repeat split; reflexivity. Qed.

(* far out and beyond the last probe: a point mass at 3 * 2^1022 is not reachable, one at 2^1023 is;
   2^54 - 1 is not a float64: the probe after 2^53 - 1 is 2^54 *)
Example C07_overflow_example :
  let far := inject_Z (3 * 2 ^ 1022) in let last := inject_Z (2 ^ 1023) in
  invcdf_generic (pw_cdf [(far, 0, 1)]) far far go_expand_fuel 0 (1 # 2) = IVal (XInf false) /\
  invcdf_generic (pw_cdf [(- far, 0, 1)]) (- far) (- far) go_expand_fuel 0 (1 # 2) = IVal (XInf true) /\
  invcdf_generic (pw_cdf [(- last, 0, 1)]) (- last) (- last) go_expand_fuel 0 (1 # 2) = IVal (XInf true) /\
  invcdf_generic (pw_cdf [(last, 0, 1)]) last last go_expand_fuel 0 (1 # 2) = IVal (XFin last) /\
  bracket (pw_cdf [(inject_Z (2 ^ 54), 0, 1)]) go_expand_fuel (1 # 2) = BFound (2 ^ 53 - 1) (2 ^ 54) /\
  f64_round_Z (2 ^ 54 - 1) = Some (2 ^ 54)%Z /\ f64_round_Z (2 ^ 1023 + 2 ^ 1023) = None.
Proof. vm_compute. repeat split; reflexivity. Qed.

Example C07_rand_example :
  rand_model (fun y => option_map Qred (pw_quantile C07_ex y)) [0; 0; 3 # 4; 1 # 8] = Some (Some (5 # 2), 3%nat) /\
  rand_model (fun y : Q => y) [0; 0] = None.
Proof. vm_compute. repeat split; reflexivity. Qed.

(* ----- (group hK) the comparator is sound on the built-in discrete distributions and on the relational op -----
   ops 1 / 2 (InvCDF of BinomialDist / HypergeometicDist): an accepted line parses completely, the parameters are
   in the property's range, every level satisfies disc_level_spec (Proofs/CheckC07.v) for the EXACT distribution
   function F k = sum of the probabilities of lo..k written with Spec/C06Prob.v only (NaN outside [0,1], the
   end-point rule at 0 and 1, and for 0 < y < 1: floor(obs) = ko is a support point, obs - ko <= 1e-9 ko,
   F ko >= y - 1e-9 and F k' < y + 1e-9 for every support point k' < ko), the results are non-decreasing in y,
   and with verdict code 0 (not borderline) ko IS the least support point with F >= y (disc_level_exact) *)
Theorem C07_check_op1_sound : forall rest c tag pos diag,
  check_C07 (7 :: 1 :: rest)%Z = verdict c tag pos diag -> (c = 0 \/ c = 1)%Z ->
  exists n p items,
    (do n <- pZ; do p <- pQ; do items <- plist p_item; pend (n, p, items)) rest = Some ((n, p, items), []) /\
    (0 <= n <= 200)%Z /\ 0 <= p <= 1 /\
    Forall (disc_level_spec (fun k => cdf_sum (bin_prob n p) 0 k) 0 n) items /\
    levels_ordered items /\
    (c = 0%Z -> Forall (disc_level_exact (fun k => cdf_sum (bin_prob n p) 0 k) 0 n) items).
Proof. exact check_C07_op1_sound. Qed.
Print Assumptions C07_check_op1_sound.

Theorem C07_check_op2_sound : forall rest c tag pos diag,
  check_C07 (7 :: 2 :: rest)%Z = verdict c tag pos diag -> (c = 0 \/ c = 1)%Z ->
  exists N K n items,
    (do N <- pZ; do K <- pZ; do n <- pZ; do items <- plist p_item; pend (N, K, n, items)) rest = Some ((N, K, n, items), []) /\
    (2 <= N <= 200)%Z /\ (0 <= K <= N)%Z /\ (0 <= n <= N)%Z /\
    let lo := Z.max 0 (n + K - N) in let hi := Z.min n K in
    Forall (disc_level_spec (fun k => cdf_sum (hg_prob N K n) lo k) lo hi) items /\
    levels_ordered items /\
    (c = 0%Z -> Forall (disc_level_exact (fun k => cdf_sum (hg_prob N K n) lo k) lo hi) items).
Proof. exact check_C07_op2_sound. Qed.
Print Assumptions C07_check_op2_sound.

(* op 6 (distributions without an exact model here; F := the implementation's own CDF as reported by the harness,
   see the header of section B of Proofs/CheckC07.v for the trusted observations): an accepted line has header
   status 0, parses completely, every level satisfies rel_level_spec (the bits of stats.InvCDF(d)(y) are the bits
   of the reference; CDF(x) >= y and CDF(x - delta) < y + slack with delta <= 1.001e-9 |x| + 2e-15 for a finite x;
   -Inf / +Inf justified by the CDF at the last finite probes; the end-point rule at 0 and 1; NaN outside [0,1]),
   the results are non-decreasing in y (exactly on the generic path, to 1e-9 relative for an own method), and every
   draw of stats.Rand(d) has the bits of the reference generator's draw *)
Theorem C07_check_op6_sound : forall rest0 c tag pos diag,
  check_C07 (7 :: 6 :: rest0)%Z = verdict c tag pos diag -> (c = 0 \/ c = 1)%Z ->
  exists h rest items pairs,
    p_relhdr rest0 = Some (h, rest) /\ rh_hst h = 0%Z /\
    (do items <- plist p_rel; do pairs <- plist p_pair; pend (h, items, pairs)) rest = Some ((h, items, pairs), []) /\
    Forall (rel_level_spec h) items /\
    levels_ordered_tol (rel_mono_tol (rh_own h)) (rel_plain items) /\
    Forall (fun gm : Z * Z => fst gm = snd gm) pairs.
Proof. exact check_C07_op6_sound. Qed.
Print Assumptions C07_check_op6_sound.

(* non-vacuity: lines produced by the harness on /repo.  BinomialDist{5, 0.3} at y = 0, 0.5, 1, 2 (ok; small table);
   BinomialDist{30, 0.25} at 0.5, 0.9 (ok; shared table); BinomialDist{5, 0.3} with the level 0.16807 = 0.7^5 = F(0)
   up to rounding added (accepted as BORDERLINE: the window form only) *)
Example C07_check_op1_example :
  check_C07 [7; 1; 5; 4599075939470750515; 4; 0; 0; 18442240474082181120; 4602678819172646912; 0; 4607182418800017408; 4607182418800017408; 0; 4617315517961601024; 4611686018427387904; 0; 9221120237041090561]%Z = verdict 0 8783 (-1) [] /\
  check_C07 [7; 1; 30; 4598175219545276416; 2; 4602678819172646912; 0; 4619567317775286272; 4606281698874543309; 0; 4622382067542392832]%Z = verdict 0 617 (-1) [] /\
  check_C07 [7; 1; 5; 4599075939470750515; 5; 0; 0; 18442240474082181120; 4602678819172646912; 0; 4607182418800017408; 4607182418800017408; 0; 4617315517961601024; 4595223380205512698; 0; 4607182418800017408; 4611686018427387904; 0; 9221120237041090561]%Z = verdict 1 74335 (-1) [].
Proof. vm_compute. repeat split; reflexivity. Qed.
(* HypergeometicDist{20, 7, 5} at y = 0.5, 0.25, 1 (shared table) *)
Example C07_check_op2_example :
  check_C07 [7; 2; 20; 7; 5; 3; 4602678819172646912; 0; 4611686018427387904; 4598175219545276416; 0; 4607182418800017408; 4607182418800017408; 0; 4617315517961601024]%Z = verdict 0 587 (-1) [].
Proof. vm_compute. reflexivity. Qed.
(* TDist{3} at y = 0.5, 0.975, 0, 1 and three Rand draws *)
Example C07_check_op6_example :
  check_C07 [7; 6; 0; 4613937818241073152; 0; 0; 13839561654909534208; 4616189618054758400; 4579226509592286528; 4607056279927966891; 0; 4607182418800017408; 4; 4602678819172646912; 0; 13593486545382453988; 13606707285761285092; 4602678819172646912; 4602678819172646904; 4381604825578692181; 4602678819172646915; 0; 13593486545382453988; 4606957238818648883; 0; 4614348650797318560; 4614348650790152326; 4606957238818648883; 4606957238818098685; 4614348650804484794; 4606957238819199079; 0; 4614348650797318560; 0; 0; 18442240474082181120; 9221120237041090561; 9221120237041090561; 9221120237041090561; 9221120237041090561; 9221120237041090561; 0; 18442240474082181120; 4607182418800017408; 0; 9218868437227405312; 9221120237041090561; 9221120237041090561; 9221120237041090561; 9221120237041090561; 9221120237041090561; 0; 9218868437227405312; 3; 4598896475860437849; 4598896475860437849; 4612058218790167034; 4612058218790167034; 4602125126516389823; 4602125126516389823]%Z = verdict 0 272411 (-1) [].
Proof. vm_compute. reflexivity. Qed.

(* Rand with a scripted source (ops 4 and 7): stats.Rand(d)(r) returned, consumed exactly the leading zeros of the
   source plus one value, the level it used is that first non-zero Float64() = v / 2^63 (rand_reading), the draw has
   the bits of InvCDF(d)(y), and that level satisfies the level specification of the distribution: level_spec of the
   piecewise cdf (op 4: the draw is within the tolerance of THE LEAST x with cdf x >= y) / rel_level_spec (op 7) *)
Theorem C07_check_op4_sound : forall rest c tag pos diag,
  check_C07 (7 :: 4 :: rest)%Z = verdict c tag pos diag -> (c = 0 \/ c = 1)%Z ->
  exists pw bl bh src st consumed y draw ist inv,
    (do pw <- plist p_knot; do bl <- pQ; do bh <- pQ; do src <- plist pZ;
     do st <- pZ; do consumed <- pZ; do y <- pX; do draw <- pZ; do ist <- pZ; do inv <- pZ;
     pend (pw, bl, bh, src, (st, consumed, y), (draw, ist, inv))) rest
      = Some ((pw, bl, bh, src, (st, consumed, y), (draw, ist, inv)), []) /\
    pw_wf pw /\ st = 0%Z /\ ist = 0%Z /\ draw = inv /\
    exists yq, xr_is yq y /\ rand_reading src consumed yq /\ level_spec pw bl bh (XFin yq, ist, decode_bits inv).
Proof. exact check_C07_op4_sound. Qed.
Print Assumptions C07_check_op4_sound.

Theorem C07_check_op7_sound : forall rest0 c tag pos diag,
  check_C07 (7 :: 7 :: rest0)%Z = verdict c tag pos diag -> (c = 0 \/ c = 1)%Z ->
  exists h rest src st consumed y draw it,
    p_relhdr rest0 = Some (h, rest) /\ rh_hst h = 0%Z /\
    (do src <- plist pZ; do st <- pZ; do consumed <- pZ; do y <- pX; do draw <- pZ; do it <- p_rel;
     pend (h, src, (st, consumed, y), draw, it)) rest = Some ((h, src, (st, consumed, y), draw, it), []) /\
    Z.land (rh_own h) 2 = 0%Z /\
    st = 0%Z /\ ri_st it = 0%Z /\ draw = ri_xb it /\
    exists yq, xr_is yq y /\ xr_is yq (ri_y it) /\ rand_reading src consumed yq /\ rel_level_spec h it.
Proof. exact check_C07_op7_sound. Qed.
Print Assumptions C07_check_op7_sound.

(* uniform-like ramp on [0, 2] (0.75 at 2-, jump to 1), source 0, 1589621259045895168: one zero skipped;
   TDist{3}, source 0, 0, 2^62 (y = 1/2 after two zeros) *)
Example C07_check_op4_op7_example :
  check_C07 [7; 4; 2; 0; 0; 0; 4611686018427387904; 4604930618986332160; 4607182418800017408; 13828865605794529280; 4609997168567123968; 2; 0; 1589621259045895168; 0; 2; 4595377478333683452; 4601950897308769957; 0; 4601950897308769957]%Z = verdict 0 6409 (-1) [] /\
  check_C07 [7; 7; 0; 4613937818241073152; 0; 0; 13839561654909534208; 4616189618054758400; 4579226509592286528; 4607056279927966891; 0; 4607182418800017408; 3; 0; 0; 4611686018427387904; 0; 3; 4602678819172646912; 13593486545382453988; 4602678819172646912; 0; 13593486545382453988; 13606707285761285092; 4602678819172646912; 4602678819172646904; 4381604825578692181; 4602678819172646915; 0; 13593486545382453988]%Z = verdict 0 268305 (-1) [].
Proof. vm_compute. split; reflexivity. Qed.

(* ----- (group hK) the remaining ops of the comparator: with this every op of check_C07 has a soundness reading -----
   op 3 (old dispatch lines): every level returned with the bits of the method, every Rand pair bit-identical;
   op 9 (own Rand method): header status 0, own bit 1 set, two equally seeded sources give the same bits, no panic;
   op 5: the Kolmogorov-Smirnov distance D computed BY THE HARNESS (trusted) is >= 0 and within the DKW bound;
   op 8: the draws reported by the harness (trusted: sorted results of stats.Rand) are non-decreasing and some d within
         the DKW bound d^2 2n <= ks_bound bounds every term (i+1)/n - cdf (v_i + tol_i), cdf (v_i - tol_i) - i/n of the
         distance to the EXACT pw_cdf (ks_pw_spec);
   op 10: the same against the harness-reported values cm_i, cp_i of the distribution's own CDF at v_i -+ tol (trusted
         observations; ks_own_spec).  Definitions: Proofs/CheckC07.v section D *)
Theorem C07_check_other_ops_sound :
  (forall rest c tag pos diag,
  check_C07 (7 :: 3 :: rest)%Z = verdict c tag pos diag -> (c = 0 \/ c = 1)%Z ->
  exists items pairs,
    (do kind <- pZ; do a <- pZ; do b <- pZ; do items <- plist p_disp; do pairs <- plist p_pair; pend (items, pairs)) rest
      = Some ((items, pairs), []) /\
    Forall disp_ok items /\ Forall (fun gm : Z * Z => fst gm = snd gm) pairs) /\
  (forall rest0 c tag pos diag,
  check_C07 (7 :: 9 :: rest0)%Z = verdict c tag pos diag -> (c = 0 \/ c = 1)%Z ->
  exists h rest items,
    p_relhdr rest0 = Some (h, rest) /\ rh_hst h = 0%Z /\
    (do items <- plist p_det; pend items) rest = Some (items, []) /\
    Z.land (rh_own h) 2 <> 0%Z /\ Forall det_ok items) /\
  (forall rest c tag pos diag,
  check_C07 (7 :: 5 :: rest)%Z = verdict c tag pos diag -> (c = 0 \/ c = 1)%Z ->
  exists pw n st D,
    (do pw <- plist p_knot; do bl <- pQ; do bh <- pQ; do n <- pZ; do st <- pZ; do d <- pX; pend (pw, n, st, d)) rest
      = Some ((pw, n, st, XFin D), []) /\
    pw_wf pw /\ (1 <= n)%Z /\ st = 0%Z /\ 0 <= D /\ D * D * inject_Z (2 * n) <= ks_bound) /\
  (forall rest c tag pos diag,
  check_C07 (7 :: 8 :: rest)%Z = verdict c tag pos diag -> (c = 0 \/ c = 1)%Z ->
  exists pw st xs,
    (do pw <- plist p_knot; do bl <- pQ; do bh <- pQ; do st <- pZ; do xs <- plist pQ; pend (pw, st, xs)) rest
      = Some ((pw, st, xs), []) /\
    pw_wf pw /\ (1 <= Z.of_nat (length xs))%Z /\ st = 0%Z /\
    exists d, ks_scan pw (inject_Z (Z.of_nat (length xs))) 0 None xs 0 = Some d /\
              0 <= d /\ d * d * inject_Z (2 * Z.of_nat (length xs)) <= ks_bound /\ ks_pw_spec pw xs d) /\
  (forall rest0 c tag pos diag,
  check_C07 (7 :: 10 :: rest0)%Z = verdict c tag pos diag -> (c = 0 \/ c = 1)%Z ->
  exists h rest st items,
    p_relhdr rest0 = Some (h, rest) /\ rh_hst h = 0%Z /\
    (do st <- pZ; do items <- plist p_ks3; pend (st, items)) rest = Some ((st, items), []) /\
    (1 <= Z.of_nat (length items))%Z /\ st = 0%Z /\
    exists d, ks_scan3 (inject_Z (Z.of_nat (length items))) 0 None items 0 = Some d /\
              0 <= d /\ d * d * inject_Z (2 * Z.of_nat (length items)) <= ks_bound /\ ks_own_spec items d).
Proof. exact check_C07_other_ops_sound. Qed.
Print Assumptions C07_check_other_ops_sound.

(* non-vacuity: harness lines on /repo.  op 8: 24 draws on the uniform ramp [0, 2]; op 5: D of 1000 draws; op 9:
   NormalDist{1, 2} (its own Rand), 8 pairs of draws; op 10: 16 draws of NormalDist{0, 1}; op 3: a line made by hand
   (the harness routes dispatch through op 6 today) *)
Example C07_check_other_ops_example :
  check_C07 [7; 8; 2; 0; 0; 0; 4611686018427387904; 4607182418800017408; 4607182418800017408; 0; 4611686018427387904; 0; 24; 4601564507825506581; 4604031484162653830; 4604468523790367079; 4604485808836977563; 4605398893786471617; 4605476699037776577; 4605878779557810446; 4606613829921255468; 4606764475279180733; 4607172468658205124; 4607251648695398505; 4608557194853247297; 4608932253007783486; 4609085129615543095; 4609163846530824703; 4609202431067824985; 4609597583038894134; 4609845519508543729; 4610038023257937338; 4610677989580986810; 4610727050083024275; 4611163245613911165; 4611319687476698677; 4611328974771484973]%Z = verdict 0 133120 (-1) [] /\
  check_C07 [7; 5; 2; 0; 0; 0; 4611686018427387904; 4607182418800017408; 4607182418800017408; 0; 4611686018427387904; 1000; 0; 4581940491576205648]%Z = verdict 0 133120 (-1) [] /\
  check_C07 [7; 9; 5; 4607182418800017408; 3; 0; 13840687554816376832; 4619567317775286272; 4563868128777713116; 4607170259999472933; 0; 4607182418800017408; 8; 0; 4604291045713334626; 0; 4604291045713334626; 0; 4609590519353098510; 0; 4609590519353098510; 0; 13831975106524502724; 0; 13831975106524502724; 0; 13833953150359623908; 0; 13833953150359623908; 0; 13837755676750333656; 0; 13837755676750333656; 0; 4604106117707519313; 0; 4604106117707519313; 0; 13822724960212438504; 0; 13822724960212438504; 0; 4609606900955663714; 0; 4609606900955663714]%Z = verdict 0 3072 (-1) [] /\
  check_C07 [7; 10; 5; 0; 3; 0; 13837309855095848960; 4613937818241073152; 4563868128777713116; 4607170259999472933; 0; 4607182418800017408; 0; 16; 13833427501210893564; 4587469862064399110; 4587469862113645374; 13833025949717896399; 4588911073875586858; 4588911073929260830; 13831394499428587360; 4593146110034785624; 4593146110068528948; 13829780151477524592; 4595665786301066736; 4595665786318370288; 13829712922043751824; 4595736677112278516; 4595736677129557776; 13829443925028546961; 4596025132009285408; 4596025132026446388; 13827886131238340178; 4597843474311396322; 4597843474327189358; 13823743794587150372; 4600066219852484623; 4600066219857473310; 13823505277735536114; 4600155231622120403; 4600155231626954825; 4577315748347727648; 4602717229891477493; 4602717229891554319; 4598476136072465280; 4603625940124175350; 4603625940126025110; 4598606782528768222; 4603651065237126993; 4603651065239023331; 4599154350144809080; 4603755813478145743; 4603755813480234048; 4604635011385301616; 4605051034232517411; 4605051034236502792; 4606936938122244674; 4605693170849154265; 4605693170853509960; 4609588518694974832; 4606619624971000478; 4606619624974398874]%Z = verdict 0 396288 (-1) [] /\
  check_C07 [7; 3; 0; 0; 0; 1; 5; 0; 7; 7; 1; 9; 9]%Z = verdict 0 1024 (-1) [].
Proof. vm_compute. repeat split; reflexivity. Qed.

(* ----- (group hK) op 11: InvCDF (UDist{N1, N2, T}) against the EXACT model of C02 -----
   The support of U is 0, 1/2, ..., N1*N2; the comparison is made in DOUBLED units: support points k = 0 .. 2 N1 N2,
   F k := udist_cdf N1 N2 T (k/2) — Model/Udist.v, the exact model of C02: by C02_cdf_tied / C02_cdf_untied
   (Properties/C02.v) it is #{N1-subsets of the pooled sample with 2U <= k} / C(N1+N2, N1) — and every level is read
   with the observed value doubled (udouble_items, Check/C07.v).  An accepted line parses completely, the parameters
   are in the property's domain (tie_vector_ok as in C02; N1+N2 <= 10, N1*N2 <= 25: what the comparator tabulates),
   every doubled level satisfies disc_level_spec, the results are ordered, and with verdict code 0 floor(2 obs) IS
   the least doubled support point with CDF >= y *)
Theorem C07_check_op11_sound : forall rest c tag pos diag,
  check_C07 (7 :: 11 :: rest)%Z = verdict c tag pos diag -> (c = 0 \/ c = 1)%Z ->
  exists n1 n2 T items,
    (do n1 <- pnat; do n2 <- pnat; do T <- plist pnat; do items <- plist p_item; pend (n1, n2, T, items)) rest
      = Some ((n1, n2, T, items), []) /\
    MM.Proofs.CheckC02.tie_vector_ok n1 n2 (match T with [] => true | _ => false end) T /\ (n1 + n2 <= 10)%nat /\ (n1 * n2 <= 25)%nat /\
    let F := fun k : Z => MM.Model.Udist.udist_cdf n1 n2 T (inject_Z k / 2) in
    let hi := (2 * Z.of_nat (n1 * n2))%Z in
    Forall (disc_level_spec F 0 hi) (udouble_items items) /\
    levels_ordered (udouble_items items) /\
    (c = 0%Z -> Forall (disc_level_exact F 0 hi) (udouble_items items)).
Proof. exact check_C07_op11_sound. Qed.
Print Assumptions C07_check_op11_sound.

(* UDist{2, 2, nil} at y = 0, 1, 0.4, 0.9, 2 (answers -Inf, 4, 2, 4, NaN: ok); UDist{2, 2, T = [2, 1, 1]} at 0.45, 0.9
   and the exact level 0.5 = CDF(1.5) (borderline) *)
Example C07_check_op11_example :
  check_C07 [7; 11; 2; 2; 0; 5; 0; 0; 18442240474082181120; 4607182418800017408; 0; 4616189618054758400; 4600877379321698714; 0; 4611686018427387904; 4606281698874543309; 0; 4616189618054758400; 4611686018427387904; 0; 9221120237041090561]%Z = verdict 0 8815 (-1) [] /\
  check_C07 [7; 11; 2; 2; 3; 2; 1; 1; 3; 4601778099247172813; 0; 4609434218613702656; 4606281698874543309; 0; 4616189618054758400; 4602678819172646912; 0; 4609434218613702656]%Z = verdict 1 66153 (-1) [].
Proof. vm_compute. split; reflexivity. Qed.

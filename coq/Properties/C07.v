From MM Require Import Base.Num Model.InvCDF Proofs.InvCDF.
Theorem C07_placeholder : forall (inv : Q -> Q), rand_model inv [] = None.
Proof. exact rand_model_nil. Qed.
Print Assumptions C07_placeholder.

(* Properties/C08.v — mathx special functions.  ONLY statements. *)
From MM Require Import Base.Num Model.Mathx Proofs.Mathx.
Local Open Scope Z_scope.

(* Sign returns -1, 0, 1 or NaN according to the sign of its argument. *)
Theorem C08_sign_cases : forall x : xreal,
  match x with
  | XNaN => sign_model x = XNaN
  | XInf true => sign_model x = XFin (-1)%Q
  | XInf false => sign_model x = XFin 1%Q
  | XFin q => (q == 0 -> sign_model x = XFin 0)%Q /\ (q < 0 -> sign_model x = XFin (-1))%Q /\ (0 < q -> sign_model x = XFin 1)%Q
  end.
Proof. exact sign_cases. Qed.
Print Assumptions C08_sign_cases.

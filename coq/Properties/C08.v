(* Properties/C08.v — mathx special functions (Choose, Lchoose, BetaInc, GammaInc, Beta, Sign).
   ONLY statements; each is closed by [exact] of a lemma from Proofs/Mathx.v (exact model,
   over Z / Q: closed under the global context), Proofs/MathxR.v, Proofs/BetaR.v or
   Proofs/GammaR.v (over the reals: the stdlib real axioms). *)
From Coq Require Import Reals QArith Qreals.
From MM Require Import Base.Num Model.Mathx Proofs.Mathx.
From Coquelicot Require Import Coquelicot.
From MM Require Import RealSpec.Beta RealSpec.Gamma Proofs.BetaR Proofs.GammaR Proofs.MathxR.
From MM Require Import RealSpec.BetaGen Proofs.BetaGen RealSpec.GammaGen Proofs.GammaGen.
Local Open Scope Z_scope.

(* ---------------- Sign ---------------- *)
(* "Sign returns -1, 0, 1 or NaN" according to the sign of its argument. *)
Theorem C08_sign_cases : forall x : xreal,
  match x with
  | XNaN => sign_model x = XNaN
  | XInf true => sign_model x = XFin (-1)%Q
  | XInf false => sign_model x = XFin 1%Q
  | XFin q => (q == 0 -> sign_model x = XFin 0)%Q /\ (q < 0 -> sign_model x = XFin (-1))%Q /\ (0 < q -> sign_model x = XFin 1)%Q
  end.
Proof. exact sign_cases. Qed.
Print Assumptions C08_sign_cases.

(* ---------------- Choose / Lchoose ---------------- *)
(* "Choose(n,k) is the binomial coefficient": the value the model attributes to Choose (exactly
   returned for n <= 20, approximated by exp(lgamma...) above) is Pascal's C(n,k), for ALL n >= 0. *)
Theorem C08_choose_is_binomial : forall n k, 0 <= n -> 0 <= k <= n ->
  choose_value (choose_model n k) = binom (Z.to_nat n) (Z.to_nat k).
Proof. exact choose_is_binomial. Qed.
Print Assumptions C08_choose_is_binomial.

(* "exact for n <= 20": the n <= 20 branch involves no exp/lgamma ... *)
Theorem C08_choose_exact_small : forall n k, 0 <= n <= 20 -> exists z, choose_model n k = CExact z.
Proof. exact choose_exact_small. Qed.
Print Assumptions C08_choose_exact_small.

(* ... and the exact value is C(n,k) *)
Theorem C08_choose_exact_small_value : forall n k, 0 <= n <= 20 -> 0 <= k ->
  choose_model n k = CExact (binom (Z.to_nat n) (Z.to_nat k)).
Proof. exact choose_exact_small_value. Qed.
Print Assumptions C08_choose_exact_small_value.

(* ... and its int64 product never wraps around (the only role of the bound 20) ... *)
Theorem C08_choose_small_no_overflow : forall n k, 0 < k < n -> n <= 20 ->
  prod_up64 (n - (k - 1)) (Z.to_nat k) 1 = prod_up (n - (k - 1)) (Z.to_nat k) 1 /\
  0 <= prod_up (n - (k - 1)) (Z.to_nat k) 1 < 2 ^ 63.
Proof. exact choose_small_no_overflow. Qed.
Print Assumptions C08_choose_small_no_overflow.

(* ... the bound is sharp: at n = 21 the product does wrap. *)
Theorem C08_choose_small_overflows_at_21 :
  exists k, 0 < k < 21 /\ prod_up64 (21 - (k - 1)) (Z.to_nat k) 1 <> prod_up (21 - (k - 1)) (Z.to_nat k) 1.
Proof. exact choose_small_overflows_at_21. Qed.
Print Assumptions C08_choose_small_overflows_at_21.

(* the integer product / factorial of choose.go:36-41 is C(n,k) k! / k!, for ALL n, k:
   the truncating division is exact. *)
Theorem C08_falling_factorial_div : forall n k : nat,
  prod_up (Z.of_nat n - (Z.of_nat k - 1)) k 1 = binom n k * factZ k.
Proof. exact falling_factorial_div_all. Qed.
Print Assumptions C08_falling_factorial_div.

(* the multiplicative row recurrence with exact division, from which the checker reads the
   reference value for n > 20, is Pascal's triangle. *)
Theorem C08_binomZ_correct : forall n k : nat, binomZ n k = binom n k.
Proof. exact binomZ_correct_all. Qed.
Print Assumptions C08_binomZ_correct.

(* "0 for k<0 or k>n" *)
Theorem C08_choose_out_of_range : forall n k, 0 <= n -> (k < 0 \/ n < k) -> choose_model n k = CExact 0.
Proof. exact choose_out_of_range. Qed.
Print Assumptions C08_choose_out_of_range.

(* "symmetric in k and n-k" *)
Theorem C08_choose_symmetric : forall n k, 0 <= n -> 0 <= k <= n ->
  choose_value (choose_model n k) = choose_value (choose_model n (n - k)).
Proof. exact choose_symmetric. Qed.
Print Assumptions C08_choose_symmetric.

(* "Lchoose is its logarithm (NaN out of range)" *)
Theorem C08_lchoose_is_log_choose : forall n k, 0 <= n ->
  (0 < k < n -> lchoose_model n k = LLogOf (choose_value (choose_model n k))) /\
  ((k = 0 \/ k = n) -> lchoose_model n k = LZero /\ choose_value (choose_model n k) = 1) /\
  ((k < 0 \/ n < k) -> lchoose_model n k = LNaN).
Proof. exact lchoose_is_log_choose. Qed.
Print Assumptions C08_lchoose_is_log_choose.

(* ---------------- BetaInc ---------------- *)
(* "BetaInc equals the regularized incomplete beta function": the reference the checker uses
   at integer parameters (the Q model's closed form) IS the ratio of integrals
   int_0^x t^(a-1)(1-t)^(b-1) dt / int_0^1 ... *)
Theorem C08_ibeta_int_is_integral : forall (a b : nat) (x : Q), (1 <= a)%nat -> (1 <= b)%nat ->
  (0 <= x <= 1)%Q -> Q2R (ibeta_int a b x) = Ibeta_R (Q2R x) (INR a) (INR b).
Proof. exact ibeta_int_is_integral. Qed.
Print Assumptions C08_ibeta_int_is_integral.

(* "lies in [0,1]" — for the model *)
Theorem C08_ibeta_int_range : forall (a b : nat) (x : Q), (1 <= a)%nat -> (1 <= b)%nat ->
  (0 <= x <= 1)%Q -> (0 <= ibeta_int a b x <= 1)%Q.
Proof. exact ibeta_int_range. Qed.
Print Assumptions C08_ibeta_int_range.

(* "is non-decreasing in x" — for the model *)
Theorem C08_ibeta_int_monotone : forall (a b : nat) (x y : Q), (1 <= a)%nat -> (1 <= b)%nat ->
  (0 <= x <= y)%Q -> (y <= 1)%Q -> (ibeta_int a b x <= ibeta_int a b y)%Q.
Proof. exact ibeta_int_monotone. Qed.
Print Assumptions C08_ibeta_int_monotone.

(* "satisfies BetaInc(x,a,b)+BetaInc(1-x,b,a)=1" — for the model *)
Theorem C08_ibeta_int_reflection : forall (a b : nat) (x : Q), (1 <= a)%nat -> (1 <= b)%nat ->
  (0 <= x <= 1)%Q -> (ibeta_int a b x + ibeta_int b a (1 - x) == 1)%Q.
Proof. exact ibeta_int_reflection. Qed.
Print Assumptions C08_ibeta_int_reflection.

(* "is 0 at x=0 and 1 at x=1" — for the model (directly on the Q sum) *)
Theorem C08_ibeta_int_ends : forall a b : nat, (1 <= a)%nat -> (1 <= b)%nat ->
  (ibeta_int a b 0 == 0 /\ ibeta_int a b 1 == 1)%Q.
Proof. exact ibeta_int_ends. Qed.
Print Assumptions C08_ibeta_int_ends.

(* the integer-arithmetic evaluation the checker runs equals the closed form (every division
   of its recurrence is exact) *)
Theorem C08_ibeta_int_fast_correct : forall (a b : nat) (x : Q), (1 <= a)%nat -> (1 <= b)%nat ->
  (0 <= x <= 1)%Q -> (ibeta_int_fast a b x == ibeta_int a b x)%Q.
Proof. exact ibeta_int_fast_correct. Qed.
Print Assumptions C08_ibeta_int_fast_correct.

(* the same laws for the ratio of integrals itself at REAL parameters a, b >= 1:
   range, monotonicity, reflection, end values *)
Theorem C08_ibeta_real_laws : forall a b x y : R, (1 <= a)%R -> (1 <= b)%R ->
  ((0 <= x <= 1 -> 0 <= Ibeta_R x a b <= 1) /\
   (0 <= x <= y -> y <= 1 -> Ibeta_R x a b <= Ibeta_R y a b) /\
   (0 <= x <= 1 -> Ibeta_R x a b + Ibeta_R (1 - x) b a = 1) /\
   Ibeta_R 0 a b = 0 /\ Ibeta_R 1 a b = 1)%R.
Proof. exact ibeta_real_laws. Qed.
Print Assumptions C08_ibeta_real_laws.

(* ... and for EVERY real a, b > 0 (the property's range starts at 0.05): RealSpec/BetaGen.v defines
   I_x(a,b) from proper integrals only (the mass of [0,1/2] by one integration by parts) ... *)
Theorem C08_ibeta_gen_laws : forall a b x y : R, (0 < a)%R -> (0 < b)%R ->
  ((0 <= x <= 1 -> 0 <= Ibeta_gen x a b <= 1) /\
   (0 <= x <= y -> y <= 1 -> Ibeta_gen x a b <= Ibeta_gen y a b) /\
   (0 <= x <= 1 -> Ibeta_gen x a b + Ibeta_gen (1 - x) b a = 1) /\
   Ibeta_gen 0 a b = 0 /\ Ibeta_gen 1 a b = 1)%R.
Proof. exact ibeta_gen_laws. Qed.
Print Assumptions C08_ibeta_gen_laws.

(* ... strictly increasing in x, with derivative the normalised kernel ... *)
Theorem C08_ibeta_gen_increasing : forall a b x y : R, (0 < a)%R -> (0 < b)%R -> (0 <= x)%R -> (x < y)%R -> (y <= 1)%R ->
  (Ibeta_gen x a b < Ibeta_gen y a b)%R.
Proof. exact Ibeta_gen_increasing. Qed.
Print Assumptions C08_ibeta_gen_increasing.

Theorem C08_ibeta_gen_derive : forall a b x : R, (0 < x < 1)%R ->
  is_derive (fun y => Ibeta_gen y a b) x (bkernel a b x / Btotal a b)%R.
Proof. exact Ibeta_gen_derive. Qed.
Print Assumptions C08_ibeta_gen_derive.

(* ... whose ingredients ARE the improper integrals int_e^x and int_e^(1-e) of the kernel as e -> 0+ ... *)
Theorem C08_ibeta_gen_is_improper_integral : forall a b x : R, (0 < a)%R -> (0 < b)%R -> (0 < x < 1)%R ->
  filterlim (fun e => RInt (bkernel a b) e x) (at_right 0) (locally (Bgen a b x)) /\
  filterlim (fun e => RInt (bkernel a b) e (1 - e)) (at_right 0) (locally (Btotal a b)).
Proof. intros a b x Ha Hb Hx. split; [exact (Bgen_is_limit a b x Ha Hx) | exact (Btotal_is_limit a b Ha Hb)]. Qed.
Print Assumptions C08_ibeta_gen_is_improper_integral.

(* ... is continuous on the whole line (in particular at the ends 0 and 1, also for a, b < 1) and has the closed
   forms I_x(a,1) = x^a, I_x(1,b) = 1 - (1-x)^b, I_(1/2)(a,a) = 1/2 for every real a, b > 0 ... *)
Theorem C08_ibeta_gen_continuous : forall a b x : R, (0 < a)%R -> (0 < b)%R -> continuous (fun y => Ibeta_gen y a b) x.
Proof. exact Ibeta_gen_continuous. Qed.
Print Assumptions C08_ibeta_gen_continuous.

Theorem C08_ibeta_gen_closed_forms : forall a x : R, (0 < a)%R -> (0 <= x <= 1)%R ->
  Ibeta_gen x a 1 = RealSpec.BetaGen.rpow0 a x /\ Ibeta_gen x 1 a = (1 - RealSpec.BetaGen.rpow0 a (1 - x))%R /\
  Ibeta_gen (1 / 2) a a = (1 / 2)%R.
Proof.
  intros a x Ha Hx. split; [exact (Ibeta_gen_b1 a x Ha Hx)|]. split; [exact (Ibeta_gen_a1 a x Ha Hx) | exact (Ibeta_gen_half_symm a Ha)].
Qed.
Print Assumptions C08_ibeta_gen_closed_forms.

(* ... and which is the ratio of integrals Ibeta_R (the function of the closed forms and of the certificate
   goals) whenever that one is a proper integral *)
Theorem C08_ibeta_gen_agrees : forall a b x : R, (1 <= a)%R -> (1 <= b)%R -> (0 <= x <= 1)%R ->
  Ibeta_gen x a b = Ibeta_R x a b.
Proof. exact ibeta_gen_agrees. Qed.
Print Assumptions C08_ibeta_gen_agrees.

(* "branch choice x<(a+1)/(a+b+2) and symmetry transform" (beta.go:27-52): whatever the
   continued fraction cf and the prefactor bt are, if bt*cf/a represents I and bt is invariant
   under (x,a,b) -> (1-x,b,a), BOTH branches return I_x(a,b). *)
Theorem C08_betainc_branches_agree : forall I bt cf : R -> R -> R -> R,
  (forall x a b : R, 0 <= x <= 1 -> 0 < a -> 0 < b -> bt x a b * cf x a b / a = I x a b)%R ->
  (forall x a b : R, bt x a b = bt (1 - x) b a)%R ->
  (forall x a b : R, 0 <= x <= 1 -> 0 < a -> 0 < b -> I x a b + I (1 - x) b a = 1)%R ->
  forall x a b : R, (0 <= x <= 1)%R -> (0 < a)%R -> (0 < b)%R ->
  betainc_struct bt cf x a b = Some (I x a b).
Proof. exact betainc_branches_agree. Qed.
Print Assumptions C08_betainc_branches_agree.

(* "is 0 at x=0 and 1 at x=1" — the code: at the ends bt = 0, the branch test sends x = 0 to
   the direct branch (0*cf/a) and x = 1 to the reflected one (1 - 0), for ALL a, b > 0 *)
Theorem C08_betainc_edges : forall a b : Q, (0 < a)%Q -> (0 < b)%Q ->
  betainc_end_value 0 a b = Some 0%Q /\ betainc_end_value 1 a b = Some 1%Q.
Proof. exact betainc_edges. Qed.
Print Assumptions C08_betainc_edges.

(* "is NaN for x outside [0,1]" *)
Theorem C08_betainc_nan_outside : forall x a b : Q, (x < 0 \/ 1 < x)%Q -> betainc_branch_of x a b = BNaN.
Proof. exact betainc_nan_outside. Qed.
Print Assumptions C08_betainc_nan_outside.

Theorem C08_betainc_struct_nan : forall (bt cf : R -> R -> R -> R) (x a b : R),
  (x < 0 \/ 1 < x)%R -> betainc_struct bt cf x a b = None.
Proof. exact betainc_struct_nan. Qed.
Print Assumptions C08_betainc_struct_nan.

(* ---------------- GammaInc / GammaIncComp ---------------- *)
(* "sum to 1": on both branches (series for x < a+1, continued fraction otherwise), for ANY
   series and continued fraction *)
Theorem C08_gammainc_complement : forall (ser cfq : R -> R -> R) (a x : R),
  (gammainc_struct ser cfq a x + gammainccomp_struct ser cfq a x = 1)%R.
Proof. exact gammainc_complement. Qed.
Print Assumptions C08_gammainc_complement.

(* both branches return P resp. Q = 1 - P when the series represents P and the c.f. Q *)
Theorem C08_gammainc_branches_agree : forall ser cfq P : R -> R -> R,
  (forall a x : R, ser a x = P a x) -> (forall a x : R, cfq a x = 1 - P a x)%R ->
  forall a x : R, (gammainc_struct ser cfq a x = P a x /\ gammainccomp_struct ser cfq a x = 1 - P a x)%R.
Proof. exact gammainc_branches_agree. Qed.
Print Assumptions C08_gammainc_branches_agree.

(* "are NaN for a<=0, x<0 or NaN arguments" — and only then, for finite arguments *)
Theorem C08_gammainc_nan_domain : forall a x : Q,
  gammainc_branch_of (XFin a) (XFin x) = GNaN <-> (a <= 0 \/ x < 0)%Q.
Proof. exact gammainc_nan_domain. Qed.
Print Assumptions C08_gammainc_nan_domain.

Theorem C08_gammainc_nan_args : forall v : xreal,
  gammainc_branch_of XNaN v = GNaN /\ gammainc_branch_of v XNaN = GNaN /\
  gammainc_branch_of (XInf true) v = GNaN /\ gammainc_branch_of v (XInf true) = GNaN.
Proof. exact gammainc_nan_args. Qed.
Print Assumptions C08_gammainc_nan_args.

(* "equal the regularized lower incomplete gamma function": the reference at a = n+1,
   1 - e^-x sum_{k<=n} x^k/k!, IS int_0^x e^-t t^n dt / n! *)
Theorem C08_gamma_closed_form : forall (n : nat) (x : R), Pgamma_nat n x = Pgamma_int n x.
Proof. exact Pgamma_closed_form. Qed.
Print Assumptions C08_gamma_closed_form.

(* "sum to 1, are monotone in x" (and lie in [0,1]) for that reference *)
Theorem C08_gamma_int_laws : forall (n : nat) (x y : R),
  ((0 <= x -> 0 <= Pgamma_int n x <= 1) /\
   (0 <= x <= y -> Pgamma_int n x <= Pgamma_int n y) /\
   Pgamma_int n x + Qgamma_int n x = 1 /\
   1 - Pgamma_nat n x = Qgamma_int n x)%R.
Proof. exact gamma_int_laws. Qed.
Print Assumptions C08_gamma_int_laws.

(* for EVERY real shape a > 0: RealSpec/GammaGen.v defines the lower incomplete gamma integral lgam a x from a
   proper integral (one integration by parts removes the end-point singularity of t^(a-1) at 0), Gamma(a) as its
   limit at infinity, P = lgam/Gamma and Q = 1 - P.  "lie in [0,1], are monotone in x, sum to 1, P(a,0) = 0": *)
Theorem C08_pgam_laws : forall a x y : R, (0 < a)%R ->
  ((0 <= x -> 0 <= Pgam a x <= 1) /\ (0 <= x <= y -> Pgam a x <= Pgam a y) /\
   Pgam a x + Qgam a x = 1 /\ Pgam a 0 = 0)%R.
Proof. exact pgam_laws. Qed.
Print Assumptions C08_pgam_laws.

Theorem C08_pgam_qgam_strict : forall a : R, (0 < a)%R -> forall x y : R, (0 <= x < y)%R ->
  (Pgam a x < Pgam a y /\ Qgam a y < Qgam a x /\ 0 <= Pgam a x < 1 /\ 0 < Qgam a x <= 1)%R.
Proof.
  intros a Ha x y Hxy. split; [exact (Pgam_increasing a Ha x y Hxy)|]. split; [exact (Qgam_decreasing a Ha x y Hxy)|].
  split; [exact (Pgam_range a Ha x (proj1 Hxy)) | exact (Qgam_range a Ha x (proj1 Hxy))].
Qed.
Print Assumptions C08_pgam_qgam_strict.

(* the definitions ARE the regularized lower and upper incomplete gamma functions: lgam is the improper integral
   int_0^x t^(a-1) e^-t dt, Gamma(a) its limit, P the normalised integral over [e,x] -> [0,x], Q the normalised
   integral over [x, n] as n -> infinity; P -> 1 and Q -> 0 at infinity *)
Theorem C08_pgam_is_incomplete_gamma : forall a : R, (0 < a)%R ->
  (forall x, (0 < x)%R -> filterlim (fun e => RInt (gkernel a) e x) (at_right 0) (locally (lgam a x))) /\
  is_lim (lgam a) p_infty (Gam a) /\ (0 < Gam a)%R /\
  (forall e x, (0 < e <= x)%R -> (RInt (gkernel a) e x / Gam a = Pgam a x - Pgam a e)%R) /\
  (forall x, (0 < x)%R -> is_lim_seq (fun n => RInt (gkernel a) x (INR n) / Gam a)%R (Qgam a x)) /\
  is_lim (Pgam a) p_infty 1%R /\ is_lim (Qgam a) p_infty 0%R.
Proof.
  intros a Ha. split; [intros x Hx; exact (lgam_is_limit_of_proper a x Ha Hx)|].
  split; [exact (lgam_lim_infty a Ha)|]. split; [exact (Gam_pos a Ha)|].
  split; [exact (Pgam_is_lower a Ha)|]. split; [exact (Qgam_is_upper a Ha)|].
  split; [exact (Pgam_lim_infty a Ha) | exact (Qgam_lim_infty a Ha)].
Qed.
Print Assumptions C08_pgam_is_incomplete_gamma.

(* Gamma(a+1) = a Gamma(a), Gamma(n+1) = n!, and at integer shape P, Q are the functions of the closed forms and
   of the certificate goals *)
Theorem C08_gam_functional_equation : forall a : R, (0 < a)%R -> Gam (a + 1)%R = (a * Gam a)%R.
Proof. exact Gam_succ. Qed.
Print Assumptions C08_gam_functional_equation.

Theorem C08_pgam_agrees_at_integers : forall (n : nat) (x : R), (0 <= x)%R ->
  Gam (INR n + 1)%R = INR (fact n) /\ Pgam (INR n + 1)%R x = Pgamma_nat n x /\ Qgam (INR n + 1)%R x = Qgamma_int n x.
Proof.
  intros n x Hx. split; [exact (Gam_nat n)|]. split; [exact (Pgam_nat_agree n x Hx) | exact (Qgam_nat_agree n x Hx)].
Qed.
Print Assumptions C08_pgam_agrees_at_integers.

(* ---------------- Beta ---------------- *)
(* "Beta(a,b)=Gamma(a)Gamma(b)/Gamma(a+b)": the model's table of Gamma(m/2) obeys
   Gamma(z+1) = z Gamma(z), Gamma(1/2) = sqrt(pi), and gives (a-1)!(b-1)!/(a+b-1)! at integers *)
Theorem C08_gamma_half_step : forall m, 3 <= m ->
  (fst (gamma_half m) == ((m - 2) # 2) * fst (gamma_half (m - 2)))%Q /\
  snd (gamma_half m) = snd (gamma_half (m - 2)).
Proof. exact gamma_half_step. Qed.
Print Assumptions C08_gamma_half_step.

Theorem C08_beta_is_gamma_ratio : forall ma mb,
  (fst (beta_half ma mb) == fst (gamma_half ma) * fst (gamma_half mb) / fst (gamma_half (ma + mb)))%Q /\
  snd (beta_half ma mb) = snd (gamma_half ma) && snd (gamma_half mb).
Proof. exact beta_half_is_gamma_ratio. Qed.
Print Assumptions C08_beta_is_gamma_ratio.

Theorem C08_beta_gamma_identity_int : forall a b : nat, (1 <= a)%nat -> (1 <= b)%nat ->
  (fst (beta_half (2 * Z.of_nat a) (2 * Z.of_nat b)) ==
     inject_Z (factZ (a - 1) * factZ (b - 1)) / inject_Z (factZ (a + b - 1)))%Q /\
  snd (beta_half (2 * Z.of_nat a) (2 * Z.of_nat b)) = false.
Proof. exact beta_gamma_identity_int. Qed.
Print Assumptions C08_beta_gamma_identity_int.

(* ---------------- non-vacuity ---------------- *)
Example C08_choose_examples :
  choose_model 20 10 = CExact 184756 /\ choose_model 30 15 = CApprox 155117520 /\
  choose_model 5 7 = CExact 0 /\ lchoose_model 5 7 = LNaN /\ lchoose_model 30 15 = LLogOf 155117520 /\
  (* C(1000,500) = 270288240945...799821216320 (300 digits) *)
  match choose_model 1000 500 with
  | CApprox z => (z / 10 ^ 288 =? 270288240945) && (z mod 10 ^ 12 =? 799821216320) && (z =? binomZ 1000 500)
  | CExact _ => false
  end = true.
Proof. vm_compute. repeat split; reflexivity. Qed.

(* for NEGATIVE n the Go code (and the model) return 1 when k = n or k = 0; the theorems assume 0 <= n *)
Example C08_choose_negative_n : choose_model (-1) (-1) = CExact 1.
Proof. exact choose_negative_n_example. Qed.

Example C08_ibeta_examples :
  Qred (ibeta_int 2 3 (1 # 2)) = (11 # 16)%Q /\ ibeta_int_fast 2 3 (1 # 2) = (11 # 16)%Q /\
  betainc_end_value 0 (1 # 2) 3 = Some 0%Q /\ betainc_branch_of (3 # 2) 1 1 = BNaN.
Proof. vm_compute. repeat split; reflexivity. Qed.

(* Beta(3/2, 5/2) = pi/16, Beta(2, 3) = 1/12, Gamma(7/2) = 15/8 sqrt(pi) *)
Example C08_beta_examples :
  beta_half 3 5 = ((1 # 16)%Q, true) /\ beta_half 4 6 = ((1 # 12)%Q, false) /\ gamma_half 7 = ((15 # 8)%Q, true).
Proof. vm_compute. repeat split; reflexivity. Qed.

Example C08_gammainc_examples :
  gammainc_branch_of (XFin 2) (XFin (5 # 2)) = GSeries /\ gammainc_branch_of (XFin 2) (XFin 3) = GContFrac /\
  gammainc_branch_of (XFin 0) (XFin 3) = GNaN.
Proof. vm_compute. repeat split; reflexivity. Qed.

(* the hypotheses of C08_betainc_branches_agree are jointly satisfiable *)
Example C08_betainc_struct_hyps_satisfiable :
  exists I bt cf : R -> R -> R -> R,
    (forall x a b, 0 <= x <= 1 -> 0 < a -> 0 < b -> bt x a b * cf x a b / a = I x a b)%R /\
    (forall x a b, bt x a b = bt (1 - x) b a)%R /\
    (forall x a b, 0 <= x <= 1 -> 0 < a -> 0 < b -> I x a b + I (1 - x) b a = 1)%R.
Proof. exact betainc_struct_hyps_satisfiable. Qed.

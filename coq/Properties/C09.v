(* Properties/C09.v — Descriptive statistics equal their definitions, weighted or not, in any
   order.  ONLY statements; each is closed by [exact] of a lemma from Proofs/Sample.v.
   mean_def xs = sum/n, var_def xs = sum (x - mean)^2 / (n-1) (Proofs/Stream.v, shared with C13);
   wmean_def ps = sum(w x)/sum(w), repeat_by_weights (Spec/Sample.v).  The model describes the
   repaired code (D4: the weighted Mean/GeoMean skip zero weights). *)
From MM Require Import Base.Num Base.GASort Model.Stream Proofs.Stream Model.Sample Spec.Sample Proofs.Sample.
From MM Require Import Check.C09 Proofs.CheckC09 Proofs.GeoMeanBracket Proofs.CheckC09Log Proofs.CheckC09Hist Proofs.CheckC09HistVal Proofs.CheckC09HistAll Proofs.C09Extra.
From Coq Require Import Permutation Sorted.
Local Open Scope Q_scope.

(* ---- Mean, Variance: the incremental (Welford) loops equal the definitions ---- *)
Theorem C09_welford_mean_eq : forall xs, xs <> [] -> exists m, mean xs = FVal m /\ m == mean_def xs.
Proof. exact welford_mean_eq. Qed.
Print Assumptions C09_welford_mean_eq.

Theorem C09_welford_var_eq : forall xs, (2 <= length xs)%nat -> exists v, variance xs = FVal v /\ v == var_def xs.
Proof. exact welford_var_eq. Qed.
Print Assumptions C09_welford_var_eq.

(* (StdDev is sqrt of this value: the comparator checks observed^2 against it.)  n = 0: NaN, n = 1: 0 *)
Theorem C09_variance_small : variance [] = FNaN /\ forall x, variance [x] = FVal 0.
Proof. exact variance_small. Qed.
Print Assumptions C09_variance_small.

(* ---- weighted Mean = sum(w x)/sum(w), zero weights anywhere (also first: D4) ---- *)
Theorem C09_wmean_eq : forall xs ws st, xs <> [] -> nonneg_weights (combine xs ws) -> 0 < wsum_w (combine xs ws) ->
  exists m, sample_mean (mkSample xs (Some ws) st) = FVal m /\ m == wmean_def (combine xs ws).
Proof. exact wmean_eq. Qed.
Print Assumptions C09_wmean_eq.

(* ---- Sum ---- *)
Theorem C09_sum_eq : forall xs, vsum xs == Qsum xs.
Proof. exact vsum_eq. Qed.
Print Assumptions C09_sum_eq.

Theorem C09_weighted_sum_eq : forall xs ws st, sample_sum (mkSample xs (Some ws) st) == wsum_xw (combine xs ws).
Proof. exact sample_sum_weighted. Qed.
Print Assumptions C09_weighted_sum_eq.

(* ---- order of the data is irrelevant ---- *)
Theorem C09_mean_perm_invariant : forall a b, Permutation a b -> fres_eq (mean a) (mean b).
Proof. exact mean_perm. Qed.
Print Assumptions C09_mean_perm_invariant.

Theorem C09_variance_perm_invariant : forall a b, Permutation a b -> fres_eq (variance a) (variance b).
Proof. exact variance_perm. Qed.
Print Assumptions C09_variance_perm_invariant.

Theorem C09_sum_perm_invariant : forall a b, Permutation a b -> vsum a == vsum b.
Proof. exact vsum_perm. Qed.
Print Assumptions C09_sum_perm_invariant.

Theorem C09_bounds_perm_invariant : forall a b mn mx mn' mx', Permutation a b ->
  bounds a = Some (mn, mx) -> bounds b = Some (mn', mx') -> mn == mn' /\ mx == mx'.
Proof. exact bounds_perm. Qed.
Print Assumptions C09_bounds_perm_invariant.

Theorem C09_weighted_defs_perm_invariant : forall a b, Permutation a b -> wmean_def a == wmean_def b.
Proof. exact wmean_def_perm. Qed.
Print Assumptions C09_weighted_defs_perm_invariant.

(* ---- Bounds = (least element, greatest element) ---- *)
Theorem C09_bounds_def : forall l mn mx, bounds l = Some (mn, mx) ->
  (In mn l /\ forall x, In x l -> mn <= x) /\ (In mx l /\ forall x, In x l -> x <= mx).
Proof. exact Proofs.Quantile.bounds_spec. Qed.
Print Assumptions C09_bounds_def.

(* marking ascending data as Sorted changes no result: Bounds is the only statistic whose code
   looks at the flag (constant-time path) *)
Theorem C09_sorted_flag_irrelevant : forall xs mn mx, StronglySorted Qle xs -> bounds xs = Some (mn, mx) ->
  exists a b, sample_bounds (mkSample xs None true) = Some (a, b) /\ a == mn /\ b == mx.
Proof. exact bounds_sorted_flag. Qed.
Print Assumptions C09_sorted_flag_irrelevant.

(* weighted Bounds ignores zero-weight values: it is Bounds of the values carrying a non-zero
   weight ([used]), hence (C09_bounds_def) their least and greatest element, NaN if there is none *)
Theorem C09_weighted_bounds_def : forall xs ws, xs <> [] ->
  sample_bounds (mkSample xs (Some ws) false) = bounds (used (combine xs ws)).
Proof. exact weighted_bounds_unsorted. Qed.
Print Assumptions C09_weighted_bounds_def.

(* ... and the Sorted fast path (first / last non-zero weight) agrees on ascending data *)
Theorem C09_weighted_sorted_flag_irrelevant : forall xs ws, xs <> [] -> length ws = length xs -> StronglySorted Qle xs ->
  obounds_eq (sample_bounds (mkSample xs (Some ws) true)) (sample_bounds (mkSample xs (Some ws) false)).
Proof. exact weighted_bounds_sorted_flag. Qed.
Print Assumptions C09_weighted_sorted_flag_irrelevant.

Theorem C09_int_weights_bounds_eq_repeat : forall xs ws, xs <> [] -> length ws = length xs ->
  obounds_eq (sample_bounds (mkSample xs (Some (map Qofnat ws)) false)) (bounds (repeat_by_weights xs ws)).
Proof. exact int_weights_bounds_eq_repeat. Qed.
Print Assumptions C09_int_weights_bounds_eq_repeat.

(* ---- non-negative integer weights = each value repeated weight times ---- *)
(* also when every weight is zero: the repeated sample is empty and both Means are NaN *)
Theorem C09_int_weights_eq_repeat : forall xs ws st, length ws = length xs ->
  fres_eq (sample_mean (mkSample xs (Some (map Qofnat ws)) st)) (mean (repeat_by_weights xs ws)) /\
  sample_sum (mkSample xs (Some (map Qofnat ws)) st) == vsum (repeat_by_weights xs ws) /\
  sample_weight (mkSample xs (Some (map Qofnat ws)) st) == Qofnat (length (repeat_by_weights xs ws)).
Proof. exact int_weights_eq_repeat. Qed.
Print Assumptions C09_int_weights_eq_repeat.

(* ---- where the weighted Mean / GeoMean have no value ---- *)
(* weighted Mean: NaN exactly when nothing carries weight (total weight 0, e.g. every weight zero) *)
Theorem C09_weighted_mean_nan_iff : forall xs ws st, xs <> [] ->
  (sample_mean (mkSample xs (Some ws) st) = FNaN <-> wsum_w (combine xs ws) == 0).
Proof. exact sample_mean_nan_iff. Qed.
Print Assumptions C09_weighted_mean_nan_iff.

(* weighted GeoMean (non-negative weights): NaN exactly when a value <= 0 carries a non-zero weight or nothing
   carries weight; a non-positive value of weight zero is ignored *)
Theorem C09_weighted_geomean_nan_iff : forall xs ws st, xs <> [] -> nonneg_weights (combine xs ws) ->
  (sample_geomean (mkSample xs (Some ws) st) = GNaN <->
   (exists x w, In (x, w) (combine xs ws) /\ x <= 0 /\ ~ w == 0) \/ wsum_w (combine xs ws) == 0).
Proof. exact sample_geomean_nan_iff. Qed.
Print Assumptions C09_weighted_geomean_nan_iff.

(* integer weights: NaN exactly when the GeoMean of the repeated sample is NaN (it is empty or contains a value <= 0) *)
Theorem C09_int_weights_geomean_nan_iff : forall xs ws st, length ws = length xs ->
  (sample_geomean (mkSample xs (Some (map Qofnat ws)) st) = GNaN <-> geomean (repeat_by_weights xs ws) = GNaN).
Proof. exact int_weights_geomean_nan_iff. Qed.
Print Assumptions C09_int_weights_geomean_nan_iff.

(* the NaN-ness does not depend on the order of the (value, weight) pairs *)
Theorem C09_weighted_nan_order_independent : forall ps ps' st st', Permutation ps ps' -> nonneg_weights ps ->
  (sample_mean (mkSample (map fst ps) (Some (map snd ps)) st) = FNaN <->
   sample_mean (mkSample (map fst ps') (Some (map snd ps')) st') = FNaN) /\
  (sample_geomean (mkSample (map fst ps) (Some (map snd ps)) st) = GNaN <->
   sample_geomean (mkSample (map fst ps') (Some (map snd ps')) st') = GNaN).
Proof. exact weighted_nan_perm. Qed.
Print Assumptions C09_weighted_nan_order_independent.

(* ---- GeoMean = exp(sum c_i ln x_i): the coefficients the code builds ---- *)
(* unweighted: every c_i = 1/n, all values positive: GeoMean = (prod x_i)^(1/n) *)
Theorem C09_geomean_coeffs : forall xs cs, geomean xs = GExp cs ->
  length cs = length xs /\ Forall (fun c => c == 1 / Qofnat (length xs)) cs /\ Forall (fun x => 0 < x) xs.
Proof. exact geomean_coeffs. Qed.
Print Assumptions C09_geomean_coeffs.

(* NaN exactly for the empty sample or a non-positive value *)
Theorem C09_geomean_nan_iff : forall xs, geomean xs = GNaN <-> xs = [] \/ exists x, In x xs /\ x <= 0.
Proof. exact geomean_nan_iff. Qed.
Print Assumptions C09_geomean_nan_iff.

(* weighted: c_i * W = w_i: GeoMean = (prod x_i^w_i)^(1/W) — with integer weights this is the
   GeoMean of the repeated sample (all coefficients 1/W, value x_i occurring w_i times) *)
Theorem C09_weighted_geomean_coeffs : forall xs ws st cs, xs <> [] -> nonneg_weights (combine xs ws) ->
  sample_geomean (mkSample xs (Some ws) st) = GExp cs ->
  Forall2 (fun c w => c * wsum_w (combine xs ws) == w) cs (map snd (combine xs ws)).
Proof. exact sample_geomean_coeffs. Qed.
Print Assumptions C09_weighted_geomean_coeffs.

(* ---- Sort keeps each weight attached to its value; ascending; flag set ---- *)
Theorem C09_sort_pairs : forall xs ws, length ws = length xs ->
  let s' := sample_sort (mkSample xs (Some ws) false) in
  exists ws', s_ws s' = Some ws' /\ length ws' = length (s_xs s') /\
  Permutation (combine (s_xs s') ws') (combine xs ws) /\
  StronglySorted Qle (s_xs s') /\ s_sorted s' = true.
Proof. exact sort_pairs. Qed.
Print Assumptions C09_sort_pairs.

Theorem C09_sort_values : forall xs,
  let s' := sample_sort (mkSample xs None false) in
  s_ws s' = None /\ Permutation (s_xs s') xs /\ StronglySorted Qle (s_xs s') /\ s_sorted s' = true.
Proof. exact sort_values. Qed.
Print Assumptions C09_sort_values.

(* ---- histories: any interleaving of Sort, Copy and queries ---- *)
Theorem C09_history_agrees : forall ops s0, no_poke ops -> sample_wf s0 ->
  Forall (same_multiset s0) (h_run s0 ops).
Proof. exact history_agrees. Qed.
Print Assumptions C09_history_agrees.

(* ... so every query equals the fresh computation on the original sample *)
Theorem C09_history_queries_unweighted : forall s0 s, s_ws s0 = None -> same_multiset s0 s ->
  Permutation (s_xs s) (s_xs s0) /\
  fres_eq (sample_mean s) (sample_mean s0) /\ fres_eq (sample_variance s) (sample_variance s0) /\
  sample_sum s == sample_sum s0 /\ sample_weight s == sample_weight s0.
Proof. exact same_multiset_queries_unweighted. Qed.
Print Assumptions C09_history_queries_unweighted.

Theorem C09_history_queries_weighted : forall s0 s ws0, s_ws s0 = Some ws0 -> sample_wf s0 -> same_multiset s0 s ->
  s_xs s0 <> [] -> nonneg_weights (spairs s0) -> 0 < wsum_w (spairs s0) ->
  fres_eq (sample_mean s) (sample_mean s0) /\ sample_sum s == sample_sum s0 /\ sample_weight s == sample_weight s0.
Proof. exact same_multiset_queries_weighted. Qed.
Print Assumptions C09_history_queries_weighted.

(* ---- vec ---- *)
Theorem C09_linspace_ends : forall lo hi num, (2 <= num)%nat ->
  nth 0 (linspace lo hi num) 0 == lo /\ nth (num - 1) (linspace lo hi num) 0 == hi.
Proof. exact linspace_ends. Qed.
Print Assumptions C09_linspace_ends.

Theorem C09_linspace_even : forall lo hi num i, (2 <= num)%nat -> (S i < num)%nat ->
  nth (S i) (linspace lo hi num) 0 - nth i (linspace lo hi num) 0 == (hi - lo) / Qofnat (num - 1).
Proof. exact linspace_even. Qed.
Print Assumptions C09_linspace_even.

Theorem C09_linspace_length : forall lo hi num, length (linspace lo hi num) = num.
Proof. exact linspace_length. Qed.
Print Assumptions C09_linspace_length.

Theorem C09_linspace_one : forall lo hi, linspace lo hi 1 = [lo].
Proof. exact linspace_one. Qed.
Print Assumptions C09_linspace_one.

Theorem C09_map_nth : forall f xs i d, (i < length xs)%nat -> nth i (vmap f xs) (f d) = f (nth i xs d).
Proof. exact vmap_nth. Qed.
Print Assumptions C09_map_nth.

Theorem C09_concat_app : forall a b, vconcat (a ++ b) = vconcat a ++ vconcat b.
Proof. exact vconcat_app. Qed.
Print Assumptions C09_concat_app.

Theorem C09_vsum_app : forall a b, vsum (a ++ b) == vsum a + vsum b.
Proof. exact vsum_app. Qed.
Print Assumptions C09_vsum_app.

(* ---- non-vacuity ---- *)
Example C09_example_stats :
  mean [2; 4; 4; 4; 5; 5; 7; 9] = FVal 5 /\
  match variance [2; 4; 4; 4; 5; 5; 7; 9] with FVal v => v == 32 # 7 | _ => False end /\
  (* first weight zero (D4) *)
  match sample_mean (mkSample [1; 2; 3] (Some [0; 1; 2]) false) with FVal m => m == 8 # 3 | _ => False end /\
  sample_bounds (mkSample [1; 2; 3] (Some [0; 1; 2]) false) = Some (2, 3) /\
  sample_bounds (mkSample [1; 2; 3] (Some [0; 1; 0]) true) = Some (2, 2) /\
  repeat_by_weights [1; 2; 3] [0; 1; 2]%nat = [2; 3; 3] /\
  geomean [2; 8] = GExp [1 # 2; 1 # 2] /\ geomean [2; 0] = GNaN /\
  sample_geomean (mkSample [2; 8; 5] (Some [1; 3; 0]) false) = GExp [1 # 4; 3 # 4; 0] /\
  (* every weight zero: NaN; a value <= 0 that carries weight: NaN in either order; of weight zero: ignored *)
  sample_mean (mkSample [1] (Some [0]) false) = FNaN /\ sample_geomean (mkSample [1] (Some [0]) false) = GNaN /\
  sample_geomean (mkSample [0] (Some [1]) false) = GNaN /\
  sample_geomean (mkSample [0; 4] (Some [1; 1]) false) = GNaN /\ sample_geomean (mkSample [4; 0] (Some [1; 1]) false) = GNaN /\
  sample_geomean (mkSample [0; 4] (Some [0; 1]) false) = GExp [0; 1].
Proof. vm_compute. repeat split; reflexivity. Qed.

Example C09_example_sort_history :
  h_run (mkSample [3; 1; 2; 1] (Some [5; 6; 7; 8]) false) [HCopy 0; HSort 1; HQuery 0; HCopy 1; HSort 0]
  = [mkSample [1; 1; 2; 3] (Some [6; 8; 7; 5]) true; mkSample [1; 1; 2; 3] (Some [6; 8; 7; 5]) true;
     mkSample [1; 1; 2; 3] (Some [6; 8; 7; 5]) true] /\
  linspace 0 1 5 = [0; 1 # 4; 1 # 2; 3 # 4; 1] /\ vconcat [[1; 2]; []; [3]] = [1; 2; 3].
Proof. vm_compute. repeat split; reflexivity. Qed.

(* ===== what an accepted verdict of the correspondence comparator certifies (Proofs/CheckC09.v) =====
   check_C09 = p_line (decoding) followed by check_case (comparison).  Verdict 1 (borderline) is never produced:
   an accepted verdict has code 0.  It implies [case_ok cs] for the decoded case cs:
     kind 0  stats_ok: stats.Mean / Sample.Mean within tol_mean (weighted: tol_wmean) of mean_def xs = sum/n
             (weighted: wmean_def = sum(w x)/sum(w) when some weight is non-zero, NaN when none is); Variance within
             tol_var of var_def xs = sum (x - mean)^2/(n-1) (one value: 0) — or +Inf when the exact M2 = var (n-1)
             exceeds maxf = MaxFloat64 = 2^1024 - 2^971 (var_ok / std_ok: Welford's sum of non-negative terms
             overflows) —; StdDev s through its square:
             0 <= s and |s^2 - var| <= tol_std = tol_var + 8 ulp var; Sum within tol_sum of Qsum xs (weighted: of
             wsum_xw = sum(w x)) — or +-Inf of the sign of the FIRST exact prefix sum whose magnitude exceeds maxf
             (sum_ok / first_overflow: the accumulator adds from the left and stays infinite); the Mean has no such
             branch: it must be finite and within tolerance; Weight = n exactly (weighted: within tol_sum ws of Qsum ws); Bounds = exactly
             (least, greatest) element (is_min, is_max) of xs — weighted: of the values carrying a non-zero weight
             ([used]) — provided the Sorted flag is only set on ascending data; NaN for the empty sample; weighted
             Variance / StdDev panic; nothing was modified.  GeoMean: NaN exactly for the empty sample or a value <= 0,
             else positive with |g^n - prod xs| <= geo_rel n * prod xs when n <= 64, and ONLY bracketed between the least
             and the greatest value (relative 1e-9) when n > 64 (geo_ok); weighted (sgeo_ok): g^D within geo_rel_D of
             prod x_i^e_i with e_i / D = w_i / W when the lcm D of the reduced denominators of the w_i / W is <= 64, else
             only bracketed between the least and greatest value carrying weight; NaN exactly when a value <= 0
             carries weight or the total weight is 0 (a non-positive value of weight zero is ignored).
     kind 1  hist_ok: every dump equals the model store, every queried sample is a legal Sample (swf) and the query
             satisfies query_obs_ok (same predicates as above) for it — stated relative to the model store h_step
             (composed into statements about the observed dumps only: C09_history_observed_sound).
     kind 3  in-place steps (ONE Sample whose Xs / Weights backing arrays are overwritten in place between the steps - the
             harness writes into the same storage -, every Sample query re-observed after each overwrite):
             EVERY step satisfies stats_ok for the contents current at that step (Forall stats_ok steps).
     kind 2  vec_ok: Linspace element-wise within tol_lin of lo + i (hi - lo)/(num - 1); Sum within tol_sum of Qsum;
             Map / Vectorize / Concat element-wise equal to map f xs / concat xss, inputs unmodified.
   The Welford loops / folds of Model/Sample.v do not occur in stats_ok, query_obs_ok, lin_ok. *)
Theorem C09_check_ok_sound : forall line cs c tag pos diag,
  check_C09 line = verdict c tag pos diag -> (c = 0 \/ c = 1)%Z -> p_line line = Some (cs, []) -> c = 0%Z /\ case_ok cs.
Proof. exact check_ok_sound. Qed.
Print Assumptions C09_check_ok_sound.

(* stats_ok also records that the case is a legal Sample (check_case refuses others as malformed), which discharges the
   premises of its weighted clauses.  For a weighted non-empty sample: EVERY WEIGHT ZERO -> the observed Sample.Mean and
   Sample.GeoMean are NaN (status 0); A VALUE <= 0 CARRIES WEIGHT -> the observed Sample.GeoMean is NaN; some weight
   non-zero -> the Mean is within tol_wmean of sum(w x)/sum(w).  Bounds always. *)
Theorem C09_check_ok_weighted_mean_bounds : forall sorted hasw xs ws o, stats_ok sorted hasw xs ws o ->
  (hasw = true -> xs <> [] ->
     sm_st o = 0%Z /\ sg_st o = 0%Z /\
     ((forall v, In v ws -> v == 0) -> sm_mean o = XNaN /\ sg_geo o = XNaN) /\
     ((exists x v, In (x, v) (combine xs ws) /\ x <= 0 /\ ~ v == 0) -> sg_geo o = XNaN) /\
     ((exists v, In v ws /\ ~ v == 0) -> obs_near (tol_wmean xs) (wmean_def (combine xs ws)) (sm_mean o))) /\
  bounds_ok (if hasw then used (combine xs ws) else xs) (s_bmin o) (s_bmax o).
Proof. exact stats_ok_closed. Qed.
Print Assumptions C09_check_ok_weighted_mean_bounds.

(* the parts of case_ok for histories: one query; the whole run (relative to the model store) *)
Theorem C09_compare_query_sound : forall s mst m sm w b1 b2 vst v,
  query_ok s mst m sm w b1 b2 vst v = None -> query_obs_ok s mst m sm w b1 b2 vst v.
Proof. exact query_ok_sound. Qed.
Print Assumptions C09_compare_query_sound.

Theorem C09_compare_history_sound : forall ops st idx tag tag' pos diag, Forall swf st ->
  run_hist st ops idx tag = (0%Z, tag', pos, diag) -> hist_ok st ops.
Proof. exact run_hist_sound. Qed.
Print Assumptions C09_compare_history_sound.

(* every queried sample is a legal Sample (swf: one non-negative weight per value, Sorted only on ascending data — an
   invariant of the store along an accepted run), which discharges the premises of the weighted-Mean and Bounds clauses *)
Theorem C09_compare_query_closed : forall s mst m sm w b1 b2 vst v, swf s -> query_obs_ok s mst m sm w b1 b2 vst v ->
  match s_ws s with
  | Some ws => (s_xs s <> [] ->
                  mst = 0%Z /\ ((forall w0, In w0 ws -> w0 == 0) -> m = XNaN) /\
                  ((exists w0, In w0 ws /\ ~ w0 == 0) -> obs_near (tol_wmean (s_xs s)) (wmean_def (combine (s_xs s) ws)) m)) /\
               bounds_ok (used (combine (s_xs s) ws)) b1 b2
  | None => bounds_ok (s_xs s) b1 b2
  end.
Proof. exact query_closed. Qed.
Print Assumptions C09_compare_query_closed.

(* GeoMean of at most 64 unweighted values (tag bit 32): exp / ln are never evaluated — the observed g is positive and
   its n-th power is within the relative tolerance geo_scale xs * geo_rel n, geo_rel n = 64 n (n + 8) 2^-52 and
   geo_scale xs = max(1, max |log2 x_i| / 64) (1 at ordinary magnitudes), of the product of the values *)
Theorem C09_compare_geomean_sound : forall xs g, (length xs <= 64)%nat ->
  g_check xs (geomean xs) 0 (XFin g) <> 2%Z -> geomean xs <> GNaN ->
  0 < g /\ Qabs (Qpw g (length xs) - Qprod xs) <= geo_scale xs * geo_rel (length xs) * Qprod xs.
Proof. exact geomean_value_sound. Qed.
Print Assumptions C09_compare_geomean_sound.
Example C09_geomean_example : g_check [2; 8] (geomean [2; 8]) 0 (XFin 4) = 0%Z /\ geomean [2; 8] <> GNaN /\
  g_check [2; 8] (geomean [2; 8]) 0 (XFin (401 # 100)) = 2%Z.
Proof. split; [vm_compute; reflexivity | split; [discriminate | vm_compute; reflexivity]]. Qed.

(* ---- (round 2, hL) Sorted-flag irrelevance, proved rather than read off the model ---- *)
(* Mean, Sum, Weight, Variance and GeoMean of the model give EQUAL results on two samples with the same Xs and Weights,
   whatever their Sorted flags (Bounds, the one statistic whose code reads the flag: C09_sorted_flag_irrelevant,
   C09_weighted_sorted_flag_irrelevant) *)
Theorem C09_stats_ignore_sorted_flag : forall s s', s_xs s = s_xs s' -> s_ws s = s_ws s' ->
  sample_mean s = sample_mean s' /\ sample_sum s = sample_sum s' /\ sample_weight s = sample_weight s' /\
  sample_variance s = sample_variance s' /\ sample_geomean s = sample_geomean s'.
Proof. exact stats_ignore_sorted_flag. Qed.
Print Assumptions C09_stats_ignore_sorted_flag.

(* ---- GeoMean of more than 64 values: what the bracket is worth ---- *)
(* (1) AM-GM over Q, for every non-empty list of positive rationals: prod x_i <= (sum x_i / n)^n.
   (2) n > 64 positive values, accepted verdict (geo_ok is the GeoMean clause of C09_check_ok_sound): the observed g_obs lies in
   [min (1 - 1e-9), max (1 + 1e-9)]; the TRUE geometric mean g (g > 0, g^n = prod x_i) lies in [min, max] and below the
   arithmetic mean; hence |g_obs - g| <= max (1 + 1e-9) - min (1 - 1e-9) - and that is ALL that is certified beyond 64 values *)
Theorem C09_geomean_beyond_64 :
  (forall xs, xs <> [] -> (forall x, In x xs -> 0 < x) -> Qprod xs <= Qpw (Qsum xs / Qofnat (length xs)) (length xs)) /\
  (forall xs o g mn mx, (64 < length xs)%nat -> (forall x, In x xs -> 0 < x) ->
     geo_ok xs o -> 0 < g -> Qpw g (length xs) == Qprod xs -> is_min mn xs -> is_max mx xs ->
     exists g_obs, o = XFin g_obs /\ 0 < g_obs /\
       mn * (1 - e9g) <= g_obs /\ g_obs <= mx * (1 + e9g) /\
       mn <= g /\ g <= mx /\ g <= mean_def xs /\
       Qabs (g_obs - g) <= mx * (1 + e9g) - mn * (1 - e9g)).
Proof. exact geomean_beyond_64. Qed.
Print Assumptions C09_geomean_beyond_64.
Example C09_geomean_true_example : (1 <= 2 /\ 2 <= 4) /\ 2 <= mean_def [1; 2; 4].   (* g = 2 for {1,2,4}: 2^3 = 8 *)
Proof. exact geomean_124. Qed.

(* ---- Logspace: the two boolean tests of an accepted case, interpreted ---- *)
(* vec_ok (VLog ..) is what C09_check_ok_sound gives for an accepted Logspace call.  log_ok (Proofs/CheckC09Log.v): num positive
   values; each value whose exponent lo + i (hi-lo)/(num-1) has a reduced denominator den <= 8 satisfies
   |v^den - base^num| <= pow_rel * base^num (pow_spec); three consecutive values satisfy |v0 v2 - v1^2| <= 2^-36 v1^2;
   hence consecutive ratios r_i = v_(i+1)/v_i agree: r_i (1-2^-36)^(j-i) <= r_j <= r_i (1+2^-36)^(j-i); and every ratio is
   anchored at the end points: (last/first) (1-2^-36)^((num-1)(num-2)) <= r_i^(num-1) <= (last/first) / (1-2^-36)^((num-1)(num-2)),
   last/first being base^(hi-lo) = (base^step)^(num-1); the end points themselves are value-checked when lo and hi have
   denominators <= 8 *)
Theorem C09_logspace_accept_sound : forall lo hi num base res, vec_ok (VLog lo hi num base res) ->
  log_ok lo hi num base res /\
  ((2 <= num)%nat -> exists v0 vl, nth_error res 0 = Some v0 /\ nth_error res (num - 1) = Some vl /\
                                   0 < v0 /\ 0 < vl /\ pow_spec base lo v0 /\ pow_spec base hi vl).
Proof. exact logspace_accept_all. Qed.
Print Assumptions C09_logspace_accept_sound.
Example C09_logspace_example : vec_ok (VLog 0 2 3 2 [1; 2; 4]) /\ log_ok 0 2 3 2 [1; 2; 4].
Proof. exact (conj logspace_024 logspace_024_ok). Qed.

(* ---- Histories: the conclusion about the OBSERVED DUMPS only (no model store, no h_step) ---- *)
(* obs_hist_ok cur ops (Proofs/CheckC09Hist.v), cur = the store as last observed (initially the given sample):
   after Sort i the dump has the same number of samples, sample i is flagged Sorted, ascending, and its (value, weight)
   pairs are a permutation (up to ==) of those last seen, every other sample is unchanged; after Copy i the dump is the last
   one plus a copy of sample i; after a direct write the dump is the last one with that one value replaced and the flag
   cleared; every Query is correct (query_obs_ok: definitions of Spec level only) for a legal Sample whose lists are == the
   last dump of that sample - and therefore (obs_hist_fresh_ok, ANY history, direct writes included) correct in terms of the
   Xs and Weights of that sample AS LAST DUMPED (query_fresh_ok c; c is a legal Sample).  Without direct writes: (obs_multiset_ok) EVERY sample of EVERY dump consists of the pairs of
   the ORIGINAL sample up to order, is weighted iff the original is, and is ascending when flagged; and (obs_fresh_ok)
   every Query equals the fresh computation ON THE ORIGINAL SAMPLE within tolerance: query_fresh_ok s0 mentions only
   the Xs and Weights of the original sample s0 (no arrangement, no flag, no model store): Mean within tol_mean / tol_wmean of
   mean_def / wmean_def, Weight, Variance (weighted: panic), Bounds = least / greatest (weight-carrying) value exactly, Sum
   within tol_sum of the exact sum when sum |terms| <= MaxFloat64 (the +-Inf branch depends on the storage order of the
   terms and is not restated).  All definitions AND all tolerance functions are proved to be functions of the multiset of
   pairs up to == (Proofs/CheckC09HistVal.v). *)
Theorem C09_history_observed_sound : forall sorted hasw xs ws ops c tag pos diag,
  check_case (KHist sorted hasw xs ws ops) = verdict c tag pos diag -> (c = 0 \/ c = 1)%Z ->
  let s0 := mkSample xs (ows hasw ws) sorted in
  obs_hist_ok [s0] ops /\ obs_hist_fresh_ok [s0] ops /\
  (no_poke (map fst ops) -> obs_multiset_ok s0 ops /\ obs_fresh_ok s0 ops).
Proof. exact history_line_all. Qed.
Print Assumptions C09_history_observed_sound.

(* the steps: (1) whenever the model store is pointwise == to what was last observed, hist_ok gives obs_hist_ok;
   (2) without direct writes the multiset invariant; (3) a query correct for an arrangement of the original pairs is
   correct in terms of the original sample; (4) every Query restated on the last dump of the queried sample *)
Theorem C09_history_observed_steps :
  (forall ops st cur, Forall swf st -> Forall2 sample_eqv st cur -> hist_ok st ops -> obs_hist_ok cur ops) /\
  (forall ops s0 cur, no_poke (map fst ops) -> Forall (inv s0) cur -> obs_hist_ok cur ops -> obs_multiset_ok s0 ops) /\
  (forall s0 s mst m sm w b1 b2 vst v, swf s0 -> swf s -> inv s0 s ->
     query_obs_ok s mst m sm w b1 b2 vst v -> query_fresh_ok s0 mst m sm w b1 b2 vst v) /\
  (forall ops cur, obs_hist_ok cur ops -> obs_hist_fresh_ok cur ops).
Proof. exact history_steps_all. Qed.
Print Assumptions C09_history_observed_steps.
Example C09_history_observed_example :
  obs_hist_ok [ex_s0] ex_ops /\ obs_multiset_ok ex_s0 ex_ops /\ obs_fresh_ok ex_s0 ex_ops /\
  ~ obs_hist_ok [ex_s0] [(HSort 0, ODump [mkSD true true [2; 1; 2] [1; 3; 5]])] /\
  query_fresh_ok ex_s0 0 (XFin (5 # 3)) (XFin 15) (XFin 9) (XFin 1) (XFin 2) 2 XNaN /\
  ~ query_fresh_ok ex_s0 0 (XFin 2) (XFin 15) (XFin 9) (XFin 1) (XFin 2) 2 XNaN.
Proof. exact (conj ex_obs (conj ex_multiset (conj ex_fresh (conj ex_obs_rejects_unsorted (conj ex_fresh_query ex_fresh_rejects_mean))))). Qed.

(* Non-vacuity: real lines of the harness (hexadecimal fields written in decimal), accepted, and they decode. *)
Definition C09_line_unw : list Z := [9; 0; 0; 0; 8; 4611686018427387904; 4616189618054758400; 4616189618054758400; 4616189618054758400; 4617315517961601024; 4617315517961601024; 4619567317775286272; 4621256167635550208; 0; 4617315517961601024; 4616832989430097042; 4611996969317966890; 4616868778438153437; 4611686018427387904; 4621256167635550208; 0; 4617315517961601024; 0; 4616832989430097042; 0; 4611996969317966890; 0; 4616868778438153437; 4630826316843712512; 4620693217682128896; 4611686018427387904; 4621256167635550208; 1]%Z.
Definition C09_line_w : list Z := [9; 0; 1; 1; 3; 4607182418800017408; 4611686018427387904; 4613937818241073152; 3; 0; 4607182418800017408; 4611686018427387904; 4611686018427387904; 4607182418800017408; 4607182418800017408; 4610862402797412991; 4607182418800017408; 4613937818241073152; 0; 4613187218303178069; 2; 0; 2; 0; 0; 4613083803783214218; 4620693217682128896; 4613937818241073152; 4611686018427387904; 4613937818241073152; 1]%Z.
Definition C09_line_hist : list Z := [9; 1; 0; 1; 4; 4613937818241073152; 4607182418800017408; 4611686018427387904; 4607182418800017408; 4; 4617315517961601024; 4618441417868443648; 4619567317775286272; 4620693217682128896; 5; 1; 0; 2; 0; 1; 4; 4613937818241073152; 4607182418800017408; 4611686018427387904; 4607182418800017408; 4; 4617315517961601024; 4618441417868443648; 4619567317775286272; 4620693217682128896; 0; 1; 4; 4613937818241073152; 4607182418800017408; 4611686018427387904; 4607182418800017408; 4; 4617315517961601024; 4618441417868443648; 4619567317775286272; 4620693217682128896; 0; 1; 2; 0; 1; 4; 4613937818241073152; 4607182418800017408; 4611686018427387904; 4607182418800017408; 4; 4617315517961601024; 4618441417868443648; 4619567317775286272; 4620693217682128896; 1; 1; 4; 4607182418800017408; 4607182418800017408; 4611686018427387904; 4613937818241073152; 4; 4618441417868443648; 4620693217682128896; 4619567317775286272; 4617315517961601024; 3; 0; 0; 4610127080094836578; 4631248529308778496; 4628011567076605952; 4607182418800017408; 4613937818241073152; 2; 0; 2; 1; 0; 4621819117588971520; 2; 0; 1; 4; 4613937818241073152; 4607182418800017408; 4611686018427387904; 4607182418800017408; 4; 4617315517961601024; 4618441417868443648; 4619567317775286272; 4620693217682128896; 0; 1; 4; 4621819117588971520; 4607182418800017408; 4611686018427387904; 4613937818241073152; 4; 4618441417868443648; 4620693217682128896; 4619567317775286272; 4617315517961601024; 3; 1; 0; 4615583364258766218; 4636526185122103296; 4628011567076605952; 4607182418800017408; 4621819117588971520; 2; 0]%Z.
Definition C09_line_lin : list Z := [9; 2; 0; 0; 4607182418800017408; 5; 5; 0; 4598175219545276416; 4602678819172646912; 4604930618986332160; 4607182418800017408]%Z.
Definition C09_line_sum : list Z := [9; 2; 2; 3; 4607182418800017408; 4611686018427387904; 4615063718147915776; 4619004367821864960]%Z.
Example C09_check_examples :
  check_C09 C09_line_unw = verdict 0 545 (-1) [] /\      (* xs = 2 4 4 4 5 5 7 9, unweighted *)
  check_C09 C09_line_w = verdict 0 574 (-1) [] /\        (* xs = 1 2 3, weights 0 1 2 (first weight zero), Sorted *)
  check_C09 C09_line_hist = verdict 0 3200 (-1) [] /\    (* Copy 0; Sort 1; Query 0; Poke 1 0 10; Query 1 *)
  check_C09 C09_line_lin = verdict 0 256 (-1) [] /\      (* Linspace 0 1 5 *)
  check_C09 C09_line_sum = verdict 0 256 (-1) [].         (* vec.Sum 1 2 3.5 *)
Proof. vm_compute. repeat split; reflexivity. Qed.
(* the real history line above (Copy 0; Sort 1; Query 0; Poke 1 0 10; Query 1 - a direct write included) satisfies the
   conclusion about the observed dumps *)
Example C09_history_real_line : exists sorted hasw xs ws ops,
  p_line C09_line_hist = Some (KHist sorted hasw xs ws ops, []) /\ ~ no_poke (map fst ops) /\
  obs_hist_fresh_ok [mkSample xs (ows hasw ws) sorted] ops.
Proof.
  do 5 eexists. split; [vm_compute; reflexivity|]. split.
  - intro NP. unfold no_poke in NP. cbn [map fst] in NP. do 3 apply Forall_inv_tail in NP. apply Forall_inv in NP. exact NP.
  - eapply (check_hist_fresh_all _ _ _ _ _ 0%Z 3200%Z (-1)%Z []); [vm_compute; reflexivity|left; reflexivity].
Qed.
(* kind 3, IN-PLACE steps (real line): ONE weighted Sample {1,2,3 : 1,1,2}, its Weights array overwritten in place by
   {2,0,1}, then both arrays cut to {1,2 : 0,0}; every Sample query re-observed after each overwrite and compared with the
   model on the contents current at that step: accepted.  The same line with the Weight() of step 2 replaced by the total
   of step 1 (4 instead of 3: what a memo keyed on storage identity returns) is rejected at step 1, observable 10 (Sample.Weight) *)
Definition C09_line_inplace : list Z := [9; 3; 3; 0; 1; 3; 4607182418800017408; 4611686018427387904; 4613937818241073152; 3; 4607182418800017408; 4607182418800017408; 4611686018427387904; 4611686018427387904; 4607182418800017408; 4607182418800017408; 4610862402797412991; 4607182418800017408; 4613937818241073152; 0; 4612248968380809216; 2; 0; 2; 0; 0; 4611820602070902451; 4621256167635550208; 4616189618054758400; 4607182418800017408; 4613937818241073152; 1; 0; 1; 3; 4607182418800017408; 4611686018427387904; 4613937818241073152; 3; 4611686018427387904; 0; 4607182418800017408; 4611686018427387904; 4607182418800017408; 4607182418800017408; 4610862402797412991; 4607182418800017408; 4613937818241073152; 0; 4610184818551597738; 2; 0; 2; 0; 0; 4609174133800058615; 4617315517961601024; 4613937818241073152; 4607182418800017408; 4613937818241073152; 1; 0; 1; 2; 4607182418800017408; 4611686018427387904; 2; 0; 0; 4609434218613702656; 4602678819172646912; 4604544271217802189; 4609047870845172684; 4607182418800017408; 4611686018427387904; 0; 9221120237041090561; 2; 0; 2; 0; 0; 9221120237041090561; 0; 0; 9221120237041090561; 9221120237041090561; 1]%Z.
Definition C09_line_inplace_stale : list Z := [9; 3; 3; 0; 1; 3; 4607182418800017408; 4611686018427387904; 4613937818241073152; 3; 4607182418800017408; 4607182418800017408; 4611686018427387904; 4611686018427387904; 4607182418800017408; 4607182418800017408; 4610862402797412991; 4607182418800017408; 4613937818241073152; 0; 4612248968380809216; 2; 0; 2; 0; 0; 4611820602070902451; 4621256167635550208; 4616189618054758400; 4607182418800017408; 4613937818241073152; 1; 0; 1; 3; 4607182418800017408; 4611686018427387904; 4613937818241073152; 3; 4611686018427387904; 0; 4607182418800017408; 4611686018427387904; 4607182418800017408; 4607182418800017408; 4610862402797412991; 4607182418800017408; 4613937818241073152; 0; 4610184818551597738; 2; 0; 2; 0; 0; 4609174133800058615; 4617315517961601024; 4616189618054758400; 4607182418800017408; 4613937818241073152; 1; 0; 1; 2; 4607182418800017408; 4611686018427387904; 2; 0; 0; 4609434218613702656; 4602678819172646912; 4604544271217802189; 4609047870845172684; 4607182418800017408; 4611686018427387904; 0; 9221120237041090561; 2; 0; 2; 0; 0; 9221120237041090561; 0; 0; 9221120237041090561; 9221120237041090561; 1]%Z.
Example C09_inplace_example :
  check_C09 C09_line_inplace = verdict 0 139822 (-1) [] /\
  (exists steps, p_line C09_line_inplace = Some (KSteps steps, []) /\ length steps = 3%nat) /\
  match check_C09 C09_line_inplace_stale with code :: _ :: pos :: obs :: _ => code = 2%Z /\ pos = 1%Z /\ obs = 10%Z | _ => False end.
Proof. vm_compute. repeat split; try reflexivity. eexists; split; reflexivity. Qed.
Example C09_lines_decode :
  Forall (fun l => exists cs, p_line l = Some (cs, [])) [C09_line_unw; C09_line_w; C09_line_hist; C09_line_lin; C09_line_sum].
Proof. repeat constructor; vm_compute; eexists; reflexivity. Qed.

(* placeholder, replaced when the proofs land *)
From MM Require Import Base.Num Base.GASort.
Theorem C09_sort_perm : forall l, Permutation.Permutation (psort l) l.
Proof. exact psort_perm. Qed.
Print Assumptions C09_sort_perm.

(* Properties/C09.v — Descriptive statistics equal their definitions, weighted or not, in any
   order.  ONLY statements; each is closed by [exact] of a lemma from Proofs/Sample.v.
   mean_def xs = sum/n, var_def xs = sum (x - mean)^2 / (n-1) (Proofs/Stream.v, shared with C13);
   wmean_def ps = sum(w x)/sum(w), repeat_by_weights (Spec/Sample.v).  The model describes the
   repaired code (D4: the weighted Mean/GeoMean skip zero weights). *)
From MM Require Import Base.Num Base.GASort Model.Stream Proofs.Stream Model.Sample Spec.Sample Proofs.Sample.
From Coq Require Import Permutation Sorted.
Local Open Scope Q_scope.

(* ---- Mean, Variance: the incremental (Welford) loops equal the definitions ---- *)
Theorem C09_welford_mean_eq : forall xs, xs <> [] -> exists m, mean xs = FVal m /\ m == mean_def xs.
Proof. exact welford_mean_eq. Qed.
Print Assumptions C09_welford_mean_eq.

Theorem C09_welford_var_eq : forall xs, (2 <= length xs)%nat -> exists v, variance xs = FVal v /\ v == var_def xs.
Proof. exact welford_var_eq. Qed.
Print Assumptions C09_welford_var_eq.

(* (StdDev is sqrt of this value: the comparator checks observed^2 against it.)  n = 0: NaN, n = 1: 0 *)
Theorem C09_variance_small : variance [] = FNaN /\ forall x, variance [x] = FVal 0.
Proof. exact variance_small. Qed.
Print Assumptions C09_variance_small.

(* ---- weighted Mean = sum(w x)/sum(w), zero weights anywhere (also first: D4) ---- *)
Theorem C09_wmean_eq : forall xs ws st, xs <> [] -> nonneg_weights (combine xs ws) -> 0 < wsum_w (combine xs ws) ->
  exists m, sample_mean (mkSample xs (Some ws) st) = FVal m /\ m == wmean_def (combine xs ws).
Proof. exact wmean_eq. Qed.
Print Assumptions C09_wmean_eq.

(* ---- Sum ---- *)
Theorem C09_sum_eq : forall xs, vsum xs == Qsum xs.
Proof. exact vsum_eq. Qed.
Print Assumptions C09_sum_eq.

Theorem C09_weighted_sum_eq : forall xs ws st, sample_sum (mkSample xs (Some ws) st) == wsum_xw (combine xs ws).
Proof. exact sample_sum_weighted. Qed.
Print Assumptions C09_weighted_sum_eq.

(* ---- order of the data is irrelevant ---- *)
Theorem C09_mean_perm_invariant : forall a b, Permutation a b -> fres_eq (mean a) (mean b).
Proof. exact mean_perm. Qed.
Print Assumptions C09_mean_perm_invariant.

Theorem C09_variance_perm_invariant : forall a b, Permutation a b -> fres_eq (variance a) (variance b).
Proof. exact variance_perm. Qed.
Print Assumptions C09_variance_perm_invariant.

Theorem C09_sum_perm_invariant : forall a b, Permutation a b -> vsum a == vsum b.
Proof. exact vsum_perm. Qed.
Print Assumptions C09_sum_perm_invariant.

Theorem C09_bounds_perm_invariant : forall a b mn mx mn' mx', Permutation a b ->
  bounds a = Some (mn, mx) -> bounds b = Some (mn', mx') -> mn == mn' /\ mx == mx'.
Proof. exact bounds_perm. Qed.
Print Assumptions C09_bounds_perm_invariant.

Theorem C09_weighted_defs_perm_invariant : forall a b, Permutation a b -> wmean_def a == wmean_def b.
Proof. exact wmean_def_perm. Qed.
Print Assumptions C09_weighted_defs_perm_invariant.

(* ---- Bounds = (least element, greatest element) ---- *)
Theorem C09_bounds_def : forall l mn mx, bounds l = Some (mn, mx) ->
  (In mn l /\ forall x, In x l -> mn <= x) /\ (In mx l /\ forall x, In x l -> x <= mx).
Proof. exact Proofs.Quantile.bounds_spec. Qed.
Print Assumptions C09_bounds_def.

(* marking ascending data as Sorted changes no result: Bounds is the only statistic whose code
   looks at the flag (constant-time path) *)
Theorem C09_sorted_flag_irrelevant : forall xs mn mx, StronglySorted Qle xs -> bounds xs = Some (mn, mx) ->
  exists a b, sample_bounds (mkSample xs None true) = Some (a, b) /\ a == mn /\ b == mx.
Proof. exact bounds_sorted_flag. Qed.
Print Assumptions C09_sorted_flag_irrelevant.

(* weighted Bounds ignores zero-weight values: it is Bounds of the values carrying a non-zero
   weight ([used]), hence (C09_bounds_def) their least and greatest element, NaN if there is none *)
Theorem C09_weighted_bounds_def : forall xs ws, xs <> [] ->
  sample_bounds (mkSample xs (Some ws) false) = bounds (used (combine xs ws)).
Proof. exact weighted_bounds_unsorted. Qed.
Print Assumptions C09_weighted_bounds_def.

(* ... and the Sorted fast path (first / last non-zero weight) agrees on ascending data *)
Theorem C09_weighted_sorted_flag_irrelevant : forall xs ws, xs <> [] -> length ws = length xs -> StronglySorted Qle xs ->
  obounds_eq (sample_bounds (mkSample xs (Some ws) true)) (sample_bounds (mkSample xs (Some ws) false)).
Proof. exact weighted_bounds_sorted_flag. Qed.
Print Assumptions C09_weighted_sorted_flag_irrelevant.

Theorem C09_int_weights_bounds_eq_repeat : forall xs ws, xs <> [] -> length ws = length xs ->
  obounds_eq (sample_bounds (mkSample xs (Some (map Qofnat ws)) false)) (bounds (repeat_by_weights xs ws)).
Proof. exact int_weights_bounds_eq_repeat. Qed.
Print Assumptions C09_int_weights_bounds_eq_repeat.

(* ---- non-negative integer weights = each value repeated weight times ---- *)
Theorem C09_int_weights_eq_repeat : forall xs ws st, length ws = length xs -> repeat_by_weights xs ws <> [] ->
  fres_eq (sample_mean (mkSample xs (Some (map Qofnat ws)) st)) (mean (repeat_by_weights xs ws)) /\
  sample_sum (mkSample xs (Some (map Qofnat ws)) st) == vsum (repeat_by_weights xs ws) /\
  sample_weight (mkSample xs (Some (map Qofnat ws)) st) == Qofnat (length (repeat_by_weights xs ws)).
Proof. exact int_weights_eq_repeat. Qed.
Print Assumptions C09_int_weights_eq_repeat.

(* ---- GeoMean = exp(sum c_i ln x_i): the coefficients the code builds ---- *)
(* unweighted: every c_i = 1/n, all values positive: GeoMean = (prod x_i)^(1/n) *)
Theorem C09_geomean_coeffs : forall xs cs, geomean xs = GExp cs ->
  length cs = length xs /\ Forall (fun c => c == 1 / Qofnat (length xs)) cs /\ Forall (fun x => 0 < x) xs.
Proof. exact geomean_coeffs. Qed.
Print Assumptions C09_geomean_coeffs.

(* NaN exactly for the empty sample or a non-positive value *)
Theorem C09_geomean_nan_iff : forall xs, geomean xs = GNaN <-> xs = [] \/ exists x, In x xs /\ x <= 0.
Proof. exact geomean_nan_iff. Qed.
Print Assumptions C09_geomean_nan_iff.

(* weighted: c_i * W = w_i: GeoMean = (prod x_i^w_i)^(1/W) — with integer weights this is the
   GeoMean of the repeated sample (all coefficients 1/W, value x_i occurring w_i times) *)
Theorem C09_weighted_geomean_coeffs : forall xs ws st cs, xs <> [] -> nonneg_weights (combine xs ws) ->
  sample_geomean (mkSample xs (Some ws) st) = GExp cs ->
  Forall2 (fun c w => c * wsum_w (combine xs ws) == w) cs (map snd (combine xs ws)).
Proof. exact sample_geomean_coeffs. Qed.
Print Assumptions C09_weighted_geomean_coeffs.

(* ---- Sort keeps each weight attached to its value; ascending; flag set ---- *)
Theorem C09_sort_pairs : forall xs ws, length ws = length xs ->
  let s' := sample_sort (mkSample xs (Some ws) false) in
  exists ws', s_ws s' = Some ws' /\ length ws' = length (s_xs s') /\
  Permutation (combine (s_xs s') ws') (combine xs ws) /\
  StronglySorted Qle (s_xs s') /\ s_sorted s' = true.
Proof. exact sort_pairs. Qed.
Print Assumptions C09_sort_pairs.

Theorem C09_sort_values : forall xs,
  let s' := sample_sort (mkSample xs None false) in
  s_ws s' = None /\ Permutation (s_xs s') xs /\ StronglySorted Qle (s_xs s') /\ s_sorted s' = true.
Proof. exact sort_values. Qed.
Print Assumptions C09_sort_values.

(* ---- histories: any interleaving of Sort, Copy and queries ---- *)
Theorem C09_history_agrees : forall ops s0, no_poke ops -> sample_wf s0 ->
  Forall (same_multiset s0) (h_run s0 ops).
Proof. exact history_agrees. Qed.
Print Assumptions C09_history_agrees.

(* ... so every query equals the fresh computation on the original sample *)
Theorem C09_history_queries_unweighted : forall s0 s, s_ws s0 = None -> same_multiset s0 s ->
  Permutation (s_xs s) (s_xs s0) /\
  fres_eq (sample_mean s) (sample_mean s0) /\ fres_eq (sample_variance s) (sample_variance s0) /\
  sample_sum s == sample_sum s0 /\ sample_weight s == sample_weight s0.
Proof. exact same_multiset_queries_unweighted. Qed.
Print Assumptions C09_history_queries_unweighted.

Theorem C09_history_queries_weighted : forall s0 s ws0, s_ws s0 = Some ws0 -> sample_wf s0 -> same_multiset s0 s ->
  s_xs s0 <> [] -> nonneg_weights (spairs s0) -> 0 < wsum_w (spairs s0) ->
  fres_eq (sample_mean s) (sample_mean s0) /\ sample_sum s == sample_sum s0 /\ sample_weight s == sample_weight s0.
Proof. exact same_multiset_queries_weighted. Qed.
Print Assumptions C09_history_queries_weighted.

(* ---- vec ---- *)
Theorem C09_linspace_ends : forall lo hi num, (2 <= num)%nat ->
  nth 0 (linspace lo hi num) 0 == lo /\ nth (num - 1) (linspace lo hi num) 0 == hi.
Proof. exact linspace_ends. Qed.
Print Assumptions C09_linspace_ends.

Theorem C09_linspace_even : forall lo hi num i, (2 <= num)%nat -> (S i < num)%nat ->
  nth (S i) (linspace lo hi num) 0 - nth i (linspace lo hi num) 0 == (hi - lo) / Qofnat (num - 1).
Proof. exact linspace_even. Qed.
Print Assumptions C09_linspace_even.

Theorem C09_linspace_length : forall lo hi num, length (linspace lo hi num) = num.
Proof. exact linspace_length. Qed.
Print Assumptions C09_linspace_length.

Theorem C09_linspace_one : forall lo hi, linspace lo hi 1 = [lo].
Proof. exact linspace_one. Qed.
Print Assumptions C09_linspace_one.

Theorem C09_map_nth : forall f xs i d, (i < length xs)%nat -> nth i (vmap f xs) (f d) = f (nth i xs d).
Proof. exact vmap_nth. Qed.
Print Assumptions C09_map_nth.

Theorem C09_concat_app : forall a b, vconcat (a ++ b) = vconcat a ++ vconcat b.
Proof. exact vconcat_app. Qed.
Print Assumptions C09_concat_app.

Theorem C09_vsum_app : forall a b, vsum (a ++ b) == vsum a + vsum b.
Proof. exact vsum_app. Qed.
Print Assumptions C09_vsum_app.

(* ---- non-vacuity ---- *)
Example C09_example_stats :
  mean [2; 4; 4; 4; 5; 5; 7; 9] = FVal 5 /\
  match variance [2; 4; 4; 4; 5; 5; 7; 9] with FVal v => v == 32 # 7 | _ => False end /\
  (* first weight zero (D4) *)
  match sample_mean (mkSample [1; 2; 3] (Some [0; 1; 2]) false) with FVal m => m == 8 # 3 | _ => False end /\
  sample_bounds (mkSample [1; 2; 3] (Some [0; 1; 2]) false) = Some (2, 3) /\
  sample_bounds (mkSample [1; 2; 3] (Some [0; 1; 0]) true) = Some (2, 2) /\
  repeat_by_weights [1; 2; 3] [0; 1; 2]%nat = [2; 3; 3] /\
  geomean [2; 8] = GExp [1 # 2; 1 # 2] /\ geomean [2; 0] = GNaN /\
  sample_geomean (mkSample [2; 8; 5] (Some [1; 3; 0]) false) = GExp [1 # 4; 3 # 4; 0].
Proof. vm_compute. repeat split; reflexivity. Qed.

Example C09_example_sort_history :
  h_run (mkSample [3; 1; 2; 1] (Some [5; 6; 7; 8]) false) [HCopy 0; HSort 1; HQuery 0; HCopy 1; HSort 0]
  = [mkSample [1; 1; 2; 3] (Some [6; 8; 7; 5]) true; mkSample [1; 1; 2; 3] (Some [6; 8; 7; 5]) true;
     mkSample [1; 1; 2; 3] (Some [6; 8; 7; 5]) true] /\
  linspace 0 1 5 = [0; 1 # 4; 1 # 2; 3 # 4; 1] /\ vconcat [[1; 2]; []; [3]] = [1; 2; 3].
Proof. vm_compute. repeat split; reflexivity. Qed.

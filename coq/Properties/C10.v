(* placeholder, replaced when the proofs land *)
From MM Require Import Base.Num Base.GASort.
Theorem C10_sort_perm : forall l, Permutation.Permutation (Qsort l) l.
Proof. exact Qsort_perm. Qed.
Print Assumptions C10_sort_perm.

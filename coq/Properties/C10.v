(* Properties/C10.v — Sample.Quantile is the Hyndman-Fan type 8 quantile, monotone and bounded.
   ONLY statements; each is closed by [exact] of a lemma from Proofs/Quantile.v.
   [quantile] is the model of Sample.Quantile with the float64 constant fl(1/3) the code uses;
   [hf8_def xs q] is the textbook estimate on the order statistics of [Qsort xs] (a verified
   sort: Base/GASort.v) with h = (N + 1/3) q + 1/3, q clamped to [0,1], order statistics clamped
   to the smallest and largest value. *)
From MM Require Import Base.Num Base.GASort Model.Stream Proofs.Stream Model.Sample Model.Quantile Spec.Quantile Proofs.Quantile Proofs.QuantileW
  Proofs.Sample Proofs.QuantileWAll Proofs.CheckBase Check.C10 Proofs.CheckC10.
From Coq Require Import Permutation Sorted Qround.
Local Open Scope Q_scope.

(* With the exact constant 1/3 the model IS the textbook HF8 estimate, for every non-empty
   sample and every q (q <= 0 and q >= 1 included). *)
Theorem C10_quantile_is_hf8_exact_constant : forall xs q, xs <> [] ->
  exists v, quantile_c (1 # 3) (unsorted xs) q = RVal v /\ v == hf8_def xs q.
Proof. exact quantile_is_hf8_exact. Qed.
Print Assumptions C10_quantile_is_hf8_exact_constant.

(* The constant of the code IS fl(1/3): third_f is the value of the float64 bit pattern 0x3FD5555555555555,
   a 53-bit significand times 2^-54, and no multiple of 2^-54 (no float64 of that binade) is closer to 1/3;
   1/3 - third_f = 2^-54/3 exactly.  (The bound of C10_quantile_is_hf8 below is proved for EVERY sample
   size and every q: Proofs/Quantile.v, hf_const_close.) *)
Theorem C10_float_third_is_nearest :
  decode_bits 0x3FD5555555555555 = XFin third_f /\
  (third_f == inject_Z 6004799503160661 / inject_Z (2 ^ 54) /\ (2 ^ 52 <= 6004799503160661 < 2 ^ 53)%Z) /\
  (1 # 3) - third_f == 1 # (3 * 2 ^ 54) /\
  forall m : Z, (1 # 3) - third_f <= Qabs ((1 # 3) - inject_Z m / inject_Z (2 ^ 54)).
Proof. exact (conj third_f_bits (conj third_f_float (conj third_f_close third_f_nearest))). Qed.
Print Assumptions C10_float_third_is_nearest.

(* With the constant of the code (the float64 nearest 1/3, 1/3 - 2^-54/3) it never fails and
   differs from HF8 by at most (1+q) * 2^-54/3 * (max - min). *)
Theorem C10_quantile_is_hf8 : forall xs q, xs <> [] ->
  exists v, quantile (unsorted xs) q = RVal v /\
  Qabs (v - hf8_def xs q) <=
  (1 + clamp01 q) * (1 # (3 * 2 ^ 54)) * (ostat_c (Qsort xs) (Z.of_nat (length (Qsort xs))) - ostat_c (Qsort xs) 1).
Proof. exact quantile_is_hf8. Qed.
Print Assumptions C10_quantile_is_hf8.

Theorem C10_quantile_monotone_in_q : forall xs q1 q2 v1 v2, q1 <= q2 ->
  quantile (unsorted xs) q1 = RVal v1 -> quantile (unsorted xs) q2 = RVal v2 -> v1 <= v2.
Proof. exact quantile_monotone_in_q. Qed.
Print Assumptions C10_quantile_monotone_in_q.

(* [bounds] is the model of stats.Bounds; C10_bounds_are_min_max says what it returns *)
Theorem C10_quantile_between_min_max : forall xs q v mn mx,
  bounds xs = Some (mn, mx) -> quantile (unsorted xs) q = RVal v -> mn <= v /\ v <= mx.
Proof. exact quantile_between_min_max. Qed.
Print Assumptions C10_quantile_between_min_max.

Theorem C10_quantile_ends : forall xs mn mx, bounds xs = Some (mn, mx) ->
  (forall q, q <= 0 -> quantile (unsorted xs) q = RVal mn) /\
  (forall q, 1 <= q -> quantile (unsorted xs) q = RVal mx).
Proof. exact quantile_ends. Qed.
Print Assumptions C10_quantile_ends.

Theorem C10_bounds_are_min_max : forall l mn mx, bounds l = Some (mn, mx) ->
  (In mn l /\ forall x, In x l -> mn <= x) /\ (In mx l /\ forall x, In x l -> x <= mx).
Proof. exact bounds_spec. Qed.
Print Assumptions C10_bounds_are_min_max.

(* input order is irrelevant *)
Theorem C10_quantile_perm_invariant : forall xs ys q, Permutation xs ys ->
  qr_eq (quantile (unsorted xs) q) (quantile (unsorted ys) q).
Proof. exact quantile_perm_invariant. Qed.
Print Assumptions C10_quantile_perm_invariant.

(* marking ascending data as Sorted changes nothing *)
Theorem C10_quantile_sorted_flag_irrelevant : forall xs q, StronglySorted Qle xs ->
  qr_eq (quantile (marked_sorted xs) q) (quantile (unsorted xs) q).
Proof. exact quantile_sorted_flag_irrelevant. Qed.
Print Assumptions C10_quantile_sorted_flag_irrelevant.

(* NaN exactly for the empty sample *)
Theorem C10_quantile_nan_iff_empty : forall xs q, quantile (unsorted xs) q = RNaN <-> xs = [].
Proof. exact quantile_nan_iff_empty. Qed.
Print Assumptions C10_quantile_nan_iff_empty.

(* continuity at the break points (h integer): the left piece at fraction 1 equals the right
   piece at fraction 0, and more generally moving the position h by d (the rounding of the
   float h, or Modf landing on the other side of an integer) moves the result by at most
   d * (max - min): this is what makes the float evaluation of h harmless *)
Theorem C10_quantile_continuous_at_breaks : forall l (k : Z),
  ostat_c l (k - 1) + 1 * (ostat_c l (k - 1 + 1) - ostat_c l (k - 1)) == interp_c l (inject_Z k) /\
  interp_c l (inject_Z k) == ostat_c l k.
Proof. exact interp_continuous_at_breaks. Qed.
Print Assumptions C10_quantile_continuous_at_breaks.

Theorem C10_quantile_lipschitz_in_position : forall l h h', StronglySorted Qle l -> l <> [] ->
  Qabs (interp_c l h' - interp_c l h) <= Qabs (h' - h) * (ostat_c l (Z.of_nat (length l)) - ostat_c l 1).
Proof. exact interp_lipschitz. Qed.
Print Assumptions C10_quantile_lipschitz_in_position.

(* IQR = Quantile(0.75) - Quantile(0.25), weighted or not *)
Theorem C10_iqr_def : forall s a b,
  (s_ws s = None \/ exists ws, s_ws s = Some ws /\ length ws = length (s_xs s)) ->
  quantile s (3 # 4) = RVal a -> quantile s (1 # 4) = RVal b -> iqr s = RVal (a - b).
Proof. exact iqr_def. Qed.
Print Assumptions C10_iqr_def.

(* weighted: with ps the (value, weight) pairs sorted ascending by value (weights attached),
   the result is the value at the FIRST position whose cumulative weight exceeds q * W, and the
   last value if no cumulative weight does *)
Theorem C10_weighted_quantile_spec : forall xs ws q, xs <> [] -> length ws = length xs -> 0 < q -> q < 1 ->
  let ps := psort (combine xs ws) in
  exists v, quantile (mkSample xs (Some ws) false) q = RVal v /\
  ((exists i w, nth_error ps i = Some (v, w) /\ first_exceeding ps (totw ps * q) i) \/
   ((forall j, (j < length ps)%nat -> cumw ps j <= totw ps * q) /\
    exists w, nth_error ps (length ps - 1) = Some (v, w))).
Proof. exact quantile_weighted_spec. Qed.
Print Assumptions C10_weighted_quantile_spec.

(* weighted, at the level of the MULTISET of pairs: with Wle ps y = total weight of the values
   <= y, the result v is a value of the sample with q*W < Wle v while Wle x <= q*W for every
   smaller value x (or the largest value when no cumulative weight exceeds q*W) *)
Theorem C10_weighted_quantile_char : forall xs ws st q, xs <> [] -> length ws = length xs ->
  Qle_bool q 0 = false -> Qle_bool 1 q = false -> (st = true -> StronglySorted Qle xs) ->
  nonneg (combine xs ws) ->
  exists v ps, quantile (mkSample xs (Some ws) st) q = RVal v /\
               Permutation ps (combine xs ws) /\ wq_char ps (totw ps * q) v.
Proof. exact quantile_weighted_mid. Qed.
Print Assumptions C10_weighted_quantile_char.

(* hence it does not depend on the input order nor on the Sorted flag (non-negative weights) *)
Theorem C10_weighted_quantile_presentation_invariant : forall xs ws st ys vs st' q,
  xs <> [] -> length ws = length xs -> length vs = length ys ->
  0 < q -> q < 1 ->
  (st = true -> StronglySorted Qle xs) -> (st' = true -> StronglySorted Qle ys) ->
  nonneg (combine xs ws) -> Permutation (combine xs ws) (combine ys vs) ->
  qr_eq (quantile (mkSample xs (Some ws) st) q) (quantile (mkSample ys (Some vs) st') q).
Proof. exact weighted_quantile_presentation_invariant. Qed.
Print Assumptions C10_weighted_quantile_presentation_invariant.

(* and it is non-decreasing in q *)
Theorem C10_weighted_quantile_monotone_in_q : forall xs ws st q1 q2 v1 v2,
  xs <> [] -> length ws = length xs -> 0 < q1 -> q1 <= q2 -> q2 < 1 ->
  (st = true -> StronglySorted Qle xs) -> nonneg (combine xs ws) ->
  quantile (mkSample xs (Some ws) st) q1 = RVal v1 ->
  quantile (mkSample xs (Some ws) st) q2 = RVal v2 -> v1 <= v2.
Proof. exact weighted_quantile_monotone_in_q. Qed.
Print Assumptions C10_weighted_quantile_monotone_in_q.

(* WEIGHTED, THE ENDS q <= 0 / q >= 1: Quantile returns the weighted Bounds (C09_weighted_bounds_def,
   C09_weighted_sorted_flag_irrelevant): the least / greatest value carrying a non-zero weight, NaN when
   nothing carries weight - whatever the order and the Sorted flag *)
Theorem C10_weighted_quantile_ends : forall xs ws st q, xs <> [] -> length ws = length xs ->
  (st = true -> StronglySorted Qle xs) -> q <= 0 \/ 1 <= q ->
  match used (combine xs ws) with
  | [] => quantile (mkSample xs (Some ws) st) q = RNaN
  | u => exists v, quantile (mkSample xs (Some ws) st) q = RVal v /\
                   (q <= 0 -> is_min v u) /\ (0 < q -> is_max v u)
  end.
Proof. exact weighted_quantile_ends. Qed.
Print Assumptions C10_weighted_quantile_ends.

(* ... so, for EVERY q (no restriction to 0 < q < 1): the weighted result depends only on the multiset of
   (value, weight) pairs - not on the input order, not on the Sorted flag *)
Theorem C10_weighted_quantile_presentation_invariant_all_q : forall xs ws st ys vs st' q,
  xs <> [] -> length ws = length xs -> length vs = length ys ->
  (st = true -> StronglySorted Qle xs) -> (st' = true -> StronglySorted Qle ys) ->
  nonneg (combine xs ws) -> Permutation (combine xs ws) (combine ys vs) ->
  qr_eq (quantile (mkSample xs (Some ws) st) q) (quantile (mkSample ys (Some vs) st') q).
Proof. exact weighted_quantile_presentation_invariant_all. Qed.
Print Assumptions C10_weighted_quantile_presentation_invariant_all_q.

(* ... and it is non-decreasing in q over the WHOLE line (any q1 <= q2; a NaN result - nothing carries
   weight, q at an end - is not a value and is not compared) *)
Theorem C10_weighted_quantile_monotone_all_q : forall xs ws st q1 q2 v1 v2,
  xs <> [] -> length ws = length xs -> q1 <= q2 ->
  (st = true -> StronglySorted Qle xs) -> nonneg (combine xs ws) ->
  quantile (mkSample xs (Some ws) st) q1 = RVal v1 ->
  quantile (mkSample xs (Some ws) st) q2 = RVal v2 -> v1 <= v2.
Proof. exact weighted_quantile_monotone_all. Qed.
Print Assumptions C10_weighted_quantile_monotone_all_q.

(* {3:0, 1:1, 2:2} (the largest value carries no weight): q = -1 -> 1, q = 1/2 -> 2, q = 7 -> 2, in two presentations *)
Example C10_example_weighted_ends :
  quantile (mkSample [3; 1; 2] (Some [0; 1; 2]) false) (-1) = RVal 1 /\
  quantile (mkSample [3; 1; 2] (Some [0; 1; 2]) false) (1 # 2) = RVal 2 /\
  quantile (mkSample [3; 1; 2] (Some [0; 1; 2]) false) 7 = RVal 2 /\
  quantile (mkSample [1; 2; 3] (Some [1; 2; 0]) true) 7 = RVal 2 /\
  quantile (mkSample [1; 2] (Some [0; 0]) true) 0 = RNaN.
Proof. vm_compute. repeat split; reflexivity. Qed.

(* for 0 < q < 1 sorting first (once) gives the same result — the comparator relies on it *)
Theorem C10_quantile_sort_first : forall c s q, Qle_bool q 0 = false -> Qle_bool 1 q = false ->
  (s_ws s = None \/ exists ws, s_ws s = Some ws /\ length ws = length (s_xs s)) ->
  quantile_c c s q = quantile_c c (sample_sort s) q.
Proof. exact quantile_mid_sort_first. Qed.
Print Assumptions C10_quantile_sort_first.

(* ---- non-vacuity ---- *)
(* TestSampleQuantile's sample {15,20,35,40,50}: q=0.4 -> h = 2.4666.. -> 20 + 0.4666..*15 = 27 *)
Example C10_example_hf8 :
  hf8_def [35; 15; 50; 20; 40] (2 # 5) == 27 /\
  hf8_def [35; 15; 50; 20; 40] (1 # 2) == 35 /\
  hf8_def [35; 15; 50; 20; 40] (1 # 100) == 15 /\ hf8_def [35; 15; 50; 20; 40] 2 == 50 /\
  match quantile (unsorted [35; 15; 50; 20; 40]) (2 # 5) with RVal v => Qabs (v - 27) <= 1 # 1000000000000 | _ => False end /\
  quantile (unsorted [35; 15; 50; 20; 40]) (-1) = RVal 15 /\ quantile (unsorted []) (1 # 2) = RNaN.
Proof. vm_compute. repeat split; try reflexivity; discriminate. Qed.

(* weighted {1:w1, 2:w2, 3:w1}: W=4; q=0.3 -> 1.2: first cumulative weight (1,3,4) above is 3 -> 2 *)
Example C10_example_weighted :
  quantile (mkSample [3; 1; 2] (Some [1; 1; 2]) false) (3 # 10) = RVal 2 /\
  quantile (mkSample [3; 1; 2] (Some [1; 1; 2]) false) (1 # 4) = RVal 2 /\
  quantile (mkSample [3; 1; 2] (Some [1; 1; 2]) false) (1 # 5) = RVal 1 /\
  quantile (mkSample [3; 1; 2] (Some [1; 1; 2]) false) (4 # 5) = RVal 3 /\
  match iqr (mkSample [3; 1; 2] (Some [1; 1; 2]) false) with RVal v => v == 1 | _ => False end.
Proof. vm_compute. repeat split; reflexivity. Qed.

(* the same multiset presented in another order, and ascending + Sorted *)
Example C10_example_weighted_presentations :
  quantile (mkSample [1; 2; 3] (Some [1; 2; 1]) true) (3 # 10) = RVal 2 /\
  quantile (mkSample [2; 3; 1] (Some [2; 1; 1]) false) (3 # 10) = RVal 2 /\
  Wle (combine [3; 1; 2] [1; 1; 2]) 2 == 3 /\ Wle (combine [3; 1; 2] [1; 1; 2]) 1 == 1.
Proof. vm_compute. repeat split; reflexivity. Qed.

(* ====================================================================== *)
(* What an accepted verdict of the correspondence comparator certifies (Proofs/CheckC10.v). *)
(* ====================================================================== *)
(* A line is a list of steps (a plain line: one step; a history line: ONE Sample whose backing
   arrays are overwritten in place between the steps, each step recorded with the values current
   then).  If check_C10 accepts the line (verdict code c = 0 ok or 1 borderline), then for EVERY
   step [case_ok c step] holds (Proofs/CheckC10.v), i.e. with xs/ws the step's data:
   - the "sample unmodified" flag is 1; Weights has the length of Xs; Sorted only on ascending data;
   - empty sample: every Quantile(q) and IQR returned NaN (status 0);
   - unweighted: every Quantile(q) returned (status 0) a finite v with
       v == hf8_def xs q                                             for q <= 0 or q >= 1,
       |v - hf8_def xs q| <= tol_unw xs + hf8_const_err xs q         otherwise
     (hf8_const_err = the proved distance (1+q) 2^-54/3 (max-min) caused by the float constant), and
     IQR returned v with |v - (hf8_def xs 3/4 - hf8_def xs 1/4)| <= tol_iqr_unw xs + both const errors;
   - weighted: there is an ascending arrangement ps of the (value, weight) pairs such that every
     Quantile(q), 0<q<1, returned (a number == ) the value at the first position of ps whose cumulative
     weight exceeds t, the last value if none does (wq_at), for a target t that is q*W or one of
     the two ends q*W -+ tol_wtarget of the borderline window (in_window) - and t = q*W for every
     query when the verdict code is 0; for q <= 0 / q >= 1 the least / greatest value that carries
     a non-zero weight (NaN if there is none); IQR returned v with |v - (a - b)| <= tol_iqr_w xs for
     a, b such values at q = 3/4 and 1/4 (targets in their windows) - and, when the verdict code is 0,
     at the EXACT targets 3W/4 and W/4 (w_iqr_exact): a borderline choice inside the IQR raises the code to 1. *)
(* In addition, EXACTLY (no tolerance, on the observed floats; [order_facts]): every finite result lies
   between two values of the sample, the results of one case are non-decreasing in q, and (unweighted;
   [bracket_facts], [bracket_ok]) an interpolated result at position h = k + frac, 1 <= k < N, lies in the
   bracket [x_(k), x_(k+1)] of its two order statistics of Qsort xs, widened by one order statistic on each side
   when frac is within 1e-6 of 0 or 1. *)
Theorem C10_check_ok_sound : forall line c tag pos diag hist cases,
  check_C10 line = verdict c tag pos diag -> (c = 0 \/ c = 1)%Z ->
  p_line line = Some ((hist, cases), []) -> Forall (case_ok c) cases.
Proof. exact check_ok_sound. Qed.
Print Assumptions C10_check_ok_sound.

(* the exact order facts are part of case_ok; for a constant sample the only admissible result is the constant *)
Theorem C10_check_order_facts : forall code sorted hasw xs ws qs ist iv unm,
  case_ok code (sorted, hasw, xs, ws, qs, ist, iv, unm) -> order_facts xs qs.
Proof. exact case_ok_order. Qed.
Print Assumptions C10_check_order_facts.

Theorem C10_check_constant_sample : forall xs qs c, order_facts xs qs -> xs <> [] -> Forall (fun x => x == c) xs ->
  forall q st v, In (q, st, XFin v) qs -> v == c.
Proof. exact order_facts_constant. Qed.
Print Assumptions C10_check_constant_sample.

(* THE BRACKET is part of case_ok (unweighted, non-empty) ... *)
Theorem C10_check_bracket : forall code sorted xs ws qs ist iv unm,
  case_ok code (sorted, false, xs, ws, qs, ist, iv, unm) -> xs <> [] ->
  forall q st v, In (q, st, XFin v) qs -> bracket_ok (Qsort xs) q v.
Proof. exact case_ok_bracket. Qed.
Print Assumptions C10_check_bracket.

(* ... hence, away from the break points, between two EQUAL adjacent order statistics x_(k) == x_(k+1) the
   only admissible result is exactly that value (no tolerance) ... *)
Theorem C10_bracket_equal_neighbours : forall sx q v, bracket_ok sx q v ->
  let n := length sx in
  let h := quantile_pos third_f n q in
  let k := Qfloor h in
  0 < q -> q < 1 -> (1 <= k)%Z -> (k < Z.of_nat n)%Z -> near_break (h - inject_Z k) = false ->
  forall a b, nth_error sx (Z.to_nat (k - 1)) = Some a -> nth_error sx (Z.to_nat k) = Some b -> a == b -> v == a.
Proof. exact bracket_equal_neighbours. Qed.
Print Assumptions C10_bracket_equal_neighbours.

(* ... and in general (near a break point the bracket is one statistic wider on each side): equal ends of the bracket
   force the value *)
Theorem C10_bracket_equal_ends : forall sx q v, bracket_ok sx q v ->
  let n := length sx in
  let h := quantile_pos third_f n q in
  let k := Qfloor h in
  0 < q -> q < 1 -> (1 <= k)%Z -> (k < Z.of_nat n)%Z ->
  forall a b, nth_error sx (bracket_lo (near_break (h - inject_Z k)) (Z.to_nat (k - 1))) = Some a ->
              nth_error sx (bracket_hi (near_break (h - inject_Z k)) (Z.to_nat (k - 1)) n) = Some b ->
              a == b -> v == a.
Proof. exact bracket_equal_ends. Qed.
Print Assumptions C10_bracket_equal_ends.

(* non-vacuity: {1,2,2,3} at q = 1/2: h = 2.5 (up to 2^-55), k = 2, the bracket is [x_(2), x_(3)] = [2, 2]:
   2 is admitted, 2 + 2^-40 is not *)
Example C10_bracket_example :
  bracket_ok [1; 2; 2; 3] (1 # 2) 2 /\ ~ bracket_ok [1; 2; 2; 3] (1 # 2) (2 + (1 # 2 ^ 40)).
Proof.
  split; [apply bracket_b_sound; vm_compute; reflexivity|].
  intro H.
  assert (E : 2 + (1 # 2 ^ 40) == 2).
  { refine (bracket_equal_neighbours [1; 2; 2; 3] (1 # 2) _ H _ _ _ _ _ 2 2 _ _ _); vm_compute; try reflexivity; discriminate. }
  revert E. vm_compute. discriminate.
Qed.

(* the same for one step: check_case is what check_C10 runs on every step *)
Theorem C10_check_case_sound : forall c v t p d,
  check_case c = (v, t, p, d) -> (v = 0 \/ v = 1)%Z -> case_ok v c.
Proof. exact check_case_sound. Qed.
Print Assumptions C10_check_case_sound.

(* per observable: one unweighted query / the weighted scan candidates *)
Theorem C10_compare_unweighted_query_sound : forall sorted xs ws ps W wex q st obs,
  xs <> [] -> (sorted = true -> StronglySorted Qle xs) ->
  q_code (check_q (csample sorted false xs ws) (csorted sorted false xs ws) ps W wex (tol_unw xs) q st obs) <> 2%Z ->
  unw_q_ok xs (q, st, obs).
Proof. exact check_q_unw. Qed.
Print Assumptions C10_compare_unweighted_query_sound.

Theorem C10_compare_weighted_query_sound : forall sorted xs ws wex q st obs,
  xs <> [] -> length ws = length xs -> (sorted = true -> StronglySorted Qle xs) ->
  let s' := csorted sorted true xs ws in
  let ps := cpairs s' in
  let c := q_code (check_q (csample sorted true xs ws) s' ps (wtotal ps) wex (tol_unw xs) q st obs) in
  c <> 2%Z -> w_q_ok xs ws ps (q, st, obs) /\ ((c <= 0)%Z -> w_q_exact ps (q, st, obs)).
Proof. exact check_q_w. Qed.
Print Assumptions C10_compare_weighted_query_sound.

(* Non-vacuity: real lines of the harness (Go output on /repo) that the comparator accepts. *)
(* {15,20,35,40,50} (TestSampleQuantile) at q = 0.4, 0.5, -1, 2, 0.01: ok, tag 155 *)
Example C10_check_example_unweighted :
  let line := [10; 0; 0; 5; 0x4041800000000000; 0x402e000000000000; 0x4049000000000000; 0x4034000000000000; 0x4044000000000000; 0; 5; 0x3fd999999999999a; 0; 0x403b000000000000; 0x3fe0000000000000; 0; 0x4041800000000000; 0xbff0000000000000; 0; 0x402e000000000000; 0x4000000000000000; 0; 0x4049000000000000; 0x3f847ae147ae147b; 0; 0x402e000000000000; 0; 0x4038ffffffffffff; 1]%Z in
  check_C10 line = verdict 0 155 (-1) [] /\ exists c, p_line line = Some ((false, [c]), []).
Proof. vm_compute. split; [reflexivity|eexists; reflexivity]. Qed.
(* weighted {3:1, 1:1, 2:2} at q = 0.3, 0.25, 0.2, 0.8, 0, 1: ok *)
Example C10_check_example_weighted :
  let line := [10; 0; 1; 3; 0x4008000000000000; 0x3ff0000000000000; 0x4000000000000000; 3; 0x3ff0000000000000; 0x3ff0000000000000; 0x4000000000000000; 6; 0x3fd3333333333333; 0; 0x4000000000000000; 0x3fd0000000000000; 0; 0x4000000000000000; 0x3fc999999999999a; 0; 0x3ff0000000000000; 0x3fe999999999999a; 0; 0x4008000000000000; 0; 0; 0x3ff0000000000000; 0x3ff0000000000000; 0; 0x4008000000000000; 0; 0x3ff0000000000000; 1]%Z in
  check_C10 line = verdict 0 1080 (-1) [] /\ exists c, p_line line = Some ((false, [c]), []).
Proof. vm_compute. split; [reflexivity|eexists; reflexivity]. Qed.
(* weighted {1:1, 2:2} at q = fl(1/3): q*W rounds to 1.0 in float64, the float scan returns 2 where
   the exact scan returns 1: accepted as BORDERLINE (code 1, tag bit 512) *)
Example C10_check_example_borderline :
  let line := [10; 0; 1; 2; 0x3ff0000000000000; 0x4000000000000000; 2; 0x3ff0000000000000; 0x4000000000000000; 2; 0x3fd5555555555555; 0; 0x4000000000000000; 0x3fe0000000000000; 0; 0x4000000000000000; 0; 0x3ff0000000000000; 1]%Z in
  match check_C10 line with code :: tag :: _ => code = 1%Z /\ Z.land tag 512 = 512%Z | _ => False end.
Proof. vm_compute. split; reflexivity. Qed.
(* weighted {1,2,3,4}, every weight fl(0.3), one query q = 0.6 (not at a tie: returns 3, code 0); the quartile
   targets 3W/4 and W/4 coincide EXACTLY with cumulative weights of the model (3 fl(0.3), fl(0.3)) but not of the float
   scan (0.3+0.3+0.3 rounds down): the code returns IQR = 1 where the exact scan gives 4 - 2 = 2.  Accepted as
   BORDERLINE through the IQR alone: verdict code 1, tag bit 512 (real line: Go output on /repo) *)
Example C10_check_example_borderline_iqr :
  let line := [10; 0; 1; 4; 0x3ff0000000000000; 0x4000000000000000; 0x4008000000000000; 0x4010000000000000; 4; 0x3fd3333333333333; 0x3fd3333333333333; 0x3fd3333333333333; 0x3fd3333333333333; 1; 0x3fe3333333333333; 0; 0x4008000000000000; 0; 0x3ff0000000000000; 1]%Z in
  check_C10 line = verdict 1 544 (-1) [] /\ exists c, p_line line = Some ((false, [c]), []).
Proof. vm_compute. split; [reflexivity|eexists; reflexivity]. Qed.
(* a history of three steps on one backing array: {5,4,0}, overwritten by {4,0,5}, then {0,4,7} Sorted *)
Example C10_check_example_history :
  let line := [10; 2; 3; 0; 0; 3; 0x4014000000000000; 0x4010000000000000; 0; 0; 1; 0x3fe0000000000000; 0; 0x4010000000000000; 0; 0x4010aaaaaaaaaaab; 1; 0; 0; 3; 0x4010000000000000; 0; 0x4014000000000000; 0; 2; 0x3fe0000000000000; 0; 0x4010000000000000; 0x3fd0000000000000; 0; 0x3fe5555555555558; 0; 0x4010aaaaaaaaaaab; 1; 1; 0; 3; 0; 0x4010000000000000; 0x401c000000000000; 0; 1; 0x3fe0000000000000; 0; 0x4010000000000000; 0; 0x4017555555555555; 1]%Z in
  check_C10 line = verdict 0 2241 (-1) [] /\ exists c1 c2 c3, p_line line = Some ((true, [c1; c2; c3]), []).
Proof. vm_compute. split; [reflexivity|do 3 eexists; reflexivity]. Qed.

(* the decoder reads the right fields: the first line above parses to the sample {35,15,50,20,40},
   unsorted, unweighted, five queries that all returned (status 0), the second one Quantile(0.5) = 35,
   IQR = 42.5 - 17.5 = 25 (status 0), unmodified = 1 *)
Example C10_parse_example :
  match p_line [10; 0; 0; 5; 0x4041800000000000; 0x402e000000000000; 0x4049000000000000; 0x4034000000000000; 0x4044000000000000; 0; 5; 0x3fd999999999999a; 0; 0x403b000000000000; 0x3fe0000000000000; 0; 0x4041800000000000; 0xbff0000000000000; 0; 0x402e000000000000; 0x4000000000000000; 0; 0x4049000000000000; 0x3f847ae147ae147b; 0; 0x402e000000000000; 0; 0x4038ffffffffffff; 1]%Z with
  | Some ((false, [(sorted, hasw, xs, ws, qs, ist, iv, unm)]), []) =>
      sorted = false /\ hasw = false /\ Forall2 Qeq xs [35; 15; 50; 20; 40] /\ ws = [] /\
      map (fun x => snd (fst x)) qs = [0; 0; 0; 0; 0]%Z /\
      match nth_error qs 1 with Some (q, _, XFin r) => q == 1 # 2 /\ r == 35 | _ => False end /\
      ist = 0%Z /\ match iv with XFin v => Qabs (v - 25) <= 1 # 1000000000 | _ => False end /\ unm = 1%Z
  | _ => False
  end.
Proof. vm_compute. repeat split; try reflexivity; try discriminate; repeat constructor. Qed.

(* Properties/C11.v — QuantileCI bounds are valid order statistics with at least the stated confidence.
   ONLY statements; each is closed by [exact] of a lemma from Proofs/QuantileCI*.v.
   [quantile_ci] is the model of QuantileCI; for n <= 30 it is [qci_small P n x c], the greedy
   accumulation over P = the exact Binomial(n,q) PMF started at the lower mode x = [mode_x n q];
   for n > 30 it is [qci_normal band n c l1 r1] where l1 = norm.InvCDF(alpha), alpha = [qci_alpha c] =
   (1-c)/2 capped at 1/2, r1 = 2 mu - l1 and
   band l r = Phi(r - 1/2) - Phi(l - 1/2) for the CDF Phi of the approximating normal. *)
From MM Require Import Base.Num Base.GFSum Model.Choose Model.Binom Model.QuantileCI Check.C06 Check.C11
                       Proofs.Binom Proofs.QuantileCI Proofs.QuantileCISet Proofs.QuantileCIScale Proofs.QuantileCILaws Proofs.QuantileCIExact Proofs.QuantileCISetScale Proofs.QuantileCIGraph
                       Proofs.QuantileCIMembers Proofs.CheckBase Proofs.CheckC11.
From Coq Require Import Sorted Permutation.
Local Open Scope Q_scope.

(* c >= 1 gives the whole range with Confidence 1, for every n and q *)
Theorem C11_full_range : forall cdfband n q c l1 r1, 1 <= c ->
  quantile_ci cdfband n q c l1 r1 = Some (mkR 0 (n + 1) 1 false).
Proof. exact qci_full_spec. Qed.
Print Assumptions C11_full_range.

(* n <= 30, c < 1: the greedy accumulation on the exact binomial masses *)
Theorem C11_small_dispatch : forall cdfband (n : nat) q c l1 r1, c < 1 -> (Z.of_nat n <= 30)%Z ->
  quantile_ci cdfband (Z.of_nat n) q c l1 r1 =
  qci_small (binom_pmf_i (Z.of_nat n) q) (Z.of_nat n) (mode_x (Z.of_nat n) q) c.
Proof. exact quantile_ci_small. Qed.
Print Assumptions C11_small_dispatch.

(* For EVERY n, q in [0,1] and c the accumulation terminates (within its fuel n+1) with a result such that
   - 0 <= LoOrder < HiOrder <= n+1,
   - Confidence is exactly the Binomial(n,q) probability of the buckets LoOrder..HiOrder-1,
   - the interval contains the start bucket x (the lower mode, see C11_start_is_mode),
   - when Ambiguous is set, the interval shifted up by one has the same Confidence,
   - when the interval has at least two buckets, Confidence without one of its END buckets is below c
     (at least one end bucket is needed to reach c),
   - Confidence >= c (for c <= 1). *)
Theorem C11_small_interval : forall (n : nat) q, 0 <= q <= 1 -> forall c,
  let P := binom_pmf_i (Z.of_nat n) q in
  let x := mode_x (Z.of_nat n) q in
  exists res, qci_small P (Z.of_nat n) x c = Some res /\
    (0 <= r_lo res)%Z /\ (r_lo res < r_hi res)%Z /\ (r_hi res <= Z.of_nat n + 1)%Z /\
    r_conf res == Qsum_range P (r_lo res) (r_hi res - 1)%Z /\
    (r_lo res <= x < r_hi res)%Z /\
    (r_amb res = true -> Qsum_range P (r_lo res + 1)%Z (r_hi res) == r_conf res) /\
    ((2 <= r_hi res - r_lo res)%Z -> r_conf res - P (r_lo res) < c \/ r_conf res - P (r_hi res - 1)%Z < c) /\
    (c <= 1 -> c <= r_conf res).
Proof. exact qci_binom_spec. Qed.
Print Assumptions C11_small_interval.

(* the start bucket is a mode of Binomial(n,q): no bucket has more mass *)
Theorem C11_start_is_mode : forall (n : nat) q, 0 <= q <= 1 -> forall k,
  binom_pmf_i (Z.of_nat n) q k <= binom_pmf_i (Z.of_nat n) q (mode_x (Z.of_nat n) q).
Proof. exact binom_mode_is_max. Qed.
Print Assumptions C11_start_is_mode.

(* intervals are nested as c grows *)
Theorem C11_small_nested : forall (n : nat) q c c' r r', c <= c' ->
  qci_small (binom_pmf_i (Z.of_nat n) q) (Z.of_nat n) (mode_x (Z.of_nat n) q) c = Some r ->
  qci_small (binom_pmf_i (Z.of_nat n) q) (Z.of_nat n) (mode_x (Z.of_nat n) q) c' = Some r' ->
  (r_lo r' <= r_lo r)%Z /\ (r_hi r <= r_hi r')%Z.
Proof. exact qci_binom_nested. Qed.
Print Assumptions C11_small_nested.

(* QuantileCI itself for n <= 30 and EVERY c (c >= 1 included): all clauses in one statement, with the
   c >= 1 short cut folded in (the whole range has Confidence 1 = the mass of buckets 0..n, and one of
   its end buckets carries mass) *)
Theorem C11_small_all_c : forall (n : nat) q, 0 <= q <= 1 -> (Z.of_nat n <= 30)%Z ->
  forall cdfband c l1 r1,
  let N := Z.of_nat n in
  let P := binom_pmf_i N q in
  let x := mode_x N q in
  exists res, quantile_ci cdfband N q c l1 r1 = Some res /\
    (0 <= r_lo res)%Z /\ (r_lo res < r_hi res)%Z /\ (r_hi res <= N + 1)%Z /\
    r_conf res == Qsum_range P (r_lo res) (r_hi res - 1)%Z /\
    (r_lo res <= x < r_hi res)%Z /\
    (r_amb res = true -> Qsum_range P (r_lo res + 1)%Z (r_hi res) == r_conf res) /\
    ((2 <= r_hi res - r_lo res)%Z -> r_conf res - P (r_lo res) < c \/ r_conf res - P (r_hi res - 1)%Z < c) /\
    (c <= 1 -> c <= r_conf res) /\
    (1 <= c -> res = mkR 0 (N + 1) 1 false).
Proof. exact quantile_ci_small_all. Qed.
Print Assumptions C11_small_all_c.

(* nested as c grows, for every pair c <= c' (c' >= 1 included) *)
Theorem C11_nested_all_c : forall (n : nat) q, 0 <= q <= 1 -> (Z.of_nat n <= 30)%Z ->
  forall cdfband c c' l1 r1 l1' r1' r r', c <= c' ->
  quantile_ci cdfband (Z.of_nat n) q c l1 r1 = Some r ->
  quantile_ci cdfband (Z.of_nat n) q c' l1' r1' = Some r' ->
  (r_lo r' <= r_lo r)%Z /\ (r_hi r <= r_hi r')%Z.
Proof. exact quantile_ci_small_nested_all. Qed.
Print Assumptions C11_nested_all_c.

(* n > 30, c < 1: QuantileCI is the band logic *)
Theorem C11_normal_dispatch : forall cdfband n q c l1 r1, c < 1 -> (30 < n)%Z ->
  quantile_ci cdfband n q c l1 r1 = Some (qci_normal cdfband n c l1 r1).
Proof. exact quantile_ci_normal. Qed.
Print Assumptions C11_normal_dispatch.

(* n > 30 (the code after "fix: QuantileCI returns an empty or inverted interval for confidence <= 0
   when n > 30" and "fix: QuantileCI confidence can fall a few ulps short of the request when n > 30").
   For ANY Phi: with l0 - 1/2 the greatest half-integer <= l1 and r - 1/2 the least half-integer >= r1
   (outward rounding; the left end of the rounded band is l = l0, except that an empty rounded band keeps the
   bucket below r — l = l0 whenever l1 < r1, and always l <= l0, l < r), the band is widened by k >= 0 buckets
   on each side: every narrower band had mass < c and did not cover [0, n+1], and the band taken (lw, rw) has
   mass >= c or covers [0, n+1]; the result is that band clamped to [0, n+1], or one bucket shorter on the
   right with Ambiguous set exactly when the shorter band is not empty, still has mass >= c and strictly
   less than the symmetric one (and the band does not cover everything); Confidence is the Phi-mass of the
   unclamped band, 1 when it covers [0, n+1]. *)
Theorem C11_normal_band : forall (Phi : Q -> Q) n c l1 r1,
  let l0 := (Qround.Qfloor (l1 - (1 # 2)) + 1)%Z in
  let r := (Qround.Qceiling (r1 - (1 # 2)) + 1)%Z in
  let l := if (r <=? l0)%Z then (r - 1)%Z else l0 in
  (inject_Z l0 - (1 # 2) <= l1 /\ l1 < inject_Z l0 + (1 # 2) /\ r1 <= inject_Z r - (1 # 2) /\ inject_Z r - (3 # 2) < r1) /\
  ((l <= l0)%Z /\ (l < r)%Z /\ (l1 < r1 -> l = l0) /\ (l1 <= r1 -> (l0 <= r)%Z)) /\
  exists k, (0 <= k)%Z /\
    (forall j, (0 <= j < k)%Z -> band Phi (l - j) (r + j) < c /\ (0 < l - j \/ r + j < n + 1)%Z) /\
    let lw := (l - k)%Z in
    let rw := (r + k)%Z in
    (c <= band Phi lw rw \/ (lw <= 0 /\ n + 1 <= rw)%Z) /\
    let biased := (lw <? rw - 1)%Z && Qle_bool c (band Phi lw (rw - 1)) && Qltb (band Phi lw (rw - 1)) (band Phi lw rw) in
    let r' := if biased then (rw - 1)%Z else rw in
    let full := (lw <=? 0)%Z && (n + 1 <=? r')%Z in
    let res := qci_normal (band Phi) n c l1 r1 in
    r_lo res = Z.max lw 0 /\ r_hi res = Z.min r' (n + 1) /\ r_amb res = (biased && negb full) /\
    r_conf res = (if full then 1 else band Phi lw r').
Proof. exact qci_normal_band_full. Qed.
Print Assumptions C11_normal_band.

(* Confidence is never below c (c <= 1) — for EVERY band-mass function (not only differences of a CDF, not
   only monotone ones) and whatever l1 and r1 are: since the repair the loop re-checks the mass of the band,
   so this clause does not depend on the accuracy of InvCDF or CDF at all *)
Theorem C11_normal_conf_ge_c : forall (cdfband : Z -> Z -> Q) n c l1 r1, c <= 1 ->
  c <= r_conf (qci_normal cdfband n c l1 r1).
Proof. exact qci_normal_conf_ge_c_gen. Qed.
Print Assumptions C11_normal_conf_ge_c.

(* when l1, r1 do bracket the central mass 1 - 2 alpha of a non-decreasing Phi, alpha = (1-c)/2 capped at 1/2
   as in the code, the rounded band already has mass >= c: the loop does not widen, and the result is the
   outward rounding of [l1, r1] itself (trimmed / clamped) *)
Theorem C11_normal_no_widening : forall (Phi : Q -> Q) n c l1 r1, (forall a b, a <= b -> Phi a <= Phi b) ->
  Phi l1 <= qci_alpha c -> 1 - qci_alpha c <= Phi r1 ->
  let l0 := (Qround.Qfloor (l1 - (1 # 2)) + 1)%Z in
  let r := (Qround.Qceiling (r1 - (1 # 2)) + 1)%Z in
  let l := if (r <=? l0)%Z then (r - 1)%Z else l0 in
  c <= band Phi l r /\
  let biased := (l <? r - 1)%Z && Qle_bool c (band Phi l (r - 1)) && Qltb (band Phi l (r - 1)) (band Phi l r) in
  let r' := if biased then (r - 1)%Z else r in
  let full := (l <=? 0)%Z && (n + 1 <=? r')%Z in
  qci_normal (band Phi) n c l1 r1 =
  mkR (Z.max l 0) (Z.min r' (n + 1)) (if full then 1 else if biased then band Phi l (r - 1) else band Phi l r) (biased && negb full).
Proof. exact qci_normal_no_widening. Qed.
Print Assumptions C11_normal_no_widening.

(* 0 <= LoOrder < HiOrder <= n+1 for EVERY c (c <= 0 included) and any Phi, for a central interval
   l1 <= r1 symmetric about a mean inside [0, n] *)
Theorem C11_normal_orders : forall (Phi : Q -> Q) n c l1 r1 mu,
  l1 <= r1 -> l1 + r1 == 2 * mu -> 0 <= mu <= inject_Z n -> (0 <= n)%Z ->
  let res := qci_normal (band Phi) n c l1 r1 in
  (0 <= r_lo res)%Z /\ (r_lo res < r_hi res)%Z /\ (r_hi res <= n + 1)%Z.
Proof. exact qci_normal_orders. Qed.
Print Assumptions C11_normal_orders.

(* the band logic of the tree BEFORE that fix ([qci_normal_pinned]: no empty-band guards) violates
   the order claim at c = 0 (LoOrder = HiOrder; the code returned QuantileCI(31, 0.5, 0) =
   {16, 16, Confidence 0}), on an input where the repaired model satisfies it *)
Theorem C11_normal_orders_pinned_refuted :
  exists (Phi : Q -> Q) n c l1 r1 mu,
    (forall a b, a <= b -> Phi a <= Phi b) /\ c <= 0 /\ l1 <= r1 /\ l1 + r1 == 2 * mu /\
    0 <= mu <= inject_Z n /\ (0 <= n)%Z /\ Phi l1 == (1 - c) / 2 /\
    (let res := qci_normal_pinned (band Phi) n c l1 r1 in ~ (r_lo res < r_hi res)%Z) /\
    (let res := qci_normal (band Phi) n c l1 r1 in (r_lo res < r_hi res)%Z).
Proof. exact qci_normal_pinned_orders_refuted. Qed.
Print Assumptions C11_normal_orders_pinned_refuted.

(* SampleCI: the bounds are the order statistics LoOrder and HiOrder of a sorted permutation of the
   sample, -inf for order 0 and +inf for order n+1 *)
Theorem C11_sample_ci : forall N lo hi xs,
  Z.of_nat (length xs) = N -> (0 <= lo <= N)%Z -> (1 <= hi <= N + 1)%Z ->
  exists a b s, sample_ci N lo hi false false xs = SciOk a b s /\
    Permutation xs s /\ Sorted (fun u v => Qle_bool u v = true) s /\
    (lo = 0%Z -> a = XInf true) /\
    ((1 <= lo)%Z -> exists v, nth_error s (Z.to_nat (lo - 1)) = Some v /\ a = XFin v) /\
    (hi = (N + 1)%Z -> b = XInf false) /\
    ((hi <= N)%Z -> exists v, nth_error s (Z.to_nat (hi - 1)) = Some v /\ b = XFin v).
Proof. exact sample_ci_spec. Qed.
Print Assumptions C11_sample_ci.

Theorem C11_sample_ci_panics : forall N lo hi w sf xs,
  w = true \/ Z.of_nat (length xs) <> N -> sample_ci N lo hi w sf xs = SciPanic.
Proof. exact sample_ci_panics. Qed.
Print Assumptions C11_sample_ci_panics.

(* a sample flagged Sorted is indexed as it is (no copy, no sort) *)
Theorem C11_sample_ci_sorted_flag : forall N lo hi xs,
  Z.of_nat (length xs) = N -> (0 <= lo <= N)%Z -> (1 <= hi <= N + 1)%Z ->
  exists a b, sample_ci N lo hi false true xs = SciOk a b xs /\
    (lo = 0%Z -> a = XInf true) /\
    ((1 <= lo)%Z -> exists v, nth_error xs (Z.to_nat (lo - 1)) = Some v /\ a = XFin v) /\
    (hi = (N + 1)%Z -> b = XInf false) /\
    ((hi <= N)%Z -> exists v, nth_error xs (Z.to_nat (hi - 1)) = Some v /\ b = XFin v).
Proof. exact sample_ci_sorted_flag. Qed.
Print Assumptions C11_sample_ci_sorted_flag.

(* The comparator does not demand the deterministic outcome: float comparisons whose two sides are
   within 2^-40 of each other may go either way (DESIGN 4.5), so it computes the SET of admissible
   outcomes (a c-independent transition graph walked for each c, with a scale factor sc that keeps
   the numbers integral).  That set always contains the result of the deterministic greedy
   accumulation the theorems above are about — for any window 1/ieps (0 = none), any PMF P. *)
Theorem C11_admissible_set_contains_model : forall (P : Z -> Q) (ieps sc : Q), 0 < sc ->
  forall n xs x c c' g r, c' == sc * c -> In x xs ->
  qci_graph P ieps n xs = Some g -> qci_small P n x c = Some r ->
  exists r', In r' (qci_small_set P ieps n g sc c') /\
             r_lo r' = r_lo r /\ r_hi r' = r_hi r /\ r_amb r' = r_amb r /\ r_conf r' == r_conf r.
Proof. exact set_contains_det_gen. Qed.
Print Assumptions C11_admissible_set_contains_model.

(* The greedy accumulation is invariant under a common positive factor: on masses P' == D * P and
   level D * c it returns the same orders and Ambiguous flag and D times the Confidence — in both
   directions (each run succeeds iff the other does). *)
Theorem C11_greedy_scale_invariant : forall (P P' : Z -> Q) (D : Q), 0 < D -> (forall k, P' k == D * P k) ->
  forall n x c,
  (forall r, qci_small P n x c = Some r ->
     exists r', qci_small P' n x (D * c) = Some r' /\
       r_lo r' = r_lo r /\ r_hi r' = r_hi r /\ r_amb r' = r_amb r /\ r_conf r' == D * r_conf r) /\
  (forall r', qci_small P' n x (D * c) = Some r' ->
     exists r, qci_small P n x c = Some r /\
       r_lo r' = r_lo r /\ r_hi r' = r_hi r /\ r_amb r' = r_amb r /\ r_conf r' == D * r_conf r).
Proof. exact greedy_scale_invariant. Qed.
Print Assumptions C11_greedy_scale_invariant.

(* The comparator's integer masses are the common-denominator multiples of the exact PMF:
   scaled_pmf n (binom_weights n a (d-a)) k = d^n * Binomial(n, a/d)(k), for every k. *)
Theorem C11_comparator_masses : forall (n : nat) (q : Q), 0 <= q <= 1 -> forall k,
  scaled_pmf (Z.of_nat n) (binom_weights (Z.of_nat n) (Qnum q) (Zpos (Qden q) - Qnum q)) k ==
  inject_Z (Zpos (Qden q) ^ Z.of_nat n) * binom_pmf_i (Z.of_nat n) q k.
Proof. exact scaled_pmf_is_scaled. Qed.
Print Assumptions C11_comparator_masses.

(* Combined: the outcome set that Check/C11.v computes for one (n, q = a/2^e, c) — [small_outs] over the
   transition graph started at [mode_candidates], on the integer masses, for either window — contains
   the result of the deterministic model on the RATIONAL Binomial(n,q) PMF at level c: same orders,
   same flag, Confidence as the integer numerator over the common denominator d^n. *)
Theorem C11_comparator_set_contains_model : forall (n : nat) (q : Q), 0 <= q <= 1 ->
  let N := Z.of_nat n in
  let d := Zpos (Qden q) in
  let Pw := scaled_pmf N (binom_weights N (Qnum q) (d - Qnum q)) in
  forall e (exact : bool) c g r, (0 <= e)%Z -> d = Z.shiftl 1 e ->
  qci_graph Pw (if exact then 0 else ieps_border) N (mode_candidates N q exact) = Some g ->
  qci_small (binom_pmf_i N q) N (mode_x N q) c = Some r ->
  exists r', In r' (small_outs Pw N g e exact c) /\
             r_lo r' = r_lo r /\ r_hi r' = r_hi r /\ r_amb r' = r_amb r /\
             r_conf r' == inject_Z (d ^ N) * r_conf r.
Proof. exact comparator_outs_contain_model. Qed.
Print Assumptions C11_comparator_set_contains_model.

(* ... and with the window switched off (the float-exact regime: n <= 20, q dyadic with e n <= 52, where
   every float operation of the Go loop is exact) that set is EXACTLY ONE outcome, the model's: the
   comparator is strict there (left bias, Ambiguous flags, stopping rule at exact ties). *)
Theorem C11_comparator_set_exact : forall (n : nat) (q : Q), 0 <= q <= 1 ->
  let N := Z.of_nat n in
  let d := Zpos (Qden q) in
  let Pw := scaled_pmf N (binom_weights N (Qnum q) (d - Qnum q)) in
  forall e c g r, (0 <= e)%Z -> d = Z.shiftl 1 e ->
  qci_graph Pw 0 N (mode_candidates N q true) = Some g ->
  qci_small (binom_pmf_i N q) N (mode_x N q) c = Some r ->
  exists r', small_outs Pw N g e true c = [r'] /\
             r_lo r' = r_lo r /\ r_hi r' = r_hi r /\ r_amb r' = r_amb r /\
             r_conf r' == inject_Z (d ^ N) * r_conf r.
Proof. exact comparator_outs_exact. Qed.
Print Assumptions C11_comparator_set_exact.

(* The admissible-outcome SET itself is invariant under the common factor, for ANY window 1/ieps >= 0 and
   any list of start candidates: on masses P' == D * P (own scale sc, level c' == sc D c) it is, outcome
   by outcome in the same order, the set on P (scale sc0, level c0 == sc0 c) — same orders, same flags,
   Confidence times D — and the two transition graphs exist together. *)
Theorem C11_admissible_set_scale_invariant : forall (P P' : Z -> Q) (D ieps sc0 sc : Q),
  0 < D -> 0 <= ieps -> 0 < sc0 -> 0 < sc -> (forall k, P' k == D * P k) ->
  forall n xs c c0 c', c0 == sc0 * c -> c' == sc * (D * c) ->
  match qci_graph P ieps n xs, qci_graph P' ieps n xs with
  | Some g, Some g' =>
      Forall2 (fun r r' => r_lo r' = r_lo r /\ r_hi r' = r_hi r /\ r_amb r' = r_amb r /\ r_conf r' == D * r_conf r)
              (qci_small_set P ieps n g sc0 c0) (qci_small_set P' ieps n g' sc c')
  | None, None => True
  | _, _ => False
  end.
Proof. exact set_scale_invariant. Qed.
Print Assumptions C11_admissible_set_scale_invariant.

(* Hence what Check/C11.v computes on the integer masses IS the admissible set of the rational
   Binomial(n,q) PMF at level c (scale 1), for either window. *)
Theorem C11_comparator_set_is_rational_set : forall (n : nat) (q : Q), 0 <= q <= 1 ->
  let N := Z.of_nat n in
  let d := Zpos (Qden q) in
  let Pq := binom_pmf_i N q in
  let Pw := scaled_pmf N (binom_weights N (Qnum q) (d - Qnum q)) in
  forall e (exact : bool) c, (0 <= e)%Z -> d = Z.shiftl 1 e ->
  let eps := if exact then 0 else ieps_border in
  match qci_graph Pq eps N (mode_candidates N q exact), qci_graph Pw eps N (mode_candidates N q exact) with
  | Some g, Some g' =>
      Forall2 (fun r r' => r_lo r' = r_lo r /\ r_hi r' = r_hi r /\ r_amb r' = r_amb r /\
                           r_conf r' == inject_Z (d ^ N) * r_conf r)
              (qci_small_set Pq eps N g 1 c) (small_outs Pw N g' e exact c)
  | None, None => True
  | _, _ => False
  end.
Proof. exact comparator_outs_are_rational_set. Qed.
Print Assumptions C11_comparator_set_is_rational_set.

(* The transition graph the comparator builds always exists within its fuel n+3 (masses >= 0 with support
   [0,n]; window off or 1/ieps > 1; start candidates inside [0,n]): the hypothesis [qci_graph ... = Some g]
   of the theorems above holds for every input of the comparator, which therefore never stops for want
   of fuel. *)
Theorem C11_comparator_graph_exists : forall (n : nat) (q : Q) (exact : bool), 0 <= q <= 1 ->
  let N := Z.of_nat n in
  let Pw := scaled_pmf N (binom_weights N (Qnum q) (Zpos (Qden q) - Qnum q)) in
  exists g, qci_graph Pw (if exact then 0 else ieps_border) N (mode_candidates N q exact) = Some g.
Proof. exact comparator_graph_exists. Qed.
Print Assumptions C11_comparator_graph_exists.

(* ---------- what an accepted verdict of the comparator means ---------- *)
(* EVERY member of the admissible-outcome set (any PMF P >= 0 supported on [0,n], window off or 1/ieps > 1,
   start candidates in [0,n], scale sc, scaled level c) satisfies the clauses of the property: orders,
   Confidence == mass of the buckets lo..hi-1, contains a start candidate, may stop there (no mass next to
   the interval, or level reached, or level within the window), one end bucket was needed (or within the
   window), Ambiguous only with P(lo) == P(hi) or within the window (the interval shifted up by one then has
   mass Confidence + P(hi) - P(lo)); on integer masses Confidence is an integer.  "Within the window" is
   [near ieps a b = true] — never when ieps = 0 (nearp_off), relative distance <= 1/ieps otherwise. *)
Theorem C11_admissible_set_members : forall (P : Z -> Q) (ieps : Q) (n : Z),
  (forall k, 0 <= P k) -> (forall k, (k < 0 \/ n < k)%Z -> P k == 0) -> ieps == 0 \/ 1 < ieps ->
  forall (sc c : Q) (xs : list Z), (forall x, In x xs -> (0 <= x <= n)%Z) ->
  forall g r, qci_graph P ieps n xs = Some g -> In r (qci_small_set P ieps n g sc c) ->
  (0 <= r_lo r)%Z /\ (r_lo r < r_hi r)%Z /\ (r_hi r <= n + 1)%Z /\
  r_conf r == Qsum_range P (r_lo r) (r_hi r - 1) /\
  (exists x, In x xs /\ (r_lo r <= x < r_hi r)%Z) /\
  ((P (r_lo r - 1)%Z == 0 /\ P (r_hi r) == 0) \/ c <= sc * r_conf r \/ nearp ieps (sc * r_conf r) c) /\
  ((2 <= r_hi r - r_lo r)%Z ->
     exists a, (a == r_conf r - P (r_lo r) \/ a == r_conf r - P (r_hi r - 1)%Z) /\ (sc * a < c \/ nearp ieps (sc * a) c)) /\
  (r_amb r = true ->
     Qsum_range P (r_lo r + 1) (r_hi r) - r_conf r == P (r_hi r) - P (r_lo r) /\
     (P (r_lo r) == P (r_hi r) \/ nearp ieps (P (r_lo r)) (P (r_hi r)) \/ nearp ieps (P (r_hi r)) (P (r_lo r)))) /\
  ((forall k, Qden (P k) = 1%positive) -> Qden (r_conf r) = 1%positive).
Proof. exact set_members_spec. Qed.
Print Assumptions C11_admissible_set_members.

(* An accepted case line (verdict code 0 or 1) parses COMPLETELY into a case of one of the three operations and
   - op 0 (n <= 30): for every (c, observation) of the line [small_item_ok]: N = n, Quantile = q bit for bit,
     0 <= Lo < Hi <= n+1; c >= 1: whole range, Confidence 1, not Ambiguous; c < 1 [small_clauses]: the observed
     Confidence is within 1e-10 of the exact Binomial(n,q) mass m of the buckets Lo..Hi-1 AND, as a float,
     >= c itself (unless neither neighbour bucket has mass >= 2^-999: the loop ran out of mass), the interval contains
     a start candidate (the lower mode [mode_x], or when (n+1) q is within 2^-40 of an integer and the regime is
     not float-exact, one of the two integers next to it), m >= c or m within the window of c or there is no
     mass next to the interval, m minus ONE end bucket is < c or within the window of c, Ambiguous only if
     P(Lo) == P(Hi) or within the window.  The window (relative 2^-40) is OFF in the float-exact regime
     [exact_regime n q] (n <= 20, q = a/2^e, e n <= 52): there the clauses are exact.  And the observed
     intervals of one line are NESTED as c grows [nest_in]: for any two items with c <= c' the interval of c'
     contains the interval of c (equal c: equal intervals).
   - op 1 (n > 30) [normal_ok]: orders, c >= 1 short cut, and for c < 1 the band logic with respect to the
     OBSERVED Phi values [normal_clauses]: oracle values consistent with Normal(nq, nq(1-q)), outward rounding,
     K widenings each of a band with observed mass < c, trim, full-range fix-up, clamps, Confidence >= c.
   - op 2 (SampleCI) [sample_ok]: the sample's bit patterns are unchanged by the call; a panic exactly when the
     model panics (weighted sample, size mismatch, order out of range); otherwise lo / hi equal the model's
     [sample_ci] values (order statistics of the sorted copy, -inf / +inf outside: C11_sample_ci) and the first
     result equals Quantile(q) of a sorted copy bit for bit (C10's function). *)
Theorem C11_check_ok_sound : forall line, accepted (check_C11 line) ->
  exists rest,
    (line = 11%Z :: 0%Z :: rest /\
       exists n qb items q, p_op0 rest = Some ((n, qb, items), []) /\ decode_bits qb = XFin q /\
         (1 <= n <= 30)%Z /\ 0 <= q <= 1 /\ Forall (small_item_ok n qb q (exact_regime n q)) items /\
         (forall a b, In a items -> In b items -> fst a <= fst b -> nest_in a b)) \/
    (line = 11%Z :: 1%Z :: rest /\ exists cs, p_op1 rest = Some (cs, []) /\ normal_ok cs) \/
    (line = 11%Z :: 2%Z :: rest /\ exists c, p_op2 rest = Some (c, []) /\ sample_ok c).
Proof. exact check_C11_ok_sound. Qed.
Print Assumptions C11_check_ok_sound.

(* ---------- non-vacuity ---------- *)
Example C11_small_example :
  let run n q c := option_map (fun r => (r_lo r, r_hi r, Qred (r_conf r), r_amb r))
                              (quantile_ci (fun _ _ => 0) n q c 0 0) in
  run 5%Z (1 # 2) (9 # 10) = Some (1%Z, 5%Z, 15 # 16, false) /\
  run 5%Z (1 # 2) (3 # 10) = Some (2%Z, 3%Z, 5 # 16, true) /\
  run 4%Z (1 # 2) (8 # 10) = Some (1%Z, 4%Z, 7 # 8, false) /\
  run 9%Z (1 # 10) (1 # 2) = Some (0%Z, 2%Z, 387420489 # 500000000, false) /\
  run 7%Z (3 # 4) 2 = Some (0%Z, 8%Z, 1, false) /\
  mode_x 9 (1 # 10) = 0%Z /\ mode_x 5 (1 # 2) = 2%Z.
Proof. vm_compute. repeat split; reflexivity. Qed.

Example C11_normal_example :
  (* a ramp "CDF" from 40 to 60: [45.7, 54.3] rounds out to [45.5, 54.5] = orders [46, 55), mass 9/20;
     one bucket less on the right still has mass 2/5 >= c = 2/5: the biased interval is taken *)
  let Phi := fun t : Q => if Qle_bool t 40 then 0 else if Qle_bool 60 t then 1 else (t - 40) / 20 in
  let r := qci_normal (band Phi) 100 (2 # 5) (457 # 10) (543 # 10) in
  let r2 := qci_normal (band Phi) 100 (41 # 100) (457 # 10) (543 # 10) in
  (* c = 0, l1 = r1 = 50: one bucket, not trimmed; l1 = r1 = 49.5 (on a band boundary): the bucket below *)
  let r3 := qci_normal (band Phi) 100 0 50 50 in
  let r4 := qci_normal (band Phi) 100 (-1 # 2) (99 # 2) (99 # 2) in
  (r_lo r, r_hi r, Qred (r_conf r), r_amb r) = (46%Z, 54%Z, 2 # 5, true) /\
  (r_lo r2, r_hi r2, Qred (r_conf r2), r_amb r2) = (46%Z, 55%Z, 9 # 20, false) /\
  (r_lo r3, r_hi r3, Qred (r_conf r3), r_amb r3) = (50%Z, 51%Z, 1 # 20, false) /\
  (r_lo r4, r_hi r4, Qred (r_conf r4), r_amb r4) = (49%Z, 50%Z, 1 # 20, false) /\
  qci_alpha (-1 # 2) = 1 # 2 /\ Qred (qci_alpha (9 # 10)) = 1 # 20.
Proof. vm_compute. repeat split; reflexivity. Qed.

Example C11_sample_example :
  sample_ci 4 0 3 false false [3; 1; 2; 1] = SciOk (XInf true) (XFin 2) [1; 1; 2; 3] /\
  sample_ci 4 2 5 false false [3; 1; 2; 1] = SciOk (XFin 1) (XInf false) [1; 1; 2; 3] /\
  sample_ci 4 2 5 true false [3; 1; 2; 1] = SciPanic.
Proof. vm_compute. repeat split; reflexivity. Qed.

Example C11_scale_example :
  (* masses 1,4,6,4,1 (= 16 * Binomial(4,1/2)) at level 16 * 0.8 against the rational run at 0.8 *)
  let P := binom_pmf_i 4 (1 # 2) in
  let P' := fun k => 16 * P k in
  option_map (fun r => (r_lo r, r_hi r, Qred (r_conf r), r_amb r)) (qci_small P 4 1 (8 # 10)) = Some (1%Z, 4%Z, 7 # 8, false) /\
  option_map (fun r => (r_lo r, r_hi r, Qred (r_conf r), r_amb r)) (qci_small P' 4 1 (16 * (8 # 10))) = Some (1%Z, 4%Z, 14 # 1, false).
Proof. vm_compute. split; reflexivity. Qed.

Example C11_comparator_example :
  (* n = 4, q = 1/2 (e = 1): the graph exists and the set for c = 4/5 is the single model outcome, 14/16 *)
  let Pw := scaled_pmf 4 (binom_weights 4 1 1) in
  match qci_graph Pw 0 4 (mode_candidates 4 (1 # 2) true) with
  | Some g => map (fun r => (r_lo r, r_hi r, r_conf r, r_amb r)) (small_outs Pw 4 g 1 true (4 # 5)) = [(1%Z, 4%Z, 14 # 1, false)]
  | None => False
  end.
Proof. vm_compute. reflexivity. Qed.

Example C11_sample_sorted_example :
  sample_ci 4 1 4 false true [1; 1; 2; 3] = SciOk (XFin 1) (XFin 3) [1; 1; 2; 3].
Proof. vm_compute. reflexivity. Qed.

Example C11_normal_widening_example :
  (* the ramp CDF again, l1 = 45.7, r1 = 54.3 (rounded band [46, 55), mass 9/20) but c = 1/2: the band is too
     light, it is widened once to [45, 56) (mass 11/20), and the left-biased trim then takes [45, 55) with mass
     exactly 1/2 >= c; with c = 51/100 the trim is not possible *)
  let r := qci_normal (band ramp) 100 (1 # 2) (457 # 10) (543 # 10) in
  let r2 := qci_normal (band ramp) 100 (51 # 100) (457 # 10) (543 # 10) in
  (r_lo r, r_hi r, Qred (r_conf r), r_amb r) = (45%Z, 55%Z, 1 # 2, true) /\
  (r_lo r2, r_hi r2, Qred (r_conf r2), r_amb r2) = (45%Z, 56%Z, 11 # 20, false).
Proof. vm_compute. split; reflexivity. Qed.

Example C11_normal_hyps_example :
  (* the hypotheses of C11_normal_no_widening and C11_normal_orders hold for the ramp CDF (proved
     non-decreasing: ramp_mono) at c = 2/5, l1 = 45.7, r1 = 54.3, mu = 50, n = 100 *)
  ramp (457 # 10) <= qci_alpha (2 # 5) /\ 1 - qci_alpha (2 # 5) <= ramp (543 # 10) /\
  (457 # 10) + (543 # 10) == 2 * 50 /\ (2 # 5) <= r_conf (qci_normal (band ramp) 100 (2 # 5) (457 # 10) (543 # 10)).
Proof. vm_compute. repeat split; discriminate. Qed.

Example C11_comparator_window_example :
  (* n = 25, q = 1/2 (e = 1) is outside the float-exact regime: the window 2^-40 is on.  (n+1) q = 13 is
     an integer, so the float mode may come out as 12 or 13 and the tie P(12) = P(13) may or may not be
     seen: for c = 1/10 the set has three members; the model outcome [12, 13), Ambiguous, mass
     5200300/2^25, is one of them *)
  let Pw := scaled_pmf 25 (binom_weights 25 1 1) in
  match qci_graph Pw ieps_border 25 (mode_candidates 25 (1 # 2) false) with
  | Some g => let outs := map (fun r => (r_lo r, r_hi r, r_conf r, r_amb r)) (small_outs Pw 25 g 1 false (1 # 10)) in
              length outs = 3%nat /\ In (12%Z, 13%Z, 5200300 # 1, true) outs
  | None => False
  end /\
  option_map (fun r => (r_lo r, r_hi r, Qred (r_conf r), r_amb r))
             (qci_small (binom_pmf_i 25 (1 # 2)) 25 (mode_x 25 (1 # 2)) (1 # 10)) = Some (12%Z, 13%Z, 1300075 # 8388608, true).
Proof. vm_compute. split; [split; [reflexivity | left; reflexivity] | reflexivity]. Qed.

Example C11_rational_set_example :
  (* n = 25, q = 1/2, window on, c = 1/10: the set on the rational PMF has the same three outcomes as the
     comparator's set on the integer masses (C11_comparator_window_example), Confidence 5200300/2^25 *)
  let Pq := binom_pmf_i 25 (1 # 2) in
  match qci_graph Pq ieps_border 25 (mode_candidates 25 (1 # 2) false) with
  | Some g => map (fun r => (r_lo r, r_hi r, Qred (r_conf r), r_amb r)) (qci_small_set Pq ieps_border 25 g 1 (1 # 10)) =
              [(12%Z, 13%Z, 1300075 # 8388608, true); (12%Z, 13%Z, 1300075 # 8388608, false); (13%Z, 14%Z, 1300075 # 8388608, false)]
  | None => False
  end.
Proof. vm_compute. reflexivity. Qed.

Example C11_check_ok_example :
  (* three case lines as the harness printed them for /repo (integers of the line in decimal):
     op 0  QuantileCI(2, 0.5, c) for c = 0.5, 0.9, 1;
     op 1  QuantileCI(100, 0.5, 0.079655674554058) — the D19 witness: the rounded band [50, 51) is too light
           (observed mass 0.07965567455405795 < c), it is widened once to [49, 52), and the left-biased trim
           gives {49, 51, Ambiguous, 0.1577...}: tag 34176 = 128 + 256 + 1024 + 32768;
     op 2  SampleCI of {N:3, LoOrder:1, HiOrder:3} on the sample [3, 1, 2].
     All three are accepted — so the hypothesis of C11_check_ok_sound is satisfiable for each operation —
     and the op-1 line with its Confidence lowered by one ulp is rejected. *)
  check_C11 [11; 0; 2; 4602678819172646912; 3; 4602678819172646912; 2; 4602678819172646912; 4602678819172646912; 1; 2; 0; 4606281698874543309; 2; 4602678819172646912; 4607182418800017408; 0; 3; 0; 4607182418800017408; 2; 4602678819172646912; 4607182418800017408; 0; 3; 0]%Z = [0; 87; -1]%Z /\
  check_C11 [11; 1; 100; 4602678819172646912; 4590404216922998546; 4632233691727265792; 4617315517961601024; 4632163322983088128; 4632304060471443456; 50; 51; 4597664433683061702; 4594851176051756966; 4601961344640167710; 4603740870846712697; 4600554715824515343; 4603037556438886513; 1; 4590404216922998544; 4603037556438886513; 4601961344640167710; 100; 4602678819172646912; 4594851176051756966; 49; 51; 1]%Z = [0; 34176; -1]%Z /\
  check_C11 [11; 2; 3; 1; 3; 4602678819172646912; 0; 0; 0; 3; 4613937818241073152; 4607182418800017408; 4611686018427387904; 3; 4613937818241073152; 4607182418800017408; 4611686018427387904; 4611686018427387904; 4607182418800017408; 4613937818241073152; 4611686018427387904]%Z = [0; 1024; -1]%Z /\
  hd 0%Z (check_C11 [11; 1; 100; 4602678819172646912; 4590404216922998546; 4632233691727265792; 4617315517961601024; 4632163322983088128; 4632304060471443456; 50; 51; 4597664433683061702; 4594851176051756966; 4601961344640167710; 4603740870846712697; 4600554715824515343; 4603037556438886513; 1; 4590404216922998544; 4603037556438886513; 4601961344640167710; 100; 4602678819172646912; 4594851176051756965; 49; 51; 1]%Z) = 2%Z.
Proof. vm_compute. repeat split; reflexivity. Qed.

(* placeholder — replaced by the real statements *)
From MM Require Import Base.Num Model.QuantileCI.
Theorem C11_placeholder : qci_threshold = 30%Z.
Proof. reflexivity. Qed.
Print Assumptions C11_placeholder.

(* Properties/C12.v — a KDE is a proper probability distribution consistent with its kernel formula.
   ONLY statements.
   Part A (over Q, closed under the global context): the executable model Model/Kde.v of
     stats/kde.go against the plain-mathematics definitions of Spec/Kde.v (weighted average
     `wavg`, weighted empirical distribution function `wecdf`, two-sided image sums `fold_pdf`,
     `fold_cdf`, `rule10`).  kde_ok / kde_ps / kde_f / kde_F / bounds_ok / pdf_spec / cdf_spec are
     defined in Proofs/Kde.v:  kde_f k = wavg (epan_pdf h) (pairs of the sample),
     kde_F k = wavg (epan_cdf h) (pairs of the sample).
   Part B (over the reals, stdlib real axioms): derivative pair, integrals and total mass for
     the real-number definitions of RealSpec/KdeR.v (abstract kernel pair K' = k, Epanechnikov
     and Gaussian instances, reflection at one boundary, image sums).
   Part C (bridge): the rational spec of part A is the restriction of the real spec of part B
     to rational points (Proofs/KdeQR.v). *)
From Coq Require Import Reals.
From Coquelicot Require Import Coquelicot.
From MM Require Import Base.Num Model.Sample Model.Quantile Model.Kde Spec.Kde Proofs.Kde Proofs.KdeBw Proofs.KdeGroups.
From MM Require RealSpec.KdeR Proofs.KdeR RealSpec.Normal Proofs.KdeQR Proofs.KdeCap Spec.Quantile Proofs.Quantile.
From Coq Require Import Qreals Psatz.
From MM Require Check.C12 Proofs.CheckC12.
Local Open Scope Q_scope.

(* ====================================================================== *)
(* A1. the Epanechnikov kernel                                              *)
(* ====================================================================== *)
(* pdf >= 0, vanishing exactly outside the open interval (-h, h); cdf non-decreasing, 0 left of
   the support and 1 right of it; the exact polynomial pieces on the support (K' = k there, and
   everywhere: C12_R_epanechnikov_kernel); total mass 1 *)
Theorem C12_epan_kernel : forall h : Q, 0 < h ->
  (forall x, 0 <= epan_pdf h x) /\
  (forall x, epan_pdf h x == 0 <-> x <= - h \/ h <= x) /\
  (forall a b, a <= b -> epan_cdf h a <= epan_cdf h b) /\
  (forall x, (x <= - h -> epan_cdf h x == 0) /\ (h <= x -> epan_cdf h x == 1)) /\
  (forall x, - h < x -> x < h ->
     epan_pdf h x == (3 # 4) / h * (1 - x * x / (h * h)) /\
     epan_cdf h x == (1 # 4) * (2 + 3 * (x / h) - (x / h) * (x / h) * (x / h))) /\
  epan_cdf h h - epan_cdf h (- h) == 1.
Proof. exact Proofs.KdeGroups.G_epan_kernel. Qed.
Print Assumptions C12_epan_kernel.

(* ====================================================================== *)
(* A2. without boundaries: the weighted average of the kernel               *)
(* ====================================================================== *)
(* the closure y of KDE.PDF / KDE.CDF (Sample.Sum / Sample.Weight of the kernel values) is
   the weighted average, for any kernel function g *)
Theorem C12_closure_is_weighted_average :
  forall (g : Q -> Q) (xs : list Q) (ws : option (list Q)) (x : Q),
    ws_wf xs ws -> mix g xs ws x == wavg g (kpairs xs ws) x.
Proof. exact mix_is_wavg. Qed.
Print Assumptions C12_closure_is_weighted_average.

Theorem C12_unbounded_is_average : forall k : kde, kde_ok k -> k_kernel k = KEpan ->
  forall x : Q, k_b k = BNone ->
  exists p c : Q, kde_pdf k x = Some (XFin p) /\ kde_cdf k x = Some (XFin c) /\
                  p == kde_f k x /\ c == kde_F k x.
Proof. exact kde_unbounded_is_average. Qed.
Print Assumptions C12_unbounded_is_average.

(* ====================================================================== *)
(* A3. the laws of a distribution, every boundary setting                   *)
(* ====================================================================== *)
(* PDF >= 0, and = 0 outside [BoundaryMin, BoundaryMax) *)
Theorem C12_pdf_laws : forall k : kde, kde_ok k -> k_kernel k = KEpan -> bounds_ok k ->
  forall x p : Q, kde_pdf k x = Some (XFin p) ->
    0 <= p /\ (below_min (k_b k) x = true \/ from_max (k_b k) x = true -> p == 0).
Proof. exact Proofs.KdeGroups.G_pdf_laws. Qed.
Print Assumptions C12_pdf_laws.

(* CDF is non-decreasing on the whole line, has values in [0,1], is 0 below and AT BoundaryMin
   and 1 from BoundaryMax on; on a side without boundary it is exactly 0 left of min(data) - h
   and exactly 1 right of max(data) + h *)
Theorem C12_cdf_laws : forall k : kde, kde_ok k -> k_kernel k = KEpan -> bounds_ok k ->
  (forall a b ca cb : Q, a <= b ->
     kde_cdf k a = Some (XFin ca) -> kde_cdf k b = Some (XFin cb) -> ca <= cb) /\
  (forall x c : Q, kde_cdf k x = Some (XFin c) ->
     (0 <= c /\ c <= 1) /\
     (below_min (k_b k) x = true -> c == 0) /\
     (from_max (k_b k) x = true -> below_min (k_b k) x = false -> c == 1) /\
     (match k_b k with BLower m | BBoth m _ => x == m | _ => False end -> c == 0)) /\
  (forall lo hi : Q, pairs_within lo hi (kde_ps k) ->
     match k_b k with BNone => True | BLower m => m <= lo | BUpper M => hi <= M | _ => False end ->
     (forall x c : Q, x <= lo - k_h k -> kde_cdf k x = Some (XFin c) -> c == 0) /\
     (forall x c : Q, hi + k_h k <= x -> kde_cdf k x = Some (XFin c) -> c == 1)).
Proof. exact Proofs.KdeGroups.G_cdf_laws. Qed.
Print Assumptions C12_cdf_laws.

(* one formula for all settings *)
Theorem C12_model_is_spec : forall k : kde, kde_ok k -> k_kernel k = KEpan -> bounds_ok k ->
  forall (x : Q) (N : nat), (k_fuel k <= N)%nat ->
  exists p c : Q, kde_pdf k x = Some (XFin p) /\ kde_cdf k x = Some (XFin c) /\
    p == pdf_spec (kde_f k) (k_b k) N x /\ c == cdf_spec (kde_F k) (k_b k) N x.
Proof. exact kde_matches_spec. Qed.
Print Assumptions C12_model_is_spec.

(* ====================================================================== *)
(* A4. one boundary: the density folded back at the boundary                *)
(* ====================================================================== *)
(* support [m, +inf): pdf = f(x) + f(2m - x), cdf = F(x) - F(2m - x), cdf(m) = 0 *)
Theorem C12_lower_reflects : forall k : kde, kde_ok k -> k_kernel k = KEpan ->
  forall m : Q, k_b k = BLower m ->
  (forall x : Q,
    (x < m -> kde_pdf k x = Some (XFin 0) /\ kde_cdf k x = Some (XFin 0)) /\
    (m <= x -> exists p c : Q, kde_pdf k x = Some (XFin p) /\ kde_cdf k x = Some (XFin c) /\
       p == kde_f k x + kde_f k (2 * m - x) /\ c == kde_F k x - kde_F k (2 * m - x))) /\
  (exists c : Q, kde_cdf k m = Some (XFin c) /\ c == 0).
Proof. exact Proofs.KdeGroups.G_lower. Qed.
Print Assumptions C12_lower_reflects.

(* support (-inf, M): pdf = f(x) + f(2M - x), cdf = F(x) + 1 - F(2M - x); the value 1 from M on
   continues the inside formula *)
Theorem C12_upper_reflects : forall k : kde, kde_ok k -> k_kernel k = KEpan ->
  forall M : Q, k_b k = BUpper M ->
  (forall x : Q,
    (M <= x -> kde_pdf k x = Some (XFin 0) /\ kde_cdf k x = Some (XFin 1)) /\
    (x < M -> exists p c : Q, kde_pdf k x = Some (XFin p) /\ kde_cdf k x = Some (XFin c) /\
       p == kde_f k x + kde_f k (2 * M - x) /\ c == kde_F k x + (1 - kde_F k (2 * M - x)))) /\
  kde_F k M + (1 - kde_F k (2 * M - M)) == 1.
Proof. exact Proofs.KdeGroups.G_upper. Qed.
Print Assumptions C12_upper_reflects.

(* ====================================================================== *)
(* A5. two boundaries: the image sums                                       *)
(* ====================================================================== *)
(* (1) `series` (alg.go) in exact arithmetic: if a zero term is followed only by zero terms and
   one occurs before the fuel runs out, the result is the sum of all terms up to any later index;
   (2) the model's image count reaches an index beyond which every image of a kernel of radius
   r is out of reach; (3) for any density y with the support structure of a compact-kernel
   average the two truncated series add up to the symmetric image sum of every order N >= K0 *)
Theorem C12_fuel_argument :
  (forall (t : nat -> Q) (fuel K : nat), absorbing t -> t K == 0 -> (K < fuel)%nat ->
     exists s : Q, series_q t 0 fuel 0 = Some s /\ forall K' : nat, (K <= K')%nat -> s == nat_sum t K') /\
  (forall r m M : Q, 0 <= r -> m < M ->
     let K0 := (img_fuel r m M - 3)%nat in
     (K0 < img_fuel r m M)%nat /\ r + img_d m M <= Qofnat K0 * img_d m M) /\
  (forall (ps : list (Q * Q)) (h m M x : Q), 0 < h -> pairs_within m M ps -> m <= x /\ x <= M ->
     forall y : Q -> Q, (forall z : Q, 0 <= y z) -> (forall s t : Q, s == t -> y s == y t) ->
     (forall z : Q, y z == 0 <-> (forall p : Q * Q, In p ps -> z - fst p <= - h \/ h <= z - fst p)) ->
     forall K0 : nat, h + img_d m M <= Qofnat K0 * img_d m M ->
     forall fuel : nat, (K0 < fuel)%nat ->
     exists v : Q, two_series fuel (pdf_upper y m M x) (pdf_lower y m M x) = Some v /\
                   forall N : nat, (K0 <= N)%nat -> v == fold_pdf y m M N x).
Proof. exact Proofs.KdeGroups.G_fuel_argument. Qed.
Print Assumptions C12_fuel_argument.

(* KDE.PDF / KDE.CDF on [BoundaryMin, BoundaryMax): the unbounded estimate folded back at both
   boundaries,  pdf = sum_n f(x + n d) + f(2 min - x + n d)  (the statement the pinned tree
   violated, D5),  cdf = sum_n F(x + n d) - F(2 min - x + n d),  for EVERY order N >= k_fuel *)
Theorem C12_both_is_fold : forall k : kde, kde_ok k -> k_kernel k = KEpan ->
  forall m M x : Q, k_b k = BBoth m M -> pairs_within m M (kde_ps k) ->
  (x < m -> kde_pdf k x = Some (XFin 0) /\ kde_cdf k x = Some (XFin 0)) /\
  (M <= x -> kde_pdf k x = Some (XFin 0) /\ kde_cdf k x = Some (XFin 1)) /\
  (m <= x -> x < M ->
     exists p c : Q, kde_pdf k x = Some (XFin p) /\ kde_cdf k x = Some (XFin c) /\
       forall N : nat, (k_fuel k <= N)%nat ->
         p == fold_pdf (kde_f k) m M N x /\ c == fold_cdf (kde_F k) m M N x).
Proof. exact kde_both_is_fold. Qed.
Print Assumptions C12_both_is_fold.

(* the folded distribution function is 0 at BoundaryMin and telescopes at BoundaryMax, for any
   F; for the estimate it is 1 there: total mass 1 on the support *)
Theorem C12_fold_cdf_ends :
  (forall (F : Q -> Q) (m M : Q) (N : nat), (forall s t : Q, s == t -> F s == F t) ->
     fold_cdf F m M N m == 0 /\
     fold_cdf F m M N M == F (M + Qofnat N * period m M) - F (M - (Qofnat N + 1) * period m M)) /\
  (forall k : kde, kde_ok k -> k_kernel k = KEpan ->
     forall (m M : Q) (N : nat), k_b k = BBoth m M -> pairs_within m M (kde_ps k) -> m < M ->
     (k_fuel k <= N)%nat ->
     fold_cdf (kde_F k) m M N m == 0 /\ fold_cdf (kde_F k) m M N M == 1).
Proof. exact Proofs.KdeGroups.G_fold_cdf_ends. Qed.
Print Assumptions C12_fold_cdf_ends.

(* the pinned tree's second series (+w instead of -w) is not the fold *)
Theorem C12_both_D5_refuted :
  exists (k : kde) (m M x : Q) (N : nat) (p : Q),
    kde_ok k /\ k_kernel k = KEpan /\ k_b k = BBoth m M /\ pairs_within m M (kde_ps k) /\
    m <= x /\ x < M /\ (k_fuel k <= N)%nat /\
    kde_pdf k x = Some (XFin p) /\ p == fold_pdf (kde_f k) m M N x /\
    ~ p == fold_pdf_D5 (kde_f k) m M N x.
Proof. exact kde_both_D5_refuted. Qed.
Print Assumptions C12_both_D5_refuted.

(* ====================================================================== *)
(* A6. the delta kernel                                                     *)
(* ====================================================================== *)
(* CDF is the weighted empirical distribution function (no boundary; inside one or two
   boundaries, with 0 at BoundaryMin / 1 from BoundaryMax); the "density" is +Inf exactly at the data points *)
Theorem C12_delta_kernel : forall k : kde, kde_ok_delta k -> k_kernel k = KDelta ->
  (k_b k = BNone -> forall x : Q,
     (exists c : Q, kde_cdf k x = Some (XFin c) /\ c == wecdf (kde_ps k) x) /\
     ((exists p : Q * Q, In p (kde_ps k) /\ fst p == x) -> kde_pdf k x = Some (XInf false)) /\
     ((forall p : Q * Q, In p (kde_ps k) -> ~ fst p == x) -> kde_pdf k x = Some (XFin 0))) /\
  (forall m lo hi x : Q, k_b k = BLower m -> pairs_within lo hi (kde_ps k) -> m <= lo ->
     exists c : Q, kde_cdf k x = Some (XFin c) /\ (x <= m -> c == 0) /\ (m < x -> c == wecdf (kde_ps k) x)) /\
  (forall M lo hi x : Q, k_b k = BUpper M -> pairs_within lo hi (kde_ps k) -> hi <= M ->
     exists c : Q, kde_cdf k x = Some (XFin c) /\ (M <= x -> c == 1) /\ (x < M -> c == wecdf (kde_ps k) x)) /\
  (forall m M x : Q, k_b k = BBoth m M -> pairs_within m M (kde_ps k) -> m < M -> m <= x /\ x < M ->
     exists c : Q, kde_cdf k x = Some (XFin c) /\ (x == m -> c == 0) /\ (m < x -> c == wecdf (kde_ps k) x)).
Proof. exact Proofs.KdeGroups.G_delta_kernel. Qed.
Print Assumptions C12_delta_kernel.

(* ====================================================================== *)
(* A7. bandwidth rules, lazy bandwidth, Bounds                              *)
(* ====================================================================== *)
(* BandwidthSilverman = 1.06 s n^(-1/5) and BandwidthScott = 1.06 min(s, IQR/1.349) n^(-1/5), as
   10th powers: rule10 s2 n = 1.06^10 (s^2)^5 / n^2 (C12_Q2R_bridge_and_rules: that IS the
   10th power of the formula), with the textbook variance var_def; for a plain unweighted
   sample the quartiles are the Hyndman-Fan type 8 quantiles of C10 and IQR >= 0 *)
Theorem C12_bandwidth_rules :
  (forall s : sample, s_ws s = None -> (2 <= length (s_xs s))%nat ->
    (exists v : Q, bandwidth_silverman10 s = BwPow10 v /\
                   v == rule10 (Stream.var_def (s_xs s)) (Qofnat (length (s_xs s)))) /\
    (forall a b : Q, quantile s (3 # 4) = RVal a -> quantile s (1 # 4) = RVal b ->
       exists v : Q, bandwidth_scott10 s = BwPow10 v /\
         let r := (a - b) / (1349 # 1000) in
         v == rule10 (Qminb (Stream.var_def (s_xs s)) (r * r)) (Qofnat (length (s_xs s))))) /\
  (forall xs : list Q, (2 <= length xs)%nat ->
    exists a b v : Q,
      quantile (Proofs.Quantile.unsorted xs) (3 # 4) = RVal a /\
      quantile (Proofs.Quantile.unsorted xs) (1 # 4) = RVal b /\
      a == Spec.Quantile.hf_def third_f xs (3 # 4) /\ b == Spec.Quantile.hf_def third_f xs (1 # 4) /\
      b <= a /\
      bandwidth_scott10 (Proofs.Quantile.unsorted xs) = BwPow10 v /\
      let r := (a - b) / (1349 # 1000) in
      v == rule10 (Qminb (Stream.var_def xs) (r * r)) (Qofnat (length xs))).
Proof. exact Proofs.KdeGroups.G_bandwidth_rules. Qed.
Print Assumptions C12_bandwidth_rules.

(* Sample.Sorted, set on ascending data, changes nothing: KDE.PDF / KDE.CDF do not read the flag
   (the model's kde record has no such field: the correspondence check runs every configuration
   with and without it), and the bandwidth rules give the same squared scale estimate *)
Theorem C12_sorted_flag_irrelevant : forall xs : list Q, (2 <= length xs)%nat -> Proofs.Quantile.ascending xs ->
  bandwidth_silverman10 (Proofs.Quantile.marked_sorted xs) = bandwidth_silverman10 (Proofs.Quantile.unsorted xs) /\
  exists v v' : Q, bandwidth_scott10 (Proofs.Quantile.marked_sorted xs) = BwPow10 v /\
                   bandwidth_scott10 (Proofs.Quantile.unsorted xs) = BwPow10 v' /\ v == v'.
Proof. exact Proofs.KdeBw.bandwidth_rules_sorted_flag. Qed.
Print Assumptions C12_sorted_flag_irrelevant.

(* a zero Bandwidth selects Scott's rule, once; a non-zero one is never touched *)
Theorem C12_bandwidth_lazy : forall before scott : Q,
  (~ before == 0 -> bandwidth_after before scott = before) /\
  (before == 0 -> bandwidth_after before scott = scott) /\
  bandwidth_after (bandwidth_after before scott) scott = bandwidth_after before scott.
Proof. exact bandwidth_lazy. Qed.
Print Assumptions C12_bandwidth_lazy.

(* what the Bounds checker accepts: a finite interval inside the boundaries with >= 98% mass;
   the delta kernel's mass of [lo, hi] is the total weight of the data points in it *)
Theorem C12_bounds_checker :
  (forall (b : bconf) (lo hi : xreal) (mass : Q), kde_bounds_ok b lo hi mass = true ->
     exists l h : Q, lo = XFin l /\ hi = XFin h /\ l <= h /\ (98 # 100) <= mass /\
       match b with
       | BNone => True
       | BLower m => m <= l
       | BUpper M => h <= M
       | BBoth m M => m <= l /\ h <= M
       | BBad => False
       end) /\
  (forall (xs : list Q) (ws : option (list Q)) (lo hi : Q), ws_wf xs ws ->
     delta_mass_in xs ws lo hi ==
     Qsum (map (fun p => if Qle_bool lo (fst p) && Qle_bool (fst p) hi then snd p else 0) (kpairs xs ws))
     / wtotal (kpairs xs ws)).
Proof. exact Proofs.KdeGroups.G_bounds_checker. Qed.
Print Assumptions C12_bounds_checker.

(* ====================================================================== *)
(* A8. what a non-mismatch verdict of the correspondence check means        *)
(* ====================================================================== *)
(* for one observed point (x, PDF(x), CDF(x)): Epanechnikov kernel - both calls returned, the
   Bandwidth field is as expected, PDF within 1e-9 * 0.75/h and CDF within 1e-9 of the exact
   model (which is the distribution of C12_model_is_a_distribution); every kernel (Gaussian
   included) - PDF >= 0 and 0 outside the boundaries, CDF in [0,1] with the exact end values,
   CDF non-decreasing from the previous point, on the implementation's own outputs *)
Theorem C12_ok_verdict_means : forall (k : kde) (hexp : xreal) (prev : option (Q * Q)) (p : Check.C12.pt)
    (v cls : Z) (diag : list Z) (t : Z),
  Check.C12.check_point k false hexp prev p = (v, cls, diag, t) -> v <> 2%Z ->
  (k_kernel k = KEpan ->
     Check.C12.p_pst p = 0%Z /\ Check.C12.p_cst p = 0%Z /\ xeq hexp (Check.C12.p_h p) = true /\
     (forall e, kde_pdf k (Check.C12.p_x p) = Some e ->
        xwithin (Check.C12.tol_pdf (k_h k)) e (Check.C12.p_pdf p) = true) /\
     (forall e, kde_cdf k (Check.C12.p_x p) = Some e ->
        xwithin Check.C12.tol_cdf e (Check.C12.p_cdf p) = true)) /\
  (k_xs k <> [] ->
     Check.C12.law_pdf (k_kernel k) (k_b k) (Check.C12.p_x p) (Check.C12.p_pdf p) = true /\
     Check.C12.law_cdf (k_b k) (Check.C12.p_x p) (Check.C12.p_cdf p) = true /\
     (forall x0 c0 c, prev = Some (x0, c0) -> Check.C12.p_cdf p = XFin c -> x0 <= Check.C12.p_x p ->
        c0 <= c + Check.C12.slack)).
Proof. exact Proofs.CheckC12.check_point_sound. Qed.
Print Assumptions C12_ok_verdict_means.

(* ====================================================================== *)
(* B. over the reals (RealSpec/KdeR.v); grouped, one statement per topic    *)
(* ====================================================================== *)
Local Open Scope R_scope.

(* the Epanechnikov distribution function is an antiderivative of the density EVERYWHERE
   (including the junctions x = -h, h); density >= 0, distribution function monotone, mass 1 *)
Theorem C12_R_epanechnikov_kernel : forall h : R, 0 < h ->
  (forall x : R, is_derive (RealSpec.KdeR.epan_cdf h) x (RealSpec.KdeR.epan_pdf h x)) /\
  (forall x : R, 0 <= RealSpec.KdeR.epan_pdf h x) /\
  (forall a b : R, a <= b -> RealSpec.KdeR.epan_cdf h a <= RealSpec.KdeR.epan_cdf h b) /\
  RInt (RealSpec.KdeR.epan_pdf h) (- h) h = 1.
Proof. exact Proofs.KdeCap.R_epanechnikov_kernel. Qed.
Print Assumptions C12_R_epanechnikov_kernel.

(* ANY kernel pair K' = k >= 0 (k continuous), any sample with positive weights: CDF' = PDF,
   PDF >= 0, CDF monotone, the integral of PDF over any interval is the CDF difference, and
   CDF tends to 0 / 1 when K does *)
Theorem C12_R_kernel_average : forall k K : R -> R, (forall x : R, is_derive K x (k x)) ->
  (forall x : R, 0 <= k x) -> (forall x : R, continuous k x) ->
  forall d : RealSpec.KdeR.sample, RealSpec.KdeR.sample_ok d ->
  (forall x : R, is_derive (RealSpec.KdeR.kde_mix K d) x (RealSpec.KdeR.kde_mix k d x)) /\
  (forall x : R, 0 <= RealSpec.KdeR.kde_mix k d x) /\
  (forall a b : R, a <= b -> RealSpec.KdeR.kde_mix K d a <= RealSpec.KdeR.kde_mix K d b) /\
  (forall a b : R, RInt (RealSpec.KdeR.kde_mix k d) a b = RealSpec.KdeR.kde_mix K d b - RealSpec.KdeR.kde_mix K d a) /\
  (is_lim K m_infty 0 -> is_lim K p_infty 1 ->
   is_lim (RealSpec.KdeR.kde_mix K d) m_infty 0 /\ is_lim (RealSpec.KdeR.kde_mix K d) p_infty 1).
Proof. exact Proofs.KdeCap.R_kernel_average. Qed.
Print Assumptions C12_R_kernel_average.

(* reflection at one boundary keeps the derivative pair, for ANY pair F' = f (f continuous):
   CDF(min) = 0, CDF(max) = 1, integral from / to the boundary = reflected CDF *)
Theorem C12_R_reflection : forall f F : R -> R, (forall x : R, is_derive F x (f x)) ->
  (forall x : R, continuous f x) ->
  (forall m x : R, is_derive (RealSpec.KdeR.refl_low_cdf F m) x (RealSpec.KdeR.refl_low_pdf f m x)) /\
  (forall M x : R, is_derive (RealSpec.KdeR.refl_high_cdf F M) x (RealSpec.KdeR.refl_high_pdf f M x)) /\
  (forall m : R, RealSpec.KdeR.refl_low_cdf F m m = 0) /\
  (forall M : R, RealSpec.KdeR.refl_high_cdf F M M = 1) /\
  (forall m b : R, RInt (RealSpec.KdeR.refl_low_pdf f m) m b = RealSpec.KdeR.refl_low_cdf F m b) /\
  (forall M a : R, RInt (RealSpec.KdeR.refl_high_pdf f M) a M = 1 - RealSpec.KdeR.refl_high_cdf F M a).
Proof. exact Proofs.KdeCap.R_reflection. Qed.
Print Assumptions C12_R_reflection.

(* the image sums form a derivative pair for every order N, for ANY pair F' = f; the mass on
   [m, M] telescopes: it is 1 exactly when the outermost images carry all / none of F *)
Theorem C12_R_images : forall f F : R -> R, (forall x : R, is_derive F x (f x)) ->
  (forall x : R, continuous f x) -> forall (m M : R) (N : nat),
  (forall x : R, is_derive (RealSpec.KdeR.img_cdf F m M N) x (RealSpec.KdeR.img_pdf f m M N x)) /\
  (forall a b : R, RInt (RealSpec.KdeR.img_pdf f m M N) a b =
                   RealSpec.KdeR.img_cdf F m M N b - RealSpec.KdeR.img_cdf F m M N a) /\
  RealSpec.KdeR.img_cdf F m M N m = 0 /\
  RealSpec.KdeR.img_cdf F m M N M =
    F (M + INR N * RealSpec.KdeR.img_period m M) - F (M - (INR N + 1) * RealSpec.KdeR.img_period m M).
Proof. exact Proofs.KdeCap.R_images. Qed.
Print Assumptions C12_R_images.

(* the Gaussian kernel NormalDist{0,h} is a kernel pair with limits 0 / 1; the Gaussian
   estimate is a proper pair with limits 0 / 1; half-bounded: total mass 1 (improper integral);
   doubly bounded: with finitely many images the mass on [m, M] is strictly below 1 and tends
   to 1 with the number of images (what the float `series` returns is a truncation whose order
   depends on underflow: meta/C12.json "partial") *)
Theorem C12_R_gaussian : forall h : R, 0 < h ->
  ((forall x : R, is_derive (RealSpec.Normal.Phi 0 h) x (RealSpec.Normal.phi 0 h x)) /\
   (forall x : R, 0 < RealSpec.Normal.phi 0 h x) /\
   (forall x : R, continuous (RealSpec.Normal.phi 0 h) x) /\
   (forall x : R, 0 < RealSpec.Normal.Phi 0 h x < 1) /\
   is_lim (RealSpec.Normal.Phi 0 h) m_infty 0 /\ is_lim (RealSpec.Normal.Phi 0 h) p_infty 1) /\
  forall d : RealSpec.KdeR.sample, RealSpec.KdeR.sample_ok d ->
    Proofs.KdeQR.proper_pair (Proofs.KdeQR.gauss_kde_pdf h d) (Proofs.KdeQR.gauss_kde_cdf h d) /\
    (is_lim (Proofs.KdeQR.gauss_kde_cdf h d) m_infty 0 /\ is_lim (Proofs.KdeQR.gauss_kde_cdf h d) p_infty 1) /\
    (forall m : R, is_lim (fun b : R => RInt (RealSpec.KdeR.refl_low_pdf (Proofs.KdeQR.gauss_kde_pdf h d) m) m b) p_infty 1) /\
    (forall M : R, is_lim (fun a : R => RInt (RealSpec.KdeR.refl_high_pdf (Proofs.KdeQR.gauss_kde_pdf h d) M) a M) m_infty 1) /\
    (forall (m M : R) (N : nat), m < M ->
       0 < RInt (RealSpec.KdeR.img_pdf (Proofs.KdeQR.gauss_kde_pdf h d) m M N) m M < 1) /\
    (forall m M : R, m < M ->
       is_lim_seq (fun N : nat => RInt (RealSpec.KdeR.img_pdf (Proofs.KdeQR.gauss_kde_pdf h d) m M N) m M) 1).
Proof. exact Proofs.KdeCap.R_gaussian. Qed.
Print Assumptions C12_R_gaussian.

(* ====================================================================== *)
(* C. bridge: the model's values are the values of a real distribution      *)
(* ====================================================================== *)
(* the rational definitions (model kernels, Spec/Kde.v) are the real ones at rational points;
   the 10th-power form of the bandwidth rules is the stated formula 1.06 s n^(-1/5), and the
   minimum of two non-negative deviations is decided by their squares *)
Theorem C12_Q2R_bridge_and_rules :
  ((forall h x : Q, (0 < h)%Q -> Q2R (epan_pdf h x) = RealSpec.KdeR.epan_pdf (Q2R h) (Q2R x)) /\
   (forall h x : Q, (0 < h)%Q -> Q2R (epan_cdf h x) = RealSpec.KdeR.epan_cdf (Q2R h) (Q2R x)) /\
   (forall (g : Q -> Q) (gR : R -> R) (ps : list (Q * Q)) (x : Q),
      (forall q : Q, Q2R (g q) = gR (Q2R q)) -> pairs_ok ps ->
      Q2R (wavg g ps x) = RealSpec.KdeR.kde_mix gR (Proofs.KdeQR.sampleR ps) (Q2R x)) /\
   (forall (f : Q -> Q) (fR : R -> R) (m M : Q) (N : nat) (x : Q),
      (forall q : Q, Q2R (f q) = fR (Q2R q)) ->
      Q2R (fold_pdf f m M N x) = RealSpec.KdeR.img_pdf fR (Q2R m) (Q2R M) N (Q2R x)) /\
   (forall (F : Q -> Q) (FR : R -> R) (m M : Q) (N : nat) (x : Q),
      (forall q : Q, Q2R (F q) = FR (Q2R q)) ->
      Q2R (fold_cdf F m M N x) = RealSpec.KdeR.img_cdf FR (Q2R m) (Q2R M) N (Q2R x))) /\
  ((forall (s : R) (s2 n : Q), (0 < n)%Q -> Q2R s2 = s * s ->
      Q2R (bw10 s2 n) = (106 / 100 * s * Rpower (Q2R n) (- (1 / 5))) ^ 10) /\
   (forall a b : R, 0 <= a -> 0 <= b -> Rmin a b * Rmin a b = Rmin (a * a) (b * b))).
Proof. exact Proofs.KdeCap.Q2R_bridge_and_rules. Qed.
Print Assumptions C12_Q2R_bridge_and_rules.

(* CAPSTONE: in every boundary setting (none / lower / upper / both) there is a pair (fR, FR)
   of real functions with FR' = fR >= 0 continuous, FR non-decreasing, RInt fR a b = FR b - FR a
   for all a b (Proofs.KdeQR.proper_pair), total mass 1 on the support, FR = 0 at BoundaryMin /
   = 1 at BoundaryMax, whose values at every rational x are what KDE.PDF / KDE.CDF compute *)
Theorem C12_model_is_a_distribution : forall k : kde, kde_ok k -> k_kernel k = KEpan ->
  (k_b k = BNone ->
   exists fR FR : R -> R,
     Proofs.KdeQR.proper_pair fR FR /\ (forall x : R, 0 <= FR x <= 1) /\
     (forall lo hi : Q, pairs_within lo hi (kde_ps k) ->
        (forall x : R, x <= Q2R lo - Q2R (k_h k) -> FR x = 0) /\
        (forall x : R, Q2R hi + Q2R (k_h k) <= x -> FR x = 1) /\
        RInt fR (Q2R lo - Q2R (k_h k)) (Q2R hi + Q2R (k_h k)) = 1) /\
     forall x : Q, exists p c : Q,
       kde_pdf k x = Some (XFin p) /\ kde_cdf k x = Some (XFin c) /\
       Q2R p = fR (Q2R x) /\ Q2R c = FR (Q2R x)) /\
  (forall m : Q, k_b k = BLower m ->
   exists fR FR : R -> R,
     Proofs.KdeQR.proper_pair fR FR /\ FR (Q2R m) = 0 /\
     (forall lo hi : Q, pairs_within lo hi (kde_ps k) -> (m <= lo)%Q ->
        (forall x : R, Q2R hi + Q2R (k_h k) <= x -> FR x = 1) /\
        RInt fR (Q2R m) (Q2R hi + Q2R (k_h k)) = 1) /\
     forall x : Q,
       ((x < m)%Q -> kde_pdf k x = Some (XFin 0%Q) /\ kde_cdf k x = Some (XFin 0%Q)) /\
       ((m <= x)%Q -> exists p c : Q,
          kde_pdf k x = Some (XFin p) /\ kde_cdf k x = Some (XFin c) /\
          Q2R p = fR (Q2R x) /\ Q2R c = FR (Q2R x))) /\
  (forall M : Q, k_b k = BUpper M ->
   exists fR FR : R -> R,
     Proofs.KdeQR.proper_pair fR FR /\ FR (Q2R M) = 1 /\
     (forall lo hi : Q, pairs_within lo hi (kde_ps k) -> (hi <= M)%Q ->
        (forall x : R, x <= Q2R lo - Q2R (k_h k) -> FR x = 0) /\
        RInt fR (Q2R lo - Q2R (k_h k)) (Q2R M) = 1) /\
     forall x : Q,
       ((M <= x)%Q -> kde_pdf k x = Some (XFin 0%Q) /\ kde_cdf k x = Some (XFin 1%Q)) /\
       ((x < M)%Q -> exists p c : Q,
          kde_pdf k x = Some (XFin p) /\ kde_cdf k x = Some (XFin c) /\
          Q2R p = fR (Q2R x) /\ Q2R c = FR (Q2R x))) /\
  (forall m M : Q, k_b k = BBoth m M -> pairs_within m M (kde_ps k) -> (m < M)%Q ->
   exists fR FR : R -> R,
     Proofs.KdeQR.proper_pair fR FR /\ FR (Q2R m) = 0 /\ FR (Q2R M) = 1 /\
     (forall x : R, Q2R m <= x <= Q2R M -> 0 <= FR x <= 1) /\
     RInt fR (Q2R m) (Q2R M) = 1 /\
     forall x : Q,
       ((x < m)%Q -> kde_pdf k x = Some (XFin 0%Q) /\ kde_cdf k x = Some (XFin 0%Q)) /\
       ((M <= x)%Q -> kde_pdf k x = Some (XFin 0%Q) /\ kde_cdf k x = Some (XFin 1%Q)) /\
       ((m <= x)%Q -> (x < M)%Q -> exists p c : Q,
          kde_pdf k x = Some (XFin p) /\ kde_cdf k x = Some (XFin c) /\
          Q2R p = fR (Q2R x) /\ Q2R c = FR (Q2R x))).
Proof. exact Proofs.KdeCap.model_is_a_distribution. Qed.
Print Assumptions C12_model_is_a_distribution.

Local Close Scope R_scope.

(* ====================================================================== *)
(* Examples: the hypotheses are satisfiable, the model computes              *)
(* ====================================================================== *)
(* ex_k b (Proofs/KdeGroups.v): sample {1,2,3}, weights {1,2,1}, h = 1, boundary setting b *)
Example C12_ex_hyps :
  kde_ok (ex_k BNone) /\ bounds_ok (ex_k (BLower (1 # 2))) /\ bounds_ok (ex_k (BUpper 4)) /\
  bounds_ok (ex_k (BBoth (1 # 2) 4)) /\ pairs_within 1 3 (kde_ps (ex_k BNone)) /\
  kde_ok_delta (mkKde [1; 2; 3] None KDelta 0 BNone).
Proof.
  repeat split; try (cbn; lra); try discriminate; try (repeat constructor; cbn; lra).
Qed.
(* values: unbounded pdf(2) = (1*0 + 2*(3/4) + 1*0)/4 = 3/8, cdf(2) = 1/2; doubly bounded on
   [1/2, 4) at x = 3: the image 2*4 - 3 = 5 is out of reach, pdf = 3/16; cdf(1/2) = 0 *)
Example C12_ex_values :
  kde_pdf (ex_k BNone) 2 = Some (XFin (3 # 8)) /\ kde_cdf (ex_k BNone) 2 = Some (XFin (1 # 2)) /\
  kde_pdf (ex_k (BBoth (1 # 2) 4)) 3 = Some (XFin (3 # 16)) /\
  kde_cdf (ex_k (BBoth (1 # 2) 4)) (1 # 2) = Some (XFin 0) /\
  kde_cdf (ex_k (BBoth (1 # 2) 4)) 4 = Some (XFin 1) /\
  kde_pdf (ex_k (BLower (1 # 2))) (1 # 4) = Some (XFin 0) /\
  kde_cdf (mkKde [1; 2; 3] (Some [1; 2; 1]) KDelta 0 BNone) 2 = Some (XFin (3 # 4)) /\
  kde_pdf (mkKde [1; 2; 3] None KDelta 0 BNone) 2 = Some (XInf false).
Proof. vm_compute. repeat split; reflexivity. Qed.
(* a non-trivial image sum: h = 8 on [1/2, 4): images of three orders contribute; the model's
   value is the fold of order k_fuel and of order k_fuel + 3 *)
Example C12_ex_images :
  let k := mkKde [1; 2; 3] None KEpan 8 (BBoth (1 # 2) 4) in
  exists p, kde_pdf k 1 = Some (XFin p) /\ Qeq_bool p (fold_pdf (kde_f k) (1 # 2) 4 (k_fuel k) 1) = true /\
            Qeq_bool p (fold_pdf (kde_f k) (1 # 2) 4 (k_fuel k + 3) 1) = true /\
            Qeq_bool (pdf_upper (kde_f k) (1 # 2) 4 1 1) 0 = false.
Proof. cbv zeta. eexists. split; [vm_compute; reflexivity|]. vm_compute. repeat split; reflexivity. Qed.
(* Scott's rule hypotheses: see Proofs/KdeBw.v scott_rule_example *)
Example C12_ex_scott :
  let s := mkSample [1; 2; 4; 8; 16] None false in
  exists a b, s_ws s = None /\ (2 <= length (s_xs s))%nat /\
              quantile s (3 # 4) = RVal a /\ quantile s (1 # 4) = RVal b.
Proof. exact scott_rule_example. Qed.
Example C12_ex_bounds : kde_bounds_ok (BBoth 0 10) (XFin 1) (XFin 9) (99 # 100) = true /\
                        kde_bounds_ok (BBoth 0 10) (XFin (-1)) (XFin 9) (99 # 100) = false /\
                        kde_bounds_ok BNone (XFin 1) (XFin 9) (97 # 100) = false.
Proof. vm_compute. repeat split; reflexivity. Qed.

(* ====================================================================== *)
(* A9. the SEARCH of KDE.Bounds() in exact arithmetic (Model/KdeBounds.v)     *)
(* ====================================================================== *)
From MM Require Import Model.KdeBounds Proofs.KdeBounds Proofs.KdeSeriesStop.
(* bounds_search F b fuel xs (Model/KdeBounds.v) is kde.go:269-325 over Q with the CDF F: start at
   (min, max) of the data (+-1 if equal), double the width until F(lowX) <= 0.005 and
   F(highX) >= 0.995, bisect F - 0.005 and F - 0.995 to 0.001 (alg.go:45-73, every branch incl.
   the panic and the `mid == low` exit), widen by 10%, clip to the boundaries; BrFuel when one of
   the four loops exceeds the fuel.
   (1) bisect, for ANY f compatible with ==: a returned point is within the tolerance and the
   flag is true (the `mid == high || mid == low` exit means low == high in Q, which the bracket
   invariant Sign(f low) <> Sign(f high) excludes); a panic means equal signs at the ends.
   (2) for ANY non-decreasing F that is 0 at BoundaryMin and 1 at BoundaryMax (where they
   exist), every fuel and every sample: bisect never panics, and a returned interval passes the
   acceptance test kde_bounds_ok with mass F hi - F lo (ordered, inside the boundaries,
   >= 98% - in fact F lo <= 0.006 and F hi >= 0.994).
   A theorem about the exact search only: the float search (rounded CDF values, 0.1 is not 1/10,
   termination through mid == low) is not tied to it; the check applies kde_bounds_ok to the
   implementation's result. *)
Theorem C12_bounds_search_sound :
  (forall (f : Q -> Q) (tol low high : Q) (fuel : nat), (forall s t : Q, s == t -> f s == f t) ->
     match bisect f low high tol fuel with
     | BisRet x found => (- tol <= f x /\ f x <= tol) /\ found = true
     | BisPanic => qsign (f low) = qsign (f high)
     | BisFuel => True
     end) /\
  (forall F : Q -> Q, (forall a b : Q, a <= b -> F a <= F b) ->
   forall (b : bconf) (fuel : nat) (xs : list Q),
     match b with
     | BNone => True
     | BLower m => F m == 0
     | BUpper M => F M == 1
     | BBoth m M => F m == 0 /\ F M == 1
     | BBad => False
     end ->
     bounds_search F b fuel xs <> BrPanic /\
     forall lo hi : Q, bounds_search F b fuel xs = BrOk lo hi ->
       kde_bounds_ok b (XFin lo) (XFin hi) (F hi - F lo) = true /\
       F lo <= 6 # 1000 /\ 994 # 1000 <= F hi).
Proof. exact Proofs.KdeBounds.G_bounds_search_sound. Qed.
Print Assumptions C12_bounds_search_sound.

(* the search on the model's own KDE.CDF (kde_bounds_search k = bounds_search (kde_cdf k) ..):
   Epanechnikov kernel, every boundary setting; delta kernel with the data inside the boundaries
   (bounds_ok_delta, Proofs/KdeBounds.v), where the interval is accepted both with the CDF
   difference (mass of (lo, hi]) and with the mass of the closed interval [lo, hi] that
   Check/C12.v uses.  For a step function the exact bisection usually never meets the
   tolerance: the fuel runs out (C12_ex_bounds_search), where the float code ends on mid == low *)
Theorem C12_bounds_search_kde :
  (forall k : kde, kde_ok k -> k_kernel k = KEpan -> bounds_ok k -> forall fuel : nat,
     kde_bounds_search k fuel <> BrPanic /\
     forall lo hi : Q, kde_bounds_search k fuel = BrOk lo hi ->
       exists clo chi : Q, kde_cdf k lo = Some (XFin clo) /\ kde_cdf k hi = Some (XFin chi) /\
         kde_bounds_ok (k_b k) (XFin lo) (XFin hi) (chi - clo) = true) /\
  (forall k : kde, kde_ok_delta k -> k_kernel k = KDelta -> bounds_ok_delta k -> forall fuel : nat,
     kde_bounds_search k fuel <> BrPanic /\
     forall lo hi : Q, kde_bounds_search k fuel = BrOk lo hi ->
       (exists clo chi : Q, kde_cdf k lo = Some (XFin clo) /\ kde_cdf k hi = Some (XFin chi) /\
          kde_bounds_ok (k_b k) (XFin lo) (XFin hi) (chi - clo) = true) /\
       kde_bounds_ok (k_b k) (XFin lo) (XFin hi) (delta_mass_in (k_xs k) (k_ws k) lo hi) = true).
Proof. exact Proofs.KdeBounds.G_bounds_search_kde. Qed.
Print Assumptions C12_bounds_search_kde.

(* ====================================================================== *)
(* A10. two boundaries with data OUTSIDE them (outside the property's quantifier) *)
(* ====================================================================== *)
(* `series` (alg.go:107-114) in exact arithmetic returns the sum of the terms before the FIRST
   zero term, whatever follows it.  With a data point outside [BoundaryMin, BoundaryMax] a zero
   term can be followed by non-zero ones: sample {9/10, 2}, h = 1/4, support [0, 1), x = 1/10 -
   term 0 of both series is 0, term 1 is not (the images 2 -+ 1/10 reach the data point 2), the
   model returns PDF = CDF = 0 while the image sums are 63/25 and 71/250.  So the hypothesis
   pairs_within m M of C12_both_is_fold cannot be dropped. *)
Theorem C12_both_data_outside_refuted :
  (forall (t : nat -> Q) (fuel : nat),
     (forall s : Q, series_q t 0 fuel 0 = Some s ->
        exists K : nat, (K < fuel)%nat /\ t K == 0 /\ (forall i : nat, (i < K)%nat -> ~ t i == 0) /\
                        s == nat_sum t K) /\
     (series_q t 0 fuel 0 = None <-> (forall i : nat, (i < fuel)%nat -> ~ t i == 0))) /\
  (exists (k : kde) (m M x : Q) (N : nat) (p c : Q),
    kde_ok k /\ k_kernel k = KEpan /\ k_b k = BBoth m M /\ m < M /\ ~ pairs_within m M (kde_ps k) /\
    m <= x /\ x < M /\ (k_fuel k <= N)%nat /\
    kde_pdf k x = Some (XFin p) /\ kde_cdf k x = Some (XFin c) /\
    ~ p == fold_pdf (kde_f k) m M N x /\ ~ c == fold_cdf (kde_F k) m M N x /\
    pdf_upper (mix (epan_pdf (k_h k)) (k_xs k) (k_ws k)) m M x 0 == 0 /\
    ~ pdf_upper (mix (epan_pdf (k_h k)) (k_xs k) (k_ws k)) m M x 1 == 0 /\
    cdf_upper (mix (epan_cdf (k_h k)) (k_xs k) (k_ws k)) m M x 0 == 0 /\
    ~ cdf_upper (mix (epan_cdf (k_h k)) (k_xs k) (k_ws k)) m M x 1 == 0).
Proof. exact Proofs.KdeSeriesStop.G_series_stop_data_outside. Qed.
Print Assumptions C12_both_data_outside_refuted.

(* ex_bk kn b (Proofs/KdeBounds.v): sample {0,1,2}, h = 1, kernel kn, boundary setting b;
   ex_bk_w: delta kernel, weights 5:990:5 (the CDF jumps onto 0.005 and 0.995 exactly).
   Hypotheses are satisfiable; the search returns [-1.2125, 3.2125] without boundaries (the float
   code returns the same two numbers), [-1/2, 3] with both ends clipped, and each is accepted;
   on the unweighted delta kernel the exact bisection never meets the tolerance (the float code
   returns [-0.2, 2.2] through mid == low) *)
Example C12_ex_bounds_search :
  kde_ok (ex_bk KEpan BNone) /\ bounds_ok (ex_bk KEpan (BBoth (-1 # 2) 3)) /\
  kde_ok_delta ex_bk_w /\ bounds_ok_delta ex_bk_w /\
  kde_bounds_search (ex_bk KEpan BNone) 20 = BrOk (-397312 # 327680) (1052672 # 327680) /\
  search_accepted (ex_bk KEpan BNone) 20 = true /\
  kde_bounds_search (ex_bk KEpan (BBoth (-1 # 2) 3)) 20 = BrOk (-1 # 2) 3 /\
  search_accepted (ex_bk KEpan (BBoth (-1 # 2) 3)) 20 = true /\
  search_accepted (ex_bk KEpan (BLower (-1 # 2))) 20 = true /\
  kde_bounds_search (ex_bk KEpan BNone) 5 = BrFuel /\
  kde_bounds_search (ex_bk KDelta BNone) 60 = BrFuel /\
  kde_bounds_search ex_bk_w 20 = BrOk (-1 # 10) (11 # 10) /\ search_accepted ex_bk_w 20 = true.
Proof.
  split; [repeat split; try discriminate; cbn; lra|].
  split; [split; [lra | repeat constructor; cbn; lra]|].
  split; [repeat split; try discriminate; repeat constructor; cbn; lra|].
  split; [exact I|].
  vm_compute. repeat split; reflexivity.
Qed.

(* ====================================================================== *)
(* A11. the exact search of KDE.Bounds() terminates (Epanechnikov, <= 1 boundary) *)
(* ====================================================================== *)
From MM Require Import Proofs.KdeBoundsTerm.
(* (1) bisect on an L-Lipschitz f with f low <= tol and f high >= -tol never panics and returns a
   point within n halvings whenever (high - low) L <= 2 tol 2^n (bracket invariant
   f low < -tol, tol < f high forces high - low > 2 tol / L); (2) for an L-Lipschitz F that is
   <= 0.005 left of A and >= 0.995 right of B each bracket expansion ends within n steps once n
   initial widths reach A resp. B, and the whole search returns an interval for EVERY fuel from
   some fuel0 on, every sample and boundary setting (existential fuel0: the bisection bound is
   stated in (1)); (3) the Epanechnikov distribution function is Lipschitz with constant
   3/(4h); (4) the model's Epanechnikov KDE.CDF with no boundary or one boundary (data inside
   it: bounds_ok_half, Proofs/KdeBoundsTerm.v) is Lipschitz with 3/(2h) (3/(4h) without
   boundary), so its Bounds() search returns, from some fuel on, an interval that the acceptance
   test accepts.  Two boundaries are not covered; for the delta kernel the exact search does
   not terminate in general (C12_ex_bounds_search). *)
Theorem C12_bounds_search_terminates :
  (forall (f : Q -> Q) (L tol : Q), 0 < L -> 0 < tol ->
     (forall x y : Q, x <= y -> f y - f x <= L * (y - x)) ->
     forall (low high : Q) (n fuel : nat), low <= high -> f low <= tol -> - tol <= f high -> (n < fuel)%nat ->
       (high - low) * L <= 2 * tol * qpow 2 n ->
       exists x : Q, bisect f low high tol fuel = BisRet x true) /\
  (forall (F : Q -> Q) (L A B : Q), 0 < L ->
     (forall x y : Q, x <= y -> F y - F x <= L * (y - x)) ->
     (forall x : Q, x <= A -> F x <= lowY) -> (forall x : Q, B <= x -> highY <= F x) ->
     (forall (fuel n : nat) (lowX highX : Q), (n < fuel)%nat -> lowX < highX ->
        lowX - Qofnat n * (highX - lowX) <= A ->
        exists r : Q, expand_low F fuel lowX highX = Some r /\ r <= lowX /\ F r <= lowY) /\
     (forall (fuel n : nat) (lowX highX : Q), (n < fuel)%nat -> lowX < highX ->
        B <= highX + Qofnat n * (highX - lowX) ->
        exists r : Q, expand_high F fuel lowX highX = Some r /\ highX <= r /\ highY <= F r) /\
     (forall (b : bconf) (xs : list Q), b <> BBad -> xs <> [] ->
        exists fuel0 : nat, forall fuel : nat, (fuel0 <= fuel)%nat ->
          exists lo hi : Q, bounds_search F b fuel xs = BrOk lo hi)) /\
  (forall h s t : Q, 0 < h -> s <= t -> epan_cdf h t - epan_cdf h s <= (3 # 4) / h * (t - s)) /\
  (forall k : kde, kde_ok k -> k_kernel k = KEpan -> bounds_ok_half k ->
     (forall x y : Q, x <= y -> kde_cdf_q k y - kde_cdf_q k x <= 2 * ((3 # 4) / k_h k) * (y - x)) /\
     exists fuel0 : nat, forall fuel : nat, (fuel0 <= fuel)%nat ->
       exists lo hi clo chi : Q, kde_bounds_search k fuel = BrOk lo hi /\
         kde_cdf k lo = Some (XFin clo) /\ kde_cdf k hi = Some (XFin chi) /\
         kde_bounds_ok (k_b k) (XFin lo) (XFin hi) (chi - clo) = true).
Proof. exact Proofs.KdeBoundsTerm.G_bounds_search_terminates. Qed.
Print Assumptions C12_bounds_search_terminates.

(* the hypotheses are satisfiable; on sample {0,1,2}, h = 1 fuel 9 suffices, fuel 5 does not *)
Example C12_ex_bounds_term :
  bounds_ok_half (ex_bk KEpan BNone) /\ bounds_ok_half (ex_bk KEpan (BLower (-1 # 2))) /\
  bounds_ok_half (ex_bk KEpan (BUpper 3)) /\
  search_accepted (ex_bk KEpan BNone) 9 = true /\ kde_bounds_search (ex_bk KEpan BNone) 5 = BrFuel /\
  search_accepted (ex_bk KEpan (BLower (-1 # 2))) 20 = true /\
  search_accepted (ex_bk KEpan (BUpper 3)) 20 = true.
Proof.
  split; [exact I|]. split; [exists 2; repeat constructor; cbn; lra|].
  split; [exists 0; repeat constructor; cbn; lra|].
  vm_compute. repeat split; reflexivity.
Qed.

(* Properties/C12.v — a KDE is a proper probability distribution consistent with its kernel formula. *)
From MM Require Import Base.Num Model.Kde Proofs.Kde.
Local Open Scope Q_scope.

Theorem C12_epan_pdf_nonneg : forall h x, 0 < h -> 0 <= epan_pdf h x.
Proof. exact epan_pdf_nonneg. Qed.
Print Assumptions C12_epan_pdf_nonneg.

(* Properties/C13.v — StreamStats equals batch statistics for every stream and every split.
   ONLY statements; each is closed by [exact] of a lemma from Proofs/Stream.v. *)
From MM Require Import Base.Num Model.Stream Proofs.Stream Check.C13 Proofs.CheckC13.
From Coq Require Import Permutation.
Local Open Scope Q_scope.

(* After ANY history of Add and Combine calls over any number k of accumulators, every
   accumulator satisfies the invariant [Inv] with respect to exactly the values that
   were fed to it (directly or through the accumulators combined into it):
   Count = n, Total = sum, Mean*n = sum, meanOfSquares*n = sum of squares,
   M2 = sum of squares - n*mean^2, Min/Max = least/greatest value (when n > 0). *)
Theorem C13_history_invariant : forall (k : nat) (ops : list sop),
  Forall2 Inv (s_run k ops) (v_run k ops).
Proof. exact history_inv. Qed.
Print Assumptions C13_history_invariant.

(* Add: one more value. *)
Theorem C13_add_step : forall s xs x, Inv s xs -> Inv (s_add s x) (xs ++ [x]).
Proof. exact add_inv. Qed.
Print Assumptions C13_add_step.

(* Combine: the statistics of the concatenation — including xs = [] or ys = []. *)
Theorem C13_combine_step : forall s o xs ys, Inv s xs -> Inv o ys -> Inv (s_combine s o) (xs ++ ys).
Proof. exact combine_inv. Qed.
Print Assumptions C13_combine_step.

(* The invariant pins the reported statistics to their batch definitions. *)
Theorem C13_mean_is_batch : forall s xs, Inv s xs -> xs <> [] -> s_mean s == mean_def xs.
Proof. exact mean_is_batch. Qed.
Print Assumptions C13_mean_is_batch.

Theorem C13_rms_is_batch : forall s xs, Inv s xs -> xs <> [] -> s_rms_sq s == meansq_def xs.
Proof. exact msq_is_batch. Qed.
Print Assumptions C13_rms_is_batch.

Theorem C13_variance_is_batch : forall s xs, Inv s xs -> (2 <= length xs)%nat -> s_variance s == var_def xs.
Proof. exact variance_is_batch. Qed.
Print Assumptions C13_variance_is_batch.

(* However the stream is split and in whatever order the parts are combined: two
   accumulators that were fed the same multiset of values report the same statistics. *)
Theorem C13_split_order_irrelevant : forall s t xs ys,
  Inv s xs -> Inv t ys -> Permutation xs ys -> xs <> [] ->
  s_count s = s_count t /\ s_total s == s_total t /\ s_mean s == s_mean t /\ s_rms_sq s == s_rms_sq t /\
  s_m2 s == s_m2 t /\ s_min s == s_min t /\ s_max s == s_max t.
Proof. exact split_order_irrelevant. Qed.
Print Assumptions C13_split_order_irrelevant.

(* What an "ok" verdict of the correspondence comparator certifies: after EVERY operation of
   the recorded history, the accumulator it touched satisfies the batch invariant for exactly
   the values fed to it and all nine observed statistics passed the comparison ... *)
Theorem C13_check_ok_sound : forall fr k ops tag,
  run_cmp fr (repeat s_init k) ops 0%Z 0%Z = (tag, None) -> forall n, step_ok fr k ops n.
Proof. exact check_ok_sound. Qed.
Print Assumptions C13_check_ok_sound.

(* Non-vacuity: a three-accumulator history with an empty part on each side of a Combine. *)
Example C13_history_example :
  let ops := [SAdd 0 5; SAdd 0 7; SCombine 1 0; SCombine 1 2; SAdd 2 1; SCombine 2 1; SCombine 2 1] in
  v_run 3 ops = [[5; 7]; [5; 7]; [1; 5; 7; 5; 7]] /\
  map s_count (s_run 3 ops) = [2%N; 2%N; 5%N] /\
  map s_mean (s_run 3 ops) = [6; 6; 5] /\ map s_min (s_run 3 ops) = [5; 5; 1] /\
  map (fun s => Qred (s_variance s)) (s_run 3 ops) = [2; 2; 6].
Proof. vm_compute. repeat split; reflexivity. Qed.

(* Properties/C13.v — StreamStats equals batch statistics for every stream and every split.
   ONLY statements; each is closed by [exact] of a lemma from Proofs/Stream.v. *)
From MM Require Import Base.Num Model.Stream Proofs.Stream Check.C13 Proofs.CheckC13.
From Coq Require Import Permutation.
Local Open Scope Q_scope.

(* After ANY history of Add and Combine calls over any number k of accumulators, every
   accumulator satisfies the invariant [Inv] with respect to exactly the values that
   were fed to it (directly or through the accumulators combined into it):
   Count = n, Total = sum, Mean*n = sum, meanOfSquares*n = sum of squares,
   M2 = sum of squares - n*mean^2, Min/Max = least/greatest value (when n > 0). *)
Theorem C13_history_invariant : forall (k : nat) (ops : list sop),
  Forall2 Inv (s_run k ops) (v_run k ops).
Proof. exact history_inv. Qed.
Print Assumptions C13_history_invariant.

(* Add: one more value. *)
Theorem C13_add_step : forall s xs x, Inv s xs -> Inv (s_add s x) (xs ++ [x]).
Proof. exact add_inv. Qed.
Print Assumptions C13_add_step.

(* Combine: the statistics of the concatenation — including xs = [] or ys = []. *)
Theorem C13_combine_step : forall s o xs ys, Inv s xs -> Inv o ys -> Inv (s_combine s o) (xs ++ ys).
Proof. exact combine_inv. Qed.
Print Assumptions C13_combine_step.

(* The invariant pins the reported statistics to their batch definitions. *)
Theorem C13_mean_is_batch : forall s xs, Inv s xs -> xs <> [] -> s_mean s == mean_def xs.
Proof. exact mean_is_batch. Qed.
Print Assumptions C13_mean_is_batch.

Theorem C13_rms_is_batch : forall s xs, Inv s xs -> xs <> [] -> s_rms_sq s == meansq_def xs.
Proof. exact msq_is_batch. Qed.
Print Assumptions C13_rms_is_batch.

Theorem C13_variance_is_batch : forall s xs, Inv s xs -> (2 <= length xs)%nat -> s_variance s == var_def xs.
Proof. exact variance_is_batch. Qed.
Print Assumptions C13_variance_is_batch.

(* However the stream is split and in whatever order the parts are combined: two
   accumulators that were fed the same multiset of values report the same statistics. *)
Theorem C13_split_order_irrelevant : forall s t xs ys,
  Inv s xs -> Inv t ys -> Permutation xs ys -> xs <> [] ->
  s_count s = s_count t /\ s_total s == s_total t /\ s_mean s == s_mean t /\ s_rms_sq s == s_rms_sq t /\
  s_m2 s == s_m2 t /\ s_min s == s_min t /\ s_max s == s_max t.
Proof. exact split_order_irrelevant. Qed.
Print Assumptions C13_split_order_irrelevant.

(* ---------------------------------------------------------------------------------------------
   What a passing verdict of the correspondence comparator means.
   --------------------------------------------------------------------------------------------- *)

(* The whole verdict: if check_C13 accepts a case line (code 0; it never returns 1) then the line parses
   COMPLETELY into k, the observation fr of a fresh accumulator and a history ops (nothing left over, first
   integer 13); fr shows Count = 0, Total = 0, Weight = 0; and after EVERY operation n of the history the
   nine statistics observed on the accumulator that operation touched are [batch_ok] (next theorem's
   conclusion, Proofs/CheckC13.v) for exactly the values fed to that accumulator so far — directly or through
   the accumulators combined into it, s.Combine(s) taking them twice. *)
Theorem C13_check_sound : forall line c tag pos diag,
  check_C13 line = verdict c tag pos diag -> (c = 0 \/ c = 1)%Z ->
  exists k fr ops, p_line line = Some ((k, fr, ops), []) /\ (exists body, line = 13%Z :: body) /\
    batch_ok fr 0 [] fr /\
    forall n op o, nth_error ops n = Some (op, o) ->
      exists xs, nth_error (v_run k (map fst (firstn (S n) ops))) (op_target op) = Some xs /\
                 batch_ok fr (N.of_nat (S n)) xs o.
Proof. exact check_sound. Qed.
Print Assumptions C13_check_sound.

(* One comparison, every observable, against the BATCH definitions of exactly the values xs fed
   (the model state s is eliminated through the invariant; lo/hi are the least/greatest value):
     Count = |xs|;  Total a finite float within tolm_total of Qsum xs;  Weight within rounding of |xs|;
     xs = []:    Min, Max, Mean, RMS equal to what the fresh accumulator reports;
     xs <> []:   Min == least value, Max == greatest value (exactly);
                 Mean a finite float within tolm_mean of mean_def xs = Qsum xs / |xs|;
                 RMS a finite float r >= 0 with r^2 within tolm_msq + 8u*msq of meansq_def xs;
     |xs| >= 2:  Variance a finite float within tolm_var of var_def xs = sum (x - mean)^2 / (|xs| - 1);
                 StdDev a finite float sd >= 0 (never NaN) with sd^2 within tolm_var + 8u*var of var_def xs.
   Nothing is demanded of Variance/StdDev for fewer than two values ("for two or more values"). *)
Theorem C13_compare_all_sound : forall fr steps s o xs,
  Inv s xs -> compare fr steps s o = None ->
  let n := N.of_nat (length xs) in
  let d := N.min n steps in
  exists lo hi, (xs <> [] -> is_min lo xs /\ is_max hi xs) /\
  o_count o = Z.of_nat (length xs) /\
  (exists t, o_total o = XFin t /\ Qabs (t - Qsum xs) <= tolm_total d n lo hi) /\
  (exists w, o_weight o = XFin w /\ Qabs (w - nQ xs) <= tolm_weight n) /\
  (xs = [] -> xeq (o_min fr) (o_min o) = true /\ xeq (o_max fr) (o_max o) = true /\
              xeq (o_mean fr) (o_mean o) = true /\ xeq (o_rms fr) (o_rms o) = true) /\
  (xs <> [] -> (exists a, o_min o = XFin a /\ a == lo) /\ (exists b, o_max o = XFin b /\ b == hi) /\
               (exists m, o_mean o = XFin m /\ Qabs (m - mean_def xs) <= tolm_mean d lo hi) /\
               (exists r, o_rms o = XFin r /\ 0 <= r /\
                          Qabs (r * r - meansq_def xs) <= tolm_msq d lo hi + 8 * ulp53 * meansq_def xs)) /\
  ((2 <= length xs)%nat ->
               (exists v, o_var o = XFin v /\ Qabs (v - var_def xs) <= tolm_var (var_def xs) lo hi) /\
               (exists sd, o_std o = XFin sd /\ 0 <= sd /\
                          Qabs (sd * sd - var_def xs) <= tolm_var (var_def xs) lo hi + 8 * ulp53 * var_def xs)).
Proof. exact compare_all_sound. Qed.
Print Assumptions C13_compare_all_sound.

(* The run of the comparator over a history (the step between the two theorems above): after EVERY
   operation the accumulator it touched satisfies the batch invariant for exactly the values fed to it
   and the comparison of that step succeeded. *)
Theorem C13_check_ok_sound : forall fr k ops tag,
  run_cmp fr (repeat s_init k) ops 0%Z 0%Z = (tag, None) -> forall n, step_ok fr k ops n.
Proof. exact check_ok_sound. Qed.
Print Assumptions C13_check_ok_sound.

(* Non-vacuity: a case line as the harness printed it on the unchanged library (3 accumulators: observe an
   untouched one; Add 5, 7 to acc0; Add 1 to acc1; acc0.Combine(acc1); observe acc1; acc2.Combine(acc2) on
   an empty accumulator; acc0.Combine(acc0)) is accepted with tag 15 ... *)
Definition C13_example_line : list Z :=
  [
     13; 3; 0; 0; 0; 0; 0; 0; 0; 0; 0; 8; 2; 2; 0; 0; 0; 0; 0; 0; 0; 0; 0; 0; 0; 0; 4617315517961601024; 1;
     4617315517961601024; 4617315517961601024; 4617315517961601024; 4617315517961601024;
     18444492273895866368; 18444492273895866368; 4617315517961601024; 4607182418800017408; 0; 0;
     4619567317775286272; 2; 4622945017495814144; 4617315517961601024; 4619567317775286272;
     4618441417868443648; 4611686018427387904; 4609047870845172685; 4618534600193596473; 4611686018427387904;
     0; 1; 4607182418800017408; 1; 4607182418800017408; 4607182418800017408; 4607182418800017408;
     4607182418800017408; 18444492273895866368; 18444492273895866368; 4607182418800017408;
     4607182418800017408; 1; 0; 1; 3; 4623507967449235456; 4607182418800017408; 4619567317775286272;
     4616564918023705941; 4621443817620023979; 4614061780864084146; 4617315517961601024; 4613937818241073152;
     2; 1; 0; 1; 4607182418800017408; 4607182418800017408; 4607182418800017408; 4607182418800017408;
     18444492273895866368; 18444492273895866368; 4607182418800017408; 4607182418800017408; 1; 2; 2; 0; 0; 0;
     0; 0; 0; 0; 0; 0; 1; 0; 0; 6; 4628011567076605952; 4607182418800017408; 4619567317775286272;
     4616564918023705941; 4620092737731812830; 4613335507286852003; 4617315517961601024; 4618441417868443648 ]%Z.
Example C13_check_accepts_example : check_C13 C13_example_line = verdict 0 15 (-1) [].
Proof. vm_compute. reflexivity. Qed.
(* ... and the same line with the Max printed in the Min field after the Combine (operation 4) is rejected
   at that operation, observable 2 (Min): the comparator does compare. *)
Example C13_check_rejects_min_printed_as_max :
  exists diag, check_C13
  [
     13; 3; 0; 0; 0; 0; 0; 0; 0; 0; 0; 8; 2; 2; 0; 0; 0; 0; 0; 0; 0; 0; 0; 0; 0; 0; 4617315517961601024; 1;
     4617315517961601024; 4617315517961601024; 4617315517961601024; 4617315517961601024;
     18444492273895866368; 18444492273895866368; 4617315517961601024; 4607182418800017408; 0; 0;
     4619567317775286272; 2; 4622945017495814144; 4617315517961601024; 4619567317775286272;
     4618441417868443648; 4611686018427387904; 4609047870845172685; 4618534600193596473; 4611686018427387904;
     0; 1; 4607182418800017408; 1; 4607182418800017408; 4607182418800017408; 4607182418800017408;
     4607182418800017408; 18444492273895866368; 18444492273895866368; 4607182418800017408;
     4607182418800017408; 1; 0; 1; 3; 4623507967449235456; 4619567317775286272; 4619567317775286272;
     4616564918023705941; 4621443817620023979; 4614061780864084146; 4617315517961601024; 4613937818241073152;
     2; 1; 0; 1; 4607182418800017408; 4607182418800017408; 4607182418800017408; 4607182418800017408;
     18444492273895866368; 18444492273895866368; 4607182418800017408; 4607182418800017408; 1; 2; 2; 0; 0; 0;
     0; 0; 0; 0; 0; 0; 1; 0; 0; 6; 4628011567076605952; 4607182418800017408; 4619567317775286272;
     4616564918023705941; 4620092737731812830; 4613335507286852003; 4617315517961601024; 4618441417868443648 ]%Z
  = verdict 2 5 4 (2%Z :: diag).
Proof. eexists. vm_compute. reflexivity. Qed.

(* Three more kernel-checked rejections of that line with one field falsified:
   an accumulator that is empty after empty.Combine(empty) reporting Mean = NaN although a fresh one reports 0
   (operation 6, observable 4) - round 1 compared nothing on an empty accumulator; *)
Example C13_check_rejects_nan_mean_of_empty : exists t diag, check_C13
  [
     13; 3; 0; 0; 0; 0; 0; 0; 0; 0; 0; 8; 2; 2; 0; 0; 0; 0; 0; 0; 0; 0; 0; 0; 0; 0; 4617315517961601024; 1;
     4617315517961601024; 4617315517961601024; 4617315517961601024; 4617315517961601024;
     18444492273895866368; 18444492273895866368; 4617315517961601024; 4607182418800017408; 0; 0;
     4619567317775286272; 2; 4622945017495814144; 4617315517961601024; 4619567317775286272;
     4618441417868443648; 4611686018427387904; 4609047870845172685; 4618534600193596473; 4611686018427387904;
     0; 1; 4607182418800017408; 1; 4607182418800017408; 4607182418800017408; 4607182418800017408;
     4607182418800017408; 18444492273895866368; 18444492273895866368; 4607182418800017408;
     4607182418800017408; 1; 0; 1; 3; 4623507967449235456; 4607182418800017408; 4619567317775286272;
     4616564918023705941; 4621443817620023979; 4614061780864084146; 4617315517961601024; 4613937818241073152;
     2; 1; 0; 1; 4607182418800017408; 4607182418800017408; 4607182418800017408; 4607182418800017408;
     18444492273895866368; 18444492273895866368; 4607182418800017408; 4607182418800017408; 1; 2; 2; 0; 0; 0;
     0; 9221120237041090561; 0; 0; 0; 0; 1; 0; 0; 6; 4628011567076605952; 4607182418800017408;
     4619567317775286272; 4616564918023705941; 4620092737731812830; 4613335507286852003; 4617315517961601024;
     4618441417868443648 ]%Z = verdict 2 t 6 (4%Z :: diag).
Proof. eexists. eexists. vm_compute. reflexivity. Qed.
(* StdDev = NaN for six values (operation 7, observable 6) - round 1 had a branch that could accept a NaN; *)
Example C13_check_rejects_nan_stddev : exists t diag, check_C13
  [
     13; 3; 0; 0; 0; 0; 0; 0; 0; 0; 0; 8; 2; 2; 0; 0; 0; 0; 0; 0; 0; 0; 0; 0; 0; 0; 4617315517961601024; 1;
     4617315517961601024; 4617315517961601024; 4617315517961601024; 4617315517961601024;
     18444492273895866368; 18444492273895866368; 4617315517961601024; 4607182418800017408; 0; 0;
     4619567317775286272; 2; 4622945017495814144; 4617315517961601024; 4619567317775286272;
     4618441417868443648; 4611686018427387904; 4609047870845172685; 4618534600193596473; 4611686018427387904;
     0; 1; 4607182418800017408; 1; 4607182418800017408; 4607182418800017408; 4607182418800017408;
     4607182418800017408; 18444492273895866368; 18444492273895866368; 4607182418800017408;
     4607182418800017408; 1; 0; 1; 3; 4623507967449235456; 4607182418800017408; 4619567317775286272;
     4616564918023705941; 4621443817620023979; 4614061780864084146; 4617315517961601024; 4613937818241073152;
     2; 1; 0; 1; 4607182418800017408; 4607182418800017408; 4607182418800017408; 4607182418800017408;
     18444492273895866368; 18444492273895866368; 4607182418800017408; 4607182418800017408; 1; 2; 2; 0; 0; 0;
     0; 0; 0; 0; 0; 0; 1; 0; 0; 6; 4628011567076605952; 4607182418800017408; 4619567317775286272;
     4616564918023705941; 4620092737731812830; 9221120237041090561; 4617315517961601024; 4618441417868443648 ]%Z = verdict 2 t 7 (6%Z :: diag).
Proof. eexists. eexists. vm_compute. reflexivity. Qed.
(* Weight = Count + 1 (operation 2, observable 8). *)
Example C13_check_rejects_weight_off_by_one : exists t diag, check_C13
  [
     13; 3; 0; 0; 0; 0; 0; 0; 0; 0; 0; 8; 2; 2; 0; 0; 0; 0; 0; 0; 0; 0; 0; 0; 0; 0; 4617315517961601024; 1;
     4617315517961601024; 4617315517961601024; 4617315517961601024; 4617315517961601024;
     18444492273895866368; 18444492273895866368; 4617315517961601024; 4607182418800017408; 0; 0;
     4619567317775286272; 2; 4622945017495814144; 4617315517961601024; 4619567317775286272;
     4618441417868443648; 4611686018427387904; 4609047870845172685; 4618534600193596473; 4613937818241073152;
     0; 1; 4607182418800017408; 1; 4607182418800017408; 4607182418800017408; 4607182418800017408;
     4607182418800017408; 18444492273895866368; 18444492273895866368; 4607182418800017408;
     4607182418800017408; 1; 0; 1; 3; 4623507967449235456; 4607182418800017408; 4619567317775286272;
     4616564918023705941; 4621443817620023979; 4614061780864084146; 4617315517961601024; 4613937818241073152;
     2; 1; 0; 1; 4607182418800017408; 4607182418800017408; 4607182418800017408; 4607182418800017408;
     18444492273895866368; 18444492273895866368; 4607182418800017408; 4607182418800017408; 1; 2; 2; 0; 0; 0;
     0; 0; 0; 0; 0; 0; 1; 0; 0; 6; 4628011567076605952; 4607182418800017408; 4619567317775286272;
     4616564918023705941; 4620092737731812830; 4613335507286852003; 4617315517961601024; 4618441417868443648 ]%Z = verdict 2 t 2 (8%Z :: diag).
Proof. eexists. eexists. vm_compute. reflexivity. Qed.

(* Non-vacuity: a three-accumulator history with an empty part on each side of a Combine. *)
Example C13_history_example :
  let ops := [SAdd 0 5; SAdd 0 7; SCombine 1 0; SCombine 1 2; SAdd 2 1; SCombine 2 1; SCombine 2 1] in
  v_run 3 ops = [[5; 7]; [5; 7]; [1; 5; 7; 5; 7]] /\
  map s_count (s_run 3 ops) = [2%N; 2%N; 5%N] /\
  map s_mean (s_run 3 ops) = [6; 6; 5] /\ map s_min (s_run 3 ops) = [5; 5; 1] /\
  map (fun s => Qred (s_variance s)) (s_run 3 ops) = [2; 2; 6].
Proof. vm_compute. repeat split; reflexivity. Qed.

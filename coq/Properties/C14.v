(* Properties/C14.v — Histograms conserve samples, bin them by their stated edges, and rank
   correctly.  ONLY statements; each is closed by [exact] of a lemma from Proofs/Hist.v.
   The model (Model/Hist.v) describes the repaired code: floor binning (D7), rank walk that
   subtracts the under count and tests count >= goal (D8). *)
From MM Require Import Base.Num Model.Hist Proofs.Hist Check.C14 Proofs.CheckC14.
From Coq Require Import Qround.
Local Open Scope Q_scope.

(* ---- every Add increments exactly one counter ---- *)
(* [incremented_exactly h h' s]: s names an existing counter, that counter grew by exactly one,
   every other counter (under, over, every other bin) is unchanged, the number of bins too. *)
Theorem C14_add_increments_exactly_one_linear : forall mn mx h x,
  incremented_exactly h (lin_add mn mx h x) (lin_slot mn mx (length (h_bins h)) x).
Proof. exact add_increments_exactly_one_lin. Qed.
Print Assumptions C14_add_increments_exactly_one_linear.

Theorem C14_add_increments_exactly_one_log : forall b m h x,
  incremented_exactly h (log_add b m h x) (log_slot b m (length (h_bins h)) x).
Proof. exact add_increments_exactly_one_log. Qed.
Print Assumptions C14_add_increments_exactly_one_log.

(* ---- conservation: after ANY history, under + over + sum of the bins = number of Adds ---- *)
Theorem C14_conservation_linear : forall mn mx nbins xs,
  h_total (lin_run mn mx nbins xs) = N.of_nat (length xs).
Proof. exact conservation_lin. Qed.
Print Assumptions C14_conservation_linear.

Theorem C14_conservation_log : forall b m nbins xs,
  h_total (log_run b m nbins xs) = N.of_nat (length xs).
Proof. exact conservation_log. Qed.
Print Assumptions C14_conservation_log.

(* after ANY sequence of Adds every counter (under, over, each bin) holds exactly the number of
   added values its slot selects; with the *_iff_edges theorems below: bin i counts the values
   with BinToValue(i) <= x < BinToValue(i+1) *)
Theorem C14_counts_after_history_linear : forall mn mx nbins xs s, valid_slot nbins s ->
  slot_count (lin_run mn mx nbins xs) s = Some (count_slot (lin_slot mn mx nbins) s xs).
Proof. exact lin_run_counts. Qed.
Print Assumptions C14_counts_after_history_linear.

Theorem C14_counts_after_history_log : forall b m nbins xs s, valid_slot nbins s ->
  slot_count (log_run b m nbins xs) s = Some (count_slot (log_slot b m nbins) s xs).
Proof. exact log_run_counts. Qed.
Print Assumptions C14_counts_after_history_log.

(* ---- LinearHist: x lands in bin i exactly when BinToValue(i) <= x < BinToValue(i+1) ---- *)
(* (false for conversion by truncation, D7: then x just below BinToValue(0) lands in bin 0) *)
Theorem C14_lin_bin_iff_edges : forall mn mx nbins, mn < mx -> (0 < nbins)%nat -> forall x i,
  lin_slot mn mx nbins x = SBin i <->
  (i < nbins)%nat /\
  lin_bin_to_value mn mx nbins (inject_Z (Z.of_nat i)) <= x /\
  x < lin_bin_to_value mn mx nbins (inject_Z (Z.of_nat i + 1)).
Proof. exact lin_bin_iff_edges. Qed.
Print Assumptions C14_lin_bin_iff_edges.

Theorem C14_lin_under_iff : forall mn mx nbins, mn < mx -> (0 < nbins)%nat -> forall x,
  lin_slot mn mx nbins x = SUnder <-> x < lin_bin_to_value mn mx nbins (inject_Z 0).
Proof. exact lin_under_iff. Qed.
Print Assumptions C14_lin_under_iff.

Theorem C14_lin_over_iff : forall mn mx nbins, mn < mx -> (0 < nbins)%nat -> forall x,
  lin_slot mn mx nbins x = SOver <-> lin_bin_to_value mn mx nbins (inject_Z (Z.of_nat nbins)) <= x.
Proof. exact lin_over_iff. Qed.
Print Assumptions C14_lin_over_iff.

(* the stated edges run from min to max *)
Theorem C14_lin_edges_span : forall mn mx nbins, mn < mx -> (0 < nbins)%nat ->
  lin_bin_to_value mn mx nbins (inject_Z 0) == mn /\
  lin_bin_to_value mn mx nbins (inject_Z (Z.of_nat nbins)) == mx.
Proof. exact lin_edges_span. Qed.
Print Assumptions C14_lin_edges_span.

(* BinToValue is increasing and interpolates linearly within a bin *)
Theorem C14_lin_bin_to_value_increasing : forall mn mx nbins, mn < mx -> (0 < nbins)%nat -> forall p q,
  p < q -> lin_bin_to_value mn mx nbins p < lin_bin_to_value mn mx nbins q.
Proof. exact lin_btv_increasing. Qed.
Print Assumptions C14_lin_bin_to_value_increasing.

Theorem C14_lin_interpolates : forall mn mx nbins, (0 < nbins)%nat -> forall i f,
  lin_bin_to_value mn mx nbins (i + f) ==
  lin_bin_to_value mn mx nbins i + f * (lin_bin_to_value mn mx nbins (i + 1) - lin_bin_to_value mn mx nbins i).
Proof. exact lin_interpolates. Qed.
Print Assumptions C14_lin_interpolates.

(* ---- LogHist (base b > 1, m >= 1 bins per power): BinToValue(i) = b^(i/m), so
        BinToValue(i) <= x < BinToValue(i+1)  <->  b^i <= x^m < b^(i+1) ---- *)
Theorem C14_log_bin_iff_edges : forall b m nbins, 1 < b -> (0 < m)%nat -> forall x i, 0 < x ->
  (log_slot b m nbins x = SBin i <->
   (i < nbins)%nat /\ log_edge_pow b i <= Qpow x m /\ Qpow x m < log_edge_pow b (S i)).
Proof. exact log_bin_iff_edges. Qed.
Print Assumptions C14_log_bin_iff_edges.

Theorem C14_log_under_iff : forall b m nbins, (0 < m)%nat -> forall x,
  log_slot b m nbins x = SUnder <-> x <= 0 \/ Qpow x m < 1.
Proof. exact log_under_iff. Qed.
Print Assumptions C14_log_under_iff.

Theorem C14_log_over_iff : forall b m nbins, 1 < b -> (0 < m)%nat -> forall x, 0 < x ->
  (log_slot b m nbins x = SOver <-> log_edge_pow b nbins <= Qpow x m).
Proof. exact log_over_iff. Qed.
Print Assumptions C14_log_over_iff.

(* BinToValue of a LogHist, through its defining relation v^(m*den) = b^num for the bin num/den,
   is increasing and interpolates geometrically: v = v0^(1-j/den) * v1^(j/den) *)
Theorem C14_log_bin_to_value_increasing : forall b m, 1 < b -> forall den n1 n2 v1 v2, (0 < den)%nat ->
  log_btv_rel b m n1 den v1 -> log_btv_rel b m n2 den v2 -> (n1 < n2)%nat -> v1 < v2.
Proof. exact log_btv_increasing. Qed.
Print Assumptions C14_log_bin_to_value_increasing.

Theorem C14_log_interpolates_geometrically : forall b m, (0 < m)%nat -> forall i den j v0 v1 v,
  (0 < den)%nat -> (j <= den)%nat ->
  log_btv_rel b m i 1 v0 -> log_btv_rel b m (S i) 1 v1 -> log_btv_rel b m (i * den + j) den v ->
  Qpow v den == Qpow v0 (den - j) * Qpow v1 j.
Proof. exact log_interpolates_geometrically. Qed.
Print Assumptions C14_log_interpolates_geometrically.

(* ---- HistogramQuantile ---- *)
(* [below h k] = number of samples below bin k (under-flow included).  If the g-th smallest
   sample lies in bin k, i.e. below h k < g <= below h k + c_k, the result is
   BinToValue(k + j/c_k) with j = g - below h k, its rank inside the bin. *)
Theorem C14_hist_quantile_rank : forall h g k c,
  nth_error (h_bins h) k = Some c ->
  (below h k < g <= below h k + c)%N ->
  hist_quantile_goal h g = QAt k (g - below h k) c.
Proof. exact hist_quantile_rank. Qed.
Print Assumptions C14_hist_quantile_rank.

(* conversely every non-NaN result names an existing bin holding the g-th sample, and the
   fractional bin handed to BinToValue lies inside that bin: k < k + j/c <= k+1 *)
Theorem C14_hist_quantile_inside_bin : forall h g k j c, (0 < g)%N ->
  hist_quantile_goal h g = QAt k j c ->
  nth_error (h_bins h) k = Some c /\ (1 <= j <= c)%N /\ g = (below h k + j)%N /\
  exists p, qres_pos (QAt k j c) = Some p /\ Qofnat k < p /\ p <= Qofnat k + 1.
Proof. exact hist_quantile_inside_bin. Qed.
Print Assumptions C14_hist_quantile_inside_bin.

(* NaN exactly when g = floor(q*total) is 0 or the g-th sample is in the under- or over-flow *)
Theorem C14_hist_quantile_nan_iff : forall h q, 0 <= q -> q <= 1 ->
  let g := hist_goal (h_total h) q in
  (g <= h_total h)%N /\
  (hist_quantile h q = QNaN <-> (g <= h_under h)%N \/ (h_total h - h_over h < g)%N).
Proof. exact hist_quantile_nan_iff_q. Qed.
Print Assumptions C14_hist_quantile_nan_iff.

(* never the final panic, for every counter vector and every q (false on the pinned tree, D8) *)
Theorem C14_hist_quantile_total : forall h q, hist_quantile h q <> QPanic.
Proof. exact hist_quantile_q_total. Qed.
Print Assumptions C14_hist_quantile_total.

(* non-decreasing in q, for every non-decreasing BinToValue *)
Theorem C14_hist_quantile_monotone_in_q : forall (btv : Q -> Q),
  (forall a b, a <= b -> btv a <= btv b) ->
  forall h q1 q2 v1 v2, q1 <= q2 ->
  qres_value btv (hist_quantile h q1) = Some v1 ->
  qres_value btv (hist_quantile h q2) = Some v2 -> v1 <= v2.
Proof. exact hist_quantile_monotone_in_q. Qed.
Print Assumptions C14_hist_quantile_monotone_in_q.

Theorem C14_hist_iqr_def : forall btv h a b,
  qres_value btv (hist_quantile h (3 # 4)) = Some a ->
  qres_value btv (hist_quantile h (1 # 4)) = Some b ->
  hist_iqr btv h = Some (a - b).
Proof. exact hist_iqr_def. Qed.
Print Assumptions C14_hist_iqr_def.

(* ---- non-vacuity ---- *)
(* [0,4) in 4 bins: -0.5 (just below the first edge) is UNDER, not bin 0; 4 is OVER; 3.999 bin 3 *)
Example C14_linear_example :
  let h := lin_run 0 4 4 [-(1#2); 0; 1; (3999#1000); 4; (5#2); -3; (1#2)] in
  h = mkH 2 [2; 1; 1; 1]%N 1 /\ lin_slot 0 4 4 (-(1#2)) = SUnder /\ h_total h = 8%N.
Proof. vm_compute. repeat split; reflexivity. Qed.

(* base 2, 2 bins per power, 6 bins (max 8): edges 1, sqrt2, 2, 2sqrt2, 4, 4sqrt2, 8 *)
Example C14_log_example :
  map (log_slot 2 2 6) [(3#4); 1; (7#5); (3#2); 2; 3; (28#5); 6; 8; 0; -1]
  = [SUnder; SBin 0; SBin 0; SBin 1; SBin 2; SBin 3; SBin 4; SBin 5; SOver; SUnder; SUnder]
  /\ log_nbins_ok 2 2 8 6 = true /\ log_btv_rel 2 2 2 1 2 /\ log_btv_rel 4 1 1 2 2.
Proof. vm_compute. repeat split; try reflexivity; try discriminate. Qed.

(* under 1, bins [2;0;3], over 1 (total 7): q=3/7 -> 3rd sample = 2nd of bin 0 -> position 0+2/2;
   q=4/7 -> 4th sample = 1st of bin 2 -> 2+1/3; q=1 -> over-flow -> NaN; q=1/7 -> under -> NaN *)
Example C14_quantile_example :
  let h := mkH 1 [2; 0; 3]%N 1 in
  hist_quantile h (3#7) = QAt 0 2 2 /\ hist_quantile h (4#7) = QAt 2 1 3 /\
  hist_quantile h 1 = QNaN /\ hist_quantile h (1#7) = QNaN /\ hist_quantile h (6#7) = QAt 2 3 3 /\
  hist_iqr (fun p => p) h = None /\
  match hist_iqr (fun p => p) (mkH 0 [2; 0; 3]%N 1) with Some v => v == 13 # 6 | None => False end.
Proof. vm_compute. repeat split; reflexivity. Qed.

(* ---- what a passing verdict of the correspondence comparator means (Proofs/CheckC14.v) ---- *)
(* If check_C14 accepts a case line (code 0 = ok or 1 = borderline) then the line parses, the
   construction observables are as specified ([shape_spec]: len(Counts) = nbins for a LinearHist;
   for a LogHist status 0 and max^m <= b^n, b^(n-1) < max^m for n = len(Counts), up to the
   relative window delta_log) and EVERY recorded operation satisfies [op_ok] against the
   counters tracked so far:
   - Add(x): exactly one counter changed, by exactly +1, and it is the counter the stated edges
     select ([lin_slot_spec]/[log_slot_spec]: BinToValue(i) <= x' < BinToValue(i+1), under, over)
     for x itself or - the explicit borderline window - for some x' with |x'-x| <= lin_window
     (2^-46 * |x-min| + 2^-900 bin widths), resp. on the other side of an edge b^k only if
     x^m is within relative k*2^-46 of b^k (never at the first edge);
   - BinToValue(bin): finite and within tol_lin_btv of min + bin*(max-min)/nbins, resp.
     v^(m*den) within relative 2*m*den*tol_log_v of b^num for bin = num/den (m*den <= 64,
     anything else is REJECTED);
   - HistogramQuantile(q): for a goal g in [goal_window] (floor(total*q), of its binary64
     rounding, or of total*q*(1 -/+ 2^-50)): NaN with no BinToValue call exactly when the g-th
     smallest sample is in the under-/over-flow; otherwise exactly one BinToValue call at
     bin + j/c (4 ulp), bin being the bin holding the g-th sample ([below h bin < g <= below h
     bin + c]) and j its rank in the bin, the returned value being the value of that call and
     inside the bin / interpolated ([ret_spec]); a panic is never accepted;
   - Counts(): equal to the tracked counters; HistogramIQR: status 0 and |iqr - (Q75 - Q25)| <=
     2 ulp (|Q75|+|Q25|) for the two recorded quantiles, NaN iff one of them is NaN. *)
Theorem C14_check_ok_sound : forall line c tag pos diag k h0 v0 t0 ops rest,
  check_C14 line = verdict c tag pos diag -> (c = 0 \/ c = 1)%Z ->
  p_line line = Some ((k, h0, v0, t0, ops), rest) ->
  v0 <> 2%Z /\ case_ok line k h0 v0 ops.
Proof. exact check_ok_sound. Qed.
Print Assumptions C14_check_ok_sound.

(* Code 0 (ok, not borderline): no window was used - every Add went to the counter the edges
   select for x itself, every quantile goal is floor(total*q), a LogHist has exactly
   ceil(m*log_b max) bins. *)
Theorem C14_check_ok_exact : forall line tag pos diag k h0 v0 t0 ops rest,
  check_C14 line = verdict 0 tag pos diag ->
  p_line line = Some ((k, h0, v0, t0, ops), rest) ->
  case_ok_exact line k h0 v0 ops.
Proof. exact check_ok_exact. Qed.
Print Assumptions C14_check_ok_exact.

(* Acceptance presupposes a complete parse: no line is accepted without being decoded to the end. *)
Theorem C14_check_accepts_only_parsed : forall line c tag pos diag,
  check_C14 line = verdict c tag pos diag -> (c = 0 \/ c = 1)%Z -> exists cs, p_line line = Some (cs, []).
Proof. exact check_accepts_only_parsed. Qed.
Print Assumptions C14_check_accepts_only_parsed.

(* The counters every operation is compared against: the initial ones plus, per counter, the
   number of recorded Adds whose reported index names that counter; the n-th operation is
   compared against the counters after the first n operations. *)
Theorem C14_check_tracked_counts : forall ops h s c, valid_slot (length (h_bins h)) s -> slot_count h s = Some c ->
  slot_count (final_state h ops) s = Some (c + adds_at (length (h_bins h)) s ops)%N.
Proof. exact tracked_counts. Qed.
Print Assumptions C14_check_tracked_counts.

Theorem C14_check_nth_operation : forall k ops h n op, ops_ok k h ops -> nth_error ops n = Some op ->
  op_ok k (final_state h (firstn n ops)) op.
Proof. exact ops_ok_nth. Qed.
Print Assumptions C14_check_nth_operation.

(* the edge specification used above is the one of the binning theorems *)
Theorem C14_lin_slot_spec_iff : forall mn mx nb x s, mn < mx -> (0 < nb)%nat ->
  (lin_slot mn mx nb x = s <-> lin_slot_spec mn mx nb x s).
Proof. exact lin_slot_spec_iff. Qed.
Print Assumptions C14_lin_slot_spec_iff.

Theorem C14_log_slot_spec_iff : forall b m nb x s, 1 < b -> (0 < m)%nat ->
  (log_slot b m nb x = s <-> log_slot_spec b m nb x s).
Proof. exact log_slot_spec_iff. Qed.
Print Assumptions C14_log_slot_spec_iff.

(* the goal window of C14_check_ok_sound without the Check-side rounding function: every
   admissible goal is the floor of a number within relative 2^-50 of total*q *)
Theorem C14_goal_window_close : forall total q g, goal_window total q g ->
  exists t', Qabs (t' - QofN total * q) <= eps_goal * Qabs (QofN total * q) /\ g = Qfloor t'.
Proof. exact goal_window_close. Qed.
Print Assumptions C14_goal_window_close.

(* Non-vacuity: LinearHist [0,4) in 4 bins; Add(1.5) -> bin 1; Counts; Quantile(1) -> BinToValue(2) = 2;
   BinToValue(0.5) = 0.5.  Accepted with code 0, and the line parses to the end. *)
Example C14_check_ok_example :
  let line := [14; 0; 0; 4616189618054758400; 4; 4; 4; 0; 4609434218613702656; 1; 1; 1; 3; 0; 4; 0; 1; 0; 0; 0;
               2; 4607182418800017408; 0; 1; 4611686018427387904; 4611686018427387904; 4611686018427387904;
               1; 4602678819172646912; 4602678819172646912]%Z in
  (exists tag, check_C14 line = verdict 0 tag (-1) []) /\ (exists cs, p_line line = Some (cs, [])) /\
  (* the same history with the Add reported in the neighbouring bin is rejected *)
  (exists tag pos diag, check_C14 [14; 0; 0; 4616189618054758400; 4; 4; 1; 0; 4609434218613702656; 1; 2; 1]%Z
                        = verdict 2 tag pos diag).
Proof. vm_compute. split; [eexists; reflexivity|]. split; [eexists; reflexivity|]. do 3 eexists; reflexivity. Qed.

(* Properties/C14.v — placeholder, replaced below *)
From MM Require Import Base.Num Model.Hist Proofs.Hist.
Theorem C14_incr_len : forall l i, length (incr_nth l i) = length l.
Proof. exact incr_nth_length. Qed.
Print Assumptions C14_incr_len.

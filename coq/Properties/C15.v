(* Properties/C15.v — Least squares, polynomial regression and LOESS compute the fits they define.
   ONLY statements; each is closed by [exact] of a lemma from Proofs/Fit.v. *)
From MM Require Import Base.Num Model.Fit Proofs.Fit.
Local Open Scope Q_scope.

(* The exact solver answers only with a verified solution: A.beta = b entry by entry. *)
Theorem C15_solve_checked_sound : forall A b beta, solve_checked A b = Some beta ->
  Forall2 Qeq (mat_vec A beta) b /\ length beta = length b /\ length A = length b.
Proof. exact solve_checked_sound. Qed.
Print Assumptions C15_solve_checked_sound.

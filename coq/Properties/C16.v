(* Properties/C16.v — Linear and Log scales map the domain onto [0,1] invertibly; QQ composes them.
   ONLY statements; each is closed by [exact] of a lemma from Proofs/Scale.v (rationals,
   axiom-free) or RealSpec/LogScale*.v (reals: standard-library real-number axioms). *)
From Coq Require Import Reals Qreals.
From MM Require Import Base.Num Model.Scale Proofs.Scale RealSpec.LogScale RealSpec.LogScaleModel.

(* ================= Linear: exact rational arithmetic (linear.go:33-50) ================= *)
Section Linear.
Local Open Scope Q_scope.

(* for EVERY Min <> Max — increasing, reversed, negative — and clamped or not *)
Theorem C16_linear_map_min_max : forall s, ~ l_min s == l_max s ->
  lin_map s (l_min s) == 0 /\ lin_map s (l_max s) == 1.
Proof. intros s H. split; [exact (lin_map_min s H) | exact (lin_map_max s H)]. Qed.
Print Assumptions C16_linear_map_min_max.

(* affine in x with the non-zero slope 1/(Max-Min) *)
Theorem C16_linear_affine : forall s x, ~ l_min s == l_max s -> l_clamp s = false ->
  lin_map s x == / (l_max s - l_min s) * x + - l_min s / (l_max s - l_min s) /\
  ~ / (l_max s - l_min s) == 0.
Proof. intros s x H C. split; [exact (lin_affine s x H C) | exact (lin_slope_nz s H)]. Qed.
Print Assumptions C16_linear_affine.

(* strictly monotone; increasing exactly when Min < Max, decreasing exactly when Max < Min *)
Theorem C16_linear_strict_mono : forall s x1 x2, l_clamp s = false -> x1 < x2 ->
  (l_min s < l_max s -> lin_map s x1 < lin_map s x2) /\
  (l_max s < l_min s -> lin_map s x2 < lin_map s x1) /\
  (~ l_min s == l_max s -> (lin_map s x1 < lin_map s x2 <-> l_min s < l_max s)).
Proof. intros s x1 x2 C L. split; [|split].
  - intros W. exact (lin_strict_mono_inc s x1 x2 W C L).
  - intros W. exact (lin_strict_mono_dec s x1 x2 W C L).
  - intros H. exact (lin_mono_iff s x1 x2 H C L). Qed.
Print Assumptions C16_linear_strict_mono.

(* Unmap is the inverse of Map for every x and every y: on and beyond the domain *)
Theorem C16_linear_inverse : forall s v, ~ l_min s == l_max s -> l_clamp s = false ->
  lin_unmap s (lin_map s v) == v /\ lin_map s (lin_unmap s v) == v.
Proof. intros s v H C. split; [exact (lin_unmap_map s v H C) | exact (lin_map_unmap s v H C)]. Qed.
Print Assumptions C16_linear_inverse.

(* SetClamp(true): Map is confined to [0,1], equals clamp of the unclamped Map, and is
   unchanged for x inside the domain *)
Theorem C16_linear_clamp : forall s x, ~ l_min s == l_max s ->
  (0 <= lin_map (lin_set_clamp s true) x /\ lin_map (lin_set_clamp s true) x <= 1) /\
  lin_map (lin_set_clamp s true) x = clampq (lin_map (lin_set_clamp s false) x) /\
  (lin_inside s x -> lin_map (lin_set_clamp s true) x = lin_map (lin_set_clamp s false) x).
Proof. intros s x H. split; [|split].
  - exact (lin_clamp_range (lin_set_clamp s true) x eq_refl H).
  - exact (lin_clamp_is_clamp s x H).
  - exact (lin_clamp_id_inside s x H). Qed.
Print Assumptions C16_linear_clamp.

Theorem C16_linear_degenerate : forall s x, l_min s == l_max s -> lin_map s x = 1 # 2.
Proof. exact lin_degenerate. Qed.
Print Assumptions C16_linear_degenerate.

(* ================= NewLog (log.go:36-49) ================= *)
(* accepted exactly when base >= 2 and both (finite) ends are non-zero of one sign, i.e.
   the closed range between them excludes 0; every other argument gives the RangeErr *)
Theorem C16_new_log_accepts_iff : forall (a b : Q) (base : Z),
  (exists lo hi bs, new_log (XFin a) (XFin b) base = NL_ok lo hi bs) <->
  (2 <= base)%Z /\ ((0 < a /\ 0 < b) \/ (a < 0 /\ b < 0)).
Proof. exact new_log_accepts_iff. Qed.
Print Assumptions C16_new_log_accepts_iff.

Theorem C16_new_log_result : forall a b base lo hi bs, new_log (XFin a) (XFin b) base = NL_ok lo hi bs ->
  bs = base /\ ((a <= b /\ lo = XFin a /\ hi = XFin b) \/ (b < a /\ lo = XFin b /\ hi = XFin a)).
Proof. exact new_log_result. Qed.
Print Assumptions C16_new_log_result.

(* ================= QQ, Linear -> Linear, over Q ================= *)
Theorem C16_qq_linear_inverse : forall src dst v,
  ~ l_min src == l_max src -> ~ l_min dst == l_max dst -> l_clamp src = false -> l_clamp dst = false ->
  qq_lin_unmap src dst (qq_lin_map src dst v) == v /\ qq_lin_map src dst (qq_lin_unmap src dst v) == v.
Proof. intros src dst v Hs Hd Cs Cd. split;
  [exact (qq_lin_unmap_map src dst v Hs Hd Cs Cd) | exact (qq_lin_map_unmap src dst v Hs Hd Cs Cd)]. Qed.
Print Assumptions C16_qq_linear_inverse.

(* ================= closed forms used by the correspondence check ================= *)
(* the check's exact Log.Map value is (k-i)/(j-i) for min = b^i, max = b^j, x = b^k *)
Theorem C16_log_closed_form_is_ratio : forall b neg clamp mn mx x v,
  lmap_exact b (LM_val neg clamp mn mx x) = Some v ->
  exists i j k, (2 <= b)%Z /\ mn == bpow b i /\ mx == bpow b j /\ x == bpow b k /\ i <> j /\
    exists y, y == inject_Z (k - i) / inject_Z (j - i) /\
      v = XFin (let y := if neg then 1 - y else y in if clamp then clampq y else y).
Proof. exact lmap_exact_spec. Qed.
Print Assumptions C16_log_closed_form_is_ratio.

End Linear.

(* ================= Log over the reals (log.go:51-92) ================= *)
Section LogR.
Local Open Scope R_scope.

(* Map(Min) = 0, Map(Max) = 1: positive, negative, increasing and reversed domains *)
Theorem C16_log_map_min_max : forall mn mx, valid mn mx -> mn <> mx ->
  log_mapR mn mx false mn = Some 0 /\ log_mapR mn mx false mx = Some 1.
Proof. intros mn mx V N. split; [exact (log_map_min mn mx V N) | exact (log_map_max mn mx V N)]. Qed.
Print Assumptions C16_log_map_min_max.

(* affine in ln|x| with non-zero slope *)
Theorem C16_log_affine_in_ln_abs : forall mn mx, valid mn mx -> mn <> mx ->
  exists a c, a <> 0 /\ forall x, same_sign mn x -> log_mapR mn mx false x = Some (a * ln (Rabs x) + c).
Proof. exact log_affine_in_ln_abs. Qed.
Print Assumptions C16_log_affine_in_ln_abs.

(* strictly monotone in x; increasing exactly when Min < Max *)
Theorem C16_log_strict_mono : forall mn mx x1 x2 y1 y2, valid mn mx -> mn <> mx ->
  same_sign mn x1 -> same_sign mn x2 -> x1 < x2 ->
  log_mapR mn mx false x1 = Some y1 -> log_mapR mn mx false x2 = Some y2 ->
  (mn < mx -> y1 < y2) /\ (mx < mn -> y2 < y1).
Proof. exact log_strict_mono. Qed.
Print Assumptions C16_log_strict_mono.

(* Unmap inverts Map for every x of the domain's sign (on and beyond the domain) and every y *)
Theorem C16_log_inverse : forall mn mx, valid mn mx -> mn <> mx ->
  (forall x y, same_sign mn x -> log_mapR mn mx false x = Some y -> log_unmapR mn mx y = x) /\
  (forall y, log_mapR mn mx false (log_unmapR mn mx y) = Some y).
Proof. intros mn mx V N. split.
  - intros x y S H. exact (log_unmap_map mn mx x y V N S H).
  - intros y. exact (log_map_unmap mn mx y V N). Qed.
Print Assumptions C16_log_inverse.

(* NaN exactly for zero and for values of the wrong sign *)
Theorem C16_log_nan_iff : forall mn mx c x, valid mn mx ->
  (log_mapR mn mx c x = None <-> x = 0 \/ (0 < mn /\ x < 0) \/ (mn < 0 /\ 0 < x)).
Proof. exact log_nan_iff. Qed.
Print Assumptions C16_log_nan_iff.

Theorem C16_log_degenerate : forall mn c x, mn <> 0 -> same_sign mn x -> log_mapR mn mn c x = Some (/ 2).
Proof. exact log_degenerate. Qed.
Print Assumptions C16_log_degenerate.

(* clamping: confined to [0,1], unchanged inside the domain *)
Theorem C16_log_clamp : forall mn mx x, valid mn mx -> mn <> mx ->
  (forall y, log_mapR mn mx true x = Some y -> 0 <= y <= 1) /\
  (inside mn mx x -> log_mapR mn mx true x = log_mapR mn mx false x).
Proof. intros mn mx x V N. split.
  - intros y H. exact (log_clamp_range mn mx x y V H).
  - exact (log_clamp_id_inside mn mx x V N). Qed.
Print Assumptions C16_log_clamp.

(* the decision model of Model/Scale.v (what the check runs) denotes these real functions
   on every rational input, and its closed forms are their true values *)
Theorem C16_log_model_denotes : forall s x y,
  log_mapR (Q2R (g_min s)) (Q2R (g_max s)) (g_clamp s) (Q2R x) = lmapR (log_map_dec s x) /\
  log_unmapR (Q2R (g_min s)) (Q2R (g_max s)) (Q2R y) = lunmapR (log_unmap_dec s y).
Proof. intros s x y. split; [exact (log_map_dec_R s x) | exact (log_unmap_dec_R s y)]. Qed.
Print Assumptions C16_log_model_denotes.

Theorem C16_log_closed_forms_correct : forall b s x y v w,
  (lmap_exact b (log_map_dec s x) = Some v ->
   match v with
   | XNaN => log_mapR (Q2R (g_min s)) (Q2R (g_max s)) (g_clamp s) (Q2R x) = None
   | XFin q => log_mapR (Q2R (g_min s)) (Q2R (g_max s)) (g_clamp s) (Q2R x) = Some (Q2R q)
   | XInf _ => False
   end) /\
  (lunmap_exact b 0 (log_unmap_dec s y) = Some w ->
   log_unmapR (Q2R (g_min s)) (Q2R (g_max s)) (Q2R y) = Q2R w).
Proof. intros b s x y v w. split;
  [exact (log_map_closed_form_correct b s x v) | exact (log_unmap_closed_form_correct b s y w)]. Qed.
Print Assumptions C16_log_closed_forms_correct.

(* ================= QQ over the reals: every pairing of Linear and Log ================= *)
(* QQ.Map = Dest.Unmap . Src.Map and QQ.Unmap = Src.Unmap . Dest.Map are mutual inverses,
   and QQ.Map carries the source domain onto the destination domain end to end *)
Theorem C16_qq_inverse : forall src dst, okR src -> okR dst ->
  (forall x z, inR src x -> qq_mapR src dst x = Some z -> qq_unmapR src dst z = Some x) /\
  (forall y z, inR dst y -> qq_unmapR src dst y = Some z -> qq_mapR src dst z = Some y) /\
  (forall x, inR src x -> exists z, qq_mapR src dst x = Some z /\ inR dst z).
Proof. intros src dst Hs Hd. split; [|split].
  - intros x z I H. exact (qq_unmap_map src dst x z Hs Hd I H).
  - intros y z I H. exact (qq_map_unmap src dst y z Hs Hd I H).
  - intros x I. exact (qq_map_defined src dst x Hs Hd I). Qed.
Print Assumptions C16_qq_inverse.

Theorem C16_qq_ends : forall src dst, okR src -> okR dst ->
  let '(smn, smx) := match src with LinR a b | LogR a b => (a, b) end in
  let '(dmn, dmx) := match dst with LinR a b | LogR a b => (a, b) end in
  qq_mapR src dst smn = Some dmn /\ qq_mapR src dst smx = Some dmx.
Proof. exact qq_map_ends. Qed.
Print Assumptions C16_qq_ends.

End LogR.

(* ================= non-vacuity ================= *)
Local Open Scope Q_scope.
(* a reversed, partly negative Linear domain [3, -1]; clamp on and off *)
Example C16_linear_example :
  let s := mkLin 3 (-1) false in
  map (fun x => Qred (lin_map s x)) [3; -1; 1; 5; -2] = [0; 1; 1 # 2; -1 # 2; 5 # 4] /\
  map (fun x => Qred (lin_map (lin_set_clamp s true) x)) [3; -1; 1; 5; -2] = [0; 1; 1 # 2; 0; 1] /\
  map (fun y => Qred (lin_unmap s y)) [0; 1; 1 # 2; -1 # 2; 5 # 4] = [3; -1; 1; 5; -2] /\
  lin_map (mkLin 7 7 false) 100 = 1 # 2.
Proof. vm_compute. repeat split; reflexivity. Qed.

(* NewLog: accepted, swapped, rejected for base 1, rejected for a range touching 0 *)
Example C16_new_log_example :
  new_log (XFin 1) (XFin 100) 10 = NL_ok (XFin 1) (XFin 100) 10 /\
  new_log (XFin (-1)) (XFin (-100)) 2 = NL_ok (XFin (-100)) (XFin (-1)) 2 /\
  new_log (XFin 1) (XFin 100) 1 = NL_rangeerr /\
  new_log (XFin 0) (XFin 100) 10 = NL_rangeerr /\
  new_log (XFin (-1)) (XFin 100) 10 = NL_rangeerr.
Proof. vm_compute. repeat split; reflexivity. Qed.

(* closed forms: the negative domain [-1000, -10], x = -100 maps to 1/2; wrong sign and 0 are NaN;
   Unmap(1/2) = -100; the QQ from Linear [0,4] to Log [1,16] sends 1 to 2 *)
Example C16_log_example :
  let g := mkLog (-1000) (-10) false in
  lmap_exact 10 (log_map_dec g (-100)) = Some (XFin (1 # 2)) /\
  lmap_exact 10 (log_map_dec g (-1000)) = Some (XFin 0) /\
  lmap_exact 10 (log_map_dec g 100) = Some XNaN /\
  lmap_exact 10 (log_map_dec g 0) = Some XNaN /\
  lunmap_exact 10 0 (log_unmap_dec g (1 # 2)) = Some (-100) /\
  qq_map_exact 0 2 0 (SLin (mkLin 0 4 false)) (SLog (mkLog 1 16 false)) (XFin 1) = Some (XFin 2) /\
  match qq_unmap_exact 0 2 0 (SLin (mkLin 0 4 false)) (SLog (mkLog 1 16 false)) (XFin 2) with
  | Some (XFin q) => Qred q = 1 | _ => False end.
Proof. vm_compute. repeat split; reflexivity. Qed.

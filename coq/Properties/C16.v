(* Properties/C16.v — Linear and Log scales map the domain onto [0,1] invertibly; QQ composes them.
   ONLY statements; each is closed by [exact] of a lemma from Proofs/Scale.v (rationals,
   axiom-free) or RealSpec/LogScale*.v (reals: standard-library real-number axioms). *)
From Coq Require Import Reals Qreals.
From MM Require Import Base.Num Model.Scale Proofs.Scale RealSpec.LogScale RealSpec.LogScaleModel.

(* ================= Linear: exact rational arithmetic (linear.go:33-50) ================= *)
Section Linear.
Local Open Scope Q_scope.

(* for EVERY Min <> Max — increasing, reversed, negative — and clamped or not *)
Theorem C16_linear_map_min_max : forall s, ~ l_min s == l_max s ->
  lin_map s (l_min s) == 0 /\ lin_map s (l_max s) == 1.
Proof. intros s H. split; [exact (lin_map_min s H) | exact (lin_map_max s H)]. Qed.
Print Assumptions C16_linear_map_min_max.

(* affine in x with the non-zero slope 1/(Max-Min) *)
Theorem C16_linear_affine : forall s x, ~ l_min s == l_max s -> l_clamp s = false ->
  lin_map s x == / (l_max s - l_min s) * x + - l_min s / (l_max s - l_min s) /\
  ~ / (l_max s - l_min s) == 0.
Proof. intros s x H C. split; [exact (lin_affine s x H C) | exact (lin_slope_nz s H)]. Qed.
Print Assumptions C16_linear_affine.

(* strictly monotone; increasing exactly when Min < Max, decreasing exactly when Max < Min *)
Theorem C16_linear_strict_mono : forall s x1 x2, l_clamp s = false -> x1 < x2 ->
  (l_min s < l_max s -> lin_map s x1 < lin_map s x2) /\
  (l_max s < l_min s -> lin_map s x2 < lin_map s x1) /\
  (~ l_min s == l_max s -> (lin_map s x1 < lin_map s x2 <-> l_min s < l_max s)).
Proof. intros s x1 x2 C L. split; [|split].
  - intros W. exact (lin_strict_mono_inc s x1 x2 W C L).
  - intros W. exact (lin_strict_mono_dec s x1 x2 W C L).
  - intros H. exact (lin_mono_iff s x1 x2 H C L). Qed.
Print Assumptions C16_linear_strict_mono.

(* Unmap is the inverse of Map for every x and every y: on and beyond the domain *)
Theorem C16_linear_inverse : forall s v, ~ l_min s == l_max s -> l_clamp s = false ->
  lin_unmap s (lin_map s v) == v /\ lin_map s (lin_unmap s v) == v.
Proof. intros s v H C. split; [exact (lin_unmap_map s v H C) | exact (lin_map_unmap s v H C)]. Qed.
Print Assumptions C16_linear_inverse.

(* SetClamp(true): Map is confined to [0,1], equals clamp of the unclamped Map, and is
   unchanged for x inside the domain *)
Theorem C16_linear_clamp : forall s x, ~ l_min s == l_max s ->
  (0 <= lin_map (lin_set_clamp s true) x /\ lin_map (lin_set_clamp s true) x <= 1) /\
  lin_map (lin_set_clamp s true) x = clampq (lin_map (lin_set_clamp s false) x) /\
  (lin_inside s x -> lin_map (lin_set_clamp s true) x = lin_map (lin_set_clamp s false) x).
Proof. intros s x H. split; [|split].
  - exact (lin_clamp_range (lin_set_clamp s true) x eq_refl H).
  - exact (lin_clamp_is_clamp s x H).
  - exact (lin_clamp_id_inside s x H). Qed.
Print Assumptions C16_linear_clamp.

Theorem C16_linear_degenerate : forall s x, l_min s == l_max s -> lin_map s x = 1 # 2.
Proof. exact lin_degenerate. Qed.
Print Assumptions C16_linear_degenerate.

(* ================= NewLog (log.go:36-49) ================= *)
(* accepted exactly when base >= 2 and both (finite) ends are non-zero of one sign, i.e.
   the closed range between them excludes 0; every other argument gives the RangeErr *)
Theorem C16_new_log_accepts_iff : forall (a b : Q) (base : Z),
  (exists lo hi bs, new_log (XFin a) (XFin b) base = NL_ok lo hi bs) <->
  (2 <= base)%Z /\ ((0 < a /\ 0 < b) \/ (a < 0 /\ b < 0)).
Proof. exact new_log_accepts_iff. Qed.
Print Assumptions C16_new_log_accepts_iff.

Theorem C16_new_log_result : forall a b base lo hi bs, new_log (XFin a) (XFin b) base = NL_ok lo hi bs ->
  bs = base /\ ((a <= b /\ lo = XFin a /\ hi = XFin b) \/ (b < a /\ lo = XFin b /\ hi = XFin a)).
Proof. exact new_log_result. Qed.
Print Assumptions C16_new_log_result.

(* ================= QQ, Linear -> Linear, over Q ================= *)
Theorem C16_qq_linear_inverse : forall src dst v,
  ~ l_min src == l_max src -> ~ l_min dst == l_max dst -> l_clamp src = false -> l_clamp dst = false ->
  qq_lin_unmap src dst (qq_lin_map src dst v) == v /\ qq_lin_map src dst (qq_lin_unmap src dst v) == v.
Proof. intros src dst v Hs Hd Cs Cd. split;
  [exact (qq_lin_unmap_map src dst v Hs Hd Cs Cd) | exact (qq_lin_map_unmap src dst v Hs Hd Cs Cd)]. Qed.
Print Assumptions C16_qq_linear_inverse.

(* ================= closed forms used by the correspondence check ================= *)
(* the check's exact Log.Map value is (k-i)/(j-i) for min = b^i, max = b^j, x = b^k *)
Theorem C16_log_closed_form_is_ratio : forall b neg clamp mn mx x v,
  lmap_exact b (LM_val neg clamp mn mx x) = Some v ->
  exists i j k, (2 <= b)%Z /\ mn == bpow b i /\ mx == bpow b j /\ x == bpow b k /\ i <> j /\
    exists y, y == inject_Z (k - i) / inject_Z (j - i) /\
      v = XFin (let y := if neg then 1 - y else y in if clamp then clampq y else y).
Proof. exact lmap_exact_spec. Qed.
Print Assumptions C16_log_closed_form_is_ratio.

End Linear.

(* ================= Log over the reals (log.go:51-92) ================= *)
Section LogR.
Local Open Scope R_scope.

(* Map(Min) = 0, Map(Max) = 1: positive, negative, increasing and reversed domains *)
Theorem C16_log_map_min_max : forall mn mx, valid mn mx -> mn <> mx ->
  log_mapR mn mx false mn = Some 0 /\ log_mapR mn mx false mx = Some 1.
Proof. intros mn mx V N. split; [exact (log_map_min mn mx V N) | exact (log_map_max mn mx V N)]. Qed.
Print Assumptions C16_log_map_min_max.

(* affine in ln|x| with non-zero slope *)
Theorem C16_log_affine_in_ln_abs : forall mn mx, valid mn mx -> mn <> mx ->
  exists a c, a <> 0 /\ forall x, same_sign mn x -> log_mapR mn mx false x = Some (a * ln (Rabs x) + c).
Proof. exact log_affine_in_ln_abs. Qed.
Print Assumptions C16_log_affine_in_ln_abs.

(* strictly monotone in x; increasing exactly when Min < Max *)
Theorem C16_log_strict_mono : forall mn mx x1 x2 y1 y2, valid mn mx -> mn <> mx ->
  same_sign mn x1 -> same_sign mn x2 -> x1 < x2 ->
  log_mapR mn mx false x1 = Some y1 -> log_mapR mn mx false x2 = Some y2 ->
  (mn < mx -> y1 < y2) /\ (mx < mn -> y2 < y1).
Proof. exact log_strict_mono. Qed.
Print Assumptions C16_log_strict_mono.

(* Unmap inverts Map for every x of the domain's sign (on and beyond the domain) and every y *)
Theorem C16_log_inverse : forall mn mx, valid mn mx -> mn <> mx ->
  (forall x y, same_sign mn x -> log_mapR mn mx false x = Some y -> log_unmapR mn mx y = x) /\
  (forall y, log_mapR mn mx false (log_unmapR mn mx y) = Some y).
Proof. intros mn mx V N. split.
  - intros x y S H. exact (log_unmap_map mn mx x y V N S H).
  - intros y. exact (log_map_unmap mn mx y V N). Qed.
Print Assumptions C16_log_inverse.

(* NaN exactly for zero and for values of the wrong sign *)
Theorem C16_log_nan_iff : forall mn mx c x, valid mn mx ->
  (log_mapR mn mx c x = None <-> x = 0 \/ (0 < mn /\ x < 0) \/ (mn < 0 /\ 0 < x)).
Proof. exact log_nan_iff. Qed.
Print Assumptions C16_log_nan_iff.

Theorem C16_log_degenerate : forall mn c x, mn <> 0 -> same_sign mn x -> log_mapR mn mn c x = Some (/ 2).
Proof. exact log_degenerate. Qed.
Print Assumptions C16_log_degenerate.

(* clamping: confined to [0,1], unchanged inside the domain *)
Theorem C16_log_clamp : forall mn mx x, valid mn mx -> mn <> mx ->
  (forall y, log_mapR mn mx true x = Some y -> 0 <= y <= 1) /\
  (inside mn mx x -> log_mapR mn mx true x = log_mapR mn mx false x).
Proof. intros mn mx x V N. split.
  - intros y H. exact (log_clamp_range mn mx x y V H).
  - exact (log_clamp_id_inside mn mx x V N). Qed.
Print Assumptions C16_log_clamp.

(* the decision model of Model/Scale.v (what the check runs) denotes these real functions
   on every rational input, and its closed forms are their true values *)
Theorem C16_log_model_denotes : forall s x y,
  log_mapR (Q2R (g_min s)) (Q2R (g_max s)) (g_clamp s) (Q2R x) = lmapR (log_map_dec s x) /\
  log_unmapR (Q2R (g_min s)) (Q2R (g_max s)) (Q2R y) = lunmapR (log_unmap_dec s y).
Proof. intros s x y. split; [exact (log_map_dec_R s x) | exact (log_unmap_dec_R s y)]. Qed.
Print Assumptions C16_log_model_denotes.

Theorem C16_log_closed_forms_correct : forall b s x y v w,
  (lmap_exact b (log_map_dec s x) = Some v ->
   match v with
   | XNaN => log_mapR (Q2R (g_min s)) (Q2R (g_max s)) (g_clamp s) (Q2R x) = None
   | XFin q => log_mapR (Q2R (g_min s)) (Q2R (g_max s)) (g_clamp s) (Q2R x) = Some (Q2R q)
   | XInf _ => False
   end) /\
  (lunmap_exact b 0 (log_unmap_dec s y) = Some w ->
   log_unmapR (Q2R (g_min s)) (Q2R (g_max s)) (Q2R y) = Q2R w).
Proof. intros b s x y v w. split;
  [exact (log_map_closed_form_correct b s x v) | exact (log_unmap_closed_form_correct b s y w)]. Qed.
Print Assumptions C16_log_closed_forms_correct.

(* ================= QQ over the reals: every pairing of Linear and Log ================= *)
(* QQ.Map = Dest.Unmap . Src.Map and QQ.Unmap = Src.Unmap . Dest.Map are mutual inverses,
   and QQ.Map carries the source domain onto the destination domain end to end *)
Theorem C16_qq_inverse : forall src dst, okR src -> okR dst ->
  (forall x z, inR src x -> qq_mapR src dst x = Some z -> qq_unmapR src dst z = Some x) /\
  (forall y z, inR dst y -> qq_unmapR src dst y = Some z -> qq_mapR src dst z = Some y) /\
  (forall x, inR src x -> exists z, qq_mapR src dst x = Some z /\ inR dst z).
Proof. intros src dst Hs Hd. split; [|split].
  - intros x z I H. exact (qq_unmap_map src dst x z Hs Hd I H).
  - intros y z I H. exact (qq_map_unmap src dst y z Hs Hd I H).
  - intros x I. exact (qq_map_defined src dst x Hs Hd I). Qed.
Print Assumptions C16_qq_inverse.

Theorem C16_qq_ends : forall src dst, okR src -> okR dst ->
  let '(smn, smx) := match src with LinR a b | LogR a b => (a, b) end in
  let '(dmn, dmx) := match dst with LinR a b | LogR a b => (a, b) end in
  qq_mapR src dst smn = Some dmn /\ qq_mapR src dst smx = Some dmx.
Proof. exact qq_map_ends. Qed.
Print Assumptions C16_qq_ends.

End LogR.

(* ================= non-vacuity ================= *)
Local Open Scope Q_scope.
(* a reversed, partly negative Linear domain [3, -1]; clamp on and off *)
Example C16_linear_example :
  let s := mkLin 3 (-1) false in
  map (fun x => Qred (lin_map s x)) [3; -1; 1; 5; -2] = [0; 1; 1 # 2; -1 # 2; 5 # 4] /\
  map (fun x => Qred (lin_map (lin_set_clamp s true) x)) [3; -1; 1; 5; -2] = [0; 1; 1 # 2; 0; 1] /\
  map (fun y => Qred (lin_unmap s y)) [0; 1; 1 # 2; -1 # 2; 5 # 4] = [3; -1; 1; 5; -2] /\
  lin_map (mkLin 7 7 false) 100 = 1 # 2.
Proof. vm_compute. repeat split; reflexivity. Qed.

(* NewLog: accepted, swapped, rejected for base 1, rejected for a range touching 0 *)
Example C16_new_log_example :
  new_log (XFin 1) (XFin 100) 10 = NL_ok (XFin 1) (XFin 100) 10 /\
  new_log (XFin (-1)) (XFin (-100)) 2 = NL_ok (XFin (-100)) (XFin (-1)) 2 /\
  new_log (XFin 1) (XFin 100) 1 = NL_rangeerr /\
  new_log (XFin 0) (XFin 100) 10 = NL_rangeerr /\
  new_log (XFin (-1)) (XFin 100) 10 = NL_rangeerr.
Proof. vm_compute. repeat split; reflexivity. Qed.

(* closed forms: the negative domain [-1000, -10], x = -100 maps to 1/2; wrong sign and 0 are NaN;
   Unmap(1/2) = -100; the QQ from Linear [0,4] to Log [1,16] sends 1 to 2 *)
Example C16_log_example :
  let g := mkLog (-1000) (-10) false in
  lmap_exact 10 (log_map_dec g (-100)) = Some (XFin (1 # 2)) /\
  lmap_exact 10 (log_map_dec g (-1000)) = Some (XFin 0) /\
  lmap_exact 10 (log_map_dec g 100) = Some XNaN /\
  lmap_exact 10 (log_map_dec g 0) = Some XNaN /\
  lunmap_exact 10 0 (log_unmap_dec g (1 # 2)) = Some (-100) /\
  qq_map_exact 0 2 0 (SLin (mkLin 0 4 false)) (SLog (mkLog 1 16 false)) (XFin 1) = Some (XFin 2) /\
  match qq_unmap_exact 0 2 0 (SLin (mkLin 0 4 false)) (SLog (mkLog 1 16 false)) (XFin 2) with
  | Some (XFin q) => Qred q = 1 | _ => False end.
Proof. vm_compute. repeat split; reflexivity. Qed.

(* ================= what an accepted verdict of the correspondence check means ================= *)
(* (group hF) check_C16 is a hand-written program; these theorems say that a verdict 0/1 implies
   that every observed number on the line is within the stated tolerance of the specification:
   the line parses completely into a case ([p_case16], nothing left over) and [case_ok] holds,
   i.e. (Proofs/CheckC16.v)
   - NewLog: for finite arguments the status is "nil error" exactly when base >= 2 and both ends
     are non-zero of one sign, the result then holds the ends ascending and the base; otherwise
     the status is RangeErr (non-finite arguments: the decision of log.go:36-49);
   - Linear scale: every probe's Map is within 1e-12 (1+|y|) of the affine value
     y = (x-Min)/(Max-Min) (1/2 if Min = Max), the Map after SetClamp(true) is exactly the clamp of
     it, Unmap of it within 1e-12 (|m (Max-Min)| + |Min|) of m (Max-Min) + Min, every y-probe likewise,
     and neighbouring grid values differ strictly in the direction of the domain;
   - Log scale: decision structure exactly, closed-form values to 1e-10, ends to 1e-12, inverse
     laws to 1e-9 (read over the reals in C16_log_obs_* below);
   - QQ: QQ.Map x is bit for bit Dest.Unmap (Src.Map x), within tol_qq of the exact composite
     where that is rational (always for Linear -> Linear), and QQ.Unmap (QQ.Map x) returns to x
     under the stated guard.  check_C16 has no borderline verdict (code 1 is never produced). *)
From MM Require Import Check.C16 Proofs.CheckBase Proofs.CheckC16 Proofs.CheckC16R.

Theorem C16_check_ok_sound : forall line c tag pos diag,
  check_C16 line = verdict c tag pos diag -> (c = 0 \/ c = 1)%Z ->
  exists cs, p_case16 line = Some (cs, []) /\ case_ok cs.
Proof. exact check_ok_sound. Qed.
Print Assumptions C16_check_ok_sound.

(* the check IS "parse, then compare": nothing is accepted outside [compare16] *)
Theorem C16_check_factor : forall line, check_C16 line = outC (p_case16 line).
Proof. exact check_C16_factor. Qed.
Print Assumptions C16_check_factor.

(* the specification used for Linear observations is the function C16_linear_* are about *)
Theorem C16_lin_spec_is_model : forall s x y,
  is_lin_map (l_min s) (l_max s) x y <-> y == lin_map (lin_set_clamp s false) x.
Proof. exact is_lin_map_iff. Qed.
Print Assumptions C16_lin_spec_is_model.

(* Linear, Clamp: the Map observed after SetClamp(true) is within the Map tolerance of
   clamp((x-Min)/(Max-Min)) = lin_map (lin_set_clamp s true) x  (C16_linear_clamp) *)
Theorem C16_linear_obs_clamped : forall mn mx r p, lin_probe_ok mn mx r p ->
  exists y m1, is_lin_map mn mx (p_x p) y /\ p_m1 p = XFin m1 /\ Qabs (m1 - clampq y) <= tol_lin_map y.
Proof. exact lin_probe_clamped. Qed.
Print Assumptions C16_linear_obs_clamped.

(* Linear, inverse law on the observations *)
Theorem C16_linear_obs_inverse : forall mn mx r p, ~ mn == mx -> lin_probe_ok mn mx r p ->
  exists y m u, is_lin_map mn mx (p_x p) y /\ p_m0 p = XFin m /\ p_ux p = XFin u /\
    Qabs (u - p_x p) <= tol_lin_unmap mn mx m + tol_lin_map y * Qabs (mx - mn).
Proof. exact lin_probe_inverse. Qed.
Print Assumptions C16_linear_obs_inverse.

(* QQ Linear -> Linear: every probe is compared with the exact composite *)
Theorem C16_qq_lin_lin_sound : forall ls ld bs bd p x, q_x p = XFin x ->
  qq_probe_okQ (SLin ls) (SLin ld) bs bd p ->
  exists y' o, lin_map_c ls x y' /\ q_qm p = XFin o /\
    Qabs (o - lin_unmap_spec (l_min ld) (l_max ld) y') <=
      e9 * (Qabs (y' * (l_max ld - l_min ld)) + Qabs (l_min ld) + Qabs (l_max ld - l_min ld)).
Proof. exact qq_lin_lin_sound. Qed.
Print Assumptions C16_qq_lin_lin_sound.

(* NewLog, finite arguments: the acceptance rule of the property *)
Theorem C16_newlog_obs_finite : forall a b base st rmn rmx rb,
  newlog_ok (XFin a) (XFin b) base st rmn rmx rb -> newlog_fin_ok a b base st rmn rmx rb.
Proof. exact newlog_ok_fin. Qed.
Print Assumptions C16_newlog_obs_finite.

(* Log scales, over the reals (g : the scale of the line, Clamp off as the parser builds it) *)
Theorem C16_log_obs_nan_iff : forall g b, g_clamp g = false -> forall x m0, log_map_okQ g b x m0 ->
  (log_mapR (Q2R (g_min g)) (Q2R (g_max g)) false (Q2R x) = None <-> m0 = XNaN).
Proof. exact log_obs_nan_iff. Qed.
Print Assumptions C16_log_obs_nan_iff.

Theorem C16_log_obs_value : forall g b, g_clamp g = false -> forall x m0 y, log_map_okQ g b x m0 ->
  log_mapR (Q2R (g_min g)) (Q2R (g_max g)) false (Q2R x) = Some y ->
  exists q, m0 = XFin q /\
    forall e, lmap_exact b (log_map_dec g x) = Some (XFin e) ->
      y = Q2R e /\ (Rabs (Q2R q - y) <= Q2R e10 * (1 + Rabs y))%R.
Proof. exact log_obs_value. Qed.
Print Assumptions C16_log_obs_value.

Theorem C16_log_obs_ends : forall g b, g_clamp g = false -> forall x m0, log_map_okQ g b x m0 ->
  valid (Q2R (g_min g)) (Q2R (g_max g)) -> Q2R (g_min g) <> Q2R (g_max g) ->
  (x == g_min g -> log_mapR (Q2R (g_min g)) (Q2R (g_max g)) false (Q2R x) = Some 0%R /\
                   exists q, m0 = XFin q /\ (Rabs (Q2R q - 0) <= Q2R e12)%R) /\
  (x == g_max g -> log_mapR (Q2R (g_min g)) (Q2R (g_max g)) false (Q2R x) = Some 1%R /\
                   exists q, m0 = XFin q /\ (Rabs (Q2R q - 1) <= Q2R e12)%R).
Proof. exact log_obs_ends. Qed.
Print Assumptions C16_log_obs_ends.

Theorem C16_log_obs_degenerate : forall g b, g_clamp g = false -> forall x m0, log_map_okQ g b x m0 ->
  g_min g == g_max g ->
  log_mapR (Q2R (g_min g)) (Q2R (g_max g)) false (Q2R x) = None /\ m0 = XNaN \/
  log_mapR (Q2R (g_min g)) (Q2R (g_max g)) false (Q2R x) = Some (/ 2)%R /\ exists q, m0 = XFin q /\ Q2R q = (/ 2)%R.
Proof. exact log_obs_degenerate. Qed.
Print Assumptions C16_log_obs_degenerate.

Theorem C16_log_obs_inverse : forall g, g_clamp g = false -> forall x ux y, log_unmap_of_map_okQ g x ux ->
  valid (Q2R (g_min g)) (Q2R (g_max g)) -> Q2R (g_min g) <> Q2R (g_max g) ->
  log_mapR (Q2R (g_min g)) (Q2R (g_max g)) false (Q2R x) = Some y ->
  log_unmapR (Q2R (g_min g)) (Q2R (g_max g)) y = Q2R x /\
  exists u, ux = XFin u /\
    (Rabs (Q2R u - log_unmapR (Q2R (g_min g)) (Q2R (g_max g)) y) <= Q2R e9 * Rabs (Q2R x))%R.
Proof. exact log_obs_inverse. Qed.
Print Assumptions C16_log_obs_inverse.

Theorem C16_log_obs_unmap : forall g b y uy muy, log_yprobe_okQ g b (y, uy, muy) ->
  exists u, uy = XFin u /\
    ((Q2R (g_min g) < 0)%R -> (Q2R u < 0)%R) /\ ((0 <= Q2R (g_min g))%R -> (0 < Q2R u)%R) /\
    (forall e, lunmap_exact b e12 (log_unmap_dec g y) = Some e ->
               lunmap_exact b 0 (log_unmap_dec g y) = Some e ->
       log_unmapR (Q2R (g_min g)) (Q2R (g_max g)) (Q2R y) = Q2R e /\
       (Rabs (Q2R u - log_unmapR (Q2R (g_min g)) (Q2R (g_max g)) (Q2R y)) <= Q2R e9 * Rabs (Q2R e))%R) /\
    (Q2R (g_min g) <> Q2R (g_max g) ->
       exists m, muy = XFin m /\ (Rabs (Q2R m - Q2R y) <= Q2R (tolm (SLog g)) * (1 + Rabs (Q2R y)))%R).
Proof. exact log_obs_unmap. Qed.
Print Assumptions C16_log_obs_unmap.

(* non-vacuity: real lines written by the harness on /repo (definitions and the cases they come
   from are in Proofs/CheckC16.v) are accepted, so the hypotheses of C16_check_ok_sound hold *)
Example C16_check_examples :
  check_C16 ex_line_linear = verdict 0 4289 (-1) [] /\
  check_C16 ex_line_newlog_ok = verdict 0 32768 (-1) [] /\
  check_C16 ex_line_newlog_err = verdict 0 16384 (-1) [] /\
  check_C16 ex_line_newlog_swapped = verdict 0 32832 (-1) [] /\
  check_C16 ex_line_qq_linlin = verdict 0 1537 (-1) [] /\
  check_C16 ex_line_log = verdict 0 7470 (-1) [] /\
  check_C16 ex_line_qq_linlog = verdict 0 132615 (-1) [].
Proof. vm_compute. repeat split; reflexivity. Qed.
(* ... and a line with one observation changed (Map(1) reported as 0.75 instead of 0.5) is not *)
Example C16_check_example_rejects :
  nth_error ex_line_linear 22 = Some 0x3fe0000000000000%Z /\
  exists v, check_C16 (firstn 22 ex_line_linear ++ [0x3fe8000000000000%Z] ++ skipn 23 ex_line_linear) = verdict 2 v 193 [1%Z; 2%Z].
Proof. vm_compute. split; [reflexivity|eexists; reflexivity]. Qed.

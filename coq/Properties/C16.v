(* Properties/C16.v — placeholder while the pipeline is brought up. *)
From MM Require Import Base.Num Model.Scale.
Local Open Scope Q_scope.
Theorem C16_stub : forall s y, lin_unmap s y == y * (l_max s - l_min s) + l_min s.
Proof. intros; reflexivity. Qed.
Print Assumptions C16_stub.

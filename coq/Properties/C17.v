(* Properties/C17.v — Ticks are few enough, nice, ascending, inside the domain; Nice only expands.
   ONLY statements; each is closed by [exact] of a lemma from Proofs/Ticks*.v. *)
From MM Require Import Base.Num Model.Ticks Proofs.Ticks.
Local Open Scope Z_scope.

(* ================= FindLevel (ticks.go:56-101) ================= *)
(* for EVERY ticker whose count is non-increasing on the level window, every guess and every
   TickOptions: the result is the LOWEST level of [MinLevel, MaxLevel] (or of [-1000, 1000]
   when both limits are 0) whose count is at most Max *)
Theorem C17_find_level_lowest : forall o cnt guess lo hi l,
  level_bounds o = Some (lo, hi) -> nonincreasing cnt lo hi ->
  find_level o cnt guess = FL_ok l ->
  lo <= l <= hi /\ cnt l <= o_max o /\ forall l', lo <= l' < l -> o_max o < cnt l'.
Proof. exact find_level_lowest. Qed.
Print Assumptions C17_find_level_lowest.

(* failure is reported exactly when Max < 1, or MinLevel > MaxLevel, or no level fits *)
Theorem C17_find_level_fails_iff : forall o cnt guess,
  (forall lo hi, level_bounds o = Some (lo, hi) -> nonincreasing cnt lo hi) ->
  (find_level o cnt guess = FL_fail <->
   o_max o < 1 \/ level_bounds o = None \/
   exists lo hi, level_bounds o = Some (lo, hi) /\ forall l, lo <= l <= hi -> o_max o < cnt l).
Proof. exact find_level_fails_iff. Qed.
Print Assumptions C17_find_level_fails_iff.

(* the search always terminates within the fuel the model gives it, and the starting guess
   does not influence the result *)
Theorem C17_find_level_total : forall o cnt guess, find_level o cnt guess <> FL_fuel.
Proof. exact find_level_no_fuel. Qed.
Print Assumptions C17_find_level_total.

Theorem C17_find_level_guess_irrelevant : forall o cnt g1 g2,
  (forall lo hi, level_bounds o = Some (lo, hi) -> nonincreasing cnt lo hi) ->
  find_level o cnt g1 = find_level o cnt g2.
Proof. exact find_level_guess_irrelevant. Qed.
Print Assumptions C17_find_level_guess_irrelevant.

(* non-vacuity: a step-shaped count 9 9 4 2 2 0 on levels -2..3, Max = 3: level 1 from any guess;
   with MaxLevel = 0 no level fits; Max = 0 always fails *)
Example C17_find_level_example :
  let cnt := fun l => nth (Z.to_nat (l + 2)) [9; 9; 4; 2; 2; 0] 0 in
  map (find_level (mkOpts 3 0 0) cnt) [-5; 0; 1; 2; 7] = [FL_ok 1; FL_ok 1; FL_ok 1; FL_ok 1; FL_ok 1] /\
  find_level (mkOpts 3 (-2) 0) cnt 1 = FL_fail /\
  find_level (mkOpts 0 0 0) cnt 1 = FL_fail /\
  find_level (mkOpts 3 2 1) cnt 1 = FL_fail.
Proof. vm_compute. repeat split; reflexivity. Qed.

(* Properties/C17.v — Ticks are few enough, nice, ascending, inside the domain; Nice only expands.
   ONLY statements; each is closed by [exact] of a lemma from Proofs/Ticks*.v. *)
From Coq Require Import Sorted.
From MM Require Import Base.Num Model.Ticks Proofs.Ticks Proofs.TicksLinear Proofs.TicksNice Proofs.TicksNiceRep Proofs.TicksLog Proofs.TicksLogExp Proofs.TicksLogNice Check.C17 Proofs.TicksCheck.
Local Open Scope Z_scope.

(* ================= FindLevel (ticks.go:56-101) ================= *)
(* for EVERY ticker whose count is non-increasing on the level window, every guess and every
   TickOptions: the result is the LOWEST level of [MinLevel, MaxLevel] (or of [-1000, 1000]
   when both limits are 0) whose count is at most Max *)
Theorem C17_find_level_lowest : forall o cnt guess lo hi l,
  level_bounds o = Some (lo, hi) -> nonincreasing cnt lo hi ->
  find_level o cnt guess = FL_ok l ->
  lo <= l <= hi /\ cnt l <= o_max o /\ forall l', lo <= l' < l -> o_max o < cnt l'.
Proof. exact find_level_lowest. Qed.
Print Assumptions C17_find_level_lowest.

(* failure is reported exactly when Max < 1, or MinLevel > MaxLevel, or no level fits *)
Theorem C17_find_level_fails_iff : forall o cnt guess,
  (forall lo hi, level_bounds o = Some (lo, hi) -> nonincreasing cnt lo hi) ->
  (find_level o cnt guess = FL_fail <->
   o_max o < 1 \/ level_bounds o = None \/
   exists lo hi, level_bounds o = Some (lo, hi) /\ forall l, lo <= l <= hi -> o_max o < cnt l).
Proof. exact find_level_fails_iff. Qed.
Print Assumptions C17_find_level_fails_iff.

(* the search always terminates within the fuel the model gives it, and the starting guess
   does not influence the result *)
Theorem C17_find_level_total : forall o cnt guess, find_level o cnt guess <> FL_fuel.
Proof. exact find_level_no_fuel. Qed.
Print Assumptions C17_find_level_total.

Theorem C17_find_level_guess_irrelevant : forall o cnt g1 g2,
  (forall lo hi, level_bounds o = Some (lo, hi) -> nonincreasing cnt lo hi) ->
  find_level o cnt g1 = find_level o cnt g2.
Proof. exact find_level_guess_irrelevant. Qed.
Print Assumptions C17_find_level_guess_irrelevant.

(* non-vacuity: a step-shaped count 9 9 4 2 2 0 on levels -2..3, Max = 3: level 1 from any guess;
   with MaxLevel = 0 no level fits; Max = 0 always fails *)
Example C17_find_level_example :
  let cnt := fun l => nth (Z.to_nat (l + 2)) [9; 9; 4; 2; 2; 0] 0 in
  map (find_level (mkOpts 3 0 0) cnt) [-5; 0; 1; 2; 7] = [FL_ok 1; FL_ok 1; FL_ok 1; FL_ok 1; FL_ok 1] /\
  find_level (mkOpts 3 (-2) 0) cnt 1 = FL_fail /\
  find_level (mkOpts 0 0 0) cnt 1 = FL_fail /\
  find_level (mkOpts 3 2 1) cnt 1 = FL_fail.
Proof. vm_compute. repeat split; reflexivity. Qed.

(* ================= Linear ticks (linear.go:81-150, vec.Linspace) ================= *)
Section Linear.
Local Open Scope Q_scope.

(* level -> spacing: each level's spacing is an integer multiple (x1, x2, x5 or xBase) of the
   previous level's; it is a power of the base, or 5 times a power of ten when Base = 0 *)
Theorem C17_linear_spacing : forall base eb l, lin_ebase base = Some eb ->
  (exists m : Z, (1 <= m)%Z /\ lin_spacing base eb (l + 1) == inject_Z m * lin_spacing base eb l) /\
  (lin_spacing base eb l == qpow eb (l / 2) \/ (base = 0%Z /\ lin_spacing base eb l == 5 * qpow 10 (l / 2))).
Proof. intros base eb l H. split; [exact (spacing_divides_next base eb l H) | exact (lin_spacing_form base eb l H)]. Qed.
Print Assumptions C17_linear_spacing.

(* TicksAtLevel(l) is exactly the set of integer multiples of the level's spacing inside the
   domain widened by the slack the code grants itself (1e-10 of the width), in ascending
   order, and CountTicks(l) is its length — at EVERY level *)
Theorem C17_linear_ticks_at_level : forall base eb mn mx l, lin_ebase base = Some eb -> mn <= mx ->
  (forall v, In v (lin_ticks_at base eb mn mx false l) <->
             exists k : Z, v = inject_Z k * lin_spacing base eb l /\ in_range mn mx v) /\
  StronglySorted Qlt (lin_ticks_at base eb mn mx false l) /\
  lin_count base eb mn mx false l = Z.of_nat (length (lin_ticks_at base eb mn mx false l)).
Proof. intros base eb mn mx l He Ho. split; [|split].
  - intros v. exact (lin_ticks_at_spec base eb mn mx He Ho l v).
  - exact (lin_ticks_ascending base eb mn mx He l).
  - exact (lin_count_is_length base eb mn mx He Ho l). Qed.
Print Assumptions C17_linear_ticks_at_level.

(* ticks are nested (every tick of level l+1 is a tick of level l) and therefore the count is
   non-increasing in the level, on every window *)
Theorem C17_linear_nested_and_monotone : forall base eb mn mx, lin_ebase base = Some eb -> mn <= mx ->
  (forall l v, In v (lin_ticks_at base eb mn mx false (l + 1)) ->
               exists w, In w (lin_ticks_at base eb mn mx false l) /\ w == v) /\
  (forall lo hi, nonincreasing (lin_count base eb mn mx false) lo hi).
Proof. intros base eb mn mx He Ho. split.
  - intros l v. exact (lin_ticks_nested base eb mn mx He Ho l v).
  - intros lo hi. exact (lin_count_nonincreasing base eb mn mx lo hi He Ho). Qed.
Print Assumptions C17_linear_nested_and_monotone.

(* Ticks(o) for Min < Max: major = TicksAtLevel(l), minor = TicksAtLevel(l-1) where l is the
   LOWEST level of the window with at most Max ticks (finest level that fits), so there are at
   most Max major ticks — from whatever guess the search starts *)
Theorem C17_linear_ticks : forall base mn mx o guess major minor lo hi,
  mn < mx -> level_bounds o = Some (lo, hi) ->
  lin_ticks base mn mx o guess = TR_ticks major minor ->
  exists eb l, lin_ebase base = Some eb /\ (lo <= l <= hi)%Z /\
    major = lin_ticks_at base eb mn mx false l /\ minor = lin_ticks_at base eb mn mx false (l - 1) /\
    (Z.of_nat (length major) <= o_max o)%Z /\
    forall l', (lo <= l' < l)%Z -> (o_max o < Z.of_nat (length (lin_ticks_at base eb mn mx false l')))%Z.
Proof. exact lin_ticks_correct. Qed.
Print Assumptions C17_linear_ticks.

(* ... and no ticks are returned exactly when no level of the window fits *)
Theorem C17_linear_ticks_none_iff : forall base eb mn mx o guess,
  mn < mx -> lin_ebase base = Some eb -> (1 <= o_max o)%Z ->
  (lin_ticks base mn mx o guess = TR_none <->
   level_bounds o = None \/
   exists lo hi, level_bounds o = Some (lo, hi) /\
     forall l, (lo <= l <= hi)%Z -> (o_max o < Z.of_nat (length (lin_ticks_at base eb mn mx false l)))%Z).
Proof. exact lin_ticks_none_iff. Qed.
Print Assumptions C17_linear_ticks_none_iff.

(* Nice never shrinks the domain (any options; when no level fits the domain stays), and
   moves each end by less than one spacing of the level it chose, onto a multiple of it *)
Theorem C17_linear_nice_expands : forall base mn mx o guess a b,
  lin_nice base mn mx o guess = NR_dom a b ->
  let '(smn, smx) := nice_start mn mx in a <= smn /\ smx <= b.
Proof. exact lin_nice_expands. Qed.
Print Assumptions C17_linear_nice_expands.

Theorem C17_linear_nice_adds_less_than_one_spacing : forall base eb mn mx o guess a b,
  lin_ebase base = Some eb ->
  lin_nice base mn mx o guess = NR_dom a b ->
  let '(smn, smx) := nice_start mn mx in
  (a == smn /\ b == smx) \/
  exists l, find_level o (lin_count base eb smn smx true) guess = FL_ok l /\
    let sp := lin_spacing base eb l in
    smn - a < sp /\ b - smx < sp /\
    (a == smn \/ exists k : Z, a = inject_Z k * sp) /\ (b == smx \/ exists k : Z, b = inject_Z k * sp).
Proof. exact lin_nice_adds_less_than_one_spacing. Qed.
Print Assumptions C17_linear_nice_adds_less_than_one_spacing.

(* The rounded-out tick count Nice searches with is non-increasing in the level, so "the level
   Nice picks" is the LOWEST level of the window whose rounded-out count is at most Max,
   whatever guess the search starts from *)
Theorem C17_linear_nice_count_nonincreasing : forall base eb, lin_ebase base = Some eb ->
  forall mn mx lo hi, mn < mx -> nonincreasing (lin_count base eb mn mx true) lo hi.
Proof. exact lin_count_out_nonincreasing. Qed.
Print Assumptions C17_linear_nice_count_nonincreasing.

(* NICE IS IDEMPOTENT: every domain (proper, reversed, degenerate), every base, every options
   with Max * Base <= 10^9 (Base = 10 when the field is 0), every level window, whatever the
   two starting guesses - provided the candidate ends of the level Nice chooses are finite
   float64 values in both calls (lin_nice_rep; it fails only at levels whose spacing overflows
   float64, where the model's Nice leaves such an end alone).  (Max >= 3 is not needed for this
   clause: when no level fits, the domain is left as it is both times.) *)
Theorem C17_linear_nice_idempotent : forall base eb, lin_ebase base = Some eb ->
  forall mn mx o g g2 a b, (o_max o * eb <= 10 ^ 9)%Z ->
  lin_nice_rep base mn mx o g -> lin_nice_rep base a b o g2 ->
  lin_nice base mn mx o g = NR_dom a b -> lin_nice base a b o g2 = NR_dom a b.
Proof. exact lin_nice_rep_idempotent. Qed.
Print Assumptions C17_linear_nice_idempotent.

(* AFTER NICE THE FIRST AND LAST MAJOR TICKS ARE THE NEW ENDS: whenever Nice found a level (it
   always does for Max >= 3 unless the level limits forbid it), Ticks with the same options on
   the niced domain [a, b] returns major ticks whose first is a and whose last is b - exactly
   for an end that Nice moved; an end that Nice left alone because it was within the slack
   1e-10 (Max-Min) below/above a tick (repair D10) differs from the tick by at most that slack *)
Theorem C17_linear_nice_ends_are_first_last_major : forall base eb mn mx o g g3 l a b major minor,
  lin_ebase base = Some eb -> mn < mx -> (o_max o * eb <= 10 ^ 9)%Z ->
  lin_nice_rep base mn mx o g ->
  find_level o (lin_count base eb mn mx true) g = FL_ok l ->
  lin_nice base mn mx o g = NR_dom a b ->
  lin_ticks base a b o g3 = TR_ticks major minor ->
  exists t1 rest, major = t1 :: rest /\
    0 <= t1 - a <= (mx - mn) * slack_factor /\ 0 <= b - last major t1 <= (mx - mn) * slack_factor /\
    (a < mn -> t1 == a) /\ (mx < b -> last major t1 == b).
Proof. exact lin_nice_rep_ends_are_first_last_major. Qed.
Print Assumptions C17_linear_nice_ends_are_first_last_major.

(* FOR Max >= 3 NICE ALWAYS FINDS A LEVEL: whenever the top level of the window has a spacing
   wider than the domain (with the default limits that is Base^500) *)
Theorem C17_linear_nice_finds_level_for_max_ge_3 : forall base eb mn mx o g lo hi,
  lin_ebase base = Some eb -> mn < mx -> level_bounds o = Some (lo, hi) -> (3 <= o_max o)%Z ->
  mx - mn < lin_spacing base eb hi ->
  exists l, find_level o (lin_count base eb mn mx true) g = FL_ok l.
Proof. exact lin_nice_finds_level. Qed.
Print Assumptions C17_linear_nice_finds_level_for_max_ge_3.

(* non-vacuity of the three: [0.3, 2.7], Max 4: Nice -> [0, 3] at level 0, again [0, 3];
   Ticks on [0, 3] = 0, 1, 2, 3 *)
Example C17_linear_nice_example :
  find_level (mkOpts 4 0 0) (lin_count 0 10 (3 # 10) (27 # 10) true) 5 = FL_ok 0%Z /\
  match lin_nice 0 (3 # 10) (27 # 10) (mkOpts 4 0 0) 5 with
  | NR_dom a b => lin_nice 0 a b (mkOpts 4 0 0) (-3) = NR_dom a b /\
                  match lin_ticks 0 a b (mkOpts 4 0 0) 2 with
                  | TR_ticks ma _ => map Qred ma = [0; 1; 2; 3] | _ => False end
  | _ => False end.
Proof. vm_compute. repeat split; reflexivity. Qed.

(* the representability guard: [2, 3] at level 618 (spacing 10^309, not a float64): Min moves
   to the multiple 0, Max stays (the ideal Nice would put it at 10^309) *)
Example C17_linear_nice_overflow_example :
  lin_nice 0 2 3 (mkOpts 3 618 618) 0 = NR_dom (0 * qpow 10 309) 3 /\
  lin_nice_ideal 0 2 3 (mkOpts 3 618 618) 0 = NR_dom (0 * qpow 10 309) (1 * qpow 10 309).
Proof. exact lin_nice_overflow_example. Qed.
Example C17_linear_nice_rep_example :
  lin_nice_rep 0 (3 # 10) (27 # 10) (mkOpts 4 0 0) 5 /\ lin_nice_rep 0 0 3 (mkOpts 4 0 0) (-3).
Proof. exact lin_nice_rep_example. Qed.

(* non-vacuity: [0.3, 2.7] (exact rationals), Max = 4 -> major 1, 2 at level 0, minor every 0.5;
   Nice -> [0, 3]; a domain around 0 with Max = 2 has no fitting level: Nice leaves it (D10) *)
Example C17_linear_example :
  match lin_ticks 0 (3 # 10) (27 # 10) (mkOpts 4 0 0) 5 with
  | TR_ticks ma mi => map Qred ma = [1; 2] /\ map Qred mi = [1 # 2; 1; 3 # 2; 2; 5 # 2]
  | _ => False end /\
  match lin_nice 0 (3 # 10) (27 # 10) (mkOpts 4 0 0) 5 with
  | NR_dom a b => Qred a = 0 /\ Qred b = 3 | _ => False end /\
  lin_count 0 10 (-1) 2 true 0 = 4%Z /\ lin_count 0 10 (-1) 2 true 7 = 3%Z.
Proof. vm_compute. repeat split; reflexivity. Qed.
End Linear.

(* ================= Log ticks (log.go:111-207) ================= *)
(* A Log scale's tick positions are powers of Base.  [log_exps] computes once per scale the
   interval [in_lo, in_hi] of admitted exponents (domain ends with the slack of log.go:118-128);
   level l >= 0 keeps the exponents that are multiples of 2^l, i.e. powers of Base^(2^l). *)
Section Log.
Local Open Scope Z_scope.

(* TicksAtLevel(l), l >= 0: exactly the powers Base^(n 2^l) with an admitted exponent, in
   ascending order; CountTicks(l) is its length *)
Theorem C17_log_ticks_at_level : forall b e emin emax l, 2 <= b -> le_in_lo e <= le_in_hi e + 1 -> 0 <= l ->
  (forall v, In v (log_ticks_pos b e emin emax false l) <->
             exists n, v = qpow b (n * 2 ^ l) /\ le_in_lo e <= n * 2 ^ l <= le_in_hi e) /\
  StronglySorted Qlt (log_ticks_pos b e emin emax false l) /\
  log_count e false l = Z.of_nat (length (log_ticks_pos b e emin emax false l)).
Proof. intros b e emin emax l Hb He Hl. split; [|split].
  - intros v. exact (log_ticks_pos_spec b e emin emax He l v Hl).
  - exact (log_ticks_pos_ascending b e emin emax Hb l Hl).
  - exact (log_count_is_length b e emin emax He l Hl). Qed.
Print Assumptions C17_log_ticks_at_level.

(* each level eliminates ticks of the level below, so the count is non-increasing on every
   window (levels below 0 report maxInt) *)
Theorem C17_log_nested_and_monotone : forall b e emin emax, le_in_lo e <= le_in_hi e + 1 ->
  (forall l v, 0 <= l -> In v (log_ticks_pos b e emin emax false (l + 1)) -> In v (log_ticks_pos b e emin emax false l)) /\
  (log_count e false 0 <= MAXINT -> forall lo hi, nonincreasing (log_count e false) lo hi).
Proof. intros b e emin emax He. split.
  - intros l v Hl. exact (log_ticks_nested b e emin emax He l v Hl).
  - intros H0 lo hi. exact (log_count_nonincreasing e He lo hi H0). Qed.
Print Assumptions C17_log_nested_and_monotone.

(* Ticks(o) on a positive domain Min < Max: major = TicksAtLevel(l), minor = TicksAtLevel(l-1)
   for the LOWEST level of the window with at most Max ticks *)
Theorem C17_log_ticks : forall b mn mx o major minor lo hi,
  2 <= b -> (0 < mn)%Q -> (mn < mx)%Q -> level_bounds o = Some (lo, hi) ->
  let e := log_exps b mn mx in
  le_in_lo e <= le_in_hi e + 1 -> log_count e false 0 <= MAXINT ->
  log_ticks b mn mx o = TR_ticks major minor ->
  exists l, lo <= l <= hi /\
    major = log_ticks_pos b e mn mx false l /\ minor = log_ticks_pos b e mn mx false (l - 1) /\
    log_count e false l <= o_max o /\
    (forall l', lo <= l' < l -> o_max o < log_count e false l') /\
    (0 <= l -> Z.of_nat (length major) <= o_max o).
Proof. exact log_ticks_correct. Qed.
Print Assumptions C17_log_ticks.

(* The integer logarithms behind the admitted exponents are the real-valued ones, stated with
   powers only: for every base >= 2 and every positive rational q,
   floor_log b q is THE exponent n with b^n <= q < b^(n+1)  (= floor(log_b q)), and
   ceil_log b q is THE exponent n with b^(n-1) < q <= b^n   (= ceil(log_b q)) *)
Theorem C17_floor_log_is_floor_of_log : forall b q, 2 <= b -> (0 < q)%Q ->
  ((qpow b (floor_log b q) <= q)%Q /\ (q < qpow b (floor_log b q + 1))%Q) /\
  forall n, n <= floor_log b q <-> (qpow b n <= q)%Q.
Proof. intros b q Hb Hq. split; [exact (floor_log_spec b q Hb Hq) | exact (floor_log_greatest b q Hb Hq)]. Qed.
Print Assumptions C17_floor_log_is_floor_of_log.

Theorem C17_ceil_log_is_ceil_of_log : forall b q, 2 <= b -> (0 < q)%Q ->
  ((qpow b (ceil_log b q - 1) < q)%Q /\ (q <= qpow b (ceil_log b q))%Q) /\
  forall n, ceil_log b q <= n <-> (q <= qpow b n)%Q.
Proof. intros b q Hb Hq. split; [exact (ceil_log_spec b q Hb Hq) | exact (ceil_log_least b q Hb Hq)]. Qed.
Print Assumptions C17_ceil_log_is_ceil_of_log.

Example C17_floor_ceil_log_example :
  floor_log 10 (20000 # 1) = 4 /\ ceil_log 10 (20000 # 1) = 5 /\ floor_log 10 (3 # 1000) = -3 /\ ceil_log 10 (3 # 1000) = -2 /\
  floor_log 2 (1 # 8) = -3 /\ ceil_log 2 (1 # 8) = -3 /\ floor_log 16 1 = 0 /\ ceil_log 16 1 = 0.
Proof. vm_compute. repeat split; reflexivity. Qed.

(* Nice never shrinks the domain (any sign, any options; when no level fits, or the nice
   bound would not be a positive finite float64, the end stays), and an end that moves lands
   on a power of the base *)
Theorem C17_log_nice_expands : forall b mn mx o a c, (mn <= mx)%Q ->
  log_nice b mn mx o = (a, c) -> (a <= mn /\ mx <= c)%Q.
Proof. exact log_nice_expands. Qed.
Print Assumptions C17_log_nice_expands.

Theorem C17_log_nice_ends_are_powers : forall b mn mx o a c, (0 < mn)%Q -> (mn < mx)%Q ->
  log_nice b mn mx o = (a, c) ->
  (a = mn \/ exists n, a = qpow b n /\ f64_pos_ok a = true) /\
  (c = mx \/ exists n, c = qpow b n /\ f64_pos_ok c = true).
Proof. exact log_nice_ends_are_powers. Qed.
Print Assumptions C17_log_nice_ends_are_powers.

(* The rounded-out count of a Log scale is non-increasing in the level (so Nice picks the lowest
   fitting level) whenever the rounded-out exponent interval is proper *)
Theorem C17_log_nice_count_nonincreasing : forall e, le_out_lo e < le_out_hi e ->
  forall lo hi, log_count e true 0 <= MAXINT -> nonincreasing (log_count e true) lo hi.
Proof. exact log_count_out_nonincreasing. Qed.
Print Assumptions C17_log_nice_count_nonincreasing.

(* LOG NICE IS IDEMPOTENT ON LANDED ENDS, and then the first and last major ticks are the ends:
   for a positive domain whose Nice found level l and rounded out to the exponents f 2^l, la 2^l,
   the domain [b^(f 2^l), b^(la 2^l)] - what Nice returns when both ends move onto their powers
   (or already were those powers) - is left unchanged by a second Nice, and Ticks on it starts
   at the first end and stops at the second.  (An end the repair of D10 leaves in place because
   it lies within the slack of a power is NOT covered: its slack decision is re-taken with the
   other end's new position.) *)
Theorem C17_log_nice_idempotent_on_landed_ends : forall b mn mx o l, 2 <= b -> (0 < mn)%Q -> (mn < mx)%Q ->
  let e := log_exps b mn mx in
  le_out_lo e < le_out_hi e -> log_count e true 0 <= MAXINT -> o_max o < MAXINT ->
  find_level o (log_count e true) 0 = FL_ok l ->
  let f := fst (log_first_last e true l) in let la := snd (log_first_last e true l) in
  (la * 2 ^ l - f * 2 ^ l + 1 <= MAXINT) ->
  let a := qpow b (f * 2 ^ l) in let c := qpow b (la * 2 ^ l) in
  log_nice b a c o = (a, c).
Proof. exact log_nice_fixed_on_landed_ends. Qed.
Print Assumptions C17_log_nice_idempotent_on_landed_ends.

Theorem C17_log_nice_ends_are_first_last_major : forall b mn mx o l major minor, 2 <= b -> (0 < mn)%Q -> (mn < mx)%Q ->
  let e := log_exps b mn mx in
  le_out_lo e < le_out_hi e -> log_count e true 0 <= MAXINT -> o_max o < MAXINT ->
  find_level o (log_count e true) 0 = FL_ok l ->
  let f := fst (log_first_last e true l) in let la := snd (log_first_last e true l) in
  (la * 2 ^ l - f * 2 ^ l + 1 <= MAXINT) ->
  let a := qpow b (f * 2 ^ l) in let c := qpow b (la * 2 ^ l) in
  log_ticks b a c o = TR_ticks major minor ->
  exists rest, major = a :: rest /\ last major a = c.
Proof. exact log_ticks_on_landed_ends. Qed.
Print Assumptions C17_log_nice_ends_are_first_last_major.

(* non-vacuity: [3, 20000] base 10, Max 3: level 2, exponents 0 and 8: Nice -> [1, 10^8], again
   [1, 10^8]; Ticks = 1, 10^4, 10^8 *)
Example C17_log_nice_example :
  let e := log_exps 10 3 20000 in
  le_out_lo e = 0 /\ le_out_hi e = 5 /\ find_level (mkOpts 3 0 0) (log_count e true) 0 = FL_ok 2 /\
  log_first_last e true 2 = (0, 2) /\
  log_nice 10 3 20000 (mkOpts 3 0 0) = (1%Q, 100000000%Q) /\
  log_nice 10 1 100000000 (mkOpts 3 0 0) = (1%Q, 100000000%Q) /\
  log_ticks 10 1 100000000 (mkOpts 3 0 0) = TR_ticks [1%Q; 10000%Q; 100000000%Q] [1%Q; 100%Q; 10000%Q; 1000000%Q; 100000000%Q].
Proof. vm_compute. repeat split; reflexivity. Qed.

(* non-vacuity: [3, 20000] base 10: exponents 1..4; Max = 2 -> level 1 (100, 10000), minor = level 0;
   Max = 5 -> level 0 with the 2..9 multiples as minor ticks; Nice(Max 3) -> [1, 10^8] (level 2, 3 ticks);
   negative domain mirrored; Max = 1 never fits when rounding out: domain unchanged (D10) *)
Example C17_log_example :
  log_ticks 10 3 20000 (mkOpts 2 0 0) = TR_ticks [100%Q; 10000%Q] [10%Q; 100%Q; 1000%Q; 10000%Q] /\
  match log_ticks 10 3 20000 (mkOpts 5 0 0) with
  | TR_ticks ma mi => ma = [10%Q; 100%Q; 1000%Q; 10000%Q] /\ length mi = 36%nat /\ hd 0%Q mi = (3 * 1)%Q
  | _ => False end /\
  log_nice 10 3 20000 (mkOpts 3 0 0) = (1%Q, 100000000%Q) /\
  log_nice 10 (-20000) (-3) (mkOpts 3 0 0) = ((-100000000)%Q, (-1)%Q) /\
  log_nice 10 3 20000 (mkOpts 1 0 0) = (3%Q, 20000%Q).
Proof. vm_compute. repeat split; reflexivity. Qed.
End Log.

(* ================= the check decides the model ================= *)
(* Check/C17.v runs the level search on capped count functions (so that a search that climbs
   to level 1000 stays cheap); they are extensionally equal to the model's counts, hence the
   check evaluates exactly lin_ticks, lin_nice, log_ticks and log_nice *)
Theorem C17_check_runs_the_model : forall base b mn mx o g,
  lin_ticks_gen lin_count_capped base mn mx o g = lin_ticks base mn mx o g /\
  lin_nice_gen lin_count_capped base mn mx o g = lin_nice base mn mx o g /\
  log_ticks_gen log_count_capped b mn mx o = log_ticks b mn mx o /\
  log_nice_gen log_count_capped b mn mx o = log_nice b mn mx o.
Proof. intros base b mn mx o g. split; [|split; [|split]].
  - exact (lin_ticks_capped_eq base mn mx o g).
  - exact (lin_nice_capped_eq base mn mx o g).
  - exact (log_ticks_capped_eq b mn mx o).
  - exact (log_nice_capped_eq b mn mx o). Qed.
Print Assumptions C17_check_runs_the_model.

(* ================= the slack decision of Log scales, against REAL logarithms ================= *)
(* (real-number statements: Print Assumptions shows the axioms of the standard library's reals
   and nothing else)  The three-valued decision [near] that log_exps uses in place of the float
   comparison |log big - log small| <= 1e-10 (log max - log min) encloses the real-valued rule:
   N_inside implies the two values are within the slack (with mu to spare), N_outside implies
   they are farther apart (by more than mu); only N_border - which the check counts as a
   borderline input - leaves the real-valued rule undecided.  Together with
   C17_floor_log_is_floor_of_log / C17_ceil_log_is_ceil_of_log this makes the admitted exponent
   interval of log_exps the real-valued one whenever no decision is N_border. *)
From Coq Require Import Reals Qreals.
From MM Require Import Proofs.TicksNearR.

Theorem C17_near_inside_sound : forall small big t mu : Q, (0 < small)%Q -> (small <= big)%Q -> (1 <= t)%Q ->
  near small big t mu = N_inside ->
  (ln (Q2R big / Q2R small) <= Q2R slack_factor * ln (Q2R t) - Q2R mu)%R.
Proof. exact near_inside_sound. Qed.
Print Assumptions C17_near_inside_sound.

Theorem C17_near_outside_sound : forall small big t mu : Q, (0 < small)%Q -> (small <= big)%Q -> (1 <= t)%Q ->
  near small big t mu = N_outside ->
  (Q2R slack_factor * ln (Q2R t) + Q2R mu <= ln (Q2R big / Q2R small))%R.
Proof. exact near_outside_sound. Qed.
Print Assumptions C17_near_outside_sound.

Example C17_near_example :
  near 1000 (1000 + (1 # 100000000)) 20 (1 # 1000000000000) = N_inside /\
  near 1000 1001 20 (1 # 1000000000000) = N_outside.
Proof. vm_compute. split; reflexivity. Qed.

(* ================= the comparator check_C17 is sound ================= *)
(* (helper hI-c17p; proofs in Proofs/CheckC17Base.v, CheckC17Lin.v, CheckC17Log.v, CheckC17Win.v, CheckC17.v;
   everything below is over Z/Q/lists and closed under the global context)
   WHAT AN ACCEPTED CASE LINE MEANS.  If check_C17 returns verdict code 0 (ok) or 1 (borderline) then the
   line is 17 :: kind :: rest, [rest] is decoded TO ITS END by the parser of the kind into a case cs, and
   the case predicate holds:
   kind 0 (FindLevel; the code is always 0): fl_spec - for a count table that is non-increasing on the
     level window the observed pair is (1, THE lowest level of the window whose count is at most Max) or
     (0, 0) and Max < 1 or no level of the window fits; (0, 0) when MinLevel > MaxLevel; for any table
     the pair is the result of the model's search;
   kind 1 (Linear): linear_case_ok (code 0) / linear_case_borderline (code 1);
   kind 2 (Log): the domain is one NewLog returns, and log_case_ok / log_case_borderline.
   The predicates of kinds 1 and 2 are unfolded in C17_check_meaning_scales. *)
From Coq Require Import Qround.
From MM Require Import Proofs.CheckBase Proofs.CheckC17Base Proofs.CheckC17Parse Proofs.CheckC17Lin Proofs.CheckC17Log Proofs.CheckC17Win Proofs.CheckC17WinLog Proofs.CheckC17WinCase Proofs.CheckC17WinCaseLog Proofs.CheckC17.
Section CheckSound.
Local Open Scope Z_scope.
Local Open Scope Q_scope.

Theorem C17_check_ok_sound :
  (forall line cd tag pos diag,
     check_C17 line = verdict cd tag pos diag -> (cd = 0 \/ cd = 1)%Z ->
     exists cs rest, parse_C17 line = Some cs /\
       line = (17 :: (match cs with CFind _ => 0 | CLin _ => 1 | CLog _ => 2 end) :: rest)%Z /\
       match cs with
       | CFind c => p_flcase rest = Some (c, []) /\ flcase_layout c rest
       | CLin c => p_sccase rest = Some (c, []) /\ sccase_layout c rest
       | CLog c => p_sccase rest = Some (c, []) /\ sccase_layout c rest /\ log_pre (sc_base c) (sc_mn c) (sc_mx c) = true
       end /\
       case_ok cd cs) /\
  (forall (cd : Z) (cs : c17case), case_ok cd cs <->
   (match cs with
    | CFind c => cd = 0 /\ fl_spec c
    | CLin c => (cd = 0 -> linear_case_ok c) /\ (cd = 1 -> linear_case_borderline c)
    | CLog c => log_domain (sc_base c) (sc_mn c) (sc_mx c) /\ (cd = 0 -> log_case_ok c) /\ (cd = 1 -> log_case_borderline c)
    end)%Z) /\
  (forall (base : Z) (mn mx : Q), log_domain base mn mx <->
   (2 <= base /\ (mn <= mx)%Q /\ (0 < mn * mx)%Q)%Z) /\
  (forall (c : flcase), fl_spec c <->
   (let o := fc_o c in let cnt := fc_cnt c in
    (level_bounds o = None -> fc_ok c = 0 /\ fc_lev c = 0) /\
    (forall lo hi, level_bounds o = Some (lo, hi) -> nonincreasing cnt lo hi ->
    (fc_ok c = 1 /\ lo <= fc_lev c <= hi /\ cnt (fc_lev c) <= o_max o /\ 1 <= o_max o /\
    forall l', lo <= l' < fc_lev c -> o_max o < cnt l') \/
    (fc_ok c = 0 /\ fc_lev c = 0 /\ (o_max o < 1 \/ forall l, lo <= l <= hi -> o_max o < cnt l))) /\
    (* any table, monotone or not: the model's search *)
    match find_level o cnt (fc_guess c) with
    | FL_ok l => fc_ok c = 1 /\ fc_lev c = l | FL_fail => fc_ok c = 0 /\ fc_lev c = 0 | FL_fuel => False end)%Z) /\
  (forall (tol : Q -> Q) (exp : list Q) (obs : list xreal), obs_close tol exp obs <->
   (Forall2 (fun e o => exists q, o = XFin q /\ (Qabs (q - e) <= tol e)%Q) exp obs)%Z) /\
  (forall (c : flcase) (rest : list Z), flcase_layout c rest <->
   (rest = [o_max (fc_o c); o_minlevel (fc_o c); o_maxlevel (fc_o c); fc_guess c; fc_wlo c; Z.of_nat (length (fc_vs c))]
    ++ fc_vs c ++ [fc_left c; fc_right c; fc_ok c; fc_lev c])%Z) /\
  (forall (c : sccase) (rest : list Z), sccase_layout c rest <->
   (let ob := sc_ob c in
    exists bmn bmx major minor levws bnmin bnmax bm0 bm1 bnmin2 bnmax2 major3,
    rest = [sc_base c; bmn; bmx; o_max (sc_o c); o_minlevel (sc_o c); o_maxlevel (sc_o c); so_st ob]
    ++ (Z.of_nat (length major) :: major) ++ (Z.of_nat (length minor) :: minor)
    ++ (Z.of_nat (length (so_levels ob)) :: concat levws)
    ++ [o_max (so_no ob); o_minlevel (so_no ob); o_maxlevel (so_no ob); so_nst ob; bnmin; bnmax; bm0; bm1; so_nst2 ob; bnmin2; bnmax2; so_st3 ob]
    ++ (Z.of_nat (length major3) :: major3) /\
    decode_bits bmn = XFin (sc_mn c) /\ decode_bits bmx = XFin (sc_mx c) /\
    so_major ob = map decode_bits major /\ so_minor ob = map decode_bits minor /\
    Forall2 lev_layout (so_levels ob) levws /\
    so_nmin ob = decode_bits bnmin /\ so_nmax ob = decode_bits bnmax /\ so_map0 ob = decode_bits bm0 /\ so_map1 ob = decode_bits bm1 /\
    so_nmin2 ob = decode_bits bnmin2 /\ so_nmax2 ob = decode_bits bnmax2 /\ so_major3 ob = map decode_bits major3)%Z) /\
  (forall (lv : levobs) (w : list Z), lev_layout lv w <->
   (exists bs, w = lv_level lv :: lv_count lv :: lv_st lv :: Z.of_nat (length bs) :: bs /\ lv_ticks lv = map decode_bits bs)%Z).
Proof. exact check_ok_sound_full. Qed.
Print Assumptions C17_check_ok_sound.

(* THE CASE PREDICATES OF THE SCALE KINDS, UNFOLDED.  A predicate is built from groups; a group has an
   exact comparison E (a boolean of the check), an admissible-set comparison A and the reading P of E
   stated on the observed numbers.  Code 0 (G_exact, L_exact): every P holds.  Code 1 (G_border,
   L_border): every group satisfies P or failed E and passed A (the model's outcome for one of the
   admissible roundings, Check/C17.v), no group is a mismatch; the groups without a fallback (35 never
   shrinks, 43 Map, statuses) hold as for code 0; a law on observed values (21, 40, 41, 45) may fail only
   when the group it depends on is itself not exact.
   Linear (spacing = lin_spacing, C17_linear_spacing): lin_ticks_spec - Ticks returns status 0 and: nothing
   for Max <= 0; [Min] twice for a degenerate domain; else, on the ordered domain, major within tolerance
   of THE ascending list of ALL integer multiples of the spacing inside the domain widened by 1e-10 of its
   width (lin_level_list) at the LOWEST level of the window with at most Max such multiples, minor the
   same one level below, and no ticks exactly when no level of the window fits.  lin_level_spec - with c
   the length of that list: CountTicks(l) = c up to 1000 ticks (within 2 + 1e-9 c of min(c, maxInt) beyond:
   the count is formed in float64), and TicksAtLevel(l) has status 0 and exactly c ticks, each within
   tolerance of the list (or status 3 = not called by the harness, no ticks: only where c > 1000).
   lin_nice_spec - the observed new ends are finite and within tolerance of x, y with: x <= smn, smx <= y
   (never shrinks; [smn, smx] the ordered domain, a degenerate one widened by 1/2), at THE lowest level
   whose rounded-out count is at most Max (lin_nice_level) each end moved by less than one spacing onto a
   multiple of it or not at all, and the domain unchanged when no level fits.  Laws on the observed numbers:
   21 counts non-increasing, 35 new ends outside the old, 36/37 Ticks and Nice again on the OBSERVED new
   domain, 40 second Nice leaves it (Max >= 3), 41 first/last major tick = new ends, 43 Map = 0 / 1,
   45 each end moved by at most one observed tick distance.
   Log: the same structure with log_level_ok (l >= 0: THE ascending list of the powers Base^(k 2^l) with
   an admitted exponent, negated and reversed on a negative domain, count = its length; l < 0: count
   maxInt), log_nice_spec (never shrinks; unchanged when degenerate or no level fits; on a positive domain
   each new end is the old one or a power of the base that is a positive finite float64). *)
Theorem C17_check_meaning_scales :
  (forall (c : sccase), linear_case_ok c <->
   (linear_case_gen G_exact L_exact c)%Q) /\
  (forall (c : sccase), linear_case_borderline c <->
   (linear_case_gen G_border L_border c)%Q) /\
  (forall (G : bool -> bool -> Prop -> Prop) (Lw : bool -> Prop -> Prop) (c : sccase), linear_case_gen G Lw c <->
   (match lin_ebase (sc_base c) with None => lin_badbase_ok c | Some eb => linear_some_gen G Lw c eb end)%Q) /\
  (forall (E A : bool) (P : Prop), G_exact E A P <->
   (P)%Q) /\
  (forall (amb : bool) (P : Prop), L_exact amb P <->
   (P)%Q) /\
  (forall (E A : bool) (P : Prop), G_border E A P <->
   (P \/ (E = false /\ A = true))%Q) /\
  (forall (amb : bool) (P : Prop), L_border amb P <->
   (P \/ amb = true)%Q) /\
  (forall (c : sccase), lin_badbase_ok c <->
   (let ob := sc_ob c in
    so_st ob = (if (o_max (sc_o c) <=? 0)%Z || Qeqb (sc_mn c) (sc_mx c) then 0 else 2)%Z /\
    so_nst ob = 2%Z /\ so_nst2 ob = 2%Z /\
    so_st3 ob = (if (o_max (so_no ob) <=? 0)%Z then 0 else 2)%Z)%Q) /\
  (forall (G : bool -> bool -> Prop -> Prop) (Lw : bool -> Prop -> Prop) (c : sccase) (eb : Z), linear_some_gen G Lw c eb <->
   (let ob := sc_ob c in let base := sc_base c in let mn := sc_mn c in let mx := sc_mx c in
    let o := sc_o c in let no := so_no ob in let tolv := lc_tolv c in
    exists ao bo, so_nmin ob = XFin ao /\ so_nmax ob = XFin bo /\
    let E20 := forallb (lin_level_exact base eb mn mx tolv) (so_levels ob) in
    let E30 := lin_nice_E tolv no base eb mn mx (so_nst ob) (XFin ao) (XFin bo) in
    let E36 := lin_ticks_E tolv no base eb ao bo (so_st3 ob) (so_major3 ob) None in
    let E37 := lin_nice_E tolv no base eb ao bo (so_nst2 ob) (so_nmin2 ob) (so_nmax2 ob) in
    let bl := negb E30 || negb E36 || negb E37 in
    let rep := lin_nice_rep_spec base eb no (fst (lin_start mn mx)) (snd (lin_start mn mx)) in
    (* 10: Ticks(o) *)
    G (lin_ticks_E tolv o base eb mn mx (so_st ob) (so_major ob) (Some (so_minor ob)))
    (lin_ticks_A tolv o base eb mn mx (so_st ob) (so_major ob) (Some (so_minor ob)))
    (lin_ticks_spec tolv base eb o mn mx (so_st ob) (so_major ob) (Some (so_minor ob))) /\
    (* 20: CountTicks(l), TicksAtLevel(l) for every recorded level *)
    G E20 (forallb (fun lv => lin_level_exact base eb mn mx tolv lv || lin_level_adm base eb mn mx tolv lv) (so_levels ob))
    (mn <= mx -> Forall (lin_level_spec tolv base eb mn mx) (so_levels ob)) /\
    (* 21: the observed counts are non-increasing along ascending levels *)
    Lw (negb E20) (forall l1 a b l2, so_levels ob = l1 ++ a :: b :: l2 -> (lv_level a <= lv_level b)%Z -> (lv_count b <= lv_count a)%Z) /\
    (* 30: Nice(o') *)
    G E30 (lin_nice_A tolv no base eb mn mx (so_nst ob) (XFin ao) (XFin bo))
    (lin_nice_spec tolv base eb no mn mx (so_nst ob) (XFin ao) (XFin bo)) /\
    (* 35: the observed new ends do not shrink the (ordered) domain *)
    (ao <= fst (lin_order mn mx) /\ snd (lin_order mn mx) <= bo) /\
    (* 36: Ticks(o') after Nice, on the observed new domain *)
    G E36 (lin_ticks_A tolv no base eb ao bo (so_st3 ob) (so_major3 ob) None)
    (lin_ticks_spec tolv base eb no ao bo (so_st3 ob) (so_major3 ob) None) /\
    (* 37: Nice(o') once more, on the observed new domain *)
    G E37 (lin_nice_A tolv no base eb ao bo (so_nst2 ob) (so_nmin2 ob) (so_nmax2 ob))
    (lin_nice_spec tolv base eb no ao bo (so_nst2 ob) (so_nmin2 ob) (so_nmax2 ob)) /\
    (* 40: idempotent for Max >= 3 *)
    Lw bl ((3 <= o_max no)%Z -> so_nst2 ob = 0%Z /\ exists a2 b2, so_nmin2 ob = XFin a2 /\ so_nmax2 ob = XFin b2 /\
    Qabs (a2 - ao) <= tolv ao /\ Qabs (b2 - bo) <= tolv bo) /\
    (* 41: first and last major tick after Nice are the new ends (Max >= 3, Nice found a level whose two candidate ends are finite float64) *)
    Lw bl ((3 <= o_max no)%Z -> rep -> exists f rest t0 tl, so_major3 ob = f :: rest /\ f = XFin t0 /\ last (so_major3 ob) f = XFin tl /\
    Qabs (t0 - ao) <= tolv ao /\ Qabs (tl - bo) <= tolv bo) /\
    (* 43: Map(new Min) = 0, Map(new Max) = 1 *)
    (~ ao == bo -> exists p q, so_map0 ob = XFin p /\ so_map1 ob = XFin q /\ Qabs p <= e12 /\ Qabs (q - 1) <= e12) /\
    (* 45: each end moved by at most one observed major tick spacing (Max >= 3, Nice found a level whose two candidate ends are finite float64) *)
    Lw bl ((3 <= o_max no)%Z -> rep -> exists t0 t1 rest u1 u0 rest',
    so_major3 ob = XFin t0 :: XFin t1 :: rest /\ rev (so_major3 ob) = XFin u1 :: XFin u0 :: rest' /\
    fst (lin_start mn mx) - ao <= t1 - t0 + tolv ao /\ bo - snd (lin_start mn mx) <= u1 - u0 + tolv bo))%Q) /\
  (forall (tolv : Q -> Q) (base eb : Z) (o : tickopts) (mn mx : Q) (st : Z) (major : list xreal) (minor : option (list xreal)), lin_ticks_spec tolv base eb o mn mx st major minor <->
   (st = 0%Z /\
    let a := fst (lin_order mn mx) in let b := snd (lin_order mn mx) in
    let none := major = [] /\ (forall m, minor = Some m -> m = []) in
    ((o_max o <= 0)%Z -> none) /\
    ((1 <= o_max o)%Z -> mn == mx -> obs_close tolv [mn] major /\ forall m, minor = Some m -> obs_close tolv [mn] m) /\
    ((1 <= o_max o)%Z -> ~ mn == mx ->
    a < b /\ (level_bounds o = None -> none) /\
    forall lo hi, level_bounds o = Some (lo, hi) ->
    (exists l L, (lo <= l <= hi)%Z /\ lin_level_list base eb a b l L /\ (Z.of_nat (length L) <= o_max o)%Z /\
    obs_close tolv L major /\
    (forall l' L', (lo <= l' < l)%Z -> lin_level_list base eb a b l' L' -> (o_max o < Z.of_nat (length L'))%Z) /\
    (forall m, minor = Some m -> exists Lm, lin_level_list base eb a b (l - 1) Lm /\ obs_close tolv Lm m))
    \/ (none /\ forall l L, (lo <= l <= hi)%Z -> lin_level_list base eb a b l L -> (o_max o < Z.of_nat (length L))%Z)))%Q) /\
  (forall (base eb : Z) (mn mx : Q) (l : Z) (L : list Q), lin_level_list base eb mn mx l L <->
   (StronglySorted Qlt L /\ forall v, In v L <-> exists k : Z, v = inject_Z k * lin_spacing base eb l /\ in_range mn mx v)%Q) /\
  (forall (tolv : Q -> Q) (base eb : Z) (mn mx : Q) (lv : levobs), lin_level_spec tolv base eb mn mx lv <->
   (exists L, lin_level_list base eb mn mx (lv_level lv) L /\
    let c := Z.of_nat (length L) in
    ((c <= 1000)%Z -> lv_count lv = c) /\
    ((1000 < c)%Z -> (Z.abs (lv_count lv - Z.min c MAXINT) <= 2 + c / 1000000000)%Z) /\
    ((lv_st lv = 0%Z /\ obs_close tolv L (lv_ticks lv) /\ Z.of_nat (length (lv_ticks lv)) = c)
    \/ (lv_st lv = 3%Z /\ (1000 < c)%Z /\ lv_ticks lv = [])))%Q) /\
  (forall (tolv : Q -> Q) (base eb : Z) (o : tickopts) (mn mx : Q) (st : Z) (a b : xreal), lin_nice_spec tolv base eb o mn mx st a b <->
   (st = 0%Z /\ exists ao bo x y, a = XFin ao /\ b = XFin bo /\ Qabs (ao - x) <= tolv x /\ Qabs (bo - y) <= tolv y /\
    let smn := fst (lin_start mn mx) in let smx := snd (lin_start mn mx) in
    smn < smx /\ x <= smn /\ smx <= y /\
    (forall l, lin_nice_level base eb o smn smx l ->
    let sp := lin_spacing base eb l in
    smn - x < sp /\ y - smx < sp /\
    (x == smn \/ exists k : Z, x = inject_Z k * sp) /\ (y == smx \/ exists k : Z, y = inject_Z k * sp)) /\
    ((forall l, ~ lin_nice_level base eb o smn smx l) -> x == smn /\ y == smx))%Q) /\
  (forall (base eb : Z) (o : tickopts) (smn smx : Q) (l : Z), lin_nice_level base eb o smn smx l <->
   (exists lo hi, level_bounds o = Some (lo, hi) /\ (1 <= o_max o)%Z /\ (lo <= l <= hi)%Z /\
    (lin_out_count base eb smn smx l <= o_max o)%Z /\
    forall l', (lo <= l' < l)%Z -> (o_max o < lin_out_count base eb smn smx l')%Z)%Q) /\
  (forall (base eb : Z) (mn mx : Q) (l : Z), lin_out_count base eb mn mx l =
   (let sp := lin_spacing base eb l in let sl := (mx - mn) * slack_factor in
    (Qceiling ((mx - sl) / sp) - Qfloor ((mn + sl) / sp) + 1)%Z)%Q) /\
  (forall (base eb : Z) (o : tickopts) (smn smx : Q), lin_nice_rep_spec base eb o smn smx <->
   (exists l, lin_nice_level base eb o smn smx l /\
    let sp := lin_spacing base eb l in let sl := (smx - smn) * slack_factor in
    Qabs (inject_Z (Qfloor ((smn + sl) / sp)) * sp) < qpow 2 1024 /\ Qabs (inject_Z (Qceiling ((smx - sl) / sp)) * sp) < qpow 2 1024)%Q) /\
  (forall (c : sccase), lc_tolv c =
   (let w := Qabs (sc_mx c - sc_mn c) in let w := if Qeqb w 0 then 1 else w in
    fun v : Q => e9 * Qabs v + e9 * w)%Q) /\
  (forall (c : sccase), log_case_ok c <->
   (log_case_gen G_exact L_exact c)%Q) /\
  (forall (c : sccase), log_case_borderline c <->
   (log_case_gen G_border L_border c)%Q) /\
  (forall (G : bool -> bool -> Prop -> Prop) (Lw : bool -> Prop -> Prop) (c : sccase), log_case_gen G Lw c <->
   (let ob := sc_ob c in let base := sc_base c in let mn := sc_mn c in let mx := sc_mx c in
    let o := sc_o c in let no := so_no ob in let tolv := lg_tolv in
    exists ao bo, so_nmin ob = XFin ao /\ so_nmax ob = XFin bo /\
    (* the observed new domain is a Log domain again *)
    (ao <= bo /\ 0 < ao * bo) /\
    let E20 := log_levels_E tolv base mn mx (so_levels ob) in
    let E30 := log_nice_E tolv no base mn mx (so_nst ob) (XFin ao) (XFin bo) in
    let E36 := log_ticks_E tolv no base ao bo (so_st3 ob) (so_major3 ob) None in
    let E37 := log_nice_E tolv no base ao bo (so_nst2 ob) (so_nmin2 ob) (so_nmax2 ob) in
    let bl := negb E30 || negb E36 || negb E37 in
    (* 10: Ticks(o) *)
    G (log_ticks_E tolv o base mn mx (so_st ob) (so_major ob) (Some (so_minor ob)))
    (log_ticks_A tolv o base mn mx (so_st ob) (so_major ob) (Some (so_minor ob)))
    (log_ticks_spec tolv base o mn mx (so_st ob) (so_major ob) (Some (so_minor ob))) /\
    (* 20: CountTicks(l), TicksAtLevel(l) for every recorded level *)
    G E20 (log_levels_A tolv base mn mx (so_levels ob)) (Forall (log_level_spec tolv base mn mx) (so_levels ob)) /\
    (* 21 *)
    Lw (negb E20) (forall l1 a b l2, so_levels ob = l1 ++ a :: b :: l2 -> (lv_level a <= lv_level b)%Z -> (lv_count b <= lv_count a)%Z) /\
    (* 30: Nice(o') *)
    G E30 (log_nice_A tolv no base mn mx (so_nst ob) (XFin ao) (XFin bo)) (log_nice_spec tolv base no mn mx (so_nst ob) (XFin ao) (XFin bo)) /\
    (* 35 *)
    (ao <= mn /\ mx <= bo) /\
    (* 36, 37: Ticks(o') and Nice(o') on the observed new domain *)
    G E36 (log_ticks_A tolv no base ao bo (so_st3 ob) (so_major3 ob) None) (log_ticks_spec tolv base no ao bo (so_st3 ob) (so_major3 ob) None) /\
    G E37 (log_nice_A tolv no base ao bo (so_nst2 ob) (so_nmin2 ob) (so_nmax2 ob))
    (log_nice_spec tolv base no ao bo (so_nst2 ob) (so_nmin2 ob) (so_nmax2 ob)) /\
    (* 40 *)
    Lw bl ((3 <= o_max no)%Z -> so_nst2 ob = 0%Z /\ exists a2 b2, so_nmin2 ob = XFin a2 /\ so_nmax2 ob = XFin b2 /\
    Qabs (a2 - ao) <= tolv ao /\ Qabs (b2 - bo) <= tolv bo) /\
    (* 41 *)
    Lw bl ((3 <= o_max no)%Z -> log_nice_rep_spec base no mn mx -> exists f rest t0 tl, so_major3 ob = f :: rest /\ f = XFin t0 /\
    last (so_major3 ob) f = XFin tl /\ Qabs (t0 - ao) <= tolv ao /\ Qabs (tl - bo) <= tolv bo) /\
    (* 43 *)
    (~ ao == bo -> exists p q, so_map0 ob = XFin p /\ so_map1 ob = XFin q /\ Qabs p <= e12 /\ Qabs (q - 1) <= e12) /\
    (* 45 *)
    Lw bl ((3 <= o_max no)%Z -> log_nice_rep_spec base no mn mx ->
    log_law45_spec (lf_neg mn mx) (lf_emin mn mx) (lf_emax mn mx) (lf_emin ao bo) (lf_emax ao bo) (so_major3 ob)))%Q) /\
  (forall (tolv : Q -> Q) (b : Z) (o : tickopts) (mn mx : Q) (st : Z) (major : list xreal) (minor : option (list xreal)), log_ticks_spec tolv b o mn mx st major minor <->
   (st = 0 /\
    let none := major = [] /\ (forall m, minor = Some m -> m = []) in
    (o_max o <= 0 -> none) /\
    (1 <= o_max o -> (mn == mx)%Q -> obs_close tolv [mn] major /\ forall m, minor = Some m -> obs_close tolv [mx] m) /\
    (1 <= o_max o -> ~ (mn == mx)%Q ->
    let e := log_e b mn mx in let neg := lf_neg mn mx in let emin := lf_emin mn mx in let emax := lf_emax mn mx in
    (level_bounds o = None -> none) /\
    forall lo hi, level_bounds o = Some (lo, hi) -> 2 <= b -> le_in_lo e <= le_in_hi e + 1 -> log_count e false 0 <= MAXINT ->
    (exists l L n, lo <= l <= hi /\ log_level_ok b e neg emin emax l L n /\ n <= o_max o /\ obs_close tolv L major /\
    (forall l' L' n', lo <= l' < l -> log_level_ok b e neg emin emax l' L' n' -> o_max o < n') /\
    (forall m, minor = Some m -> exists Lm nm, log_level_ok b e neg emin emax (l - 1) Lm nm /\ obs_close tolv Lm m))
    \/ (none /\ forall l L n, lo <= l <= hi -> log_level_ok b e neg emin emax l L n -> o_max o < n)))%Z) /\
  (forall (b : Z) (e : logexp) (neg : bool) (emin emax : Q) (l : Z) (L : list Q) (n : Z), log_level_ok b e neg emin emax l L n <->
   (if l <? 0 then n = MAXINT /\ L = log_ticks_at' b e neg emin emax false l
    else exists P, StronglySorted Qlt P /\
    (forall v, In v P <-> exists k, v = qpow b (k * 2 ^ l) /\ le_in_lo e <= k * 2 ^ l <= le_in_hi e) /\
    L = (if neg then neg_rev P else P) /\ n = Z.of_nat (length P))%Z) /\
  (forall (tolv : Q -> Q) (b : Z) (mn mx : Q) (lv : levobs), log_level_spec tolv b mn mx lv <->
   (let e := log_e b mn mx in
    lv_st lv = 0 /\ (0 <= lv_level lv -> le_in_lo e <= le_in_hi e + 1 -> lv_count lv = Z.of_nat (length (lv_ticks lv))) /\
    (2 <= b -> le_in_lo e <= le_in_hi e + 1 ->
    exists L n, log_level_ok b e (lf_neg mn mx) (lf_emin mn mx) (lf_emax mn mx) (lv_level lv) L n /\ lv_count lv = n /\ obs_close tolv L (lv_ticks lv)))%Z) /\
  (forall (tolv : Q -> Q) (b : Z) (o : tickopts) (mn mx : Q) (st : Z) (a c : xreal), log_nice_spec tolv b o mn mx st a c <->
   (st = 0 /\ exists ao bo x y, a = XFin ao /\ c = XFin bo /\ (Qabs (ao - x) <= tolv x)%Q /\ (Qabs (bo - y) <= tolv y)%Q /\
    let e := log_e b mn mx in
    ((mn <= mx)%Q -> (x <= mn)%Q /\ (mx <= y)%Q) /\
    ((mn == mx)%Q -> x = mn /\ y = mx) /\
    ((forall lo hi, level_bounds o = Some (lo, hi) -> nonincreasing (log_count e true) lo hi) ->
    (o_max o < 1 \/ level_bounds o = None \/
    exists lo hi, level_bounds o = Some (lo, hi) /\ forall l, lo <= l <= hi -> o_max o < log_count e true l) -> x = mn /\ y = mx) /\
    ((0 < mn)%Q -> (mn < mx)%Q ->
    (x = mn \/ exists n, x = qpow b n /\ f64_pos_ok x = true) /\ (y = mx \/ exists n, y = qpow b n /\ f64_pos_ok y = true)))%Z) /\
  (forall (b : Z) (o : tickopts) (mn mx : Q), log_nice_rep_spec b o mn mx <->
   (~ (mn == mx)%Q /\ exists lo hi l, level_bounds o = Some (lo, hi) /\ 1 <= o_max o /\
    let e := log_e b mn mx in
    nonincreasing (log_count e true) lo hi /\ lo <= l <= hi /\ log_count e true l <= o_max o /\
    (forall l', lo <= l' < l -> o_max o < log_count e true l') /\
    let f := le_out_lo e / 2 ^ l in let la := cdiv (le_out_hi e) (2 ^ l) in
    log_end_ok b (2 ^ l) f (qpow b (f * 2 ^ l)) = true /\ log_end_ok b (2 ^ l) la (qpow b (la * 2 ^ l)) = true)%Z) /\
  (forall (neg : bool) (emin emax emin3 emax3 : Q) (major3 : list xreal), log_law45_spec neg emin emax emin3 emax3 major3 <->
   (exists t, major3 = map XFin t /\
    let t' := if neg then rev (map Qopp t) else t in
    exists t0 t1 r u1 u0 r', t' = t0 :: t1 :: r /\ rev t' = u1 :: u0 :: r' /\
    emin * t0 <= emin3 * t1 * (1 + e9) /\ emax3 * u0 <= emax * u1 * (1 + e9))%Q) /\
  (forall (base : Z) (mn mx : Q), log_e base mn mx =
   (log_exps base (lf_emin mn mx) (lf_emax mn mx))%Q) /\
  (forall (mn mx : Q), lf_neg mn mx =
   (fst (fst (log_fold mn mx)))%Q) /\
  (forall (mn mx : Q), lf_emin mn mx =
   (snd (fst (log_fold mn mx)))%Q) /\
  (forall (mn mx : Q), lf_emax mn mx =
   (snd (log_fold mn mx))%Q) /\
  (lg_tolv =
   (fun v : Q => e9 * Qabs v)%Q) /\
  (* the minor ticks: TicksAtLevel(l < 0) on the folded positive domain [emin, emax] *)
  (forall b e emin emax ro l v, (2 <= b)%Z -> (l < 0)%Z ->
     (In v (log_ticks_pos b e emin emax ro l) <->
      exists k j, (le_out_lo e <= k <= le_out_hi e)%Z /\ (1 <= j <= b - 1)%Z /\ v = inject_Z j * qpow b k /\ emin <= v /\ v <= emax)) /\
  (* the hypothesis "le_in_lo e <= le_in_hi e + 1" of the Log readings holds on every Log domain *)
  (forall base mn mx, log_domain base mn mx -> (le_in_lo (log_e base mn mx) <= le_in_hi (log_e base mn mx) + 1)%Z).
Proof. exact case_meaning_scales. Qed.
Print Assumptions C17_check_meaning_scales.

(* THE BORDERLINE RULE (verdict code 1).  Linear: the admissible set is consulted only after the exact
   comparison failed; it takes each floor/ceil whose argument q is within 4e-15 (1 + |q|) of an integer n
   (near_round) either way ({n-1, n} resp. {n, n+1}).  Outside that window the admissible set is the
   singleton exact outcome: a per-level observation, Ticks(o) with its minor ticks, and Nice(o) that pass
   the admissible comparison pass the exact one when no decision is inside the window - so a borderline
   verdict of these groups never arises there (per level: for an observed count that is an int64 value), and
   a borderline per-level group names a level with a decision inside the window.  For a whole Linear case: judge_linear returns code 1 ONLY IF a decision -
   of Ticks on the ordered domain, of a per-level observation, of Nice on the start domain, of Ticks or
   Nice on the observed new domain - is inside the window.  Log: the admissible set takes each undecided (N_border) slack decision of
   log_exps either way and treats candidate minor ticks within 1e-12 of a domain end as optional; when no
   slack decision is undecided (le_amb = false) Nice, TicksAtLevel/CountTicks at levels >= 0 and Ticks
   whose levels are >= 0 (no minor ticks involved) that pass the admissible comparison pass the exact one;
   for a whole Log case: judge_log returns code 1 ONLY IF a slack decision of the given or of the observed
   new domain is undecided or minor ticks are involved (Ticks(o) at a level <= 0, a recorded level below 0,
   Ticks after Nice at a level below 0). *)
Theorem C17_check_borderline_window :
  (forall base eb mn mx tolv lv, lin_amb_level base eb mn mx false (lv_level lv) = false -> (lv_count lv <= MAXINT)%Z ->
     lin_level_adm base eb mn mx tolv lv = true -> lin_level_exact base eb mn mx tolv lv = true) /\
  (forall base eb mn mx tolv levels, (forall lv, In lv levels -> (lv_count lv <= MAXINT)%Z) ->
     forallb (lin_level_exact base eb mn mx tolv) levels = false ->
     forallb (fun lv => lin_level_exact base eb mn mx tolv lv || lin_level_adm base eb mn mx tolv lv) levels = true ->
     exists lv, In lv levels /\ lin_level_exact base eb mn mx tolv lv = false /\ lin_level_adm base eb mn mx tolv lv = true /\
                lin_amb_level base eb mn mx false (lv_level lv) = true) /\
  (forall base eb o tolv, lin_ebase base = Some eb -> forall a b major mi, a < b ->
     (forall l, lin_amb_level base eb a b false l = false) ->
     lin_ticks_adm o base eb a b tolv (lin_search o base eb a b false) major (Some mi) = true ->
     exists l, lin_search o base eb a b false = FL_ok l /\ (1 <= o_max o)%Z /\
       close_list tolv (lin_ticks_at base eb a b false l) major = true /\
       close_list tolv (lin_ticks_at base eb a b false (l - 1)) mi = true) /\
  (forall base eb o tolv, lin_ebase base = Some eb -> forall smn smx ao bo, smn < smx ->
     (forall l, lin_amb_level base eb smn smx true l = false) ->
     lin_nice_adm o base eb smn smx tolv (lin_search o base eb smn smx true) ao bo = true ->
     let xy := lin_nice_from base eb smn smx (lin_search o base eb smn smx true) in
     within (tolv (fst xy)) (fst xy) ao && within (tolv (snd xy)) (snd xy) bo = true) /\
  (forall q n, near_round q = Some n ->
     Qabs (q - inject_Z n) <= (4 # 1000000000000000) * (1 + Qabs q) /\ floor_adm q = [(n - 1)%Z; n] /\ ceil_adm q = [n; (n + 1)%Z]) /\
  (forall q, near_int q = false -> floor_adm q = [qfl q] /\ ceil_adm q = [qcl q]) /\
  (* Log: no slack decision of log_exps undecided *)
  (forall tolv o base mn mx st a b, le_amb (log_e base mn mx) = false ->
     log_nice_A tolv o base mn mx st a b = true -> log_nice_E tolv o base mn mx st a b = true) /\
  (forall base mn mx tolv lv, le_amb (log_e base mn mx) = false -> (0 <= lv_level lv)%Z ->
     existsb (log_level_adm1 base (lf_neg mn mx) (lf_emin mn mx) (lf_emax mn mx) tolv lv) (log_adm base mn mx) = true ->
     log_level_exact base (log_e base mn mx) (lf_neg mn mx) (lf_emin mn mx) (lf_emax mn mx) tolv lv = true) /\
  (forall tolv o base mn mx st major minor l, le_amb (log_e base mn mx) = false ->
     log_search o (log_e base mn mx) false = FL_ok l -> (match minor with Some _ => 1 | None => 0 end <= l)%Z ->
     log_ticks_A tolv o base mn mx st major minor = true -> log_ticks_E tolv o base mn mx st major minor = true) /\
  (* a whole Linear case: no borderline verdict without a decision inside the window *)
  (forall c t p d eb, judge_linear c = verdict 1 t p d -> lin_ebase (sc_base c) = Some eb ->
     exists ao bo, so_nmin (sc_ob c) = XFin ao /\ so_nmax (sc_ob c) = XFin bo /\
     let base := sc_base c in let mn := sc_mn c in let mx := sc_mx c in
     ~ ((forall l, lin_amb_level base eb (fst (lin_order mn mx)) (snd (lin_order mn mx)) false l = false) /\
        (forall l, lin_amb_level base eb mn mx false l = false) /\
        (forall lv, In lv (so_levels (sc_ob c)) -> (lv_count lv <= MAXINT)%Z) /\
        (forall l, lin_amb_level base eb (fst (lin_start mn mx)) (snd (lin_start mn mx)) true l = false) /\
        (forall l, lin_amb_level base eb (fst (lin_order ao bo)) (snd (lin_order ao bo)) false l = false) /\
        (forall l, lin_amb_level base eb (fst (lin_start ao bo)) (snd (lin_start ao bo)) true l = false))) /\
  (forall base eb o tolv, lin_ebase base = Some eb -> forall a b major, a < b ->
     (forall l, lin_amb_level base eb a b false l = false) ->
     lin_ticks_adm o base eb a b tolv (lin_search o base eb a b false) major None = true ->
     exists l, lin_search o base eb a b false = FL_ok l /\ (1 <= o_max o)%Z /\
       close_list tolv (lin_ticks_at base eb a b false l) major = true) /\
  (* a whole Log case: no borderline verdict without an undecided slack decision or minor ticks *)
  (forall c t p d, judge_log c = verdict 1 t p d ->
     exists ao bo, so_nmin (sc_ob c) = XFin ao /\ so_nmax (sc_ob c) = XFin bo /\
     let base := sc_base c in let mn := sc_mn c in let mx := sc_mx c in let ob := sc_ob c in
     ~ (le_amb (log_e base mn mx) = false /\ le_amb (log_e base ao bo) = false /\
        (forall l, log_search (sc_o c) (log_e base mn mx) false = FL_ok l -> (1 <= l)%Z) /\
        (forall lv, In lv (so_levels ob) -> (0 <= lv_level lv)%Z) /\
        (forall l, log_search (so_no ob) (log_e base ao bo) false = FL_ok l -> (0 <= l)%Z))).
Proof. exact borderline_window. Qed.
Print Assumptions C17_check_borderline_window.

(* Non-vacuity: real case lines (harness output on /repo; floats are IEEE-754 bit patterns) are accepted
   with code 0, a real Log line with an undecided slack decision and a real Linear line with a floor decision
   inside the window with code 1, and lines with one observed number changed are rejected. *)
End CheckSound.
Section CheckExamples.
Local Open Scope Z_scope.
Example C17_check_ok_examples :
  let ok line := exists tag, check_C17 line = verdict 0 tag (-1) [] in
  let border line := exists tag pos, check_C17 line = verdict 1 tag pos [] in
  let bad line := exists tag pos diag, check_C17 line = verdict 2 tag pos diag in
  (* FindLevel: table 9 9 4 2 2 0 on levels -2..3, Max 3: (ok, level) = (1, 1) *)
  ok [17; 0; 3; 0; 0; 0; -2; 6; 9; 9; 4; 2; 2; 0; 9; 0; 1; 1] /\
  (* ... reported level 2 *)
  bad [17; 0; 3; 0; 0; 0; -2; 6; 9; 9; 4; 2; 2; 0; 9; 0; 1; 2] /\
  (* ... reported failure *)
  bad [17; 0; 3; 0; 0; 0; -2; 6; 9; 9; 4; 2; 2; 0; 9; 0; 0; 0] /\
  (* Linear [0.3, 2.7] Max 4, levels -2..3: major 1 2, minor 0.5 .. 2.5, levels 0 and 1, Nice -> [0, 3], Ticks after Nice 0 1 2 3 *)
  ok [17; 1; 0; 4599075939470750515; 4613262278296967578; 4; -2; 3; 0; 2; 4607182418800017408; 4611686018427387904; 5; 4602678819172646912; 
      4607182418800017408; 4609434218613702656; 4611686018427387904; 4612811918334230528; 2; 0; 2; 0; 2; 4607182418800017408; 4611686018427387904; 1; 0; 0; 
      0; 4; -2; 3; 0; 0; 4613937818241073152; 0; 4607182418800017408; 0; 0; 4613937818241073152; 0; 4; 0; 4607182418800017408; 4611686018427387904; 
      4613937818241073152] /\
  (* ... major tick 2 reported as 2.5 *)
  bad [17; 1; 0; 4599075939470750515; 4613262278296967578; 4; -2; 3; 0; 2; 4607182418800017408; 4612811918334230528; 5; 4602678819172646912; 
      4607182418800017408; 4609434218613702656; 4611686018427387904; 4612811918334230528; 2; 0; 2; 0; 2; 4607182418800017408; 4611686018427387904; 1; 0; 0; 
      0; 4; -2; 3; 0; 0; 4613937818241073152; 0; 4607182418800017408; 0; 0; 4613937818241073152; 0; 4; 0; 4607182418800017408; 4611686018427387904; 
      4613937818241073152] /\
  (* ... Nice reported [0, 4] *)
  bad [17; 1; 0; 4599075939470750515; 4613262278296967578; 4; -2; 3; 0; 2; 4607182418800017408; 4611686018427387904; 5; 4602678819172646912; 
      4607182418800017408; 4609434218613702656; 4611686018427387904; 4612811918334230528; 2; 0; 2; 0; 2; 4607182418800017408; 4611686018427387904; 1; 0; 0; 
      0; 4; -2; 3; 0; 0; 4616189618054758400; 0; 4607182418800017408; 0; 0; 4613937818241073152; 0; 4; 0; 4607182418800017408; 4611686018427387904; 
      4613937818241073152] /\
  (* ... CountTicks(0) reported as 3 *)
  bad [17; 1; 0; 4599075939470750515; 4613262278296967578; 4; -2; 3; 0; 2; 4607182418800017408; 4611686018427387904; 5; 4602678819172646912; 
      4607182418800017408; 4609434218613702656; 4611686018427387904; 4612811918334230528; 2; 0; 3; 0; 2; 4607182418800017408; 4611686018427387904; 1; 0; 0; 
      0; 4; -2; 3; 0; 0; 4613937818241073152; 0; 4607182418800017408; 0; 0; 4613937818241073152; 0; 4; 0; 4607182418800017408; 4611686018427387904; 
      4613937818241073152] /\
  (* Linear with Base = 1: Ticks, Nice, Nice, Ticks all panic *)
  ok [17; 1; 1; 13815962792862112832; 0; 2; 0; 0; 2; 0; 0; 0; 2; 0; 0; 2; 0; 0; 4607182418800017408; 4607182418800017408; 2; 0; 0; 2; 0] /\
  (* Log base 10 [3, 20000] Max 3: major 100 10000, minor 10 .. 10000, Nice -> [1, 1e8] *)
  ok [17; 2; 10; 4613937818241073152; 4671226772094713856; 3; 0; 0; 0; 2; 4636737291354636288; 4666723172467343360; 4; 4621819117588971520; 
      4636737291354636288; 4652007308841189376; 4666723172467343360; 2; 0; 4; 0; 4; 4621819117588971520; 4636737291354636288; 4652007308841189376; 
      4666723172467343360; 1; 2; 0; 2; 4636737291354636288; 4666723172467343360; 3; 0; 0; 0; 4607182418800017408; 4726483295884279808; 0; 
      4607182418800017408; 0; 4607182418800017408; 4726483295884279808; 0; 3; 4607182418800017408; 4666723172467343360; 4726483295884279808] /\
  (* ... Nice reported [1, 1e7] *)
  bad [17; 2; 10; 4613937818241073152; 4671226772094713856; 3; 0; 0; 0; 2; 4636737291354636288; 4666723172467343360; 4; 4621819117588971520; 
      4636737291354636288; 4652007308841189376; 4666723172467343360; 2; 0; 4; 0; 4; 4621819117588971520; 4636737291354636288; 4652007308841189376; 
      4666723172467343360; 1; 2; 0; 2; 4636737291354636288; 4666723172467343360; 3; 0; 0; 0; 4607182418800017408; 4711630319722168320; 0; 
      4607182418800017408; 0; 4607182418800017408; 4726483295884279808; 0; 3; 4607182418800017408; 4666723172467343360; 4726483295884279808] /\
  (* ... first major tick 10 instead of 100 *)
  bad [17; 2; 10; 4613937818241073152; 4671226772094713856; 3; 0; 0; 0; 2; 4621819117588971520; 4666723172467343360; 4; 4621819117588971520; 
      4636737291354636288; 4652007308841189376; 4666723172467343360; 2; 0; 4; 0; 4; 4621819117588971520; 4636737291354636288; 4652007308841189376; 
      4666723172467343360; 1; 2; 0; 2; 4636737291354636288; 4666723172467343360; 3; 0; 0; 0; 4607182418800017408; 4726483295884279808; 0; 
      4607182418800017408; 0; 4607182418800017408; 4726483295884279808; 0; 3; 4607182418800017408; 4666723172467343360; 4726483295884279808] /\
  (* Linear [0, 1/(1+1e-10)] Max 8, levels -2..3: (max + slack)/spacing is within 1e-16 of the integer 1 (resp. 2, 10), the float floor lands on the other side: accepted as borderline *)
  border [17; 1; 0; 0; 4607182418799116688; 8; -2; 3; 0; 3; 0; 4602678819172646912; 4607182418800017408; 11; 0; 4591870180066957722; 4596373779694328218; 
      4599075939470750515; 4600877379321698714; 4602678819172646912; 4603579539098121011; 4604480259023595110; 4605380978949069210; 4606281698874543309; 
      4607182418800017408; 1; 0; 2; 0; 2; 0; 4607182418800017408; 8; -2; 3; 0; 0; 4607182418800017408; 0; 4607182418800017408; 0; 0; 4607182418800017408; 
      0; 3; 0; 4602678819172646912; 4607182418800017408] /\
  (* Log base 10 [-0.08, -0.007], a slack decision of log_exps undecided: accepted as borderline *)
  border [17; 2; 10; 13813801065040974971; 13798092509540706681; 7; -1; -2; 0; 0; 0; 5; -1; 9223372036854775807; 0; 11; 13813801065040974971; 
      13813080489100595692; 13812179769175121593; 13810738617294363034; 13809297465413604475; 13807676169547751096; 13804793865786233979; 
      13800290266158863483; 13799713805406560060; 13799137344654256636; 13798092509540706681; 0; 1; 0; 1; 13800290266158863483; 1; 1; 0; 1; 
      13800290266158863483; 2; 0; 0; 0; 3; 0; 0; 0; 7; -1; -2; 0; 13813801065040974971; 13798092509540706681; 0; 4607182418800017408; 0; 
      13813801065040974971; 13798092509540706681; 0; 0].
Proof.
  cbv zeta. repeat split; vm_compute; repeat eexists.
Qed.
End CheckExamples.

(* ================= Log Nice with an end LEFT IN PLACE by the repair of D10 ================= *)
(* (helper hM-c17; proofs in Proofs/TicksLogNice2.v)
   For a positive Log domain emin < emax whose Nice found level l and the candidate ends
   nmn = b^(f 2^l), nmx = b^(la 2^l): mvlo / mvhi say whether Nice moved the lower / upper end
   (log.go:233, 236: outwards only, and only to a positive finite float64 power), [a, c] is the
   niced domain.  HYPOTHESES about an end that was LEFT IN PLACE (none about an end that moved):
   its rounding-out decision was N_inside (the end lies within the slack of the power next to it),
   and that three-valued decision, re-taken for the niced domain - with the other end's new
   position in the ratio t and in mu - is not N_border ([decided]; first conjunct: this follows
   from le_amb (log_exps b a c) = false, i.e. the check does not call the niced domain borderline).
   Then  log_nice b emin emax o = (a, c)  and  Nice is IDEMPOTENT: log_nice b a c o = (a, c);
   and if the candidate of an unmoved end lies strictly beyond it (the D10 situation: the end is
   just inside the power), the first / last major tick of Ticks on [a, c] is nmn / nmx: the new
   end itself for an end that moved, the power that the unmoved end is within the slack of
   (N_inside for the niced domain) otherwise.
   The hypothesis [decided] cannot be dropped IN THE MODEL: the re-taken decision can come out
   N_border (mu depends on the bit lengths of the ends, so it is not monotone in the domain), the
   model treats N_border as "not inside" and its second Nice then moves the end
   (C17_log_nice_model_not_idempotent_refuted; the Go code is idempotent on that input, and the
   check accepts either outcome there because le_amb = true).
   Last conjunct: for idempotence alone it is enough that the rounding-out decision of every
   unmoved end selects the same exponent for the niced domain, whatever the decision was. *)
From MM Require Import Proofs.TicksLogNice2.
Section LogNiceUnmoved.
Local Open Scope Z_scope.
Theorem C17_log_nice_idempotent_with_unmoved_end : forall b emin emax o l, 2 <= b -> (0 < emin)%Q -> (emin < emax)%Q ->
  let e := log_exps b emin emax in
  le_out_lo e < le_out_hi e -> log_count e true 0 <= MAXINT -> o_max o < MAXINT ->
  find_level o (log_count e true) 0 = FL_ok l ->
  let f := fst (log_first_last e true l) in let la := snd (log_first_last e true l) in
  (la * 2 ^ l - f * 2 ^ l + 1 <= MAXINT) ->
  let nmn := qpow b (f * 2 ^ l) in let nmx := qpow b (la * 2 ^ l) in
  let mvlo := log_end_ok b (2 ^ l) f nmn && Qleb nmn emin in
  let mvhi := log_end_ok b (2 ^ l) la nmx && Qleb emax nmx in
  let a := if mvlo then nmn else emin in let c := if mvhi then nmx else emax in
  let decided :=
    (mvlo = false -> near emin (qpow b (ceil_log b emin)) (c / a) (log_mu a c) <> N_border) /\
    (mvhi = false -> near (qpow b (floor_log b emax)) emax (c / a) (log_mu a c) <> N_border) in
  (le_amb (log_exps b a c) = false -> decided) /\
  ((mvlo = false -> near emin (qpow b (ceil_log b emin)) (emax / emin) (log_mu emin emax) = N_inside) ->
   (mvhi = false -> near (qpow b (floor_log b emax)) emax (emax / emin) (log_mu emin emax) = N_inside) ->
   decided ->
   log_nice b emin emax o = (a, c) /\ log_nice b a c o = (a, c) /\
   ((mvlo = false -> Qleb nmn emin = false) -> (mvhi = false -> Qleb emax nmx = false) ->
    forall major minor, log_ticks b a c o = TR_ticks major minor ->
    (exists rest, major = nmn :: rest) /\ (forall d, last major d = nmx) /\
    (mvlo = true -> a = nmn) /\ (mvhi = true -> c = nmx) /\
    (mvlo = false -> a = emin /\ near a nmn (c / a) (log_mu a c) = N_inside) /\
    (mvhi = false -> c = emax /\ near nmx c (c / a) (log_mu a c) = N_inside))) /\
  (* idempotence alone: it is enough that the rounding-out decision of each unmoved end selects the
     same exponent for the niced domain (whatever the decision was) *)
  ((mvlo = false -> isin3 (near emin (qpow b (ceil_log b emin)) (c / a) (log_mu a c)) =
                    isin3 (near emin (qpow b (ceil_log b emin)) (emax / emin) (log_mu emin emax))) ->
   (mvhi = false -> isin3 (near (qpow b (floor_log b emax)) emax (c / a) (log_mu a c)) =
                    isin3 (near (qpow b (floor_log b emax)) emax (emax / emin) (log_mu emin emax))) ->
   log_nice b emin emax o = (a, c) /\ log_nice b a c o = (a, c)).
Proof. exact log_nice_idempotent_with_unmoved_end. Qed.
Print Assumptions C17_log_nice_idempotent_with_unmoved_end.

(* non-vacuity, lower end left in place: [10 (1 - 1e-12), 2000] base 10, Max 4: level 0, candidates
   10 (> emin: stays, decision N_inside) and 10^4 (moves); the niced domain has no undecided
   decision; Nice again: the same; Ticks: 10 .. 10^4.  Mirrored: [3, 1000 (1 + 1e-12)]. *)
Example C17_log_nice_unmoved_end_example :
  let emin := (999999999999 # 100000000000)%Q in let o := mkOpts 4 0 0 in
  let e := log_exps 10 emin 2000 in
  le_out_lo e < le_out_hi e /\ find_level o (log_count e true) 0 = FL_ok 0 /\ log_first_last e true 0 = (1, 4) /\
  log_end_ok 10 1 1 10 && Qleb 10 emin = false /\ Qleb 10 emin = false /\
  log_end_ok 10 1 4 10000 && Qleb 2000 10000 = true /\
  near emin (qpow 10 (ceil_log 10 emin)) (2000 / emin) (log_mu emin 2000) = N_inside /\
  le_amb (log_exps 10 emin 10000) = false /\
  log_nice 10 emin 2000 o = (emin, 10000%Q) /\ log_nice 10 emin 10000 o = (emin, 10000%Q) /\
  (exists mi, log_ticks 10 emin 10000 o = TR_ticks [10%Q; 100%Q; 1000%Q; 10000%Q] mi) /\
  let emax := (1000000000001 # 1000000000)%Q in
  let e2 := log_exps 10 3 emax in
  find_level o (log_count e2 true) 0 = FL_ok 0 /\ log_first_last e2 true 0 = (0, 3) /\
  log_end_ok 10 1 3 1000 && Qleb emax 1000 = false /\
  near (qpow 10 (floor_log 10 emax)) emax (emax / 3) (log_mu 3 emax) = N_inside /\
  le_amb (log_exps 10 1 emax) = false /\
  log_nice 10 3 emax o = (1%Q, emax) /\ log_nice 10 1 emax o = (1%Q, emax) /\
  (exists mi, log_ticks 10 1 emax o = TR_ticks [1%Q; 10%Q; 100%Q; 1000%Q] mi) /\
  (* last conjunct: base 16, level forced to 8 (effective base 16^256 = 2^1024 beyond float64): the
     upper candidate is not representable, the end 20000 stays although its decision is N_outside,
     and it is N_outside again for the niced domain [1, 20000] *)
  let o2 := mkOpts 3 8 8 in let e3 := log_exps 16 3 20000 in
  find_level o2 (log_count e3 true) 0 = FL_ok 8 /\ log_first_last e3 true 8 = (0, 1) /\
  log_end_ok 16 (2 ^ 8) 1 (qpow 16 256) = false /\
  near (qpow 16 3) 20000 (20000 / 3) (log_mu 3 20000) = N_outside /\
  near (qpow 16 3) 20000 (20000 / 1) (log_mu 1 20000) = N_outside /\
  log_nice 16 3 20000 o2 = (1%Q, 20000%Q) /\ log_nice 16 1 20000 o2 = (1%Q, 20000%Q).
Proof. vm_compute. repeat split; try reflexivity; eexists; reflexivity. Qed.

(* THE EXACT MODEL IS NOT IDEMPOTENT where the re-taken decision is undecided: base 2, Max 6,
   [(2^53 - 896451)/2^53, 3 2^100] (two float64 values): Nice leaves the lower end (N_inside, within
   the slack below 1) and moves the upper one to 2^128; for [emin, 2^128] mu is larger (2^128 has more
   bits than 3 2^100), the decision comes out N_border (le_amb = true), the model's second Nice
   moves the lower end to 2^-32.  scale.Log.Nice on these float64 values: [emin, 2^128] both times. *)
Example C17_log_nice_model_not_idempotent_refuted :
  exists b mn mx o mn1 mx1, 2 <= b /\ (0 < mn)%Q /\ (mn < mx)%Q /\ 3 <= o_max o /\
    log_nice b mn mx o = (mn1, mx1) /\ mn1 = mn /\ le_amb (log_exps b mn mx) = false /\
    le_amb (log_exps b mn1 mx1) = true /\
    log_nice b mn1 mx1 o = (qpow 2 (-32), mx1) /\ ~ (qpow 2 (-32) == mn1)%Q.
Proof. exact log_nice_model_not_idempotent_refuted. Qed.
End LogNiceUnmoved.

Local Open Scope Z_scope.

(* ================= (group hM) the exponent interval of log_exps is the real-valued one ================= *)
(* Composition of C17_floor_log_is_floor_of_log / C17_ceil_log_is_ceil_of_log with C17_near_inside_sound /
   C17_near_outside_sound into ONE statement: on a positive domain emin <= emax whose ends are within a factor
   Base^k, k < 10^10 (so that the slack is below 1; every float64 domain is), if no slack decision of log_exps is
   undecided (le_amb = false) then with lmin = log_b emin, lmax = log_b emax, slack = 1e-10 (lmax - lmin)
   (log.go:111-131):
      le_in_lo  = ceil (lmin - slack),  le_in_hi  = floor (lmax + slack)    (ticks inside the domain)
      le_out_lo = floor (lmin + slack), le_out_hi = ceil (lmax - slack)     (Nice: rounding out)
   floor and ceil stated by their universal properties over the integers.  Real numbers: stdlib axioms. *)
From MM Require Import Proofs.TicksLogExpR.
Theorem C17_log_exps_are_real_valued : forall (b : Z) (emin emax : Q) (k : Z), 2 <= b -> (0 < emin)%Q -> (emin <= emax)%Q ->
  0 <= k < 10 ^ 10 -> (emax <= emin * qpow b k)%Q ->
  le_amb (log_exps b emin emax) = false ->
  let lmin := (ln (Q2R emin) / ln (IZR b))%R in
  let lmax := (ln (Q2R emax) / ln (IZR b))%R in
  let slack := (Q2R slack_factor * (lmax - lmin))%R in
  let e := log_exps b emin emax in
  (forall n : Z, le_in_lo e <= n <-> (lmin - slack <= IZR n)%R) /\
  (forall n : Z, n <= le_in_hi e <-> (IZR n <= lmax + slack)%R) /\
  (forall n : Z, n <= le_out_lo e <-> (IZR n <= lmin + slack)%R) /\
  (forall n : Z, le_out_hi e <= n <-> (lmax - slack <= IZR n)%R).
Proof. exact log_exps_real_q. Qed.
Print Assumptions C17_log_exps_are_real_valued.
Example C17_log_exps_real_example :
  log_exps 10 3 2000 = mkLE 1 3 0 4 false /\ Qle_bool 2000 (3 * qpow 10 3) = true.
Proof. vm_compute. split; reflexivity. Qed.

(* (group hM) three facts that close gaps of the Log statements above.
   (1) On a domain whose folded ends are positive finite float64 values, every admitted exponent of every base >= 2
   lies in [-1074, 1024] and the level-0 counts are at most 2100 <= maxInt: the hypotheses
   `log_count e _ 0 <= MAXINT` of C17_log_ticks_at_level / C17_log_ticks / C17_log_nice_count_nonincreasing hold on
   every domain the Go code can hold.  (2) Nice on a NEGATIVE domain mn < mx < 0: each new end is the old one or
   minus a power of the base that is a positive finite float64 (mirror image of C17_log_nice_ends_are_powers).
   (3) The minor-tick list (TicksAtLevel below level 0) is strictly ascending on the folded positive domain; with
   the membership statement log_minor_ticks_spec the list is determined.  (4) EVERY Log case the comparator
   parses (p_sccase, ends decoded from float64 bit patterns, log_pre = the kind-2 precondition of accept_parse)
   has folded ends that are positive finite float64 values, so by (1) the hypothesis
   `log_count e false 0 <= MAXINT` in the Log readings of C17_check_meaning_scales holds for every accepted
   kind-2 line (proof: a finite non-zero value decoded from ANY bit pattern has magnitude in [2^-1074, 2^1024),
   Proofs/CheckC17LogRange.v decode_fin_range). *)
From Coq Require Import Sorted.
From MM Require Import Proofs.TicksLogGroupM.
Theorem C17_log_float_domain_facts :
  (forall b emin emax, 2 <= b -> f64_pos_ok emin = true -> f64_pos_ok emax = true ->
     let e := log_exps b emin emax in
     log_count e false 0 <= 2100 /\ log_count e true 0 <= 2100 /\ 2100 <= MAXINT /\
     -1074 <= le_in_lo e <= 1024 /\ -1074 <= le_in_hi e <= 1024 /\ -1074 <= le_out_lo e <= 1024 /\ -1074 <= le_out_hi e <= 1024) /\
  (forall b mn mx o a c, (mx < 0)%Q -> (mn < mx)%Q -> log_nice b mn mx o = (a, c) ->
     ((a == mn)%Q \/ exists n, a = (- qpow b n)%Q /\ f64_pos_ok (qpow b n) = true) /\
     ((c == mx)%Q \/ exists n, c = (- qpow b n)%Q /\ f64_pos_ok (qpow b n) = true)) /\
  (forall b e emin emax ro l, 2 <= b -> l < 0 -> StronglySorted Qlt (log_ticks_pos b e emin emax ro l)) /\
  (forall r c r', p_sccase r = Some (c, r') -> log_pre (sc_base c) (sc_mn c) (sc_mx c) = true ->
     let e := log_e (sc_base c) (sc_mn c) (sc_mx c) in
     (f64_pos_ok (lf_emin (sc_mn c) (sc_mx c)) = true /\ f64_pos_ok (lf_emax (sc_mn c) (sc_mx c)) = true) /\
     log_count e false 0 <= MAXINT /\ log_count e true 0 <= MAXINT).
Proof. exact log_float_domain_facts. Qed.
Print Assumptions C17_log_float_domain_facts.
Example C17_log_float_domain_example :
  f64_pos_ok (3 # 1000) = true /\ f64_pos_ok 2000 = true /\
  log_ticks_pos 10 (log_exps 10 3 45) 3 45 false (-1) = [3; 4; 5; 6; 7; 8; 9; 10; 20; 30; 40]%Q.
Proof. vm_compute. repeat split; reflexivity. Qed.

(* (group hM) With the REAL-valued slack rule of log.go:118-128 the rounding-out exponent of an end that Nice left
   in place is the same for the niced domain (the slack only grows when the other end moves outwards), and an end
   that landed on an integer exponent rounds out to it again: lmin, lmax = logarithms of the ends to the effective
   base, s = 1e-10, c = the exponent the unmoved end lies within the slack of, lmax' / lmin' = the other end after
   Nice.  (1) floor (lmin + s (lmax' - lmin)) = c; (2) ceil (lmax - s (lmax - lmin')) = c; (3) floor (H + slack) =
   ceil (H - slack) = H for 0 <= slack < 1.  So the model's non-idempotence where the re-taken decision is N_border
   (C17_log_nice_model_not_idempotent_refuted) is an artefact of its three-valued decision, not of the rule. *)
From MM Require Import Proofs.TicksLogNiceR.
Theorem C17_real_slack_rule_is_stable :
  (forall (s lmin lmax lmax' : R) (c : Z), (0 <= s)%R -> (lmax <= lmax')%R -> (s * (lmax' - lmin) < 1)%R ->
     (lmin <= IZR c)%R -> (IZR c - lmin <= s * (lmax - lmin))%R ->
     forall n : Z, (IZR n <= lmin + s * (lmax' - lmin))%R <-> n <= c) /\
  (forall (s lmin lmin' lmax : R) (c : Z), (0 <= s)%R -> (lmin' <= lmin)%R -> (s * (lmax - lmin') < 1)%R ->
     (IZR c <= lmax)%R -> (lmax - IZR c <= s * (lmax - lmin))%R ->
     forall n : Z, (lmax - s * (lmax - lmin') <= IZR n)%R <-> c <= n) /\
  (forall (slack : R) (H : Z), (0 <= slack < 1)%R ->
     (forall n : Z, (IZR n <= IZR H + slack)%R <-> n <= H) /\ (forall n : Z, (IZR H - slack <= IZR n)%R <-> H <= n)).
Proof. exact slack_rule_stable. Qed.
Print Assumptions C17_real_slack_rule_is_stable.

(* Properties/C17.v — Ticks are few enough, nice, ascending, inside the domain; Nice only expands.
   ONLY statements; each is closed by [exact] of a lemma from Proofs/Ticks*.v. *)
From Coq Require Import Sorted.
From MM Require Import Base.Num Model.Ticks Proofs.Ticks Proofs.TicksLinear Proofs.TicksNice Proofs.TicksNiceRep Proofs.TicksLog Proofs.TicksLogExp Proofs.TicksLogNice Check.C17 Proofs.TicksCheck.
Local Open Scope Z_scope.

(* ================= FindLevel (ticks.go:56-101) ================= *)
(* for EVERY ticker whose count is non-increasing on the level window, every guess and every
   TickOptions: the result is the LOWEST level of [MinLevel, MaxLevel] (or of [-1000, 1000]
   when both limits are 0) whose count is at most Max *)
Theorem C17_find_level_lowest : forall o cnt guess lo hi l,
  level_bounds o = Some (lo, hi) -> nonincreasing cnt lo hi ->
  find_level o cnt guess = FL_ok l ->
  lo <= l <= hi /\ cnt l <= o_max o /\ forall l', lo <= l' < l -> o_max o < cnt l'.
Proof. exact find_level_lowest. Qed.
Print Assumptions C17_find_level_lowest.

(* failure is reported exactly when Max < 1, or MinLevel > MaxLevel, or no level fits *)
Theorem C17_find_level_fails_iff : forall o cnt guess,
  (forall lo hi, level_bounds o = Some (lo, hi) -> nonincreasing cnt lo hi) ->
  (find_level o cnt guess = FL_fail <->
   o_max o < 1 \/ level_bounds o = None \/
   exists lo hi, level_bounds o = Some (lo, hi) /\ forall l, lo <= l <= hi -> o_max o < cnt l).
Proof. exact find_level_fails_iff. Qed.
Print Assumptions C17_find_level_fails_iff.

(* the search always terminates within the fuel the model gives it, and the starting guess
   does not influence the result *)
Theorem C17_find_level_total : forall o cnt guess, find_level o cnt guess <> FL_fuel.
Proof. exact find_level_no_fuel. Qed.
Print Assumptions C17_find_level_total.

Theorem C17_find_level_guess_irrelevant : forall o cnt g1 g2,
  (forall lo hi, level_bounds o = Some (lo, hi) -> nonincreasing cnt lo hi) ->
  find_level o cnt g1 = find_level o cnt g2.
Proof. exact find_level_guess_irrelevant. Qed.
Print Assumptions C17_find_level_guess_irrelevant.

(* non-vacuity: a step-shaped count 9 9 4 2 2 0 on levels -2..3, Max = 3: level 1 from any guess;
   with MaxLevel = 0 no level fits; Max = 0 always fails *)
Example C17_find_level_example :
  let cnt := fun l => nth (Z.to_nat (l + 2)) [9; 9; 4; 2; 2; 0] 0 in
  map (find_level (mkOpts 3 0 0) cnt) [-5; 0; 1; 2; 7] = [FL_ok 1; FL_ok 1; FL_ok 1; FL_ok 1; FL_ok 1] /\
  find_level (mkOpts 3 (-2) 0) cnt 1 = FL_fail /\
  find_level (mkOpts 0 0 0) cnt 1 = FL_fail /\
  find_level (mkOpts 3 2 1) cnt 1 = FL_fail.
Proof. vm_compute. repeat split; reflexivity. Qed.

(* ================= Linear ticks (linear.go:81-150, vec.Linspace) ================= *)
Section Linear.
Local Open Scope Q_scope.

(* level -> spacing: each level's spacing is an integer multiple (x1, x2, x5 or xBase) of the
   previous level's; it is a power of the base, or 5 times a power of ten when Base = 0 *)
Theorem C17_linear_spacing : forall base eb l, lin_ebase base = Some eb ->
  (exists m : Z, (1 <= m)%Z /\ lin_spacing base eb (l + 1) == inject_Z m * lin_spacing base eb l) /\
  (lin_spacing base eb l == qpow eb (l / 2) \/ (base = 0%Z /\ lin_spacing base eb l == 5 * qpow 10 (l / 2))).
Proof. intros base eb l H. split; [exact (spacing_divides_next base eb l H) | exact (lin_spacing_form base eb l H)]. Qed.
Print Assumptions C17_linear_spacing.

(* TicksAtLevel(l) is exactly the set of integer multiples of the level's spacing inside the
   domain widened by the slack the code grants itself (1e-10 of the width), in ascending
   order, and CountTicks(l) is its length — at EVERY level *)
Theorem C17_linear_ticks_at_level : forall base eb mn mx l, lin_ebase base = Some eb -> mn <= mx ->
  (forall v, In v (lin_ticks_at base eb mn mx false l) <->
             exists k : Z, v = inject_Z k * lin_spacing base eb l /\ in_range mn mx v) /\
  StronglySorted Qlt (lin_ticks_at base eb mn mx false l) /\
  lin_count base eb mn mx false l = Z.of_nat (length (lin_ticks_at base eb mn mx false l)).
Proof. intros base eb mn mx l He Ho. split; [|split].
  - intros v. exact (lin_ticks_at_spec base eb mn mx He Ho l v).
  - exact (lin_ticks_ascending base eb mn mx He l).
  - exact (lin_count_is_length base eb mn mx He Ho l). Qed.
Print Assumptions C17_linear_ticks_at_level.

(* ticks are nested (every tick of level l+1 is a tick of level l) and therefore the count is
   non-increasing in the level, on every window *)
Theorem C17_linear_nested_and_monotone : forall base eb mn mx, lin_ebase base = Some eb -> mn <= mx ->
  (forall l v, In v (lin_ticks_at base eb mn mx false (l + 1)) ->
               exists w, In w (lin_ticks_at base eb mn mx false l) /\ w == v) /\
  (forall lo hi, nonincreasing (lin_count base eb mn mx false) lo hi).
Proof. intros base eb mn mx He Ho. split.
  - intros l v. exact (lin_ticks_nested base eb mn mx He Ho l v).
  - intros lo hi. exact (lin_count_nonincreasing base eb mn mx lo hi He Ho). Qed.
Print Assumptions C17_linear_nested_and_monotone.

(* Ticks(o) for Min < Max: major = TicksAtLevel(l), minor = TicksAtLevel(l-1) where l is the
   LOWEST level of the window with at most Max ticks (finest level that fits), so there are at
   most Max major ticks — from whatever guess the search starts *)
Theorem C17_linear_ticks : forall base mn mx o guess major minor lo hi,
  mn < mx -> level_bounds o = Some (lo, hi) ->
  lin_ticks base mn mx o guess = TR_ticks major minor ->
  exists eb l, lin_ebase base = Some eb /\ (lo <= l <= hi)%Z /\
    major = lin_ticks_at base eb mn mx false l /\ minor = lin_ticks_at base eb mn mx false (l - 1) /\
    (Z.of_nat (length major) <= o_max o)%Z /\
    forall l', (lo <= l' < l)%Z -> (o_max o < Z.of_nat (length (lin_ticks_at base eb mn mx false l')))%Z.
Proof. exact lin_ticks_correct. Qed.
Print Assumptions C17_linear_ticks.

(* ... and no ticks are returned exactly when no level of the window fits *)
Theorem C17_linear_ticks_none_iff : forall base eb mn mx o guess,
  mn < mx -> lin_ebase base = Some eb -> (1 <= o_max o)%Z ->
  (lin_ticks base mn mx o guess = TR_none <->
   level_bounds o = None \/
   exists lo hi, level_bounds o = Some (lo, hi) /\
     forall l, (lo <= l <= hi)%Z -> (o_max o < Z.of_nat (length (lin_ticks_at base eb mn mx false l)))%Z).
Proof. exact lin_ticks_none_iff. Qed.
Print Assumptions C17_linear_ticks_none_iff.

(* Nice never shrinks the domain (any options; when no level fits the domain stays), and
   moves each end by less than one spacing of the level it chose, onto a multiple of it *)
Theorem C17_linear_nice_expands : forall base mn mx o guess a b,
  lin_nice base mn mx o guess = NR_dom a b ->
  let '(smn, smx) := nice_start mn mx in a <= smn /\ smx <= b.
Proof. exact lin_nice_expands. Qed.
Print Assumptions C17_linear_nice_expands.

Theorem C17_linear_nice_adds_less_than_one_spacing : forall base eb mn mx o guess a b,
  lin_ebase base = Some eb ->
  lin_nice base mn mx o guess = NR_dom a b ->
  let '(smn, smx) := nice_start mn mx in
  (a == smn /\ b == smx) \/
  exists l, find_level o (lin_count base eb smn smx true) guess = FL_ok l /\
    let sp := lin_spacing base eb l in
    smn - a < sp /\ b - smx < sp /\
    (a == smn \/ exists k : Z, a = inject_Z k * sp) /\ (b == smx \/ exists k : Z, b = inject_Z k * sp).
Proof. exact lin_nice_adds_less_than_one_spacing. Qed.
Print Assumptions C17_linear_nice_adds_less_than_one_spacing.

(* The rounded-out tick count Nice searches with is non-increasing in the level, so "the level
   Nice picks" is the LOWEST level of the window whose rounded-out count is at most Max,
   whatever guess the search starts from *)
Theorem C17_linear_nice_count_nonincreasing : forall base eb, lin_ebase base = Some eb ->
  forall mn mx lo hi, mn < mx -> nonincreasing (lin_count base eb mn mx true) lo hi.
Proof. exact lin_count_out_nonincreasing. Qed.
Print Assumptions C17_linear_nice_count_nonincreasing.

(* NICE IS IDEMPOTENT: every domain (proper, reversed, degenerate), every base, every options
   with Max * Base <= 10^9 (Base = 10 when the field is 0), every level window, whatever the
   two starting guesses - provided the candidate ends of the level Nice chooses are finite
   float64 values in both calls (lin_nice_rep; it fails only at levels whose spacing overflows
   float64, where the model's Nice leaves such an end alone).  (Max >= 3 is not needed for this
   clause: when no level fits, the domain is left as it is both times.) *)
Theorem C17_linear_nice_idempotent : forall base eb, lin_ebase base = Some eb ->
  forall mn mx o g g2 a b, (o_max o * eb <= 10 ^ 9)%Z ->
  lin_nice_rep base mn mx o g -> lin_nice_rep base a b o g2 ->
  lin_nice base mn mx o g = NR_dom a b -> lin_nice base a b o g2 = NR_dom a b.
Proof. exact lin_nice_rep_idempotent. Qed.
Print Assumptions C17_linear_nice_idempotent.

(* AFTER NICE THE FIRST AND LAST MAJOR TICKS ARE THE NEW ENDS: whenever Nice found a level (it
   always does for Max >= 3 unless the level limits forbid it), Ticks with the same options on
   the niced domain [a, b] returns major ticks whose first is a and whose last is b - exactly
   for an end that Nice moved; an end that Nice left alone because it was within the slack
   1e-10 (Max-Min) below/above a tick (repair D10) differs from the tick by at most that slack *)
Theorem C17_linear_nice_ends_are_first_last_major : forall base eb mn mx o g g3 l a b major minor,
  lin_ebase base = Some eb -> mn < mx -> (o_max o * eb <= 10 ^ 9)%Z ->
  lin_nice_rep base mn mx o g ->
  find_level o (lin_count base eb mn mx true) g = FL_ok l ->
  lin_nice base mn mx o g = NR_dom a b ->
  lin_ticks base a b o g3 = TR_ticks major minor ->
  exists t1 rest, major = t1 :: rest /\
    0 <= t1 - a <= (mx - mn) * slack_factor /\ 0 <= b - last major t1 <= (mx - mn) * slack_factor /\
    (a < mn -> t1 == a) /\ (mx < b -> last major t1 == b).
Proof. exact lin_nice_rep_ends_are_first_last_major. Qed.
Print Assumptions C17_linear_nice_ends_are_first_last_major.

(* FOR Max >= 3 NICE ALWAYS FINDS A LEVEL: whenever the top level of the window has a spacing
   wider than the domain (with the default limits that is Base^500) *)
Theorem C17_linear_nice_finds_level_for_max_ge_3 : forall base eb mn mx o g lo hi,
  lin_ebase base = Some eb -> mn < mx -> level_bounds o = Some (lo, hi) -> (3 <= o_max o)%Z ->
  mx - mn < lin_spacing base eb hi ->
  exists l, find_level o (lin_count base eb mn mx true) g = FL_ok l.
Proof. exact lin_nice_finds_level. Qed.
Print Assumptions C17_linear_nice_finds_level_for_max_ge_3.

(* non-vacuity of the three: [0.3, 2.7], Max 4: Nice -> [0, 3] at level 0, again [0, 3];
   Ticks on [0, 3] = 0, 1, 2, 3 *)
Example C17_linear_nice_example :
  find_level (mkOpts 4 0 0) (lin_count 0 10 (3 # 10) (27 # 10) true) 5 = FL_ok 0%Z /\
  match lin_nice 0 (3 # 10) (27 # 10) (mkOpts 4 0 0) 5 with
  | NR_dom a b => lin_nice 0 a b (mkOpts 4 0 0) (-3) = NR_dom a b /\
                  match lin_ticks 0 a b (mkOpts 4 0 0) 2 with
                  | TR_ticks ma _ => map Qred ma = [0; 1; 2; 3] | _ => False end
  | _ => False end.
Proof. vm_compute. repeat split; reflexivity. Qed.

(* the representability guard: [2, 3] at level 618 (spacing 10^309, not a float64): Min moves
   to the multiple 0, Max stays (the ideal Nice would put it at 10^309) *)
Example C17_linear_nice_overflow_example :
  lin_nice 0 2 3 (mkOpts 3 618 618) 0 = NR_dom (0 * qpow 10 309) 3 /\
  lin_nice_ideal 0 2 3 (mkOpts 3 618 618) 0 = NR_dom (0 * qpow 10 309) (1 * qpow 10 309).
Proof. exact lin_nice_overflow_example. Qed.
Example C17_linear_nice_rep_example :
  lin_nice_rep 0 (3 # 10) (27 # 10) (mkOpts 4 0 0) 5 /\ lin_nice_rep 0 0 3 (mkOpts 4 0 0) (-3).
Proof. exact lin_nice_rep_example. Qed.

(* non-vacuity: [0.3, 2.7] (exact rationals), Max = 4 -> major 1, 2 at level 0, minor every 0.5;
   Nice -> [0, 3]; a domain around 0 with Max = 2 has no fitting level: Nice leaves it (D10) *)
Example C17_linear_example :
  match lin_ticks 0 (3 # 10) (27 # 10) (mkOpts 4 0 0) 5 with
  | TR_ticks ma mi => map Qred ma = [1; 2] /\ map Qred mi = [1 # 2; 1; 3 # 2; 2; 5 # 2]
  | _ => False end /\
  match lin_nice 0 (3 # 10) (27 # 10) (mkOpts 4 0 0) 5 with
  | NR_dom a b => Qred a = 0 /\ Qred b = 3 | _ => False end /\
  lin_count 0 10 (-1) 2 true 0 = 4%Z /\ lin_count 0 10 (-1) 2 true 7 = 3%Z.
Proof. vm_compute. repeat split; reflexivity. Qed.
End Linear.

(* ================= Log ticks (log.go:111-207) ================= *)
(* A Log scale's tick positions are powers of Base.  [log_exps] computes once per scale the
   interval [in_lo, in_hi] of admitted exponents (domain ends with the slack of log.go:118-128);
   level l >= 0 keeps the exponents that are multiples of 2^l, i.e. powers of Base^(2^l). *)
Section Log.
Local Open Scope Z_scope.

(* TicksAtLevel(l), l >= 0: exactly the powers Base^(n 2^l) with an admitted exponent, in
   ascending order; CountTicks(l) is its length *)
Theorem C17_log_ticks_at_level : forall b e emin emax l, 2 <= b -> le_in_lo e <= le_in_hi e + 1 -> 0 <= l ->
  (forall v, In v (log_ticks_pos b e emin emax false l) <->
             exists n, v = qpow b (n * 2 ^ l) /\ le_in_lo e <= n * 2 ^ l <= le_in_hi e) /\
  StronglySorted Qlt (log_ticks_pos b e emin emax false l) /\
  log_count e false l = Z.of_nat (length (log_ticks_pos b e emin emax false l)).
Proof. intros b e emin emax l Hb He Hl. split; [|split].
  - intros v. exact (log_ticks_pos_spec b e emin emax He l v Hl).
  - exact (log_ticks_pos_ascending b e emin emax Hb l Hl).
  - exact (log_count_is_length b e emin emax He l Hl). Qed.
Print Assumptions C17_log_ticks_at_level.

(* each level eliminates ticks of the level below, so the count is non-increasing on every
   window (levels below 0 report maxInt) *)
Theorem C17_log_nested_and_monotone : forall b e emin emax, le_in_lo e <= le_in_hi e + 1 ->
  (forall l v, 0 <= l -> In v (log_ticks_pos b e emin emax false (l + 1)) -> In v (log_ticks_pos b e emin emax false l)) /\
  (log_count e false 0 <= MAXINT -> forall lo hi, nonincreasing (log_count e false) lo hi).
Proof. intros b e emin emax He. split.
  - intros l v Hl. exact (log_ticks_nested b e emin emax He l v Hl).
  - intros H0 lo hi. exact (log_count_nonincreasing e He lo hi H0). Qed.
Print Assumptions C17_log_nested_and_monotone.

(* Ticks(o) on a positive domain Min < Max: major = TicksAtLevel(l), minor = TicksAtLevel(l-1)
   for the LOWEST level of the window with at most Max ticks *)
Theorem C17_log_ticks : forall b mn mx o major minor lo hi,
  2 <= b -> (0 < mn)%Q -> (mn < mx)%Q -> level_bounds o = Some (lo, hi) ->
  let e := log_exps b mn mx in
  le_in_lo e <= le_in_hi e + 1 -> log_count e false 0 <= MAXINT ->
  log_ticks b mn mx o = TR_ticks major minor ->
  exists l, lo <= l <= hi /\
    major = log_ticks_pos b e mn mx false l /\ minor = log_ticks_pos b e mn mx false (l - 1) /\
    log_count e false l <= o_max o /\
    (forall l', lo <= l' < l -> o_max o < log_count e false l') /\
    (0 <= l -> Z.of_nat (length major) <= o_max o).
Proof. exact log_ticks_correct. Qed.
Print Assumptions C17_log_ticks.

(* The integer logarithms behind the admitted exponents are the real-valued ones, stated with
   powers only: for every base >= 2 and every positive rational q,
   floor_log b q is THE exponent n with b^n <= q < b^(n+1)  (= floor(log_b q)), and
   ceil_log b q is THE exponent n with b^(n-1) < q <= b^n   (= ceil(log_b q)) *)
Theorem C17_floor_log_is_floor_of_log : forall b q, 2 <= b -> (0 < q)%Q ->
  ((qpow b (floor_log b q) <= q)%Q /\ (q < qpow b (floor_log b q + 1))%Q) /\
  forall n, n <= floor_log b q <-> (qpow b n <= q)%Q.
Proof. intros b q Hb Hq. split; [exact (floor_log_spec b q Hb Hq) | exact (floor_log_greatest b q Hb Hq)]. Qed.
Print Assumptions C17_floor_log_is_floor_of_log.

Theorem C17_ceil_log_is_ceil_of_log : forall b q, 2 <= b -> (0 < q)%Q ->
  ((qpow b (ceil_log b q - 1) < q)%Q /\ (q <= qpow b (ceil_log b q))%Q) /\
  forall n, ceil_log b q <= n <-> (q <= qpow b n)%Q.
Proof. intros b q Hb Hq. split; [exact (ceil_log_spec b q Hb Hq) | exact (ceil_log_least b q Hb Hq)]. Qed.
Print Assumptions C17_ceil_log_is_ceil_of_log.

Example C17_floor_ceil_log_example :
  floor_log 10 (20000 # 1) = 4 /\ ceil_log 10 (20000 # 1) = 5 /\ floor_log 10 (3 # 1000) = -3 /\ ceil_log 10 (3 # 1000) = -2 /\
  floor_log 2 (1 # 8) = -3 /\ ceil_log 2 (1 # 8) = -3 /\ floor_log 16 1 = 0 /\ ceil_log 16 1 = 0.
Proof. vm_compute. repeat split; reflexivity. Qed.

(* Nice never shrinks the domain (any sign, any options; when no level fits, or the nice
   bound would not be a positive finite float64, the end stays), and an end that moves lands
   on a power of the base *)
Theorem C17_log_nice_expands : forall b mn mx o a c, (mn <= mx)%Q ->
  log_nice b mn mx o = (a, c) -> (a <= mn /\ mx <= c)%Q.
Proof. exact log_nice_expands. Qed.
Print Assumptions C17_log_nice_expands.

Theorem C17_log_nice_ends_are_powers : forall b mn mx o a c, (0 < mn)%Q -> (mn < mx)%Q ->
  log_nice b mn mx o = (a, c) ->
  (a = mn \/ exists n, a = qpow b n /\ f64_pos_ok a = true) /\
  (c = mx \/ exists n, c = qpow b n /\ f64_pos_ok c = true).
Proof. exact log_nice_ends_are_powers. Qed.
Print Assumptions C17_log_nice_ends_are_powers.

(* The rounded-out count of a Log scale is non-increasing in the level (so Nice picks the lowest
   fitting level) whenever the rounded-out exponent interval is proper *)
Theorem C17_log_nice_count_nonincreasing : forall e, le_out_lo e < le_out_hi e ->
  forall lo hi, log_count e true 0 <= MAXINT -> nonincreasing (log_count e true) lo hi.
Proof. exact log_count_out_nonincreasing. Qed.
Print Assumptions C17_log_nice_count_nonincreasing.

(* LOG NICE IS IDEMPOTENT ON LANDED ENDS, and then the first and last major ticks are the ends:
   for a positive domain whose Nice found level l and rounded out to the exponents f 2^l, la 2^l,
   the domain [b^(f 2^l), b^(la 2^l)] - what Nice returns when both ends move onto their powers
   (or already were those powers) - is left unchanged by a second Nice, and Ticks on it starts
   at the first end and stops at the second.  (An end the repair of D10 leaves in place because
   it lies within the slack of a power is NOT covered: its slack decision is re-taken with the
   other end's new position.) *)
Theorem C17_log_nice_idempotent_on_landed_ends : forall b mn mx o l, 2 <= b -> (0 < mn)%Q -> (mn < mx)%Q ->
  let e := log_exps b mn mx in
  le_out_lo e < le_out_hi e -> log_count e true 0 <= MAXINT -> o_max o < MAXINT ->
  find_level o (log_count e true) 0 = FL_ok l ->
  let f := fst (log_first_last e true l) in let la := snd (log_first_last e true l) in
  (la * 2 ^ l - f * 2 ^ l + 1 <= MAXINT) ->
  let a := qpow b (f * 2 ^ l) in let c := qpow b (la * 2 ^ l) in
  log_nice b a c o = (a, c).
Proof. exact log_nice_fixed_on_landed_ends. Qed.
Print Assumptions C17_log_nice_idempotent_on_landed_ends.

Theorem C17_log_nice_ends_are_first_last_major : forall b mn mx o l major minor, 2 <= b -> (0 < mn)%Q -> (mn < mx)%Q ->
  let e := log_exps b mn mx in
  le_out_lo e < le_out_hi e -> log_count e true 0 <= MAXINT -> o_max o < MAXINT ->
  find_level o (log_count e true) 0 = FL_ok l ->
  let f := fst (log_first_last e true l) in let la := snd (log_first_last e true l) in
  (la * 2 ^ l - f * 2 ^ l + 1 <= MAXINT) ->
  let a := qpow b (f * 2 ^ l) in let c := qpow b (la * 2 ^ l) in
  log_ticks b a c o = TR_ticks major minor ->
  exists rest, major = a :: rest /\ last major a = c.
Proof. exact log_ticks_on_landed_ends. Qed.
Print Assumptions C17_log_nice_ends_are_first_last_major.

(* non-vacuity: [3, 20000] base 10, Max 3: level 2, exponents 0 and 8: Nice -> [1, 10^8], again
   [1, 10^8]; Ticks = 1, 10^4, 10^8 *)
Example C17_log_nice_example :
  let e := log_exps 10 3 20000 in
  le_out_lo e = 0 /\ le_out_hi e = 5 /\ find_level (mkOpts 3 0 0) (log_count e true) 0 = FL_ok 2 /\
  log_first_last e true 2 = (0, 2) /\
  log_nice 10 3 20000 (mkOpts 3 0 0) = (1%Q, 100000000%Q) /\
  log_nice 10 1 100000000 (mkOpts 3 0 0) = (1%Q, 100000000%Q) /\
  log_ticks 10 1 100000000 (mkOpts 3 0 0) = TR_ticks [1%Q; 10000%Q; 100000000%Q] [1%Q; 100%Q; 10000%Q; 1000000%Q; 100000000%Q].
Proof. vm_compute. repeat split; reflexivity. Qed.

(* non-vacuity: [3, 20000] base 10: exponents 1..4; Max = 2 -> level 1 (100, 10000), minor = level 0;
   Max = 5 -> level 0 with the 2..9 multiples as minor ticks; Nice(Max 3) -> [1, 10^8] (level 2, 3 ticks);
   negative domain mirrored; Max = 1 never fits when rounding out: domain unchanged (D10) *)
Example C17_log_example :
  log_ticks 10 3 20000 (mkOpts 2 0 0) = TR_ticks [100%Q; 10000%Q] [10%Q; 100%Q; 1000%Q; 10000%Q] /\
  match log_ticks 10 3 20000 (mkOpts 5 0 0) with
  | TR_ticks ma mi => ma = [10%Q; 100%Q; 1000%Q; 10000%Q] /\ length mi = 36%nat /\ hd 0%Q mi = (3 * 1)%Q
  | _ => False end /\
  log_nice 10 3 20000 (mkOpts 3 0 0) = (1%Q, 100000000%Q) /\
  log_nice 10 (-20000) (-3) (mkOpts 3 0 0) = ((-100000000)%Q, (-1)%Q) /\
  log_nice 10 3 20000 (mkOpts 1 0 0) = (3%Q, 20000%Q).
Proof. vm_compute. repeat split; reflexivity. Qed.
End Log.

(* ================= the check decides the model ================= *)
(* Check/C17.v runs the level search on capped count functions (so that a search that climbs
   to level 1000 stays cheap); they are extensionally equal to the model's counts, hence the
   check evaluates exactly lin_ticks, lin_nice, log_ticks and log_nice *)
Theorem C17_check_runs_the_model : forall base b mn mx o g,
  lin_ticks_gen lin_count_capped base mn mx o g = lin_ticks base mn mx o g /\
  lin_nice_gen lin_count_capped base mn mx o g = lin_nice base mn mx o g /\
  log_ticks_gen log_count_capped b mn mx o = log_ticks b mn mx o /\
  log_nice_gen log_count_capped b mn mx o = log_nice b mn mx o.
Proof. intros base b mn mx o g. split; [|split; [|split]].
  - exact (lin_ticks_capped_eq base mn mx o g).
  - exact (lin_nice_capped_eq base mn mx o g).
  - exact (log_ticks_capped_eq b mn mx o).
  - exact (log_nice_capped_eq b mn mx o). Qed.
Print Assumptions C17_check_runs_the_model.

(* ================= the slack decision of Log scales, against REAL logarithms ================= *)
(* (real-number statements: Print Assumptions shows the axioms of the standard library's reals
   and nothing else)  The three-valued decision [near] that log_exps uses in place of the float
   comparison |log big - log small| <= 1e-10 (log max - log min) encloses the real-valued rule:
   N_inside implies the two values are within the slack (with mu to spare), N_outside implies
   they are farther apart (by more than mu); only N_border - which the check counts as a
   borderline input - leaves the real-valued rule undecided.  Together with
   C17_floor_log_is_floor_of_log / C17_ceil_log_is_ceil_of_log this makes the admitted exponent
   interval of log_exps the real-valued one whenever no decision is N_border. *)
From Coq Require Import Reals Qreals.
From MM Require Import Proofs.TicksNearR.

Theorem C17_near_inside_sound : forall small big t mu : Q, (0 < small)%Q -> (small <= big)%Q -> (1 <= t)%Q ->
  near small big t mu = N_inside ->
  (ln (Q2R big / Q2R small) <= Q2R slack_factor * ln (Q2R t) - Q2R mu)%R.
Proof. exact near_inside_sound. Qed.
Print Assumptions C17_near_inside_sound.

Theorem C17_near_outside_sound : forall small big t mu : Q, (0 < small)%Q -> (small <= big)%Q -> (1 <= t)%Q ->
  near small big t mu = N_outside ->
  (Q2R slack_factor * ln (Q2R t) + Q2R mu <= ln (Q2R big / Q2R small))%R.
Proof. exact near_outside_sound. Qed.
Print Assumptions C17_near_outside_sound.

Example C17_near_example :
  near 1000 (1000 + (1 # 100000000)) 20 (1 # 1000000000000) = N_inside /\
  near 1000 1001 20 (1 # 1000000000000) = N_outside.
Proof. vm_compute. split; reflexivity. Qed.

(* Properties/C17.v — Ticks are few enough, nice, ascending, inside the domain; Nice only expands.
   ONLY statements; each is closed by [exact] of a lemma from Proofs/Ticks*.v. *)
From Coq Require Import Sorted.
From MM Require Import Base.Num Model.Ticks Proofs.Ticks Proofs.TicksLinear.
Local Open Scope Z_scope.

(* ================= FindLevel (ticks.go:56-101) ================= *)
(* for EVERY ticker whose count is non-increasing on the level window, every guess and every
   TickOptions: the result is the LOWEST level of [MinLevel, MaxLevel] (or of [-1000, 1000]
   when both limits are 0) whose count is at most Max *)
Theorem C17_find_level_lowest : forall o cnt guess lo hi l,
  level_bounds o = Some (lo, hi) -> nonincreasing cnt lo hi ->
  find_level o cnt guess = FL_ok l ->
  lo <= l <= hi /\ cnt l <= o_max o /\ forall l', lo <= l' < l -> o_max o < cnt l'.
Proof. exact find_level_lowest. Qed.
Print Assumptions C17_find_level_lowest.

(* failure is reported exactly when Max < 1, or MinLevel > MaxLevel, or no level fits *)
Theorem C17_find_level_fails_iff : forall o cnt guess,
  (forall lo hi, level_bounds o = Some (lo, hi) -> nonincreasing cnt lo hi) ->
  (find_level o cnt guess = FL_fail <->
   o_max o < 1 \/ level_bounds o = None \/
   exists lo hi, level_bounds o = Some (lo, hi) /\ forall l, lo <= l <= hi -> o_max o < cnt l).
Proof. exact find_level_fails_iff. Qed.
Print Assumptions C17_find_level_fails_iff.

(* the search always terminates within the fuel the model gives it, and the starting guess
   does not influence the result *)
Theorem C17_find_level_total : forall o cnt guess, find_level o cnt guess <> FL_fuel.
Proof. exact find_level_no_fuel. Qed.
Print Assumptions C17_find_level_total.

Theorem C17_find_level_guess_irrelevant : forall o cnt g1 g2,
  (forall lo hi, level_bounds o = Some (lo, hi) -> nonincreasing cnt lo hi) ->
  find_level o cnt g1 = find_level o cnt g2.
Proof. exact find_level_guess_irrelevant. Qed.
Print Assumptions C17_find_level_guess_irrelevant.

(* non-vacuity: a step-shaped count 9 9 4 2 2 0 on levels -2..3, Max = 3: level 1 from any guess;
   with MaxLevel = 0 no level fits; Max = 0 always fails *)
Example C17_find_level_example :
  let cnt := fun l => nth (Z.to_nat (l + 2)) [9; 9; 4; 2; 2; 0] 0 in
  map (find_level (mkOpts 3 0 0) cnt) [-5; 0; 1; 2; 7] = [FL_ok 1; FL_ok 1; FL_ok 1; FL_ok 1; FL_ok 1] /\
  find_level (mkOpts 3 (-2) 0) cnt 1 = FL_fail /\
  find_level (mkOpts 0 0 0) cnt 1 = FL_fail /\
  find_level (mkOpts 3 2 1) cnt 1 = FL_fail.
Proof. vm_compute. repeat split; reflexivity. Qed.

(* ================= Linear ticks (linear.go:81-150, vec.Linspace) ================= *)
Section Linear.
Local Open Scope Q_scope.

(* level -> spacing: each level's spacing is an integer multiple (x1, x2, x5 or xBase) of the
   previous level's; it is a power of the base, or 5 times a power of ten when Base = 0 *)
Theorem C17_linear_spacing : forall base eb l, lin_ebase base = Some eb ->
  (exists m : Z, (1 <= m)%Z /\ lin_spacing base eb (l + 1) == inject_Z m * lin_spacing base eb l) /\
  (lin_spacing base eb l == qpow eb (l / 2) \/ (base = 0%Z /\ lin_spacing base eb l == 5 * qpow 10 (l / 2))).
Proof. intros base eb l H. split; [exact (spacing_divides_next base eb l H) | exact (lin_spacing_form base eb l H)]. Qed.
Print Assumptions C17_linear_spacing.

(* TicksAtLevel(l) is exactly the set of integer multiples of the level's spacing inside the
   domain widened by the slack the code grants itself (1e-10 of the width), in ascending
   order, and CountTicks(l) is its length — at EVERY level *)
Theorem C17_linear_ticks_at_level : forall base eb mn mx l, lin_ebase base = Some eb -> mn <= mx ->
  (forall v, In v (lin_ticks_at base eb mn mx false l) <->
             exists k : Z, v = inject_Z k * lin_spacing base eb l /\ in_range mn mx v) /\
  StronglySorted Qlt (lin_ticks_at base eb mn mx false l) /\
  lin_count base eb mn mx false l = Z.of_nat (length (lin_ticks_at base eb mn mx false l)).
Proof. intros base eb mn mx l He Ho. split; [|split].
  - intros v. exact (lin_ticks_at_spec base eb mn mx He Ho l v).
  - exact (lin_ticks_ascending base eb mn mx He l).
  - exact (lin_count_is_length base eb mn mx He Ho l). Qed.
Print Assumptions C17_linear_ticks_at_level.

(* ticks are nested (every tick of level l+1 is a tick of level l) and therefore the count is
   non-increasing in the level, on every window *)
Theorem C17_linear_nested_and_monotone : forall base eb mn mx, lin_ebase base = Some eb -> mn <= mx ->
  (forall l v, In v (lin_ticks_at base eb mn mx false (l + 1)) ->
               exists w, In w (lin_ticks_at base eb mn mx false l) /\ w == v) /\
  (forall lo hi, nonincreasing (lin_count base eb mn mx false) lo hi).
Proof. intros base eb mn mx He Ho. split.
  - intros l v. exact (lin_ticks_nested base eb mn mx He Ho l v).
  - intros lo hi. exact (lin_count_nonincreasing base eb mn mx lo hi He Ho). Qed.
Print Assumptions C17_linear_nested_and_monotone.

(* Ticks(o) for Min < Max: major = TicksAtLevel(l), minor = TicksAtLevel(l-1) where l is the
   LOWEST level of the window with at most Max ticks (finest level that fits), so there are at
   most Max major ticks — from whatever guess the search starts *)
Theorem C17_linear_ticks : forall base mn mx o guess major minor lo hi,
  mn < mx -> level_bounds o = Some (lo, hi) ->
  lin_ticks base mn mx o guess = TR_ticks major minor ->
  exists eb l, lin_ebase base = Some eb /\ (lo <= l <= hi)%Z /\
    major = lin_ticks_at base eb mn mx false l /\ minor = lin_ticks_at base eb mn mx false (l - 1) /\
    (Z.of_nat (length major) <= o_max o)%Z /\
    forall l', (lo <= l' < l)%Z -> (o_max o < Z.of_nat (length (lin_ticks_at base eb mn mx false l')))%Z.
Proof. exact lin_ticks_correct. Qed.
Print Assumptions C17_linear_ticks.

(* ... and no ticks are returned exactly when no level of the window fits *)
Theorem C17_linear_ticks_none_iff : forall base eb mn mx o guess,
  mn < mx -> lin_ebase base = Some eb -> (1 <= o_max o)%Z ->
  (lin_ticks base mn mx o guess = TR_none <->
   level_bounds o = None \/
   exists lo hi, level_bounds o = Some (lo, hi) /\
     forall l, (lo <= l <= hi)%Z -> (o_max o < Z.of_nat (length (lin_ticks_at base eb mn mx false l)))%Z).
Proof. exact lin_ticks_none_iff. Qed.
Print Assumptions C17_linear_ticks_none_iff.

(* Nice never shrinks the domain (any options; when no level fits the domain stays), and
   moves each end by less than one spacing of the level it chose, onto a multiple of it *)
Theorem C17_linear_nice_expands : forall base mn mx o guess a b,
  lin_nice base mn mx o guess = NR_dom a b ->
  let '(smn, smx) := nice_start mn mx in a <= smn /\ smx <= b.
Proof. exact lin_nice_expands. Qed.
Print Assumptions C17_linear_nice_expands.

Theorem C17_linear_nice_adds_less_than_one_spacing : forall base eb mn mx o guess a b,
  lin_ebase base = Some eb ->
  lin_nice base mn mx o guess = NR_dom a b ->
  let '(smn, smx) := nice_start mn mx in
  (a == smn /\ b == smx) \/
  exists l, find_level o (lin_count base eb smn smx true) guess = FL_ok l /\
    let sp := lin_spacing base eb l in
    smn - a < sp /\ b - smx < sp /\
    (a == smn \/ exists k : Z, a = inject_Z k * sp) /\ (b == smx \/ exists k : Z, b = inject_Z k * sp).
Proof. exact lin_nice_adds_less_than_one_spacing. Qed.
Print Assumptions C17_linear_nice_adds_less_than_one_spacing.

(* non-vacuity: [0.3, 2.7] (exact rationals), Max = 4 -> major 1, 2 at level 0, minor every 0.5;
   Nice -> [0, 3]; a domain around 0 with Max = 2 has no fitting level: Nice leaves it (D10) *)
Example C17_linear_example :
  match lin_ticks 0 (3 # 10) (27 # 10) (mkOpts 4 0 0) 5 with
  | TR_ticks ma mi => map Qred ma = [1; 2] /\ map Qred mi = [1 # 2; 1; 3 # 2; 2; 5 # 2]
  | _ => False end /\
  match lin_nice 0 (3 # 10) (27 # 10) (mkOpts 4 0 0) 5 with
  | NR_dom a b => Qred a = 0 /\ Qred b = 3 | _ => False end /\
  lin_count 0 10 (-1) 2 true 0 = 4%Z /\ lin_count 0 10 (-1) 2 true 7 = 3%Z.
Proof. vm_compute. repeat split; reflexivity. Qed.
End Linear.

(* Properties/C18.v — graph traversals, SCCs and subgraphs agree with their definitions on
   any graph.  ONLY statements; each is closed by [exact] of a lemma from Proofs/. *)
From Coq Require Import List ZArith NArith Lia Bool Permutation.
From MM Require Import Base.Num Base.GCGraph Base.GCReach.
From MM Require Import Model.Marks Spec.MarkSet Proofs.Marks.
From MM Require Import Spec.Dfs Model.Order Proofs.Order Proofs.OrderMarks.
Import ListNotations.

(* ================= NodeMarks behaves as a set of non-negative integers ================= *)

(* A fresh set is empty; Test is membership in the set the words denote. *)
Theorem C18_marks_new_empty : forall i, m_test m_new i = false.
Proof. exact new_spec. Qed.
Print Assumptions C18_marks_new_empty.

Theorem C18_marks_test_spec : forall m i, m_test m i = true <-> m_abs m i.
Proof. exact test_spec. Qed.
Print Assumptions C18_marks_test_spec.

(* Mark adds exactly i — for EVERY id i >= 0, however far beyond the current storage:
   growing keeps all words and covers the word Mark writes to (the index that is out of
   range on the pinned tree, defect D11). *)
Theorem C18_marks_mark_spec : forall m i j, m_test (m_mark m i) j = (j =? Z.of_N i)%Z || m_test m j.
Proof. exact mark_spec. Qed.
Print Assumptions C18_marks_mark_spec.

Theorem C18_marks_grow_covers : forall m i, (N.to_nat (i / 32) < length (m_grow m i))%nat.
Proof. exact grow_covers. Qed.
Print Assumptions C18_marks_grow_covers.

(* Unmark removes exactly i. *)
Theorem C18_marks_unmark_spec : forall m i j, m_test (m_unmark m i) j = negb (j =? Z.of_N i)%Z && m_test m j.
Proof. exact unmark_spec. Qed.
Print Assumptions C18_marks_unmark_spec.

(* Next(i) is the least marked j > i, or -1 when there is none (any i, negative included). *)
Theorem C18_marks_next_spec : forall m i, words_ok m ->
  let r := m_next m i in
  (r = (-1)%Z /\ forall j, (i < j)%Z -> m_test m j = false) \/
  ((i < r)%Z /\ (0 <= r)%Z /\ m_test m r = true /\ forall j, (i < j < r)%Z -> m_test m j = false).
Proof. exact next_spec. Qed.
Print Assumptions C18_marks_next_spec.

(* Any sequence of Mark, Unmark, Test and Next on a fresh NodeMarks returns exactly what
   the same sequence returns on a plain set of integers. *)
Theorem C18_marks_history : forall ops, m_run m_new ops = zs_run [] ops.
Proof. exact marks_history. Qed.
Print Assumptions C18_marks_history.

Example C18_marks_nonvacuous :
  m_run m_new [MMark 1024; MMark 5; MTest 1024; MNext 5; MUnmark 1024; MNext 5; MNext (-1)]
  = [0; 0; 1; 1024; 0; -1; 5]%Z.
Proof. vm_compute. reflexivity. Qed.

(* ================= PreOrder, PostOrder, Euler ================= *)

(* With fuel above the number of nodes the three models terminate, and what they return
   are the Enter projection, the Exit projection and the whole of ONE event sequence
   satisfying the depth-first specification [dfs_node] from the empty visited set. *)
Theorem C18_traversals_are_dfs : forall out n r fuel, out_wf out n -> (r < n)%N -> (N.to_nat n < fuel)%nat ->
  exists evs V', dfs_node out [] r evs V' /\
    preorder out fuel r = Some (enters evs) /\
    postorder out fuel r = Some (exits evs) /\
    euler out fuel r = Some evs.
Proof. exact traversals_dfs. Qed.
Print Assumptions C18_traversals_are_dfs.

(* The specification determines the event sequence (so "exactly the DFS order"). *)
Theorem C18_dfs_unique : forall out V n e1 V1, dfs_node out V n e1 V1 ->
  forall e2 V2, dfs_node out V n e2 V2 -> e1 = e2 /\ V1 = V2.
Proof. exact dfs_det. Qed.
Print Assumptions C18_dfs_unique.

(* What the specification implies: the pre-order lists exactly the nodes reachable from the
   root, each once, root first; the post-order is a permutation of it ending with the root;
   Enter/Exit calls are properly nested. *)
Theorem C18_dfs_facts : forall out r evs V', dfs_node out [] r evs V' ->
  (forall v, In v (enters evs) <-> path out r v) /\
  NoDup (enters evs) /\
  hd_error (enters evs) = Some r /\
  Permutation (enters evs) (exits evs) /\
  (exists l, exits evs = l ++ [r]) /\
  nested evs.
Proof. exact dfs_facts. Qed.
Print Assumptions C18_dfs_facts.

(* Whatever the fuel: a result, once returned, is the DFS order (no wrong answer from
   running out of fuel). *)
Theorem C18_preorder_sound : forall out fuel r l, preorder out fuel r = Some l ->
  exists evs V', dfs_node out [] r evs V' /\ l = enters evs.
Proof. exact preorder_is_dfs. Qed.
Print Assumptions C18_preorder_sound.

Theorem C18_postorder_sound : forall out fuel r l, postorder out fuel r = Some l ->
  exists evs V', dfs_node out [] r evs V' /\ l = exits evs.
Proof. exact postorder_is_dfs. Qed.
Print Assumptions C18_postorder_sound.

Example C18_traversal_nonvacuous :
  let g := [[1; 2; 1]; [2; 0]; [2]; [0]]%N in
  preorder (g_out g) 5 0 = Some [0; 1; 2]%N /\ postorder (g_out g) 5 0 = Some [2; 1; 0]%N /\
  euler (g_out g) 5 0 = Some [Enter 0; Enter 1; Enter 2; Exit 2; Exit 1; Exit 0]%N.
Proof. vm_compute. auto. Qed.

(* ================= reachability closure used by the SCC checker ================= *)
Theorem C18_reach_spec : forall out fuel r s, reach out fuel r = Some s ->
  forall v, ns_mem v s = true <-> path out r v.
Proof. exact reach_spec. Qed.
Print Assumptions C18_reach_spec.

(* Properties/C18.v — graph traversals, SCCs and subgraphs agree with their definitions on
   any graph.  ONLY statements; each is closed by [exact] of a lemma from Proofs/. *)
From Coq Require Import List ZArith NArith Lia Bool Permutation.
From MM Require Import Base.Num Base.GCGraph Base.GCReach.
From MM Require Import Model.Marks Spec.MarkSet Proofs.Marks.
From MM Require Import Spec.Dfs Model.Order Proofs.Order Proofs.OrderMarks.
Import ListNotations.

(* ================= NodeMarks behaves as a set of non-negative integers ================= *)

(* A fresh set is empty; Test is membership in the set the words denote. *)
Theorem C18_marks_new_empty : forall i, m_test m_new i = false.
Proof. exact new_spec. Qed.
Print Assumptions C18_marks_new_empty.

Theorem C18_marks_test_spec : forall m i, m_test m i = true <-> m_abs m i.
Proof. exact test_spec. Qed.
Print Assumptions C18_marks_test_spec.

(* Mark adds exactly i — for EVERY id i >= 0, however far beyond the current storage:
   growing keeps all words and covers the word Mark writes to (the index that is out of
   range on the pinned tree, defect D11). *)
Theorem C18_marks_mark_spec : forall m i j, m_test (m_mark m i) j = (j =? Z.of_N i)%Z || m_test m j.
Proof. exact mark_spec. Qed.
Print Assumptions C18_marks_mark_spec.

Theorem C18_marks_grow_covers : forall m i, (N.to_nat (i / 32) < length (m_grow m i))%nat.
Proof. exact grow_covers. Qed.
Print Assumptions C18_marks_grow_covers.

(* Unmark removes exactly i. *)
Theorem C18_marks_unmark_spec : forall m i j, m_test (m_unmark m i) j = negb (j =? Z.of_N i)%Z && m_test m j.
Proof. exact unmark_spec. Qed.
Print Assumptions C18_marks_unmark_spec.

(* Next(i) is the least marked j > i, or -1 when there is none (any i, negative included). *)
Theorem C18_marks_next_spec : forall m i, words_ok m ->
  let r := m_next m i in
  (r = (-1)%Z /\ forall j, (i < j)%Z -> m_test m j = false) \/
  ((i < r)%Z /\ (0 <= r)%Z /\ m_test m r = true /\ forall j, (i < j < r)%Z -> m_test m j = false).
Proof. exact next_spec. Qed.
Print Assumptions C18_marks_next_spec.

(* Any sequence of Mark, Unmark, Test and Next on a fresh NodeMarks returns exactly what
   the same sequence returns on a plain set of integers. *)
Theorem C18_marks_history : forall ops, m_run m_new ops = zs_run [] ops.
Proof. exact marks_history. Qed.
Print Assumptions C18_marks_history.

Example C18_marks_nonvacuous :
  m_run m_new [MMark 1024; MMark 5; MTest 1024; MNext 5; MUnmark 1024; MNext 5; MNext (-1)]
  = [0; 0; 1; 1024; 0; -1; 5]%Z.
Proof. vm_compute. reflexivity. Qed.

(* ================= PreOrder, PostOrder, Euler ================= *)

(* With fuel above the number of nodes the three models terminate, and what they return
   are the Enter projection, the Exit projection and the whole of ONE event sequence
   satisfying the depth-first specification [dfs_node] from the empty visited set. *)
Theorem C18_traversals_are_dfs : forall out n r fuel, out_wf out n -> (r < n)%N -> (N.to_nat n < fuel)%nat ->
  exists evs V', dfs_node out [] r evs V' /\
    preorder out fuel r = Some (enters evs) /\
    postorder out fuel r = Some (exits evs) /\
    euler out fuel r = Some evs.
Proof. exact traversals_dfs. Qed.
Print Assumptions C18_traversals_are_dfs.

(* The specification determines the event sequence (so "exactly the DFS order"). *)
Theorem C18_dfs_unique : forall out V n e1 V1, dfs_node out V n e1 V1 ->
  forall e2 V2, dfs_node out V n e2 V2 -> e1 = e2 /\ V1 = V2.
Proof. exact dfs_det. Qed.
Print Assumptions C18_dfs_unique.

(* What the specification implies: the pre-order lists exactly the nodes reachable from the
   root, each once, root first; the post-order is a permutation of it ending with the root;
   Enter/Exit calls are properly nested. *)
Theorem C18_dfs_facts : forall out r evs V', dfs_node out [] r evs V' ->
  (forall v, In v (enters evs) <-> path out r v) /\
  NoDup (enters evs) /\
  hd_error (enters evs) = Some r /\
  Permutation (enters evs) (exits evs) /\
  (exists l, exits evs = l ++ [r]) /\
  nested evs.
Proof. exact dfs_facts. Qed.
Print Assumptions C18_dfs_facts.

(* Whatever the fuel: a result, once returned, is the DFS order (no wrong answer from
   running out of fuel). *)
Theorem C18_preorder_sound : forall out fuel r l, preorder out fuel r = Some l ->
  exists evs V', dfs_node out [] r evs V' /\ l = enters evs.
Proof. exact preorder_is_dfs. Qed.
Print Assumptions C18_preorder_sound.

Theorem C18_postorder_sound : forall out fuel r l, postorder out fuel r = Some l ->
  exists evs V', dfs_node out [] r evs V' /\ l = exits evs.
Proof. exact postorder_is_dfs. Qed.
Print Assumptions C18_postorder_sound.

(* Reverse returns the list reversed (reverse post-order = Reverse(PostOrder)). *)
Theorem C18_reverse_spec : forall xs, reverse xs = rev xs.
Proof. exact reverse_spec. Qed.
Print Assumptions C18_reverse_spec.

Example C18_traversal_nonvacuous :
  let g := [[1; 2; 1]; [2; 0]; [2]; [0]]%N in
  preorder (g_out g) 5 0 = Some [0; 1; 2]%N /\ postorder (g_out g) 5 0 = Some [2; 1; 0]%N /\
  euler (g_out g) 5 0 = Some [Enter 0; Enter 1; Enter 2; Exit 2; Exit 1; Exit 0]%N.
Proof. vm_compute. auto. Qed.

(* ================= SCC ================= *)
From Coq Require Import FMapPositive QArith Sorted.
From MM Require Import Spec.Scc Proofs.Scc Model.Scc Model.Graph Proofs.Graph Model.Subgraph Proofs.Subgraph Model.Dot Proofs.Dot.

(* The checker every observed SCC result is put through decides exactly the property's
   definition: the components partition the nodes, two nodes share a component exactly when
   each reaches the other, and every edge leads to an equal or smaller component id
   (reverse topological numbering, as scc.go documents). *)
Theorem C18_scc_ok_sound_complete : forall g comps, g_wf g -> (scc_ok g comps = true <-> scc_spec g comps).
Proof. exact scc_ok_sound_complete. Qed.
Print Assumptions C18_scc_ok_sound_complete.

(* With SCCEdges: Out(c) lists exactly the OTHER components some edge of c enters, once each. *)
Theorem C18_scc_edges_ok_sound_complete : forall g comps outs, g_wf g -> scc_spec g comps ->
  (scc_edges_ok g comps outs = true <-> scc_edges_spec g comps outs).
Proof. exact scc_edges_ok_sound_complete. Qed.
Print Assumptions C18_scc_edges_ok_sound_complete.

(* SubnodeComponent is compared with the checker's own map, which is the component index. *)
Theorem C18_scc_component_correct : forall g comps m,
  cm_build (g_n g) comps 0%N (PositiveMap.empty N) = Some m ->
  forall c v, In v (comp_at comps c) -> cm_of m v = N.of_nat c.
Proof. exact scc_component_correct. Qed.
Print Assumptions C18_scc_component_correct.

Example C18_scc_nonvacuous :
  let g := [[1]; [0; 2]; [2]; [0]]%N in
  tarjan g true = Some ([[2]; [0; 1]; [3]], [[]; [0]; [1]])%N /\
  scc_ok g [[2]; [0; 1]; [3]]%N = true /\ scc_edges_ok g [[2]; [0; 1]; [3]]%N [[]; [0]; [1]]%N = true /\
  scc_ok g [[0; 1]; [2]; [3]]%N = false.
Proof. vm_compute. auto. Qed.

(* ================= MakeBiGraph, Equal, SimplifyMulti ================= *)

(* In is the transpose of Out, edge for edge (parallel edges keep their multiplicity). *)
Theorem C18_bigraph_in_is_transpose : forall g i j,
  count_occ N.eq_dec (bi_in g j) i = count_occ N.eq_dec (g_out g i) j.
Proof. exact bi_in_count. Qed.
Print Assumptions C18_bigraph_in_is_transpose.

(* Equal = same node count and, node by node, adjacency lists equal as multisets. *)
Theorem C18_equal_iff_multiset_adjacency : forall g1 g2,
  g_equal g1 g2 = true <-> (length g1 = length g2 /\ forall i, Permutation (g_out g1 i) (g_out g2 i)).
Proof. exact g_equal_spec. Qed.
Print Assumptions C18_equal_iff_multiset_adjacency.

(* SimplifyMulti: per node the targets in first-occurrence order, each once, carrying the sum
   of the weights of the merged parallel edges. *)
Theorem C18_simplify_multi_spec : forall l,
  map fst (simplify_adj l) = first_occ (map fst l) /\
  NoDup (map fst (simplify_adj l)) /\
  (forall o, In o (map fst (simplify_adj l)) <-> In o (map fst l)) /\
  (forall o w, In (o, w) (simplify_adj l) -> (w == wsum o l)%Q).
Proof. exact simplify_adj_spec. Qed.
Print Assumptions C18_simplify_multi_spec.

(* an unweighted multigraph: the merged weight is the multiplicity *)
Theorem C18_simplify_unit_weights : forall l o,
  (wsum o (map (fun o => (o, 1%Q)) l) == inject_Z (Z.of_nat (count_occ N.eq_dec l o)))%Q.
Proof. exact unit_weights_wsum. Qed.
Print Assumptions C18_simplify_unit_weights.

Example C18_graphops_nonvacuous :
  bi_in [[1; 1; 2]; [2]; [0; 2]]%N 2 = [0; 1; 2]%N /\
  g_equal [[1; 2; 1]; []]%N [[1; 1; 2]; []]%N = true /\ g_equal [[1; 2; 2]; []]%N [[1; 1; 2]; []]%N = false /\
  map fst (simplify_adj [(2, 1%Q); (1, 1%Q); (2, 1%Q)]%N) = [2; 1]%N.
Proof. vm_compute. auto. Qed.

(* ================= SubgraphKeep / SubgraphRemove ================= *)

(* Keep: for a well-formed request (distinct existing nodes; every edge joins kept nodes) the
   result has one node per requested node (NodeMap = the request), each node carries exactly
   the edges requested at it, in request order (EdgeMap), and every new edge, translated back
   through NodeMap and EdgeMap, is the old edge. *)
Theorem C18_subgraph_keep_spec : forall g nodes edges, keep_wf g nodes edges ->
  exists s, subgraph_keep g nodes edges = Some s /\
    sg_nodemap s = nodes /\
    forall i nd, nth_error s i = Some nd ->
      sg_oldedges nd = map snd (filter (fun e => (fst e =? sg_old nd)%N) edges) /\
      length (sg_out nd) = length (sg_oldedges nd) /\
      forall j t' e, nth_error (sg_out nd) j = Some t' -> nth_error (sg_oldedges nd) j = Some e ->
        exists t, nth_error nodes (N.to_nat t') = Some t /\ nth_error (g_out g (sg_old nd)) (N.to_nat e) = Some t.
Proof. exact subgraph_keep_spec. Qed.
Print Assumptions C18_subgraph_keep_spec.

(* Remove: NodeMap enumerates exactly the surviving nodes in ascending order; EdgeMap of a node
   enumerates exactly its surviving edge indices (target kept, edge not removed), ascending;
   every new edge translated back is the old edge. *)
Theorem C18_subgraph_remove_spec : forall g rm rme, g_wf g -> (zdistinct rm <= length g)%nat ->
  exists s, subgraph_remove g rm rme = Some s /\
    (forall v, In v (sg_nodemap s) <-> (v < g_n g)%N /\ zmem (Z.of_N v) rm = false) /\
    Sorted N.lt (sg_nodemap s) /\
    forall i nd, nth_error s i = Some nd ->
      length (sg_out nd) = length (sg_oldedges nd) /\
      Sorted N.lt (sg_oldedges nd) /\
      (forall e, In e (sg_oldedges nd) <->
         exists t, nth_error (g_out g (sg_old nd)) (N.to_nat e) = Some t /\
                   zmem (Z.of_N t) rm = false /\ zzmem (Z.of_N (sg_old nd), Z.of_N e) rme = false) /\
      forall j t' e, nth_error (sg_out nd) j = Some t' -> nth_error (sg_oldedges nd) j = Some e ->
        exists t, nth_error (sg_nodemap s) (N.to_nat t') = Some t /\ nth_error (g_out g (sg_old nd)) (N.to_nat e) = Some t.
Proof. exact subgraph_remove_spec. Qed.
Print Assumptions C18_subgraph_remove_spec.

Example C18_subgraph_nonvacuous :
  let g := [[1; 2]; [2; 0]; [0]]%N in
  keep_wf g [2; 0]%N [(0, 1); (2, 0)]%N /\
  option_map sg_edgemap (subgraph_keep g [2; 0]%N [(0, 1); (2, 0)]%N) = Some [[(2, 0)]; [(0, 1)]]%N /\
  option_map (map sg_out) (subgraph_remove g [1]%Z [(2, 0)]%Z) = Some [[1]; []]%N.
Proof.
  split; [|vm_compute; auto].
  split; [repeat constructor; simpl; intuition discriminate|].
  split.
  - intros v [H|[H|[]]]; subst; reflexivity.
  - intros e [H|[H|[]]]; subst; simpl; split; auto.
    + exists 2%N. simpl. auto.
    + exists 0%N. simpl. auto.
Qed.

(* ================= Dot ================= *)

(* Quoting: for EVERY byte string, reading the quoted form back (the quoted string ends at the
   first unescaped quote; backslash-n is a newline, backslash-c is c) restores it. *)
Theorem C18_dot_unescape_roundtrip : forall s : bytes, unescape (dot_string s) = Some s.
Proof. exact dot_unescape_roundtrip. Qed.
Print Assumptions C18_dot_unescape_roundtrip.

(* Every node is named by exactly one node statement and every edge by exactly one edge
   statement, in order; node names n<decimal> are unambiguous. *)
Theorem C18_dot_nodes_once : forall d out n, somes (map stmt_node (dot_stmts d out n)) = nodes_upto n.
Proof. exact dot_nodes_once. Qed.
Print Assumptions C18_dot_nodes_once.

Theorem C18_dot_edges_once : forall d out n,
  somes (map stmt_edge (dot_stmts d out n)) = flat_map (fun i => map (fun o => (i, o)) (out i)) (nodes_upto n).
Proof. exact dot_edges_once. Qed.
Print Assumptions C18_dot_edges_once.

(* The text Sprint/Fprint produce is exactly: the header "digraph <quoted name> {", the
   renderings of those statements in that order (n<i><attrs>; and n<i> -> n<o><attrs>;), and
   the closing brace - so "every node and edge once" is a statement about the output itself. *)
Theorem C18_dot_sprint_shape : forall d out n b, dot_sprint d out n = Some b ->
  exists body, render_all (dot_stmts d out n) = Some body /\
    b = ([100; 105; 103; 114; 97; 112; 104; 32] ++ dot_string (d_name d) ++ [32; 123; 10]
         ++ body ++ [125; 10])%N.
Proof. exact dot_sprint_shape. Qed.
Print Assumptions C18_dot_sprint_shape.

Theorem C18_dot_node_names_injective : forall a b, dec_N a = dec_N b -> a = b.
Proof. exact dec_N_inj. Qed.
Print Assumptions C18_dot_node_names_injective.

Example C18_dot_nonvacuous :
  dot_string [97; 34; 10; 92; 110]%N = [34; 97; 92; 34; 92; 110; 92; 92; 110; 34]%N /\
  option_map (@length N) (dot_sprint (mk_dot_opts [] None None None) (g_out [[1]; []]%N) 2) = Some 57%nat.
Proof. vm_compute. auto. Qed.

(* ================= the model of Tarjan's algorithm as written (scc.go:35-166) ================= *)
From MM Require Import Proofs.TarjanPartial Proofs.Tarjan Proofs.TarjanCorrect.

(* For EVERY well-formed graph the model of SCC() terminates (fuel = number of nodes + 1 is
   never exhausted) and returns the strongly connected components in reverse topological
   order, and with SCCEdges exactly the component edges.  The check compares every observed
   Go result list for list with this model (and also certifies it with scc_ok). *)
Theorem C18_tarjan_correct : forall g edges, g_wf g ->
  exists comps outs, tarjan g edges = Some (comps, outs) /\
    scc_spec g comps /\ (edges = true -> scc_edges_spec g comps outs).
Proof. exact tarjan_correct. Qed.
Print Assumptions C18_tarjan_correct.

(* Properties/C18.v — graph traversals, SCCs and subgraphs agree with their definitions on
   any graph.  ONLY statements; each is closed by [exact] of a lemma from Proofs/. *)
From Coq Require Import List ZArith NArith Lia Bool Permutation.
From MM Require Import Base.Num Base.GCGraph Base.GCReach.
From MM Require Import Model.Marks Spec.MarkSet Proofs.Marks.
From MM Require Import Spec.Dfs Model.Order Proofs.Order Proofs.OrderMarks.
Import ListNotations.

(* ================= NodeMarks behaves as a set of non-negative integers ================= *)

(* A fresh set is empty; Test is membership in the set the words denote. *)
Theorem C18_marks_new_empty : forall i, m_test m_new i = false.
Proof. exact new_spec. Qed.
Print Assumptions C18_marks_new_empty.

Theorem C18_marks_test_spec : forall m i, m_test m i = true <-> m_abs m i.
Proof. exact test_spec. Qed.
Print Assumptions C18_marks_test_spec.

(* Mark adds exactly i — for EVERY id i >= 0, however far beyond the current storage:
   growing keeps all words and covers the word Mark writes to (the index that is out of
   range on the pinned tree, defect D11). *)
Theorem C18_marks_mark_spec : forall m i j, m_test (m_mark m i) j = (j =? Z.of_N i)%Z || m_test m j.
Proof. exact mark_spec. Qed.
Print Assumptions C18_marks_mark_spec.

Theorem C18_marks_grow_covers : forall m i, (N.to_nat (i / 32) < length (m_grow m i))%nat.
Proof. exact grow_covers. Qed.
Print Assumptions C18_marks_grow_covers.

(* Unmark removes exactly i. *)
Theorem C18_marks_unmark_spec : forall m i j, m_test (m_unmark m i) j = negb (j =? Z.of_N i)%Z && m_test m j.
Proof. exact unmark_spec. Qed.
Print Assumptions C18_marks_unmark_spec.

(* Next(i) is the least marked j > i, or -1 when there is none (any i, negative included). *)
Theorem C18_marks_next_spec : forall m i, words_ok m ->
  let r := m_next m i in
  (r = (-1)%Z /\ forall j, (i < j)%Z -> m_test m j = false) \/
  ((i < r)%Z /\ (0 <= r)%Z /\ m_test m r = true /\ forall j, (i < j < r)%Z -> m_test m j = false).
Proof. exact next_spec. Qed.
Print Assumptions C18_marks_next_spec.

(* Any sequence of Mark, Unmark, Test and Next on a fresh NodeMarks returns exactly what
   the same sequence returns on a plain set of integers. *)
Theorem C18_marks_history : forall ops, m_run m_new ops = zs_run [] ops.
Proof. exact marks_history. Qed.
Print Assumptions C18_marks_history.

Example C18_marks_nonvacuous :
  m_run m_new [MMark 1024; MMark 5; MTest 1024; MNext 5; MUnmark 1024; MNext 5; MNext (-1)]
  = [0; 0; 1; 1024; 0; -1; 5]%Z.
Proof. vm_compute. reflexivity. Qed.

(* ================= PreOrder, PostOrder, Euler ================= *)

(* With fuel above the number of nodes the three models terminate, and what they return
   are the Enter projection, the Exit projection and the whole of ONE event sequence
   satisfying the depth-first specification [dfs_node] from the empty visited set. *)
Theorem C18_traversals_are_dfs : forall out n r fuel, out_wf out n -> (r < n)%N -> (N.to_nat n < fuel)%nat ->
  exists evs V', dfs_node out [] r evs V' /\
    preorder out fuel r = Some (enters evs) /\
    postorder out fuel r = Some (exits evs) /\
    euler out fuel r = Some evs.
Proof. exact traversals_dfs. Qed.
Print Assumptions C18_traversals_are_dfs.

(* The specification determines the event sequence (so "exactly the DFS order"). *)
Theorem C18_dfs_unique : forall out V n e1 V1, dfs_node out V n e1 V1 ->
  forall e2 V2, dfs_node out V n e2 V2 -> e1 = e2 /\ V1 = V2.
Proof. exact dfs_det. Qed.
Print Assumptions C18_dfs_unique.

(* What the specification implies: the pre-order lists exactly the nodes reachable from the
   root, each once, root first; the post-order is a permutation of it ending with the root;
   Enter/Exit calls are properly nested. *)
Theorem C18_dfs_facts : forall out r evs V', dfs_node out [] r evs V' ->
  (forall v, In v (enters evs) <-> path out r v) /\
  NoDup (enters evs) /\
  hd_error (enters evs) = Some r /\
  Permutation (enters evs) (exits evs) /\
  (exists l, exits evs = l ++ [r]) /\
  nested evs.
Proof. exact dfs_facts. Qed.
Print Assumptions C18_dfs_facts.

(* Whatever the fuel: a result, once returned, is the DFS order (no wrong answer from
   running out of fuel). *)
Theorem C18_preorder_sound : forall out fuel r l, preorder out fuel r = Some l ->
  exists evs V', dfs_node out [] r evs V' /\ l = enters evs.
Proof. exact preorder_is_dfs. Qed.
Print Assumptions C18_preorder_sound.

Theorem C18_postorder_sound : forall out fuel r l, postorder out fuel r = Some l ->
  exists evs V', dfs_node out [] r evs V' /\ l = exits evs.
Proof. exact postorder_is_dfs. Qed.
Print Assumptions C18_postorder_sound.

(* Reverse returns the list reversed (reverse post-order = Reverse(PostOrder)). *)
Theorem C18_reverse_spec : forall xs, reverse xs = rev xs.
Proof. exact reverse_spec. Qed.
Print Assumptions C18_reverse_spec.

Example C18_traversal_nonvacuous :
  let g := [[1; 2; 1]; [2; 0]; [2]; [0]]%N in
  preorder (g_out g) 5 0 = Some [0; 1; 2]%N /\ postorder (g_out g) 5 0 = Some [2; 1; 0]%N /\
  euler (g_out g) 5 0 = Some [Enter 0; Enter 1; Enter 2; Exit 2; Exit 1; Exit 0]%N.
Proof. vm_compute. auto. Qed.

(* ================= SCC ================= *)
From Coq Require Import FMapPositive QArith Sorted.
From MM Require Import Spec.Scc Proofs.Scc Model.Scc Model.Graph Proofs.Graph Model.Subgraph Proofs.Subgraph Model.Dot Proofs.Dot.

(* The checker every observed SCC result is put through decides exactly the property's
   definition: the components partition the nodes, two nodes share a component exactly when
   each reaches the other, and every edge leads to an equal or smaller component id
   (reverse topological numbering, as scc.go documents). *)
Theorem C18_scc_ok_sound_complete : forall g comps, g_wf g -> (scc_ok g comps = true <-> scc_spec g comps).
Proof. exact scc_ok_sound_complete. Qed.
Print Assumptions C18_scc_ok_sound_complete.

(* With SCCEdges: Out(c) lists exactly the OTHER components some edge of c enters, once each. *)
Theorem C18_scc_edges_ok_sound_complete : forall g comps outs, g_wf g -> scc_spec g comps ->
  (scc_edges_ok g comps outs = true <-> scc_edges_spec g comps outs).
Proof. exact scc_edges_ok_sound_complete. Qed.
Print Assumptions C18_scc_edges_ok_sound_complete.

(* SubnodeComponent is compared with the checker's own map, which is the component index. *)
Theorem C18_scc_component_correct : forall g comps m,
  cm_build (g_n g) comps 0%N (PositiveMap.empty N) = Some m ->
  forall c v, In v (comp_at comps c) -> cm_of m v = N.of_nat c.
Proof. exact scc_component_correct. Qed.
Print Assumptions C18_scc_component_correct.

Example C18_scc_nonvacuous :
  let g := [[1]; [0; 2]; [2]; [0]]%N in
  tarjan g true = Some ([[2]; [0; 1]; [3]], [[]; [0]; [1]])%N /\
  scc_ok g [[2]; [0; 1]; [3]]%N = true /\ scc_edges_ok g [[2]; [0; 1]; [3]]%N [[]; [0]; [1]]%N = true /\
  scc_ok g [[0; 1]; [2]; [3]]%N = false.
Proof. vm_compute. auto. Qed.

(* ================= MakeBiGraph, Equal, SimplifyMulti ================= *)

(* In is the transpose of Out, edge for edge (parallel edges keep their multiplicity). *)
Theorem C18_bigraph_in_is_transpose : forall g i j,
  count_occ N.eq_dec (bi_in g j) i = count_occ N.eq_dec (g_out g i) j.
Proof. exact bi_in_count. Qed.
Print Assumptions C18_bigraph_in_is_transpose.

(* Equal = same node count and, node by node, adjacency lists equal as multisets. *)
Theorem C18_equal_iff_multiset_adjacency : forall g1 g2,
  g_equal g1 g2 = true <-> (length g1 = length g2 /\ forall i, Permutation (g_out g1 i) (g_out g2 i)).
Proof. exact g_equal_spec. Qed.
Print Assumptions C18_equal_iff_multiset_adjacency.

(* SimplifyMulti: per node the targets in first-occurrence order, each once, carrying the sum
   of the weights of the merged parallel edges. *)
Theorem C18_simplify_multi_spec : forall l,
  map fst (simplify_adj l) = first_occ (map fst l) /\
  NoDup (map fst (simplify_adj l)) /\
  (forall o, In o (map fst (simplify_adj l)) <-> In o (map fst l)) /\
  (forall o w, In (o, w) (simplify_adj l) -> (w == wsum o l)%Q).
Proof. exact simplify_adj_spec. Qed.
Print Assumptions C18_simplify_multi_spec.

(* an unweighted multigraph: the merged weight is the multiplicity *)
Theorem C18_simplify_unit_weights : forall l o,
  (wsum o (map (fun o => (o, 1%Q)) l) == inject_Z (Z.of_nat (count_occ N.eq_dec l o)))%Q.
Proof. exact unit_weights_wsum. Qed.
Print Assumptions C18_simplify_unit_weights.

Example C18_graphops_nonvacuous :
  bi_in [[1; 1; 2]; [2]; [0; 2]]%N 2 = [0; 1; 2]%N /\
  g_equal [[1; 2; 1]; []]%N [[1; 1; 2]; []]%N = true /\ g_equal [[1; 2; 2]; []]%N [[1; 1; 2]; []]%N = false /\
  map fst (simplify_adj [(2, 1%Q); (1, 1%Q); (2, 1%Q)]%N) = [2; 1]%N.
Proof. vm_compute. auto. Qed.

(* ================= SubgraphKeep / SubgraphRemove ================= *)

(* Keep: for a well-formed request (distinct existing nodes; every edge joins kept nodes) the
   result has one node per requested node (NodeMap = the request), each node carries exactly
   the edges requested at it, in request order (EdgeMap), and every new edge, translated back
   through NodeMap and EdgeMap, is the old edge. *)
Theorem C18_subgraph_keep_spec : forall g nodes edges, keep_wf g nodes edges ->
  exists s, subgraph_keep g nodes edges = Some s /\
    sg_nodemap s = nodes /\
    forall i nd, nth_error s i = Some nd ->
      sg_oldedges nd = map snd (filter (fun e => (fst e =? sg_old nd)%N) edges) /\
      length (sg_out nd) = length (sg_oldedges nd) /\
      forall j t' e, nth_error (sg_out nd) j = Some t' -> nth_error (sg_oldedges nd) j = Some e ->
        exists t, nth_error nodes (N.to_nat t') = Some t /\ nth_error (g_out g (sg_old nd)) (N.to_nat e) = Some t.
Proof. exact subgraph_keep_spec. Qed.
Print Assumptions C18_subgraph_keep_spec.

(* (group hM) SubgraphKeep on EVERY request, well-formed or not (what the code does outside the property's
   quantifier, which ranges over requests that name a subgraph: keep_wf).  pos nodes x = oldToNew[x], the
   position of x in the node list, 0 for an id that is not kept (Go's zero value for a missing map key).
   (1) the model equals the closed form keep_any; (2) the call panics iff a listed node is outside the graph
   or listed twice, or a requested edge (u, j) does not exist in g, or edges are requested while no node is
   kept; (3) otherwise NodeMap is the node list and new node i carries, in request order, exactly the
   requests e with pos (source e) = i, with new target pos (old target); (4) pos x is the position of a kept
   x and 0 for every other id - so a request whose source is not kept is attached to new node 0 (where
   EdgeMap reports it as an edge of nodes[0]), and an edge into a node that is not kept becomes an edge into
   new node 0.  C18_check_ok_sound, op 7, states the accepted observation through keep_any. *)
From MM Require Import Proofs.SubgraphAny.
Theorem C18_subgraph_keep_any_request :
  (forall g nodes edges, subgraph_keep g nodes edges = keep_any g nodes edges) /\
  (forall g nodes edges, subgraph_keep g nodes edges = None <->
     ((exists v, In v nodes /\ (g_n g <= v)%N) \/ ~ NoDup nodes) \/
     (exists e, In e edges /\ edge_exists g e = false) \/
     (nodes = [] /\ edges <> [])) /\
  (forall g nodes edges s, subgraph_keep g nodes edges = Some s ->
     sg_nodemap s = nodes /\ length s = length nodes /\
     forall i nd, nth_error s i = Some nd ->
       sg_old nd = nth i nodes 0%N /\
       sg_oldedges nd = map snd (filter (fun e => (pos nodes (fst e) =? i)%nat) edges) /\
       sg_out nd = map (fun e => N.of_nat (pos nodes (keep_tgt g e))) (filter (fun e => (pos nodes (fst e) =? i)%nat) edges)) /\
  (forall nodes x, (In x nodes -> nth_error nodes (pos nodes x) = Some x) /\ (~ In x nodes -> pos nodes x = 0%nat)).
Proof. exact subgraph_keep_any_request. Qed.
Print Assumptions C18_subgraph_keep_any_request.
Example C18_ex_keep_any_request :
  let g := [[1; 2]; [2]; [0]]%N in
  (* keep nodes 2 and 1; request edge 0 of node 0 (0 -> 1, source not kept) and edge 0 of node 1 (1 -> 2):
     the first is attached to new node 0 (= old node 2) as an edge to new node 1, the second to new node 1 *)
  option_map (map (fun nd => (sg_old nd, sg_out nd, sg_oldedges nd))) (subgraph_keep g [2; 1] [(0, 0); (1, 0)])%N
    = Some [(2, [1], [0]); (1, [0], [0])]%N /\
  (* a requested edge that does not exist: panic; edges requested with no node kept: panic *)
  subgraph_keep g [2; 1]%N [(1, 1)]%N = None /\ subgraph_keep g [] [(0, 0)]%N = None /\ subgraph_keep g [] [] = Some [].
Proof. vm_compute. auto. Qed.

(* Remove: NodeMap enumerates exactly the surviving nodes in ascending order; EdgeMap of a node
   enumerates exactly its surviving edge indices (target kept, edge not removed), ascending;
   every new edge translated back is the old edge. *)
Theorem C18_subgraph_remove_spec : forall g rm rme, g_wf g -> (zdistinct rm <= length g)%nat ->
  exists s, subgraph_remove g rm rme = Some s /\
    (forall v, In v (sg_nodemap s) <-> (v < g_n g)%N /\ zmem (Z.of_N v) rm = false) /\
    Sorted N.lt (sg_nodemap s) /\
    forall i nd, nth_error s i = Some nd ->
      length (sg_out nd) = length (sg_oldedges nd) /\
      Sorted N.lt (sg_oldedges nd) /\
      (forall e, In e (sg_oldedges nd) <->
         exists t, nth_error (g_out g (sg_old nd)) (N.to_nat e) = Some t /\
                   zmem (Z.of_N t) rm = false /\ zzmem (Z.of_N (sg_old nd), Z.of_N e) rme = false) /\
      forall j t' e, nth_error (sg_out nd) j = Some t' -> nth_error (sg_oldedges nd) j = Some e ->
        exists t, nth_error (sg_nodemap s) (N.to_nat t') = Some t /\ nth_error (g_out g (sg_old nd)) (N.to_nat e) = Some t.
Proof. exact subgraph_remove_spec. Qed.
Print Assumptions C18_subgraph_remove_spec.

Example C18_subgraph_nonvacuous :
  let g := [[1; 2]; [2; 0]; [0]]%N in
  keep_wf g [2; 0]%N [(0, 1); (2, 0)]%N /\
  option_map sg_edgemap (subgraph_keep g [2; 0]%N [(0, 1); (2, 0)]%N) = Some [[(2, 0)]; [(0, 1)]]%N /\
  option_map (map sg_out) (subgraph_remove g [1]%Z [(2, 0)]%Z) = Some [[1]; []]%N.
Proof.
  split; [|vm_compute; auto].
  split; [repeat constructor; simpl; intuition discriminate|].
  split.
  - intros v [H|[H|[]]]; subst; reflexivity.
  - intros e [H|[H|[]]]; subst; simpl; split; auto.
    + exists 2%N. simpl. auto.
    + exists 0%N. simpl. auto.
Qed.

(* ================= Dot ================= *)

(* Quoting: for EVERY byte string, reading the quoted form back (the quoted string ends at the
   first unescaped quote; backslash-n is a newline, backslash-c is c) restores it. *)
Theorem C18_dot_unescape_roundtrip : forall s : bytes, unescape (dot_string s) = Some s.
Proof. exact dot_unescape_roundtrip. Qed.
Print Assumptions C18_dot_unescape_roundtrip.

(* Every node is named by exactly one node statement and every edge by exactly one edge
   statement, in order; node names n<decimal> are unambiguous. *)
Theorem C18_dot_nodes_once : forall d out n, somes (map stmt_node (dot_stmts d out n)) = nodes_upto n.
Proof. exact dot_nodes_once. Qed.
Print Assumptions C18_dot_nodes_once.

Theorem C18_dot_edges_once : forall d out n,
  somes (map stmt_edge (dot_stmts d out n)) = flat_map (fun i => map (fun o => (i, o)) (out i)) (nodes_upto n).
Proof. exact dot_edges_once. Qed.
Print Assumptions C18_dot_edges_once.

(* The text Sprint/Fprint produce is exactly: the header "digraph <quoted name> {", the
   renderings of those statements in that order (n<i><attrs>; and n<i> -> n<o><attrs>;), and
   the closing brace - so "every node and edge once" is a statement about the output itself. *)
Theorem C18_dot_sprint_shape : forall d out n b, dot_sprint d out n = Some b ->
  exists body, render_all (dot_stmts d out n) = Some body /\
    b = ([100; 105; 103; 114; 97; 112; 104; 32] ++ dot_string (d_name d) ++ [32; 123; 10]
         ++ body ++ [125; 10])%N.
Proof. exact dot_sprint_shape. Qed.
Print Assumptions C18_dot_sprint_shape.

Theorem C18_dot_node_names_injective : forall a b, dec_N a = dec_N b -> a = b.
Proof. exact dec_N_inj. Qed.
Print Assumptions C18_dot_node_names_injective.

Example C18_dot_nonvacuous :
  dot_string [97; 34; 10; 92; 110]%N = [34; 97; 92; 34; 92; 110; 92; 92; 110; 34]%N /\
  option_map (@length N) (dot_sprint (mk_dot_opts [] None None None) (g_out [[1]; []]%N) 2) = Some 57%nat.
Proof. vm_compute. auto. Qed.

(* ================= the model of Tarjan's algorithm as written (scc.go:35-166) ================= *)
From MM Require Import Proofs.TarjanPartial Proofs.Tarjan Proofs.TarjanCorrect.

(* For EVERY well-formed graph the model of SCC() terminates (fuel = number of nodes + 1 is
   never exhausted) and returns the strongly connected components in reverse topological
   order, and with SCCEdges exactly the component edges.  The check compares every observed
   Go result list for list with this model (and also certifies it with scc_ok). *)
Theorem C18_tarjan_correct : forall g edges, g_wf g ->
  exists comps outs, tarjan g edges = Some (comps, outs) /\
    scc_spec g comps /\ (edges = true -> scc_edges_spec g comps outs).
Proof. exact tarjan_correct. Qed.
Print Assumptions C18_tarjan_correct.

(* (group hM) The ORDER inside Out(c) (scc.go:131-149: sort.Ints, then adjacent duplicates removed).
   (1) In every result of the model, for any successor function and flag, each Out(c) is strictly ascending;
   (2) sort + adjacent-dedup of any list is strictly ascending with exactly the members of the list;
   (3) given scc_edges_spec and ascending Out lists, Out(c) EQUALS every strictly ascending list whose members
   are the other components some edge of c enters: the accepted observation is determined as a list.
   C18_check_ok_sound, op 3, provides both hypotheses of (3) for an accepted case line. *)
From MM Require Import Check.C18 Proofs.CheckC18Scc.
Theorem C18_scc_out_order :
  (forall out edges g st, tarjan_run out edges g = Some st ->
     Forall (StronglySorted N.lt) (rev_append (tj_outs st) [])) /\
  (forall l, StronglySorted N.lt (dedup_adj (Model.Graph.isort l)) /\
             forall z, In z (dedup_adj (Model.Graph.isort l)) <-> In z l) /\
  (forall g comps outs, scc_edges_spec g comps outs -> Forall (StronglySorted N.lt) outs ->
     forall c l, (c < length comps)%nat -> StronglySorted N.lt l ->
       (forall d, In d l <->
          (N.to_nat d <> c /\ exists u v, In u (comp_at comps c) /\ In v (comp_at comps (N.to_nat d)) /\ In v (g_out g u))) ->
       nth c outs [] = l).
Proof. exact scc_out_order. Qed.
Print Assumptions C18_scc_out_order.
Example C18_ex_scc_out_order :
  (* 0 -> 2, 0 -> 1, 0 -> 2 again, 1 and 2 sinks: Out(component of 0) = [0; 1], ascending, once each *)
  option_map snd (tarjan [[2; 1; 2]; []; []]%N true) = Some [[]; []; [0; 1]]%N.
Proof. vm_compute. reflexivity. Qed.

(* ================= comparator soundness: what an accepted case line means ================= *)
(* (group hI)  The check of this property accepts a case line when check_C18 (Check/C18.v) returns
   code 0 (it never returns the borderline code 1).  The theorems below say what that implies, with no
   reference to the executable models: the line is 18 :: op :: rest with op in 1..11, [rest] is EXACTLY
   the stated encoding of the case of that operation (graphs as n {deg target*}^n = enc_graph, integer
   lists count-prefixed = enc_Zs / enc_Zss; nothing is left over), the argument graph is well-formed, the
   "pure" flag is 1 and the arguments printed after the calls equal the arguments, and every observed
   value equals the specification-level value.  Proofs: Proofs/CheckC18*.v, composed with the
   model-meets-specification theorems above. *)
From MM Require Import Check.C18 Proofs.CheckBase Proofs.CheckC18Base Proofs.CheckC18Marks Proofs.CheckC18Trav Proofs.CheckC18Scc
  Proofs.CheckC18Graph Proofs.CheckC18Sub Proofs.CheckC18Dot Proofs.CheckC18Hist Proofs.CheckC18.
Local Open Scope Z_scope.

(* the dispatch: every accepted line is a completely decoded case of one of the eleven operations *)
Theorem C18_check_ok_sound : forall line c tag pos diag,
  check_C18 line = verdict c tag pos diag -> c = 0 \/ c = 1 ->
  c = 0 /\ exists op rest, line = 18 :: op :: rest /\
    ((op = 1 /\ marks_case_ok rest) \/ (op = 2 /\ trav_case_ok rest) \/ (op = 3 /\ scc_case_ok rest) \/
     (op = 4 /\ bigraph_case_ok rest) \/ (op = 5 /\ equal_case_ok rest) \/ (op = 6 /\ simplify_case_ok rest) \/
     (op = 7 /\ keep_case_ok rest) \/ (op = 8 /\ remove_case_ok rest) \/
     (op = 9 /\ dotstring_case_ok rest) \/ (op = 10 /\ sprint_case_ok rest) \/ (op = 11 /\ hist_case_ok rest)).
Proof. exact check_ok_sound. Qed.
Print Assumptions C18_check_ok_sound.

(* What the ten case predicates of C18_check_ok_sound say (they are definitions of Proofs/CheckC18*.v; the
   equivalences below hold by unfolding).
   op 1, NodeMarks: the line is a non-empty history of (operation, observed answer) entries (code id obs;
   code 0 Mark, 1 Unmark, 2 Test, 3 Next) and every observed answer is the answer of a plain SET of
   integers, starting empty (set_run, Proofs/CheckC18Marks.v: Mark/Unmark observed 0 = returned normally
   and add/remove the id; Test(i) = 1 iff i is in the set; Next(i) = the least member greater than i, or -1
   when there is none).
   op 2, PreOrder / PostOrder / Reverse / Euler, for every recorded root (at least one): a root outside
   the graph has status 2 (a call panicked) and all its seven lists are empty; a root r < n has status 0 and ONE
   event sequence evs satisfying the depth-first specification from the empty visited set such that
   PreOrder = its Enter projection, PostOrder = its Exit projection, Reverse(PostOrder) - both the
   returned slice and the argument slice afterwards - = the reversed Exit projection, Euler's callback
   sequence = evs (event codes 2*node Enter, 2*node+1 Exit), Euler with only Enter / only Exit = the
   projections of evs.
   op 3, SCC: status 0; the observed components satisfy scc_spec (partition of the nodes; same component
   iff mutually reachable; every edge leads to an equal or smaller component id); hascof = 1 exactly when
   flags <> 0 and then SubnodeComponent has one entry per node, the entry of each node being the index of
   the component containing it; one Out list per component, satisfying scc_edges_spec with SCCEdges (bit
   1 of flags) and all empty without it; every Out list is strictly ascending (group hM: this is what the
   list-for-list comparison with the model of Tarjan's algorithm adds), so by C18_scc_out_order Out(c) is
   THE ascending duplicate-free enumeration of the other components entered. *)
Theorem C18_check_meaning_traversals : forall rest,
  (marks_case_ok rest <->
     exists h : list (mop * Z), rest = Z.of_nat (length h) :: flat_map enc_mop h /\ h <> [] /\ set_run (fun _ => False) h) /\
  (trav_case_ok rest <->
     exists g obs, rest = enc_graph g ++ Z.of_nat (length obs) :: flat_map enc_trav obs ++ 1 :: enc_graph g /\
       g_wf g /\ obs <> [] /\
       Forall (fun o =>
         ((t_root o < 0 \/ Z.of_nat (length g) <= t_root o) ->
            t_status o = 2 /\ t_pre o = [] /\ t_post o = [] /\ t_rev o = [] /\ t_rva o = [] /\ t_eul o = [] /\ t_ent o = [] /\ t_ext o = []) /\
         (0 <= t_root o < Z.of_nat (length g) ->
            t_status o = 0 /\
            exists evs V', dfs_node (g_out g) [] (Z.to_N (t_root o)) evs V' /\
              t_pre o = ZsN (enters evs) /\ t_post o = ZsN (exits evs) /\
              t_rev o = ZsN (rev (exits evs)) /\ t_rva o = ZsN (rev (exits evs)) /\
              t_eul o = map ev_code evs /\
              t_ent o = map ev_code (filter is_enter evs) /\ t_ext o = map ev_code (filter is_exit evs))) obs) /\
  (scc_case_ok rest <->
     exists g flags compsN hascof cof outsN,
       rest = enc_graph g ++ flags :: 0 :: enc_Zss (map ZsN compsN) ++ hascof :: enc_Zs cof ++ enc_Zss (map ZsN outsN) ++ 1 :: enc_graph g /\
       g_wf g /\
       scc_spec g compsN /\
       hascof = (if flags =? 0 then 0 else 1) /\
       (flags = 0 -> cof = []) /\
       (flags <> 0 -> length cof = length g /\
          forall c v, In v (comp_at compsN c) -> nth (N.to_nat v) cof (-1) = Z.of_nat c) /\
       length outsN = length compsN /\
       (if Z.testbit flags 1 then scc_edges_spec g compsN outsN else Forall (fun l => l = []) outsN) /\
       Forall (StronglySorted N.lt) outsN).
Proof. exact case_meaning_traversals. Qed.
Print Assumptions C18_check_meaning_traversals.

(* ops 4-6.  MakeBiGraph: status 0, In(j) holds i exactly as often as Out(i) holds j (sources ascending),
   NumNodes/Out of the result are the argument's, idem = 1 (MakeBiGraph(b) == b).  Equal: the result, in
   both argument orders, is 1 exactly when the node counts agree and the adjacency lists are equal as
   multisets node by node, else 0.  SimplifyMulti: status 0; per node the observed targets are the input
   targets in first-occurrence order, each once, and each observed weight equals (Qeq) the sum of the weights
   of the merged parallel edges - the multiplicity for a plain graph (weighted = 0); weights are the decoded
   float64 bit patterns (wadj_decodes).
   ops 7, 8.  In general the observation is the model's value (status 2 and no rows exactly when the model
   panics, else status 0 and the rows NodeMap / Out / EdgeMap are the rows of the model's result: sg_matches,
   sg_row); for SubgraphKeep the model's value on EVERY request is given in the closed form keep_any, read by
   C18_subgraph_keep_any_request.  SubgraphKeep on a well-formed request (no negative number; keep_wf) and SubgraphRemove on
   EVERY request satisfy the specification: Keep returns the requested subgraph (keep_spec_concl = the
   conclusion of C18_subgraph_keep_spec), Remove returns the surviving nodes and edges in ascending order
   (remove_spec_concl = the conclusion of C18_subgraph_remove_spec) or panics exactly when more distinct
   ids are to be removed than there are nodes.
   ops 9, 10.  DotString: status 0, the observed bytes are dot_string of the argument AND the proved reader
   applied to the OBSERVED bytes restores the argument.  Sprint: either status 0 and the observed text is
   "digraph " ++ quoted name ++ " {\n" ++ body ++ "}\n" with body the rendering of dot_stmts (every node and
   every edge named once, in order), or status 2, no output bytes, and some statement carries an attribute whose
   value has an unsupported type.
   op 11, a history of k >= 1 calls (ops 2-8, 10) on ONE graph object: the line is k { len op sub }^k with
   len = 1 + |sub|; there is one graph g such that every sub-line begins with the encoding of g (the graph
   printed before every step is the graph printed before the first step) and every step satisfies the case
   predicate of its operation on its sub-line - which includes that the argument printed after the call is the
   argument printed before it, so the object is the same graph throughout the history. *)
Theorem C18_check_meaning_graphops : forall rest,
  (bigraph_case_ok rest <-> exists g insN,
     rest = enc_graph g ++ 0 :: enc_Zss (map ZsN insN) ++ enc_graph g ++ 1 :: 1 :: enc_graph g /\
     g_wf g /\ length insN = length g /\
     (forall i j, (j < length g)%nat -> count_occ N.eq_dec (nth j insN []) i = count_occ N.eq_dec (g_out g i) (N.of_nat j)) /\
     Forall (Sorted N.le) insN) /\
  (equal_case_ok rest <-> exists g1 g2 res,
     rest = enc_graph g1 ++ enc_graph g2 ++ 0 :: res :: res :: 1 :: enc_graph g1 ++ enc_graph g2 /\
     g_wf g1 /\ g_wf g2 /\ (res = 0 \/ res = 1) /\
     (res = 1 <-> (length g1 = length g2 /\ forall i, Permutation (g_out g1 i) (g_out g2 i)))) /\
  (simplify_case_ok rest <-> exists g weighted ws rg rws wg obs,
     rest = enc_graph g ++ weighted :: enc_Zss ws ++ 0 :: enc_graph rg ++ enc_Zss rws ++ 1 :: enc_graph g /\
     g_wf g /\
     (if weighted =? 0 then wg = unit_weights g /\ ws = []
      else Forall2 (fun tw a => wadj_decodes (fst tw) (snd tw) a) (combine g ws) wg /\ length ws = length g) /\
     map (map fst) wg = g /\
     Forall2 (fun tw a => wadj_decodes (fst tw) (snd tw) a) (combine rg rws) obs /\ length rws = length rg /\
     length rg = length g /\
     Forall2 (fun a o =>
       map fst o = first_occ (map fst a) /\ NoDup (map fst o) /\
       (forall t, In t (map fst o) <-> In t (map fst a)) /\
       (forall t w, In (t, w) o -> (w == wsum t a)%Q)) wg obs /\
     ((weighted =? 0) = true ->
        Forall2 (fun l o => forall t w, In (t, w) o -> (w == inject_Z (Z.of_nat (count_occ N.eq_dec l t)))%Q) g obs)) /\
  (keep_case_ok rest <-> exists g nodes edges status obs,
     let eflat := flat_pairs edges in
     rest = enc_graph g ++ enc_Zs nodes ++ enc_Zs eflat ++ status :: Z.of_nat (length obs) :: flat_map enc_sgobs obs
            ++ 1 :: enc_graph g ++ enc_Zs nodes ++ enc_Zs eflat /\
     g_wf g /\
     let nodesN := NsZ nodes in
     let edgesN := map (fun e => (Z.to_N (fst e), Z.to_N (snd e))) edges in
     let neg := existsb (fun x => x <? 0) (nodes ++ eflat) in
     sg_matches (if neg then None else keep_any g nodesN edgesN) status obs /\
     (neg = false -> keep_wf g nodesN edgesN ->
        status = 0 /\ exists s, Forall2 sg_row s obs /\ keep_spec_concl g nodesN edgesN s) /\
     (neg = false -> (exists v, In v nodesN /\ (g_n g <= v)%N) \/ ~ NoDup nodesN -> status = 2)) /\
  (remove_case_ok rest <-> exists g nodes edges status obs,
     let eflat := flat_pairs edges in
     rest = enc_graph g ++ enc_Zs nodes ++ enc_Zs eflat ++ status :: Z.of_nat (length obs) :: flat_map enc_sgobs obs
            ++ 1 :: enc_graph g ++ enc_Zs nodes ++ enc_Zs eflat /\
     g_wf g /\
     sg_matches (subgraph_remove g nodes edges) status obs /\
     ((zdistinct nodes <= length g)%nat ->
        status = 0 /\ exists s, Forall2 sg_row s obs /\ remove_spec_concl g nodes edges s) /\
     ((length g < zdistinct nodes)%nat -> status = 2)) /\
  (dotstring_case_ok rest <-> exists sz obs, rest = enc_Zs sz ++ 0 :: enc_Zs obs /\
     let s := NsZ sz in obs = ZsN (dot_string s) /\ unescape (NsZ obs) = Some s) /\
  (sprint_case_ok rest <-> exists g name haslabel labels hasn nattrs hase eattrs status obs,
     parse_sprint rest = Some ((g, name, haslabel, labels, hasn, nattrs, hase, eattrs, status, obs, 1, g), []) /\
     g_wf g /\
     let d := sprint_opts name haslabel labels hasn nattrs hase eattrs in
     let stmts := dot_stmts d (g_out g) (g_n g) in
     somes (map stmt_node stmts) = nodes_upto (g_n g) /\
     somes (map stmt_edge stmts) = flat_map (fun i => map (fun o => (i, o)) (g_out g i)) (nodes_upto (g_n g)) /\
     ((status = 0 /\ (forall s a, In s stmts -> In a (stmt_attrs s) -> snd a <> AOther) /\
       exists body, render_all stmts = Some body /\
         obs = ZsN ([100; 105; 103; 114; 97; 112; 104; 32] ++ dot_string (d_name d) ++ [32; 123; 10] ++ body ++ [125; 10])%N)
      \/ (status = 2 /\ obs = [] /\ exists s a, In s stmts /\ In a (stmt_attrs s) /\ snd a = AOther))) /\
  (hist_case_ok rest <-> exists (steps : list (Z * list Z)) g,
     rest = Z.of_nat (length steps) :: flat_map (fun s => Z.of_nat (S (length (snd s))) :: fst s :: snd s) steps /\
     steps <> [] /\
     Forall (fun s =>
       (exists r, snd s = enc_graph g ++ r) /\
       ((fst s = 2 /\ trav_case_ok (snd s)) \/ (fst s = 3 /\ scc_case_ok (snd s)) \/ (fst s = 4 /\ bigraph_case_ok (snd s)) \/
        (fst s = 5 /\ equal_case_ok (snd s)) \/ (fst s = 6 /\ simplify_case_ok (snd s)) \/ (fst s = 7 /\ keep_case_ok (snd s)) \/
        (fst s = 8 /\ remove_case_ok (snd s)) \/ (fst s = 10 /\ sprint_case_ok (snd s)))) steps).
Proof. exact case_meaning_graphops. Qed.
Print Assumptions C18_check_meaning_graphops.

(* (group hM) op 10 with the integer layout spelled out.  sprint_case_ok states the case through the record
   parser parse_sprint; this theorem turns the complete parse into an equation for the line.  Attribute kinds
   1 (int) and 4 (uint) decode to the same model value, so the layout is over RAW attributes (rattr: name,
   kind 0..4, payload as written: <bytes> for kind 0 string / 2 literal, one integer for kind 1 int / 4 uint,
   nothing for kind 3 unsupported) with attr_of decoding them into the model's attributes; enc_list enc xs =
   count followed by the encodings.  NodeAttrs: one row per node; EdgeAttrs: per node, per edge. *)
From MM Require Import Proofs.CheckC18DotLayout.
Theorem C18_check_sprint_layout : forall rest, sprint_case_ok rest ->
  exists g name haslabel labels hasn hase status obs (rn : list (list rattr)) (re : list (list (list rattr))),
    rest = enc_graph g ++ enc_Zs name ++ haslabel :: enc_Zss labels ++ hasn :: enc_list enc_rattrs rn ++
           hase :: enc_list (enc_list enc_rattrs) re ++ status :: enc_Zs obs ++ 1 :: enc_graph g /\
    Forall (Forall rattr_ok) rn /\ Forall (Forall (Forall rattr_ok)) re /\
    g_wf g /\
    let d := sprint_opts name haslabel labels hasn (map (map attr_of) rn) hase (map (map (map attr_of)) re) in
    let stmts := dot_stmts d (g_out g) (g_n g) in
    somes (map stmt_node stmts) = nodes_upto (g_n g) /\
    somes (map stmt_edge stmts) = flat_map (fun i => map (fun o => (i, o)) (g_out g i)) (nodes_upto (g_n g)) /\
    ((status = 0 /\ (forall s a, In s stmts -> In a (stmt_attrs s) -> snd a <> AOther) /\
      exists body, render_all stmts = Some body /\
        obs = ZsN ([100; 105; 103; 114; 97; 112; 104; 32] ++ dot_string (d_name d) ++ [32; 123; 10] ++ body ++ [125; 10])%N)
     \/ (status = 2 /\ obs = [] /\ exists s a, In s stmts /\ In a (stmt_attrs s) /\ snd a = AOther)).
Proof. exact sprint_case_layout. Qed.
Print Assumptions C18_check_sprint_layout.
Example C18_ex_rattr :
  enc_rattr (mkRA [108] 4 [] 7) = [1; 108; 4; 7] /\ attr_of (mkRA [108] 4 [] 7) = attr_of (mkRA [108] 1 [] 7) /\
  enc_rattr (mkRA [108] 0 [65; 66] 0) = [1; 108; 0; 2; 65; 66] /\ p_attr [1; 108; 5; 7] = None.
Proof. vm_compute. auto. Qed.

(* Non-vacuity: real case lines (harness output on /repo, one per operation; op 2 written by hand: the graph
   0->1,2  1->2  2->0 from root 0 and from the missing root 3) are accepted with code 0; lines with one
   observed number changed are rejected. *)
Example C18_check_ok_examples :
  let ok line := exists tag, check_C18 line = verdict 0 tag (-1) [] in
  let bad line := exists tag pos diag, check_C18 line = verdict 2 tag pos diag in
  ok [18; 1; 4; 0; 98; 0; 2; 98; 1; 3; 97; 98; 3; -1; 98] /\
  bad [18; 1; 4; 0; 98; 0; 2; 98; 1; 3; 97; 98; 3; -1; 99] /\
  ok [18; 2; 3; 2; 1; 2; 1; 2; 1; 0; 2; 0; 0; 3; 0; 1; 2; 3; 2; 1; 0; 3; 0; 1; 2; 3; 0; 1; 2; 6; 0; 2; 4; 5; 3; 1; 3; 0; 2; 4; 3; 5; 3; 1;
      3; 2; 0; 0; 0; 0; 0; 0; 0; 1; 3; 2; 1; 2; 1; 2; 1; 0] /\
  bad [18; 2; 3; 2; 1; 2; 1; 2; 1; 0; 2; 0; 0; 3; 0; 2; 1; 3; 2; 1; 0; 3; 0; 1; 2; 3; 0; 1; 2; 6; 0; 2; 4; 5; 3; 1; 3; 0; 2; 4; 3; 5; 3; 1;
       3; 2; 0; 0; 0; 0; 0; 0; 0; 1; 3; 2; 1; 2; 1; 2; 1; 0] /\
  ok [18; 3; 4; 2; 1; 3; 0; 0; 0; 3; 0; 4; 1; 1; 1; 3; 1; 0; 1; 2; 1; 4; 2; 0; 3; 1; 4; 0; 0; 2; 0; 1; 0; 1; 4; 2; 1; 3; 0; 0; 0] /\
  bad [18; 3; 4; 2; 1; 3; 0; 0; 0; 3; 0; 4; 1; 1; 1; 3; 1; 0; 1; 2; 1; 4; 2; 0; 3; 1; 4; 0; 0; 2; 0; 0; 0; 1; 4; 2; 1; 3; 0; 0; 0] /\
  ok [18; 4; 3; 2; 2; 1; 1; 0; 5; 2; 0; 2; 0; 1; 0; 3; 3; 1; 2; 2; 2; 0; 2; 3; 0; 2; 2; 3; 2; 2; 1; 1; 0; 5; 2; 0; 2; 0; 1; 1; 1; 3; 2; 2; 1; 1; 0; 5; 2; 0; 2; 0; 1] /\
  ok [18; 5; 3; 3; 1; 2; 2; 0; 0; 3; 3; 2; 0; 1; 0; 0; 0; 0; 0; 1; 3; 3; 1; 2; 2; 0; 0; 3; 3; 2; 0; 1; 0; 0] /\
  bad [18; 5; 3; 3; 1; 2; 2; 0; 0; 3; 3; 2; 0; 1; 0; 0; 0; 1; 0; 1; 3; 3; 1; 2; 2; 0; 0; 3; 3; 2; 0; 1; 0; 0] /\
  ok [18; 6; 4; 1; 3; 2; 1; 2; 2; 1; 3; 1; 1; 0; 0; 0; 4; 1; 3; 2; 1; 2; 2; 1; 3; 1; 1; 4; 1; 4607182418800017408; 2; 4607182418800017408; 4607182418800017408;
      2; 4607182418800017408; 4607182418800017408; 1; 4607182418800017408; 1; 4; 1; 3; 2; 1; 2; 2; 1; 3; 1; 1] /\
  ok [18; 7; 3; 5; 2; 2; 0; 0; 1; 1; 2; 0; 2; 1; 2; 2; 1; 0; 0; 2; 1; 1; 1; 2; 1; 0; 2; 0; 0; 1; 3; 5; 2; 2; 0; 0; 1; 1; 2; 0; 2; 1; 2; 2; 1; 0] /\
  ok [18; 8; 3; 2; 1; 2; 1; 1; 3; 0; 1; 1; 2; 0; 2; 4; 0; 1; 2; 1; 0; 1; 1; 1; 0; 2; 1; 0; 1; 3; 2; 1; 2; 1; 1; 3; 0; 1; 1; 2; 0; 2; 4; 0; 1; 2; 1] /\
  ok [18; 9; 19; 9; 125; 60; 108; 78; 62; 9; 124; 108; 13; 32; 108; 32; 123; 60; 92; 0; 0; 124; 0; 29; 34; 9; 92; 125; 92; 60; 108; 78; 92; 62; 9; 92; 124; 108; 13;
      32; 108; 32; 92; 123; 92; 60; 92; 92; 0; 0; 92; 124; 34] /\
  ok [18; 10; 1; 1; 0; 4; 0; 13; 123; 34; 0; 0; 0; 0; 1; 1; 1; 0; 0; 47; 100; 105; 103; 114; 97; 112; 104; 32; 34; 0; 13; 92; 123; 92; 34; 34; 32; 123; 10; 110; 48; 32;
      91; 108; 97; 98; 101; 108; 61; 34; 48; 34; 93; 59; 10; 110; 48; 32; 45; 62; 32; 110; 48; 59; 10; 125; 10; 1; 1; 1; 0] /\
  (* In(1) with its two sources swapped; a merged weight 2.0 instead of 1.0; a wrong NodeMap entry; a changed argument after the
     call; a quote left unescaped; an edge statement naming the wrong target *)
  bad [18; 4; 3; 2; 2; 1; 1; 0; 5; 2; 0; 2; 0; 1; 0; 3; 3; 1; 2; 2; 2; 2; 0; 3; 0; 2; 2; 3; 2; 2; 1; 1; 0; 5; 2; 0; 2; 0; 1; 1; 1; 3; 2; 2; 1; 1; 0; 5; 2; 0; 2; 0; 1] /\
  bad [18; 6; 4; 1; 3; 2; 1; 2; 2; 1; 3; 1; 1; 0; 0; 0; 4; 1; 3; 2; 1; 2; 2; 1; 3; 1; 1; 4; 1; 4607182418800017408; 2; 4607182418800017408; 4607182418800017408;
       2; 4607182418800017408; 4607182418800017408; 1; 4611686018427387904; 1; 4; 1; 3; 2; 1; 2; 2; 1; 3; 1; 1] /\
  bad [18; 7; 3; 5; 2; 2; 0; 0; 1; 1; 2; 0; 2; 1; 2; 2; 1; 0; 0; 2; 1; 1; 0; 2; 1; 0; 2; 0; 0; 1; 3; 5; 2; 2; 0; 0; 1; 1; 2; 0; 2; 1; 2; 2; 1; 0] /\
  bad [18; 8; 3; 2; 1; 2; 1; 1; 3; 0; 1; 1; 2; 0; 2; 4; 0; 1; 2; 1; 0; 1; 1; 1; 0; 2; 1; 0; 1; 3; 2; 1; 2; 1; 1; 3; 0; 1; 1; 2; 0; 2; 4; 0; 1; 2; 2] /\
  ok [18; 9; 3; 97; 34; 10; 0; 7; 34; 97; 92; 34; 92; 110; 34] /\
  bad [18; 9; 3; 97; 34; 10; 0; 6; 34; 97; 34; 92; 110; 34] /\
  bad [18; 10; 1; 1; 0; 4; 0; 13; 123; 34; 0; 0; 0; 0; 1; 1; 1; 0; 0; 47; 100; 105; 103; 114; 97; 112; 104; 32; 34; 0; 13; 92; 123; 92; 34; 34; 32; 123; 10; 110; 48; 32;
       91; 108; 97; 98; 101; 108; 61; 34; 48; 34; 93; 59; 10; 110; 48; 32; 45; 62; 32; 110; 49; 59; 10; 125; 10; 1; 1; 1; 0] /\
  (* op 11 (two steps cut out of a real history on the one-node graph: SCC, then MakeBiGraph); the second step on a
     different graph is rejected *)
  ok [18; 11; 2; 16; 3; 1; 0; 3; 0; 1; 1; 0; 1; 1; 0; 1; 0; 1; 1; 0; 12; 4; 1; 0; 0; 1; 0; 1; 0; 1; 1; 1; 0] /\
  bad [18; 11; 2; 16; 3; 1; 0; 3; 0; 1; 1; 0; 1; 1; 0; 1; 0; 1; 1; 0; 8; 4; 0; 0; 0; 0; 1; 1; 0].
Proof.
  cbv zeta. repeat split; vm_compute; repeat eexists.
Qed.

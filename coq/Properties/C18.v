(* Properties/C18.v — graph traversals, SCCs and subgraphs agree with their definitions. *)
From MM Require Import Base.Num Model.Marks Spec.MarkSet Proofs.Marks.

Theorem C18_marks_new_empty : forall i, m_test m_new i = false.
Proof. exact new_spec. Qed.
Print Assumptions C18_marks_new_empty.

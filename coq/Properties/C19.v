(* Properties/C19.v — IDom, Dom and DomFrontier equal the definitions of dominance on any
   flow graph.  ONLY statements; each is closed by [exact] of a lemma from Base/GDGraph.v,
   Proofs/DomSpec.v, Proofs/DomModel.v.
   Graphs are adjacency lists (node i -> list of successors, with multiplicity), nodes are
   natural numbers, the Go value -1 is [None].  All statements are for EVERY graph and root. *)
From Coq Require Import List Arith ZArith Permutation.
From MM Require Import Base.GDGraph Spec.Dom Model.Dom Proofs.DomSpec Proofs.DomModel Proofs.DomFrontier Proofs.DomDFS Proofs.DomCHK Proofs.CheckC19 Base.Num Check.C19.
Import ListNotations.
Local Open Scope nat_scope.

(* ---- the specification oracle (what the Go results are compared with) ---- *)

(* the reachability it uses is exactly the existence of a walk *)
Theorem C19_reach_is_path : forall g r v, In v (reach g r) <-> path g r v.
Proof. exact reach_spec. Qed.
Print Assumptions C19_reach_is_path.

(* "a dominates b", decided by deleting a and re-running reachability, means: b is reachable
   and a lies on every path from the root to b *)
Theorem C19_dominates_iff_paths : forall g r a b,
  dominates g r a b <-> (path g r b /\ forall l, walk g r l b -> In a (r :: l)).
Proof. exact dominates_iff_paths. Qed.
Print Assumptions C19_dominates_iff_paths.

(* the dominators of a node are totally ordered by dominance *)
Theorem C19_dominators_form_chain : forall g r a a' b,
  dominates g r a b -> dominates g r a' b -> dominates g r a a' \/ dominates g r a' a.
Proof. exact dominators_form_chain. Qed.
Print Assumptions C19_dominators_form_chain.

(* for every reachable node other than the root, idom_spec is its unique closest strict
   dominator: the strict dominator d such that every strict dominator of the node dominates d *)
Theorem C19_idom_spec_unique : forall g r b, In b (reach g r) -> b <> r ->
  exists d, idom_spec g r b = Some d /\
            (sdominates g r d b /\ forall a, sdominates g r a b -> dominates g r a d) /\
            forall d', (sdominates g r d' b /\ forall a, sdominates g r a b -> dominates g r a d') -> d' = d.
Proof. exact idom_spec_unique. Qed.
Print Assumptions C19_idom_spec_unique.

(* and -1 for the root and for unreachable nodes *)
Theorem C19_idom_spec_root_unreachable : forall g r b,
  b = r \/ ~ In b (reach g r) -> idom_spec g r b = None.
Proof. exact idom_spec_root_unreachable. Qed.
Print Assumptions C19_idom_spec_root_unreachable.

(* the frontier oracle: y in DF(x) iff y is reachable, x dominates a reachable predecessor
   of y, and x does not strictly dominate y *)
Theorem C19_df_spec_def : forall g r x y,
  In y (df_spec g r x) <->
  In y (reach g r) /\
  (exists p, In y (succs g p) /\ In p (reach g r) /\ dominates g r x p) /\
  ~ sdominates g r x y.
Proof. exact df_spec_def. Qed.
Print Assumptions C19_df_spec_def.

(* the tabulated form evaluated by Check/C19.v is that oracle *)
Theorem C19_checker_oracle_is_spec : forall g r,
  let R := reach g r in
  let av := lookup (avoid_table_on g r R) in
  map (idom_of R av) (seq 0 (length g)) = idom_spec_list g r /\
  forall x, In x R -> df_of g R av x = df_spec g r x.
Proof. exact oracle_table_correct. Qed.
Print Assumptions C19_checker_oracle_is_spec.

(* ---- Dom: the child lists invert IDom ---- *)
Theorem C19_dom_tree_inverts : forall idom ch, dom_children idom = Ok ch ->
  length ch = length idom /\
  forall i, i < length idom ->
    exists c, nth_error ch i = Some c /\ forall j, In j c <-> nth_error idom j = Some (Some i).
Proof. exact dom_tree_inverts. Qed.
Print Assumptions C19_dom_tree_inverts.

Theorem C19_dom_never_panics : forall idom,
  (forall j p, nth_error idom j = Some (Some p) -> p < length idom) ->
  exists ch, dom_children idom = Ok ch.
Proof. exact dom_children_total. Qed.
Print Assumptions C19_dom_never_panics.

(* ---- MakeBiGraph and DomFrontier ---- *)
(* In(b) lists each predecessor once per parallel edge, in ascending order; never panics on a
   well-formed graph *)
Theorem C19_make_bigraph : forall g, wf g ->
  exists insl, mk_ins g = Ok insl /\ length insl = length g /\
    forall b, b < length g ->
      exists ps, nth_error insl b = Some ps /\ length ps = indeg g b /\ forall p, In p ps <-> In b (succs g p).
Proof. exact make_bigraph_spec. Qed.
Print Assumptions C19_make_bigraph.

(* DomFrontier given the correct idom: on every well-formed graph (unreachable nodes, self-loops,
   parallel edges, irreducible loops included), with fuel >= the number of reachable nodes, the
   model of dom.go:87-127 does not panic and returns for EVERY node x exactly the specified
   frontier df_spec g r x, except that the root itself is not reported when it has exactly one
   incoming edge *)
Theorem C19_dom_frontier_eq_spec : forall g r, wf g -> r < length g ->
  forall fuel, length (reach g r) <= fuel ->
  exists df, dom_frontier fuel g r (idom_spec_list g r) = Ok df /\ length df = length g /\
    forall x, x < length g -> exists c, nth_error df x = Some c /\
      forall y, In y c <-> (In y (df_spec g r x) /\ ~ (y = r /\ indeg g r = 1)).
Proof. exact dom_frontier_eq_spec. Qed.
Print Assumptions C19_dom_frontier_eq_spec.

(* ---- the Cooper-Harvey-Kennedy sweep: every fixed point is sound ---- *)
(* idom is the array during the iteration (idom[root] = root); insl are the In lists.  If idom
   is unchanged by the per-node update (new_idom = the fold of intersect over the processed
   predecessors, dom.go:47-62) at every reachable node other than the root, then every node on
   the idom chain of a reachable node b dominates b.  No assumption on the numbering poNum. *)
Theorem C19_chk_fixed_point_sound : forall g r fuel insl poNum idom,
  (forall p b, In b (succs g p) -> exists ps, nth_error insl b = Some ps /\ In p ps) ->
  link idom r r ->
  (forall b, In b (reach g r) -> b <> r ->
     exists ps ni, nth_error insl b = Some ps /\ new_idom fuel idom poNum ps = Ok ni /\ nth_error idom b = Some ni) ->
  forall b a, In b (reach g r) -> chain idom b a -> dominates g r a b.
Proof. exact chk_fixed_point_sound. Qed.
Print Assumptions C19_chk_fixed_point_sound.

(* ---- PostOrder (order.go:31-47) as used by IDom ---- *)
(* with fuel > V the model of PostOrder never panics; reversed, it lists exactly the reachable
   nodes, once each, the root first, every other node after one of its predecessors *)
Theorem C19_postorder : forall g, wf g -> forall fuel r, r < length g -> length g < fuel ->
  exists rpo, rpostorder fuel g r = Ok rpo /\
    NoDup rpo /\ (forall u, In u rpo <-> In u (reach g r)) /\
    (exists t, rpo = r :: t) /\
    (forall u, In u rpo -> u <> r -> exists p, before rpo p u /\ In u (succs g p)).
Proof. exact rpostorder_spec. Qed.
Print Assumptions C19_postorder.

(* ---- IDom = idom_spec, for every graph and root ---- *)
(* On EVERY well-formed graph (unreachable nodes, self-loops, parallel edges, irreducible loops
   included) and every root, with fuel >= (V+1)^2 the model of IDom (Cooper-Harvey-Kennedy as
   written in dom.go:11-82, on top of PostOrder and MakeBiGraph) returns exactly idom_spec_list:
   it never panics (no slice index out of range, intersect never follows a -1 link and always
   meets), it terminates (at most V*V+1 sweeps), and the value is the closest strict dominator
   of every reachable node other than the root and -1 elsewhere. *)
Theorem C19_idom_chk_total : forall g r fuel, wf g -> r < length g ->
  (length g + 1) * (length g + 1) <= fuel ->
  idom_chk fuel g r = Ok (idom_spec_list g r).
Proof. exact chk_total. Qed.
Print Assumptions C19_idom_chk_total.

(* ---- the three API functions together ---- *)
(* IDom, then DomFrontier and Dom on its result: none panics or diverges, and the results are the
   specification (frontiers up to the root carve-out, child lists = inversion of IDom). *)
Theorem C19_idom_dom_frontier_end_to_end : forall g r fuel, wf g -> r < length g ->
  (length g + 1) * (length g + 1) <= fuel ->
  exists idom df ch,
    idom_chk fuel g r = Ok idom /\ idom = idom_spec_list g r /\
    dom_frontier fuel g r idom = Ok df /\ length df = length g /\
    (forall x, x < length g -> exists c, nth_error df x = Some c /\
       forall y, In y c <-> (In y (df_spec g r x) /\ ~ (y = r /\ indeg g r = 1))) /\
    dom_children idom = Ok ch /\ length ch = length g /\
    (forall i, i < length g -> exists c, nth_error ch i = Some c /\
       forall j, In j c <-> idom_spec g r j = Some i /\ j < length g).
Proof. exact idom_dom_frontier_end_to_end. Qed.
Print Assumptions C19_idom_dom_frontier_end_to_end.

(* ---- non-vacuity: Cooper-Harvey-Kennedy's irreducible example (their figure 4, nodes renumbered
   5->0 .. 1->4), with an unreachable node 5 feeding the join 4 and a self-loop on 3 ---- *)
Definition ex_g : graph := [[1; 2]; [4]; [3]; [4; 3]; [3]; [4; 5]].
Example C19_example :
  idom_spec_list ex_g 0 = [None; Some 0; Some 0; Some 0; Some 0; None] /\
  idom_chk 49 ex_g 0 = Ok (idom_spec_list ex_g 0) /\
  map (df_spec ex_g 0) [0; 1; 2; 3; 4; 5] = [[]; [4]; [3]; [4; 3]; [3]; []] /\
  dom_frontier 49 ex_g 0 (idom_spec_list ex_g 0) = Ok [[]; [4]; [3]; [3; 4]; [3]; []] /\
  dom_children (idom_spec_list ex_g 0) = Ok [[1; 2; 3; 4]; []; []; []; []; []] /\
  dominatesb ex_g 0 0 4 = true /\ dominatesb ex_g 0 1 4 = false /\ dominatesb ex_g 0 5 4 = false.
Proof. vm_compute. repeat split; reflexivity. Qed.

(* ---- what a passing verdict of the correspondence comparator means (Proofs/CheckC19.v) ---- *)
(* If check_C19 accepts a case line (code 0 = ok; 1 = borderline does not occur) then the line
   parses COMPLETELY (nothing is left over) into a well-formed graph g and a NON-EMPTY list of
   root observations, every root is a node, and for every root r ([root_sound], spelled out):
   IDom returned and its result is, entry for entry, idom_spec g r (-1 = None);
   Dom returned, NumNodes = V, row k of the tree has IDom(k) = idom_spec g r k, In(k) = [IDom(k)]
   and Out(k) a PERMUTATION of the nodes whose idom_spec is k; DomFrontier returned V rows and
   the row of every REACHABLE x is, as a set, df_spec g r x - membership of the root itself not
   being judged when the root has exactly one incoming edge (parallel edges counted); the
   arguments were not modified.  Only the specification oracle occurs (reach / idom_spec /
   children_of / df_spec, characterised by C19_reach_is_path, C19_dominates_iff_paths,
   C19_idom_spec_unique, C19_idom_spec_root_unreachable, C19_children_of_spec, C19_df_spec_def). *)
Theorem C19_check_ok_sound : forall line c tag pos diag,
  check_C19 line = verdict c tag pos diag -> (c = 0 \/ c = 1)%Z ->
  exists g os, p_line line = Some ((g, os), []) /\
    wf g /\ os <> [] /\
    Forall (fun o =>
      let n := length g in let r := ro_root o in
      r < n /\
      ro_stI o = 0%Z /\ ro_idom o = map oz (idom_spec_list g r) /\
      ro_stD o = 0%Z /\ ro_nn o = Z.of_nat n /\ length (ro_tree o) = n /\
      (forall k, k < n -> exists outs,
          nth_error (ro_tree o) k = Some (oz (idom_spec g r k), ([oz (idom_spec g r k)], outs)) /\
          Permutation outs (zs (children_of (idom_spec_list g r) k))) /\
      ro_stF o = 0%Z /\ length (ro_df o) = n /\
      (forall x, In x (reach g r) -> exists row, nth_error (ro_df o) x = Some row /\
          forall y, ~ (y = Z.of_nat r /\ indeg g r = 1) ->
            (In y row <-> exists y', y = Z.of_nat y' /\ In y' (df_spec g r x))) /\
      ro_mut o = 0%Z) os.
Proof. exact check_ok_sound. Qed.
Print Assumptions C19_check_ok_sound.

(* read through the definitions of dominance: an accepted IDom entry of a reachable non-root node
   IS the closest strict dominator (a strict dominator that every strict dominator dominates),
   and the entry of the root / of an unreachable node is -1 *)
Theorem C19_accepted_idom_is_closest_sdom : forall g o, wf g -> ro_root o < length g -> root_sound g o ->
  forall b, b < length g ->
    exists z, nth_error (ro_idom o) b = Some z /\
      ((b = ro_root o \/ ~ In b (reach g (ro_root o))) -> z = (-1)%Z) /\
      (In b (reach g (ro_root o)) -> b <> ro_root o ->
         exists d, z = Z.of_nat d /\ sdominates g (ro_root o) d b /\
                   forall a, sdominates g (ro_root o) a b -> dominates g (ro_root o) a d).
Proof. exact accepted_idom_is_closest_sdom. Qed.
Print Assumptions C19_accepted_idom_is_closest_sdom.

(* children_of is the inversion of an idom list; together with the Permutation above: Out(k)
   lists exactly the nodes whose immediate dominator is k, once each *)
Theorem C19_children_of_spec : forall idom i j,
  In j (children_of idom i) <-> nth_error idom j = Some (Some i).
Proof. exact children_of_spec. Qed.
Print Assumptions C19_children_of_spec.

(* an accepted line ALSO equals the algorithm model of dom.go value for value (order of the
   children and of the frontier members included): the comparison is stricter than the property *)
Theorem C19_check_ok_model : forall line c tag pos diag g os,
  check_C19 line = verdict c tag pos diag -> (c = 0 \/ c = 1)%Z -> p_line line = Some ((g, os), []) ->
  Forall (fun o => exists im ch d,
    idom_chk (fuel_for g) g (ro_root o) = Ok im /\ ro_idom o = map oz im /\
    dom_children (idom_spec_list g (ro_root o)) = Ok ch /\ map (fun t => snd (snd t)) (ro_tree o) = map zs ch /\
    dom_frontier (fuel_for g) g (ro_root o) (idom_spec_list g (ro_root o)) = Ok d /\
    map (fun x => nth x (ro_df o) []) (reach g (ro_root o)) = map (fun x => zs (nth x d [])) (reach g (ro_root o))) os.
Proof. exact check_ok_model. Qed.
Print Assumptions C19_check_ok_model.

(* non-vacuity: a real line of the harness (graph [[1;2];[3];[3];[0;3];[3;1]], roots 0 and 3; node 4
   unreachable and feeding the joins 3 and 1; root 0 has exactly one incoming edge) is accepted;
   a line without roots, and the same line with one frontier member dropped, are not *)
Definition ex_line : list Z :=
  [19; 5; 2; 1; 2; 1; 3; 1; 3; 2; 0; 3; 2; 3; 1; 2;
   0; 0; 0; 5; -1; 0; 0; 0; -1; 0; 5; 5; -1; 1; -1; 3; 1; 2; 3; 0; 1; 0; 0; 0; 1; 0; 0; 0; 1; 0; 0; -1; 1; -1; 0;
   0; 5; 0; 1; 3; 1; 3; 1; 3; 0; 0;
   3; 0; 0; 5; 3; 0; 0; -1; -1; 0; 5; 5; 3; 1; 3; 2; 1; 2; 0; 1; 0; 0; 0; 1; 0; 0; -1; 1; -1; 1; 0; -1; 1; -1; 0;
   0; 5; 1; 3; 1; 3; 1; 3; 1; 3; 0; 0]%Z.
Example C19_check_example :
  (exists tag, check_C19 ex_line = verdict 0 tag (-1) []) /\
  check_C19 [19; 1; 0; 0]%Z = verdict 2 0 (-1) [13%Z] /\
  (exists tag pos diag, check_C19 [19; 3; 1; 1; 0; 1; 1; 1; 0; 0; 0; 3; -1; 0; -1; 0; 3; 3; -1; 1; -1; 1; 1; 0; 1; 0; 0; -1; 1; -1; 0; 0; 3; 0; 0; 0; 0]%Z
                         = verdict 0 tag pos diag) /\
  (exists tag diag, check_C19 [19; 3; 1; 1; 0; 1; 1; 1; 0; 0; 0; 3; -1; 0; -1; 0; 3; 3; -1; 1; -1; 1; 1; 0; 1; 0; 0; -1; 1; -1; 0; 0; 3; 1; 1; 0; 0; 0]%Z
                     = verdict 2 tag 9 diag).
Proof. vm_compute. repeat split; eexists; try eexists; try eexists; reflexivity. Qed.

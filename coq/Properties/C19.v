(* Properties/C19.v — IDom, Dom and DomFrontier equal the definitions of dominance. *)
From Coq Require Import List Arith.
From MM Require Import Base.GDGraph Spec.Dom Model.Dom.
Import ListNotations.

(* reachability used by the oracle is exactly the existence of a walk *)
Theorem C19_reach_is_path : forall g r v, In v (reach g r) <-> path g r v.
Proof. exact reach_spec. Qed.
Print Assumptions C19_reach_is_path.

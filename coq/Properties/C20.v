(* Properties/C20.v — API calls are pure: inputs untouched, results deterministic,
   independent of the schedule.  Statements about the array-program model of
   Model/Heap.v; ONLY statements, each closed by [exact]. *)
From Coq Require Import List ZArith Bool Arith.
From MM Require Import Model.Heap Proofs.Heap.
Import ListNotations.

(* FRAME: a routine whose in-place updates all target arrays it allocated itself leaves
   every array that existed before the call exactly as it was — for every store, every
   binding of its arguments (aliased or not) and every content. *)
Theorem C20_readonly_frame : forall p e s, env_ok e s -> readonly p = true ->
  forall l, l < length s -> nth l (snd (exec p (e, s))) [] = nth l s [].
Proof. exact readonly_frame. Qed.
Print Assumptions C20_readonly_frame.

(* FOOTPRINT: a documented in-place operation changes nothing but the arrays of the
   arguments the static analysis lists. *)
Theorem C20_inplace_footprint : forall p e s, env_ok e s ->
  forall l, l < length s -> (forall v, In v (written_args p []) -> lookup e v <> Some l) ->
  nth l (snd (exec p (e, s))) [] = nth l s [].
Proof. exact inplace_footprint. Qed.
Print Assumptions C20_inplace_footprint.

(* DETERMINISM, whatever calls were made before: two calls of a read-only routine on
   argument arrays with equal contents return equal results, however different the rest
   of the two stores is (there is no other state a routine can read or write). *)
Theorem C20_deterministic : forall p e1 s1 e2 s2, env_ok e1 s1 -> env_ok e2 s2 ->
  readonly p = true -> view_eq e1 s1 e2 s2 -> (forall v, lookup e1 v = None <-> lookup e2 v = None) ->
  forall v, read (snd (exec p (e1, s1))) (fst (exec p (e1, s1))) v
          = read (snd (exec p (e2, s2))) (fst (exec p (e2, s2))) v.
Proof. exact readonly_deterministic. Qed.
Print Assumptions C20_deterministic.

(* SCHEDULES: any number of threads run read-only routines on arguments in a shared store,
   their commands interleaved by an ARBITRARY schedule over one global store; every thread
   that has finished sees exactly the values its sequential run would have produced. *)
Theorem C20_schedule_independent : forall s0 calls sched,
  (forall c, In c calls -> env_ok (fst c) s0 /\ readonly (snd c) = true) ->
  let '(s, ths) := grun sched (s0, init_threads calls) in
  forall i th c, nth_error ths i = Some th -> nth_error calls i = Some c -> t_rest th = [] ->
    forall v, read s (t_env th) v = read (snd (exec (snd c) (fst c, s0))) (fst (exec (snd c) (fst c, s0))) v.
Proof. exact schedule_independent. Qed.
Print Assumptions C20_schedule_independent.

(* The effect analysis applied to the library's routines: which arguments each may modify. *)
Theorem C20_routine_footprints :
  map (fun r => (r_id r, footprint r)) routines =
  [(1%Z, []); (2%Z, []); (3%Z, []); (4%Z, []); (5%Z, []); (6%Z, []); (7%Z, []); (8%Z, []); (9%Z, []); (10%Z, []);
   (11%Z, []); (12%Z, []);
   (20%Z, [0; 1]); (21%Z, [0]); (22%Z, [0]); (23%Z, [0]); (24%Z, [0]); (25%Z, [2])].
Proof. exact routines_effects. Qed.
Print Assumptions C20_routine_footprints.

(* Non-vacuity: the Mann-Whitney routine really sorts (a copy), two threads really interleave. *)
Example C20_example :
  let s0 : store := [[3; 1; 2]%Z; [9; 8]%Z] in
  let e : env := [(0, 0); (1, 1)] in
  let p := r_prog {| r_id := 1; r_nargs := 2; r_prog := copy_sort_use [0; 1] |} in
  readonly p = true /\ env_ok e s0 /\
  firstn 2 (snd (exec p (e, s0))) = s0 /\ length (snd (exec p (e, s0))) = 5 /\
  length (fst (grun [0; 1; 1; 0; 0; 1; 0; 1; 0; 1] (s0, init_threads [(e, p); (e, p)]))) = 8.
Proof.
  cbn. repeat split; try reflexivity.
  intros v l. destruct v as [|[|v]]; cbn; intros H; inversion H; auto.
Qed.

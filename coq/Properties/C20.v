(* Properties/C20.v — API calls are pure: inputs untouched, results deterministic,
   independent of the schedule.  Statements about the array-program model of
   Model/Heap.v; ONLY statements, each closed by [exact]. *)
From Coq Require Import List ZArith Bool Arith.
From Coq Require Import QArith.
From MM Require Import Base.Num Model.Heap Proofs.Heap Proofs.HeapRefine Model.HeapRoutines Proofs.HeapRoutines.
From MM Require Import Check.C20 Proofs.CheckBase Proofs.CheckC20.
From MM Require Model.Sample Model.Quantile Model.Utest Model.QuantileCI Model.Fit Model.Graph Model.Kde
  Model.Stream Model.Marks Model.Order Model.Scale Model.Ticks.
Local Open Scope nat_scope.
Import ListNotations.

(* FRAME: a routine whose in-place updates all target arrays it allocated itself leaves
   every array that existed before the call exactly as it was — for every store, every
   binding of its arguments (aliased or not) and every content. *)
Theorem C20_readonly_frame : forall (A : Type) (p : list (cmd A)) e s, env_ok e s -> readonly p = true ->
  forall l, l < length s -> nth l (snd (exec p (e, s))) [] = nth l s [].
Proof. exact @readonly_frame. Qed.
Print Assumptions C20_readonly_frame.

(* FOOTPRINT: a documented in-place operation changes nothing but the arrays of the
   arguments the static analysis lists. *)
Theorem C20_inplace_footprint : forall (A : Type) (p : list (cmd A)) e s, env_ok e s ->
  forall l, l < length s -> (forall v, In v (written_args p []) -> lookup e v <> Some l) ->
  nth l (snd (exec p (e, s))) [] = nth l s [].
Proof. exact @inplace_footprint. Qed.
Print Assumptions C20_inplace_footprint.

(* DETERMINISM, whatever calls were made before: two calls of a read-only routine on
   argument arrays with equal contents return equal results, however different the rest
   of the two stores is (there is no other state a routine can read or write). *)
Theorem C20_deterministic : forall (A : Type) (p : list (cmd A)) e1 s1 e2 s2, env_ok e1 s1 -> env_ok e2 s2 ->
  readonly p = true -> view_eq e1 s1 e2 s2 -> (forall v, lookup e1 v = None <-> lookup e2 v = None) ->
  forall v, read (snd (exec p (e1, s1))) (fst (exec p (e1, s1))) v
          = read (snd (exec p (e2, s2))) (fst (exec p (e2, s2))) v.
Proof. exact @readonly_deterministic. Qed.
Print Assumptions C20_deterministic.

(* SCHEDULES: any number of threads run read-only routines on arguments in a shared store,
   their commands interleaved by an ARBITRARY schedule over one global store; every thread
   that has finished sees exactly the values its sequential run would have produced. *)
Theorem C20_schedule_independent : forall (A : Type) (s0 : store A) calls sched,
  (forall c, In c calls -> env_ok (fst c) s0 /\ readonly (snd c) = true) ->
  let '(s, ths) := grun sched (s0, init_threads calls) in
  forall i th c, nth_error ths i = Some th -> nth_error calls i = Some c -> t_rest th = [] ->
    forall v, read s (t_env th) v = read (snd (exec (snd c) (fst c, s0))) (fst (exec (snd c) (fst c, s0))) v.
Proof. exact @schedule_independent. Qed.
Print Assumptions C20_schedule_independent.

(* The effect analysis applied to the library's routines: which arguments each may modify. *)
Theorem C20_routine_footprints :
  map (fun r => (r_id r, footprint r)) routines =
  [(1%Z, []); (2%Z, []); (3%Z, []); (4%Z, []); (5%Z, []); (6%Z, []); (7%Z, []); (8%Z, []); (9%Z, []); (10%Z, []);
   (11%Z, []); (12%Z, []);
   (20%Z, [0; 1]); (21%Z, [0]); (22%Z, [0]); (23%Z, [0]); (24%Z, [0]); (25%Z, [2]); (30%Z, [])].
Proof. exact routines_effects. Qed.
Print Assumptions C20_routine_footprints.

(* ====================================================================================== *)
(* REFINEMENT: array programs vs the numeric models of the other properties.               *)
(* ====================================================================================== *)
(* The generic theorem, once: for every array program p (any element type), every store and
   every binding of the arguments in which the arguments p writes in place are not aliased
   with other variables, what the run through the store leaves visible through each variable
   is exactly what the store-free value semantics [pexec] computes from the contents the
   arguments had at the call. *)
Theorem C20_exec_refines : forall (A : Type) (p : list (cmd A)) (args : list var) e (s : store A),
  env_ok e s ->
  (forall v, In v args -> lookup e v <> None) ->
  targets_bound p args = true ->
  (forall v, In v (written_args p []) -> unaliased e v) ->
  forall v, read (snd (exec p (e, s))) (fst (exec p (e, s))) v = pexec p (read s e) v.
Proof. exact @exec_refines. Qed.
Print Assumptions C20_exec_refines.

(* ... and for a routine = program + result function: RESULT = value semantics of the argument
   contents; FRAME: pre-existing arrays other than those of the written arguments unchanged;
   FOOTPRINT VALUE: each argument's array afterwards holds exactly its value-semantics value. *)
Theorem C20_routine_refines : forall (A R : Type) (r : vroutine A R) e (s : store A),
  env_ok e s ->
  (forall v, In v (v_args r) -> lookup e v <> None) ->
  v_static_ok r = true ->
  (forall v, In v (written_args (v_prog r) []) -> unaliased e v) ->
  fst (v_run r e s) = v_pure r (read s e) /\
  (forall l, l < length s -> (forall v, In v (written_args (v_prog r) []) -> lookup e v <> Some l) ->
     nth l (snd (v_run r e s)) [] = nth l s []) /\
  (forall v l, In v (v_args r) -> lookup e v = Some l ->
     nth l (snd (v_run r e s)) [] = pexec (v_prog r) (read s e) v).
Proof. exact @routine_refines. Qed.
Print Assumptions C20_routine_refines.

(* ---- the instantiated routines (Model/HeapRoutines.v).  [refines_readonly r pre m]: for every
   store and argument binding satisfying pre, the result is m(argument contents at the call)
   and EVERY pre-existing array is unchanged.  [refines_inplace r pre m W]: result m, every
   pre-existing array other than the W-arguments' unchanged, and each W-argument's array holds
   exactly the listed new contents (premise: the W-arguments are unaliased). ---- *)

(* stats.MannWhitneyUTest (defensive copies utest.go:134-137) = Model.Utest.mw_test (C01/C03) *)
Theorem C20_refines_MannWhitneyUTest : forall (A : Type) (cmp : A -> A -> comparison) cdf EL TL alt,
  refines_readonly (mw_h cmp cdf EL TL alt) no_pre
    (fun rho => Utest.mw_test cmp cdf EL TL (rho 0) (rho 1) alt).
Proof. exact @refines_mw_h. Qed.
Print Assumptions C20_refines_MannWhitneyUTest.

(* Sample.Quantile (Copy().Sort() sample.go:280-283) = Model.Quantile.quantile (C10);
   w = weighted, sorted = the Sorted flag; weighted samples have one weight per value *)
Theorem C20_refines_Quantile : forall w sorted q,
  refines_readonly (quantile_h w sorted q) (wlen w)
    (fun rho => Quantile.quantile (Sample.mkSample (rho 0) (wopt w (rho 1)) sorted) q).
Proof. exact refines_quantile_h. Qed.
Print Assumptions C20_refines_Quantile.

(* Sample.IQR (sample.go:318-320) = Model.Quantile.iqr *)
Theorem C20_refines_IQR : forall w sorted,
  refines_readonly (iqr_h w sorted) (wlen w)
    (fun rho => Quantile.iqr (Sample.mkSample (rho 0) (wopt w (rho 1)) sorted)).
Proof. exact refines_iqr_h. Qed.
Print Assumptions C20_refines_IQR.

(* QuantileCIResult.SampleCI (quantileci.go:54-56) = Model.QuantileCI.sample_ci (C11) *)
Theorem C20_refines_SampleCI : forall N lo hi sorted,
  refines_readonly (sample_ci_h N lo hi sorted) no_pre
    (fun rho => QuantileCI.sample_ci N lo hi false sorted (rho 0)).
Proof. exact refines_sample_ci_h. Qed.
Print Assumptions C20_refines_SampleCI.

(* fit.LOESS (loess.go:51-56) = Model.Fit.loess (C15) *)
Theorem C20_refines_LOESS : forall degree span x,
  refines_readonly (loess_h degree span x) (fun rho => length (rho 0) = length (rho 1))
    (fun rho => Fit.loess (rho 0) (rho 1) degree span x).
Proof. exact refines_loess_h. Qed.
Print Assumptions C20_refines_LOESS.

(* graph.Equal (scratch buffer eq.go:33-38) = Model.Graph.g_equal (C18), graphs of any size *)
Theorem C20_refines_GraphEqual : forall n1 n2,
  refines_readonly (equal_h n1 n2) no_pre
    (fun rho => Graph.g_equal (map rho (map v1 (seq 0 n1))) (map rho (map v2 (seq 0 n2)))).
Proof. exact refines_equal_h. Qed.
Print Assumptions C20_refines_GraphEqual.

(* vec.Map / Vectorize, vec.Concat, vec.Sum (fresh outputs vec.go:12-76) = Model.Sample.vmap/vconcat/vsum (C09) *)
Theorem C20_refines_vecMap : forall f, refines_readonly (vmap_h f) no_pre (fun rho => Sample.vmap f (rho 0)).
Proof. exact refines_vmap_h. Qed.
Print Assumptions C20_refines_vecMap.
Theorem C20_refines_vecConcat : forall k, refines_readonly (vconcat_h k) no_pre (fun rho => Sample.vconcat (map rho (seq 0 k))).
Proof. exact refines_vconcat_h. Qed.
Print Assumptions C20_refines_vecConcat.
Theorem C20_refines_vecSum : refines_readonly vsum_h no_pre (fun rho => Sample.vsum (rho 0)).
Proof. exact refines_vsum_h. Qed.
Print Assumptions C20_refines_vecSum.

(* KDE.PDF (kde.go:141-145, 173-179): result = Model.Kde.kde_pdf (C12) at the bandwidth
   Model.Kde.bandwidth_after; the ONLY array written is the Bandwidth cell, with that value *)
Theorem C20_refines_KDE_PDF : forall scott w kern b x,
  refines_inplace (kde_pdf_h scott w kern b x) no_pre
    (fun rho => Kde.kde_pdf (Kde.mkKde (rho 0) (wopt w (rho 1)) kern
                               (Kde.bandwidth_after (cell 0%Q (rho 2)) (scott (rho 0) (wopt w (rho 1)))) b) x)
    [(2, fun rho => [Kde.bandwidth_after (cell 0%Q (rho 2)) (scott (rho 0) (wopt w (rho 1)))])].
Proof. exact refines_kde_pdf_h. Qed.
Print Assumptions C20_refines_KDE_PDF.

(* Sample.Sort in place (sample.go:345-356) = Model.Sample.sample_sort *)
Theorem C20_refines_SampleSort : forall w sorted,
  refines_inplace (sort_h w sorted) (wlen w) (fun _ => tt)
    (if w then [(0, fun rho => Sample.s_xs (Sample.sample_sort (Sample.mkSample (rho 0) (Some (rho 1)) sorted)));
                (1, fun rho => match Sample.s_ws (Sample.sample_sort (Sample.mkSample (rho 0) (Some (rho 1)) sorted)) with
                               | Some ws => ws | None => [] end)]
     else [(0, fun rho => Sample.s_xs (Sample.sample_sort (Sample.mkSample (rho 0) None sorted)))]).
Proof. exact refines_sort_h. Qed.
Print Assumptions C20_refines_SampleSort.

(* graphalg.Reverse = Model.Order.reverse (C18) *)
Theorem C20_refines_Reverse : refines_inplace reverse_h no_pre (fun _ => tt) [(0, fun rho => Order.reverse (rho 0))].
Proof. exact refines_reverse_h. Qed.
Print Assumptions C20_refines_Reverse.

(* Linear.Nice / Log.Nice = Model.Ticks.lin_nice / log_nice (C17); the receiver is [Min; Max] *)
Theorem C20_refines_LinearNice : forall base o guess,
  refines_inplace (lin_nice_h base o guess) no_pre (fun _ => tt)
    [(0, fun rho => match Ticks.lin_nice base (nth 0 (rho 0) 0%Q) (nth 1 (rho 0) 0%Q) o guess with
                    | Ticks.NR_dom mn mx => [mn; mx] | Ticks.NR_panic => rho 0 end)].
Proof. exact refines_lin_nice_h. Qed.
Print Assumptions C20_refines_LinearNice.
Theorem C20_refines_LogNice : forall base o,
  refines_inplace (log_nice_h base o) no_pre (fun _ => tt)
    [(0, fun rho => let r := Ticks.log_nice base (nth 0 (rho 0) 0%Q) (nth 1 (rho 0) 0%Q) o in [fst r; snd r])].
Proof. exact refines_log_nice_h. Qed.
Print Assumptions C20_refines_LogNice.

(* Linear.SetClamp / Log.SetClamp = Model.Scale.sc_set_clamp (C16) *)
Theorem C20_refines_SetClamp : forall c,
  refines_inplace (set_clamp_h c) (fun rho => exists s, rho 0 = [s]) (fun _ => tt)
    [(0, fun rho => map (fun s => Scale.sc_set_clamp s c) (rho 0))].
Proof. exact refines_set_clamp_h. Qed.
Print Assumptions C20_refines_SetClamp.

(* StreamStats.Add / Combine = Model.Stream.s_add / s_combine (C13); Combine only reads o *)
Theorem C20_refines_StreamAdd : forall x,
  refines_inplace (add_h x) (fun rho => exists s, rho 0 = [s]) (fun _ => tt)
    [(0, fun rho => map (fun s => Stream.s_add s x) (rho 0))].
Proof. exact refines_add_h. Qed.
Print Assumptions C20_refines_StreamAdd.
Theorem C20_refines_StreamCombine :
  refines_inplace combine_h (fun rho => exists s o, rho 0 = [s] /\ rho 1 = [o]) (fun _ => tt)
    [(0, fun rho => [Stream.s_combine (cell Stream.s_init (rho 0)) (cell Stream.s_init (rho 1))])].
Proof. exact refines_combine_h. Qed.
Print Assumptions C20_refines_StreamCombine.

(* NodeMarks.Mark / Unmark = Model.Marks.m_mark / m_unmark (C18) *)
Theorem C20_refines_Mark : forall i, refines_inplace (mark_h i) no_pre (fun _ => tt) [(0, fun rho => Marks.m_mark (rho 0) i)].
Proof. exact refines_mark_h. Qed.
Print Assumptions C20_refines_Mark.
Theorem C20_refines_Unmark : forall i, refines_inplace (unmark_h i) no_pre (fun _ => tt) [(0, fun rho => Marks.m_unmark (rho 0) i)].
Proof. exact refines_unmark_h. Qed.
Print Assumptions C20_refines_Unmark.

(* every other read-only routine with a fresh result (the table's routines 6, 8-11: least squares,
   SCC, Subgraph*, traversals, dominators, SimplifyMulti, MakeBiGraph, Dot, slice statistics,
   t-tests, distribution methods), for ANY function m of the argument contents: the result is m
   of the contents at the call and nothing that existed before changes *)
Theorem C20_refines_any_readonly_fresh : forall (A R : Type) k (m : list (arr A) -> arr A) (out : arr A -> R),
  refines_readonly (pure_h k m out) no_pre (fun rho => out (m (map rho (seq 0 k)))).
Proof. exact @refines_pure_h. Qed.
Print Assumptions C20_refines_any_readonly_fresh.

(* the valued array programs have exactly the footprints of their entries in the table that
   Check/C20.v compares the observed modifications with *)
Theorem C20_valued_programs_match_table :
  (forall A cmp cdf EL TL alt, written_args (v_prog (@mw_h A cmp cdf EL TL alt)) [] = table_footprint 1) /\
  (forall w q, written_args (v_prog (quantile_h w false q)) [] = table_footprint 2) /\
  (forall w, written_args (v_prog (iqr_h w false)) [] = table_footprint 3) /\
  (forall N lo hi, written_args (v_prog (sample_ci_h N lo hi false)) [] = table_footprint 4) /\
  (forall d s x, written_args (v_prog (loess_h d s x)) [] = table_footprint 5) /\
  (forall A R k m out, written_args (v_prog (@pure_h A R k m out)) [] = table_footprint 11) /\
  (written_args (v_prog (sort_h true false)) [] = rev (table_footprint 20)) /\
  (written_args (v_prog reverse_h) [] = table_footprint 21) /\
  (forall b o g, written_args (v_prog (lin_nice_h b o g)) [] = table_footprint 22) /\
  (forall c, written_args (v_prog (set_clamp_h c)) [] = table_footprint 22) /\
  (forall x, written_args (v_prog (add_h x)) [] = table_footprint 23) /\
  (forall i, written_args (v_prog (mark_h i)) [] = table_footprint 23) /\
  (written_args (v_prog combine_h) [] = table_footprint 24) /\
  (forall sc w kn b x, written_args (v_prog (kde_pdf_h sc w kn b x)) [] = table_footprint 25).
Proof. exact valued_footprints. Qed.
Print Assumptions C20_valued_programs_match_table.

(* Non-vacuity of the refinement statements: Quantile on a weighted unsorted sample with a tie,
   run through a store where the sample's arrays sit between other data: result = the model's
   value, the store's old part is intact, two fresh arrays were allocated; Sample.Sort on the
   same store really sorts in place (weights follow their values). *)
Example C20_refines_example :
  let s0 : store Q := [[7]; [3; 1; 3; 2]; [10; 20; 30; 40]; [9]]%Q in
  let e : env := [(0, 1); (1, 2)] in
  wlen true (read s0 e) /\ env_ok e s0 /\
  fst (v_run (quantile_h true false (1 # 2)) e s0) = Quantile.RVal 2 /\
  firstn 4 (snd (v_run (quantile_h true false (1 # 2)) e s0)) = s0 /\
  length (snd (v_run (quantile_h true false (1 # 2)) e s0)) = 6 /\
  snd (v_run (sort_h true false) e s0) = [[7]; [1; 2; 3; 3]; [20; 40; 10; 30]; [9]]%Q.
Proof.
  repeat split; try (intros; vm_compute; reflexivity).
  intros v l. destruct v as [|[|v]]; cbn; intros H; inversion H; auto.
Qed.

(* Non-vacuity: the Mann-Whitney routine really sorts (a copy), two threads really interleave. *)
Example C20_example :
  let s0 : store Z := [[3; 1; 2]%Z; [9; 8]%Z] in
  let e : env := [(0, 0); (1, 1)] in
  let p := r_prog {| r_id := 1; r_nargs := 2; r_prog := copy_sort_use [0; 1] |} in
  readonly p = true /\ env_ok e s0 /\
  firstn 2 (snd (exec p (e, s0))) = s0 /\ length (snd (exec p (e, s0))) = 5 /\
  length (fst (grun [0; 1; 1; 0; 0; 1; 0; 1; 0; 1] (s0, init_threads [(e, p); (e, p)]))) = 8.
Proof.
  cbn. repeat split; try reflexivity.
  intros v l. destruct v as [|[|v]]; cbn; intros H; inversion H; auto.
Qed.

(* ====================================================================================== *)
(* WHAT A PASSING VERDICT OF THE CORRESPONDENCE COMPARATOR MEANS (Proofs/CheckC20.v)       *)
(* ====================================================================================== *)
(* If check_C20 accepts a case line (code 0 or 1) then the line was decoded COMPLETELY:
     line = 20 :: routine id :: nargs :: mutated[nargs] ++ [det; conc; panics; call; seed; size]
   with every flag exactly 0 or 1, and EITHER it is a line of one of the harness's canaries
   (ids 40..45) which is flagged exactly as [canary_expect] demands, OR
   - the routine id is in the table of Model/Heap.v and is not a canary id,
   - there is one flag per array argument of the routine,
   - every argument whose flag is set lies in the footprint that the PROVED effect analysis
     assigns to the routine's array program (C20_routine_footprints / C20_inplace_footprint),
     hence for a read-only routine NO flag is set (C20_readonly_frame),
   - det = conc = 1 and no library call of the case panicked,
   - for an in-place routine at least one flag is set.
   TRUSTED BASE of the C20 verdict - the comparator sees flags only, their meaning is established
   by the Go harness (harness/c20.go, c20reflect.go, c20canary.go) and is NOT proved:
     flag i set  <=>  the whole backing array of argument i (the window handed to the library,
                      its spare capacity and the sentinel guard cells on both sides, plus the
                      length) differs bitwise between the snapshot taken BEFORE the call and
                      the one taken AFTER it (receivers and struct arguments: deep walk of every
                      field, unexported ones included);
     det = 1     <=>  the canonical result (every float as its bit pattern, closures evaluated,
                      errors and panics included) is bit-identical (a) on rebuilt equal arguments
                      after 4 unrelated calls, (b) when the SAME arrays have been overwritten in
                      place with other contents, compared with never-seen arrays holding those
                      contents and with a fresh process, and after restoring, (c) in a fresh
                      process that has made no other call;
     conc = 1    <=>  the results of 16 goroutines calling on the shared inputs (GOMAXPROCS
                      1/4/16, barrier/staggered/pipelined start) equal the sequential result and
                      the shared arrays the sequential call left alone are untouched; the race
                      detector's report of the -race twin is judged by bin/plugins/C20.py
                      (any report outside the canary, a crash, a time-out or a missing line is a
                      violation or a machinery failure, never a pass);
     panics      =    the number of library calls of the first sequential call that panicked.
   The canaries make this trust checkable on every run: functions defined IN THE HARNESS that
   modify an argument inside its window and in its spare capacity, depend on the call count, on
   a cache keyed by a slice address, on the process history, on another call being in flight,
   and race on a global, must come out flagged - each in the single stage built to see it. *)
Theorem C20_check_ok_sound : forall line c tag pos diag,
  check_C20 line = verdict c tag pos diag -> (c = 0 \/ c = 1)%Z ->
  exists rid mut det conc pan idx seed size,
    line = (20 :: rid :: Z.of_nat (length mut) :: map b2z mut ++ [b2z det; b2z conc; pan; idx; seed; size])%Z /\
    (canary_ok rid mut det conc pan \/ routine_ok rid mut det conc pan).
Proof. exact check_ok_sound. Qed.
Print Assumptions C20_check_ok_sound.

(* ... spelled out ([routine_ok] and [canary_ok] unfolded) *)
Theorem C20_routine_ok_spec : forall rid mut det conc pan, routine_ok rid mut det conc pan <->
  canary_expect rid = None /\
  exists r, find_routine rid = Some r /\ length mut = r_nargs r /\
    (forall i, nth_error mut i = Some true -> In i (written_args (r_prog r) [])) /\
    (readonly (r_prog r) = true -> forall i, nth_error mut i <> Some true) /\
    det = true /\ conc = true /\ pan = 0%Z /\
    (readonly (r_prog r) = false -> exists i, nth_error mut i = Some true).
Proof. exact (fun rid mut det conc pan => conj (fun H => H) (fun H => H)). Qed.
Print Assumptions C20_routine_ok_spec.

(* COMPOSED READING, observation side: accepted + the trusted meaning of the flags
   ([changed i] = "the backing array of argument i differs before/after") => on THIS call, every
   modified argument lies in the proved footprint of the routine, a read-only routine modified
   none of its arguments, an in-place routine modified one, the result was reproduced bit for
   bit along the histories and schedules run, and nothing panicked. *)
Theorem C20_accepted_reading : forall rid mut det conc pan, routine_ok rid mut det conc pan ->
  forall changed : nat -> Prop,
  (forall i b, nth_error mut i = Some b -> (b = true <-> changed i)) ->
  exists r, find_routine rid = Some r /\
    (forall i, i < r_nargs r -> changed i -> In i (written_args (r_prog r) [])) /\
    (readonly (r_prog r) = true -> forall i, i < r_nargs r -> ~ changed i) /\
    (readonly (r_prog r) = false -> exists i, i < r_nargs r /\ changed i) /\
    det = true /\ conc = true /\ pan = 0%Z.
Proof. exact accepted_reading. Qed.
Print Assumptions C20_accepted_reading.

(* COMPOSED READING, model side: IF the Go routine behaves on this call like its array program
   (arguments bound to pairwise distinct arrays of some store) THEN the model predicts what the
   accepted flags report - every argument array outside the footprint is bit for bit what it
   was - and, beyond the calls that were run, C20_deterministic (ANY history) and
   C20_schedule_independent (ANY schedule, any number of threads) apply to it.  The premise is
   established by sampling only; an accepted line is an observation that does not contradict it. *)
Theorem C20_model_outside_footprint_unchanged : forall (A : Type) (p : list (cmd A)) e (s : store A), env_ok e s ->
  (forall v w l, lookup e v = Some l -> lookup e w = Some l -> v = w) ->
  forall i l, ~ In i (written_args p []) -> lookup e i = Some l ->
  nth l (snd (exec p (e, s))) [] = nth l s [].
Proof. exact model_outside_footprint_unchanged. Qed.
Print Assumptions C20_model_outside_footprint_unchanged.

(* Non-vacuity: concrete lines.  Accepted: MannWhitneyUTest (routine 1, two arrays) with no flag,
   Sample.Sort (routine 20) with both arrays changed, the API-scan case, the impure canary flagged
   [1 1 0], the history canary with det = 0.  Rejected: routine 1 with its first argument modified
   (position 0), Sample.Sort that changed nothing (3), det = 0 (1), conc = 0 (2), a panic (5), a
   canary that is NOT flagged (6); a flag that is neither 0 nor 1 is malformed. *)
Example C20_check_example :
  check_C20 [20; 1; 2; 0; 0; 1; 1; 0; 0; 77; 9]%Z = verdict V_OK 1 (-1) [0]%Z /\
  check_C20 [20; 20; 2; 1; 1; 1; 1; 0; 5; 77; 9]%Z = verdict V_OK 2 (-1) [5]%Z /\
  check_C20 [20; 30; 0; 1; 1; 0; 103; 0; 0]%Z = verdict V_OK 4 (-1) [103]%Z /\
  check_C20 [20; 40; 3; 1; 1; 0; 1; 1; 0; 70; 77; 9]%Z = verdict V_OK 8 (-1) [70]%Z /\
  check_C20 [20; 41; 1; 0; 0; 1; 0; 71; 77; 9]%Z = verdict V_OK 8 (-1) [71]%Z /\
  check_C20 [20; 1; 2; 1; 0; 1; 1; 0; 0; 77; 9]%Z = verdict V_MISMATCH 1 0 [0; 0]%Z /\
  check_C20 [20; 20; 2; 0; 0; 1; 1; 0; 5; 77; 9]%Z = verdict V_MISMATCH 2 3 [5]%Z /\
  check_C20 [20; 1; 2; 0; 0; 0; 1; 0; 0; 77; 9]%Z = verdict V_MISMATCH 1 1 [0]%Z /\
  check_C20 [20; 1; 2; 0; 0; 1; 0; 0; 0; 77; 9]%Z = verdict V_MISMATCH 1 2 [0]%Z /\
  check_C20 [20; 1; 2; 0; 0; 1; 1; 2; 0; 77; 9]%Z = verdict V_MISMATCH 1 5 [0; 2]%Z /\
  check_C20 [20; 40; 3; 1; 0; 0; 1; 1; 0; 70; 77; 9]%Z = verdict V_MISMATCH 8 6 [70; 40]%Z /\
  check_C20 [20; 41; 1; 0; 1; 1; 0; 71; 77; 9]%Z = verdict V_MISMATCH 8 6 [71; 41]%Z /\
  check_C20 [20; 1; 2; 0; 2; 1; 1; 0; 0; 77; 9]%Z = verdict V_MALFORMED 0 (-1) []%Z /\
  routine_ok 1 [false; false] true true 0 /\ canary_ok 40 [true; true; false] true true 0.
Proof.
  repeat (split; [vm_compute; reflexivity|]). split.
  - split; [reflexivity|]. eexists. split; [reflexivity|]. split; [reflexivity|].
    split; [intros [|[|[|i]]]; cbn; intro H; discriminate H|].
    split; [intros _ [|[|[|i]]]; cbn; intro H; discriminate H|].
    repeat (split; [reflexivity|]). cbn. discriminate.
  - eexists _, _, _, _. split; [reflexivity|]. split; [reflexivity|].
    split; [intros x H; now injection H|]. split; [intros x H; now injection H|]. reflexivity.
Qed.

(* Properties/C20.v — API calls are pure: inputs untouched, results deterministic,
   independent of the schedule.  Statements about the array-program model of
   Model/Heap.v; ONLY statements, each closed by [exact]. *)
From Coq Require Import List ZArith Bool Arith.
From Coq Require Import QArith.
From MM Require Import Base.Num Model.Heap Proofs.Heap Proofs.HeapRefine Model.HeapRoutines Proofs.HeapRoutines.
From MM Require Model.Sample Model.Quantile Model.Utest Model.QuantileCI Model.Fit Model.Graph Model.Kde
  Model.Stream Model.Marks Model.Order Model.Scale Model.Ticks.
Local Open Scope nat_scope.
Import ListNotations.

(* FRAME: a routine whose in-place updates all target arrays it allocated itself leaves
   every array that existed before the call exactly as it was — for every store, every
   binding of its arguments (aliased or not) and every content. *)
Theorem C20_readonly_frame : forall (A : Type) (p : list (cmd A)) e s, env_ok e s -> readonly p = true ->
  forall l, l < length s -> nth l (snd (exec p (e, s))) [] = nth l s [].
Proof. exact @readonly_frame. Qed.
Print Assumptions C20_readonly_frame.

(* FOOTPRINT: a documented in-place operation changes nothing but the arrays of the
   arguments the static analysis lists. *)
Theorem C20_inplace_footprint : forall (A : Type) (p : list (cmd A)) e s, env_ok e s ->
  forall l, l < length s -> (forall v, In v (written_args p []) -> lookup e v <> Some l) ->
  nth l (snd (exec p (e, s))) [] = nth l s [].
Proof. exact @inplace_footprint. Qed.
Print Assumptions C20_inplace_footprint.

(* DETERMINISM, whatever calls were made before: two calls of a read-only routine on
   argument arrays with equal contents return equal results, however different the rest
   of the two stores is (there is no other state a routine can read or write). *)
Theorem C20_deterministic : forall (A : Type) (p : list (cmd A)) e1 s1 e2 s2, env_ok e1 s1 -> env_ok e2 s2 ->
  readonly p = true -> view_eq e1 s1 e2 s2 -> (forall v, lookup e1 v = None <-> lookup e2 v = None) ->
  forall v, read (snd (exec p (e1, s1))) (fst (exec p (e1, s1))) v
          = read (snd (exec p (e2, s2))) (fst (exec p (e2, s2))) v.
Proof. exact @readonly_deterministic. Qed.
Print Assumptions C20_deterministic.

(* SCHEDULES: any number of threads run read-only routines on arguments in a shared store,
   their commands interleaved by an ARBITRARY schedule over one global store; every thread
   that has finished sees exactly the values its sequential run would have produced. *)
Theorem C20_schedule_independent : forall (A : Type) (s0 : store A) calls sched,
  (forall c, In c calls -> env_ok (fst c) s0 /\ readonly (snd c) = true) ->
  let '(s, ths) := grun sched (s0, init_threads calls) in
  forall i th c, nth_error ths i = Some th -> nth_error calls i = Some c -> t_rest th = [] ->
    forall v, read s (t_env th) v = read (snd (exec (snd c) (fst c, s0))) (fst (exec (snd c) (fst c, s0))) v.
Proof. exact @schedule_independent. Qed.
Print Assumptions C20_schedule_independent.

(* The effect analysis applied to the library's routines: which arguments each may modify. *)
Theorem C20_routine_footprints :
  map (fun r => (r_id r, footprint r)) routines =
  [(1%Z, []); (2%Z, []); (3%Z, []); (4%Z, []); (5%Z, []); (6%Z, []); (7%Z, []); (8%Z, []); (9%Z, []); (10%Z, []);
   (11%Z, []); (12%Z, []);
   (20%Z, [0; 1]); (21%Z, [0]); (22%Z, [0]); (23%Z, [0]); (24%Z, [0]); (25%Z, [2]); (30%Z, [])].
Proof. exact routines_effects. Qed.
Print Assumptions C20_routine_footprints.

(* ====================================================================================== *)
(* REFINEMENT: array programs vs the numeric models of the other properties.               *)
(* ====================================================================================== *)
(* The generic theorem, once: for every array program p (any element type), every store and
   every binding of the arguments in which the arguments p writes in place are not aliased
   with other variables, what the run through the store leaves visible through each variable
   is exactly what the store-free value semantics [pexec] computes from the contents the
   arguments had at the call. *)
Theorem C20_exec_refines : forall (A : Type) (p : list (cmd A)) (args : list var) e (s : store A),
  env_ok e s ->
  (forall v, In v args -> lookup e v <> None) ->
  targets_bound p args = true ->
  (forall v, In v (written_args p []) -> unaliased e v) ->
  forall v, read (snd (exec p (e, s))) (fst (exec p (e, s))) v = pexec p (read s e) v.
Proof. exact @exec_refines. Qed.
Print Assumptions C20_exec_refines.

(* ... and for a routine = program + result function: RESULT = value semantics of the argument
   contents; FRAME: pre-existing arrays other than those of the written arguments unchanged;
   FOOTPRINT VALUE: each argument's array afterwards holds exactly its value-semantics value. *)
Theorem C20_routine_refines : forall (A R : Type) (r : vroutine A R) e (s : store A),
  env_ok e s ->
  (forall v, In v (v_args r) -> lookup e v <> None) ->
  v_static_ok r = true ->
  (forall v, In v (written_args (v_prog r) []) -> unaliased e v) ->
  fst (v_run r e s) = v_pure r (read s e) /\
  (forall l, l < length s -> (forall v, In v (written_args (v_prog r) []) -> lookup e v <> Some l) ->
     nth l (snd (v_run r e s)) [] = nth l s []) /\
  (forall v l, In v (v_args r) -> lookup e v = Some l ->
     nth l (snd (v_run r e s)) [] = pexec (v_prog r) (read s e) v).
Proof. exact @routine_refines. Qed.
Print Assumptions C20_routine_refines.

(* ---- the instantiated routines (Model/HeapRoutines.v).  [refines_readonly r pre m]: for every
   store and argument binding satisfying pre, the result is m(argument contents at the call)
   and EVERY pre-existing array is unchanged.  [refines_inplace r pre m W]: result m, every
   pre-existing array other than the W-arguments' unchanged, and each W-argument's array holds
   exactly the listed new contents (premise: the W-arguments are unaliased). ---- *)

(* stats.MannWhitneyUTest (defensive copies utest.go:134-137) = Model.Utest.mw_test (C01/C03) *)
Theorem C20_refines_MannWhitneyUTest : forall (A : Type) (cmp : A -> A -> comparison) cdf EL TL alt,
  refines_readonly (mw_h cmp cdf EL TL alt) no_pre
    (fun rho => Utest.mw_test cmp cdf EL TL (rho 0) (rho 1) alt).
Proof. exact @refines_mw_h. Qed.
Print Assumptions C20_refines_MannWhitneyUTest.

(* Sample.Quantile (Copy().Sort() sample.go:280-283) = Model.Quantile.quantile (C10);
   w = weighted, sorted = the Sorted flag; weighted samples have one weight per value *)
Theorem C20_refines_Quantile : forall w sorted q,
  refines_readonly (quantile_h w sorted q) (wlen w)
    (fun rho => Quantile.quantile (Sample.mkSample (rho 0) (wopt w (rho 1)) sorted) q).
Proof. exact refines_quantile_h. Qed.
Print Assumptions C20_refines_Quantile.

(* Sample.IQR (sample.go:318-320) = Model.Quantile.iqr *)
Theorem C20_refines_IQR : forall w sorted,
  refines_readonly (iqr_h w sorted) (wlen w)
    (fun rho => Quantile.iqr (Sample.mkSample (rho 0) (wopt w (rho 1)) sorted)).
Proof. exact refines_iqr_h. Qed.
Print Assumptions C20_refines_IQR.

(* QuantileCIResult.SampleCI (quantileci.go:54-56) = Model.QuantileCI.sample_ci (C11) *)
Theorem C20_refines_SampleCI : forall N lo hi sorted,
  refines_readonly (sample_ci_h N lo hi sorted) no_pre
    (fun rho => QuantileCI.sample_ci N lo hi false sorted (rho 0)).
Proof. exact refines_sample_ci_h. Qed.
Print Assumptions C20_refines_SampleCI.

(* fit.LOESS (loess.go:51-56) = Model.Fit.loess (C15) *)
Theorem C20_refines_LOESS : forall degree span x,
  refines_readonly (loess_h degree span x) (fun rho => length (rho 0) = length (rho 1))
    (fun rho => Fit.loess (rho 0) (rho 1) degree span x).
Proof. exact refines_loess_h. Qed.
Print Assumptions C20_refines_LOESS.

(* graph.Equal (scratch buffer eq.go:33-38) = Model.Graph.g_equal (C18), graphs of any size *)
Theorem C20_refines_GraphEqual : forall n1 n2,
  refines_readonly (equal_h n1 n2) no_pre
    (fun rho => Graph.g_equal (map rho (map v1 (seq 0 n1))) (map rho (map v2 (seq 0 n2)))).
Proof. exact refines_equal_h. Qed.
Print Assumptions C20_refines_GraphEqual.

(* vec.Map / Vectorize, vec.Concat, vec.Sum (fresh outputs vec.go:12-76) = Model.Sample.vmap/vconcat/vsum (C09) *)
Theorem C20_refines_vecMap : forall f, refines_readonly (vmap_h f) no_pre (fun rho => Sample.vmap f (rho 0)).
Proof. exact refines_vmap_h. Qed.
Print Assumptions C20_refines_vecMap.
Theorem C20_refines_vecConcat : forall k, refines_readonly (vconcat_h k) no_pre (fun rho => Sample.vconcat (map rho (seq 0 k))).
Proof. exact refines_vconcat_h. Qed.
Print Assumptions C20_refines_vecConcat.
Theorem C20_refines_vecSum : refines_readonly vsum_h no_pre (fun rho => Sample.vsum (rho 0)).
Proof. exact refines_vsum_h. Qed.
Print Assumptions C20_refines_vecSum.

(* KDE.PDF (kde.go:141-145, 173-179): result = Model.Kde.kde_pdf (C12) at the bandwidth
   Model.Kde.bandwidth_after; the ONLY array written is the Bandwidth cell, with that value *)
Theorem C20_refines_KDE_PDF : forall scott w kern b x,
  refines_inplace (kde_pdf_h scott w kern b x) no_pre
    (fun rho => Kde.kde_pdf (Kde.mkKde (rho 0) (wopt w (rho 1)) kern
                               (Kde.bandwidth_after (cell 0%Q (rho 2)) (scott (rho 0) (wopt w (rho 1)))) b) x)
    [(2, fun rho => [Kde.bandwidth_after (cell 0%Q (rho 2)) (scott (rho 0) (wopt w (rho 1)))])].
Proof. exact refines_kde_pdf_h. Qed.
Print Assumptions C20_refines_KDE_PDF.

(* Sample.Sort in place (sample.go:345-356) = Model.Sample.sample_sort *)
Theorem C20_refines_SampleSort : forall w sorted,
  refines_inplace (sort_h w sorted) (wlen w) (fun _ => tt)
    (if w then [(0, fun rho => Sample.s_xs (Sample.sample_sort (Sample.mkSample (rho 0) (Some (rho 1)) sorted)));
                (1, fun rho => match Sample.s_ws (Sample.sample_sort (Sample.mkSample (rho 0) (Some (rho 1)) sorted)) with
                               | Some ws => ws | None => [] end)]
     else [(0, fun rho => Sample.s_xs (Sample.sample_sort (Sample.mkSample (rho 0) None sorted)))]).
Proof. exact refines_sort_h. Qed.
Print Assumptions C20_refines_SampleSort.

(* graphalg.Reverse = Model.Order.reverse (C18) *)
Theorem C20_refines_Reverse : refines_inplace reverse_h no_pre (fun _ => tt) [(0, fun rho => Order.reverse (rho 0))].
Proof. exact refines_reverse_h. Qed.
Print Assumptions C20_refines_Reverse.

(* Linear.Nice / Log.Nice = Model.Ticks.lin_nice / log_nice (C17); the receiver is [Min; Max] *)
Theorem C20_refines_LinearNice : forall base o guess,
  refines_inplace (lin_nice_h base o guess) no_pre (fun _ => tt)
    [(0, fun rho => match Ticks.lin_nice base (nth 0 (rho 0) 0%Q) (nth 1 (rho 0) 0%Q) o guess with
                    | Ticks.NR_dom mn mx => [mn; mx] | Ticks.NR_panic => rho 0 end)].
Proof. exact refines_lin_nice_h. Qed.
Print Assumptions C20_refines_LinearNice.
Theorem C20_refines_LogNice : forall base o,
  refines_inplace (log_nice_h base o) no_pre (fun _ => tt)
    [(0, fun rho => let r := Ticks.log_nice base (nth 0 (rho 0) 0%Q) (nth 1 (rho 0) 0%Q) o in [fst r; snd r])].
Proof. exact refines_log_nice_h. Qed.
Print Assumptions C20_refines_LogNice.

(* Linear.SetClamp / Log.SetClamp = Model.Scale.sc_set_clamp (C16) *)
Theorem C20_refines_SetClamp : forall c,
  refines_inplace (set_clamp_h c) (fun rho => exists s, rho 0 = [s]) (fun _ => tt)
    [(0, fun rho => map (fun s => Scale.sc_set_clamp s c) (rho 0))].
Proof. exact refines_set_clamp_h. Qed.
Print Assumptions C20_refines_SetClamp.

(* StreamStats.Add / Combine = Model.Stream.s_add / s_combine (C13); Combine only reads o *)
Theorem C20_refines_StreamAdd : forall x,
  refines_inplace (add_h x) (fun rho => exists s, rho 0 = [s]) (fun _ => tt)
    [(0, fun rho => map (fun s => Stream.s_add s x) (rho 0))].
Proof. exact refines_add_h. Qed.
Print Assumptions C20_refines_StreamAdd.
Theorem C20_refines_StreamCombine :
  refines_inplace combine_h (fun rho => exists s o, rho 0 = [s] /\ rho 1 = [o]) (fun _ => tt)
    [(0, fun rho => [Stream.s_combine (cell Stream.s_init (rho 0)) (cell Stream.s_init (rho 1))])].
Proof. exact refines_combine_h. Qed.
Print Assumptions C20_refines_StreamCombine.

(* NodeMarks.Mark / Unmark = Model.Marks.m_mark / m_unmark (C18) *)
Theorem C20_refines_Mark : forall i, refines_inplace (mark_h i) no_pre (fun _ => tt) [(0, fun rho => Marks.m_mark (rho 0) i)].
Proof. exact refines_mark_h. Qed.
Print Assumptions C20_refines_Mark.
Theorem C20_refines_Unmark : forall i, refines_inplace (unmark_h i) no_pre (fun _ => tt) [(0, fun rho => Marks.m_unmark (rho 0) i)].
Proof. exact refines_unmark_h. Qed.
Print Assumptions C20_refines_Unmark.

(* Non-vacuity of the refinement statements: Quantile on a weighted unsorted sample with a tie,
   run through a store where the sample's arrays sit between other data: result = the model's
   value, the store's old part is intact, two fresh arrays were allocated; Sample.Sort on the
   same store really sorts in place (weights follow their values). *)
Example C20_refines_example :
  let s0 : store Q := [[7]; [3; 1; 3; 2]; [10; 20; 30; 40]; [9]]%Q in
  let e : env := [(0, 1); (1, 2)] in
  wlen true (read s0 e) /\ env_ok e s0 /\
  fst (v_run (quantile_h true false (1 # 2)) e s0) = Quantile.RVal 2 /\
  firstn 4 (snd (v_run (quantile_h true false (1 # 2)) e s0)) = s0 /\
  length (snd (v_run (quantile_h true false (1 # 2)) e s0)) = 6 /\
  snd (v_run (sort_h true false) e s0) = [[7]; [1; 2; 3; 3]; [20; 40; 10; 30]; [9]]%Q.
Proof.
  repeat split; try (intros; vm_compute; reflexivity).
  intros v l. destruct v as [|[|v]]; cbn; intros H; inversion H; auto.
Qed.

(* Non-vacuity: the Mann-Whitney routine really sorts (a copy), two threads really interleave. *)
Example C20_example :
  let s0 : store Z := [[3; 1; 2]%Z; [9; 8]%Z] in
  let e : env := [(0, 0); (1, 1)] in
  let p := r_prog {| r_id := 1; r_nargs := 2; r_prog := copy_sort_use [0; 1] |} in
  readonly p = true /\ env_ok e s0 /\
  firstn 2 (snd (exec p (e, s0))) = s0 /\ length (snd (exec p (e, s0))) = 5 /\
  length (fst (grun [0; 1; 1; 0; 0; 1; 0; 1; 0; 1] (s0, init_threads [(e, p); (e, p)]))) = 8.
Proof.
  cbn. repeat split; try reflexivity.
  intros v l. destruct v as [|[|v]]; cbn; intros H; inversion H; auto.
Qed.

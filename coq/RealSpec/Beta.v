(* RealSpec/Beta.v — the regularized incomplete beta function over Coquelicot reals.
   DEFINITIONS ONLY.  Proper Riemann integrals for a >= 1 and b >= 1 (for a < 1 or b < 1 the
   integrand is unbounded at an end point and RInt is not the improper integral: those
   parameters are outside what this definition — and hence the M2 certificates — cover). *)
From Coq Require Import Reals.
From Coquelicot Require Import Coquelicot.
Open Scope R_scope.

Definition bkernel (a b t : R) : R := Rpower t (a - 1) * Rpower (1 - t) (b - 1).
Definition Bint (a b x : R) : R := RInt (bkernel a b) 0 x.
Definition Ibeta_R (x a b : R) : R := Bint a b x / Bint a b 1.

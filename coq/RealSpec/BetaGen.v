(* RealSpec/BetaGen.v — the regularized incomplete beta function for ALL real a, b > 0,
   built from PROPER Riemann integrals only.  DEFINITIONS ONLY (theorems: Proofs/BetaGen.v).

   Why not RInt (bkernel a b) 0 x as in RealSpec/Beta.v: for a < 1 (or b < 1) the kernel
   k(a,b)(t) = t^(a-1) (1-t)^(b-1) is unbounded at t = 0 (t = 1), and Coquelicot's RInt is the
   Riemann integral of a bounded function, not the improper integral.

   Derivation.  On (0,1):
       d/dt [ t^a (1-t)^b ] = a t^(a-1) (1-t)^b - b t^a (1-t)^(b-1)
                            = a k(a,b)(t) - (a+b) t^a (1-t)^(b-1)
   (use (1-t)^b = (1-t)^(b-1) (1 - t)).  Hence for 0 < e <= 1/2
       int_e^(1/2) k(a,b) = [ t^a (1-t)^b / a ]_e^(1/2)
                            + ((a+b)/a) int_e^(1/2) t^a (1-t)^(b-1) dt .
   The integrand on the right is continuous on [0,1/2] once t^a is given its limit value 0 at
   t = 0 (a > 0), so the right-hand side has the limit, as e -> 0+,
       Bhalf a b = (1/2)^(a+b) / a + ((a+b)/a) int_0^(1/2) t^a (1-t)^(b-1) dt ,
   a PROPER integral: Bhalf a b is the improper integral int_0^(1/2) k(a,b)
   (Proofs/BetaGen.v: Bhalf_is_limit).  By the symmetry t -> 1-t the improper integral
   int_(1/2)^1 k(a,b) is Bhalf b a, and on [1/2, x] or [x, 1/2] with 0 < x < 1 the kernel is
   continuous, so RInt is the ordinary integral there. *)
From Coq Require Import Reals.
From Coquelicot Require Import Coquelicot.
From MM Require Import RealSpec.Beta.
Open Scope R_scope.

(* continuous extension of t |-> t^a to t <= 0 for a > 0 (Coq's Rpower 0 a = 1 is junk) *)
Definition rpow0 (a t : R) : R := if Rle_dec t 0 then 0 else Rpower t a.

(* the by-parts integrand t^a (1-t)^(b-1): continuous on t < 1 *)
Definition bpart (a b t : R) : R := rpow0 a t * Rpower (1 - t) (b - 1).

(* = the improper integral int_0^(1/2) k(a,b) *)
Definition Bhalf (a b : R) : R :=
  Rpower (1 / 2) (a + b) / a + (a + b) / a * RInt (bpart a b) 0 (1 / 2).

(* = int_0^x k(a,b), for 0 < x < 1 *)
Definition Bgen (a b x : R) : R := Bhalf a b + RInt (bkernel a b) (1 / 2) x.

(* = B(a,b) = int_0^1 k(a,b) *)
Definition Btotal (a b : R) : R := Bhalf a b + Bhalf b a.

Definition Ibeta_gen (x a b : R) : R :=
  if Rle_dec x 0 then 0 else if Rle_dec 1 x then 1 else Bgen a b x / Btotal a b.

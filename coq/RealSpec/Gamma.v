(* RealSpec/Gamma.v — the regularized incomplete gamma function at integer shape.
   DEFINITIONS ONLY.  P(n, x) = int_0^x e^-t t^(n-1) dt / (n-1)!  for n = 1, 2, ...;
   [Pgamma_int] is its closed form 1 - e^-x * sum_{j<n} x^j/j!  (equality: Proofs/GammaR.v). *)
From Coq Require Import Reals.
From Coquelicot Require Import Coquelicot.
Open Scope R_scope.

Definition gkernel_nat (n : nat) (t : R) : R := exp (- t) * t ^ n.
(* textbook definition at shape a = S n *)
Definition Pgamma_nat (n : nat) (x : R) : R := RInt (gkernel_nat n) 0 x / INR (fact n).
(* partial exponential sum  sum_{j<=n} x^j/j! *)
Fixpoint expsum (n : nat) (x : R) : R :=
  match n with O => 1 | S k => expsum k x + x ^ (S k) / INR (fact (S k)) end.
(* closed form at shape a = S n *)
Definition Pgamma_int (n : nat) (x : R) : R := 1 - exp (- x) * expsum n x.
Definition Qgamma_int (n : nat) (x : R) : R := exp (- x) * expsum n x.

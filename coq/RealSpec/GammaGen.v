(* RealSpec/GammaGen.v — the regularized incomplete gamma functions P(a,x), Q(a,x) for EVERY
   real shape a > 0.  DEFINITIONS ONLY (theorems: Proofs/GammaGen.v).
   RealSpec/Gamma.v covers integer shape only.  For real a the lower incomplete gamma integral
       gamma(a,x) = int_0^x t^(a-1) e^-t dt
   is improper at 0 when a < 1 (the integrand is unbounded), hence not what Coquelicot's RInt
   computes.  From
       d/dt ( t^a e^-t ) = a t^(a-1) e^-t - t^a e^-t
   one gets for 0 < e <= x
       a * int_e^x t^(a-1) e^-t dt = [ t^a e^-t ]_e^x + int_e^x t^a e^-t dt ,
   and the right-hand side is continuous down to e = 0 for every a > 0 because t^a -> 0.  So
       gamma(a,x) := ( x^a e^-x + int_0^x t^a e^-t dt ) / a               ([lgam], x >= 0)
   with a PROPER integral on the right; Proofs/GammaGen.v proves that lgam a x - lgam a e is the
   proper integral int_e^x of the kernel for 0 < e, that lgam a is continuous with lgam a 0 = 0
   (so lgam a x is the limit of the proper integrals as e -> 0+), increasing and bounded.
   The complete gamma function is the one limit  Gamma(a) = lim_{n->oo} gamma(a,n)  ([Gam]; the
   limit exists: bounded increasing sequence), and P = gamma/Gamma, Q = 1 - P.
   Coq's [Rpower 0 a] is junk (= 1, because ln 0 = 0), so t^a is written [rpow0 a t], which is
   0 for t <= 0: the continuous extension of t^a for a > 0 (the same function as
   Proofs/TDistR.v [pw] and RealSpec/BetaGen.v [rpow0]; repeated here so that this file is
   self-contained — qualify the name when both are imported). *)
From Coq Require Import Reals.
From Coquelicot Require Import Coquelicot.
Open Scope R_scope.

(* t^a for t > 0, and 0 for t <= 0 *)
Definition rpow0 (a t : R) : R :=
  match Rle_dec t 0 with left _ => 0 | right _ => Rpower t a end.

(* the integrand t^(a-1) e^-t of the incomplete gamma integrals (meaningful for t > 0) *)
Definition gkernel (a t : R) : R := Rpower t (a - 1) * exp (- t).

(* lower incomplete gamma function gamma(a,x) = int_0^x t^(a-1) e^-t dt,  a > 0, x >= 0 *)
Definition lgam (a x : R) : R :=
  (rpow0 a x * exp (- x) + RInt (fun t => rpow0 a t * exp (- t)) 0 x) / a.

(* complete gamma function Gamma(a) = int_0^oo t^(a-1) e^-t dt,  a > 0 *)
Definition Gam (a : R) : R := real (Lim_seq (fun n => lgam a (INR n))).

(* regularized lower / upper incomplete gamma functions *)
Definition Pgam (a x : R) : R := lgam a x / Gam a.
Definition Qgam (a x : R) : R := 1 - Pgam a x.

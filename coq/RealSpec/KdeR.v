(* RealSpec/KdeR.v — kernel density estimates and boundary reflection over Coquelicot reals.
   DEFINITIONS ONLY.  Real-number meaning of stats/kde.go (KDE.PDF, KDE.CDF, the Epanechnikov
   kernel, BoundaryReflect).  The theorems about these definitions are in Proofs/KdeR.v.
   Non-executable. *)
From Coq Require Import Reals List.
From Coquelicot Require Import Coquelicot.
Open Scope R_scope.

(* ---------- Epanechnikov kernel of bandwidth h (kde.go: epanechnikovKernel) ---------- *)

(* density: (3/(4h)) (1 - x^2/h^2) on the open interval (-h, h), 0 elsewhere
   (pdfEach: `if -d.h < x && x < d.h`) *)
Definition epan_pdf (h x : R) : R :=
  if Rlt_dec (- h) x then
    if Rlt_dec x h then 3 / (4 * h) * (1 - x * x / (h * h)) else 0
  else 0.

(* the parabola (3/(4h)) (1 - x^2/h^2) as a function on all of R; epan_pdf is its positive part *)
Definition epan_q (h x : R) : R := 3 / (4 * h) * (1 - x * x / (h * h)).

(* the polynomial piece of the distribution function, (2 + 3u - u^3)/4 with u = x/h;
   as a function on all of R (it is only USED for -h < x <= h) *)
Definition epan_poly (h x : R) : R :=
  (2 + 3 * (x / h) - (x / h) * (x / h) * (x / h)) / 4.

(* distribution function: 0 for x <= -h, the polynomial piece for -h < x <= h, 1 for x > h
   (cdfEach: `if x > d.h {1} else if x > -d.h {poly}` else 0) *)
Definition epan_cdf (h x : R) : R :=
  if Rle_dec x (- h) then 0
  else if Rle_dec x h then epan_poly h x
  else 1.

(* ---------- weighted sample and the kernel mixture (KDE.PDF / KDE.CDF closure `y`) ---------- *)

(* A weighted sample is a list of pairs (x_i, w_i): data point and its weight. *)
Definition sample := list (R * R).

(* total weight  Σ_i w_i   (Sample.Weight) *)
Fixpoint wsum (d : sample) : R :=
  match d with
  | nil => 0
  | p :: d' => snd p + wsum d'
  end.

(* un-normalised mixture  Σ_i w_i * g (x - x_i)   (wys.Sum() in the closure `y`) *)
Fixpoint msum (g : R -> R) (d : sample) (x : R) : R :=
  match d with
  | nil => 0
  | p :: d' => snd p * g (x - fst p) + msum g d' x
  end.

(* the mixture  (Σ_i w_i g (x - x_i)) / Σ_i w_i.  With g := kernel density k this is the
   unbounded KDE pdf; with g := kernel distribution function K it is the unbounded KDE cdf. *)
Definition kde_mix (g : R -> R) (d : sample) (x : R) : R := msum g d x / wsum d.

(* all weights strictly positive and at least one point: the well-formed samples *)
Definition sample_ok (d : sample) : Prop :=
  d <> nil /\ List.Forall (fun p => 0 < snd p) d.

(* every data point lies in the closed interval [lo, hi] *)
Definition sample_within (lo hi : R) (d : sample) : Prop :=
  List.Forall (fun p => lo <= fst p <= hi) d.

(* ---------- reflection at one boundary (BoundaryReflect, one bound infinite) ---------- *)

(* support [m, +inf): density  f x + f (2m - x) *)
Definition refl_low_pdf (f : R -> R) (m x : R) : R := f x + f (2 * m - x).

(* support [m, +inf): distribution function  F x - F (2m - x) *)
Definition refl_low_cdf (F : R -> R) (m x : R) : R := F x - F (2 * m - x).

(* support (-inf, M): density  f x + f (2M - x) *)
Definition refl_high_pdf (f : R -> R) (M x : R) : R := f x + f (2 * M - x).

(* support (-inf, M): distribution function  F x + (1 - F (2M - x)) *)
Definition refl_high_cdf (F : R -> R) (M x : R) : R := F x + (1 - F (2 * M - x)).

(* ---------- reflection at both boundaries: the method of images ---------- *)

(* symmetric finite sum  Σ_{n = -N .. N} t n, the index n given as a real number:
   the n = 0 term, then the pairs n = +j, n = -j for j = 1 .. N *)
Fixpoint sym_sum (t : R -> R) (N : nat) : R :=
  match N with
  | O => t 0
  | S N' => sym_sum t N' + t (INR (S N')) + t (- INR (S N'))
  end.

(* period of the image lattice for the support [m, M): d = 2 (M - m) *)
Definition img_period (m M : R) : R := 2 * (M - m).

(* doubly bounded density, images n = -N .. N:
   Σ_n ( f (x + n d) + f (2m - x + n d) ).  kde.go sums the same terms as two one-sided
   series (n >= 0: y(x+n*d) + y(x+n*d-w);  n < 0: y(x-(n+1)*d-w) + y(x-(n+1)*d), w = 2(x-m)). *)
Definition img_pdf (f : R -> R) (m M : R) (N : nat) (x : R) : R :=
  sym_sum (fun n => f (x + n * img_period m M) + f (2 * m - x + n * img_period m M)) N.

(* doubly bounded distribution function, images n = -N .. N:
   Σ_n ( F (x + n d) - F (2m - x + n d) ) *)
Definition img_cdf (F : R -> R) (m M : R) (N : nat) (x : R) : R :=
  sym_sum (fun n => F (x + n * img_period m M) - F (2 * m - x + n * img_period m M)) N.

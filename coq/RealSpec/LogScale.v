(* RealSpec/LogScale.v — the real-number meaning of scale.Log (log.go:51-92) and of QQ
   (interface.go:43-57), and the laws of C16 for them.  Same decision structure as the
   Go code and as Model/Scale.v; values over the standard-library reals (ln, exp). *)
From Coq Require Import Reals Lra Psatz.
Local Open Scope R_scope.

(* util.go:8-16 *)
Definition clampR (y : R) : R := if Rlt_dec y 0 then 0 else if Rlt_dec 1 y then 1 else y.

(* log.go:51-56 *)
Definition eboundsR (mn mx : R) : bool * R * R :=
  if Rlt_dec mn 0 then (true, - mx, - mn) else (false, mn, mx).

(* log.go:58-79; None = NaN *)
Definition log_mapR (mn mx : R) (clamp : bool) (x : R) : option R :=
  let '(neg, emn, emx) := eboundsR mn mx in
  let x := if neg then - x else x in
  if Rle_dec x 0 then None
  else if Req_EM_T emn emx then Some (/ 2)
  else let y := (ln x - ln emn) / (ln emx - ln emn) in
       let y := if neg then 1 - y else y in
       Some (if clamp then clampR y else y).

(* log.go:81-92 *)
Definition log_unmapR (mn mx : R) (y : R) : R :=
  let '(neg, emn, emx) := eboundsR mn mx in
  let y := if neg then 1 - y else y in
  let x := exp (y * (ln emx - ln emn) + ln emn) in
  if neg then - x else x.

(* the ranges NewLog accepts (either order): both ends non-zero and of one sign *)
Definition valid (mn mx : R) : Prop := (0 < mn /\ 0 < mx) \/ (mn < 0 /\ mx < 0).
(* x has the sign of the domain *)
Definition same_sign (mn x : R) : Prop := (0 < mn /\ 0 < x) \/ (mn < 0 /\ x < 0).

(* position of x in the domain, in log|.| space *)
Definition lpos (mn mx x : R) : R := (ln (Rabs x) - ln (Rabs mn)) / (ln (Rabs mx) - ln (Rabs mn)).
Definition sgn (mn : R) : R := if Rlt_dec mn 0 then -1 else 1.

(* ---------- basic facts ---------- *)
Lemma ln_neq a b : 0 < a -> 0 < b -> a <> b -> ln b - ln a <> 0.
Proof. intros A B N E. apply N. apply ln_inv; lra. Qed.

Lemma clampR_range y : 0 <= clampR y <= 1.
Proof. unfold clampR. destruct (Rlt_dec y 0); [lra|]. destruct (Rlt_dec 1 y); lra. Qed.
Lemma clampR_id y : 0 <= y <= 1 -> clampR y = y.
Proof. intros H. unfold clampR. destruct (Rlt_dec y 0); [lra|]. destruct (Rlt_dec 1 y); lra. Qed.

(* ---------- the value of Map and Unmap: one formula for both signs ---------- *)
Lemma log_map_formula mn mx x : valid mn mx -> mn <> mx -> same_sign mn x ->
  log_mapR mn mx false x = Some (lpos mn mx x).
Proof.
  intros V N S. unfold log_mapR, eboundsR, lpos.
  destruct (Rlt_dec mn 0) as [Hn|Hn].
  - destruct V as [[? ?]|[_ Vx]]; [lra|]. destruct S as [[? ?]|[_ Sx]]; [lra|].
    destruct (Rle_dec (- x) 0); [lra|]. destruct (Req_EM_T (- mx) (- mn)); [lra|].
    rewrite !Rabs_left by lra. f_equal.
    assert (ln (- mn) - ln (- mx) <> 0) by (apply ln_neq; lra).
    assert (ln (- mx) - ln (- mn) <> 0) by (apply ln_neq; lra).
    field. split; assumption.
  - destruct V as [[V1 V2]|[? ?]]; [|lra]. destruct S as [[_ Sx]|[? ?]]; [|lra].
    destruct (Rle_dec x 0); [lra|]. destruct (Req_EM_T mn mx); [lra|].
    rewrite !Rabs_right by lra. reflexivity.
Qed.

Lemma log_unmap_formula mn mx y : valid mn mx ->
  log_unmapR mn mx y = sgn mn * exp (y * (ln (Rabs mx) - ln (Rabs mn)) + ln (Rabs mn)).
Proof.
  intros V. unfold log_unmapR, eboundsR, sgn.
  destruct (Rlt_dec mn 0) as [Hn|Hn].
  - destruct V as [[? ?]|[_ Vx]]; [lra|]. rewrite !Rabs_left by lra.
    replace ((1 - y) * (ln (- mn) - ln (- mx)) + ln (- mx)) with (y * (ln (- mx) - ln (- mn)) + ln (- mn)) by ring. ring.
  - destruct V as [[V1 V2]|[? ?]]; [|lra]. rewrite !Rabs_right by lra. ring.
Qed.

Lemma valid_abs mn mx : valid mn mx -> 0 < Rabs mn /\ 0 < Rabs mx.
Proof. intros V. split; apply Rabs_pos_lt; destruct V; lra. Qed.
Lemma valid_D mn mx : valid mn mx -> mn <> mx -> ln (Rabs mx) - ln (Rabs mn) <> 0.
Proof. intros V N. destruct (valid_abs mn mx V). apply ln_neq; try assumption.
  destruct V as [[? ?]|[? ?]]; [rewrite !Rabs_right by lra | rewrite !Rabs_left by lra]; lra. Qed.

(* ---------- Map(Min) = 0, Map(Max) = 1 ---------- *)
Lemma same_sign_min mn mx : valid mn mx -> same_sign mn mn.
Proof. intros [[? ?]|[? ?]]; [left | right]; lra. Qed.
Lemma same_sign_max mn mx : valid mn mx -> same_sign mn mx.
Proof. intros [[? ?]|[? ?]]; [left | right]; lra. Qed.

Lemma log_map_min mn mx : valid mn mx -> mn <> mx -> log_mapR mn mx false mn = Some 0.
Proof. intros V N. rewrite log_map_formula; auto using (same_sign_min mn mx). f_equal.
  unfold lpos. pose proof (valid_D mn mx V N). field. assumption. Qed.
Lemma log_map_max mn mx : valid mn mx -> mn <> mx -> log_mapR mn mx false mx = Some 1.
Proof. intros V N. rewrite log_map_formula; auto using (same_sign_max mn mx). f_equal.
  unfold lpos. pose proof (valid_D mn mx V N). field. assumption. Qed.

(* ---------- affine in ln|x| with non-zero slope ---------- *)
Lemma log_affine_in_ln_abs mn mx : valid mn mx -> mn <> mx ->
  exists a c, a <> 0 /\ forall x, same_sign mn x -> log_mapR mn mx false x = Some (a * ln (Rabs x) + c).
Proof.
  intros V N. pose proof (valid_D mn mx V N) as D.
  exists (/ (ln (Rabs mx) - ln (Rabs mn))), (- ln (Rabs mn) / (ln (Rabs mx) - ln (Rabs mn))).
  split; [now apply Rinv_neq_0_compat|]. intros x S. rewrite log_map_formula by assumption.
  f_equal. unfold lpos. field. assumption.
Qed.

(* ---------- strictly monotone; increasing exactly when Min < Max ---------- *)
Lemma lpos_diff mn mx x1 x2 : valid mn mx -> mn <> mx ->
  lpos mn mx x2 - lpos mn mx x1 = (ln (Rabs x2) - ln (Rabs x1)) / (ln (Rabs mx) - ln (Rabs mn)).
Proof. intros V N. pose proof (valid_D mn mx V N). unfold lpos. field. assumption. Qed.

Lemma log_strict_mono mn mx x1 x2 y1 y2 : valid mn mx -> mn <> mx ->
  same_sign mn x1 -> same_sign mn x2 -> x1 < x2 ->
  log_mapR mn mx false x1 = Some y1 -> log_mapR mn mx false x2 = Some y2 ->
  (mn < mx -> y1 < y2) /\ (mx < mn -> y2 < y1).
Proof.
  intros V N S1 S2 L. rewrite !log_map_formula by assumption. intros [= <-] [= <-].
  pose proof (lpos_diff mn mx x1 x2 V N) as D.
  destruct V as [[V1 V2]|[V1 V2]].
  - destruct S1 as [[_ S1]|[? ?]]; [|lra]. destruct S2 as [[_ S2]|[? ?]]; [|lra].
    rewrite !Rabs_right in D by lra.
    assert (ln x1 < ln x2) by (apply ln_increasing; lra).
    split; intros W.
    + assert (ln mn < ln mx) by (apply ln_increasing; lra).
      assert (0 < (ln x2 - ln x1) / (ln mx - ln mn)) by (apply Rdiv_lt_0_compat; lra). lra.
    + assert (ln mx < ln mn) by (apply ln_increasing; lra).
      assert (0 < (ln x2 - ln x1) / (ln mn - ln mx)) by (apply Rdiv_lt_0_compat; lra).
      replace ((ln x2 - ln x1) / (ln mx - ln mn)) with (- ((ln x2 - ln x1) / (ln mn - ln mx))) in D by (field; split; lra).
      lra.
  - destruct S1 as [[? ?]|[_ S1]]; [lra|]. destruct S2 as [[? ?]|[_ S2]]; [lra|].
    rewrite !Rabs_left in D by lra.
    assert (ln (- x2) < ln (- x1)) by (apply ln_increasing; lra).
    split; intros W.
    + assert (ln (- mx) < ln (- mn)) by (apply ln_increasing; lra).
      assert (0 < (ln (- x1) - ln (- x2)) / (ln (- mn) - ln (- mx))) by (apply Rdiv_lt_0_compat; lra).
      replace ((ln (- x2) - ln (- x1)) / (ln (- mx) - ln (- mn))) with ((ln (- x1) - ln (- x2)) / (ln (- mn) - ln (- mx))) in D by (field; split; lra).
      lra.
    + assert (ln (- mn) < ln (- mx)) by (apply ln_increasing; lra).
      assert (0 < (ln (- x1) - ln (- x2)) / (ln (- mx) - ln (- mn))) by (apply Rdiv_lt_0_compat; lra).
      replace ((ln (- x2) - ln (- x1)) / (ln (- mx) - ln (- mn))) with (- ((ln (- x1) - ln (- x2)) / (ln (- mx) - ln (- mn)))) in D by (field; lra).
      lra.
Qed.

(* ---------- Unmap inverts Map, on and beyond the domain ---------- *)
Lemma sgn_abs mn x : same_sign mn x -> sgn mn * Rabs x = x.
Proof. unfold sgn. intros [[? ?]|[? ?]]; destruct (Rlt_dec mn 0); try lra.
  - rewrite Rabs_right; lra. - rewrite Rabs_left; lra. Qed.

Lemma log_unmap_map mn mx x y : valid mn mx -> mn <> mx -> same_sign mn x ->
  log_mapR mn mx false x = Some y -> log_unmapR mn mx y = x.
Proof.
  intros V N S. rewrite log_map_formula by assumption. intros [= <-].
  rewrite log_unmap_formula by assumption. pose proof (valid_D mn mx V N) as D.
  replace (lpos mn mx x * (ln (Rabs mx) - ln (Rabs mn)) + ln (Rabs mn)) with (ln (Rabs x))
    by (unfold lpos; field; assumption).
  rewrite exp_ln; [now apply sgn_abs|]. apply Rabs_pos_lt. destruct S; lra.
Qed.

Lemma unmap_same_sign mn mx y : valid mn mx -> same_sign mn (log_unmapR mn mx y).
Proof. intros V. rewrite log_unmap_formula by assumption. unfold sgn.
  pose proof (exp_pos (y * (ln (Rabs mx) - ln (Rabs mn)) + ln (Rabs mn))).
  destruct (Rlt_dec mn 0); [right | left]; destruct V; split; lra. Qed.

Lemma log_map_unmap mn mx y : valid mn mx -> mn <> mx ->
  log_mapR mn mx false (log_unmapR mn mx y) = Some y.
Proof.
  intros V N. rewrite log_map_formula by (auto using unmap_same_sign). f_equal.
  rewrite log_unmap_formula by assumption. unfold lpos, sgn.
  pose proof (exp_pos (y * (ln (Rabs mx) - ln (Rabs mn)) + ln (Rabs mn))) as P.
  pose proof (valid_D mn mx V N) as D.
  assert (E : Rabs ((if Rlt_dec mn 0 then -1 else 1) * exp (y * (ln (Rabs mx) - ln (Rabs mn)) + ln (Rabs mn)))
              = exp (y * (ln (Rabs mx) - ln (Rabs mn)) + ln (Rabs mn))).
  { destruct (Rlt_dec mn 0); [rewrite Rabs_left | rewrite Rabs_right]; lra. }
  rewrite E, ln_exp. field. assumption.
Qed.

(* Unmap(0) = Min, Unmap(1) = Max *)
Lemma log_unmap_0 mn mx : valid mn mx -> log_unmapR mn mx 0 = mn.
Proof. intros V. rewrite log_unmap_formula by assumption.
  replace (0 * (ln (Rabs mx) - ln (Rabs mn)) + ln (Rabs mn)) with (ln (Rabs mn)) by ring.
  rewrite exp_ln by (apply (valid_abs mn mx V)). apply sgn_abs. now apply (same_sign_min mn mx). Qed.
Lemma log_unmap_1 mn mx : valid mn mx -> log_unmapR mn mx 1 = mx.
Proof. intros V. rewrite log_unmap_formula by assumption.
  replace (1 * (ln (Rabs mx) - ln (Rabs mn)) + ln (Rabs mn)) with (ln (Rabs mx)) by ring.
  rewrite exp_ln by (apply (valid_abs mn mx V)). apply sgn_abs. now apply (same_sign_max mn mx). Qed.

(* ---------- NaN exactly for zero and for the wrong sign ---------- *)
Lemma log_nan_iff mn mx c x : valid mn mx ->
  (log_mapR mn mx c x = None <-> x = 0 \/ (0 < mn /\ x < 0) \/ (mn < 0 /\ 0 < x)).
Proof.
  intros V. unfold log_mapR, eboundsR. destruct (Rlt_dec mn 0) as [Hn|Hn].
  - destruct (Rle_dec (- x) 0) as [L|L].
    + split; [intros _ | reflexivity]. destruct (Req_dec x 0); [left; assumption | right; right; lra].
    + split; [| intros [?|[[? ?]|[? ?]]]; lra]. destruct (Req_EM_T (- mx) (- mn)); discriminate.
  - destruct (Rle_dec x 0) as [L|L].
    + split; [intros _ | reflexivity]. destruct V as [[? ?]|[? ?]]; [|lra].
      destruct (Req_dec x 0); [left; assumption | right; left; lra].
    + split; [| intros [?|[[? ?]|[? ?]]]; lra]. destruct (Req_EM_T mn mx); discriminate.
Qed.

(* ---------- degenerate domain: every valid input maps to 1/2 ---------- *)
Lemma log_degenerate mn c x : mn <> 0 -> same_sign mn x -> log_mapR mn mn c x = Some (/ 2).
Proof.
  intros N S. unfold log_mapR, eboundsR. destruct (Rlt_dec mn 0) as [Hn|Hn].
  - destruct S as [[? ?]|[_ S]]; [lra|]. destruct (Rle_dec (- x) 0); [lra|].
    destruct (Req_EM_T (- mn) (- mn)); [reflexivity | lra].
  - destruct S as [[_ S]|[? ?]]; [|lra]. destruct (Rle_dec x 0); [lra|].
    destruct (Req_EM_T mn mn); [reflexivity | lra].
Qed.

(* ---------- clamping ---------- *)
Lemma log_clamp_is_clamp mn mx x :
  log_mapR mn mx true x = match log_mapR mn mx false x with
                          | Some y => Some (if Req_EM_T (snd (eboundsR mn mx)) (snd (fst (eboundsR mn mx))) then y else clampR y)
                          | None => None end.
Proof. unfold log_mapR. destruct (eboundsR mn mx) as [[neg a] b]. cbn [fst snd].
  destruct (Rle_dec _ 0); [reflexivity|]. destruct (Req_EM_T a b) as [E|E].
  - destruct (Req_EM_T b a); [reflexivity | congruence].
  - destruct (Req_EM_T b a); [congruence | reflexivity]. Qed.

Lemma log_clamp_range mn mx x y : valid mn mx -> log_mapR mn mx true x = Some y -> 0 <= y <= 1.
Proof. unfold log_mapR. destruct (eboundsR mn mx) as [[neg a] b].
  intros _. destruct (Rle_dec _ 0); [discriminate|]. destruct (Req_EM_T a b).
  - intros [= <-]. lra.
  - intros [= <-]. apply clampR_range. Qed.

(* inside the domain (either order) the clamped and the unclamped Map agree *)
Definition inside (mn mx x : R) : Prop := (mn <= x <= mx) \/ (mx <= x <= mn).

Lemma lpos_inside mn mx x : valid mn mx -> mn <> mx -> inside mn mx x -> 0 <= lpos mn mx x <= 1.
Proof.
  intros V N I. pose proof (valid_D mn mx V N) as D.
  assert (S : same_sign mn x) by (destruct V as [[? ?]|[? ?]]; destruct I as [[? ?]|[? ?]]; [left|left|right|right]; lra).
  assert (P : 0 < Rabs x) by (apply Rabs_pos_lt; destruct S; lra).
  destruct (valid_abs mn mx V) as [Pm Px].
  (* |x| lies between |mn| and |mx| *)
  assert (B : (Rabs mn <= Rabs x <= Rabs mx) \/ (Rabs mx <= Rabs x <= Rabs mn)).
  { destruct V as [[? ?]|[? ?]]; destruct S as [[? ?]|[? ?]]; try lra.
    - rewrite !Rabs_right by lra. exact I.
    - rewrite !Rabs_left by lra. destruct I; [right | left]; lra. }
  assert (Mono : forall a b, 0 < a -> a <= b -> ln a <= ln b).
  { intros a b A [L | ->]; [left; apply ln_increasing; assumption | right; reflexivity]. }
  unfold lpos. destruct B as [[B1 B2]|[B1 B2]].
  - pose proof (Mono _ _ Pm B1). pose proof (Mono _ _ P B2).
    assert (0 < ln (Rabs mx) - ln (Rabs mn)) by lra.
    split; [apply Rmult_le_pos; [lra | left; now apply Rinv_0_lt_compat] |].
    apply Rmult_le_reg_r with (ln (Rabs mx) - ln (Rabs mn)); [assumption|]. field_simplify; lra.
  - pose proof (Mono _ _ Px B1). pose proof (Mono _ _ P B2).
    assert (0 < ln (Rabs mn) - ln (Rabs mx)) by lra.
    replace ((ln (Rabs x) - ln (Rabs mn)) / (ln (Rabs mx) - ln (Rabs mn)))
      with ((ln (Rabs mn) - ln (Rabs x)) / (ln (Rabs mn) - ln (Rabs mx))) by (field; lra).
    split; [apply Rmult_le_pos; [lra | left; now apply Rinv_0_lt_compat] |].
    apply Rmult_le_reg_r with (ln (Rabs mn) - ln (Rabs mx)); [assumption|]. field_simplify; lra.
Qed.

Lemma log_clamp_id_inside mn mx x : valid mn mx -> mn <> mx -> inside mn mx x ->
  log_mapR mn mx true x = log_mapR mn mx false x.
Proof.
  intros V N I.
  assert (S : same_sign mn x) by (destruct V as [[? ?]|[? ?]]; destruct I as [[? ?]|[? ?]]; [left|left|right|right]; lra).
  rewrite log_clamp_is_clamp, log_map_formula by assumption.
  destruct (Req_EM_T _ _) as [E|E]; [reflexivity|]. f_equal. apply clampR_id. now apply lpos_inside.
Qed.

(* ========== QQ over the reals: every pairing of Linear and Log ========== *)
Inductive scaleR := LinR (mn mx : R) | LogR (mn mx : R).

(* linear.go:33-46 (Clamp off) *)
Definition lin_mapR (mn mx x : R) : R := if Req_EM_T mn mx then / 2 else (x - mn) / (mx - mn).
Definition lin_unmapR (mn mx y : R) : R := y * (mx - mn) + mn.

Definition mapR (s : scaleR) (x : R) : option R :=
  match s with LinR mn mx => Some (lin_mapR mn mx x) | LogR mn mx => log_mapR mn mx false x end.
Definition unmapR (s : scaleR) (y : R) : R :=
  match s with LinR mn mx => lin_unmapR mn mx y | LogR mn mx => log_unmapR mn mx y end.
(* a usable scale: non-degenerate; Log additionally a range NewLog accepts *)
Definition okR (s : scaleR) : Prop :=
  match s with LinR mn mx => mn <> mx | LogR mn mx => valid mn mx /\ mn <> mx end.
(* x is an input on which Map is a number *)
Definition inR (s : scaleR) (x : R) : Prop :=
  match s with LinR _ _ => True | LogR mn _ => same_sign mn x end.

(* interface.go:43-57; a NaN from the inner Map stays NaN *)
Definition qq_mapR (src dst : scaleR) (x : R) : option R := option_map (unmapR dst) (mapR src x).
Definition qq_unmapR (src dst : scaleR) (y : R) : option R := option_map (unmapR src) (mapR dst y).

Lemma unmapR_mapR s x y : okR s -> inR s x -> mapR s x = Some y -> unmapR s y = x.
Proof. destruct s as [mn mx|mn mx]; cbn.
  - intros N _ [= <-]. unfold lin_mapR, lin_unmapR. destruct (Req_EM_T mn mx); [contradiction|]. field. lra.
  - intros [V N] S H. eapply log_unmap_map; eassumption. Qed.
Lemma mapR_unmapR s y : okR s -> mapR s (unmapR s y) = Some y.
Proof. destruct s as [mn mx|mn mx]; cbn.
  - intros N. unfold lin_mapR, lin_unmapR. destruct (Req_EM_T mn mx); [contradiction|]. f_equal. field. lra.
  - intros [V N]. now apply log_map_unmap. Qed.
Lemma unmapR_inR s y : okR s -> inR s (unmapR s y).
Proof. destruct s as [mn mx|mn mx]; cbn; [trivial|]. intros [V _]. now apply unmap_same_sign. Qed.

(* QQ.Unmap (QQ.Map x) = x and QQ.Map (QQ.Unmap y) = y, for all four pairings *)
Lemma qq_unmap_map src dst x z : okR src -> okR dst -> inR src x ->
  qq_mapR src dst x = Some z -> qq_unmapR src dst z = Some x.
Proof. intros Hs Hd I. unfold qq_mapR, qq_unmapR. destruct (mapR src x) as [m|] eqn:M; [|discriminate].
  cbn. intros [= <-]. rewrite mapR_unmapR by assumption. cbn. f_equal. eapply unmapR_mapR; eassumption. Qed.
Lemma qq_map_unmap src dst y z : okR src -> okR dst -> inR dst y ->
  qq_unmapR src dst y = Some z -> qq_mapR src dst z = Some y.
Proof. intros Hs Hd I. unfold qq_mapR, qq_unmapR. destruct (mapR dst y) as [m|] eqn:M; [|discriminate].
  cbn. intros [= <-]. rewrite mapR_unmapR by assumption. cbn. f_equal. eapply unmapR_mapR; eassumption. Qed.
(* QQ.Map is defined (not NaN) exactly on the inputs of the source scale, and its
   result is always an input of the destination scale *)
Lemma qq_map_defined src dst x : okR src -> okR dst -> inR src x ->
  exists z, qq_mapR src dst x = Some z /\ inR dst z.
Proof. intros Hs Hd I. unfold qq_mapR. destruct src as [mn mx|mn mx]; cbn in *.
  - eexists; split; [reflexivity | now apply unmapR_inR].
  - destruct Hs as [V N]. rewrite log_map_formula by assumption. cbn.
    eexists; split; [reflexivity | now apply unmapR_inR]. Qed.
(* the source domain is carried onto the destination domain end to end *)
Lemma qq_map_ends src dst : okR src -> okR dst ->
  let '(smn, smx) := match src with LinR a b | LogR a b => (a, b) end in
  let '(dmn, dmx) := match dst with LinR a b | LogR a b => (a, b) end in
  qq_mapR src dst smn = Some dmn /\ qq_mapR src dst smx = Some dmx.
Proof.
  intros Hs Hd. unfold qq_mapR.
  assert (M : let '(smn, smx) := match src with LinR a b | LogR a b => (a, b) end in
              mapR src smn = Some 0 /\ mapR src smx = Some 1).
  { destruct src as [a b|a b]; cbn in *.
    - unfold lin_mapR. destruct (Req_EM_T a b); [contradiction|]. split; f_equal; field; lra.
    - destruct Hs. split; [now apply log_map_min | now apply log_map_max]. }
  assert (U : let '(dmn, dmx) := match dst with LinR a b | LogR a b => (a, b) end in
              unmapR dst 0 = dmn /\ unmapR dst 1 = dmx).
  { destruct dst as [a b|a b]; cbn in *.
    - unfold lin_unmapR. split; ring.
    - destruct Hd. split; [now apply log_unmap_0 | now apply log_unmap_1]. }
  destruct src as [a b|a b], dst as [c d|c d]; destruct M as [M0 M1], U as [U0 U1];
    rewrite M0, M1; cbn [option_map]; rewrite U0, U1; split; reflexivity.
Qed.

(* RealSpec/LogScaleModel.v — ties Model/Scale.v (decisions over Q, symbolic values,
   closed forms at powers of an integer) to RealSpec/LogScale.v (values over R):
   - the decision model denotes the real-valued Log.Map / Log.Unmap on every rational input
     (every float64 is rational);
   - the closed forms used by the correspondence check are the true real values. *)
From Coq Require Import Reals Lra Psatz Qreals QArith Qround.
From MM Require Import Base.Num Base.GBLemmas Model.Scale Proofs.Scale RealSpec.LogScale.
Local Open Scope R_scope.

(* ---------- Q2R and the boolean comparisons ---------- *)
Lemma Q2R_0' : Q2R 0 = 0. Proof. apply RMicromega.Q2R_0. Qed.
Lemma Q2R_1' : Q2R 1 = 1. Proof. unfold Q2R. cbn. field. Qed.
Lemma Q2R_half : Q2R (1 # 2) = / 2. Proof. unfold Q2R. cbn. field. Qed.
Lemma Q2R_inject_Z z : Q2R (inject_Z z) = IZR z. Proof. unfold Q2R, inject_Z. cbn. field. Qed.

Lemma Qltb_R a b : if Qltb a b then Q2R a < Q2R b else Q2R b <= Q2R a.
Proof. destruct (Qltb a b) eqn:E; gb_bool; [now apply Qlt_Rlt | now apply Qle_Rle]. Qed.
Lemma Qleb_R a b : if Qleb a b then Q2R a <= Q2R b else Q2R b < Q2R a.
Proof. destruct (Qleb a b) eqn:E; gb_bool; [now apply Qle_Rle | now apply Qlt_Rlt]. Qed.
Lemma Qeqb_R a b : if Qeqb a b then Q2R a = Q2R b else Q2R a <> Q2R b.
Proof. destruct (Qeqb a b) eqn:E; gb_bool; [now apply Qeq_eqR | intro H; apply E; now apply eqR_Qeq]. Qed.

Lemma clampq_R y : Q2R (clampq y) = clampR (Q2R y).
Proof. unfold clampq, clampR.
  pose proof (Qltb_R y 0) as A. pose proof (Qltb_R 1 y) as B. rewrite Q2R_0' in A. rewrite Q2R_1' in B.
  destruct (Qltb y 0); destruct (Rlt_dec (Q2R y) 0); try lra; try apply Q2R_0'.
  destruct (Qltb 1 y); destruct (Rlt_dec 1 (Q2R y)); try lra; try apply Q2R_1'. Qed.

(* ---------- the symbolic results denote real numbers ---------- *)
Definition lmapR (r : lmap) : option R :=
  match r with
  | LM_nan => None
  | LM_half => Some (/ 2)
  | LM_val neg clamp mn mx x =>
      let y := (ln (Q2R x) - ln (Q2R mn)) / (ln (Q2R mx) - ln (Q2R mn)) in
      let y := if neg then 1 - y else y in
      Some (if clamp then clampR y else y)
  end.
Definition lunmapR (r : lunmap) : R :=
  match r with
  | LU_val neg mn mx y =>
      let x := exp (Q2R y * (ln (Q2R mx) - ln (Q2R mn)) + ln (Q2R mn)) in if neg then - x else x
  end.

(* the decision model of Log.Map is the real-valued Log.Map on rational inputs *)
Lemma log_map_dec_R s x :
  log_mapR (Q2R (g_min s)) (Q2R (g_max s)) (g_clamp s) (Q2R x) = lmapR (log_map_dec s x).
Proof.
  unfold log_mapR, log_map_dec, eboundsR, ebounds.
  pose proof (Qltb_R (g_min s) 0) as A. rewrite Q2R_0' in A.
  destruct (Qltb (g_min s) 0); destruct (Rlt_dec (Q2R (g_min s)) 0); try lra.
  - pose proof (Qleb_R (- x) 0) as B. rewrite Q2R_0', Q2R_opp in B.
    destruct (Qleb (- x) 0); destruct (Rle_dec (- Q2R x) 0); try lra; [reflexivity|].
    pose proof (Qeqb_R (- g_max s) (- g_min s)) as C. rewrite !Q2R_opp in C.
    destruct (Qeqb (- g_max s) (- g_min s)); destruct (Req_EM_T (- Q2R (g_max s)) (- Q2R (g_min s))); try lra; try contradiction; [reflexivity|].
    cbn [lmapR]. rewrite !Q2R_opp. reflexivity.
  - pose proof (Qleb_R x 0) as B. rewrite Q2R_0' in B.
    destruct (Qleb x 0); destruct (Rle_dec (Q2R x) 0); try lra; [reflexivity|].
    pose proof (Qeqb_R (g_min s) (g_max s)) as C.
    destruct (Qeqb (g_min s) (g_max s)); destruct (Req_EM_T (Q2R (g_min s)) (Q2R (g_max s))); try lra; try contradiction; reflexivity.
Qed.

Lemma log_unmap_dec_R s y :
  log_unmapR (Q2R (g_min s)) (Q2R (g_max s)) (Q2R y) = lunmapR (log_unmap_dec s y).
Proof.
  unfold log_unmapR, log_unmap_dec, eboundsR, ebounds.
  pose proof (Qltb_R (g_min s) 0) as A. rewrite Q2R_0' in A.
  destruct (Qltb (g_min s) 0); destruct (Rlt_dec (Q2R (g_min s)) 0); try lra; cbn [lunmapR].
  - rewrite !Q2R_opp, Q2R_minus, Q2R_1'. reflexivity.
  - reflexivity.
Qed.

(* ---------- powers of an integer ---------- *)
Lemma ln_bpow b k : (2 <= b)%Z -> ln (Q2R (bpow b k)) = IZR k * ln (IZR b).
Proof.
  intros Hb. assert (Pb : 0 < IZR b) by (apply IZR_lt; lia).
  unfold bpow. destruct (0 <=? k)%Z eqn:E.
  - apply Z.leb_le in E. rewrite Q2R_inject_Z.
    rewrite <- (Z2Nat.id k) at 1 by assumption. rewrite <- pow_IZR, ln_pow by assumption.
    rewrite INR_IZR_INZ, Z2Nat.id by assumption. reflexivity.
  - apply Z.leb_gt in E.
    assert (P : (0 < b ^ (- k))%Z) by (apply Z.pow_pos_nonneg; lia).
    unfold Q2R. cbn [Qnum Qden]. rewrite Z2Pos.id by assumption.
    rewrite Rmult_1_l.
    assert (Hp : 0 < IZR (b ^ (- k))) by (apply IZR_lt; assumption).
    rewrite ln_Rinv by assumption.
    rewrite <- (Z2Nat.id (- k)) at 1 by lia. rewrite <- pow_IZR, ln_pow by assumption.
    rewrite INR_IZR_INZ, Z2Nat.id by lia. rewrite opp_IZR. ring.
Qed.

Lemma ln_b_pos b : (2 <= b)%Z -> 0 < ln (IZR b).
Proof. intros Hb. rewrite <- ln_1. apply ln_increasing; [lra|]. apply IZR_lt. lia. Qed.

(* (b): with min = b^i, max = b^j and x = b^k the real value of Log.Map is the
   rational (k-i)/(j-i) the check compares with *)
Lemma lmap_exact_sound b r v : lmap_exact b r = Some v ->
  match v with
  | XNaN => lmapR r = None
  | XFin q => lmapR r = Some (Q2R q)
  | XInf _ => False
  end.
Proof.
  destruct r as [| |neg clamp mn mx x].
  - intros [= <-]. reflexivity.
  - intros [= <-]. cbn. now rewrite Q2R_half.
  - intros H. apply lmap_exact_spec in H.
    destruct H as (i & j & k & Hb & Hi & Hj & Hk & Nij & y & Hy & ->).
    cbn [lmapR]. f_equal.
    rewrite (Qeq_eqR _ _ Hi), (Qeq_eqR _ _ Hj), (Qeq_eqR _ _ Hk), !ln_bpow by assumption.
    pose proof (ln_b_pos b Hb) as Lb.
    assert (Nz : IZR (j - i) <> 0) by (apply not_0_IZR; intro Z0; apply Nij; symmetry; now apply Zminus_eq).
    assert (Ey : Q2R y = (IZR k * ln (IZR b) - IZR i * ln (IZR b)) / (IZR j * ln (IZR b) - IZR i * ln (IZR b))).
    { rewrite (Qeq_eqR _ _ Hy), Q2R_div, !Q2R_inject_Z.
      - rewrite !minus_IZR in *. field. split; [|lra].
        replace (IZR j * ln (IZR b) - IZR i * ln (IZR b)) with ((IZR j - IZR i) * ln (IZR b)) by ring.
        apply Rmult_integral_contrapositive_currified; lra.
      - intro Z0. apply Qeq_eqR in Z0. rewrite Q2R_inject_Z, Q2R_0' in Z0. contradiction. }
    rewrite <- Ey.
    destruct neg, clamp; cbn; rewrite ?clampq_R, ?Q2R_minus, ?Q2R_1'; reflexivity.
Qed.

(* the closed form of Log.Unmap (eps = 0) is the true real value: +- b^n *)
Lemma lunmap_exact_sound b r v : lunmap_exact b 0 r = Some v -> lunmapR r = Q2R v.
Proof.
  destruct r as [neg mn mx y]. intros H. apply lunmap_exact_spec in H.
  destruct H as (i & j & n & Hb & Hi & Hj & He & ->).
  cbn [lunmapR].
  rewrite (Qeq_eqR _ _ Hi), (Qeq_eqR _ _ Hj), !ln_bpow by assumption.
  apply Qeq_eqR in He. rewrite Q2R_plus, Q2R_mult, !Q2R_inject_Z, minus_IZR in He.
  replace (Q2R y * (IZR j * ln (IZR b) - IZR i * ln (IZR b)) + IZR i * ln (IZR b))
    with (IZR n * ln (IZR b)) by (rewrite <- He; ring).
  rewrite <- ln_bpow by assumption.
  rewrite exp_ln by (rewrite <- Q2R_0'; apply Qlt_Rlt; now apply bpow_pos).
  destruct neg; [now rewrite Q2R_opp | reflexivity].
Qed.

(* all together: on a Log scale with rational (float64) ends and a rational input, if the
   closed form yields a value then that value IS Log.Map x over the reals *)
Theorem log_map_closed_form_correct b s x v :
  lmap_exact b (log_map_dec s x) = Some v ->
  match v with
  | XNaN => log_mapR (Q2R (g_min s)) (Q2R (g_max s)) (g_clamp s) (Q2R x) = None
  | XFin q => log_mapR (Q2R (g_min s)) (Q2R (g_max s)) (g_clamp s) (Q2R x) = Some (Q2R q)
  | XInf _ => False
  end.
Proof. intros H. apply lmap_exact_sound in H. rewrite log_map_dec_R. exact H. Qed.

Theorem log_unmap_closed_form_correct b s y v :
  lunmap_exact b 0 (log_unmap_dec s y) = Some v ->
  log_unmapR (Q2R (g_min s)) (Q2R (g_max s)) (Q2R y) = Q2R v.
Proof. intros H. apply lunmap_exact_sound in H. rewrite log_unmap_dec_R. exact H. Qed.

(* RealSpec/Normal.v — the normal density and distribution function over Coquelicot reals.
   DEFINITIONS ONLY.  These are what the per-case certificate goals (M2) of C05/C12 and the
   theorems of Proofs/NormalR.v talk about.  Non-executable. *)
From Coq Require Import Reals.
From Coquelicot Require Import Coquelicot.
Open Scope R_scope.

(* density of N(mu, sigma^2) *)
Definition phi (mu sigma x : R) : R :=
  exp (- ((x - mu) * (x - mu)) / (2 * sigma * sigma)) / (sigma * sqrt (2 * PI)).

(* distribution function: one half (the mass left of the centre, by symmetry) plus the
   integral of the density from the centre to x *)
Definition Phi (mu sigma x : R) : R := 1 / 2 + RInt (phi mu sigma) mu x.

(* RealSpec/TDist.v — Student's t distribution over Coquelicot reals.  DEFINITIONS ONLY.
   With t = sqrt(nu) * tan(theta) the density shape (1+t^2/nu)^(-(nu+1)/2) dt becomes
   sqrt(nu) * cos(theta)^(nu-1) d(theta): every integral is a proper integral over a
   bounded range and the Gamma-function constant becomes J(nu) = int_0^(pi/2) cos^(nu-1).
   Meaningful (proper Riemann integrals) for nu >= 1. *)
From Coq Require Import Reals.
From Coquelicot Require Import Coquelicot.
Open Scope R_scope.

Definition tkernel (nu theta : R) : R := Rpower (cos theta) (nu - 1).

Definition tnorm (nu : R) : R := RInt (tkernel nu) 0 (PI / 2).

Definition tcdf (nu x : R) : R :=
  1 / 2 + (1 / 2) * (RInt (tkernel nu) 0 (atan (x / sqrt nu)) / tnorm nu).

Definition tpdf (nu x : R) : R :=
  Rpower (1 + x * x / nu) (- (nu + 1) / 2) / (2 * sqrt nu * tnorm nu).

(* RealSpec/TDistGen.v — Student's t distribution for EVERY real nu > 0.  DEFINITIONS ONLY.
   RealSpec/TDist.v normalises by J(nu) = int_0^(pi/2) cos^(nu-1), which for 0 < nu < 1 is an
   improper integral (the integrand is unbounded at pi/2) and therefore not what Coquelicot's
   RInt computes.  Integration by parts,
       d/dtheta ( sin(theta) cos^nu(theta) ) = (nu+1) cos^(nu+1)(theta) - nu cos^(nu-1)(theta),
   gives for 0 <= A < pi/2
       nu * int_0^A cos^(nu-1) = (nu+1) * int_0^A cos^(nu+1) - sin(A) cos^nu(A),
   whose right-hand side is continuous up to A = pi/2 for every nu > 0.  So the normalising
   constant is DEFINED by  J(nu) = (nu+1)/nu * J(nu+2)  with J(nu+2) a proper integral
   (this is B(nu/2,1/2) = (nu+1)/nu B(nu/2+1,1/2)); Proofs/TDistGen.v proves that it is the
   limit of the proper integrals int_0^A cos^(nu-1) as A -> pi/2 (tnorm_gen_is_improper) and
   equals tnorm nu for nu >= 1 (tnorm_gen_eq).  The partial integral int_0^atan(x/sqrt nu) is
   proper for every nu because atan stays strictly inside (-pi/2, pi/2). *)
From Coq Require Import Reals.
From Coquelicot Require Import Coquelicot.
From MM Require Import RealSpec.TDist.
Open Scope R_scope.

Definition tnorm_gen (nu : R) : R := (nu + 1) / nu * RInt (tkernel (nu + 2)) 0 (PI / 2).

Definition tcdf_gen (nu x : R) : R :=
  1 / 2 + 1 / 2 * (RInt (tkernel nu) 0 (atan (x / sqrt nu)) / tnorm_gen nu).

Definition tpdf_gen (nu x : R) : R :=
  Rpower (1 + x * x / nu) (- (nu + 1) / 2) / (2 * sqrt nu * tnorm_gen nu).

(* Spec/C06Prob.v — (group hF) plain-mathematics vocabulary for the statement of C06_check_ok_sound:
   the exact rational probabilities of the binomial and the hypergeometric distribution written with
   Pascal's binomial coefficient [binom] (Base/GFComb.v), and sums / moments of a probability function
   over an integer range.  DEFINITIONS ONLY; no function of Model/ is mentioned. *)
From MM Require Import Base.Num Base.GFSum Base.GFComb.
Local Open Scope Q_scope.

(* C(n,k) p^k (1-p)^(n-k) for 0 <= k <= n, else 0 *)
Definition bin_prob (n : Z) (p : Q) (k : Z) : Q :=
  if (k <? 0)%Z || (n <? k)%Z then 0 else bterm p (1 - p) (Z.to_nat n) (Z.to_nat k).

(* C(K,k) C(N-K,n-k) / C(N,n) for 0 <= k <= n, else 0 (Pascal's C(a,b) is 0 for b > a, so the value is
   also 0 for k > K and for n - k > N - K: outside max(0,n+K-N) .. min(n,K)) *)
Definition hg_prob (N K n k : Z) : Q :=
  if (k <? 0)%Z || (n <? k)%Z then 0
  else inject_Z (binom (Z.to_nat K) (Z.to_nat k) * binom (Z.to_nat (N - K)) (Z.to_nat (n - k)))
       / inject_Z (binom (Z.to_nat N) (Z.to_nat n)).

(* sum of the probabilities of the integers lo .. ki: the distribution function at any x with floor x = ki *)
Definition cdf_sum (pr : Z -> Q) (lo ki : Z) : Q := Qsum_range pr lo ki.

(* first moment and second central moment of a probability function carried by lo .. hi *)
Definition moment1 (pr : Z -> Q) (lo hi : Z) : Q := Qsum_range (fun j => inject_Z j * pr j) lo hi.
Definition cmoment2 (pr : Z -> Q) (lo hi : Z) : Q :=
  Qsum_range (fun j => (inject_Z j - moment1 pr lo hi) * (inject_Z j - moment1 pr lo hi) * pr j) lo hi.

(* Spec/Dfs.v — what "the depth-first pre-/post-order following adjacency order" and
   "properly nested Enter/Exit calls" mean, independent of any implementation.
   [dfs_node V n evs V']: starting with visited set V (a list used as a set), visiting the
   unvisited node n produces the event sequence evs and ends with visited set V':
   visit n, then each successor in adjacency order that is unvisited AT THAT MOMENT. *)
From Coq Require Import List NArith Lia.
From MM Require Import Base.GCGraph.
Import ListNotations.

Inductive event := Enter (n : N) | Exit (n : N).
Definition ev_node (e : event) : N := match e with Enter n => n | Exit n => n end.
Definition is_enter (e : event) : bool := match e with Enter _ => true | Exit _ => false end.
Definition is_exit (e : event) : bool := negb (is_enter e).
(* the Enter projection (= pre-order) and the Exit projection (= post-order) *)
Definition enters (evs : list event) : list N := map ev_node (filter is_enter evs).
Definition exits (evs : list event) : list N := map ev_node (filter is_exit evs).

Section Dfs.
  Variable out : N -> list N.

  Inductive dfs_node : list N -> N -> list event -> list N -> Prop :=
  | dfs_visit : forall V n evs V',
      dfs_succs (n :: V) (out n) evs V' ->
      dfs_node V n (Enter n :: evs ++ [Exit n]) V'
  with dfs_succs : list N -> list N -> list event -> list N -> Prop :=
  | dfs_done : forall V, dfs_succs V [] [] V
  | dfs_skip : forall V s t evs V',
      In s V -> dfs_succs V t evs V' -> dfs_succs V (s :: t) evs V'
  | dfs_descend : forall V s t e1 V1 e2 V2,
      ~ In s V -> dfs_node V s e1 V1 -> dfs_succs V1 t e2 V2 ->
      dfs_succs V (s :: t) (e1 ++ e2) V2.

  Scheme dfs_node_mut := Induction for dfs_node Sort Prop
  with dfs_succs_mut := Induction for dfs_succs Sort Prop.
  Combined Scheme dfs_mutind from dfs_node_mut, dfs_succs_mut.
End Dfs.

(* properly nested Enter/Exit words *)
Inductive nested : list event -> Prop :=
| nested_nil : nested []
| nested_wrap : forall n w, nested w -> nested (Enter n :: w ++ [Exit n])
| nested_app : forall w1 w2, nested w1 -> nested w2 -> nested (w1 ++ w2).

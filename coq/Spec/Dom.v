(* Spec/Dom.v — the definitions of dominance that property C19 refers to, as an
   executable oracle ("dominance decided by deleting each node and re-running
   reachability").  No algorithm here: every notion is read off [reach]. *)
From Coq Require Import List Arith Bool PeanoNat.
From MM Require Import Base.GDGraph.
Import ListNotations.

(* a dominates b (w.r.t. root r): b is reachable, and a = b or b is cut off when a is deleted *)
Definition dominates (g : graph) (r a b : nat) : Prop :=
  In b (reach g r) /\ (a = b \/ ~ In b (reach (del g a) r)).
Definition sdominates (g : graph) (r a b : nat) : Prop := dominates g r a b /\ a <> b.

(* predecessors of y, as a set of nodes *)
Definition preds (g : graph) (y : nat) : list nat :=
  filter (fun p => memb y (succs g p)) (seq 0 (length g)).

(* The oracle is written over R (the reachable set) and av (av a = what stays reachable
   when a is deleted) so that the checker can tabulate av once per (graph, root). *)
Section Oracle.
  Variable g : graph.
  Variable R : list nat.
  Variable av : nat -> list nat.

  Definition domb (a b : nat) : bool := memb b R && ((a =? b) || negb (memb b (av a))).
  Definition sdomb (a b : nat) : bool := domb a b && negb (a =? b).
  (* the strict dominators of b *)
  Definition sdoms (b : nat) : list nat := filter (fun a => sdomb a b) R.
  (* the closest one: the strict dominator that every strict dominator of b dominates *)
  Definition idom_of (b : nat) : option nat :=
    find (fun d => forallb (fun a => domb a d) (sdoms b)) (sdoms b).
  (* DF(x) = reachable y such that x dominates a (reachable) predecessor of y and
     x does not strictly dominate y *)
  Definition df_of (x : nat) : list nat :=
    filter (fun y => existsb (fun p => domb x p) (preds g y) && negb (sdomb x y)) R.
End Oracle.

Definition avoid (g : graph) (r : nat) : nat -> list nat := fun a => reach (del g a) r.
Definition dominatesb (g : graph) (r a b : nat) : bool := domb (reach g r) (avoid g r) a b.

(* IDom as the property words it; None plays the role of -1 *)
Definition idom_spec (g : graph) (r : nat) (b : nat) : option nat := idom_of (reach g r) (avoid g r) b.
Definition idom_spec_list (g : graph) (r : nat) : list (option nat) := map (idom_spec g r) (seq 0 (length g)).
(* the dominator tree: children of i = the nodes whose immediate dominator is i *)
Definition children_of (idom : list (option nat)) (i : nat) : list nat :=
  filter (fun j => match nth j idom None with Some p => p =? i | None => false end) (seq 0 (length idom)).
(* the dominance frontier of x *)
Definition df_spec (g : graph) (r : nat) (x : nat) : list nat := df_of g (reach g r) (avoid g r) x.

(* tabulated av for the checker: one deletion-reachability per reachable node *)
Definition avoid_table_on (g : graph) (r : nat) (R : list nat) : list (nat * list nat) :=
  map (fun a => (a, reach (del g a) r)) R.
Definition lookup (tab : list (nat * list nat)) (a : nat) : list nat :=
  match find (fun p => fst p =? a) tab with Some p => snd p | None => [] end.

(* Spec/Fit.v — plain-mathematics definitions the C15 theorems refer to: finite sums, the
   weighted sum of squared residuals, residual orthogonality, polynomial evaluation. *)
From MM Require Import Base.Num.
Local Open Scope Q_scope.

(* sum_{i<n} f i *)
Fixpoint sum_n (f : nat -> Q) (n : nat) : Q :=
  match n with O => 0 | S m => f O + sum_n (fun i => f (S i)) m end.

(* i-th entry of a vector; every use below is guarded by a length hypothesis *)
Definition vn (l : list Q) (i : nat) : Q := nth i l 0.
(* value of basis function j at observation i; cols = the term outputs (rows of XT) *)
Definition Xe (cols : list (list Q)) (j i : nat) : Q := vn (nth j cols []) i.

(* f(x_i) = sum_j beta_j term_j(x_i) *)
Definition fit_at (cols : list (list Q)) (beta : list Q) (i : nat) : Q :=
  sum_n (fun j => vn beta j * Xe cols j i) (length cols).
Definition resid_at (cols : list (list Q)) (y beta : list Q) (i : nat) : Q := vn y i - fit_at cols beta i.
(* S(beta) = sum_i w_i (y_i - f(x_i))^2 *)
Definition SSR (cols : list (list Q)) (w y beta : list Q) : Q :=
  sum_n (fun i => vn w i * (resid_at cols y beta i * resid_at cols y beta i)) (length y).
(* the weighted residual against basis function j: sum_i term_j(x_i) w_i r_i *)
Definition orth_at (cols : list (list Q)) (w y beta : list Q) (j : nat) : Q :=
  sum_n (fun i => Xe cols j i * vn w i * resid_at cols y beta i) (length y).

(* n observations: y, w and every column have n entries *)
Definition wf_design (n : nat) (cols : list (list Q)) (w y : list Q) : Prop :=
  length y = n /\ length w = n /\ Forall (fun c => length c = n) cols.

(* x^n and sum_i p_i x^i *)
Fixpoint pw (x : Q) (n : nat) : Q := match n with O => 1 | S m => x * pw x m end.
Definition poly_eval (p : list Q) (x : Q) : Q := sum_n (fun i => vn p i * pw x i) (length p).

(* pairwise different rationals *)
Fixpoint distinctQ (l : list Q) : Prop :=
  match l with [] => True | a :: t => Forall (fun r => ~ a == r) t /\ distinctQ t end.

(* the columns (basis functions) are linearly independent on the observations of positive weight:
   a combination sum_j delta_j term_j that vanishes at every such observation has all delta_j = 0 *)
Definition indep_cols (n : nat) (cols : list (list Q)) (w : list Q) : Prop :=
  forall delta : nat -> Q,
    (forall i, (i < n)%nat -> 0 < vn w i -> sum_n (fun j => delta j * Xe cols j i) (length cols) == 0) ->
    forall j, (j < length cols)%nat -> delta j == 0.

(* Spec/Kde.v — plain-mathematics definitions the C12 theorems refer to, over Q.
   DEFINITIONS ONLY, written independently of Model/Kde.v (no fold_left, no Qred, no fuel):
   weighted average of a kernel, weighted empirical distribution function, the two-sided
   image sum of the method of images, the pinned (defective, D5) variant of the image sum,
   sample variance and the 10th power of the rule-of-thumb bandwidths. *)
From MM Require Import Base.Num.
Local Open Scope Q_scope.

(* (value, weight) pairs of a sample; an unweighted sample has all weights 1 *)
Definition kpairs (xs : list Q) (ws : option (list Q)) : list (Q * Q) :=
  match ws with Some w => combine xs w | None => map (fun x => (x, 1)) xs end.

(* total weight  Σ w_i *)
Definition wtotal (ps : list (Q * Q)) : Q := Qsum (map snd ps).

(* weighted average of the kernel g centred at each sample value:
   ( Σ_i w_i g(x - x_i) ) / Σ_i w_i *)
Definition wavg (g : Q -> Q) (ps : list (Q * Q)) (x : Q) : Q :=
  Qsum (map (fun p => snd p * g (x - fst p)) ps) / wtotal ps.

(* weighted empirical distribution function: ( Σ_{x_i <= x} w_i ) / Σ_i w_i *)
Definition wecdf (ps : list (Q * Q)) (x : Q) : Q :=
  Qsum (map (fun p => if Qle_bool (fst p) x then snd p else 0) ps) / wtotal ps.

(* all weights positive, at least one value *)
Definition pairs_ok (ps : list (Q * Q)) : Prop := ps <> [] /\ Forall (fun p => 0 < snd p) ps.
(* every value inside [lo, hi] *)
Definition pairs_within (lo hi : Q) (ps : list (Q * Q)) : Prop := Forall (fun p => lo <= fst p /\ fst p <= hi) ps.

(* Σ_{n = -N .. N} t n *)
Fixpoint sym_sum (t : Z -> Q) (N : nat) : Q :=
  match N with
  | O => t 0%Z
  | S n => sym_sum t n + t (Z.of_nat (S n)) + t (- Z.of_nat (S n))%Z
  end.

(* period of the image lattice of the support [m, M): d = 2 (M - m) *)
Definition period (m M : Q) : Q := 2 * (M - m).

(* the unbounded density f folded back at both boundaries, images n = -N .. N:
   Σ_n ( f(x + n d) + f(2m - x + n d) ) *)
Definition fold_pdf (f : Q -> Q) (m M : Q) (N : nat) (x : Q) : Q :=
  sym_sum (fun n => f (x + inject_Z n * period m M) + f (2 * m - x + inject_Z n * period m M)) N.

(* the unbounded distribution function F folded at both boundaries:
   Σ_n ( F(x + n d) - F(2m - x + n d) ) *)
Definition fold_cdf (F : Q -> Q) (m M : Q) (N : nat) (x : Q) : Q :=
  sym_sum (fun n => F (x + inject_Z n * period m M) - F (2 * m - x + inject_Z n * period m M)) N.

(* what the pinned tree computed (defect D5, kde.go:216 before the fix): the images on the
   left of x taken at x - (n+1) d + w instead of x - (n+1) d - w, w = 2 (x - m):
   Σ_{n>=0} ( f(x + n d) + f(2m - x + n d) ) + Σ_{n>=1} ( f(3x - 2m - n d) + f(x - n d) ) *)
Fixpoint nat_sum (t : nat -> Q) (n : nat) : Q :=
  match n with O => 0 | S k => nat_sum t k + t k end.
Definition fold_pdf_D5 (f : Q -> Q) (m M : Q) (N : nat) (x : Q) : Q :=
  nat_sum (fun n => f (x + Qofnat n * period m M) + f (2 * m - x + Qofnat n * period m M)) (S N)
  + nat_sum (fun n => f (x - (Qofnat n + 1) * period m M + 2 * (x - m)) + f (x - (Qofnat n + 1) * period m M)) N.

(* (the sample variance the bandwidth rules refer to is var_def of Proofs/Stream.v, shared with
   C09 and C13: sum of squared deviations from the mean over n - 1) *)

Fixpoint Qpower_nat (q : Q) (n : nat) : Q := match n with O => 1 | S k => q * Qpower_nat q k end.

(* (1.06 * s * n^(-1/5))^10 written without roots, s2 = s^2:  1.06^10 * (s^2)^5 / n^2 *)
Definition rule10 (s2 n : Q) : Q := Qpower_nat (106 # 100) 10 * Qpower_nat s2 5 / (n * n).

(* Spec/MarkSet.v — the plain set of integers NodeMarks is specified against:
   a list used as a set (the "map-based set model" of the property text). *)
From Coq Require Import List ZArith NArith Bool.
From MM Require Import Model.Marks.
Import ListNotations.
Open Scope Z_scope.

Definition zset := list Z.
Definition zs_mem (s : zset) (i : Z) : bool := existsb (Z.eqb i) s.
Definition zs_add (s : zset) (i : Z) : zset := i :: s.
Definition zs_remove (s : zset) (i : Z) : zset := filter (fun j => negb (j =? i)) s.
(* least member greater than i, or -1 (members are non-negative) *)
Definition zs_next (s : zset) (i : Z) : Z :=
  fold_left (fun best j => if (i <? j) && ((best <? 0) || (j <? best)) then j else best) s (-1).

Definition zs_step (s : zset) (o : mop) : zset * Z :=
  match o with
  | MMark i => (zs_add s (Z.of_N i), 0)
  | MUnmark i => (zs_remove s (Z.of_N i), 0)
  | MTest i => (s, if zs_mem s i then 1 else 0)
  | MNext i => (s, zs_next s i)
  end.

Fixpoint zs_run (s : zset) (ops : list mop) : list Z :=
  match ops with
  | [] => []
  | o :: t => let '(s', r) := zs_step s o in r :: zs_run s' t
  end.

(* Spec/Quantile.v — the textbook definitions C10 refers to. *)
From MM Require Import Base.Num Base.GASort.
From Coq Require Import Qround.
Local Open Scope Q_scope.

(* k-th order statistic (1-based) of an ascending list, the index clamped to 1..N:
   x_(k) for 1 <= k <= N, x_(1) below, x_(N) above ("clamped to the smallest and largest value") *)
Definition ostat_c (sorted : list Q) (k : Z) : Q :=
  nth (Z.to_nat (Z.max 1 (Z.min k (Z.of_nat (length sorted))) - 1)) sorted 0.

(* x_(floor h) + (h - floor h) * (x_(floor h + 1) - x_(floor h)) *)
Definition interp_c (sorted : list Q) (h : Q) : Q :=
  let k := Qfloor h in
  ostat_c sorted k + (h - inject_Z k) * (ostat_c sorted (k + 1) - ostat_c sorted k).

Definition clamp01 (q : Q) : Q := if Qle_bool q 0 then 0 else if Qle_bool 1 q then 1 else q.

(* Hyndman-Fan type 8 with plotting constant c (c = 1/3): h = (N + c) q + c *)
Definition hf_def (c : Q) (xs : list Q) (q : Q) : Q :=
  interp_c (Qsort xs) ((Qofnat (length xs) + c) * clamp01 q + c).
Definition hf8_def : list Q -> Q -> Q := hf_def (1 # 3).

(* weighted: cumulative weight up to and including position i of an ascending pair list *)
Definition cumw (ps : list (Q * Q)) (i : nat) : Q := Qsum (map snd (firstn (S i) ps)).
Definition totw (ps : list (Q * Q)) : Q := Qsum (map snd ps).
(* i is the first position whose cumulative weight exceeds t *)
Definition first_exceeding (ps : list (Q * Q)) (t : Q) (i : nat) : Prop :=
  (i < length ps)%nat /\ t < cumw ps i /\ forall j, (j < i)%nat -> cumw ps j <= t.

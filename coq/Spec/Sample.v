(* Spec/Sample.v — the textbook definitions C09 refers to (mean_def, var_def, ssd_def, is_min,
   is_max are those of Proofs/Stream.v, shared with C13). *)
From MM Require Import Base.Num.
Local Open Scope Q_scope.

(* weighted sums over (value, weight) pairs *)
Definition wsum_xw (ps : list (Q * Q)) : Q := Qsum (map (fun p => fst p * snd p) ps).
Definition wsum_w (ps : list (Q * Q)) : Q := Qsum (map snd ps).
Definition wmean_def (ps : list (Q * Q)) : Q := wsum_xw ps / wsum_w ps.

(* the unweighted sample in which each value is repeated weight times *)
Fixpoint repeat_by_weights (xs : list Q) (ws : list nat) : list Q :=
  match xs, ws with
  | x :: xt, w :: wt => repeat x w ++ repeat_by_weights xt wt
  | _, _ => []
  end.
(* (value, weight) pairs; an unweighted sample has all weights 1 *)
Definition pairs_of (xs : list Q) (ws : option (list Q)) : list (Q * Q) :=
  match ws with Some w => combine xs w | None => map (fun x => (x, 1)) xs end.

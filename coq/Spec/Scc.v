(* Spec/Scc.v — what SCC (graph/graphalg/scc.go) promises, and an executable checker
   for it.  The Go result is observed as
     comps : Subnodes(0), Subnodes(1), ... (component id = position),
     outs  : Out(0), Out(1), ...           (with flag SCCEdges).
   [scc_spec] is the property text: the components partition the nodes; two nodes share a
   component exactly when each reaches the other; components are numbered in reverse
   topological order ("SCCGraph ... numbered in reverse topological sort order",
   scc.go:170-176: every edge leads to a component with an equal or SMALLER id — sinks
   first); [scc_edges_spec]: Out(c) lists exactly the OTHER components some edge of c
   enters, once each.  [scc_ok] / [scc_edges_ok] decide them with the verified closure
   [reach]; Proofs/Scc.v shows checker = specification. *)
From Coq Require Import List NArith ZArith FMapPositive Lia Bool Permutation.
From MM Require Import Base.GCGraph Base.GCReach.
Import ListNotations.

Definition comp_at (comps : list (list N)) (c : nat) : list N := nth c comps [].

Record scc_spec (g : graph) (comps : list (list N)) : Prop := mk_scc_spec {
  (* every node of g lies in exactly one component, exactly once *)
  scc_partition : Permutation (concat comps) (nodes_upto (g_n g));
  scc_nonempty : forall l, In l comps -> l <> [];
  (* same component <-> mutually reachable *)
  scc_mutual : forall c1 c2 u v, In u (comp_at comps c1) -> In v (comp_at comps c2) ->
      (c1 = c2 <-> path (g_out g) u v /\ path (g_out g) v u);
  (* reverse topological numbering *)
  scc_revtopo : forall c1 c2 u v, In u (comp_at comps c1) -> In v (comp_at comps c2) ->
      In v (g_out g u) -> (c2 <= c1)%nat
}.

Definition scc_edges_spec (g : graph) (comps outs : list (list N)) : Prop :=
  length outs = length comps /\
  forall c, (c < length comps)%nat ->
    NoDup (nth c outs []) /\
    forall d, In d (nth c outs []) <->
      (N.to_nat d <> c /\ exists u v, In u (comp_at comps c) /\ In v (comp_at comps (N.to_nat d)) /\ In v (g_out g u)).

(* ------------------------------------------------------------------ the checker *)
Definition cmap := PositiveMap.t N.
Definition cm_get (m : cmap) (v : N) : option N := PositiveMap.find (N.succ_pos v) m.
(* component of v (0 for a node that is in no component; the partition check excludes that) *)
Definition cm_of (m : cmap) (v : N) : N := match cm_get m v with Some c => c | None => 0%N end.

(* record the members of component c; None if a member is not a node or already has a component *)
Fixpoint cm_add_members (n c : N) (l : list N) (m : cmap) : option cmap :=
  match l with
  | [] => Some m
  | v :: t =>
      if (v <? n)%N && match cm_get m v with None => true | Some _ => false end
      then cm_add_members n c t (PositiveMap.add (N.succ_pos v) c m)
      else None
  end.
Fixpoint cm_build (n : N) (comps : list (list N)) (c : N) (m : cmap) : option cmap :=
  match comps with
  | [] => Some m
  | l :: t =>
      match l with
      | [] => None                                         (* empty component *)
      | _ => match cm_add_members n c l m with
             | None => None
             | Some m' => cm_build n t (c + 1)%N m'
             end
      end
  end.

(* every edge leads to an equal or smaller component id; u = id of the head of g *)
Fixpoint edges_down (cof : N -> N) (g : graph) (u : N) : bool :=
  match g with
  | [] => true
  | l :: t => forallb (fun v => (cof v <=? cof u)%N) l && edges_down cof t (u + 1)%N
  end.

(* transpose as a trie: In u (gm_out (tr_build g 0 empty) v) <-> In v (g_out g u) *)
Fixpoint tr_add (u : N) (l : list N) (t : gmap) : gmap :=
  match l with
  | [] => t
  | v :: r => tr_add u r (PositiveMap.add (N.succ_pos v) (u :: gm_out t v) t)
  end.
Fixpoint tr_build (g : graph) (u : N) (t : gmap) : gmap :=
  match g with
  | [] => t
  | l :: r => tr_build r (u + 1)%N (tr_add u l t)
  end.

(* the graph restricted to component c *)
Definition restrict (cof : N -> N) (c : N) (out : N -> list N) (u : N) : list N :=
  if (cof u =? c)%N then filter (fun v => (cof v =? c)%N) (out u) else [].

(* every member is reachable from the first member and reaches it, inside the component *)
Definition comp_strong (out tr : N -> list N) (cof : N -> N) (fuel : nat) (c : N) (members : list N) : bool :=
  match members with
  | [] => false
  | r :: _ =>
      match reach (restrict cof c out) fuel r, reach (restrict cof c tr) fuel r with
      | Some s1, Some s2 => forallb (fun v => ns_mem v s1 && ns_mem v s2) members
      | _, _ => false
      end
  end.
Fixpoint comps_strong (out tr : N -> list N) (cof : N -> N) (fuel : nat) (comps : list (list N)) (c : N) : bool :=
  match comps with
  | [] => true
  | l :: t => comp_strong out tr cof fuel c l && comps_strong out tr cof fuel t (c + 1)%N
  end.

Definition scc_fuel (g : graph) : nat := S (S (length g + length (concat g))).

Definition scc_ok (g : graph) (comps : list (list N)) : bool :=
  let n := g_n g in
  match cm_build n comps 0%N (PositiveMap.empty N) with
  | None => false
  | Some m =>
      let cof := cm_of m in
      (length (concat comps) =? length g)%nat &&
      edges_down cof g 0%N &&
      comps_strong (gm_out (gm_build g)) (gm_out (tr_build g 0%N (PositiveMap.empty _))) cof (scc_fuel g) comps 0%N
  end.

(* ---- component edges ---- *)
Fixpoint nodup_ns (l : list N) (s : nset) : bool :=
  match l with
  | [] => true
  | x :: t => negb (ns_mem x s) && nodup_ns t (ns_add x s)
  end.
Definition ns_of_list (l : list N) : nset := fold_right ns_add ns_empty l.

(* component ids entered by edges leaving the members of c, other than c itself (with repeats) *)
Definition comp_targets (out : N -> list N) (cof : N -> N) (c : N) (members : list N) : list N :=
  filter (fun d => negb (d =? c)%N) (map cof (flat_map out members)).

Definition out_ok (out : N -> list N) (cof : N -> N) (c : N) (members oc : list N) : bool :=
  let ex := comp_targets out cof c members in
  let s_oc := ns_of_list oc in
  let s_ex := ns_of_list ex in
  nodup_ns oc ns_empty && forallb (fun d => ns_mem d s_oc) ex && forallb (fun d => ns_mem d s_ex) oc.

Fixpoint outs_ok (out : N -> list N) (cof : N -> N) (comps outs : list (list N)) (c : N) : bool :=
  match comps, outs with
  | [], [] => true
  | l :: t, oc :: ot => out_ok out cof c l oc && outs_ok out cof t ot (c + 1)%N
  | _, _ => false
  end.

Definition scc_edges_ok (g : graph) (comps outs : list (list N)) : bool :=
  match cm_build (g_n g) comps 0%N (PositiveMap.empty N) with
  | None => false
  | Some m => outs_ok (gm_out (gm_build g)) (cm_of m) comps outs 0%N
  end.

(* SubnodeComponent(v) for v = 0..n-1, as the checker's own map sees it *)
Definition scc_component_of (g : graph) (comps : list (list N)) : option (list N) :=
  match cm_build (g_n g) comps 0%N (PositiveMap.empty N) with
  | None => None
  | Some m => Some (map (fun v => cm_of m v) (nodes_upto (g_n g)))
  end.

(* Spec/Ucount.v — plain-mathematics definitions for the Mann-Whitney statistic:
   pair counts, labellings (= size-n1 subsets of the pool), counts of labellings by U. *)
From Coq Require Import List ZArith Lia Arith Bool.
From MM Require Import Base.GEComb.
Import ListNotations.
Open Scope Z_scope.

Section Generic.
  Context {A : Type} (cmp : A -> A -> comparison).

  (* a pair (a from sample 1, b from sample 2) counts 2 if a > b, 1 if a = b: this is 2U *)
  Definition pairw (a b : A) : Z := match cmp a b with Gt => 2 | Eq => 1 | Lt => 0 end.
  Definition twoU_pairs (x1 x2 : list A) : Z := zsum (fun a => zsum (fun b => pairw a b) x2) x1.

  (* the values of the pool z that a labelling l puts into sample 1 (b = true) / sample 2 (b = false) *)
  Fixpoint sel (b : bool) (l : list bool) (z : list A) : list A :=
    match l, z with
    | lb :: l', v :: z' => if Bool.eqb lb b then v :: sel b l' z' else sel b l' z'
    | _, _ => []
    end.
  (* 2U of the relabelled data *)
  Definition twoU_lab (z : list A) (l : list bool) : Z := twoU_pairs (sel true l z) (sel false l z).

  (* z (listed from the largest value down) consists of tie groups of sizes Tr = [t_K; ...; t_1] *)
  Fixpoint grouped (Tr : list nat) (z : list A) : Prop :=
    match Tr with
    | [] => z = []
    | t :: rest => exists g z', z = g ++ z' /\ length g = t /\
                     (forall x y, In x g -> In y g -> cmp x y = Eq) /\
                     (forall x y, In x g -> In y z' -> cmp x y = Gt /\ cmp y x = Lt) /\
                     grouped rest z'
    end.
End Generic.

(* all labellings of N positions with exactly n marked "sample 1": the C(N,n) subsets *)
Fixpoint labs (N n : nat) : list (list bool) :=
  match N with
  | O => if (n =? 0)%nat then [[]] else []
  | S N' => (match n with O => [] | S n' => map (cons true) (labs N' n') end)
            ++ map (cons false) (labs N' n)
  end.

Definition ntrue (l : list bool) : nat := length (filter (fun b => b) l).
Definition nfalse (l : list bool) : nat := length (filter negb l).

Definition ind (b : bool) : Z := if b then 1 else 0.

(* number of size-n1 subsets of the pool whose 2U is <= w / = w *)
Definition count_le {A} (cmp : A -> A -> comparison) (z : list A) (n1 : nat) (w : Z) : Z :=
  zsum (fun l => ind (twoU_lab cmp z l <=? w)) (labs (length z) n1).
Definition count_eq {A} (cmp : A -> A -> comparison) (z : list A) (n1 : nat) (w : Z) : Z :=
  zsum (fun l => ind (twoU_lab cmp z l =? w)) (labs (length z) n1).

(* the canonical ranked pool of a tie vector Tr = [t_K; ...; t_1]: rank k repeated t_k times *)
Fixpoint rank_pool (Tr : list nat) : list nat :=
  match Tr with [] => [] | t :: rest => repeat (length Tr) t ++ rank_pool rest end.

(* ---- splits: how many of the n1 go to each rank; each split stands for prod C(t_k, r_k) subsets ---- *)
Fixpoint splits (Tr : list nat) (n1 : nat) : list (list nat) :=
  match Tr with
  | [] => if (n1 =? 0)%nat then [[]] else []
  | tK :: rest => flat_map (fun r => map (cons r) (splits rest (n1 - r))) (seq 0 (Nat.min n1 tK + 1))
  end.
Fixpoint twoU (Tr r : list nat) : Z :=
  match Tr, r with
  | tK :: rest, rK :: rr =>
      Z.of_nat rK * (2 * (Z.of_nat (lsum rest) - Z.of_nat (lsum rr)) + (Z.of_nat tK - Z.of_nat rK))
      + twoU rest rr
  | _, _ => 0
  end.
Fixpoint weight (Tr r : list nat) : Z :=
  match Tr, r with
  | tK :: rest, rK :: rr => C tK rK * weight rest rr
  | _, _ => 1
  end.
Definition cntS (Tr : list nat) (n1 : nat) (w : Z) : Z :=
  zsum (fun r => if twoU Tr r <=? w then weight Tr r else 0) (splits Tr n1).
Definition massS (Tr : list nat) (n1 : nat) (v : Z) : Z :=
  zsum (fun r => if twoU Tr r =? v then weight Tr r else 0) (splits Tr n1).
(* the split a labelling induces: number of marked positions inside each tie group *)
Fixpoint gsplit (Tr : list nat) (l : list bool) : list nat :=
  match Tr with
  | [] => []
  | t :: rest => ntrue (firstn t l) :: gsplit rest (skipn t l)
  end.

(* Tie/BinomPMF.v — T-tie for C06: stats/binomdist.go BinomialDist.PMF and CDF against Model/Binom.v
   binom_pmf, binom_cdf.  Opaque: mathx.Choose (choosef = the model's choose), math.Pow (powf: the
   power function at non-negative integer exponents), mathx.BetaInc (betaincf: at positive integer
   parameters the model's closed form ibeta_int — its accuracy is property C08's business).
   The guard order of CDF is the one of the /repo fix 2ae0515 (compare the float with N before
   converting it to int). *)
From Coq Require Import ZArith NArith QArith Qround Qabs List Bool Lia Lqa.
From MM Require Import Base.Num Base.GoSem Base.GFSum Model.Choose Model.Binom.
From MMGen Require Import Gen_stats_types Gen_stats_binomdist.
Import ListNotations.
Local Open Scope Q_scope.

Definition choose_ok (choosef : Z -> Z -> Q) : Prop := forall n k, choosef n k == inject_Z (choose n k).
Definition pow_ok (powf : Q -> Q -> Q) : Prop := forall x (k : nat), powf x (inject_Z (Z.of_nat k)) == qpow x k.
Definition betainc_ok (betaincf : Q -> Q -> Q -> Q) : Prop :=
  forall x (qa qb : Q) (a b : Z), qa == inject_Z a -> qb == inject_Z b -> (0 < a)%Z -> (0 < b)%Z ->
  betaincf x qa qb == ibeta_int x a b.

Theorem tie_binom_PMF : forall (choosef : Z -> Z -> Q) (powf : Q -> Q -> Q) (d : BinomialDist_rec) (k : Q),
  choose_ok choosef -> pow_ok powf -> (0 <= BinomialDist_N d < 2 ^ 62)%Z ->
  gen_BinomialDist_PMF choosef powf d k == binom_pmf (BinomialDist_N d) (BinomialDist_P d) k.
Proof.
  intros choosef powf [n p] k Hch Hpw Hn. unfold gen_BinomialDist_PMF, binom_pmf, binom_pmf_i.
  cbn [BinomialDist_N BinomialDist_P] in *. cbv zeta. unfold go_floor. rewrite go_f2i_inject.
  destruct ((Qfloor k <? 0)%Z || (n <? Qfloor k)%Z) eqn:E; [reflexivity|].
  apply orb_false_iff in E. destruct E as [E1 E2]. apply Z.ltb_ge in E1, E2.
  unfold go_ssub, go_i2f. rewrite wrap_s64_small by (zpow; lia).
  unfold choose_ok, pow_ok in *. rewrite Hch. rewrite <- (Z2Nat.id (Qfloor k)) at 2 by lia. rewrite <- (Z2Nat.id (n - Qfloor k)) at 1 by lia.
  rewrite !Hpw. reflexivity.
Qed.

Theorem tie_binom_CDF : forall (betaincf : Q -> Q -> Q -> Q) (d : BinomialDist_rec) (k : Q),
  betainc_ok betaincf -> (0 <= BinomialDist_N d < 2 ^ 62)%Z ->
  gen_BinomialDist_CDF betaincf d k == binom_cdf (BinomialDist_N d) (BinomialDist_P d) k.
Proof.
  intros betaincf [n p] k Hb Hn. unfold gen_BinomialDist_CDF, binom_cdf, binom_cdf_i.
  cbn [BinomialDist_N BinomialDist_P] in *. cbv zeta. unfold go_floor, go_i2f. rewrite go_f2i_inject.
  replace (Qleb (inject_Z n) (inject_Z (Qfloor k))) with (n <=? Qfloor k)%Z
    by (destruct (Z.leb_spec n (Qfloor k)); symmetry; [apply Qleb_iff; rewrite <- Zle_Qle | apply Qleb_niff; rewrite <- Zlt_Qlt]; assumption).
  destruct (Z.ltb_spec (Qfloor k) 0) as [Hneg|Hpos].
  - destruct (Z.leb_spec n (Qfloor k)); [lia | reflexivity].
  - destruct (Z.leb_spec n (Qfloor k)) as [Hge|Hlt]; [reflexivity|].
    unfold go_ssub. rewrite wrap_s64_small by (zpow; lia).
    apply Hb; try lia; [reflexivity | rewrite inject_Z_plus; reflexivity].
Qed.

(* non-vacuity *)
Example choose_ok_example : choose_ok (fun n k => inject_Z (choose n k)).
Proof. intros n k. reflexivity. Qed.
Example pow_ok_example : pow_ok (fun x y => qpow x (Z.to_nat (Qfloor y))).
Proof. intros x k. rewrite Qfloor_Z, Nat2Z.id. reflexivity. Qed.
Example betainc_ok_example : betainc_ok (fun x qa qb => ibeta_int x (Qfloor qa) (Qfloor qb)).
Proof. intros x qa qb a b Ha Hb _ _. rewrite (Qfloor_comp _ _ Ha), (Qfloor_comp _ _ Hb), !Qfloor_Z. reflexivity. Qed.

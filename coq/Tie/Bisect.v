(* Tie/Bisect.v — T-tie for C07: stats/alg.go bisectBool against Model/InvCDF.v bisect_bool (the
   bisection step of the generic InvCDF closure of stats/dist.go).

   bisectBool is a "for { ... }" loop that returns from inside: the generated definition takes
   fuel.  Under the exact reading of float64 the loop ends only through  high-low <= xtol  (the
   tests mid == low / mid == high, which end the float64 loop, never fire on rationals).  The tie
   therefore speaks about xtol > 0: when k halvings are what it takes to bring the width within
   xtol, the generated code returns the pair the model computes with k halvings.  The closure
   returned by InvCDF itself (dist.go) calls bisectBool with xtol = 0 — it terminates only by
   float64 rounding —: the closure is tied in Tie/InvCDFGeneric.v with bisectBool opaque (special
   cases and the bracket expansion while the probes are exact, i.e. below 2^53; Model/InvCDF.v
   rounds the probes with f64_round_Z beyond that). *)
From Coq Require Import ZArith NArith QArith Qround Qabs List Bool Lia Lqa.
From MM Require Import Base.Num Base.GoSem Model.InvCDF.
From MMGen Require Import Gen_stats_alg.
Import ListNotations.
Local Open Scope Q_scope.

Section Bisect.
  Variables (F : Q -> Q) (y xtol : Q).
  Hypothesis F_comp : forall a b, a == b -> Qltb (F a) y = Qltb (F b) y.
  Let f := fun x => Qltb (F x) y.
  Variable cond : Q * Q * bool * bool -> bool.
  Variable body : Q * Q * bool * bool -> go_ctl (Q * Q * bool * bool) (Q * Q).
  Hypothesis cond_ok : forall s, cond s = true.
  Hypothesis body_ok : forall lo hi fl fh,
    body (lo, hi, fl, fh) =
    if Qleb (hi - lo) xtol then Go_ret (lo, hi)
    else let mid := (hi + lo) / (2 # 1) in
         if Qeqb mid hi || Qeqb mid lo then Go_ret (lo, hi)
         else if Bool.eqb (f mid) fl then Go_next (mid, hi, f mid, fh) else Go_next (lo, mid, fl, f mid).

  Fixpoint pow2 (k : nat) : Q := match k with O => 1 | S j => (2 # 1) * pow2 j end.
  Lemma pow2_pos k : 0 < pow2 k.
  Proof. induction k; cbn [pow2]; lra. Qed.

  Lemma bisect_loop : forall k fuel lo hi lo' hi' fh, lo == lo' -> hi == hi' -> lo < hi ->
    (hi - lo) / pow2 k <= xtol -> (forall j, (j < k)%nat -> xtol < (hi - lo) / pow2 j) -> (k < fuel)%nat ->
    exists a b, go_while_ctl fuel cond body (lo, hi, true, fh) = Go_ret (a, b) /\
                a == fst (bisect_bool F k y lo' hi') /\ b == snd (bisect_bool F k y lo' hi').
  Proof.
    induction k as [|k IH]; intros fuel lo hi lo' hi' fh Hlo Hhi Hlt Hw Hj Hf; (destruct fuel as [|fuel]; [lia|]);
      cbn [go_while_ctl bisect_bool]; rewrite cond_ok, body_ok.
    - cbn [pow2] in Hw. replace (Qleb (hi - lo) xtol) with true by (symmetry; apply Qleb_iff; unfold Qdiv in Hw; rewrite Qmult_1_r in Hw; exact Hw || lra).
      exists lo, hi. cbn [fst snd]. auto.
    - assert (H0 : xtol < hi - lo).
      { specialize (Hj 0%nat ltac:(lia)). cbn [pow2] in Hj. unfold Qdiv in Hj. rewrite Qmult_1_r in Hj. exact Hj. }
      replace (Qleb (hi - lo) xtol) with false by (symmetry; apply Qleb_niff; exact H0).
      cbv zeta. set (mid := (hi + lo) / (2 # 1)).
      assert (Hm : lo < mid /\ mid < hi) by (unfold mid; split; apply Qlt_shift_div_l || apply Qlt_shift_div_r; lra).
      replace (Qeqb mid hi) with false by (symmetry; apply Qeqb_niff; intros C; destruct Hm; lra).
      replace (Qeqb mid lo) with false by (symmetry; apply Qeqb_niff; intros C; destruct Hm; lra).
      cbn [orb].
      assert (Emid : mid == Qred ((hi' + lo') / 2)) by (rewrite Qred_correct; unfold mid; rewrite Hlo, Hhi; reflexivity).
      unfold f. rewrite (F_comp mid (Qred ((hi' + lo') / 2)) Emid).
      assert (Hhalf : forall a b, b - a == (hi - lo) / (2 # 1) -> forall j, (b - a) / pow2 j == (hi - lo) / pow2 (S j)).
      { intros a b E j. cbn [pow2]. rewrite E. pose proof (pow2_pos j). field. lra. }
      destruct (Qltb (F (Qred ((hi' + lo') / 2))) y); cbn [Bool.eqb].
      + apply (IH fuel mid hi (Qred ((hi' + lo') / 2)) hi' fh Emid Hhi (proj2 Hm)).
        * rewrite (Hhalf mid hi) by (unfold mid; field). exact Hw.
        * intros j Hjk. rewrite (Hhalf mid hi) by (unfold mid; field). apply Hj. lia.
        * lia.
      + apply (IH fuel lo mid lo' (Qred ((hi' + lo') / 2)) false Hlo Emid (proj1 Hm)).
        * rewrite (Hhalf lo mid) by (unfold mid; field). exact Hw.
        * intros j Hjk. rewrite (Hhalf lo mid) by (unfold mid; field). apply Hj. lia.
        * lia.
  Qed.
End Bisect.

Theorem tie_bisectBool : forall (panicv : Q * Q) (F : Q -> Q) (y : Q) (k fuel : nat) (lo hi xtol : Q),
  (forall a b, a == b -> Qltb (F a) y = Qltb (F b) y) ->
  lo < hi -> Qltb (F lo) y = true -> Qltb (F hi) y = false ->
  (hi - lo) / pow2 k <= xtol -> (forall j, (j < k)%nat -> xtol < (hi - lo) / pow2 j) -> (k < fuel)%nat ->
  exists a b, gen_bisectBool panicv fuel (fun x => Qltb (F x) y) lo hi xtol = Some (a, b) /\
              a == fst (bisect_bool F k y lo hi) /\ b == snd (bisect_bool F k y lo hi).
Proof.
  intros panicv F y k fuel lo hi xtol Hc Hlt Hlo Hhi Hw Hj Hf. unfold gen_bisectBool. cbv zeta.
  rewrite Hlo, Hhi. cbn [Bool.eqb].
  match goal with |- context [go_while_ctl fuel ?cc ?bb (lo, hi, true, false)] =>
    destruct (bisect_loop F y xtol Hc cc bb ltac:(intros [[[? ?] ?] ?]; reflexivity)
                ltac:(intros lo0 hi0 fl fh; cbv beta iota zeta;
                      destruct (Qleb (hi0 - lo0) xtol); [reflexivity|];
                      destruct (Qeqb ((hi0 + lo0) / (2 # 1)) hi0 || Qeqb ((hi0 + lo0) / (2 # 1)) lo0); [reflexivity|];
                      destruct (Bool.eqb (Qltb (F ((hi0 + lo0) / (2 # 1))) y) fl); reflexivity)
                k fuel lo hi lo hi false (Qeq_refl _) (Qeq_refl _) Hlt Hw Hj Hf) as (ra & rb & E & Ha & Hb)
  end.
  rewrite E. exists ra, rb. auto.
Qed.

(* the bracket is never inverted: with f(low) == f(high) the code panics (alg.go:82-84) *)
Theorem tie_bisectBool_panic : forall (panicv : Q * Q) (f : Q -> bool) (fuel : nat) (lo hi xtol : Q),
  f lo = f hi -> gen_bisectBool panicv fuel f lo hi xtol = Some panicv.
Proof. intros panicv f fuel lo hi xtol H. unfold gen_bisectBool. cbv zeta. rewrite H, Bool.eqb_reflx. reflexivity. Qed.

(* non-vacuity: F the identity on [0, 8], y = 3, xtol = 1: three halvings (8, 4, 2, 1) *)
Example tie_bisectBool_run :
  match gen_bisectBool (0, 0) 10 (fun x => Qltb x (3 # 1)) 0 (8 # 1) 1 with
  | Some (a, b) => (Qred a, Qred b) = (2 # 1, 3 # 1)
  | None => False
  end /\ gen_bisectBool (0, 0) 10 (fun x => Qltb x (3 # 1)) 0 (8 # 1) 0 = None.
Proof. split; vm_compute; reflexivity. Qed.

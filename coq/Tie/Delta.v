(* Tie/Delta.v — T-tie for stats/deltadist.go (C05): the definitions generated from the current
   source agree with Model/Dists.v (delta_pdf, delta_cdf, delta_invcdf, delta_bounds) on finite
   arguments; +Inf and NaN results are the opaque values infv / nanv (go_of_xreal).
   Compiled by bin/ttie. *)
From Coq Require Import ZArith NArith QArith Qround Qabs List Lia Lqa Bool.
From MM Require Import Base.Num Base.GoSem Model.Dists.
From MMGen Require Import Gen_stats_types Gen_stats_deltadist.
Import ListNotations.
Local Open Scope Q_scope.

Ltac unf := unfold gen_DeltaDist_PDF, gen_DeltaDist_CDF, gen_DeltaDist_InvCDF, gen_DeltaDist_Bounds,
  delta_pdf, delta_cdf, delta_invcdf, delta_bounds, go_of_xreal, xle, xlt, xeqf; cbn [DeltaDist_T].

Theorem tie_Delta_PDF : forall (nanv infv : Q) (d : DeltaDist_rec) (x : Q),
  gen_DeltaDist_PDF infv d x == go_of_xreal nanv infv (delta_pdf (XFin (DeltaDist_T d)) (XFin x)).
Proof. intros nanv infv [T] x. unf. tie_q. Qed.

Theorem tie_Delta_CDF : forall (nanv infv : Q) (d : DeltaDist_rec) (x : Q),
  gen_DeltaDist_CDF d x == go_of_xreal nanv infv (delta_cdf (XFin (DeltaDist_T d)) (XFin x)).
Proof. intros nanv infv [T] x. unf. tie_q. Qed.

Theorem tie_Delta_InvCDF : forall (nanv infv : Q) (d : DeltaDist_rec) (y : Q),
  gen_DeltaDist_InvCDF nanv d y == go_of_xreal nanv infv (delta_invcdf (XFin (DeltaDist_T d)) (XFin y)).
Proof. intros nanv infv [T] y. unf. tie_q. Qed.

Theorem tie_Delta_Bounds : forall (d : DeltaDist_rec),
  fst (gen_DeltaDist_Bounds d) == fst (delta_bounds (DeltaDist_T d)) /\
  snd (gen_DeltaDist_Bounds d) == snd (delta_bounds (DeltaDist_T d)).
Proof. intros [T]. unf. cbn [fst snd]. split; ring. Qed.

Theorem tie_Delta_pdfEach : forall (nanv infv : Q) (d : DeltaDist_rec) (xs : list Q),
  Forall2 (fun x y => y == go_of_xreal nanv infv (delta_pdf (XFin (DeltaDist_T d)) (XFin x)))
          xs (gen_DeltaDist_pdfEach infv d xs).
Proof.
  intros nanv infv [T] xs. unfold gen_DeltaDist_pdfEach. cbn [DeltaDist_T]. cbv zeta.
  apply fold_enum_map. intros ys i x Hi Hd. unf.
  upd_step (0 # 1) Hi Hd; tie_q.
Qed.

Theorem tie_Delta_cdfEach : forall (nanv infv : Q) (d : DeltaDist_rec) (xs : list Q),
  Forall2 (fun x y => y == go_of_xreal nanv infv (delta_cdf (XFin (DeltaDist_T d)) (XFin x)))
          xs (gen_DeltaDist_cdfEach d xs).
Proof.
  intros nanv infv [T] xs. unfold gen_DeltaDist_cdfEach. cbn [DeltaDist_T]. cbv zeta.
  apply fold_enum_map. intros ys i x Hi Hd.
  cbv beta iota zeta. eexists; split; [reflexivity|]. unf. tie_q.
Qed.

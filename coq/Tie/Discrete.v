(* Tie/Discrete.v — T-tie for stats/binomdist.go and stats/hypergdist.go (C06): Bounds, Step,
   Mean, Variance generated from the current source agree with Model/Binom.v / Model/Hyperg.v.
   Go's int arithmetic wraps at 2^63; the hypergeometric statements therefore carry the guard
   N < 2^15 (then the four-fold product in Variance stays below 2^60).  Compiled by bin/ttie. *)
From Coq Require Import ZArith NArith QArith Qround Qabs List Lia Lqa.
From MM Require Import Base.Num Base.GoSem Model.Binom Model.Hyperg.
From MMGen Require Import Gen_stats_types Gen_stats_alg Gen_stats_binomdist Gen_stats_hypergdist.
Local Open Scope Q_scope.

(* ---------- binomial ---------- *)
Theorem tie_binom_Bounds : forall d : BinomialDist_rec,
  gen_BinomialDist_Bounds d =
  (inject_Z (fst (binom_bounds (BinomialDist_N d))), inject_Z (snd (binom_bounds (BinomialDist_N d)))).
Proof. intros [n p]. reflexivity. Qed.

Theorem tie_binom_Step : forall d : BinomialDist_rec, gen_BinomialDist_Step d == 1.
Proof. intros d. reflexivity. Qed.

Theorem tie_binom_Mean : forall d : BinomialDist_rec,
  gen_BinomialDist_Mean d == binom_mean (BinomialDist_N d) (BinomialDist_P d).
Proof. intros [n p]. unfold gen_BinomialDist_Mean, binom_mean, go_i2f. cbn [BinomialDist_N BinomialDist_P]. ring. Qed.

Theorem tie_binom_Variance : forall d : BinomialDist_rec,
  gen_BinomialDist_Variance d == binom_var (BinomialDist_N d) (BinomialDist_P d).
Proof. intros [n p]. unfold gen_BinomialDist_Variance, binom_var, go_i2f. cbn [BinomialDist_N BinomialDist_P]. ring. Qed.

(* ---------- hypergeometric ---------- *)
Definition hg_guard (d : HypergeometicDist_rec) : Prop :=
  (0 <= HypergeometicDist_K d <= HypergeometicDist_N d)%Z /\
  (0 <= HypergeometicDist_Draws d <= HypergeometicDist_N d)%Z /\ (HypergeometicDist_N d < 2 ^ 15)%Z.

Ltac hproj := cbn [HypergeometicDist_N HypergeometicDist_K HypergeometicDist_Draws] in *.

Lemma wrap64 z : (- 4611686018427387904 <= z < 4611686018427387904)%Z -> wrap_s 64 z = z.
Proof. exact (wrap_s64_small z). Qed.

(* all integer atoms are below 2^15 + 1 in absolute value; [unwrap64] removes Go's wrap-around from
   any polynomial of degree <= 4 over them, whatever its shape *)
Ltac hg_unwrap := unfold go_sadd, go_ssub, go_smul, go_sneg; unwrap64 32769%Z.
Ltac inj_eq :=
  match goal with
  | |- inject_Z ?a / inject_Z ?b == inject_Z ?c / inject_Z ?d =>
      replace a with c by ring; replace b with d by ring; reflexivity
  end.

Theorem tie_hg_bounds : forall d : HypergeometicDist_rec, hg_guard d ->
  gen_HypergeometicDist_bounds d =
  hg_bounds (HypergeometicDist_N d) (HypergeometicDist_K d) (HypergeometicDist_Draws d).
Proof.
  intros [N K n] (HK & Hn & HN). hproj. zpow.
  unfold gen_HypergeometicDist_bounds, hg_bounds, hg_lo, hg_hi, gen_maxint, gen_minint. hproj.
  hg_unwrap. f_equal; zcases; lia.
Qed.

Theorem tie_hg_Bounds : forall d : HypergeometicDist_rec, hg_guard d ->
  gen_HypergeometicDist_Bounds d =
  (let b := hg_bounds (HypergeometicDist_N d) (HypergeometicDist_K d) (HypergeometicDist_Draws d) in
   (inject_Z (fst b), inject_Z (snd b))).
Proof.
  intros d H. unfold gen_HypergeometicDist_Bounds. rewrite (tie_hg_bounds d H). reflexivity.
Qed.

Theorem tie_hg_Step : forall d : HypergeometicDist_rec, gen_HypergeometicDist_Step d == 1.
Proof. intros d. reflexivity. Qed.

Theorem tie_hg_Mean : forall d : HypergeometicDist_rec, hg_guard d ->
  gen_HypergeometicDist_Mean d ==
  hg_mean (HypergeometicDist_N d) (HypergeometicDist_K d) (HypergeometicDist_Draws d).
Proof.
  intros [N K n] (HK & Hn & HN). hproj. zpow. unfold gen_HypergeometicDist_Mean, hg_mean, go_i2f. hproj.
  hg_unwrap. inj_eq.
Qed.

Theorem tie_hg_Variance : forall d : HypergeometicDist_rec, hg_guard d ->
  gen_HypergeometicDist_Variance d ==
  hg_var (HypergeometicDist_N d) (HypergeometicDist_K d) (HypergeometicDist_Draws d).
Proof.
  intros [N K n] (HK & Hn & HN). hproj. zpow. unfold gen_HypergeometicDist_Variance, hg_var, go_i2f. hproj.
  hg_unwrap. inj_eq.
Qed.

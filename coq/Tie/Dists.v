(* Tie/Dists.v — T-tie for the rational parts of stats/normaldist.go (Bounds, Mean, Variance)
   and stats/tdist.go (Bounds), property C05: generated definitions agree with Model/Dists.v.
   (PDF/CDF/InvCDF need exp/erfc/BetaInc and are outside the translator's subset.)
   Compiled by bin/ttie. *)
From Coq Require Import ZArith NArith QArith Qround Qabs List Lia Lqa.
From MM Require Import Base.Num Base.GoSem Model.Dists.
From MMGen Require Import Gen_stats_types Gen_stats_normaldist Gen_stats_tdist.
Local Open Scope Q_scope.

Ltac nproj := cbn [NormalDist_Mu NormalDist_Sigma fst snd].

Theorem tie_Normal_Mean : forall d : NormalDist_rec,
  gen_NormalDist_Mean d == normal_mean (NormalDist_Mu d) (NormalDist_Sigma d).
Proof. intros [mu sg]. unfold gen_NormalDist_Mean, normal_mean. nproj. reflexivity. Qed.

Theorem tie_Normal_Variance : forall d : NormalDist_rec,
  gen_NormalDist_Variance d == normal_variance (NormalDist_Mu d) (NormalDist_Sigma d).
Proof. intros [mu sg]. unfold gen_NormalDist_Variance, normal_variance. nproj. ring. Qed.

Theorem tie_Normal_Bounds : forall d : NormalDist_rec,
  fst (gen_NormalDist_Bounds d) == fst (normal_bounds (NormalDist_Mu d) (NormalDist_Sigma d)) /\
  snd (gen_NormalDist_Bounds d) == snd (normal_bounds (NormalDist_Mu d) (NormalDist_Sigma d)).
Proof. intros [mu sg]. unfold gen_NormalDist_Bounds, normal_bounds. nproj. split; ring. Qed.

Theorem tie_TDist_Bounds : forall t : TDist_rec,
  fst (gen_TDist_Bounds t) == fst tdist_bounds /\ snd (gen_TDist_Bounds t) == snd tdist_bounds.
Proof. intros t. unfold gen_TDist_Bounds, tdist_bounds. cbn [fst snd]. split; ring. Qed.

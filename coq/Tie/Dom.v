(* Tie/Dom.v — T-tie for C19: graph/graphalg/dom.go intersect (the two-finger walk up the dominator
   tree of the Cooper-Harvey-Kennedy iteration) against Model/Dom.v intersect.

   The Go function is two "for cond" loops nested in a third: gen_intersect takes fuel, and every
   loop gets the same fuel.  The model flattens the walk: one finger step per unit of its fuel,
   Panic for an index out of range or a step through -1, NoFuel when two distinct nodes carry the
   same post-order number (the code would spin).  The tie: whenever the model returns Ok r with
   fuel f, the generated code returns Some r for every fuel > f.  IDom's sweep: below; DomFrontier:
   Tie/DomFrontier.v; the traversals: Tie/OrderVisit.v. *)
From Coq Require Import ZArith NArith List Bool Lia PeanoNat.
From MM Require Import Base.Num Base.GoSem Model.Dom.
From MMGen Require Import Gen_graphalg_dom.
Import ListNotations.
Local Open Scope Z_scope.

Definition zo (o : option nat) : Z := match o with Some k => Z.of_nat k | None => -1 end.

Section Intersect.
  Variables (idom : list (option nat)) (poNum : list nat).
  Let I := map zo idom.
  Let P := map Z.of_nat poNum.

  Lemma idx_P b n : get poNum b = Ok n -> go_idx 0 P (Z.of_nat b) = Z.of_nat n.
  Proof.
    unfold get. destruct (nth_error poNum b) as [x|] eqn:E; [|discriminate]. intros [= <-].
    unfold go_idx, P. rewrite Nat2Z.id. change 0 with (Z.of_nat 0). rewrite map_nth. f_equal. apply nth_error_nth. exact E.
  Qed.
  Lemma idx_I b k : get idom b = Ok (Some k) -> go_idx 0 I (Z.of_nat b) = Z.of_nat k.
  Proof.
    unfold get. destruct (nth_error idom b) as [x|] eqn:E; [|discriminate]. intros [= ->].
    unfold go_idx, I. rewrite Nat2Z.id. rewrite (nth_indep _ 0 (zo None)) by (rewrite map_length; apply nth_error_Some; congruence).
    rewrite map_nth. rewrite (nth_error_nth _ _ _ E). reflexivity.
  Qed.

  (* one step of the model *)
  Lemma intersect_ok_step f b1 b2 r : b1 <> b2 -> intersect f idom poNum b1 b2 = Ok r ->
    exists f' n1 n2, f = S f' /\ get poNum b1 = Ok n1 /\ get poNum b2 = Ok n2 /\
      (((n1 < n2)%nat /\ exists b1', get idom b1 = Ok (Some b1') /\ intersect f' idom poNum b1' b2 = Ok r) \/
       ((n2 < n1)%nat /\ exists b2', get idom b2 = Ok (Some b2') /\ intersect f' idom poNum b1 b2' = Ok r)).
  Proof.
    intros Hne H. destruct f as [|f']; cbn [intersect] in H;
      (destruct (Nat.eqb_spec b1 b2) as [C|_]; [contradiction|]); [discriminate|].
    unfold rbind in H. destruct (get poNum b1) as [n1| |] eqn:E1; try discriminate.
    destruct (get poNum b2) as [n2| |] eqn:E2; try discriminate.
    exists f', n1, n2. split; [reflexivity|]. split; [reflexivity|]. split; [reflexivity|].
    destruct (Nat.ltb_spec n1 n2) as [L|L].
    - left. split; [exact L|]. destruct (get idom b1) as [[b1'|]| |] eqn:E3; try discriminate. exists b1'. auto.
    - destruct (Nat.ltb_spec n2 n1) as [L2|L2]; [|discriminate].
      right. split; [exact L2|]. destruct (get idom b2) as [[b2'|]| |] eqn:E3; try discriminate. exists b2'. auto.
  Qed.

  Lemma intersect_same f b r : intersect f idom poNum b b = Ok r -> r = b.
  Proof. destruct f; cbn [intersect]; rewrite Nat.eqb_refl; intros [= <-]; reflexivity. Qed.

  (* finger 1:  for poNum[b1] < poNum[b2] { b1 = idom[b1] }
     ends at a node b1' from which the model still answers r, having spent f - f' of the model's
     steps; it stops because b1' = b2 or poNum[b2] < poNum[b1'] *)
  Lemma finger1 (cond : Z -> bool) (body : Z -> Z) b2 :
    (forall b, cond b = (go_idx 0 P b <? go_idx 0 P (Z.of_nat b2))) -> (forall b, body b = go_idx 0 I b) ->
    forall f b1 r F, intersect f idom poNum b1 b2 = Ok r -> (f < F)%nat ->
    exists b1' f', go_while F cond body (Z.of_nat b1) = Some (Z.of_nat b1') /\
                   intersect f' idom poNum b1' b2 = Ok r /\ ((b1' = b1 /\ f' = f) \/ (f' < f)%nat) /\
                   (b1' = b2 \/ exists n1 n2, get poNum b1' = Ok n1 /\ get poNum b2 = Ok n2 /\ (n2 < n1)%nat).
  Proof.
    intros Hc Hb. induction f as [|f IH]; intros b1 r F Hm HF; (destruct F as [|F]; [lia|]); rewrite go_while_S, Hc.
    - destruct (Nat.eq_dec b1 b2) as [->|Hne].
      + rewrite Z.ltb_irrefl. exists b2, 0%nat. repeat split; auto.
      + destruct (intersect_ok_step 0 b1 b2 r Hne Hm) as (f' & _ & _ & C & _). discriminate.
    - destruct (Nat.eq_dec b1 b2) as [->|Hne].
      + rewrite Z.ltb_irrefl. exists b2, (S f). repeat split; auto.
      + destruct (intersect_ok_step (S f) b1 b2 r Hne Hm) as (f' & n1 & n2 & [= <-] & E1 & E2 & [[L (b1' & E3 & Hm')]|[L (b2' & E3 & Hm')]]).
        * rewrite (idx_P _ _ E1), (idx_P _ _ E2). replace (Z.of_nat n1 <? Z.of_nat n2) with true by (symmetry; apply Z.ltb_lt; lia).
          rewrite Hb, (idx_I _ _ E3).
          destruct (IH b1' r F Hm' ltac:(lia)) as (b1'' & f'' & G & Hm'' & Hprog & Hfin).
          exists b1'', f''. split; [exact G|]. split; [exact Hm''|]. split; [right; lia | exact Hfin].
        * rewrite (idx_P _ _ E1), (idx_P _ _ E2). replace (Z.of_nat n1 <? Z.of_nat n2) with false by (symmetry; apply Z.ltb_ge; lia).
          exists b1, (S f). split; [reflexivity|]. split; [exact Hm|]. split; [left; auto|].
          right. exists n1, n2. auto.
  Qed.

  (* finger 2:  for poNum[b2] < poNum[b1] { b2 = idom[b2] } *)
  Lemma finger2 (cond : Z -> bool) (body : Z -> Z) b1 :
    (forall b, cond b = (go_idx 0 P b <? go_idx 0 P (Z.of_nat b1))) -> (forall b, body b = go_idx 0 I b) ->
    forall f b2 r F, intersect f idom poNum b1 b2 = Ok r -> (f < F)%nat ->
    exists b2' f', go_while F cond body (Z.of_nat b2) = Some (Z.of_nat b2') /\
                   intersect f' idom poNum b1 b2' = Ok r /\ ((b2' = b2 /\ f' = f) \/ (f' < f)%nat) /\
                   (b1 = b2' \/ exists n1 n2, get poNum b1 = Ok n1 /\ get poNum b2' = Ok n2 /\ (n1 < n2)%nat).
  Proof.
    intros Hc Hb. induction f as [|f IH]; intros b2 r F Hm HF; (destruct F as [|F]; [lia|]); rewrite go_while_S, Hc.
    - destruct (Nat.eq_dec b1 b2) as [<-|Hne].
      + rewrite Z.ltb_irrefl. exists b1, 0%nat. repeat split; auto.
      + destruct (intersect_ok_step 0 b1 b2 r Hne Hm) as (f' & _ & _ & C & _). discriminate.
    - destruct (Nat.eq_dec b1 b2) as [<-|Hne].
      + rewrite Z.ltb_irrefl. exists b1, (S f). repeat split; auto.
      + destruct (intersect_ok_step (S f) b1 b2 r Hne Hm) as (f' & n1 & n2 & [= <-] & E1 & E2 & [[L (b1' & E3 & Hm')]|[L (b2' & E3 & Hm')]]).
        * rewrite (idx_P _ _ E1), (idx_P _ _ E2). replace (Z.of_nat n2 <? Z.of_nat n1) with false by (symmetry; apply Z.ltb_ge; lia).
          exists b2, (S f). split; [reflexivity|]. split; [exact Hm|]. split; [left; auto|].
          right. exists n1, n2. auto.
        * rewrite (idx_P _ _ E1), (idx_P _ _ E2). replace (Z.of_nat n2 <? Z.of_nat n1) with true by (symmetry; apply Z.ltb_lt; lia).
          rewrite Hb, (idx_I _ _ E3).
          destruct (IH b2' r F Hm' ltac:(lia)) as (b2'' & f'' & G & Hm'' & Hprog & Hfin).
          exists b2'', f''. split; [exact G|]. split; [exact Hm''|]. split; [right; lia | exact Hfin].
  Qed.

  (* the outer loop: for b1 != b2 { finger 1; finger 2 } *)
  Lemma outer (F : nat) (cond : Z * Z -> bool) (body : Z * Z -> go_ctl (Z * Z) Z) :
    (forall a b, cond (a, b) = negb (a =? b)) ->
    (forall b1 b2 : nat, exists c1 d1, (forall b, c1 b = (go_idx 0 P b <? go_idx 0 P (Z.of_nat b2))) /\ (forall b, d1 b = go_idx 0 I b) /\
       forall b1' : nat, go_while F c1 d1 (Z.of_nat b1) = Some (Z.of_nat b1') ->
       exists c2 d2, (forall b, c2 b = (go_idx 0 P b <? go_idx 0 P (Z.of_nat b1'))) /\ (forall b, d2 b = go_idx 0 I b) /\
         forall b2' : nat, go_while F c2 d2 (Z.of_nat b2) = Some (Z.of_nat b2') ->
         body (Z.of_nat b1, Z.of_nat b2) = Go_next (Z.of_nat b1', Z.of_nat b2')) ->
    forall f b1 b2 r Fo, intersect f idom poNum b1 b2 = Ok r -> (f < F)%nat -> (f < Fo)%nat ->
    go_while_ctl Fo cond body (Z.of_nat b1, Z.of_nat b2) = Go_next (Z.of_nat r, Z.of_nat r).
  Proof.
    intros Hc Hbody. induction f as [f IHf] using lt_wf_ind. intros b1 b2 r Fo Hm HF HFo.
    destruct Fo as [|Fo]; [lia|]. cbn [go_while_ctl]. rewrite Hc.
    destruct (Nat.eq_dec b1 b2) as [->|Hne].
    - rewrite Z.eqb_refl. cbn [negb]. rewrite (intersect_same _ _ _ Hm). reflexivity.
    - replace (Z.of_nat b1 =? Z.of_nat b2) with false by (symmetry; apply Z.eqb_neq; lia). cbn [negb].
      destruct (Hbody b1 b2) as (c1 & d1 & Hc1 & Hd1 & K1).
      destruct (finger1 c1 d1 b2 Hc1 Hd1 f b1 r F Hm HF) as (b1' & f' & G1 & Hm1 & Hp1 & Hs1).
      destruct (K1 b1' G1) as (c2 & d2 & Hc2 & Hd2 & K2).
      destruct (finger2 c2 d2 b1' Hc2 Hd2 f' b2 r F Hm1 ltac:(lia)) as (b2' & f'' & G2 & Hm2 & Hp2 & Hs2).
      rewrite (K2 b2' G2).
      assert (Hlt : (f'' < f)%nat).
      { destruct Hp1 as [[-> ->]|Hp1]; destruct Hp2 as [[-> ->]|Hp2]; try lia.
        exfalso. destruct Hs1 as [C|(n1 & n2 & A1 & A2 & A3)]; [contradiction|].
        destruct Hs2 as [C|(m1 & m2 & B1 & B2 & B3)]; [contradiction|].
        rewrite A1 in B1. injection B1 as <-. rewrite A2 in B2. injection B2 as <-. lia. }
      apply (IHf f'' Hlt b1' b2' r Fo Hm2); lia.
  Qed.
End Intersect.

Theorem tie_intersect : forall (idom : list (option nat)) (poNum : list nat) (f fuel b1 b2 r : nat),
  intersect f idom poNum b1 b2 = Ok r -> (f < fuel)%nat ->
  gen_intersect fuel (map zo idom) (map Z.of_nat poNum) (Z.of_nat b1) (Z.of_nat b2) = Some (Z.of_nat r).
Proof.
  intros idom poNum f fuel b1 b2 r Hm Hf. unfold gen_intersect.
  match goal with |- context [go_while_ctl fuel ?c ?b _] =>
    rewrite (outer idom poNum fuel c b ltac:(intros; reflexivity)
               ltac:(intros n1 n2;
                     exists (fun z => go_idx 0 (map Z.of_nat poNum) z <? go_idx 0 (map Z.of_nat poNum) (Z.of_nat n2)), (fun z => go_idx 0 (map zo idom) z);
                     split; [intros; reflexivity|]; split; [intros; reflexivity|];
                     intros n1' G1;
                     exists (fun z => go_idx 0 (map Z.of_nat poNum) z <? go_idx 0 (map Z.of_nat poNum) (Z.of_nat n1')), (fun z => go_idx 0 (map zo idom) z);
                     split; [intros; reflexivity|]; split; [intros; reflexivity|];
                     intros n2' G2; cbv beta iota zeta; rewrite G1; cbv beta iota; rewrite G2; reflexivity)
               f b1 b2 r fuel Hm Hf Hf)
  end.
  reflexivity.
Qed.

(* non-vacuity: the diamond 0 -> 1, 2 -> 3 numbered in post-order (3:0, 1:1, 2:2, 0:3); the fingers at
   1 and 2 meet at the root *)
Example tie_intersect_example :
  intersect 5 [Some 0%nat; Some 0%nat; Some 0%nat; None] [3; 1; 2; 0]%nat 1 2 = Ok 0%nat /\
  gen_intersect 6 (map zo [Some 0%nat; Some 0%nat; Some 0%nat; None]) (map Z.of_nat [3; 1; 2; 0]%nat) 1 2 = Some 0.
Proof. split; vm_compute; reflexivity. Qed.

(* ====================================================================== *)
(* IDom (dom.go:11-69): the Cooper-Harvey-Kennedy iteration                 *)
(* ====================================================================== *)
(* Opaque: PostOrder (postorderf), Reverse (reversef; tied separately in Tie/Order.v), and the graph
   interface methods NumNodes (nnv) and In (inf).  The sweep uses "continue" inside two nested range
   loops inside the "for changed" loop, and calls intersect: everything carries the function's fuel. *)

Lemma zo_inj a b : zo a = zo b -> a = b.
Proof. destruct a, b; simpl; intros H; try reflexivity; try lia. f_equal. lia. Qed.
Lemma zo_eqb a b : (zo a =? zo b) = oeqb a b.
Proof.
  destruct a as [x|], b as [y|]; cbn [zo oeqb]; try reflexivity.
  - destruct (Nat.eqb_spec x y); [subst; apply Z.eqb_refl | apply Z.eqb_neq; lia].
  - destruct (Z.eqb_spec (Z.of_nat x) (-1)); [lia | reflexivity].
  - destruct (Z.eqb_spec (-1) (Z.of_nat y)); [lia | reflexivity].
Qed.
Lemma zo_none o : (zo o =? -1) = match o with None => true | Some _ => false end.
Proof. destruct o as [x|]; cbn [zo]; [destruct (Z.eqb_spec (Z.of_nat x) (-1)); [lia | reflexivity] | reflexivity]. Qed.

Lemma get_idx_zo (l : list (option nat)) b o : get l b = Ok o -> go_idx 0 (map zo l) (Z.of_nat b) = zo o.
Proof.
  unfold get. destruct (nth_error l b) as [x|] eqn:E; [|discriminate]. intros [= ->].
  unfold go_idx. rewrite Nat2Z.id. rewrite (nth_indep _ 0 (zo None)) by (rewrite map_length; apply nth_error_Some; congruence).
  rewrite map_nth. rewrite (nth_error_nth _ _ _ E). reflexivity.
Qed.
Lemma set_upd_nth {A B} (f : A -> B) : forall (l : list A) b x l', set l b x = Ok l' -> upd_nth (map f l) b (f x) = map f l'.
Proof.
  induction l as [|y t IH]; intros [|b] x l' H; simpl in *; try discriminate.
  - injection H as <-. reflexivity.
  - destruct (set t b x) as [t'| |] eqn:E; try discriminate. injection H as <-. simpl. f_equal. apply IH. exact E.
Qed.
Lemma set_upd {A B} (f : A -> B) (l : list A) b x l' : set l b x = Ok l' -> go_upd (map f l) (Z.of_nat b) (f x) = map f l'.
Proof.
  intros H. unfold go_upd. destruct (Z.ltb_spec (Z.of_nat b) 0); [lia|]. rewrite Nat2Z.id. apply set_upd_nth. exact H.
Qed.

Section IDomTie.
  Variables (insl : list (list nat)) (poNum : list nat) (root : nat).
  Variable inf : Z -> list Z.
  Hypothesis inf_ok : forall b ps, get insl b = Ok ps -> inf (Z.of_nat b) = map Z.of_nat ps.
  Variable F : nat.                       (* the generated function's fuel *)
  Let P := map Z.of_nat poNum.

  (* the innermost range loop: newIdom over the processed predecessors *)
  Lemma new_idom_fold (fuel : nat) (idom : list (option nat)) (gstep : Z -> Z -> go_ctl Z (list Z)) :
    (fuel < F)%nat ->
    (forall cur p, gstep cur p =
       if (go_idx 0 (map zo idom) p =? -1) then Go_next cur
       else if (cur =? -1) then Go_next p
       else match gen_intersect F (map zo idom) (map Z.of_nat poNum) p cur with None => Go_fuel | Some t => Go_next t end) ->
    forall ps cur ni,
      fold_res (fun cur p => rdo ip <- get idom p;
                  match ip with
                  | None => Ok cur
                  | Some _ => match cur with None => Ok (Some p) | Some c => rdo x <- intersect fuel idom poNum p c; Ok (Some x) end
                  end) ps cur = Ok ni ->
      go_fold_ctl gstep (map Z.of_nat ps) (zo cur) = Go_next (zo ni).
  Proof.
    intros HF Hg. induction ps as [|p ps IH]; intros cur ni H; cbn [fold_res map go_fold_ctl] in *.
    - injection H as <-. reflexivity.
    - unfold rbind in H at 1. destruct (get idom p) as [ip| |] eqn:Ei; try discriminate.
      rewrite Hg, (get_idx_zo _ _ _ Ei), zo_none.
      destruct ip as [k|].
      + destruct cur as [c|].
        * unfold rbind in H. destruct (intersect fuel idom poNum p c) as [x| |] eqn:Ex; try discriminate.
          replace (zo (Some c) =? -1) with false by (symmetry; apply Z.eqb_neq; simpl; lia).
          cbn [zo]. unfold P. rewrite (tie_intersect idom poNum fuel F p c x Ex HF). apply (IH (Some x) ni H).
        * cbn [zo]. rewrite Z.eqb_refl. apply (IH (Some p) ni H).
      + apply (IH cur ni H).
  Qed.
End IDomTie.

Section IDomSweep.
  Variables (insl : list (list nat)) (poNum : list nat) (root : nat).
  Variable inf : Z -> list Z.
  Hypothesis inf_ok : forall b ps, get insl b = Ok ps -> inf (Z.of_nat b) = map Z.of_nat ps.
  Variables (F fuel : nat).
  Hypothesis HF : (fuel < F)%nat.
  Let P := map Z.of_nat poNum.

  (* the body of the sweep over rpo: what the generated code must do for one node, whatever its
     syntactic shape (continue or nested ifs, order of the comparisons) *)
  Definition canon_step (I : list Z) (cur p : Z) : go_ctl Z (list Z) :=
    if (go_idx 0 I p =? -1) then Go_next cur
    else if (cur =? -1) then Go_next p
    else match gen_intersect F I P p cur with None => Go_fuel | Some t => Go_next t end.
  Variable gnode : list Z * bool -> Z -> go_ctl (list Z * bool) (list Z).
  Hypothesis gnode_root : forall I ch, gnode (I, ch) (Z.of_nat root) = Go_next (I, ch).
  Hypothesis gnode_other : forall (I : list Z) (ch : bool) (b : Z), b <> Z.of_nat root ->
    exists gs, (forall cur p, gs cur p = canon_step I cur p) /\
      gnode (I, ch) b =
      match go_fold_ctl gs (inf b) (-1) with
      | Go_fuel => Go_fuel
      | Go_ret r => Go_ret r
      | Go_next ni => if (go_idx 0 I b =? ni) then Go_next (I, ch) else Go_next (go_upd I b ni, true)
      end.

  Lemma sweep_node_tie (idom : list (option nat)) (ch : bool) (b : nat) idom' ch' :
    sweep_node fuel insl poNum root (idom, ch) b = Ok (idom', ch') ->
    gnode (map zo idom, ch) (Z.of_nat b) = Go_next (map zo idom', ch').
  Proof.
    unfold sweep_node. intros H.
    destruct (Nat.eqb_spec b root) as [->|Hne].
    - rewrite gnode_root. injection H as <- <-. reflexivity.
    - destruct (gnode_other (map zo idom) ch (Z.of_nat b) ltac:(lia)) as (gs & Hgs & ->).
      unfold rbind in H at 1. destruct (get insl b) as [ps| |] eqn:Eps; try discriminate.
      unfold rbind in H at 1. destruct (new_idom fuel (fst (idom, ch)) poNum ps) as [ni| |] eqn:Eni; try discriminate.
      cbn [fst] in *. unfold rbind in H at 1. destruct (get idom b) as [old| |] eqn:Eold; try discriminate.
      rewrite (inf_ok b ps Eps).
      pose proof (new_idom_fold poNum F fuel idom gs HF Hgs ps None ni Eni) as Hfold.
      change (zo None) with (-1) in Hfold. rewrite Hfold. clear Hfold.
      rewrite (get_idx_zo _ _ _ Eold), zo_eqb.
      destruct (oeqb old ni).
      + injection H as <- <-. reflexivity.
      + unfold rbind in H. destruct (set idom b ni) as [i2| |] eqn:Es; try discriminate. injection H as <- <-.
        rewrite (set_upd zo idom b ni i2 Es). reflexivity.
  Qed.

  Lemma sweep_tie : forall (rpo : list nat) (idom : list (option nat)) (ch : bool) idom' ch',
    fold_res (sweep_node fuel insl poNum root) rpo (idom, ch) = Ok (idom', ch') ->
    go_fold_ctl gnode (map Z.of_nat rpo) (map zo idom, ch) = Go_next (map zo idom', ch').
  Proof.
    induction rpo as [|b rpo IH]; intros idom ch idom' ch' H; cbn [fold_res map go_fold_ctl] in *.
    - injection H as <- <-. reflexivity.
    - destruct (sweep_node fuel insl poNum root (idom, ch) b) as [[i1 c1]| |] eqn:E; try discriminate.
      rewrite (sweep_node_tie idom ch b i1 c1 E). apply IH. exact H.
  Qed.

  (* for changed { changed = false; sweep } *)
  Variable gcond : list Z * bool -> bool.
  Variable gbody : list Z * bool -> go_ctl (list Z * bool) (list Z).
  Variable rpo : list nat.
  Hypothesis gcond_ok : forall I ch, gcond (I, ch) = ch.
  Hypothesis gbody_ok : forall I ch, gbody (I, ch) =
    match go_fold_ctl gnode (map Z.of_nat rpo) (I, false) with
    | Go_fuel => Go_fuel | Go_ret r => Go_ret r | Go_next st => Go_next st end.

  Lemma iterate_tie : forall n (idom res : list (option nat)) Fo, (n < Fo)%nat ->
    iterate n fuel insl poNum rpo root idom = Ok res ->
    go_while_ctl Fo gcond gbody (map zo idom, true) = Go_next (map zo res, false).
  Proof.
    induction n as [|n IH]; intros idom res Fo HFo H; [discriminate|].
    destruct Fo as [|Fo]; [lia|]. cbn [iterate] in H. unfold rbind, sweep in H.
    destruct (fold_res (sweep_node fuel insl poNum root) rpo (idom, false)) as [[i1 c1]| |] eqn:E; try discriminate.
    cbn [go_while_ctl]. rewrite gcond_ok, gbody_ok, (sweep_tie rpo idom false i1 c1 E). cbn [snd fst] in H.
    destruct c1.
    - apply IH; [lia | exact H].
    - injection H as <-. destruct Fo as [|Fo]; [lia|]. cbn [go_while_ctl]. rewrite gcond_ok. reflexivity.
  Qed.
End IDomSweep.

(* ---------- the numbering and the initial idom slice ---------- *)
Lemma numbering_fold (gstep : list Z -> Z * Z -> list Z) :
  (forall pn i n, gstep pn (i, n) = go_upd pn n i) ->
  forall (po : list nat) (k : nat) (pn0 pn : list nat),
    fold_res (fun pn ip => set pn (snd ip) (fst ip)) (combine (seq k (length po)) po) pn0 = Ok pn ->
    fold_left gstep (enum_from (Z.of_nat k) (map Z.of_nat po)) (map Z.of_nat pn0) = map Z.of_nat pn.
Proof.
  intros Hg. induction po as [|x po IH]; intros k pn0 pn H; cbn [length seq combine fold_res map enum_from fold_left] in *.
  - injection H as <-. reflexivity.
  - cbn [fst snd] in H. destruct (set pn0 x k) as [pn1| |] eqn:E; try discriminate.
    rewrite Hg, (set_upd Z.of_nat pn0 x k pn1 E).
    replace (Z.of_nat k + 1) with (Z.of_nat (S k)) by lia. apply IH. exact H.
Qed.

Lemma Forall2_all_eq (v : Z) : forall (is0 : list Z) (r : list Z), Forall2 (fun _ x => x = v) is0 r -> r = repeat v (length is0).
Proof. induction 1; simpl; [reflexivity | subst; f_equal; assumption]. Qed.

Lemma fill_minus1 (gstep : list Z -> Z -> list Z) : (forall I i, gstep I i = go_upd I i (-1)) ->
  forall n : nat, fold_left gstep (go_range 0 (Z.of_nat n)) (go_make 0 (Z.of_nat n)) = repeat (-1) n.
Proof.
  intros Hg n.
  pose proof (fold_range_fill 0 (fun _ v => v = -1) gstep ltac:(intros ys i Hi; eexists; split; [apply Hg | reflexivity]) n) as H.
  rewrite (Forall2_all_eq (-1) _ _ H), go_range_length. f_equal. lia.
Qed.

Lemma map_repeat' {A B} (f : A -> B) (x : A) n : map f (repeat x n) = repeat (f x) n.
Proof. induction n; simpl; [reflexivity | f_equal; assumption]. Qed.

Theorem tie_IDom : forall (g : GDGraph.graph) (insl : list (list nat)) (po : list nat) (root n fuel F : nat)
    (inf : Z -> list Z) (nnv : Z) (postorderf : Z -> list Z) (reversef : list Z -> list Z)
    (pn : list nat) (i0 ir res : list (option nat)),
  nnv = Z.of_nat (length g) -> postorderf (Z.of_nat root) = map Z.of_nat po -> (forall l, reversef l = rev l) ->
  (forall b ps, get insl b = Ok ps -> inf (Z.of_nat b) = map Z.of_nat ps) ->
  po_numbering g po = Ok pn -> set (repeat None (length g)) root (Some root) = Ok i0 ->
  iterate n fuel insl pn (rev po) root i0 = Ok ir -> set ir root None = Ok res ->
  (fuel < F)%nat -> (n < F)%nat ->
  gen_IDom inf nnv postorderf reversef F (Z.of_nat root) = Some (map zo res).
Proof.
  intros g insl po root n fuel F inf nnv postorderf reversef pn i0 ir res Hnn Hpo Hrev Hinf Hnum Hi0 Hit Hres HF Hn.
  unfold gen_IDom. cbv zeta. rewrite Hpo, Hrev, Hnn.
  (* idom := make; fill with -1; idom[root] = root *)
  unfold go_len at 1. unfold go_make at 2. rewrite repeat_length, Nat2Z.id.
  fold (@go_make Z 0 (Z.of_nat (length g))).
  rewrite (fill_minus1 _ (fun I i => eq_refl) (length g)).
  replace (repeat (-1) (length g)) with (map zo (repeat None (length g))) by (rewrite map_repeat'; reflexivity).
  (* poNum *)
  unfold go_enum. replace (enum_from 0 (map Z.of_nat po)) with (enum_from (Z.of_nat 0) (map Z.of_nat po)) by reflexivity.
  assert (Emk : go_make 0 (Z.of_nat (length g)) = map Z.of_nat (repeat 0%nat (length g))).
  { unfold go_make. rewrite Nat2Z.id, map_repeat'. reflexivity. }
  rewrite Emk.
  rewrite (numbering_fold _ (fun pn0 i k => eq_refl) po 0 (repeat 0%nat (length g)) pn Hnum).
  replace (go_upd (map zo (repeat None (length g))) (Z.of_nat root) (Z.of_nat root)) with (map zo i0)
    by (symmetry; apply (set_upd zo _ root (Some root) i0 Hi0)).
  (* the iteration *)
  rewrite <- map_rev.
  match goal with |- context [go_while_ctl F ?gc ?gb (map zo i0, true)] =>
    match gb with context [go_fold_ctl ?gn _ _] =>
      rewrite (iterate_tie insl pn root inf Hinf F fuel HF gn
                 ltac:(intros I ch; cbv beta iota; rewrite Z.eqb_refl; reflexivity)
                 ltac:(intros I ch b Hb; cbv beta iota;
                       match goal with |- context [go_fold_ctl ?st (inf b) _] => exists st end;
                       split;
                       [ intros cur p; unfold canon_step; cbv beta iota;
                         repeat match goal with |- context [(?x =? ?y)] => destruct (Z.eqb_spec x y) end;
                         cbn [negb]; try reflexivity; try (exfalso; congruence);
                         destruct (gen_intersect _ _ _ _ _); reflexivity
                       | destruct (Z.eqb_spec b (Z.of_nat root)); [contradiction|];
                         match goal with |- context [go_fold_ctl ?st ?l ?s0] => destruct (go_fold_ctl st l s0) as [ni|r|] end;
                         try reflexivity;
                         repeat match goal with |- context [(?x =? ?y)] => destruct (Z.eqb_spec x y) end;
                         cbn [negb]; try reflexivity; exfalso; congruence ])
                 gc gb (rev po)
                 ltac:(intros I ch; reflexivity)
                 ltac:(intros I ch; cbv beta iota;
                       match goal with |- context [go_fold_ctl ?a ?b ?c] => destruct (go_fold_ctl a b c) as [[? ?]|?|] end; reflexivity)
                 n i0 ir F Hn Hit)
    end
  end.
  change (-1) with (zo None). rewrite (set_upd zo ir root None res Hres). reflexivity.
Qed.

(* the model's IDom: with PostOrder / Reverse / In / NumNodes as the model has them, the generated
   code returns what idom_chk returns (the object of the C19 dominator theorems) *)
Theorem tie_IDom_chk : forall (g : GDGraph.graph) (root fuel F : nat) (inf : Z -> list Z) (postorderf : Z -> list Z)
    (reversef : list Z -> list Z) (insl : list (list nat)) (rpo : list nat) (res : list (option nat)),
  mk_ins g = Ok insl -> rpostorder fuel g root = Ok rpo -> idom_chk fuel g root = Ok res ->
  postorderf (Z.of_nat root) = map Z.of_nat (rev rpo) -> (forall l, reversef l = rev l) ->
  (forall b ps, get insl b = Ok ps -> inf (Z.of_nat b) = map Z.of_nat ps) -> (fuel < F)%nat ->
  gen_IDom inf (Z.of_nat (length g)) postorderf reversef F (Z.of_nat root) = Some (map zo res).
Proof.
  intros g root fuel F inf postorderf reversef insl rpo res Hins Hrpo Hchk Hpo Hrev Hinf HF.
  unfold idom_chk in Hchk. rewrite Hins, Hrpo in Hchk. cbn [rbind] in Hchk.
  destruct (po_numbering g (rev rpo)) as [pn| |] eqn:Epn; try discriminate. cbn [rbind] in Hchk.
  destruct (set (repeat None (length g)) root (Some root)) as [i0| |] eqn:Ei0; try discriminate. cbn [rbind] in Hchk.
  destruct (iterate fuel fuel insl pn rpo root i0) as [ir| |] eqn:Eit; try discriminate. cbn [rbind] in Hchk.
  apply (tie_IDom g insl (rev rpo) root fuel fuel F inf _ postorderf reversef pn i0 ir res eq_refl Hpo Hrev Hinf Epn Ei0);
    [rewrite rev_involutive; exact Eit | exact Hchk | exact HF | exact HF].
Qed.

(* non-vacuity: the diamond 0 -> {1, 2} -> 3 *)
Example tie_IDom_example :
  let g : GDGraph.graph := [[1; 2]; [3]; [3]; []]%nat in
  idom_chk 10 g 0 = Ok [None; Some 0; Some 0; Some 0]%nat /\
  gen_IDom (fun b => nth (Z.to_nat b) [[]; [0]; [0]; [1; 2]] []) 4 (fun _ => [3; 1; 2; 0]) (@rev Z) 11 0 = Some [-1; 0; 0; 0].
Proof. split; vm_compute; reflexivity. Qed.

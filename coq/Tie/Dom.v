(* Tie/Dom.v — T-tie for C19: graph/graphalg/dom.go intersect (the two-finger walk up the dominator
   tree of the Cooper-Harvey-Kennedy iteration) against Model/Dom.v intersect.

   The Go function is two "for cond" loops nested in a third: gen_intersect takes fuel, and every
   loop gets the same fuel.  The model flattens the walk: one finger step per unit of its fuel,
   Panic for an index out of range or a step through -1, NoFuel when two distinct nodes carry the
   same post-order number (the code would spin).  The tie: whenever the model returns Ok r with
   fuel f, the generated code returns Some r for every fuel > f.  IDom's sweep (continue in nested
   loops), DomFrontier (goto) and the traversals are outside the translator's subset. *)
From Coq Require Import ZArith NArith List Bool Lia PeanoNat.
From MM Require Import Base.Num Base.GoSem Model.Dom.
From MMGen Require Import Gen_graphalg_dom.
Import ListNotations.
Local Open Scope Z_scope.

Definition zo (o : option nat) : Z := match o with Some k => Z.of_nat k | None => -1 end.

Section Intersect.
  Variables (idom : list (option nat)) (poNum : list nat).
  Let I := map zo idom.
  Let P := map Z.of_nat poNum.

  Lemma idx_P b n : get poNum b = Ok n -> go_idx 0 P (Z.of_nat b) = Z.of_nat n.
  Proof.
    unfold get. destruct (nth_error poNum b) as [x|] eqn:E; [|discriminate]. intros [= <-].
    unfold go_idx, P. rewrite Nat2Z.id. change 0 with (Z.of_nat 0). rewrite map_nth. f_equal. apply nth_error_nth. exact E.
  Qed.
  Lemma idx_I b k : get idom b = Ok (Some k) -> go_idx 0 I (Z.of_nat b) = Z.of_nat k.
  Proof.
    unfold get. destruct (nth_error idom b) as [x|] eqn:E; [|discriminate]. intros [= ->].
    unfold go_idx, I. rewrite Nat2Z.id. rewrite (nth_indep _ 0 (zo None)) by (rewrite map_length; apply nth_error_Some; congruence).
    rewrite map_nth. rewrite (nth_error_nth _ _ _ E). reflexivity.
  Qed.

  (* one step of the model *)
  Lemma intersect_ok_step f b1 b2 r : b1 <> b2 -> intersect f idom poNum b1 b2 = Ok r ->
    exists f' n1 n2, f = S f' /\ get poNum b1 = Ok n1 /\ get poNum b2 = Ok n2 /\
      (((n1 < n2)%nat /\ exists b1', get idom b1 = Ok (Some b1') /\ intersect f' idom poNum b1' b2 = Ok r) \/
       ((n2 < n1)%nat /\ exists b2', get idom b2 = Ok (Some b2') /\ intersect f' idom poNum b1 b2' = Ok r)).
  Proof.
    intros Hne H. destruct f as [|f']; cbn [intersect] in H;
      (destruct (Nat.eqb_spec b1 b2) as [C|_]; [contradiction|]); [discriminate|].
    unfold rbind in H. destruct (get poNum b1) as [n1| |] eqn:E1; try discriminate.
    destruct (get poNum b2) as [n2| |] eqn:E2; try discriminate.
    exists f', n1, n2. split; [reflexivity|]. split; [reflexivity|]. split; [reflexivity|].
    destruct (Nat.ltb_spec n1 n2) as [L|L].
    - left. split; [exact L|]. destruct (get idom b1) as [[b1'|]| |] eqn:E3; try discriminate. exists b1'. auto.
    - destruct (Nat.ltb_spec n2 n1) as [L2|L2]; [|discriminate].
      right. split; [exact L2|]. destruct (get idom b2) as [[b2'|]| |] eqn:E3; try discriminate. exists b2'. auto.
  Qed.

  Lemma intersect_same f b r : intersect f idom poNum b b = Ok r -> r = b.
  Proof. destruct f; cbn [intersect]; rewrite Nat.eqb_refl; intros [= <-]; reflexivity. Qed.

  (* finger 1:  for poNum[b1] < poNum[b2] { b1 = idom[b1] }
     ends at a node b1' from which the model still answers r, having spent f - f' of the model's
     steps; it stops because b1' = b2 or poNum[b2] < poNum[b1'] *)
  Lemma finger1 (cond : Z -> bool) (body : Z -> Z) b2 :
    (forall b, cond b = (go_idx 0 P b <? go_idx 0 P (Z.of_nat b2))) -> (forall b, body b = go_idx 0 I b) ->
    forall f b1 r F, intersect f idom poNum b1 b2 = Ok r -> (f < F)%nat ->
    exists b1' f', go_while F cond body (Z.of_nat b1) = Some (Z.of_nat b1') /\
                   intersect f' idom poNum b1' b2 = Ok r /\ ((b1' = b1 /\ f' = f) \/ (f' < f)%nat) /\
                   (b1' = b2 \/ exists n1 n2, get poNum b1' = Ok n1 /\ get poNum b2 = Ok n2 /\ (n2 < n1)%nat).
  Proof.
    intros Hc Hb. induction f as [|f IH]; intros b1 r F Hm HF; (destruct F as [|F]; [lia|]); rewrite go_while_S, Hc.
    - destruct (Nat.eq_dec b1 b2) as [->|Hne].
      + rewrite Z.ltb_irrefl. exists b2, 0%nat. repeat split; auto.
      + destruct (intersect_ok_step 0 b1 b2 r Hne Hm) as (f' & _ & _ & C & _). discriminate.
    - destruct (Nat.eq_dec b1 b2) as [->|Hne].
      + rewrite Z.ltb_irrefl. exists b2, (S f). repeat split; auto.
      + destruct (intersect_ok_step (S f) b1 b2 r Hne Hm) as (f' & n1 & n2 & [= <-] & E1 & E2 & [[L (b1' & E3 & Hm')]|[L (b2' & E3 & Hm')]]).
        * rewrite (idx_P _ _ E1), (idx_P _ _ E2). replace (Z.of_nat n1 <? Z.of_nat n2) with true by (symmetry; apply Z.ltb_lt; lia).
          rewrite Hb, (idx_I _ _ E3).
          destruct (IH b1' r F Hm' ltac:(lia)) as (b1'' & f'' & G & Hm'' & Hprog & Hfin).
          exists b1'', f''. split; [exact G|]. split; [exact Hm''|]. split; [right; lia | exact Hfin].
        * rewrite (idx_P _ _ E1), (idx_P _ _ E2). replace (Z.of_nat n1 <? Z.of_nat n2) with false by (symmetry; apply Z.ltb_ge; lia).
          exists b1, (S f). split; [reflexivity|]. split; [exact Hm|]. split; [left; auto|].
          right. exists n1, n2. auto.
  Qed.

  (* finger 2:  for poNum[b2] < poNum[b1] { b2 = idom[b2] } *)
  Lemma finger2 (cond : Z -> bool) (body : Z -> Z) b1 :
    (forall b, cond b = (go_idx 0 P b <? go_idx 0 P (Z.of_nat b1))) -> (forall b, body b = go_idx 0 I b) ->
    forall f b2 r F, intersect f idom poNum b1 b2 = Ok r -> (f < F)%nat ->
    exists b2' f', go_while F cond body (Z.of_nat b2) = Some (Z.of_nat b2') /\
                   intersect f' idom poNum b1 b2' = Ok r /\ ((b2' = b2 /\ f' = f) \/ (f' < f)%nat) /\
                   (b1 = b2' \/ exists n1 n2, get poNum b1 = Ok n1 /\ get poNum b2' = Ok n2 /\ (n1 < n2)%nat).
  Proof.
    intros Hc Hb. induction f as [|f IH]; intros b2 r F Hm HF; (destruct F as [|F]; [lia|]); rewrite go_while_S, Hc.
    - destruct (Nat.eq_dec b1 b2) as [<-|Hne].
      + rewrite Z.ltb_irrefl. exists b1, 0%nat. repeat split; auto.
      + destruct (intersect_ok_step 0 b1 b2 r Hne Hm) as (f' & _ & _ & C & _). discriminate.
    - destruct (Nat.eq_dec b1 b2) as [<-|Hne].
      + rewrite Z.ltb_irrefl. exists b1, (S f). repeat split; auto.
      + destruct (intersect_ok_step (S f) b1 b2 r Hne Hm) as (f' & n1 & n2 & [= <-] & E1 & E2 & [[L (b1' & E3 & Hm')]|[L (b2' & E3 & Hm')]]).
        * rewrite (idx_P _ _ E1), (idx_P _ _ E2). replace (Z.of_nat n2 <? Z.of_nat n1) with false by (symmetry; apply Z.ltb_ge; lia).
          exists b2, (S f). split; [reflexivity|]. split; [exact Hm|]. split; [left; auto|].
          right. exists n1, n2. auto.
        * rewrite (idx_P _ _ E1), (idx_P _ _ E2). replace (Z.of_nat n2 <? Z.of_nat n1) with true by (symmetry; apply Z.ltb_lt; lia).
          rewrite Hb, (idx_I _ _ E3).
          destruct (IH b2' r F Hm' ltac:(lia)) as (b2'' & f'' & G & Hm'' & Hprog & Hfin).
          exists b2'', f''. split; [exact G|]. split; [exact Hm''|]. split; [right; lia | exact Hfin].
  Qed.

  (* the outer loop: for b1 != b2 { finger 1; finger 2 } *)
  Lemma outer (F : nat) (cond : Z * Z -> bool) (body : Z * Z -> go_ctl (Z * Z) Z) :
    (forall a b, cond (a, b) = negb (a =? b)) ->
    (forall b1 b2 : nat, exists c1 d1, (forall b, c1 b = (go_idx 0 P b <? go_idx 0 P (Z.of_nat b2))) /\ (forall b, d1 b = go_idx 0 I b) /\
       forall b1' : nat, go_while F c1 d1 (Z.of_nat b1) = Some (Z.of_nat b1') ->
       exists c2 d2, (forall b, c2 b = (go_idx 0 P b <? go_idx 0 P (Z.of_nat b1'))) /\ (forall b, d2 b = go_idx 0 I b) /\
         forall b2' : nat, go_while F c2 d2 (Z.of_nat b2) = Some (Z.of_nat b2') ->
         body (Z.of_nat b1, Z.of_nat b2) = Go_next (Z.of_nat b1', Z.of_nat b2')) ->
    forall f b1 b2 r Fo, intersect f idom poNum b1 b2 = Ok r -> (f < F)%nat -> (f < Fo)%nat ->
    go_while_ctl Fo cond body (Z.of_nat b1, Z.of_nat b2) = Go_next (Z.of_nat r, Z.of_nat r).
  Proof.
    intros Hc Hbody. induction f as [f IHf] using lt_wf_ind. intros b1 b2 r Fo Hm HF HFo.
    destruct Fo as [|Fo]; [lia|]. cbn [go_while_ctl]. rewrite Hc.
    destruct (Nat.eq_dec b1 b2) as [->|Hne].
    - rewrite Z.eqb_refl. cbn [negb]. rewrite (intersect_same _ _ _ Hm). reflexivity.
    - replace (Z.of_nat b1 =? Z.of_nat b2) with false by (symmetry; apply Z.eqb_neq; lia). cbn [negb].
      destruct (Hbody b1 b2) as (c1 & d1 & Hc1 & Hd1 & K1).
      destruct (finger1 c1 d1 b2 Hc1 Hd1 f b1 r F Hm HF) as (b1' & f' & G1 & Hm1 & Hp1 & Hs1).
      destruct (K1 b1' G1) as (c2 & d2 & Hc2 & Hd2 & K2).
      destruct (finger2 c2 d2 b1' Hc2 Hd2 f' b2 r F Hm1 ltac:(lia)) as (b2' & f'' & G2 & Hm2 & Hp2 & Hs2).
      rewrite (K2 b2' G2).
      assert (Hlt : (f'' < f)%nat).
      { destruct Hp1 as [[-> ->]|Hp1]; destruct Hp2 as [[-> ->]|Hp2]; try lia.
        exfalso. destruct Hs1 as [C|(n1 & n2 & A1 & A2 & A3)]; [contradiction|].
        destruct Hs2 as [C|(m1 & m2 & B1 & B2 & B3)]; [contradiction|].
        rewrite A1 in B1. injection B1 as <-. rewrite A2 in B2. injection B2 as <-. lia. }
      apply (IHf f'' Hlt b1' b2' r Fo Hm2); lia.
  Qed.
End Intersect.

Theorem tie_intersect : forall (idom : list (option nat)) (poNum : list nat) (f fuel b1 b2 r : nat),
  intersect f idom poNum b1 b2 = Ok r -> (f < fuel)%nat ->
  gen_intersect fuel (map zo idom) (map Z.of_nat poNum) (Z.of_nat b1) (Z.of_nat b2) = Some (Z.of_nat r).
Proof.
  intros idom poNum f fuel b1 b2 r Hm Hf. unfold gen_intersect.
  match goal with |- context [go_while_ctl fuel ?c ?b _] =>
    rewrite (outer idom poNum fuel c b ltac:(intros; reflexivity)
               ltac:(intros n1 n2;
                     exists (fun z => go_idx 0 (map Z.of_nat poNum) z <? go_idx 0 (map Z.of_nat poNum) (Z.of_nat n2)), (fun z => go_idx 0 (map zo idom) z);
                     split; [intros; reflexivity|]; split; [intros; reflexivity|];
                     intros n1' G1;
                     exists (fun z => go_idx 0 (map Z.of_nat poNum) z <? go_idx 0 (map Z.of_nat poNum) (Z.of_nat n1')), (fun z => go_idx 0 (map zo idom) z);
                     split; [intros; reflexivity|]; split; [intros; reflexivity|];
                     intros n2' G2; cbv beta iota zeta; rewrite G1; cbv beta iota; rewrite G2; reflexivity)
               f b1 b2 r fuel Hm Hf Hf)
  end.
  reflexivity.
Qed.

(* non-vacuity: the diamond 0 -> 1, 2 -> 3 numbered in post-order (3:0, 1:1, 2:2, 0:3); the fingers at
   1 and 2 meet at the root *)
Example tie_intersect_example :
  intersect 5 [Some 0%nat; Some 0%nat; Some 0%nat; None] [3; 1; 2; 0]%nat 1 2 = Ok 0%nat /\
  gen_intersect 6 (map zo [Some 0%nat; Some 0%nat; Some 0%nat; None]) (map Z.of_nat [3; 1; 2; 0]%nat) 1 2 = Some 0.
Proof. split; vm_compute; reflexivity. Qed.

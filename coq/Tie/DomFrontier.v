(* Tie/DomFrontier.v — T-tie for C19: graph/graphalg/dom.go DomFrontier (Cooper-Harvey-Kennedy
   dominance frontiers) against Model/Dom.v dom_frontier / df_node / df_walk.

   The Go function: for b, bdom := range idom { preds := g.In(b); fewer than two: continue;
   for every pred (skipping those unreachable from the root: continue) walk runner := pred up the
   idom slice until bdom ("for runner != bdom": fuel), adding b to df[runner] unless it is there
   already - the membership test is a search loop that leaves with "goto found", which go2coq
   translates to existsb (translator/recfn.go, searchGoto) }.  The last loop (nil -> empty slice)
   is the identity on lists.  idom == nil (compute IDom first) is the opaque idomf; the theorem is
   about a given, non-empty idom.  g.In / g.NumNodes are opaque (inf, nnv).

   The tie, as for intersect and IDom: whenever the model answers Ok df with fuel f (no index out
   of range, no walk longer than f), the generated code answers Some of the same lists for every
   fuel F > f.  Encoding: nodes are Z.of_nat, the idom entry None is -1 (zo).
   The lemmas are about the canonical walk / predecessor / node functions below; the generated
   loop bodies are shown pointwise equal to them by case analysis (go_fold_ctl_ext, go_while_ext),
   so branch order, continue vs. nested if, etc. do not matter. *)
From Coq Require Import ZArith NArith List Bool Lia PeanoNat.
From MM Require Import Base.Num Base.GoSem Base.GDGraph Model.Dom.
From MMGen Require Import Gen_graphalg_dom Tie_Dom.
Import ListNotations.
Local Open Scope Z_scope.

Notation zdf := (list (list Z)) (only parsing).
Definition enc (df : list (list nat)) : list (list Z) := map (map Z.of_nat) df.

Lemma go_while_ext {S} (c1 c2 : S -> bool) (b1 b2 : S -> S) :
  (forall s, c1 s = c2 s) -> (forall s, b1 s = b2 s) -> forall f s, go_while f c1 b1 s = go_while f c2 b2 s.
Proof. intros Hc Hb. induction f as [|f IH]; intros s; simpl; [reflexivity|]. rewrite Hc, Hb, IH. reflexivity. Qed.

Lemma existsb_ext' {A} (f g : A -> bool) l : (forall x, f x = g x) -> existsb f l = existsb g l.
Proof. intros H. induction l as [|a l IH]; simpl; [reflexivity|]. rewrite H, IH. reflexivity. Qed.

Lemma get_idx_map {A B} (f : A -> B) (d : B) (l : list A) b x : get l b = Ok x -> go_idx d (map f l) (Z.of_nat b) = f x.
Proof.
  unfold get, go_idx. rewrite Nat2Z.id. destruct (nth_error l b) as [y|] eqn:E; intros H; [|discriminate].
  injection H as <-. apply nth_error_nth. rewrite nth_error_map, E. reflexivity.
Qed.

Lemma get_idx_enc (df : list (list nat)) rn cur : get df rn = Ok cur -> go_idx [] (enc df) (Z.of_nat rn) = map Z.of_nat cur.
Proof. apply (get_idx_map (map Z.of_nat)). Qed.

Lemma memb_existsb b cur : existsb (fun r => r =? Z.of_nat b) (map Z.of_nat cur) = memb b cur.
Proof.
  unfold memb. induction cur as [|c cur IH]; simpl; [reflexivity|]. rewrite IH. f_equal.
  destruct (Nat.eqb_spec b c); [subst; apply Z.eqb_refl | apply Z.eqb_neq; lia].
Qed.

(* ---------- the canonical loop bodies ---------- *)
Section Canon.
  Variable idomz : list Z.
  Variable inf : Z -> list Z.
  Variables (F : nat) (rootz : Z).

  (* for runner != bdom { if b not in df[runner] { df[runner] = append(df[runner], b) }; runner = idom[runner] } *)
  Definition wcond (bdom : Z) : zdf * Z -> bool := fun s => negb (snd s =? bdom).
  Definition wbody (b : Z) : zdf * Z -> zdf * Z := fun s =>
    (if existsb (fun r => r =? b) (go_idx [] (fst s) (snd s)) then fst s
     else go_upd (fst s) (snd s) (go_idx [] (fst s) (snd s) ++ [b]),
     go_idx 0 idomz (snd s)).
  Definition gpred (b bdom : Z) : zdf -> Z -> go_ctl zdf zdf := fun d pred =>
    if negb (pred =? rootz) && (go_idx 0 idomz pred =? -1) then Go_next d
    else match go_while F (wcond bdom) (wbody b) (d, pred) with None => Go_fuel | Some s => Go_next (fst s) end.
  Definition gnode : zdf -> Z * Z -> go_ctl zdf zdf := fun d bb =>
    if go_len (inf (fst bb)) <? 2 then Go_next d
    else go_fold_ctl (gpred (fst bb) (snd bb)) (inf (fst bb)) d.
End Canon.

Lemma wbody_eq idomz b d r : wbody idomz b (d, r) =
  (if existsb (fun x => x =? b) (go_idx [] d r) then d else go_upd d r (go_idx [] d r ++ [b]), go_idx 0 idomz r).
Proof. reflexivity. Qed.

Section Tie.
  Variables (insl : list (list nat)) (root : nat) (idom : list (option nat)).
  Variable inf : Z -> list Z.
  Hypothesis inf_ok : forall b ps, get insl b = Ok ps -> inf (Z.of_nat b) = map Z.of_nat ps.
  Variables (F fuel : nat).
  Hypothesis HF : (fuel < F)%nat.
  Local Notation idomz := (map zo idom) (only parsing).

  Lemma walk_tie (bdom : option nat) (b : nat) : forall f df runner df', (f < F)%nat ->
    df_walk f idom df runner bdom b = Ok df' ->
    forall F', (f < F')%nat -> exists r', go_while F' (wcond (zo bdom)) (wbody idomz (Z.of_nat b)) (enc df, zo runner) = Some (enc df', r').
  Proof.
    induction f as [|f IH]; intros df runner df' Hf H F' HF'; (destruct F' as [|F']; [lia|]);
      rewrite go_while_S; unfold wcond at 1; cbn [snd]; rewrite zo_eqb; cbn [df_walk] in H;
      destruct (oeqb runner bdom); cbn [negb].
    - injection H as <-. eexists; reflexivity.
    - discriminate.
    - injection H as <-. eexists; reflexivity.
    - destruct runner as [rn|]; [|discriminate]. unfold rbind in H.
      destruct (get df rn) as [cur| |] eqn:Ec; try discriminate.
      destruct (if memb b cur then Ok df else set df rn (cur ++ [b])) as [df1| |] eqn:Ed; try discriminate.
      destruct (get idom rn) as [nx| |] eqn:En; try discriminate.
      cbn [zo]. rewrite wbody_eq.
      rewrite (get_idx_enc df rn cur Ec), memb_existsb.
      rewrite (get_idx_zo idom rn nx En).
      replace (if memb b cur then enc df else go_upd (enc df) (Z.of_nat rn) (map Z.of_nat cur ++ [Z.of_nat b])) with (enc df1).
      + apply (IH df1 nx df'); [lia | exact H | lia].
      + destruct (memb b cur).
        * injection Ed as <-. reflexivity.
        * symmetry. change (map Z.of_nat cur ++ [Z.of_nat b]) with (map Z.of_nat cur ++ map Z.of_nat [b]). rewrite <- map_app.
          apply (set_upd (map Z.of_nat) df rn (cur ++ [b]) df1 Ed).
  Qed.

  Lemma pred_tie (bdom : option nat) (b : nat) : forall ps df df',
    fold_res (fun df pred => rdo ip <- get idom pred;
                             if negb (pred =? root)%nat && oeqb ip None then Ok df
                             else df_walk fuel idom df (Some pred) bdom b) ps df = Ok df' ->
    go_fold_ctl (gpred idomz F (Z.of_nat root) (Z.of_nat b) (zo bdom)) (map Z.of_nat ps) (enc df) = Go_next (enc df').
  Proof.
    induction ps as [|p ps IH]; intros df df' H; cbn [fold_res map go_fold_ctl] in *.
    - injection H as <-. reflexivity.
    - unfold rbind in H. destruct (get idom p) as [ip| |] eqn:Ei; try discriminate.
      unfold gpred at 1. rewrite (get_idx_zo idom p ip Ei), zo_none.
      replace (Z.of_nat p =? Z.of_nat root) with (p =? root)%nat
        by (destruct (Nat.eqb_spec p root); [subst; symmetry; apply Z.eqb_refl | symmetry; apply Z.eqb_neq; lia]).
      replace (match ip with Some _ => false | None => true end) with (oeqb ip None) by (destruct ip; reflexivity).
      destruct (negb (p =? root)%nat && oeqb ip None).
      + apply IH. exact H.
      + destruct (df_walk fuel idom df (Some p) bdom b) as [df1| |] eqn:Ew; try discriminate.
        destruct (walk_tie bdom b fuel df (Some p) df1 HF Ew F HF) as (r' & Hw). cbn [zo] in Hw. rewrite Hw. cbn [fst]. apply IH. exact H.
  Qed.

  Lemma node_tie : forall (suf : list (option nat)) (k : nat) (df df' : list (list nat)),
    (forall i o, nth_error suf i = Some o -> get idom (k + i) = Ok o) ->
    fold_res (df_node fuel insl root idom) (seq k (length suf)) df = Ok df' ->
    go_fold_ctl (gnode idomz inf F (Z.of_nat root)) (enum_from (Z.of_nat k) (map zo suf)) (enc df) = Go_next (enc df').
  Proof.
    induction suf as [|o suf IH]; intros k df df' Hs H; cbn [length seq fold_res map enum_from go_fold_ctl] in *.
    - injection H as <-. reflexivity.
    - unfold df_node at 1 in H. unfold rbind in H.
      assert (Hb : get idom k = Ok o) by (rewrite <- (Hs O o eq_refl); f_equal; lia).
      rewrite Hb in H.
      destruct (get insl k) as [ps| |] eqn:Ep; try discriminate.
      unfold gnode at 1. cbn [fst snd]. rewrite (inf_ok k ps Ep). unfold go_len. rewrite map_length.
      replace (Z.of_nat (length ps) <? 2) with (length ps <? 2)%nat
        by (destruct (Nat.ltb_spec (length ps) 2); [symmetry; apply Z.ltb_lt; lia | symmetry; apply Z.ltb_ge; lia]).
      replace (Z.of_nat k + 1) with (Z.of_nat (S k)) by lia.
      assert (Hs' : forall i o', nth_error suf i = Some o' -> get idom (S k + i) = Ok o')
        by (intros i o' Hi; rewrite <- (Hs (S i) o' Hi); f_equal; lia).
      destruct (length ps <? 2)%nat.
      + apply IH; assumption.
      + match type of H with match ?X with _ => _ end = _ => destruct X as [df1| |] eqn:E1; try discriminate end.
        rewrite (pred_tie o k ps df df1 E1). apply IH; assumption.
  Qed.
End Tie.

(* the closing loop: a nil entry becomes an empty slice - the same list *)
Lemma fill_id (gstep : zdf -> Z -> zdf) :
  (forall d i, gstep d i = d) -> forall (l : list Z) d, fold_left gstep l d = d.
Proof. intros H. induction l as [|i l IH]; intros d; simpl; [reflexivity|]. rewrite H. apply IH. Qed.

Lemma upd_nil_same (d : zdf) i : go_idx [] d i = [] -> go_upd d i [] = d.
Proof.
  unfold go_idx, go_upd. intros H. destruct (i <? 0); [reflexivity|].
  destruct (Nat.lt_ge_cases (Z.to_nat i) (length d)) as [Hl|Hl]; [apply upd_nth_same; assumption|].
  clear H. revert Hl. generalize (Z.to_nat i). induction d as [|a d IH]; intros [|n] Hl; simpl in *; try reflexivity; try lia.
  f_equal. apply IH. lia.
Qed.

Theorem tie_DomFrontier : forall (g : GDGraph.graph) (insl : list (list nat)) (root fuel F : nat)
    (idom : list (option nat)) (df : list (list nat))
    (idomf : Z -> list Z) (inf : Z -> list Z) (nnv : Z),
  mk_ins g = Ok insl ->
  (forall b ps, get insl b = Ok ps -> inf (Z.of_nat b) = map Z.of_nat ps) ->
  nnv = Z.of_nat (length g) -> idom <> [] -> (fuel < F)%nat ->
  dom_frontier fuel g root idom = Ok df ->
  gen_DomFrontier idomf inf nnv F (Z.of_nat root) (map zo idom) = Some (map (map Z.of_nat) df).
Proof.
  intros g insl root fuel F idom df idomf inf nnv Hins Hinf -> Hne HF H.
  unfold dom_frontier in H. rewrite Hins in H. cbn [rbind] in H.
  unfold gen_DomFrontier. cbv zeta.
  replace (go_isnil (map zo idom)) with false by (destruct idom; [contradiction | reflexivity]).
  (* the node loop *)
  match goal with |- context [go_fold_ctl ?f (go_enum (map zo idom)) ?d0] =>
    replace (go_fold_ctl f (go_enum (map zo idom)) d0) with (Go_next (R := list (list Z)) (enc df))
  end.
  - (* the closing loop *)
    rewrite fill_id; [reflexivity|].
    intros d i. destruct (go_isnil (go_idx [] d i)) eqn:E; [|reflexivity].
    apply upd_nil_same. destruct (go_idx [] d i); [reflexivity | discriminate].
  - symmetry.
    erewrite go_fold_ctl_ext with (g := gnode (map zo idom) inf F (Z.of_nat root)).
    + unfold go_make. rewrite Nat2Z.id.
      replace (repeat (@nil Z) (length g)) with (enc (repeat [] (length g))) by (unfold enc; exact (map_repeat' (map Z.of_nat) [] (length g))).
      apply (node_tie insl root idom inf Hinf F fuel HF idom 0 _ df); [|exact H].
      intros i o Hi. unfold get. cbn [Nat.add]. rewrite Hi. reflexivity.
    + (* the generated node body is the canonical one *)
      intros d [b bdom]. unfold gnode. cbn [fst snd]. cbv beta iota zeta.
      destruct (go_len (inf b) <? 2); [reflexivity|].
      erewrite go_fold_ctl_ext with (g := gpred (map zo idom) F (Z.of_nat root) b bdom).
      * destruct (go_fold_ctl _ (inf b) d); reflexivity.
      * intros d2 pred. unfold gpred. cbv beta iota zeta.
        erewrite go_while_ext with (c2 := wcond bdom) (b2 := wbody (map zo idom) b).
        -- rewrite ?(Z.eqb_sym (Z.of_nat root) pred), ?(Z.eqb_sym (-1) (go_idx 0 (map zo idom) pred)).
           destruct (pred =? Z.of_nat root); destruct (go_idx 0 (map zo idom) pred =? -1); cbn [negb andb]; try reflexivity;
             destruct (go_while F _ _ (d2, pred)) as [[d3 r3]|]; reflexivity.
        -- intros [d3 r3]. unfold wcond. cbn [snd]. first [reflexivity | rewrite Z.eqb_sym; reflexivity].
        -- intros [d3 r3]. rewrite wbody_eq.
           try (rewrite (existsb_ext' _ (fun x => x =? b)) by (intros; first [reflexivity | apply Z.eqb_sym])).
           destruct (existsb _ _); reflexivity.
Qed.

(* Tie/Effects.v — the STRUCTURAL tie of property C20 ("API calls are pure: inputs untouched").

   C20 has no numeric tie targets: its model (Model/Heap.v) abstracts each routine to an array
   program (which argument arrays are read, copied, updated in place).  This file ties that
   abstraction to the Go SOURCE: `go2coq -effects` (translator/effects.go) derives, for every
   exported function and method of the module, the parameter positions whose reachable memory
   the code MAY WRITE (static may-write analysis, see the header of effects.go), and the checks
   below compare the derived write sets with the footprints of the array programs:

     effects_consistent  for every API function of [api_routine]: present in the generated table,
                         not "unknown", no write to a package-level variable, every routine
                         argument that a written Go position stands for lies in the proved
                         [footprint] of its routine; for a [readonly] routine the derived write
                         set is empty.
     effects_all_known   no exported function at all is "unknown" or writes a package-level
                         variable, except the hand-listed [known_exceptions].
     callbacks_known     the only functions that hand parameter memory to a caller-supplied
                         function value are the hand-listed [callback_functions].

   Compiled against the generated file on every run:
     coqc -Q coq MM -Q <gen dir> MMGen <gen dir>/Tie_Effects.v
   A function of [api_routine] that is missing from gen_effects (renamed, removed) or that became
   "unknown" makes effects_consistent false: the tie fails loudly. *)
From Coq Require Import String List ZArith Bool Arith.
From MM Require Import Model.Heap.
From MMGen Require Import Gen_effects.
Import ListNotations.
Open Scope string_scope.

(* ---------- the hand-written side ---------- *)

(* Go API function -> (routine id of Model.Heap.routines,
                       Go parameter position (receiver = 0 for methods) -> routine ARGUMENT indices).
   The entries follow the table of harness/c20.go (same routine ids, same order of the tracked
   arrays).  A position that is not listed stands for no tracked array; a WRITE to an unlisted
   position is mapped to [unmapped] and fails the check. *)
Definition api_routine : list (string * (Z * list (nat * list nat))) := [
  (* 1: copies both samples, sorts the copies *)
  ("stats.MannWhitneyUTest", (1%Z, [(0, [0]); (1, [1]); (2, [])]));
  (* 2, 3: receiver Sample = (Xs, Weights) *)
  ("stats.Sample.Quantile", (2%Z, [(0, [0; 1]); (1, [])]));
  ("stats.Sample.IQR", (3%Z, [(0, [0; 1])]));
  (* 4: receiver = the CI (scalars), argument 1 = the sample *)
  ("stats.QuantileCIResult.SampleCI", (4%Z, [(0, []); (1, [0])]));
  (* 5, 6 *)
  ("fit.LOESS", (5%Z, [(0, [0]); (1, [1]); (2, []); (3, [])]));
  ("fit.PolynomialRegression", (6%Z, [(0, [0]); (1, [1]); (2, [2]); (3, [])]));
  ("fit.LinearLeastSquares", (6%Z, [(0, [0]); (1, [1]); (2, [2])]));
  (* 7, 8, 9 *)
  ("graph.Equal", (7%Z, [(0, [0]); (1, [1])]));
  ("graphalg.SCC", (8%Z, [(0, [0]); (1, [])]));
  ("graph.SubgraphKeep", (9%Z, [(0, [0]); (1, [1]); (2, [2])]));
  ("graph.SubgraphRemove", (9%Z, [(0, [0]); (1, [1]); (2, [2])]));
  (* 10: read-only graph algorithms, one tracked array (the adjacency lists) *)
  ("graphalg.PreOrder", (10%Z, [(0, [0]); (1, [])]));
  ("graphalg.PostOrder", (10%Z, [(0, [0]); (1, [])]));
  ("graphalg.Euler.Visit", (10%Z, [(0, []); (1, [0]); (2, [])]));
  ("graphalg.IDom", (10%Z, [(0, [0]); (1, [])]));
  ("graphalg.Dom", (10%Z, [(0, [0])]));
  ("graphalg.DomFrontier", (10%Z, [(0, [0]); (1, []); (2, [0])]));
  ("graph.MakeBiGraph", (10%Z, [(0, [0])]));
  ("graphalg.SimplifyMulti", (10%Z, [(0, [0])]));
  ("graphout.Dot.Sprint", (10%Z, [(0, []); (1, [0])]));
  (* 11: read-only numeric functions, up to two tracked arrays *)
  ("stats.Mean", (11%Z, [(0, [0])]));
  ("stats.Variance", (11%Z, [(0, [0])]));
  ("stats.StdDev", (11%Z, [(0, [0])]));
  ("stats.GeoMean", (11%Z, [(0, [0])]));
  ("stats.Bounds", (11%Z, [(0, [0])]));
  ("stats.MeanCI", (11%Z, [(0, [0]); (1, [])]));
  ("stats.Sample.Mean", (11%Z, [(0, [0; 1])]));
  ("stats.Sample.Variance", (11%Z, [(0, [0; 1])]));
  ("stats.Sample.StdDev", (11%Z, [(0, [0; 1])]));
  ("stats.Sample.GeoMean", (11%Z, [(0, [0; 1])]));
  ("stats.Sample.Sum", (11%Z, [(0, [0; 1])]));
  ("stats.Sample.Weight", (11%Z, [(0, [0; 1])]));
  ("stats.Sample.Bounds", (11%Z, [(0, [0; 1])]));
  ("stats.Sample.MeanCI", (11%Z, [(0, [0; 1]); (1, [])]));
  ("stats.Sample.Copy", (11%Z, [(0, [0; 1])]));
  ("stats.TwoSampleTTest", (11%Z, [(0, [0]); (1, [1]); (2, [])]));
  ("stats.TwoSampleWelchTTest", (11%Z, [(0, [0]); (1, [1]); (2, [])]));
  ("stats.PairedTTest", (11%Z, [(0, [0]); (1, [1]); (2, []); (3, [])]));
  ("stats.OneSampleTTest", (11%Z, [(0, [0]); (1, []); (2, [])]));
  ("stats.BandwidthScott", (11%Z, [(0, [0])]));
  ("stats.BandwidthSilverman", (11%Z, [(0, [0])]));
  ("vec.Concat", (11%Z, [(0, [0; 1])]));
  ("vec.Map", (11%Z, [(0, []); (1, [0])]));
  ("vec.Vectorize", (11%Z, [(0, [])]));
  ("vec.Sum", (11%Z, [(0, [0])]));
  ("vec.Linspace", (11%Z, []));
  ("vec.Logspace", (11%Z, []));
  ("stats.UDist.PMF", (11%Z, [(0, [0]); (1, [])]));
  ("stats.UDist.CDF", (11%Z, [(0, [0]); (1, [])]));
  ("stats.HistogramQuantile", (11%Z, [(0, [0]); (1, [])]));
  ("stats.HistogramIQR", (11%Z, [(0, [0])]));
  ("stats.BinomialDist.PMF", (11%Z, []));
  ("stats.BinomialDist.CDF", (11%Z, []));
  ("stats.HypergeometicDist.PMF", (11%Z, []));
  ("stats.HypergeometicDist.CDF", (11%Z, []));
  ("stats.TDist.CDF", (11%Z, []));
  ("stats.NormalDist.PDF", (11%Z, []));
  ("mathx.Choose", (11%Z, []));
  ("mathx.Lchoose", (11%Z, []));
  ("mathx.BetaInc", (11%Z, []));
  ("mathx.GammaInc", (11%Z, []));
  (* 12 / 25: KDE.  One Go function, two table entries in the harness (Bandwidth set / lazily
     filled); the source contains both behaviours, so the routine is 25 (footprint: the Bandwidth
     cell, argument 2).  The receiver *KDE holds Xs, Weights (through Sample) and the Bandwidth
     cell: see [api_paths] for the field-level map. *)
  ("stats.KDE.PDF", (25%Z, [(0, [0; 1; 2]); (1, [])]));
  ("stats.KDE.CDF", (25%Z, [(0, [0; 1; 2]); (1, [])]));
  ("stats.KDE.Bounds", (25%Z, [(0, [0; 1; 2])]));
  (* ---- documented in-place operations ---- *)
  ("stats.Sample.Sort", (20%Z, [(0, [0; 1])]));
  ("graphalg.Reverse", (21%Z, [(0, [0])]));
  ("scale.Linear.Nice", (22%Z, [(0, [0]); (1, [])]));
  ("scale.Linear.SetClamp", (22%Z, [(0, [0]); (1, [])]));
  ("scale.Log.Nice", (22%Z, [(0, [0]); (1, [])]));
  ("scale.Log.SetClamp", (22%Z, [(0, [0]); (1, [])]));
  ("stats.StreamStats.Add", (23%Z, [(0, [0]); (1, [])]));
  ("stats.LinearHist.Add", (23%Z, [(0, [0]); (1, [])]));
  ("stats.LogHist.Add", (23%Z, [(0, [0]); (1, [])]));
  ("graphalg.NodeMarks.Mark", (23%Z, [(0, [0]); (1, [])]));
  ("graphalg.NodeMarks.Unmark", (23%Z, [(0, [0]); (1, [])]));
  ("stats.StreamStats.Combine", (24%Z, [(0, [0]); (1, [1])]))
].

(* Field-level refinement for functions whose receiver stands for several routine arguments:
   (Go position, written access path as printed in gen_effects_paths) -> routine arguments.
   A written path that is not listed falls back to the position map of [api_routine]. *)
Definition api_paths : list (string * list (nat * string * list nat)) := [
  ("stats.KDE.PDF",    [((0, "*.Bandwidth"), [2])]);
  ("stats.KDE.CDF",    [((0, "*.Bandwidth"), [2])]);
  ("stats.KDE.Bounds", [((0, "*.Bandwidth"), [2])])
].

(* Exported functions that may be "unknown" or write a package-level variable. *)
Definition known_exceptions : list string := [
  (* Print(g) is Fprint(os.Stdout, g): the only "package-level variable" reached is os.Stdout *)
  "graphout.Dot.Print"
].

(* Functions that hand memory of a parameter to a caller-supplied function value (the callee of
   that call is the CALLER's code; the analysis attributes nothing to the API function). *)
Definition callback_functions : list string := [
  (* terms[i](xs, termOut): documented contract "computes the term from xs into termOut" *)
  "fit.LinearLeastSquares"
].

(* ---------- the checks ---------- *)

Fixpoint lookup_s {B : Type} (k : string) (l : list (string * B)) : option B :=
  match l with
  | [] => None
  | (k', v) :: t => if String.eqb k k' then Some v else lookup_s k t
  end.

Definition unmapped : nat := 999.   (* not an argument of any routine *)

Definition args_of (m : list (nat * list nat)) (p : nat) : list nat :=
  match find (fun e => Nat.eqb (fst e) p) m with Some e => snd e | None => [unmapped] end.

Definition path_args (pt : list (nat * string * list nat)) (m : list (nat * list nat)) (w : nat * string) : list nat :=
  match find (fun e => Nat.eqb (fst (fst e)) (fst w) && String.eqb (snd (fst e)) (snd w)) pt with
  | Some e => snd e
  | None => args_of m (fst w)
  end.

(* the routine arguments the derived writes stand for *)
Definition derived_args (name : string) (m : list (nat * list nat)) (ws : list nat) : list nat :=
  match lookup_s name api_paths with
  | None => flat_map (args_of m) ws
  | Some pt =>
      let paths := match lookup_s name gen_effects_paths with Some l => l | None => [] end in
      if forallb (fun p => existsb (fun w => Nat.eqb (fst w) p) paths) ws   (* the paths account for every written position *)
      then flat_map (path_args pt m) paths
      else [unmapped]
  end.

Definition is_nil {B : Type} (l : list B) : bool := match l with [] => true | _ => false end.

Definition consistent_name (name : string) (id : Z) (m : list (nat * list nat)) : bool :=
  match lookup_s name gen_effects with
  | None => false                                    (* renamed / removed: fail loudly *)
  | Some e =>
      match find_routine id with
      | None => false
      | Some r =>
          negb (snd e) && negb (snd (fst e))           (* not unknown, no package-level write *)
          && (if readonly (r_prog r) then is_nil (fst (fst e)) else true)
          && forallb (fun a => mem a (footprint r)) (derived_args name m (fst (fst e)))
      end
  end.

Definition consistent_entry (e : string * (Z * list (nat * list nat))) : bool :=
  consistent_name (fst e) (fst (snd e)) (snd (snd e)).

Definition effects_consistent : bool := forallb consistent_entry api_routine.

Definition effects_all_known : bool :=
  forallb (fun e => (negb (snd (snd e)) && negb (snd (fst (snd e)))) || existsb (String.eqb (fst e)) known_exceptions)
          gen_effects.

Definition callbacks_known : bool :=
  forallb (fun e => is_nil (snd e) || existsb (String.eqb (fst e)) callback_functions) gen_effects_callbacks.

(* diagnostics: the names that fail (the error message of a failing tie shows them) *)
Definition effects_failing : list string :=
  map fst (filter (fun e => negb (consistent_entry e)) api_routine).
Definition effects_not_known : list string :=
  map fst (filter (fun e => negb ((negb (snd (snd e)) && negb (snd (fst (snd e)))) || existsb (String.eqb (fst e)) known_exceptions))
                  gen_effects).

(* ---------- the tie ---------- *)

(* stated first so that a failure NAMES the offending API functions:
   "Unable to unify [] with [stats.Sample.Quantile; ...]" *)
Theorem tie_effects_failing_none : effects_failing = [].
Proof. vm_compute. reflexivity. Qed.

Theorem tie_effects_not_known_none : effects_not_known = [].
Proof. vm_compute. reflexivity. Qed.

Theorem tie_effects_consistent : effects_consistent = true.
Proof. vm_compute. reflexivity. Qed.

Theorem tie_effects_all_known : effects_all_known = true.
Proof. vm_compute. reflexivity. Qed.

Theorem tie_effects_callbacks : callbacks_known = true.
Proof. vm_compute. reflexivity. Qed.

Lemma lookup_s_In : forall (B : Type) (k : string) (l : list (string * B)) (v : B),
  lookup_s k l = Some v -> In (k, v) l.
Proof.
  intros B k l v. induction l as [|[k' v'] t IH]; simpl; [discriminate|].
  destruct (String.eqb k k') eqn:E.
  - intros H. inversion H; subst. apply String.eqb_eq in E. subst. left. reflexivity.
  - intros H. right. apply IH. exact H.
Qed.

Lemma is_nil_true : forall (B : Type) (l : list B), is_nil l = true -> l = [].
Proof. intros B [|x t]; [reflexivity|discriminate]. Qed.

(* What the boolean check means for one entry. *)
Lemma consistent_name_spec : forall name id m, consistent_name name id m = true ->
  exists e r, In (name, e) gen_effects /\ find_routine id = Some r /\
    snd e = false /\ snd (fst e) = false /\
    (readonly (r_prog r) = true -> fst (fst e) = []) /\
    Forall (fun a => In a (footprint r)) (derived_args name m (fst (fst e))).
Proof.
  intros name id m H. unfold consistent_name in H.
  destruct (lookup_s name gen_effects) as [e|] eqn:L; [|discriminate].
  destruct (find_routine id) as [r|] eqn:R; [|discriminate].
  apply andb_prop in H. destruct H as [H Hfp].
  apply andb_prop in H. destruct H as [H Hro].
  apply andb_prop in H. destruct H as [Hu Hg].
  exists e, r. split; [apply lookup_s_In; exact L|]. split; [reflexivity|].
  split; [destruct (snd e); [discriminate|reflexivity]|].
  split; [destruct (snd (fst e)); [discriminate|reflexivity]|].
  split.
  - intros Hr. rewrite Hr in Hro. apply is_nil_true. exact Hro.
  - apply Forall_forall. intros a Ha. rewrite forallb_forall in Hfp. specialize (Hfp a Ha).
    clear - Hfp. induction (footprint r) as [|w t IH]; simpl in *; [discriminate|].
    apply orb_prop in Hfp. destruct Hfp as [E|E].
    + left. apply Nat.eqb_eq in E. symmetry. exact E.
    + right. apply IH. exact E.
Qed.

(* Every API function of the table: known, no package-level write, derived writes inside the footprint. *)
Theorem tie_effects_footprint : forall name id m, In (name, (id, m)) api_routine ->
  exists e r, In (name, e) gen_effects /\ find_routine id = Some r /\
    snd e = false /\ snd (fst e) = false /\
    Forall (fun a => In a (footprint r)) (derived_args name m (fst (fst e))).
Proof.
  intros name id m Hin.
  pose proof tie_effects_consistent as H. unfold effects_consistent in H.
  rewrite forallb_forall in H. specialize (H _ Hin). unfold consistent_entry in H. cbn [fst snd] in H.
  destruct (consistent_name_spec _ _ _ H) as [e [r [H1 [H2 [H3 [H4 [_ H6]]]]]]].
  exists e, r. repeat split; assumption.
Qed.

(* A read-only routine: the source analysis derives NO write at all. *)
Theorem tie_effects_readonly : forall name id m, In (name, (id, m)) api_routine ->
  forall r, find_routine id = Some r -> readonly (r_prog r) = true ->
  exists e, In (name, e) gen_effects /\ fst (fst e) = [] /\ snd (fst e) = false.
Proof.
  intros name id m Hin r Hr Hro.
  pose proof tie_effects_consistent as H. unfold effects_consistent in H.
  rewrite forallb_forall in H. specialize (H _ Hin). unfold consistent_entry in H. cbn [fst snd] in H.
  destruct (consistent_name_spec _ _ _ H) as [e [r' [H1 [H2 [_ [H4 [H5 _]]]]]]].
  rewrite Hr in H2. inversion H2; subst r'.
  exists e. split; [exact H1|]. split; [apply H5; exact Hro|exact H4].
Qed.

(* No exported function outside [known_exceptions] is unknown or writes a package-level variable. *)
Theorem tie_effects_known : forall name ws g u, In (name, (ws, g, u)) gen_effects ->
  ~ In name known_exceptions -> g = false /\ u = false.
Proof.
  intros name ws g u Hin Hex.
  pose proof tie_effects_all_known as H. unfold effects_all_known in H.
  rewrite forallb_forall in H. specialize (H _ Hin). cbn [fst snd] in H.
  apply orb_prop in H. destruct H as [H|H].
  - apply andb_prop in H. destruct H as [Hu Hg].
    split; [destruct g|destruct u]; try reflexivity; discriminate.
  - exfalso. apply Hex. apply existsb_exists in H. destruct H as [x [Hx E]].
    apply String.eqb_eq in E. subst. exact Hx.
Qed.

(* Tie/Hist.v — T-tie for stats/linearhist.go (NewLinearHist, bin, Add, Counts, BinToValue),
   property C14: the definitions generated from the current Go source agree with the model
   Model/Hist.v.  Compiled by bin/ttie, not by the main build.

   The Go struct stores delta = nbins / (max - min); the model recomputes the position from
   (min, max, nbins).  [wf] is the representation invariant that links the two; it is
   established by NewLinearHist and preserved by Add (both proved here). *)
From Coq Require Import ZArith NArith QArith Qround Qabs List Lia Lqa.
From MM Require Import Base.Num Base.GoSem Model.Hist.
From MMGen Require Import Gen_stats_types Gen_stats_linearhist.
Import ListNotations.
Local Open Scope Q_scope.

Definition to_hstate (h : LinearHist_rec) : hstate :=
  mkH (LinearHist_low h) (LinearHist_bins h) (LinearHist_high h).

Definition wf (h : LinearHist_rec) : Prop :=
  LinearHist_delta h == Qofnat (length (LinearHist_bins h)) / (LinearHist_max h - LinearHist_min h).

(* no counter is at the top of the uint64 range (Go wraps, the model counts in N) *)
Definition no_overflow (h : LinearHist_rec) : Prop :=
  (LinearHist_low h + 1 < 2 ^ 64)%N /\ (LinearHist_high h + 1 < 2 ^ 64)%N /\
  forall c, In c (LinearHist_bins h) -> (c + 1 < 2 ^ 64)%N.

Ltac proj := cbn [LinearHist_min LinearHist_max LinearHist_delta LinearHist_low LinearHist_high LinearHist_bins
                  h_under h_bins h_over] in *.

Theorem tie_NewLinearHist : forall (mn mx : Q) (n : Z), (0 <= n)%Z ->
  let h := gen_NewLinearHist mn mx n in
  wf h /\ to_hstate h = h_empty (Z.to_nat n) /\ LinearHist_min h = mn /\ LinearHist_max h = mx.
Proof.
  intros mn mx n Hn. unfold gen_NewLinearHist, wf, to_hstate, h_empty, go_make, go_i2f. proj.
  repeat split. rewrite repeat_length. unfold Qofnat. rewrite Z2Nat.id by exact Hn. reflexivity.
Qed.

Theorem tie_LinearHist_bin : forall (h : LinearHist_rec) (x : Q), wf h ->
  gen_LinearHist_bin h x = lin_bin (LinearHist_min h) (LinearHist_max h) (length (LinearHist_bins h)) x.
Proof.
  intros [mn mx d lo hi bins] x Hwf. unfold wf in Hwf. unfold gen_LinearHist_bin, lin_bin, lin_pos. proj.
  rewrite go_f2i_floor. apply Qfloor_comp. rewrite Hwf. unfold Qdiv. ring.
Qed.

Lemma upd_incr (bins : list N) (k : nat) :
  (forall c, In c bins -> (c + 1 < 2 ^ 64)%N) -> (k < length bins)%nat ->
  upd_nth bins k (wrap_u 64 (nth k bins 0%N + 1)) = incr_nth bins k.
Proof.
  revert k. induction bins as [|c t IH]; intros k Hov Hk; simpl in *; [lia|].
  destruct k as [|k].
  - rewrite wrap_u_small by (apply Hov; left; reflexivity). reflexivity.
  - f_equal. apply IH; [intros c' Hc'; apply Hov; right; exact Hc' | lia].
Qed.

Lemma incr_nth_length l k : length (incr_nth l k) = length l.
Proof. revert k. induction l as [|c t IH]; intros [|k]; simpl; try reflexivity. f_equal. apply IH. Qed.

Theorem tie_LinearHist_Add : forall (h : LinearHist_rec) (x : Q), wf h -> no_overflow h ->
  let h' := gen_LinearHist_Add h x in
  to_hstate h' = lin_add (LinearHist_min h) (LinearHist_max h) (to_hstate h) x /\
  wf h' /\ LinearHist_min h' = LinearHist_min h /\ LinearHist_max h' = LinearHist_max h.
Proof.
  intros h x Hwf (Hlo & Hhi & Hb). unfold gen_LinearHist_Add. rewrite (tie_LinearHist_bin h x Hwf).
  destruct h as [mn mx d lo hi bins]. unfold wf in *. unfold to_hstate, lin_add, lin_slot, dispatch, h_incr. proj.
  set (b := lin_bin mn mx (length bins) x). unfold go_len, go_uadd.
  destruct (b <? 0)%Z eqn:E1; proj.
  - rewrite wrap_u_small by exact Hlo. repeat split; assumption.
  - destruct (Z.of_nat (length bins) <=? b)%Z eqn:E2; proj.
    + rewrite wrap_u_small by exact Hhi. repeat split; assumption.
    + apply Z.ltb_ge in E1. apply Z.leb_gt in E2.
      unfold go_upd, go_idx. replace (b <? 0)%Z with false by (symmetry; apply Z.ltb_ge; exact E1).
      rewrite upd_incr by (try exact Hb; lia).
      repeat split; try reflexivity. rewrite incr_nth_length. exact Hwf.
Qed.

Theorem tie_LinearHist_Counts : forall h : LinearHist_rec,
  gen_LinearHist_Counts h = (h_under (to_hstate h), h_bins (to_hstate h), h_over (to_hstate h)).
Proof. intros h. reflexivity. Qed.

(* holds without side conditions: Coq's x / 0 = 0 on both sides (in Go a zero delta gives Inf/NaN) *)
Theorem tie_LinearHist_BinToValue : forall (h : LinearHist_rec) (bin : Q), wf h ->
  gen_LinearHist_BinToValue h bin ==
  lin_bin_to_value (LinearHist_min h) (LinearHist_max h) (length (LinearHist_bins h)) bin.
Proof.
  intros [mn mx d lo hi bins] bin Hwf. unfold wf in Hwf. unfold gen_LinearHist_BinToValue, lin_bin_to_value. proj.
  rewrite Hwf. unfold Qdiv. rewrite Qinv_mult_distr, Qinv_involutive. ring.
Qed.

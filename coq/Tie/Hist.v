(* Tie/Hist.v — T-tie for stats/linearhist.go (NewLinearHist, bin, Add, Counts, BinToValue),
   property C14: the definitions generated from the current Go source agree with the model
   Model/Hist.v.  Compiled by bin/ttie, not by the main build.

   The Go struct stores delta = nbins / (max - min); the model recomputes the position from
   (min, max, nbins).  [wf] is the representation invariant that links the two; it is
   established by NewLinearHist and preserved by Add (both proved here).

   stats/hist.go HistogramQuantile / HistogramIQR take a Histogram INTERFACE: its methods
   Counts and BinToValue, math.NaN() and the final panic are opaque parameters of the generated
   definitions (countsv, btv, nanv, panicv), and the tie holds for all of them. *)
From Coq Require Import ZArith NArith QArith Qround Qabs List Lia Lqa.
From MM Require Import Base.Num Base.GoSem Model.Hist Proofs.Hist.
From MMGen Require Import Gen_stats_types Gen_stats_linearhist Gen_stats_loghist Gen_stats_hist.
Import ListNotations.
Local Open Scope Q_scope.

Definition to_hstate (h : LinearHist_rec) : hstate :=
  mkH (LinearHist_low h) (LinearHist_bins h) (LinearHist_high h).

Definition wf (h : LinearHist_rec) : Prop :=
  LinearHist_delta h == Qofnat (length (LinearHist_bins h)) / (LinearHist_max h - LinearHist_min h).

(* no counter is at the top of the uint64 range (Go wraps, the model counts in N) *)
Definition no_overflow (h : LinearHist_rec) : Prop :=
  (LinearHist_low h + 1 < 2 ^ 64)%N /\ (LinearHist_high h + 1 < 2 ^ 64)%N /\
  forall c, In c (LinearHist_bins h) -> (c + 1 < 2 ^ 64)%N.

Ltac proj := cbn [LinearHist_min LinearHist_max LinearHist_delta LinearHist_low LinearHist_high LinearHist_bins
                  h_under h_bins h_over] in *.

Theorem tie_NewLinearHist : forall (mn mx : Q) (n : Z), (0 <= n)%Z ->
  let h := gen_NewLinearHist mn mx n in
  wf h /\ to_hstate h = h_empty (Z.to_nat n) /\ LinearHist_min h = mn /\ LinearHist_max h = mx.
Proof.
  intros mn mx n Hn. unfold gen_NewLinearHist, wf, to_hstate, h_empty, go_make, go_i2f. proj.
  repeat split. rewrite repeat_length. unfold Qofnat. rewrite Z2Nat.id by exact Hn. reflexivity.
Qed.

Theorem tie_LinearHist_bin : forall (h : LinearHist_rec) (x : Q), wf h ->
  gen_LinearHist_bin h x = lin_bin (LinearHist_min h) (LinearHist_max h) (length (LinearHist_bins h)) x.
Proof.
  intros [mn mx d lo hi bins] x Hwf. unfold wf in Hwf. unfold gen_LinearHist_bin, lin_bin, lin_pos. proj.
  rewrite go_f2i_floor. apply Qfloor_comp. rewrite Hwf. unfold Qdiv. ring.
Qed.

Lemma upd_incr (bins : list N) (k : nat) :
  (forall c, In c bins -> (c + 1 < 2 ^ 64)%N) -> (k < length bins)%nat ->
  upd_nth bins k (wrap_u 64 (nth k bins 0%N + 1)) = incr_nth bins k.
Proof.
  revert k. induction bins as [|c t IH]; intros k Hov Hk; simpl in *; [lia|].
  destruct k as [|k].
  - rewrite wrap_u_small by (apply Hov; left; reflexivity). reflexivity.
  - f_equal. apply IH; [intros c' Hc'; apply Hov; right; exact Hc' | lia].
Qed.


Theorem tie_LinearHist_Add : forall (h : LinearHist_rec) (x : Q), wf h -> no_overflow h ->
  let h' := gen_LinearHist_Add h x in
  to_hstate h' = lin_add (LinearHist_min h) (LinearHist_max h) (to_hstate h) x /\
  wf h' /\ LinearHist_min h' = LinearHist_min h /\ LinearHist_max h' = LinearHist_max h.
Proof.
  intros h x Hwf (Hlo & Hhi & Hb). unfold gen_LinearHist_Add. rewrite (tie_LinearHist_bin h x Hwf).
  destruct h as [mn mx d lo hi bins]. unfold wf in *. unfold to_hstate, lin_add, lin_slot, dispatch, h_incr. proj.
  set (b := lin_bin mn mx (length bins) x). unfold go_len, go_uadd, go_upd, go_idx.
  (* every comparison of either side, then each consistent leaf is one of the three updates *)
  zcases; cbn [andb orb negb]; proj; try (exfalso; lia);
    rewrite ?(wrap_u_small 64 (lo + 1)) by exact Hlo; rewrite ?(wrap_u_small 64 (hi + 1)) by exact Hhi;
    rewrite ?upd_incr by (try exact Hb; lia);
    repeat split; try reflexivity; try assumption; rewrite incr_nth_length; exact Hwf.
Qed.

(* ---------- the tie along a whole run of Add calls (lin_run is what the C14 conservation and
   binning theorems speak about) ---------- *)
Lemma In_le_Nsum c l : In c l -> (c <= Nsum l)%N.
Proof. induction l as [|a l IH]; simpl; [tauto|]. intros [->|H]; [lia | specialize (IH H); lia]. Qed.

Lemma no_overflow_of_total h : (h_total (to_hstate h) + 1 < 2 ^ 64)%N -> no_overflow h.
Proof.
  destruct h as [mn mx d lo hi bins]. unfold h_total, to_hstate, no_overflow. proj. intros H.
  repeat split; try lia. intros c Hc. apply In_le_Nsum in Hc. lia.
Qed.

Theorem tie_LinearHist_run : forall (xs : list Q) (h : LinearHist_rec), wf h ->
  (h_total (to_hstate h) + N.of_nat (length xs) < 2 ^ 64)%N ->
  let h' := fold_left gen_LinearHist_Add xs h in
  to_hstate h' = fold_left (lin_add (LinearHist_min h) (LinearHist_max h)) xs (to_hstate h) /\
  wf h' /\ LinearHist_min h' = LinearHist_min h /\ LinearHist_max h' = LinearHist_max h.
Proof.
  induction xs as [|x xs IH]; intros h Hwf Hb; cbn [fold_left].
  - repeat split; try reflexivity. exact Hwf.
  - cbn [length] in Hb.
    destruct (tie_LinearHist_Add h x Hwf (no_overflow_of_total h ltac:(lia))) as (E & Hwf' & Emin & Emax).
    assert (Ht : h_total (to_hstate (gen_LinearHist_Add h x)) = (h_total (to_hstate h) + 1)%N).
    { rewrite E. unfold lin_add. apply h_incr_total. unfold lin_slot. apply dispatch_valid. }
    destruct (IH (gen_LinearHist_Add h x) Hwf' ltac:(rewrite Ht; lia)) as (E2 & Hwf2 & Emin2 & Emax2).
    rewrite Emin, Emax, E in E2. repeat split; try assumption; congruence.
Qed.

(* from the constructor: the generated NewLinearHist followed by Adds is the model's lin_run *)
Corollary tie_LinearHist_new_run : forall (mn mx : Q) (n : Z) (xs : list Q), (0 <= n)%Z ->
  (N.of_nat (length xs) < 2 ^ 64)%N ->
  to_hstate (fold_left gen_LinearHist_Add xs (gen_NewLinearHist mn mx n)) = lin_run mn mx (Z.to_nat n) xs.
Proof.
  intros mn mx n xs Hn Hl. destruct (tie_NewLinearHist mn mx n Hn) as (Hwf & E0 & Emin & Emax).
  destruct (tie_LinearHist_run xs _ Hwf) as (E & _).
  - rewrite E0, h_empty_total. lia.
  - rewrite E, E0, Emin, Emax. reflexivity.
Qed.

Theorem tie_LinearHist_Counts : forall h : LinearHist_rec,
  gen_LinearHist_Counts h = (h_under (to_hstate h), h_bins (to_hstate h), h_over (to_hstate h)).
Proof. intros h. reflexivity. Qed.

(* holds without side conditions: Coq's x / 0 = 0 on both sides (in Go a zero delta gives Inf/NaN) *)
Theorem tie_LinearHist_BinToValue : forall (h : LinearHist_rec) (bin : Q), wf h ->
  gen_LinearHist_BinToValue h bin ==
  lin_bin_to_value (LinearHist_min h) (LinearHist_max h) (length (LinearHist_bins h)) bin.
Proof.
  intros [mn mx d lo hi bins] bin Hwf. unfold wf in Hwf. unfold gen_LinearHist_BinToValue, lin_bin_to_value. proj.
  rewrite Hwf. unfold Qdiv. rewrite Qinv_mult_distr, Qinv_involutive. ring.
Qed.

(* ====================================================================== *)
(* loghist.go: Add's dispatch and Counts, for EVERY logarithm function       *)
(* ====================================================================== *)
(* bin(x) = floor(mOverLogb * log x) needs math.Log: it is the opaque parameter logf of the
   generated definitions.  What is tied is the counting structure the conservation theorems of
   C14 are about: Add increments exactly the slot that [dispatch] assigns to the bin index. *)
Definition to_hstate_log (h : LogHist_rec) : hstate :=
  mkH (LogHist_low h) (LogHist_bins h) (LogHist_high h).

Definition no_overflow_log (h : LogHist_rec) : Prop :=
  (LogHist_low h + 1 < 2 ^ 64)%N /\ (LogHist_high h + 1 < 2 ^ 64)%N /\
  forall c, In c (LogHist_bins h) -> (c + 1 < 2 ^ 64)%N.

Ltac lproj := cbn [LogHist_b LogHist_m LogHist_mOverLogb LogHist_low LogHist_high LogHist_bins
                   h_under h_bins h_over] in *.

Theorem tie_LogHist_Add : forall (logf : Q -> Q) (h : LogHist_rec) (x : Q), no_overflow_log h ->
  let h' := gen_LogHist_Add logf h x in
  to_hstate_log h' = h_incr (to_hstate_log h) (dispatch (length (LogHist_bins h)) (gen_LogHist_bin logf h x)) /\
  LogHist_b h' = LogHist_b h /\ LogHist_m h' = LogHist_m h /\ LogHist_mOverLogb h' = LogHist_mOverLogb h.
Proof.
  intros logf h x (Hlo & Hhi & Hb). unfold gen_LogHist_Add.
  set (b := gen_LogHist_bin logf h x). destruct h as [bb m ml lo hi bins].
  unfold to_hstate_log, dispatch, h_incr. lproj. unfold go_len, go_uadd, go_upd, go_idx.
  zcases; cbn [andb orb negb]; lproj; try (exfalso; lia);
    rewrite ?(wrap_u_small 64 (lo + 1)) by exact Hlo; rewrite ?(wrap_u_small 64 (hi + 1)) by exact Hhi;
    rewrite ?upd_incr by (try exact Hb; lia);
    repeat split; reflexivity.
Qed.

Theorem tie_LogHist_Counts : forall h : LogHist_rec,
  gen_LogHist_Counts h = (h_under (to_hstate_log h), h_bins (to_hstate_log h), h_over (to_hstate_log h)).
Proof. intros h. reflexivity. Qed.

(* ====================================================================== *)
(* hist.go: HistogramQuantile (rank walk) and HistogramIQR                  *)
(* ====================================================================== *)

Definition qres_val (btv : Q -> Q) (nanv panicv : Q) (r : qres) : Q :=
  match r with
  | QNaN => nanv
  | QAt b j c => btv (Qofnat b + QofN j / QofN c)
  | QPanic => panicv
  end.

(* total := under + over; for _, count := range counts { total += count } *)
Lemma total_fold (f : N -> N -> N) : (forall a c, f a c = go_uadd 64 a c) ->
  forall counts acc, (acc + Nsum counts < 2 ^ 64)%N -> fold_left f counts acc = (acc + Nsum counts)%N.
Proof.
  intros Hf. induction counts as [|c t IH]; intros acc H; simpl in *.
  - lia.
  - rewrite Hf. unfold go_uadd. rewrite wrap_u_small by (change (2 ^ Z.to_N 64)%N with (2 ^ 64)%N; lia).
    rewrite IH by lia. lia.
Qed.

(* the rank walk with its early return, for any step function that satisfies the two
   equations of the generated loop body *)
Section Walk.
  Variables (btv : Q -> Q) (panicv : Q).
  Variable step : option Q * N -> Z * N -> option Q * N.
  Hypothesis step_done : forall r g k c, step (Some r, g) (k, c) = (Some r, g).
  Hypothesis step_go : forall g k c, step (None, g) (k, c) =
    if (g <=? c)%N then (Some (btv (go_i2f k + go_u2f g / go_u2f c)), g) else (None, go_usub 64 g c).

  Lemma walk_done l : forall r g k, fold_left step (enum_from k l) (Some r, g) = (Some r, g).
  Proof. induction l as [|c t IH]; intros r g k; simpl; [reflexivity|]. rewrite step_done. apply IH. Qed.

  Lemma walk_tie nanv : forall counts g b,
    (let '(ret, _) := fold_left step (enum_from (Z.of_nat b) counts) (None, g) in
     match ret with Some r => r | None => panicv end) =
    qres_val btv nanv panicv (rank_walk counts g b).
  Proof.
    induction counts as [|c t IH]; intros g b; simpl.
    - reflexivity.
    - rewrite step_go. destruct (g <=? c)%N eqn:E.
      + rewrite walk_done. reflexivity.
      + apply N.leb_gt in E. rewrite go_usub_le by lia.
        replace (Z.of_nat b + 1)%Z with (Z.of_nat (S b)) by lia. apply IH.
  Qed.
End Walk.

Theorem tie_HistogramQuantile : forall (btv : Q -> Q) (nanv panicv : Q) (under : N) (counts : list N) (over : N) (q : Q),
  (h_total (mkH under counts over) < 2 ^ 64)%N ->
  gen_HistogramQuantile btv (under, counts, over) nanv panicv q =
  qres_val btv nanv panicv (hist_quantile (mkH under counts over) q).
Proof.
  intros btv nanv panicv under counts over q H. unfold h_total in H. proj.
  unfold gen_HistogramQuantile, hist_quantile, hist_quantile_goal, hist_goal, h_total. proj. cbv zeta.
  rewrite (total_fold _ (fun a c => eq_refl)) by
    (unfold go_uadd; rewrite wrap_u_small by (change (2 ^ Z.to_N 64)%N with (2 ^ 64)%N; lia); lia).
  unfold go_uadd. rewrite !(wrap_u_small 64 (under + over)) by (change (2 ^ Z.to_N 64)%N with (2 ^ 64)%N; lia).
  rewrite !go_f2u_floor. unfold go_u2f.
  set (goal := Z.to_N (Qfloor (QofN (under + over + Nsum counts) * q))).
  rewrite (go_usub_le 64 (under + over + Nsum counts) over) by lia.
  destruct ((goal <=? under)%N || (under + over + Nsum counts - over <? goal)%N) eqn:E; [reflexivity|].
  apply Bool.orb_false_iff in E. destruct E as [E1 E2]. apply N.leb_gt in E1.
  rewrite go_usub_le by lia.
  apply (walk_tie btv panicv _ (fun r g k c => eq_refl)) with (b := 0%nat).
  intros g k c. destruct (g <=? c)%N; reflexivity.
Qed.

Theorem tie_HistogramIQR : forall (btv : Q -> Q) (nanv panicv : Q) (under : N) (counts : list N) (over : N),
  (h_total (mkH under counts over) < 2 ^ 64)%N ->
  gen_HistogramIQR btv (under, counts, over) nanv panicv =
  qres_val btv nanv panicv (hist_quantile (mkH under counts over) (3 # 4)) -
  qres_val btv nanv panicv (hist_quantile (mkH under counts over) (1 # 4)).
Proof.
  intros btv nanv panicv under counts over H. unfold gen_HistogramIQR.
  rewrite !tie_HistogramQuantile by exact H. reflexivity.
Qed.

(* Tie/InvCDFGeneric.v — T-tie for C07: stats/dist.go InvCDF, the generic numerical inverse CDF,
   against Model/InvCDF.v inv_special / expand_right / expand_left / bracket.

   InvCDF RETURNS A CLOSURE; go2coq translates it uncurried (translator/curry.go): gen_InvCDF takes
   the closure's argument y after the function's own parameters.  The comma-ok assertion
   "dist.(invCDF)" (does the distribution bring its own InvCDF?) is the opaque boolean hasInvCDF, the
   method value dist.InvCDF the opaque invcdfm; dist.CDF / dist.Bounds are cdff / boundsf; nan, inf
   are opaque numbers; bisectBool is opaque here (bisectf; it is tied on its own in Tie/Bisect.v -
   the closure calls it with xtol = 0, where it ends only by float64 rounding).

   What is tied, under the exact reading of float64:
     tie_InvCDF_method   the dispatch to the distribution's own method;
     tie_InvCDF_special  y < 0 or y > 1 -> NaN; y = 0 / y = 1 -> the bound of the support when the
                         CDF attains 0 / 1 there, else -Inf / +Inf (= inv_special);
     tie_InvCDF_bracket  the bracket expansion (two "for" loops with fuel, probes 0, +-1, +-3, +-7, ...):
                         whenever the model finds the bracket BFound lo hi within f <= 52 doublings
                         (the probes are then exactly representable: f64_round_Z is the identity;
                         beyond that float64 rounds and finally overflows to Inf, which the exact
                         reading cannot see), the generated code, for every fuel > f, returns the
                         upper end of bisectf g lo' hi' 0 with lo' == lo, hi' == hi and
                         g x = (CDF(x) < y).
   Hypotheses: cdff respects == (the generated code computes the probes as sums in Q, the model as
   integers), and no integer probe equals +-inf (infv stands for +Inf). *)
From Coq Require Import ZArith QArith List Bool Lia.
From MM Require Import Base.Num Base.GoSem Model.InvCDF.
From MMGen Require Import Gen_stats_dist.
Import ListNotations.
Local Open Scope Q_scope.

Definition encx (nanv infv : Q) (r : xreal) : Q :=
  match r with XNaN => nanv | XInf true => - infv | XInf false => infv | XFin q => q end.

Lemma bool_eq_iff (a b : bool) : (a = true <-> b = true) -> a = b.
Proof. destruct a, b; intros [H1 H2]; try reflexivity; [symmetry; apply H1; reflexivity | apply H2; reflexivity]. Qed.
Lemma Qltb_comp a a' b b' : a == a' -> b == b' -> Qltb a b = Qltb a' b'.
Proof. intros H1 H2. apply bool_eq_iff. rewrite !Qltb_iff, H1, H2. reflexivity. Qed.
Lemma Qleb_comp a a' b b' : a == a' -> b == b' -> Qleb a b = Qleb a' b'.
Proof. intros H1 H2. apply bool_eq_iff. rewrite !Qleb_iff, H1, H2. reflexivity. Qed.
Lemma Qeqb_comp a a' b b' : a == a' -> b == b' -> Qeqb a b = Qeqb a' b'.
Proof. intros H1 H2. apply bool_eq_iff. rewrite !Qeqb_iff, H1, H2. reflexivity. Qed.

(* the probes are exact: no rounding in the sums hi + delta / lo - delta *)
Fixpoint exact_right (f : nat) (hi delta : Z) : Prop :=
  match f with O => True | S f' => f64_round_Z (hi + delta) = Some (hi + delta)%Z /\ exact_right f' (hi + delta) (2 * delta) end.
Fixpoint exact_left (f : nat) (lo delta : Z) : Prop :=
  match f with O => True | S f' => f64_round_Z (lo - delta) = Some (lo - delta)%Z /\ exact_left f' (lo - delta) (2 * delta) end.
Fixpoint exact_rightb (f : nat) (hi delta : Z) : bool :=
  match f with O => true | S f' =>
    match f64_round_Z (hi + delta) with Some h => (h =? hi + delta)%Z && exact_rightb f' (hi + delta) (2 * delta) | None => false end end.
Fixpoint exact_leftb (f : nat) (lo delta : Z) : bool :=
  match f with O => true | S f' =>
    match f64_round_Z (lo - delta) with Some h => (h =? lo - delta)%Z && exact_leftb f' (lo - delta) (2 * delta) | None => false end end.
Lemma exact_rightb_ok : forall f hi delta, exact_rightb f hi delta = true -> exact_right f hi delta.
Proof.
  induction f as [|f IH]; intros hi delta H; cbn [exact_right exact_rightb] in *; [exact I|].
  destruct (f64_round_Z (hi + delta)) as [h|]; [|discriminate]. apply andb_true_iff in H. destruct H as [H1 H2].
  apply Z.eqb_eq in H1. subst h. split; [reflexivity | apply IH; exact H2].
Qed.
Lemma exact_leftb_ok : forall f lo delta, exact_leftb f lo delta = true -> exact_left f lo delta.
Proof.
  induction f as [|f IH]; intros lo delta H; cbn [exact_left exact_leftb] in *; [exact I|].
  destruct (f64_round_Z (lo - delta)) as [h|]; [|discriminate]. apply andb_true_iff in H. destruct H as [H1 H2].
  apply Z.eqb_eq in H1. subst h. split; [reflexivity | apply IH; exact H2].
Qed.
Lemma exact_right_le : forall f' f hi delta, (f' <= f)%nat -> exact_right f hi delta -> exact_right f' hi delta.
Proof.
  induction f' as [|f' IH]; intros f hi delta Hle H; [exact I|].
  destruct f as [|f]; [lia|]. cbn [exact_right] in *. destruct H as [H1 H2]. split; [exact H1 | apply (IH f); [lia | exact H2]].
Qed.
Lemma exact_left_le : forall f' f lo delta, (f' <= f)%nat -> exact_left f lo delta -> exact_left f' lo delta.
Proof.
  induction f' as [|f' IH]; intros f lo delta Hle H; [exact I|].
  destruct f as [|f]; [lia|]. cbn [exact_left] in *. destruct H as [H1 H2]. split; [exact H1 | apply (IH f); [lia | exact H2]].
Qed.
Lemma exact_right_52 : exact_right 52 0 1.
Proof. apply exact_rightb_ok. vm_compute. reflexivity. Qed.
Lemma exact_left_52 : exact_left 52 0 1.
Proof. apply exact_leftb_ok. vm_compute. reflexivity. Qed.

Notation bst := (Q * Q * Q * Q * Q)%type (only parsing).   (* loX, loY, hiX, hiY, xdelta *)

Section Bracket.
  Variable cdff : Q -> Q.
  Variables (infv y : Q).
  Hypothesis cdf_comp : forall a b, a == b -> cdff a == cdff b.
  Hypothesis inf_ok : forall z : Z, ~ inject_Z z == infv /\ ~ inject_Z z == - infv.

  Section Right.
    Variable cond : bst -> bool.
    Variable body : bst -> bst.
    Hypothesis cond_ok : forall lx ly hx hy xd, cond (lx, ly, hx, hy, xd) = Qltb hy y && negb (Qeqb hx infv).
    Hypothesis body_ok : forall lx ly hx hy xd, body (lx, ly, hx, hy, xd) = (hx, hy, hx + xd, cdff (hx + xd), xd * (2 # 1)).

    Lemma right_tie : forall f hi delta lo hi', exact_right f hi delta ->
      expand_right cdff f y hi delta = BFound lo hi' ->
      forall lx ly hx hy xd, hx == inject_Z hi -> hy == cdff (inject_Z hi) -> xd == inject_Z delta ->
      Qltb (cdff (inject_Z hi)) y = true ->
      forall Fu, (f < Fu)%nat ->
      exists lx' ly' hx' hy' xd', go_while Fu cond body (lx, ly, hx, hy, xd) = Some (lx', ly', hx', hy', xd') /\
        lx' == inject_Z lo /\ hx' == inject_Z hi'.
    Proof.
      induction f as [|f IH]; intros hi delta lo hi' Hex H lx ly hx hy xd Hhx Hhy Hxd Hlt Fu HFu; cbn [expand_right] in H; [discriminate|].
      cbn [exact_right] in Hex. destruct Hex as [Hr Hex]. rewrite Hr in H.
      destruct Fu as [|Fu]; [lia|]. rewrite go_while_S, cond_ok.
      rewrite (Qltb_comp hy (cdff (inject_Z hi)) y y Hhy (Qeq_refl y)), Hlt.
      replace (Qeqb hx infv) with false
        by (symmetry; apply Qeqb_niff; intros E; apply (proj1 (inf_ok hi)); rewrite <- Hhx; exact E).
      cbn [andb negb]. rewrite body_ok.
      assert (Hs : hx + xd == inject_Z (hi + delta)) by (rewrite inject_Z_plus, Hhx, Hxd; reflexivity).
      assert (Hd : xd * (2 # 1) == inject_Z (2 * delta)) by (rewrite inject_Z_mult, Hxd; change (inject_Z 2) with (2 # 1); ring).
      destruct (Qltb (cdff (inject_Z (hi + delta))) y) eqn:El.
      - apply (IH (hi + delta)%Z (2 * delta)%Z lo hi' Hex H); try assumption; [apply cdf_comp; exact Hs | lia].
      - injection H as <- <-. destruct Fu as [|Fu]; [lia|]. rewrite go_while_S, cond_ok.
        rewrite (Qltb_comp (cdff (hx + xd)) (cdff (inject_Z (hi + delta))) y y (cdf_comp _ _ Hs) (Qeq_refl y)), El.
        cbn [andb]. do 5 eexists. split; [reflexivity|]. split; assumption.
    Qed.
  End Right.

  Section Left.
    Variable cond : bst -> bool.
    Variable body : bst -> bst.
    Hypothesis cond_ok : forall lx ly hx hy xd, cond (lx, ly, hx, hy, xd) = Qleb y ly && negb (Qeqb lx (- infv)).
    Hypothesis body_ok : forall lx ly hx hy xd, body (lx, ly, hx, hy, xd) = (lx - xd, cdff (lx - xd), lx, ly, xd * (2 # 1)).

    Lemma left_tie : forall f lo delta lo' hi, exact_left f lo delta ->
      expand_left cdff f y lo delta = BFound lo' hi ->
      forall lx ly hx hy xd, lx == inject_Z lo -> ly == cdff (inject_Z lo) -> xd == inject_Z delta ->
      Qleb y (cdff (inject_Z lo)) = true ->
      forall Fu, (f < Fu)%nat ->
      exists lx' ly' hx' hy' xd', go_while Fu cond body (lx, ly, hx, hy, xd) = Some (lx', ly', hx', hy', xd') /\
        lx' == inject_Z lo' /\ hx' == inject_Z hi.
    Proof.
      induction f as [|f IH]; intros lo delta lo' hi Hex H lx ly hx hy xd Hlx Hly Hxd Hle Fu HFu; cbn [expand_left] in H; [discriminate|].
      cbn [exact_left] in Hex. destruct Hex as [Hr Hex]. rewrite Hr in H.
      destruct Fu as [|Fu]; [lia|]. rewrite go_while_S, cond_ok.
      rewrite (Qleb_comp y y ly (cdff (inject_Z lo)) (Qeq_refl y) Hly), Hle.
      replace (Qeqb lx (- infv)) with false
        by (symmetry; apply Qeqb_niff; intros E; apply (proj2 (inf_ok lo)); rewrite <- Hlx; exact E).
      cbn [andb negb]. rewrite body_ok.
      assert (Hs : lx - xd == inject_Z (lo - delta)) by (unfold Z.sub; rewrite inject_Z_plus, inject_Z_opp, Hlx, Hxd; reflexivity).
      assert (Hd : xd * (2 # 1) == inject_Z (2 * delta)) by (rewrite inject_Z_mult, Hxd; change (inject_Z 2) with (2 # 1); ring).
      change (Qle_bool y (cdff (inject_Z (lo - delta)))) with (Qleb y (cdff (inject_Z (lo - delta)))) in H.
      destruct (Qleb y (cdff (inject_Z (lo - delta)))) eqn:El.
      - apply (IH (lo - delta)%Z (2 * delta)%Z lo' hi Hex H); try assumption; [apply cdf_comp; exact Hs | lia].
      - injection H as <- <-. destruct Fu as [|Fu]; [lia|]. rewrite go_while_S, cond_ok.
        rewrite (Qleb_comp y y (cdff (lx - xd)) (cdff (inject_Z (lo - delta))) (Qeq_refl y) (cdf_comp _ _ Hs)), El.
        cbn [andb]. do 5 eexists. split; [reflexivity|]. split; assumption.
    Qed.
  End Left.
End Bracket.

Ltac bool_cases :=
  intros; cbv beta iota zeta;
  repeat match goal with
         | |- context [Qltb ?a ?b] => destruct (Qltb a b)
         | |- context [Qleb ?a ?b] => destruct (Qleb a b)
         | |- context [Qeqb ?a ?b] => destruct (Qeqb a b)
         end; reflexivity.
Ltac loop_eq := first [intros; reflexivity | bool_cases].

Lemma let_pair_snd (p : Q * Q) : (let '(_, t) := p in Some t) = Some (snd p).
Proof. destruct p; reflexivity. Qed.

Theorem tie_InvCDF_method : forall bisectf boundsf cdff infv invcdfm nanv fuel y,
  gen_InvCDF bisectf boundsf cdff true infv invcdfm nanv fuel y = Some (invcdfm y).
Proof. reflexivity. Qed.

Theorem tie_InvCDF_special : forall bisectf (bl bh : Q) cdff infv invcdfm nanv fuel y r,
  inv_special cdff bl bh y = Some r ->
  gen_InvCDF bisectf (bl, bh) cdff false infv invcdfm nanv fuel y = Some (encx nanv infv r).
Proof.
  intros bisectf bl bh cdff infv invcdfm nanv fuel y r H. unfold inv_special in H. unfold gen_InvCDF. cbv zeta.
  change (Qeq_bool y 0) with (Qeqb y (0 # 1)) in H. change (Qeq_bool y 1) with (Qeqb y (1 # 1)) in H.
  change (Qltb y 0) with (Qltb y (0 # 1)) in H. change (Qltb 1 y) with (Qltb (1 # 1) y) in H.
  change (Qeq_bool (cdff bl) 0) with (Qeqb (cdff bl) (0 # 1)) in H. change (Qeq_bool (cdff bh) 1) with (Qeqb (cdff bh) (1 # 1)) in H.
  destruct (Qltb y (0 # 1)); destruct (Qltb (1 # 1) y); cbn [orb] in *; try (injection H as <-; reflexivity).
  destruct (Qeqb y (0 # 1)).
  - injection H as <-. destruct (Qeqb (cdff bl) (0 # 1)); reflexivity.
  - destruct (Qeqb y (1 # 1)); [|discriminate].
    injection H as <-. destruct (Qeqb (cdff bh) (1 # 1)); reflexivity.
Qed.

Theorem tie_InvCDF_bracket : forall bisectf (bl bh : Q) cdff infv invcdfm nanv (f Fu : nat) y lo hi,
  (forall a b, a == b -> cdff a == cdff b) ->
  (forall z : Z, ~ inject_Z z == infv /\ ~ inject_Z z == - infv) ->
  inv_special cdff bl bh y = None ->
  (f <= 52)%nat -> bracket cdff f y = BFound lo hi -> (f < Fu)%nat ->
  exists (g : Q -> bool) (lo' hi' : Q), (forall x, g x = Qltb (cdff x) y) /\ lo' == inject_Z lo /\ hi' == inject_Z hi /\
    gen_InvCDF bisectf (bl, bh) cdff false infv invcdfm nanv Fu y = Some (snd (bisectf g lo' hi' (0 # 1))).
Proof.
  intros bisectf bl bh cdff infv invcdfm nanv f Fu y lo hi Hcomp Hinf Hsp Hf Hbr HFu.
  unfold inv_special in Hsp. unfold gen_InvCDF. cbv zeta.
  change (Qeq_bool y 0) with (Qeqb y (0 # 1)) in Hsp. change (Qeq_bool y 1) with (Qeqb y (1 # 1)) in Hsp.
  change (Qltb y 0) with (Qltb y (0 # 1)) in Hsp. change (Qltb 1 y) with (Qltb (1 # 1) y) in Hsp.
  destruct (Qltb y (0 # 1)); destruct (Qltb (1 # 1) y); cbn [orb] in *; try discriminate.
  destruct (Qeqb y (0 # 1)); [discriminate|]. destruct (Qeqb y (1 # 1)); [discriminate|].
  unfold bracket, goes_right in Hbr. change (cdff 0) with (cdff (0 # 1)) in Hbr.
  destruct (Qltb (cdff (0 # 1)) y) eqn:Eg.
  - (* to the right *)
    match goal with |- context [go_while Fu ?c ?b ?s] =>
      destruct (right_tie cdff infv y Hcomp Hinf c b ltac:(loop_eq) ltac:(loop_eq)
                  f 0%Z 1%Z lo hi (exact_right_le f 52 0 1 Hf exact_right_52) Hbr
                  (0 # 1) (0 # 1) (0 # 1) (cdff (0 # 1)) (1 # 1) ltac:(reflexivity) ltac:(reflexivity) ltac:(reflexivity) Eg Fu HFu)
        as (lx' & ly' & hx' & hy' & xd' & -> & Hl & Hh)
    end.
    replace (Qeqb lx' (- infv)) with false by (symmetry; apply Qeqb_niff; intros E; apply (proj2 (Hinf lo)); rewrite <- Hl; exact E).
    replace (Qeqb hx' infv) with false by (symmetry; apply Qeqb_niff; intros E; apply (proj1 (Hinf hi)); rewrite <- Hh; exact E).
    eexists; exists lx', hx'. split; [|split; [exact Hl | split; [exact Hh|]]].
    2: apply let_pair_snd.
    intros x; reflexivity.
  - (* to the left *)
    assert (Eg' : Qleb y (cdff (inject_Z 0)) = true)
      by (apply Qleb_iff; apply Qltb_niff in Eg; exact Eg).
    match goal with |- context [go_while Fu ?c ?b ?s] =>
      destruct (left_tie cdff infv y Hcomp Hinf c b ltac:(loop_eq) ltac:(loop_eq)
                  f 0%Z 1%Z lo hi (exact_left_le f 52 0 1 Hf exact_left_52) Hbr
                  (0 # 1) (cdff (0 # 1)) (0 # 1) (0 # 1) (1 # 1) ltac:(reflexivity) ltac:(reflexivity) ltac:(reflexivity) Eg' Fu HFu)
        as (lx' & ly' & hx' & hy' & xd' & -> & Hl & Hh)
    end.
    replace (Qeqb lx' (- infv)) with false by (symmetry; apply Qeqb_niff; intros E; apply (proj2 (Hinf lo)); rewrite <- Hl; exact E).
    replace (Qeqb hx' infv) with false by (symmetry; apply Qeqb_niff; intros E; apply (proj1 (Hinf hi)); rewrite <- Hh; exact E).
    eexists; exists lx', hx'. split; [|split; [exact Hl | split; [exact Hh|]]].
    2: apply let_pair_snd.
    intros x; reflexivity.
Qed.


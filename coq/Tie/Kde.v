(* Tie/Kde.v — T-tie for the Epanechnikov kernel of stats/kde.go (pdfEach, cdfEach),
   property C12: the loops generated from the current Go source compute, element by element,
   the kernel formulas of Model/Kde.v (epan_pdf, epan_cdf).  Compiled by bin/ttie. *)
From Coq Require Import ZArith NArith QArith Qround Qabs List Lia Lqa.
From MM Require Import Base.Num Base.GoSem Model.Kde.
From MMGen Require Import Gen_stats_types Gen_stats_kde.
Import ListNotations.
Local Open Scope Q_scope.

Theorem tie_epan_pdfEach : forall (d : epanechnikovKernel_rec) (xs : list Q),
  Forall2 (fun x y => y == epan_pdf (epanechnikovKernel_h d) x) xs (gen_epanechnikovKernel_pdfEach d xs).
Proof.
  intros [h] xs. unfold gen_epanechnikovKernel_pdfEach. cbn [epanechnikovKernel_h]. cbv zeta.
  apply fold_enum_map. intros ys i x Hi Hd. unfold epan_pdf.
  upd_step (0 # 1) Hi Hd; tie_q.
Qed.

Theorem tie_epan_cdfEach : forall (d : epanechnikovKernel_rec) (xs : list Q),
  Forall2 (fun x y => y == epan_cdf (epanechnikovKernel_h d) x) xs (gen_epanechnikovKernel_cdfEach d xs).
Proof.
  intros [h] xs. unfold gen_epanechnikovKernel_cdfEach. cbn [epanechnikovKernel_h]. cbv zeta.
  apply fold_enum_map. intros ys i x Hi Hd. unfold epan_cdf.
  upd_step (0 # 1) Hi Hd; tie_q.
Qed.

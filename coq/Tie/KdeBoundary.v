(* Tie/KdeBoundary.v — T-tie for C12: stats/kde.go KDE.PDF, KDE.CDF (the boundary logic: the guards
   x < BoundaryMin / x >= BoundaryMax, the single reflection images, the two image series of the
   doubly bounded case) and KDE.normalizedXs, with the closure y = Sum()/Weight() of the kernel
   values, against Model/Kde.v (mix, reflect_pdf, reflect_cdf, pdf_upper/pdf_lower, cdf_upper/
   cdf_lower, series_q), the objects of the C12 theorems.

   Opaque: KDE.prepare (prepf, read-only directive: it returns the kernel — an interface value,
   not represented: its methods pdfEach / cdfEach are the opaque pdfEachf / cdfEachf, assumed
   pointwise, "for every kernel function g" — and the flag bc), series (seriesf: for every
   seriesf that returns what the model's series_q returns when that has enough fuel), math.IsInf
   (isinff: in the exact reading of float64 an infinite bound is told by this oracle only).
   The Epanechnikov kernel functions themselves are tied in Tie/Kde.v. *)
From Coq Require Import ZArith NArith QArith Qround Qabs List Bool Lia Lqa.
From MM Require Import Base.Num Base.GoSem Model.Sample Model.Kde.
From MMGen Require Import Gen_stats_types Gen_vec_vec Gen_stats_sample Gen_stats_kde Tie_Vec.
Import ListNotations.
Local Open Scope Q_scope.

Ltac kproj := cbn [KDE_Sample KDE_Kernel KDE_Bandwidth KDE_BoundaryMethod KDE_BoundaryMin KDE_BoundaryMax
                   Sample_Xs Sample_Weights Sample_Sorted] in *.

(* ---------- normalizedXs (kde.go:173-179) ---------- *)
Lemma Forall2_eq_map {A B} (f : A -> B) l l' : Forall2 (fun a b => b = f a) l l' -> l' = map f l.
Proof. induction 1; simpl; congruence. Qed.

Theorem tie_KDE_normalizedXs : forall (kde : KDE_rec) (x : Q),
  gen_KDE_normalizedXs kde x = map (fun xi => x - xi) (Sample_Xs (KDE_Sample kde)).
Proof.
  intros kde x. unfold gen_KDE_normalizedXs. cbv zeta. apply Forall2_eq_map.
  apply (fold_enum_map (0 # 1) (fun xi v => v = x - xi)).
  intros ys i xi Hi Hd. cbv beta iota. eexists; split; reflexivity.
Qed.

(* ---------- the closure y: Sum()/Weight() of the kernel values (kde.go:189-197, 235-243) ---------- *)
Definition genY (eachf : list Q -> list Q) (kde : KDE_rec) : Q -> Q :=
  fun x => let wys := mk_Sample (eachf (gen_KDE_normalizedXs kde x)) (Sample_Weights (KDE_Sample kde)) false in
           gen_Sample_Sum wys / gen_Sample_Weight wys.

Definition wopt (ws : list Q) : option (list Q) := if go_isnil ws then None else Some ws.

Lemma wsum_fold (g : Q -> Q) (x : Q) (step : Q -> Z * Q -> Q) (ws : list Q) :
  (forall a i y, step a (i, y) = a + y * go_idx (0 # 1) ws i) ->
  forall xs pre rest a a', ws = pre ++ rest -> length rest = length xs -> a == a' ->
  fold_left step (enum_from (Z.of_nat (length pre)) (map (fun xi => g (x - xi)) xs)) a ==
  fold_left (fun a p => Qred (a + g (x - fst p) * snd p)) (combine xs rest) a'.
Proof.
  intros Hs. induction xs as [|xi xs IH]; intros pre rest a a' Hw Hl Ha; destruct rest as [|w rest]; simpl in Hl; try discriminate.
  - exact Ha.
  - cbn [map enum_from fold_left combine fst snd]. rewrite Hs.
    assert (Ew : go_idx (0 # 1) ws (Z.of_nat (length pre)) = w).
    { rewrite Hw. unfold go_idx. rewrite Nat2Z.id. apply nth_middle. }
    rewrite Ew. replace (Z.of_nat (length pre) + 1)%Z with (Z.of_nat (length (pre ++ [w]))) by (rewrite app_length; simpl; lia).
    apply IH; [rewrite <- app_assoc; exact Hw | lia | rewrite Qred_correct, Ha; reflexivity].
Qed.

Theorem tie_KDE_y : forall (eachf : list Q -> list Q) (g : Q -> Q) (kde : KDE_rec) (x : Q),
  (forall l, eachf l = map g l) ->
  let xs := Sample_Xs (KDE_Sample kde) in let ws := Sample_Weights (KDE_Sample kde) in
  (ws = [] \/ length ws = length xs) ->
  genY eachf kde x == mix g xs (wopt ws) x.
Proof.
  intros eachf g kde x He xs ws Hv. unfold genY, mix. cbv zeta. rewrite Qred_correct.
  rewrite tie_KDE_normalizedXs, He, map_map. fold xs ws.
  unfold gen_Sample_Sum, gen_Sample_Weight, mix_sum, mix_weight, wopt. kproj. cbv zeta.
  destruct ws as [|w0 wt] eqn:Ew; cbn [go_isnil].
  - apply Qdiv_comp.
    + rewrite tie_vec_Sum. unfold vsum.
      assert (G : forall l a, fold_left (fun a0 x0 => Qred (a0 + x0)) (map (fun xi => g (x - xi)) l) a =
                              fold_left (fun a0 xi => Qred (a0 + g (x - xi))) l a).
      { induction l as [|xi l IH]; intros a; cbn [map fold_left]; [reflexivity | apply IH]. }
      rewrite G. reflexivity.
    + unfold go_i2f, go_len, Qofnat. rewrite map_length. reflexivity.
  - destruct Hv as [Hv|Hv]; [discriminate|]. apply Qdiv_comp.
    + apply (wsum_fold g x _ (w0 :: wt) (fun a i y => eq_refl) xs [] (w0 :: wt) 0 0 eq_refl Hv). reflexivity.
    + rewrite tie_vec_Sum. reflexivity.
Qed.

(* ---------- PDF / CDF: guards, reflection images, image series (kde.go:181-267) ---------- *)
(* seriesf returns what the model's series returns, when that has enough fuel *)
Definition series_ok (seriesf : (Q -> Q) -> Q) (fuel : nat) : Prop :=
  forall (f : Q -> Q) a, series_q (fun n => f (Qofnat n)) 0 fuel 0 = Some a -> seriesf f == a.

Definition opt_rel (g : Q) (o : option Q) : Prop := match o with Some v => g == v | None => True end.

Lemma series_two (seriesf : (Q -> Q) -> Q) fuel (fu fl : Q -> Q) : series_ok seriesf fuel ->
  opt_rel (seriesf fu + seriesf fl) (two_series fuel (fun n => fu (Qofnat n)) (fun n => fl (Qofnat n))).
Proof.
  intros Hs. unfold two_series.
  destruct (series_q (fun n => fu (Qofnat n)) 0 fuel 0) as [a|] eqn:Ea; [|exact I].
  destruct (series_q (fun n => fl (Qofnat n)) 0 fuel 0) as [b|] eqn:Eb; [|exact I].
  cbn [opt_rel]. rewrite Qred_correct, (Hs fu a Ea), (Hs fl b Eb). reflexivity.
Qed.

(* case analysis on the two boundary guards, whatever way the source nests them *)
Ltac bcase x m M :=
  let E1 := fresh "E" in let E2 := fresh "E" in
  destruct (Qltb x m) eqn:E1; destruct (Qleb M x) eqn:E2;
  cbn [andb orb negb opt_rel]; try reflexivity;
  try (exfalso;
       first [apply Qltb_iff in E1 | apply Qltb_niff in E1];
       first [apply Qleb_iff in E2 | apply Qleb_niff in E2]; lra).

Theorem tie_KDE_PDF : forall (isinff : Q -> Z -> bool) (panicv : Q) (pdfEachf : list Q -> list Q) (prepf : KDE_rec -> bool)
    (seriesf : (Q -> Q) -> Q) (kde : KDE_rec) (x : Q) (fuel : nat),
  KDE_BoundaryMethod kde = 0%Z -> series_ok seriesf fuel ->
  let Y := genY pdfEachf kde in let m := KDE_BoundaryMin kde in let M := KDE_BoundaryMax kde in
  let g := gen_KDE_PDF isinff panicv pdfEachf prepf seriesf kde x in
  (prepf kde = false -> opt_rel g (reflect_pdf Y fuel BNone x)) /\
  (prepf kde = true -> isinff M 1%Z = true -> x < M -> opt_rel g (reflect_pdf Y fuel (BLower m) x)) /\
  (prepf kde = true -> isinff M 1%Z = false -> isinff m (-1)%Z = true -> m <= x -> opt_rel g (reflect_pdf Y fuel (BUpper M) x)) /\
  (prepf kde = true -> isinff M 1%Z = false -> isinff m (-1)%Z = false -> opt_rel g (reflect_pdf Y fuel (BBoth m M) x)).
Proof.
  intros isinff panicv pdfEachf prepf seriesf kde x fuel Hmeth Hser Y m M g.
  unfold g, gen_KDE_PDF. cbv zeta. rewrite Hmeth. cbn [Z.eqb]. fold (genY pdfEachf kde). fold Y. fold m. fold M.
  repeat split; intros; repeat match goal with H : _ = true |- _ => rewrite H | H : _ = false |- _ => rewrite H end;
    unfold reflect_pdf; change (Qle_bool M x) with (Qleb M x); bcase x m M.
  apply (series_two seriesf fuel
           (fun n => Y (x + n * ((2 # 1) * (M - m))) + Y (x + n * ((2 # 1) * (M - m)) - (2 # 1) * (x - m)))
           (fun n => Y (x - (n + (1 # 1)) * ((2 # 1) * (M - m)) - (2 # 1) * (x - m)) + Y (x - (n + (1 # 1)) * ((2 # 1) * (M - m))))
           Hser).
Qed.

Theorem tie_KDE_CDF : forall (cdfEachf : list Q -> list Q) (isinff : Q -> Z -> bool) (panicv : Q) (prepf : KDE_rec -> bool)
    (seriesf : (Q -> Q) -> Q) (kde : KDE_rec) (x : Q) (fuel : nat),
  KDE_BoundaryMethod kde = 0%Z -> series_ok seriesf fuel ->
  let Y := genY cdfEachf kde in let m := KDE_BoundaryMin kde in let M := KDE_BoundaryMax kde in
  let g := gen_KDE_CDF cdfEachf isinff panicv prepf seriesf kde x in
  (prepf kde = false -> opt_rel g (reflect_cdf Y fuel BNone x)) /\
  (prepf kde = true -> isinff M 1%Z = true -> x < M -> opt_rel g (reflect_cdf Y fuel (BLower m) x)) /\
  (prepf kde = true -> isinff M 1%Z = false -> isinff m (-1)%Z = true -> m <= x -> opt_rel g (reflect_cdf Y fuel (BUpper M) x)) /\
  (prepf kde = true -> isinff M 1%Z = false -> isinff m (-1)%Z = false -> opt_rel g (reflect_cdf Y fuel (BBoth m M) x)).
Proof.
  intros cdfEachf isinff panicv prepf seriesf kde x fuel Hmeth Hser Y m M g.
  unfold g, gen_KDE_CDF. cbv zeta. rewrite Hmeth. cbn [Z.eqb]. fold (genY cdfEachf kde). fold Y. fold m. fold M.
  repeat split; intros; repeat match goal with H : _ = true |- _ => rewrite H | H : _ = false |- _ => rewrite H end;
    unfold reflect_cdf; change (Qle_bool M x) with (Qleb M x); bcase x m M.
  apply (series_two seriesf fuel
           (fun n => Y (x + n * ((2 # 1) * (M - m))) - Y (x + n * ((2 # 1) * (M - m)) - (2 # 1) * (x - m)))
           (fun n => Y (x - (n + (1 # 1)) * ((2 # 1) * (M - m))) - Y (x - (n + (1 # 1)) * ((2 # 1) * (M - m)) - (2 # 1) * (x - m)))
           Hser).
Qed.

(* non-vacuity: a series function satisfying series_ok (the model's own series, evaluated with the fuel) *)
Definition series_example (fuel : nat) (f : Q -> Q) : Q :=
  match series_q (fun n => f (Qofnat n)) 0 fuel 0 with Some a => a | None => 0 end.
Example series_ok_example fuel : series_ok (series_example fuel) fuel.
Proof. intros f a H. unfold series_example. rewrite H. reflexivity. Qed.

(* ---------- bandwidth rules (kde.go:64-94) ---------- *)
(* math.Pow is opaque; the model carries the 10th power of the bandwidth (no fifth roots): for
   every powf whose value p = powf w (-1/5) satisfies p^5 * w == 1, and every StdDev() whose
   square is the variance v, the 10th power of the generated value is the model's bw10. *)
Theorem tie_BandwidthSilverman : forall (powf : Q -> Q -> Q) (sd w v : Q),
  ~ w == 0 -> sd * sd == v -> qpow (powf w ((-1) # 5)) 5 * w == 1 ->
  qpow (gen_BandwidthSilverman powf sd w) 10 == bw10 v w.
Proof.
  intros powf sd w v Hw Hsd Hp. unfold gen_BandwidthSilverman, bw10, c106.
  set (p := powf w ((-1) # 5)) in *. cbn [qpow] in *.
  assert (Hp2 : p * p * p * p * p * p * p * p * p * p * (w * w) == 1).
  { transitivity ((p * (p * (p * (p * (p * 1)))) * w) * (p * (p * (p * (p * (p * 1)))) * w)); [ring | rewrite Hp; ring]. }
  rewrite <- Hsd. field_simplify_eq; [|exact Hw].
  transitivity ((53 # 50) * (53 # 50) * (53 # 50) * (53 # 50) * (53 # 50) * (53 # 50) * (53 # 50) * (53 # 50) * (53 # 50) * (53 # 50) *
                (sd * sd * sd * sd * sd * sd * sd * sd * sd * sd) * (p * p * p * p * p * p * p * p * p * p * (w * w))); [ring|].
  rewrite Hp2. ring.
Qed.

Lemma qpow_comp a b n : a == b -> qpow a n == qpow b n.
Proof. intros H. induction n as [|n IH]; cbn [qpow]; [reflexivity | apply Qmult_comp; assumption]. Qed.

(* Scott's rule: the same with min(StdDev, IQR/1.349); the model compares the squares *)
Theorem tie_BandwidthScott : forall (powf : Q -> Q -> Q) (quantilef : Q -> Q) (sd w v : Q),
  ~ w == 0 -> 0 <= sd -> sd * sd == v -> qpow (powf w ((-1) # 5)) 5 * w == 1 ->
  let r := (quantilef (3 # 4) - quantilef (1 # 4)) / c1349 in
  0 <= r ->
  qpow (gen_BandwidthScott powf quantilef sd w) 10 == (if Qltb v (r * r) then bw10 v w else bw10 (r * r) w).
Proof.
  intros powf quantilef sd w v Hw Hsd0 Hsd Hp r Hr0. unfold gen_BandwidthScott. cbv zeta.
  change ((quantilef (3 # 4) - quantilef (1 # 4)) / (1349 # 1000)) with r.
  assert (Hcmp : Qltb sd r = Qltb v (r * r)).
  { destruct (Qltb sd r) eqn:E1; destruct (Qltb v (r * r)) eqn:E2; try reflexivity; exfalso;
      [apply Qltb_iff in E1; apply Qltb_niff in E2 | apply Qltb_niff in E1; apply Qltb_iff in E2]; rewrite <- Hsd in E2; nra. }
  rewrite Hcmp. destruct (Qltb v (r * r)).
  - rewrite <- (tie_BandwidthSilverman powf sd w v Hw Hsd Hp). apply qpow_comp. unfold gen_BandwidthSilverman. ring.
  - rewrite <- (tie_BandwidthSilverman powf r w (r * r) Hw (Qeq_refl _) Hp). apply qpow_comp. unfold gen_BandwidthSilverman. ring.
Qed.

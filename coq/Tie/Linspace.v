(* Tie/Linspace.v — T-tie for vec/vec.go Linspace (property C09; Linspace is also a callee of the
   tick code of scale/linear.go, property C17: Tie/TicksLinear.v imports this file).
   Compiled by bin/ttie. *)
From Coq Require Import ZArith NArith QArith Qround Qabs List Lia Lqa.
From MM Require Import Base.Num Base.GoSem Model.Sample.
From MMGen Require Import Gen_vec_vec.
Import ListNotations.
Local Open Scope Q_scope.

(* ---------- vec.Linspace ---------- *)
Lemma go_range_0_seq n : go_range 0 (Z.of_nat n) = map Z.of_nat (seq 0 n).
Proof.
  unfold go_range. rewrite Z.sub_0_r, Nat2Z.id. apply map_ext. intros k. lia.
Qed.

Lemma Forall2_map_flip {A} (P : Z -> Q -> Prop) (g : A -> Z) (f : A -> Q) :
  (forall a y, P (g a) y -> y == f a) ->
  forall l ys, Forall2 P (map g l) ys -> Forall2 Qeq ys (map f l).
Proof.
  intros H. induction l as [|a l IH]; intros ys F; simpl in *; inversion F; subst; constructor.
  - apply H. assumption.
  - apply IH. assumption.
Qed.

Theorem tie_vec_Linspace : forall (lo hi : Q) (num : nat), len_ok (seq 0 num) ->
  Forall2 Qeq (gen_Linspace lo hi (Z.of_nat num)) (linspace lo hi num).
Proof.
  intros lo hi num Hl. unfold len_ok in Hl. rewrite seq_length in Hl.
  destruct num as [|[|n]].
  - constructor.
  - repeat constructor.
  - unfold gen_Linspace, linspace. cbv zeta.
    destruct (Z.eqb_spec (Z.of_nat (S (S n))) 1) as [E|_]; [lia|].
    apply (Forall2_map_flip (fun i v => v == lo + inject_Z i * (hi - lo) / inject_Z (Z.of_nat (S (S n)) - 1)) Z.of_nat).
    + intros a y H. rewrite Qred_correct, H. unfold Qofnat.
      replace (Z.of_nat (S (S n) - 1)) with (Z.of_nat (S (S n)) - 1)%Z by lia. reflexivity.
    + rewrite <- go_range_0_seq. apply fold_range_fill. intros ys i Hi.
      cbv beta zeta. eexists; split; [reflexivity|].
      unfold go_i2f, go_ssub. rewrite wrap_s64_small by lia. reflexivity.
Qed.

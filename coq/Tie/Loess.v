(* Tie/Loess.v — T-tie for C15: fit/loess.go LOESS (window size, conditional copy-and-sort, the
   closure: window search, farthest distance, tricube weights, local regression) against
   Model/Fit.v (loess_q, loess_prepare, window_start / window_pred, loess_design, tricube), the
   objects of the C15 LOESS theorems.

   Opaque: sort.Float64sAreSorted (sortedf = the model's sortedb), sort.Sort on the pairSlice
   (pairsortf = the model's sort_pairs), sort.Search (searchf = the model's search: binary search
   for every predicate), PolynomialRegression (regf) and the call of its result's F field (evalf):
   the closure returns evalf (regf window-xs window-ys tricube-weights degree) x, for EVERY regf /
   evalf.  LinearLeastSquares / PolynomialRegression themselves (gonum matrices, variadic slices of
   closures) are outside the translator's subset and stay with the correspondence check. *)
From Coq Require Import ZArith NArith QArith Qround Qabs List Bool Lia Lqa.
From MM Require Import Base.Num Base.GoSem Model.Fit.
From MMGen Require Import Gen_fit_types Gen_fit_loess.
Import ListNotations.
Local Open Scope Q_scope.

Definition sorted_ok (sortedf : list Q -> bool) : Prop := forall l, sortedf l = sortedb l.
Definition pairsort_ok (pairsortf : pairSlice_rec -> pairSlice_rec) : Prop :=
  forall xs ys, pairSlice_xs (pairsortf (mk_pairSlice xs ys)) = map fst (sort_pairs (combine xs ys)) /\
                pairSlice_ys (pairsortf (mk_pairSlice xs ys)) = map snd (sort_pairs (combine xs ys)).
Definition search_ok (searchf : Z -> (Z -> bool) -> Z) : Prop :=
  forall (n : nat) (f : Z -> bool), searchf (Z.of_nat n) f = Z.of_nat (search n (fun i => f (Z.of_nat i))).

(* ---------- q = min(n, ceil(span n)) ---------- *)
Lemma ceilQ_ceiling q : ceilQ q = Qceiling q.
Proof. destruct q as [n d]. reflexivity. Qed.

(* ---------- binary search depends on the predicate only below n, and stays within [i, j] ---------- *)
Lemma bsearch_ext (f g : nat -> bool) : forall fuel i j n, (j <= n)%nat -> (forall k, (k < n)%nat -> f k = g k) ->
  bsearch fuel f i j = bsearch fuel g i j.
Proof.
  induction fuel as [|fu IH]; intros i j n Hj He; cbn [bsearch]; [reflexivity|].
  destruct (Nat.ltb_spec i j) as [Hij|]; [|reflexivity].
  assert (Hh : ((i + j) / 2 < j)%nat) by (apply Nat.div_lt_upper_bound; lia).
  rewrite (He ((i + j) / 2)%nat) by lia.
  destruct (g ((i + j) / 2)%nat); apply (IH _ _ n); try assumption; lia.
Qed.
Lemma bsearch_le (f : nat -> bool) : forall fuel i j, (i <= j)%nat -> (i <= bsearch fuel f i j <= j)%nat.
Proof.
  induction fuel as [|fu IH]; intros i j Hij; cbn [bsearch]; [lia|].
  destruct (Nat.ltb_spec i j) as [Hlt|]; [|lia].
  assert (Hh : (i <= (i + j) / 2 < j)%nat).
  { split; [apply Nat.div_le_lower_bound; lia | apply Nat.div_lt_upper_bound; lia]. }
  destruct (f ((i + j) / 2)%nat).
  - specialize (IH i ((i + j) / 2)%nat ltac:(lia)). lia.
  - specialize (IH (S ((i + j) / 2)) j ltac:(lia)). lia.
Qed.

Lemma Qleb_comp' a a' b b' : a == a' -> b == b' -> Qleb a b = Qle_bool a' b'.
Proof.
  intros Ha Hb. unfold Qleb. destruct (Qle_bool a b) eqn:E1; destruct (Qle_bool a' b') eqn:E2; try reflexivity;
    [apply Qleb_iff in E1; apply Qleb_niff in E2 | apply Qleb_niff in E1; apply Qleb_iff in E2]; exfalso; lra.
Qed.

Lemma nth_length_last (d : Q) : forall (t : list Q) (c : Q), nth (length t) (c :: t) d = last (c :: t) d.
Proof.
  induction t as [|a t IH]; intros c; [reflexivity|].
  change (nth (length (a :: t)) (c :: a :: t) d) with (nth (length t) (a :: t) d). rewrite IH. reflexivity.
Qed.

Lemma sort_pairs_length l : length (sort_pairs l) = length l.
Proof.
  induction l as [|p l IH]; [reflexivity|]. cbn [sort_pairs length]. rewrite <- IH.
  generalize (sort_pairs l) as s. induction s as [|h s IHs]; cbn [insert_pair length]; [reflexivity|].
  destruct (Qltb (fst p) (fst h)); cbn [length]; [reflexivity | rewrite IHs; reflexivity].
Qed.

Lemma Forall2_Qeq_map_r {A} (P : A -> Q -> Prop) (f : A -> Q) l W :
  (forall a v, P a v -> v == f a) -> Forall2 P l W -> Forall2 Qeq W (map f l).
Proof. intros H F. induction F; simpl; constructor; [apply H; assumption | assumption]. Qed.

Theorem tie_LOESS : forall (evalf : PolynomialRegressionResult_rec -> Q -> Q) (pairsortf : pairSlice_rec -> pairSlice_rec)
    (panicv : Q -> Q) (regf : list Q -> list Q -> list Q -> Z -> PolynomialRegressionResult_rec)
    (searchf : Z -> (Z -> bool) -> Z) (sortedf : list Q -> bool) (xs ys : list Q) (degree : Z) (span x : Q),
  sorted_ok sortedf -> pairsort_ok pairsortf -> search_ok searchf ->
  (0 <= degree)%Z -> 0 < span -> length xs = length ys -> (Z.of_nat (length xs) < 2 ^ 30)%Z ->
  let q := loess_q (length xs) span in
  let '(sx, sy) := loess_prepare xs ys in
  let n0 := window_start 0 sx q x in
  forall cx cy w, loess_design sx sy q n0 x = FOk (cx, cy, w) ->
  exists W, Forall2 Qeq W w /\
            gen_LOESS evalf pairsortf panicv regf searchf sortedf xs ys degree span x = evalf (regf cx cy W degree) x.
Proof.
  intros evalf pairsortf panicv regf searchf sortedf xs ys degree span x Hsd Hps Hse Hdeg Hspan Hlen Hb.
  unfold gen_LOESS, loess_prepare. cbv zeta.
  destruct (Z.ltb_spec degree 0) as [C|_]; [lia|].
  replace (Qleb span (0 # 1)) with false by (symmetry; apply Qleb_niff; exact Hspan).
  cbn [app]. rewrite Hsd.
  (* q *)
  set (n := length xs) in *. unfold go_len. fold n.
  assert (Hc : 0 <= span * go_i2f (Z.of_nat n)).
  { apply Qmult_le_0_compat; [lra|]. unfold go_i2f. change 0 with (inject_Z 0). rewrite <- Zle_Qle. lia. }
  set (cq := go_f2i (go_ceil (span * go_i2f (Z.of_nat n)))).
  assert (Ecq : cq = ceilQ (span * Qofnat n) /\ (0 <= cq)%Z).
  { unfold cq, go_ceil. rewrite go_f2i_inject. split; [symmetry; apply ceilQ_ceiling|].
    assert (H0 : (Qceiling 0 <= Qceiling (span * go_i2f (Z.of_nat n)))%Z) by (apply Qceiling_resp_le; exact Hc). exact H0. }
  destruct Ecq as [Ecq Hcq0].
  set (q := loess_q n span).
  match goal with |- context [if ?b then Z.of_nat n else cq] =>
    replace (if b then Z.of_nat n else cq) with (Z.of_nat q)
      by (unfold q, loess_q; cbv zeta; rewrite <- Ecq; zcases; lia)
  end.
  assert (Hqn : (q <= n)%nat).
  { unfold q, loess_q. cbv zeta. destruct (Z.leb_spec (Z.of_nat n) (ceilQ (span * Qofnat n))); lia. }
  (* the prepared data *)
  destruct (Hps xs ys) as [Epx Epy].
  assert (Eprep : (if negb (sortedb xs)
                   then (pairSlice_xs (pairsortf (mk_pairSlice xs ys)), pairSlice_ys (pairsortf (mk_pairSlice xs ys)))
                   else (xs, ys)) =
                  (if sortedb xs then (xs, ys)
                   else (map fst (sort_pairs (combine xs ys)), map snd (sort_pairs (combine xs ys))))).
  { destruct (sortedb xs); cbn [negb]; [reflexivity | rewrite Epx, Epy; reflexivity]. }
  rewrite Eprep. clear Eprep.
  set (prep := if sortedb xs then (xs, ys) else (map fst (sort_pairs (combine xs ys)), map snd (sort_pairs (combine xs ys)))).
  assert (Hpl : length (fst prep) = n /\ length (snd prep) = n).
  { unfold prep. destruct (sortedb xs); cbn [fst snd]; [split; [reflexivity | symmetry; exact Hlen]|].
    rewrite !map_length, sort_pairs_length, combine_length, <- Hlen. fold n. split; apply Nat.min_id. }
  destruct prep as [sx sy]. cbn [fst snd] in Hpl. destruct Hpl as [Hsx Hsy].
  intros cx cy w Hdes. rewrite Hsx.
  change (2 ^ 30)%Z with 1073741824%Z in Hb.
  (* the window start *)
  set (n0 := window_start 0 sx q x) in *.
  assert (En0 : (if (Z.of_nat q <? Z.of_nat n)%Z
                 then searchf (go_ssub 64 (Z.of_nat n) (Z.of_nat q))
                        (fun i : Z => Qleb (x * (2 # 1)) (go_idx (0 # 1) sx i + go_idx (0 # 1) sx (go_sadd 64 i (Z.of_nat q))))
                 else 0%Z) = Z.of_nat n0 /\ (n0 + q <= n)%nat).
  { unfold n0, window_start. rewrite Hsx.
    destruct (Nat.ltb_spec q n) as [Hlt|Hge].
    - replace (Z.of_nat q <? Z.of_nat n)%Z with true by (symmetry; apply Z.ltb_lt; lia).
      unfold go_ssub. rewrite wrap_s64_small by lia. replace (Z.of_nat n - Z.of_nat q)%Z with (Z.of_nat (n - q)) by lia.
      rewrite Hse. unfold search.
      match goal with |- context [bsearch (n - q) ?f0 0 (n - q)] =>
        assert (Hext : bsearch (n - q) f0 0 (n - q) = bsearch (n - q) (window_pred 0 sx q x) 0 (n - q)) end.
      { apply (bsearch_ext _ _ (n - q) 0 (n - q) (n - q)); [lia|]. intros k Hk. unfold window_pred.
        rewrite (nth_error_nth' sx (0 # 1)) by lia. rewrite (nth_error_nth' sx (0 # 1)) by lia.
        unfold go_idx, go_sadd. rewrite wrap_s64_small by lia.
        rewrite Nat2Z.id. replace (Z.to_nat (Z.of_nat k + Z.of_nat q)) with (k + q)%nat by lia.
        apply Qleb_comp'; [reflexivity | ring]. }
      rewrite Hext.
      split; [reflexivity|]. pose proof (bsearch_le (window_pred 0 sx q x) (n - q) 0 (n - q) ltac:(lia)). lia.
    - replace (Z.of_nat q <? Z.of_nat n)%Z with false by (symmetry; apply Z.ltb_ge; lia). split; [reflexivity | lia]. }
  destruct En0 as [En0 Hn0]. rewrite En0. clear En0.
  (* the window *)
  assert (Esl : forall l : list Q, go_slice l (Z.of_nat n0) (go_sadd 64 (Z.of_nat n0) (Z.of_nat q)) = firstn q (skipn n0 l)).
  { intros l. unfold go_slice, go_sadd. rewrite wrap_s64_small by lia. rewrite Nat2Z.id.
    replace (Z.to_nat (Z.of_nat n0 + Z.of_nat q - Z.of_nat n0)) with q by lia. reflexivity. }
  rewrite !Esl. unfold loess_design in Hdes. cbv zeta in Hdes.
  set (wx := firstn q (skipn n0 sx)) in *. set (wy := firstn q (skipn n0 sy)) in *.
  assert (Hwl : length wx = q) by (unfold wx; rewrite firstn_length, skipn_length; lia).
  destruct wx as [|c0 wt] eqn:Ewx; [discriminate|].
  assert (Elast : go_idx (0 # 1) (c0 :: wt) (go_ssub 64 (Z.of_nat q) 1) = last (c0 :: wt) 0).
  { unfold go_idx, go_ssub. rewrite wrap_s64_small by lia. rewrite <- Hwl.
    replace (Z.to_nat (Z.of_nat (length (c0 :: wt)) - 1)) with (length wt) by (cbn [length]; lia).
    apply nth_length_last. }
  rewrite Elast. change (go_idx (0 # 1) (c0 :: wt) 0) with c0.
  set (d := if Qltb (x - c0) (last (c0 :: wt) 0 - x) then last (c0 :: wt) 0 - x else x - c0) in *.
  destruct (Qeqb d 0) eqn:Ed; [discriminate|]. injection Hdes as <- <- <-.
  (* the tricube weights *)
  match goal with |- context [fold_left ?stp (go_enum (c0 :: wt)) (go_make (0 # 1) (Z.of_nat q))] =>
    pose proof (fold_enum_map (0 # 1) (fun c v => v == tricube x d c) stp
                  ltac:(intros ws i c Hi Hd0; cbv beta iota zeta; eexists; split; [reflexivity|];
                        unfold tricube, go_abs; cbv zeta; rewrite Qred_correct; ring) (c0 :: wt)) as HW;
    unfold go_len in HW; rewrite Hwl in HW;
    exists (fold_left stp (go_enum (c0 :: wt)) (go_make (0 # 1) (Z.of_nat q)))
  end.
  split; [|reflexivity].
  change (tricube x d c0 :: map (tricube x d) wt) with (map (tricube x d) (c0 :: wt)).
  apply (Forall2_Qeq_map_r (fun c v => v == tricube x d c) (tricube x d)); [intros a v H; exact H | exact HW].
Qed.

(* non-vacuity: the model's own sortedness test, pair sort and binary search satisfy the hypotheses *)
Example sorted_ok_example : sorted_ok sortedb.
Proof. intros l. reflexivity. Qed.
Example pairsort_ok_example :
  pairsort_ok (fun p => let s := sort_pairs (combine (pairSlice_xs p) (pairSlice_ys p)) in mk_pairSlice (map fst s) (map snd s)).
Proof. intros xs ys. split; reflexivity. Qed.
Example search_ok_example : search_ok (fun n f => Z.of_nat (search (Z.to_nat n) (fun i => f (Z.of_nat i)))).
Proof. intros n f. rewrite Nat2Z.id. reflexivity. Qed.

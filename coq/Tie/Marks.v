(* Tie/Marks.v — T-tie for graph/graphalg/marks.go (C18): Test, Mark, Unmark generated from the
   current source (word index i/32, bit 1<<uint(i%32), &, |=, &^= on uint32 words) agree with
   Model/Marks.v on the node ids 0 <= i < 2^62.  grow (round 3) is a "for k < n" doubling loop:
   gen_NodeMarks_grow and gen_NodeMarks_Mark take fuel (the number of bits of n, plus two, is
   enough) and are tied to m_grow / m_mark; Next (word scan with early return; the opaque
   bits.TrailingZeros32 is assumed to be the model's ctz on non-zero words) is tied to m_next.
   Compiled by bin/ttie. *)
From Coq Require Import ZArith NArith QArith List Lia Bool.
From MM Require Import Base.Num Base.GoSem Model.Marks Proofs.Marks.
From MMGen Require Import Gen_graphalg_types Gen_graphalg_marks.
Import ListNotations.
Local Open Scope Z_scope.

Definition id_ok (i : Z) : Prop := 0 <= i < 4611686018427387904.   (* 2^62 *)

Lemma quot32 i : id_ok i -> go_squot 64 i 32 = i / 32.
Proof.
  intros H. unfold go_squot. rewrite Z.quot_div_nonneg by (unfold id_ok in H; lia).
  apply wrap_s64_small. unfold id_ok in H.
  assert (0 <= i / 32 <= i) by (split; [apply Z.div_pos; lia | apply Z.div_le_upper_bound; lia]). lia.
Qed.

Lemma idx_nat i : id_ok i -> Z.to_nat (i / 32) = N.to_nat (Z.to_N i / 32).
Proof.
  intros H. unfold id_ok in H. rewrite <- Z_N_nat. f_equal.
  rewrite Z2N.inj_div by lia. reflexivity.
Qed.

Lemma bit32 i : id_ok i ->
  go_ushl 32 1 (go_i2u 64 (go_srem 64 i 32)) = N.shiftl 1 (Z.to_N i mod 32).
Proof.
  intros H. unfold id_ok in H. unfold go_ushl, go_i2u, go_srem.
  rewrite Z.rem_mod_nonneg by lia.
  assert (Hm : 0 <= i mod 32 < 32) by (apply Z.mod_pos_bound; lia).
  rewrite (Z.mod_small (i mod 32)) by (zpow; lia).
  rewrite Z2N.inj_mod by lia. change (Z.to_N 32) with 32%N.
  assert (Hk : (Z.to_N i mod 32 < 32)%N) by (apply N.mod_lt; lia).
  apply wrap_u_small. rewrite N.shiftl_1_l. change (Z.to_N 32) with 32%N.
  apply N.pow_lt_mono_r; lia.
Qed.

Lemma land_bit w k : negb (N.land w (N.shiftl 1 k) =? 0)%N = N.testbit w k.
Proof.
  rewrite N.shiftl_1_l. destruct (N.testbit w k) eqn:E.
  - destruct (N.eqb_spec (N.land w (2 ^ k)) 0) as [Z0|NZ]; [|reflexivity].
    assert (B : N.testbit (N.land w (2 ^ k)) k = true) by (rewrite N.land_spec, E, N.pow2_bits_true; reflexivity).
    rewrite Z0, N.bits_0 in B. discriminate.
  - replace (N.land w (2 ^ k)) with 0%N; [reflexivity|]. symmetry. apply N.bits_inj_0. intros j.
    rewrite N.land_spec, N.pow2_bits_eqb. destruct (N.eqb_spec k j) as [->|]; [rewrite E|]; simpl;
      [reflexivity | apply andb_false_r].
Qed.

Lemma upd_m_upd (f : N -> N) : forall l q, upd_nth l q (f (nth q l 0%N)) = m_upd l q f.
Proof. induction l as [|w t IH]; intros [|q]; simpl; try reflexivity. f_equal. apply IH. Qed.

Lemma go_upd_m_upd (f : N -> N) l i : id_ok i ->
  go_upd l (i / 32) (f (go_idx 0%N l (i / 32))) = m_upd l (N.to_nat (Z.to_N i / 32)) f.
Proof.
  intros H. unfold go_upd, go_idx.
  assert (0 <= i / 32) by (apply Z.div_pos; unfold id_ok in H; lia).
  destruct (Z.ltb_spec (i / 32) 0); [lia|]. rewrite idx_nat by exact H. apply upd_m_upd.
Qed.

Lemma len_cmp (l : list N) i : id_ok i ->
  (go_len l <=? i / 32) = (length l <=? N.to_nat (Z.to_N i / 32))%nat.
Proof.
  intros H. rewrite <- idx_nat by exact H. unfold go_len.
  assert (0 <= i / 32) by (apply Z.div_pos; unfold id_ok in H; lia).
  destruct (Z.leb_spec (Z.of_nat (length l)) (i / 32)); destruct (Nat.leb_spec (length l) (Z.to_nat (i / 32))); try reflexivity; lia.
Qed.

Theorem tie_NodeMarks_Test : forall (m : NodeMarks_rec) (i : Z), - 4611686018427387904 <= i < 4611686018427387904 ->
  gen_NodeMarks_Test m i = m_test (NodeMarks_marks m) i.
Proof.
  intros [l] i Hi. unfold gen_NodeMarks_Test, m_test. cbn [NodeMarks_marks].
  destruct (Z.ltb_spec i 0) as [Hneg|Hpos]; [reflexivity|].
  assert (H : id_ok i) by (unfold id_ok; lia).
  rewrite quot32, bit32 by exact H. rewrite len_cmp by exact H. cbn [orb].
  destruct (Nat.leb_spec (length l) (N.to_nat (Z.to_N i / 32))) as [Hout|Hin].
  - apply nth_error_None in Hout. rewrite Hout. reflexivity.
  - unfold go_idx, go_uand. rewrite idx_nat by exact H.
    rewrite (nth_error_nth' l 0%N Hin). apply land_bit.
Qed.

Theorem tie_NodeMarks_Unmark : forall (m : NodeMarks_rec) (i : Z), id_ok i ->
  NodeMarks_marks (gen_NodeMarks_Unmark m i) = m_unmark (NodeMarks_marks m) (Z.to_N i).
Proof.
  intros [l] i H. unfold gen_NodeMarks_Unmark, m_unmark. cbn [NodeMarks_marks]. cbv zeta.
  rewrite quot32, bit32 by exact H. rewrite len_cmp by exact H.
  destruct (length l <=? N.to_nat (Z.to_N i / 32))%nat; cbn [NodeMarks_marks]; [reflexivity|].
  unfold go_uandnot. apply (go_upd_m_upd (fun w => N.ldiff w (N.shiftl 1 (Z.to_N i mod 32))) l i H).
Qed.

(* ---------- grow (marks.go:38-49): k := 1; for k < n { k <<= 1 }; make; copy ---------- *)
Lemma pow_loop (n : N) (cond : Z -> bool) (body : Z -> Z) :
  (forall k, cond k = (k <? Z.of_N n)) -> (forall k, 0 < k < 2 ^ 60 -> body k = 2 * k) -> (n < 2 ^ 59)%N ->
  forall f (k : N), (0 < k)%N -> (k < 2 ^ 60)%N -> (n <= pow2_loop f k n)%N ->
  go_while (S f) cond body (Z.of_N k) = Some (Z.of_N (pow2_loop f k n)).
Proof.
  intros Hc Hb Hn. change (2 ^ 59)%N with 576460752303423488%N in *. change (2 ^ 60)%N with 1152921504606846976%N in *.
  induction f as [|f IH]; intros k Hk0 Hk Hfin; rewrite go_while_S, Hc; cbn [pow2_loop] in *.
  - replace (Z.of_N k <? Z.of_N n) with false by (symmetry; apply Z.ltb_ge; clear - Hfin; lia). reflexivity.
  - destruct (N.ltb_spec k n) as [Hlt|Hge].
    + replace (Z.of_N k <? Z.of_N n) with true by (symmetry; apply Z.ltb_lt; clear - Hlt; lia).
      rewrite Hb by (change (2 ^ 60) with 1152921504606846976; change (2 ^ 59)%N with 576460752303423488%N in *; lia).
      replace (2 * Z.of_N k) with (Z.of_N (2 * k)) by lia.
      apply IH; [lia | lia | exact Hfin].
    + replace (Z.of_N k <? Z.of_N n) with false by (symmetry; apply Z.ltb_ge; clear - Hge; lia). reflexivity.
Qed.

Lemma skipn_repeat {A} (d : A) k n : skipn k (repeat d n) = repeat d (n - k).
Proof. revert k. induction n as [|n IH]; intros [|k]; simpl; try reflexivity. apply IH. Qed.

Definition grow_fuel (i : Z) : nat := S (S (N.size_nat (Z.to_N i / 32 + 1))).

Theorem tie_NodeMarks_grow : forall (fuel : nat) (m : NodeMarks_rec) (i : Z), id_ok i -> (grow_fuel i <= fuel)%nat ->
  exists m', gen_NodeMarks_grow fuel m i = Some m' /\ NodeMarks_marks m' = m_grow (NodeMarks_marks m) (Z.to_N i).
Proof.
  intros fuel [l] i H Hf. unfold gen_NodeMarks_grow. cbn [NodeMarks_marks]. cbv zeta.
  rewrite quot32 by exact H.
  assert (Hq : 0 <= i / 32 < 2 ^ 57).
  { unfold id_ok in H. split; [apply Z.div_pos; lia|]. apply Z.div_lt_upper_bound; [lia|]. change (2 ^ 57) with 144115188075855872. lia. }
  set (n := (Z.to_N i / 32 + 1)%N).
  assert (En : go_sadd 64 (i / 32) 1 = Z.of_N n).
  { unfold go_sadd, n. rewrite wrap_s64_small by (change (2 ^ 57) with 144115188075855872 in Hq; lia).
    rewrite N2Z.inj_add, N2Z.inj_div, Z2N.id by (unfold id_ok in H; lia). reflexivity. }
  rewrite En.
  assert (Hn : (n < 2 ^ 59)%N).
  { apply N2Z.inj_lt. rewrite <- En. unfold go_sadd. rewrite wrap_s64_small by (change (2 ^ 57) with 144115188075855872 in Hq; lia).
    change (Z.of_N (2 ^ 59)) with 576460752303423488. change (2 ^ 57) with 144115188075855872 in Hq. lia. }
  destruct (pow2_ge_spec n) as [Hge _].
  match goal with |- context [go_while fuel ?c ?b 1] =>
    pose proof (pow_loop n c b ltac:(intros; reflexivity)
                  ltac:(intros k Hk; cbv beta zeta; unfold go_sshl, go_smul, go_sadd; change (2 ^ 1) with 2;
                        change (2 ^ 60) with 1152921504606846976 in Hk; rewrite wrap_s64_small by lia; lia)
                  Hn (S (N.size_nat n)) 1%N ltac:(lia) ltac:(reflexivity) Hge) as Hloop;
    rewrite (go_while_mono c b (S (S (N.size_nat n))) fuel 1 _ Hf Hloop)
  end.
  fold (pow2_ge n). eexists; split; [reflexivity|]. cbn [NodeMarks_marks].
  unfold m_grow. fold n. cbv zeta. unfold go_copy, go_make. rewrite repeat_length, skipn_repeat.
  replace (Z.to_nat (Z.of_N (pow2_ge n))) with (N.to_nat (pow2_ge n)) by lia. reflexivity.
Qed.

Theorem tie_NodeMarks_Mark : forall (fuel : nat) (m : NodeMarks_rec) (i : Z), id_ok i -> (grow_fuel i <= fuel)%nat ->
  exists m', gen_NodeMarks_Mark fuel m i = Some m' /\ NodeMarks_marks m' = m_mark (NodeMarks_marks m) (Z.to_N i).
Proof.
  intros fuel m i H Hf. unfold gen_NodeMarks_Mark, m_mark. cbv zeta.
  rewrite quot32, bit32 by exact H. rewrite len_cmp by exact H.
  destruct (length (NodeMarks_marks m) <=? N.to_nat (Z.to_N i / 32))%nat; unfold go_uor.
  - destruct (tie_NodeMarks_grow fuel m i H Hf) as (m1 & -> & E1). eexists; split; [reflexivity|]. cbn [NodeMarks_marks]. rewrite E1.
    apply (go_upd_m_upd (fun w => N.lor w (N.shiftl 1 (Z.to_N i mod 32))) _ i H).
  - eexists; split; [reflexivity|]. cbn [NodeMarks_marks].
    apply (go_upd_m_upd (fun w => N.lor w (N.shiftl 1 (Z.to_N i mod 32))) _ i H).
Qed.

(* ---------- Next (marks.go:56-79) ---------- *)
Definition ctz_ok (ctzf : N -> Z) : Prop := forall w, (0 < w)%N -> ctzf w = Z.of_N (ctz w).

Lemma ctz_pos_log p : (ctz_pos p <= N.log2 (N.pos p))%N.
Proof.
  induction p; cbn [ctz_pos]; try (apply N.le_0_l).
  change (N.pos p~0) with (2 * N.pos p)%N. rewrite N.log2_double by lia. lia.
Qed.
Lemma ctz_le w : (0 < w)%N -> (w < 2 ^ 32)%N -> (ctz w < 32)%N.
Proof.
  intros H0 H. unfold ctz. destruct w as [|p]; [lia|]. pose proof (ctz_pos_log p) as H1.
  assert (N.log2 (N.pos p) < 32)%N by (apply N.log2_lt_pow2; lia). lia.
Qed.
Definition words32 (l : list N) : Prop := Forall (fun w => (w < 2 ^ 32)%N) l.
Lemma words32_idx l i : words32 l -> (go_idx 0%N l i < 2 ^ 32)%N.
Proof.
  intros H. unfold go_idx. destruct (nth_in_or_default (Z.to_nat i) l 0%N) as [Hin| ->]; [|reflexivity].
  unfold words32 in H. rewrite Forall_forall in H. apply H. exact Hin.
Qed.

Section Scan.
  Variables (ctzf : N -> Z) (l : list N).
  Hypothesis Hctz : ctz_ok ctzf.
  Hypothesis Hw32 : words32 l.
  Variable step : option Z * unit -> Z -> option Z * unit.
  Hypothesis step_done : forall r bi, step (Some r, tt) bi = (Some r, tt).
  Hypothesis step_go : forall bi, step (None, tt) bi =
    if negb (go_idx 0%N l bi =? 0)%N then (Some (go_sadd 64 (go_smul 64 32 bi) (ctzf (go_idx 0%N l bi))), tt) else (None, tt).

  Lemma scan_done r : forall bis, fold_left step bis (Some r, tt) = (Some r, tt).
  Proof. induction bis as [|b bis IH]; simpl; [reflexivity|]. rewrite step_done. apply IH. Qed.

  Lemma scan_fold : forall rest pre, l = pre ++ rest -> (Z.of_nat (length l) < 2 ^ 57) ->
    (let '(ret, _) := fold_left step (go_range (Z.of_nat (length pre)) (Z.of_nat (length l))) (None, tt) in
     match ret with Some r => r | None => -1 end) = m_scan rest (N.of_nat (length pre)).
  Proof.
    induction rest as [|b rest IH]; intros pre Hl Hb.
    - rewrite Hl, app_nil_r, go_range_nil by lia. reflexivity.
    - assert (Hlen : length l = (length pre + S (length rest))%nat) by (rewrite Hl, app_length; reflexivity).
      rewrite go_range_cons by lia. cbn [fold_left m_scan]. rewrite step_go.
      assert (Eb : go_idx 0%N l (Z.of_nat (length pre)) = b) by (rewrite Hl; unfold go_idx; rewrite Nat2Z.id; apply nth_middle).
      rewrite Eb. destruct (N.eqb_spec b 0) as [->|Hnz]; cbn [negb].
      + replace (Z.of_nat (length pre) + 1) with (Z.of_nat (length (pre ++ [0%N]))) by (rewrite app_length; simpl; lia).
        replace (N.of_nat (length pre) + 1)%N with (N.of_nat (length (pre ++ [0%N]))) by (rewrite app_length; simpl; lia).
        apply IH; [rewrite <- app_assoc; exact Hl | exact Hb].
      + rewrite scan_done. rewrite (Hctz b) by lia. unfold go_sadd, go_smul.
        assert (Hc : (ctz b < 32)%N) by (apply ctz_le; [lia | rewrite <- Eb; apply words32_idx; exact Hw32]).
        change (2 ^ 57) with 144115188075855872 in Hb.
        rewrite (wrap_s64_small (32 * _)) by lia. rewrite wrap_s64_small by lia. lia.
  Qed.
End Scan.

Lemma rem32 i : id_ok i -> go_i2u 64 (go_srem 64 i 32) = (Z.to_N i mod 32)%N.
Proof.
  intros H. unfold id_ok in H. unfold go_i2u, go_srem. rewrite Z.rem_mod_nonneg by lia.
  assert (Hm : 0 <= i mod 32 < 32) by (apply Z.mod_pos_bound; lia).
  rewrite (Z.mod_small (i mod 32)) by (zpow; lia). rewrite Z2N.inj_mod by lia. reflexivity.
Qed.

Lemma next_from (ctzf : N -> Z) (l : list N) (i2 : Z) (g : Z) : ctz_ok ctzf -> words32 l -> id_ok i2 -> (Z.of_nat (length l) < 2 ^ 57) ->
  forall step,
  (forall r bi, step (Some r, tt) bi = (Some r, tt)) ->
  (forall bi, step (None, tt) bi =
     if negb (go_idx 0%N l bi =? 0)%N then (Some (go_sadd 64 (go_smul 64 32 bi) (ctzf (go_idx 0%N l bi))), tt) else (None, tt)) ->
  g = (if (go_len l <=? i2 / 32) then -1
       else let b0 := go_ushr 32 (go_idx 0%N l (i2 / 32)) (Z.to_N i2 mod 32) in
            if negb (b0 =? 0)%N then go_sadd 64 i2 (ctzf b0)
            else let '(ret, _) := fold_left step (go_range (go_sadd 64 (i2 / 32) 1) (go_len l)) (None, tt) in
                 match ret with Some r => r | None => -1 end) ->
  g = (let n := Z.to_N i2 in let q := N.to_nat (n / 32) in
       match nth_error l q with
       | None => -1
       | Some w => let b0 := N.shiftr w (n mod 32) in
                   if (b0 =? 0)%N then m_scan (skipn (S q) l) (n / 32 + 1)%N else Z.of_N (n + ctz b0)
       end).
Proof.
  intros Hctz Hw32 Hi Hb step Hd Hg ->. cbv zeta. rewrite len_cmp by exact Hi.
  assert (Hq : 0 <= i2 / 32) by (apply Z.div_pos; unfold id_ok in Hi; lia).
  destruct (Nat.leb_spec (length l) (N.to_nat (Z.to_N i2 / 32))) as [Hout|Hin].
  - apply nth_error_None in Hout. rewrite Hout. reflexivity.
  - unfold go_idx at 1 2. rewrite idx_nat by exact Hi. rewrite (nth_error_nth' l 0%N Hin).
    unfold go_ushr. set (w := nth (N.to_nat (Z.to_N i2 / 32)) l 0%N). set (b0 := N.shiftr w (Z.to_N i2 mod 32)).
    destruct (N.eqb_spec b0 0) as [E0|Hnz]; cbn [negb].
    + set (q := N.to_nat (Z.to_N i2 / 32)) in *.
      assert (Hsplit : l = firstn (S q) l ++ skipn (S q) l) by (symmetry; apply firstn_skipn).
      assert (Hfl : length (firstn (S q) l) = S q) by (rewrite firstn_length; lia).
      assert (Es : go_sadd 64 (i2 / 32) 1 = Z.of_nat (length (firstn (S q) l))).
      { rewrite Hfl. assert (Eq : Z.of_nat q = i2 / 32) by (unfold q; rewrite <- idx_nat by exact Hi; lia).
        unfold go_sadd. change (2 ^ 57) with 144115188075855872 in Hb. rewrite wrap_s64_small by lia. lia. }
      rewrite Es. unfold go_len.
      rewrite (scan_fold ctzf l Hctz Hw32 step Hd Hg (skipn (S q) l) (firstn (S q) l) Hsplit Hb).
      rewrite Hfl. f_equal. unfold q. lia.
    + rewrite (Hctz b0) by lia. unfold go_sadd. unfold id_ok in Hi.
      assert (Hc : (ctz b0 < 32)%N).
      { apply ctz_le; [lia|]. unfold b0. eapply N.le_lt_trans; [|apply (words32_idx l (Z.of_nat (N.to_nat (Z.to_N i2 / 32))) Hw32)].
        unfold go_idx. rewrite Nat2Z.id. fold w. rewrite N.shiftr_div_pow2. apply N.div_le_upper_bound; [apply N.pow_nonzero; lia|].
        assert (2 ^ (Z.to_N i2 mod 32) <> 0)%N by (apply N.pow_nonzero; lia). nia. }
      rewrite wrap_s64_small' by lia. lia.
Qed.

Theorem tie_NodeMarks_Next : forall (ctzf : N -> Z) (m : NodeMarks_rec) (i : Z), ctz_ok ctzf -> words32 (NodeMarks_marks m) ->
  - 4611686018427387904 <= i < 4611686018427387904 - 1 -> (Z.of_nat (length (NodeMarks_marks m)) < 2 ^ 57) ->
  gen_NodeMarks_Next ctzf m i = m_next (NodeMarks_marks m) i.
Proof.
  intros ctzf [l] i Hctz Hw32 Hi Hb. unfold gen_NodeMarks_Next, m_next. cbn [NodeMarks_marks] in *. cbv zeta.
  destruct (Z.ltb_spec i 0) as [Hneg|Hpos].
  - replace (if i + 1 <? 0 then 0 else i + 1) with 0 by (destruct (Z.ltb_spec (i + 1) 0); lia).
    match goal with |- context [fold_left ?st _ _] =>
      apply (next_from ctzf l 0 _ Hctz Hw32 ltac:(unfold id_ok; lia) Hb st (fun r bi => eq_refl) (fun bi => eq_refl)) end.
    rewrite !quot32, !rem32 by (unfold id_ok; lia). reflexivity.
  - replace (go_sadd 64 i 1) with (i + 1) by (unfold go_sadd; rewrite wrap_s64_small by lia; reflexivity).
    destruct (Z.ltb_spec (i + 1) 0) as [C|_]; [lia|].
    match goal with |- context [fold_left ?st _ _] =>
      apply (next_from ctzf l (i + 1) _ Hctz Hw32 ltac:(unfold id_ok; lia) Hb st (fun r bi => eq_refl) (fun bi => eq_refl)) end.
    rewrite !quot32, !rem32 by (unfold id_ok; lia). reflexivity.
Qed.

(* Tie/Marks.v — T-tie for graph/graphalg/marks.go (C18): Test, Mark, Unmark generated from the
   current source (word index i/32, bit 1<<uint(i%32), &, |=, &^= on uint32 words) agree with
   Model/Marks.v on the node ids 0 <= i < 2^62.  grow (a doubling loop and copy) is outside the
   translator's subset: it is an opaque parameter growf of gen_NodeMarks_Mark and the tie holds
   for every growf that returns the words of the model's m_grow.  Compiled by bin/ttie. *)
From Coq Require Import ZArith NArith QArith List Lia Bool.
From MM Require Import Base.Num Base.GoSem Model.Marks.
From MMGen Require Import Gen_graphalg_types Gen_graphalg_marks.
Import ListNotations.
Local Open Scope Z_scope.

Definition id_ok (i : Z) : Prop := 0 <= i < 4611686018427387904.   (* 2^62 *)

Lemma quot32 i : id_ok i -> go_squot 64 i 32 = i / 32.
Proof.
  intros H. unfold go_squot. rewrite Z.quot_div_nonneg by (unfold id_ok in H; lia).
  apply wrap_s64_small. unfold id_ok in H.
  assert (0 <= i / 32 <= i) by (split; [apply Z.div_pos; lia | apply Z.div_le_upper_bound; lia]). lia.
Qed.

Lemma idx_nat i : id_ok i -> Z.to_nat (i / 32) = N.to_nat (Z.to_N i / 32).
Proof.
  intros H. unfold id_ok in H. rewrite <- Z_N_nat. f_equal.
  rewrite Z2N.inj_div by lia. reflexivity.
Qed.

Lemma bit32 i : id_ok i ->
  go_ushl 32 1 (go_i2u 64 (go_srem 64 i 32)) = N.shiftl 1 (Z.to_N i mod 32).
Proof.
  intros H. unfold id_ok in H. unfold go_ushl, go_i2u, go_srem.
  rewrite Z.rem_mod_nonneg by lia.
  assert (Hm : 0 <= i mod 32 < 32) by (apply Z.mod_pos_bound; lia).
  rewrite (Z.mod_small (i mod 32)) by (zpow; lia).
  rewrite Z2N.inj_mod by lia. change (Z.to_N 32) with 32%N.
  assert (Hk : (Z.to_N i mod 32 < 32)%N) by (apply N.mod_lt; lia).
  apply wrap_u_small. rewrite N.shiftl_1_l. change (Z.to_N 32) with 32%N.
  apply N.pow_lt_mono_r; lia.
Qed.

Lemma land_bit w k : negb (N.land w (N.shiftl 1 k) =? 0)%N = N.testbit w k.
Proof.
  rewrite N.shiftl_1_l. destruct (N.testbit w k) eqn:E.
  - destruct (N.eqb_spec (N.land w (2 ^ k)) 0) as [Z0|NZ]; [|reflexivity].
    assert (B : N.testbit (N.land w (2 ^ k)) k = true) by (rewrite N.land_spec, E, N.pow2_bits_true; reflexivity).
    rewrite Z0, N.bits_0 in B. discriminate.
  - replace (N.land w (2 ^ k)) with 0%N; [reflexivity|]. symmetry. apply N.bits_inj_0. intros j.
    rewrite N.land_spec, N.pow2_bits_eqb. destruct (N.eqb_spec k j) as [->|]; [rewrite E|]; simpl;
      [reflexivity | apply andb_false_r].
Qed.

Lemma upd_m_upd (f : N -> N) : forall l q, upd_nth l q (f (nth q l 0%N)) = m_upd l q f.
Proof. induction l as [|w t IH]; intros [|q]; simpl; try reflexivity. f_equal. apply IH. Qed.

Lemma go_upd_m_upd (f : N -> N) l i : id_ok i ->
  go_upd l (i / 32) (f (go_idx 0%N l (i / 32))) = m_upd l (N.to_nat (Z.to_N i / 32)) f.
Proof.
  intros H. unfold go_upd, go_idx.
  assert (0 <= i / 32) by (apply Z.div_pos; unfold id_ok in H; lia).
  destruct (Z.ltb_spec (i / 32) 0); [lia|]. rewrite idx_nat by exact H. apply upd_m_upd.
Qed.

Lemma len_cmp (l : list N) i : id_ok i ->
  (go_len l <=? i / 32) = (length l <=? N.to_nat (Z.to_N i / 32))%nat.
Proof.
  intros H. rewrite <- idx_nat by exact H. unfold go_len.
  assert (0 <= i / 32) by (apply Z.div_pos; unfold id_ok in H; lia).
  destruct (Z.leb_spec (Z.of_nat (length l)) (i / 32)); destruct (Nat.leb_spec (length l) (Z.to_nat (i / 32))); try reflexivity; lia.
Qed.

Theorem tie_NodeMarks_Test : forall (m : NodeMarks_rec) (i : Z), - 4611686018427387904 <= i < 4611686018427387904 ->
  gen_NodeMarks_Test m i = m_test (NodeMarks_marks m) i.
Proof.
  intros [l] i Hi. unfold gen_NodeMarks_Test, m_test. cbn [NodeMarks_marks].
  destruct (Z.ltb_spec i 0) as [Hneg|Hpos]; [reflexivity|].
  assert (H : id_ok i) by (unfold id_ok; lia).
  rewrite quot32, bit32 by exact H. rewrite len_cmp by exact H. cbn [orb].
  destruct (Nat.leb_spec (length l) (N.to_nat (Z.to_N i / 32))) as [Hout|Hin].
  - apply nth_error_None in Hout. rewrite Hout. reflexivity.
  - unfold go_idx, go_uand. rewrite idx_nat by exact H.
    rewrite (nth_error_nth' l 0%N Hin). apply land_bit.
Qed.

Theorem tie_NodeMarks_Unmark : forall (m : NodeMarks_rec) (i : Z), id_ok i ->
  NodeMarks_marks (gen_NodeMarks_Unmark m i) = m_unmark (NodeMarks_marks m) (Z.to_N i).
Proof.
  intros [l] i H. unfold gen_NodeMarks_Unmark, m_unmark. cbn [NodeMarks_marks]. cbv zeta.
  rewrite quot32, bit32 by exact H. rewrite len_cmp by exact H.
  destruct (length l <=? N.to_nat (Z.to_N i / 32))%nat; cbn [NodeMarks_marks]; [reflexivity|].
  unfold go_uandnot. apply (go_upd_m_upd (fun w => N.ldiff w (N.shiftl 1 (Z.to_N i mod 32))) l i H).
Qed.

Theorem tie_NodeMarks_Mark : forall (growf : NodeMarks_rec -> Z -> NodeMarks_rec) (m : NodeMarks_rec) (i : Z), id_ok i ->
  (forall m' i', id_ok i' -> NodeMarks_marks (growf m' i') = m_grow (NodeMarks_marks m') (Z.to_N i')) ->
  NodeMarks_marks (gen_NodeMarks_Mark growf m i) = m_mark (NodeMarks_marks m) (Z.to_N i).
Proof.
  intros growf [l] i H Hg. unfold gen_NodeMarks_Mark, m_mark. cbn [NodeMarks_marks]. cbv zeta.
  rewrite quot32, bit32 by exact H. rewrite len_cmp by exact H.
  destruct (length l <=? N.to_nat (Z.to_N i / 32))%nat; cbn [NodeMarks_marks]; unfold go_uor.
  - rewrite Hg by exact H. cbn [NodeMarks_marks].
    apply (go_upd_m_upd (fun w => N.lor w (N.shiftl 1 (Z.to_N i mod 32))) _ i H).
  - apply (go_upd_m_upd (fun w => N.lor w (N.shiftl 1 (Z.to_N i mod 32))) l i H).
Qed.

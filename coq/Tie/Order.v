(* Tie/Order.v — T-tie for C19: graph/graphalg/order.go Reverse (the in-place reversal IDom applies to
   the post-order) against Model/Order.v reverse.  The loop  for i, j := 0, len(xs)-1; i < j; i, j =
   i+1, j-1  is not a counting loop: gen_Reverse takes fuel; len(xs)/2 + 1 suffices.
   PreOrder / PostOrder (recursive closures over captured mutable state): Tie/OrderVisit.v; IDom:
   Tie/Dom.v; DomFrontier (goto) is outside the translator's subset. *)
From Coq Require Import ZArith NArith List Bool Lia.
From MM Require Import Base.Num Base.GoSem Model.Order.
From MMGen Require Import Gen_graphalg_order.
Import ListNotations.
Local Open Scope Z_scope.

Lemma go_upd_at {A} (l1 : list A) x l2 v n : n = length l1 -> go_upd (l1 ++ x :: l2) (Z.of_nat n) v = l1 ++ v :: l2.
Proof.
  intros ->. unfold go_upd. destruct (Z.ltb_spec (Z.of_nat (length l1)) 0); [lia|]. rewrite Nat2Z.id. apply upd_nth_app.
Qed.
Lemma go_idx_at {A} (d : A) (l1 : list A) x l2 n : n = length l1 -> go_idx d (l1 ++ x :: l2) (Z.of_nat n) = x.
Proof. intros ->. unfold go_idx. rewrite Nat2Z.id. apply nth_middle. Qed.

Section Rev.
  Variable cond : list Z * Z * Z -> bool.
  Variable body : list Z * Z * Z -> list Z * Z * Z.
  Hypothesis cond_ok : forall l i j, cond (l, i, j) = (i <? j).
  Hypothesis body_ok : forall l (i j : nat), (Z.of_nat i < 2 ^ 61) -> (Z.of_nat j < 2 ^ 61) -> (1 <= j)%nat ->
    body (l, Z.of_nat i, Z.of_nat j) =
    (go_upd (go_upd l (Z.of_nat i) (go_idx 0 l (Z.of_nat j))) (Z.of_nat j) (go_idx 0 l (Z.of_nat i)), Z.of_nat (S i), Z.of_nat (j - 1)).

  (* xs = a ++ m ++ b with |a| = |b| = k: the state is rev b ++ m ++ rev a, i = k, j = k + |m| - 1 *)
  Lemma rev_loop : forall fuel (m a b : list Z), length a = length b -> (length m < 2 * fuel)%nat ->
    (Z.of_nat (length a + length m + length b) < 2 ^ 60) ->
    exists i' j', go_while fuel cond body (rev b ++ m ++ rev a, Z.of_nat (length a), Z.of_nat (length a) + Z.of_nat (length m) - 1) =
                  Some (rev (a ++ m ++ b), i', j').
  Proof.
    induction fuel as [|fuel IH]; intros m a b Hab Hf Hb; [simpl in Hf; lia|].
    rewrite go_while_S, cond_ok.
    destruct m as [|x m].
    - cbn [length]. replace (Z.of_nat (length a) <? Z.of_nat (length a) + Z.of_nat 0 - 1) with false by (symmetry; apply Z.ltb_ge; lia).
      eexists; eexists. rewrite !rev_app_distr. cbn [app rev]. rewrite ?app_nil_r. reflexivity.
    - destruct (exists_last (l := x :: m) ltac:(discriminate)) as (m' & y & Em).
      destruct m' as [|x' m'].
      + (* one element in the middle *)
        cbn [app] in Em. injection Em as -> ->. cbn [length].
        replace (Z.of_nat (length a) <? Z.of_nat (length a) + Z.of_nat 1 - 1) with false by (symmetry; apply Z.ltb_ge; lia).
        eexists; eexists. rewrite !rev_app_distr. cbn [app rev]. rewrite <- app_assoc. reflexivity.
      + (* x ... y: swap the two ends *)
        cbn [app] in Em. injection Em as <- Em2. rewrite Em2.
        assert (Hl : length (x :: m' ++ [y]) = S (S (length m'))) by (cbn [length]; rewrite app_length; simpl; lia).
        assert (Hlm : length (x :: m) = S (S (length m'))) by (rewrite Em2; exact Hl).
        rewrite Hl. change (2 ^ 60) with 1152921504606846976 in Hb. rewrite Hlm in Hb, Hf.
        replace (Z.of_nat (length a) <? Z.of_nat (length a) + Z.of_nat (S (S (length m'))) - 1) with true by (symmetry; apply Z.ltb_lt; lia).
        replace (Z.of_nat (length a) + Z.of_nat (S (S (length m'))) - 1) with (Z.of_nat (length a + S (length m'))) by lia.
        rewrite body_ok by (change (2 ^ 61) with 2305843009213693952; lia).
        (* the list: rev b ++ x :: (m' ++ y :: rev a) ; position i = |rev b|, position j = |rev b ++ x :: m'| *)
        assert (E1 : rev b ++ (x :: m' ++ [y]) ++ rev a = rev b ++ x :: (m' ++ y :: rev a)) by (cbn [app]; rewrite <- app_assoc; reflexivity).
        rewrite E1. set (L := rev b ++ x :: (m' ++ y :: rev a)).
        assert (Ix : go_idx 0 L (Z.of_nat (length a)) = x) by (unfold L; apply go_idx_at; rewrite rev_length; exact Hab).
        assert (Iy : go_idx 0 L (Z.of_nat (length a + S (length m'))) = y).
        { unfold L. replace (rev b ++ x :: (m' ++ y :: rev a)) with ((rev b ++ x :: m') ++ y :: rev a) by (rewrite <- app_assoc; reflexivity).
          apply go_idx_at. rewrite app_length, rev_length. cbn [length]. lia. }
        assert (U1 : go_upd L (Z.of_nat (length a)) y = rev b ++ y :: (m' ++ y :: rev a)) by (unfold L; apply go_upd_at; rewrite rev_length; exact Hab).
        assert (U2 : go_upd (rev b ++ y :: (m' ++ y :: rev a)) (Z.of_nat (length a + S (length m'))) x = (rev b ++ y :: m') ++ x :: rev a).
        { replace (rev b ++ y :: (m' ++ y :: rev a)) with ((rev b ++ y :: m') ++ y :: rev a) by (rewrite <- app_assoc; reflexivity).
          apply go_upd_at. rewrite app_length, rev_length. cbn [length]. lia. }
        rewrite Ix, Iy, U1, U2.
        specialize (IH m' (a ++ [x]) (y :: b)).
        rewrite !app_length in IH. cbn [length rev] in IH.
        destruct IH as (i' & j' & IH); [lia | lia | change (2 ^ 60) with 1152921504606846976; lia |].
        exists i', j'.
        match goal with |- go_while fuel cond body ?sA = _ =>
          match type of IH with go_while fuel cond body ?sB = _ => replace sA with sB end end.
        * rewrite IH. do 3 f_equal. rewrite <- !app_assoc. cbn [app]. rewrite <- !app_assoc. reflexivity.
        * f_equal; [f_equal|]; try lia.
          rewrite rev_app_distr. cbn [rev app]. rewrite <- !app_assoc. cbn [app]. reflexivity.
  Qed.
End Rev.

Theorem tie_Reverse : forall (fuel : nat) (xs : list Z), (Z.of_nat (length xs) < 2 ^ 60) -> (length xs < 2 * fuel)%nat ->
  gen_Reverse fuel xs = Some (rev xs).
Proof.
  intros fuel xs Hb Hf. unfold gen_Reverse. cbv zeta. unfold go_len, go_ssub.
  change (2 ^ 60) with 1152921504606846976 in Hb. rewrite wrap_s64_small by lia.
  match goal with |- context [go_while fuel ?c ?b (xs, 0, ?j0)] =>
    destruct (rev_loop c b ltac:(intros; reflexivity)
                ltac:(intros l i j Hi Hj Hj1; cbv beta iota zeta; unfold go_sadd, go_ssub;
                      change (2 ^ 61) with 2305843009213693952 in *; rewrite !wrap_s64_small by lia;
                      f_equal; [f_equal|]; lia)
                fuel xs [] [] eq_refl Hf ltac:(cbn [length]; change (2 ^ 60) with 1152921504606846976; lia)) as (i' & j' & E)
  end.
  cbn [rev app length] in E. rewrite app_nil_r in E. change (Z.of_nat 0) with 0 in E. rewrite Z.add_0_l in E. rewrite E. reflexivity.
Qed.

(* on node ids (N in the model): Model/Order.v reverse *)
Theorem tie_Reverse_model : forall (fuel : nat) (xs : list N), (Z.of_nat (length xs) < 2 ^ 60) -> (length xs < 2 * fuel)%nat ->
  gen_Reverse fuel (map Z.of_N xs) = Some (map Z.of_N (reverse xs)).
Proof.
  intros fuel xs Hb Hf. rewrite tie_Reverse by (rewrite map_length; assumption).
  unfold reverse. rewrite <- rev_alt, map_rev. reflexivity.
Qed.

Example tie_Reverse_example : gen_Reverse 3 [1; 2; 3; 4; 5] = Some [5; 4; 3; 2; 1] /\ gen_Reverse 2 [1; 2; 3; 4; 5] = None.
Proof. split; vm_compute; reflexivity. Qed.

(* Tie/OrderVisit.v — T-tie for C19: graph/graphalg/order.go PreOrder and PostOrder against
   Model/Order.v preorder / postorder.  Both are a RECURSIVE CLOSURE over captured mutable state
   (the visited marks and the output slice):  var visit func(n int); visit = func(n int) {...
   visit(succ) ...}; visit(root).  go2coq translates it (translator/recfn.go) to  go_rec F,
   where F is the closure body with the recursive call abstracted and the state (visited.marks,
   out) threaded; go_rec recurses on fuel = the recursion depth, exactly like Model/Order.v visit.
   The same fuel also bounds the doubling loop of NodeMarks.grow inside visited.Mark, which needs
   at most visit_fuel = 60 iterations for node ids < 2^62 (Tie/Marks.v); hence the hypothesis
   visit_fuel <= fuel, under which the generated functions EQUAL the model for every fuel - also
   in the answer None when the recursion is deeper than fuel.
   The graph is the opaque interface method g.Out (parameter outf), assumed to be the model's
   successor function on node ids; ids are < 2^62.
   The proof is over an abstract F; the closure generated from the current source is shown to
   satisfy the defining equation F_ok by case analysis (not by syntactic identity), so statement
   order inside the closure, "continue" instead of a nested if, etc. do not matter. *)
From Coq Require Import ZArith NArith List Bool Lia.
From MM Require Import Base.Num Base.GoSem Model.Marks Model.Order Spec.Dfs.
From MMGen Require Import Gen_graphalg_types Gen_graphalg_marks Gen_graphalg_order Tie_Marks.
Import ListNotations.
Local Open Scope Z_scope.

Definition node_ok (n : N) : Prop := (n < 4611686018427387904)%N.   (* 2^62 *)
Definition visit_fuel : nat := 60.

Lemma size_nat_bound : forall p k, (N.pos p < 2 ^ N.of_nat k)%N -> (Pos.size_nat p <= k)%nat.
Proof.
  induction p as [p IH|p IH|]; intros [|k] H; cbn [Pos.size_nat].
  - change (2 ^ N.of_nat 0)%N with 1%N in H. lia.
  - apply le_n_S, IH. rewrite Nat2N.inj_succ, N.pow_succ_r' in H. lia.
  - change (2 ^ N.of_nat 0)%N with 1%N in H. lia.
  - apply le_n_S, IH. rewrite Nat2N.inj_succ, N.pow_succ_r' in H. lia.
  - change (2 ^ N.of_nat 0)%N with 1%N in H. lia.
  - lia.
Qed.

Lemma grow_fuel_le i : id_ok i -> (grow_fuel i <= visit_fuel)%nat.
Proof.
  intros H. unfold id_ok in H. unfold grow_fuel, visit_fuel. do 2 apply le_n_S.
  assert (Hq : (Z.to_N i / 32 < 144115188075855872)%N) by (apply N.div_lt_upper_bound; lia).
  destruct (Z.to_N i / 32 + 1)%N as [|p] eqn:E; [simpl; lia|].
  cbn [N.size_nat]. apply size_nat_bound. change (2 ^ N.of_nat 58)%N with 288230376151711744%N. lia.
Qed.

Notation gst := (list N * list Z)%type (only parsing).
(* the output slice: the nodes of the recorded events, oldest first *)
Definition enc (evs : list event) : list Z := map Z.of_N (map ev_node (rev evs)).
Definition encs (s : dstate) : gst := (fst s, enc (snd s)).

Lemma enc_cons e evs : enc (e :: evs) = enc evs ++ [Z.of_N (ev_node e)].
Proof. unfold enc. cbn [rev]. rewrite !map_app. reflexivity. Qed.

(* for _, succ := range g.Out(n) { if !visited.Test(succ) { visit(succ) } } *)
Definition canon_body (rec : gst -> Z -> option gst) : gst -> Z -> go_ctl gst gst :=
  fun st succ => if gen_NodeMarks_Test (mk_NodeMarks (fst st)) succ then Go_next st
                 else match rec st succ with None => Go_fuel | Some s => Go_next s end.

Section Visit.
  Variable outf : Z -> list Z.
  Variable out : N -> list N.
  Variable fuel : nat.
  Variables pe px : bool.
  Variable F : (gst -> Z -> option gst) -> gst -> Z -> option gst.
  Hypothesis out_ok : forall n, outf (Z.of_N n) = map Z.of_N (out n).
  Hypothesis nodes_ok : forall n, Forall node_ok (out n).
  Hypothesis fuel_ok : (visit_fuel <= fuel)%nat.
  Hypothesis F_ok : forall rec m o n, F rec (m, o) n =
    match gen_NodeMarks_Mark fuel (mk_NodeMarks m) n with
    | None => None
    | Some v1 =>
      match go_fold_ctl (canon_body rec) (outf n) (NodeMarks_marks v1, if pe then o ++ [n] else o) with
      | Go_fuel => None
      | Go_ret r => Some r
      | Go_next s => Some (fst s, if px then snd s ++ [n] else snd s)
      end
    end.

  Lemma node_id_ok n : node_ok n -> id_ok (Z.of_N n).
  Proof. unfold node_ok, id_ok. lia. Qed.

  Lemma succs_tie (rec : gst -> Z -> option gst) (mrec : N -> dstate -> option dstate) :
    (forall v s, node_ok v -> rec (encs s) (Z.of_N v) = option_map encs (mrec v s)) ->
    forall l s, Forall node_ok l ->
    go_fold_ctl (canon_body rec) (map Z.of_N l) (encs s) =
    match visit_succs mrec l s with None => Go_fuel | Some s' => Go_next (encs s') end.
  Proof.
    intros Hrec. induction l as [|v t IH]; intros s Hl; [reflexivity|].
    inversion Hl as [|? ? Hv Ht]; subst. cbn [map go_fold_ctl visit_succs]. unfold canon_body at 1.
    rewrite tie_NodeMarks_Test by (pose proof (node_id_ok v Hv) as Hi; unfold id_ok in Hi; lia).
    cbn [NodeMarks_marks encs fst].
    destruct (m_test (fst s) (Z.of_N v)).
    - apply IH. exact Ht.
    - change (fst s, enc (snd s)) with (encs s). rewrite Hrec by exact Hv.
      destruct (mrec v s) as [s'|]; cbn [option_map]; [apply IH; exact Ht | reflexivity].
  Qed.

  Lemma visit_tie : forall f n s, node_ok n ->
    go_rec F f (encs s) (Z.of_N n) = option_map encs (visit out pe px f n s).
  Proof.
    induction f as [|f IH]; intros n s Hn; [reflexivity|].
    rewrite go_rec_S. unfold encs at 1. rewrite F_ok.
    destruct (tie_NodeMarks_Mark fuel (mk_NodeMarks (fst s)) (Z.of_N n)) as (m' & -> & Em);
      [apply node_id_ok; exact Hn | pose proof (grow_fuel_le _ (node_id_ok n Hn)); lia |].
    rewrite Em, N2Z.id, out_ok. cbn [NodeMarks_marks visit].
    set (s1 := (m_mark (fst s) n, if pe then Enter n :: snd s else snd s)).
    match goal with |- context [go_fold_ctl _ _ ?st] => replace st with (encs s1)
      by (unfold s1, encs; cbn [fst snd]; destruct pe; [rewrite enc_cons|]; reflexivity) end.
    rewrite (succs_tie (go_rec F f) (visit out pe px f)) by (intros; try apply IH; auto).
    destruct (visit_succs (visit out pe px f) (out n) s1) as [s2|]; [|reflexivity].
    unfold encs. cbn [option_map fst snd]. destruct px; [rewrite enc_cons|]; reflexivity.
  Qed.
End Visit.

(* the closure generated from the current source satisfies the defining equation *)
Ltac closure_ok :=
  let rec_ := fresh "rec" in let m := fresh "m" in let o := fresh "o" in let n := fresh "n" in
  intros rec_ m o n; cbv beta iota zeta;
  destruct (gen_NodeMarks_Mark _ (mk_NodeMarks m) n) as [?v1|]; [|reflexivity];
  lazymatch goal with |- ?L = _ =>
    match L with context [go_fold_ctl ?f _ _] =>
      rewrite (go_fold_ctl_ext f (canon_body rec_))
    end end;
  [ match goal with |- context [go_fold_ctl ?g ?l ?s] => destruct (go_fold_ctl g l s) as [[? ?]|?|] end; reflexivity
  | let m1 := fresh "m" in let o1 := fresh "o" in let succ := fresh "succ" in
    intros [m1 o1] succ; unfold canon_body; cbv beta iota zeta; cbn [fst];
    destruct (gen_NodeMarks_Test (mk_NodeMarks m1) succ); cbn [negb]; try reflexivity;
    destruct (rec_ (m1, o1) succ) as [[? ?]|]; reflexivity ].

Lemma new_marks : (NodeMarks_marks gen_NewNodeMarks, @nil Z) = encs (m_new, []).
Proof. reflexivity. Qed.

Lemma run_enc (r : option dstate) :
  match option_map encs r with None => None | Some s => Some (snd s) end =
  option_map (map Z.of_N) (option_map (map ev_node) (match r with None => None | Some s => Some (rev_append (snd s) []) end)).
Proof.
  destruct r as [[m evs]|]; [|reflexivity]. cbn [option_map encs snd]. rewrite rev_append_rev, app_nil_r. reflexivity.
Qed.

Theorem tie_PreOrder : forall (outf : Z -> list Z) (out : N -> list N) (fuel : nat) (root : N),
  (forall n, outf (Z.of_N n) = map Z.of_N (out n)) -> (forall n, Forall node_ok (out n)) -> node_ok root ->
  (visit_fuel <= fuel)%nat ->
  gen_PreOrder outf fuel (Z.of_N root) = option_map (map Z.of_N) (preorder out fuel root).
Proof.
  intros outf out fuel root Hout Hnodes Hroot Hfuel. unfold gen_PreOrder. cbv zeta.
  match goal with |- context [go_rec ?F0] => set (F := F0) end.
  assert (F_ok : forall rec m o n, F rec (m, o) n =
    match gen_NodeMarks_Mark fuel (mk_NodeMarks m) n with
    | None => None
    | Some v1 =>
      match go_fold_ctl (canon_body rec) (outf n) (NodeMarks_marks v1, if true then o ++ [n] else o) with
      | Go_fuel => None | Go_ret r => Some r
      | Go_next s => Some (fst s, if false then snd s ++ [n] else snd s)
      end
    end) by (unfold F; closure_ok).
  rewrite new_marks, (visit_tie outf out fuel true false F Hout Hnodes Hfuel F_ok) by exact Hroot.
  unfold preorder, run_visit. rewrite <- run_enc.
  destruct (option_map encs (visit out true false fuel root (m_new, []))) as [[m o]|]; reflexivity.
Qed.

Theorem tie_PostOrder : forall (outf : Z -> list Z) (out : N -> list N) (fuel : nat) (root : N),
  (forall n, outf (Z.of_N n) = map Z.of_N (out n)) -> (forall n, Forall node_ok (out n)) -> node_ok root ->
  (visit_fuel <= fuel)%nat ->
  gen_PostOrder outf fuel (Z.of_N root) = option_map (map Z.of_N) (postorder out fuel root).
Proof.
  intros outf out fuel root Hout Hnodes Hroot Hfuel. unfold gen_PostOrder. cbv zeta.
  match goal with |- context [go_rec ?F0] => set (F := F0) end.
  assert (F_ok : forall rec m o n, F rec (m, o) n =
    match gen_NodeMarks_Mark fuel (mk_NodeMarks m) n with
    | None => None
    | Some v1 =>
      match go_fold_ctl (canon_body rec) (outf n) (NodeMarks_marks v1, if false then o ++ [n] else o) with
      | Go_fuel => None | Go_ret r => Some r
      | Go_next s => Some (fst s, if true then snd s ++ [n] else snd s)
      end
    end) by (unfold F; closure_ok).
  rewrite new_marks, (visit_tie outf out fuel false true F Hout Hnodes Hfuel F_ok) by exact Hroot.
  unfold postorder, run_visit. rewrite <- run_enc.
  destruct (option_map encs (visit out false true fuel root (m_new, []))) as [[m o]|]; reflexivity.
Qed.


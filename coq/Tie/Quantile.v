(* Tie/Quantile.v — T-tie for C10: stats/sample.go Sample.Quantile, Sample.IQR (and their callees
   Sample.Weight, Sample.Copy, vec.Sum) against Model/Quantile.v (quantile_c, iqr_c) and
   Model/Sample.v (sample_weight, sample_copy), the objects of the C10 theorems.

   Opaque: math.NaN (nanv); Sample.Sort (sortf: the tie holds for EVERY sortf that returns the
   sorted sample of the model, [sort_ok]); Sample.Bounds (boundsf, used for q <= 0 and q >= 1
   only: for every boundsf that returns the model's sample_bounds, [bounds_ok]).
   math.Modf is built in (go_modf: truncation and fractional part).

   The constant 1/3.0 of the source is read as the exact rational 1/3 (the T-tie ignores the
   rounding of constants as of all float64 arithmetic), so the tie is with quantile_c (1 # 3),
   the object of C10_quantile_is_hf8_exact_constant and of the theorems generic in the constant
   (C10_quantile_sort_first); [quantile] = quantile_c third_f differs by the rounding of that
   one constant, bounded by C10_quantile_is_hf8.
   A slice is nil iff it is empty (GoSem.go_isnil): the ties assume a VALID sample (Weights nil,
   or as long as Xs), for which Weights == nil <-> len(Weights) = 0 once Xs is non-empty. *)
From Coq Require Import ZArith NArith QArith Qround Qabs List Bool Lia Lqa.
From MM Require Import Base.Num Base.GoSem Base.GASort Model.Sample Model.Quantile.
From MMGen Require Import Gen_stats_types Gen_vec_vec Gen_stats_sample Tie_Vec.
Import ListNotations.
Local Open Scope Q_scope.

Definition to_sample (s : Sample_rec) : sample :=
  mkSample (Sample_Xs s) (if go_isnil (Sample_Weights s) then None else Some (Sample_Weights s)) (Sample_Sorted s).

Definition valid (s : Sample_rec) : Prop :=
  Sample_Weights s = [] \/ length (Sample_Weights s) = length (Sample_Xs s).

Definition sort_ok (sortf : Sample_rec -> Sample_rec) : Prop :=
  forall s, valid s -> to_sample (sortf s) = sample_sort (to_sample s).

Definition bounds_val (nanv : Q) (b : option (Q * Q)) : Q * Q :=
  match b with Some p => p | None => (nanv, nanv) end.
Definition bounds_ok (nanv : Q) (boundsf : Sample_rec -> Q * Q) : Prop :=
  forall s, boundsf s = bounds_val nanv (sample_bounds (to_sample s)).

(* the float64 the code returns, against the model's result *)
Definition qr_rel (nanv : Q) (g : Q) (r : qr) : Prop :=
  match r with RNaN => g = nanv | RVal v => g == v | RPanic => False end.

Ltac sproj := cbn [Sample_Xs Sample_Weights Sample_Sorted s_xs s_ws s_sorted] in *.

(* ---------- Copy, Weight ---------- *)
Theorem tie_Sample_Copy : forall s : Sample_rec,
  gen_Sample_Copy s = s /\ to_sample (gen_Sample_Copy s) = sample_copy (to_sample s).
Proof.
  intros [xs ws st]. assert (E : gen_Sample_Copy (mk_Sample xs ws st) = mk_Sample xs ws st).
  { unfold gen_Sample_Copy. sproj. cbv zeta.
    rewrite go_copy_full by (rewrite go_make_length; unfold go_len; lia).
    destruct ws as [|w ws]; cbn [go_isnil negb]; [reflexivity|].
    rewrite go_copy_full by (rewrite go_make_length; unfold go_len; lia). reflexivity. }
  split; [exact E | rewrite E; reflexivity].
Qed.

Theorem tie_Sample_Weight : forall s : Sample_rec, gen_Sample_Weight s == sample_weight (to_sample s).
Proof.
  intros [xs ws st]. unfold gen_Sample_Weight, sample_weight, to_sample. sproj.
  destruct (go_isnil ws); sproj; [reflexivity | apply tie_vec_Sum].
Qed.

(* ---------- the unweighted branch ---------- *)
Lemma idx_go (xs : list Q) i : (0 <= i < Z.of_nat (length xs))%Z -> idx xs i = Some (go_idx (0 # 1) xs i).
Proof.
  intros H. unfold idx, go_idx. destruct (Z.ltb_spec i 0); [lia|].
  apply nth_error_nth'. lia.
Qed.

Lemma modf_floor n : 0 <= n -> go_modf n = (inject_Z (Qfloor n), n - inject_Z (Qfloor n)).
Proof. intros H. unfold go_modf, go_trunc. rewrite go_f2i_nonneg by exact H. reflexivity. Qed.

(* ---------- the weighted branch: target -= w; if target < 0 return x ---------- *)
Lemma Qltb_comp a a' b b' : a == a' -> b == b' -> Qltb a b = Qltb a' b'.
Proof.
  intros Ha Hb. destruct (Qltb a b) eqn:E1; destruct (Qltb a' b') eqn:E2; try reflexivity;
    [apply Qltb_iff in E1; apply Qltb_niff in E2 | apply Qltb_niff in E1; apply Qltb_iff in E2]; exfalso; lra.
Qed.

Lemma wtotal_combine : forall (xs ws : list Q) a, length xs = length ws ->
  fold_left (fun a p => Qred (a + snd p)) (combine xs ws) a = fold_left (fun a x => Qred (a + x)) ws a.
Proof.
  induction xs as [|x xs IH]; intros [|w ws] a H; simpl in *; try reflexivity; try discriminate.
  apply IH. lia.
Qed.

Section Scan.
  Variable full : list Q.
  Variable step : option Q * Q -> Z * Q -> option Q * Q.
  Hypothesis step_done : forall r t i w, step (Some r, t) (i, w) = (Some r, t).
  Hypothesis step_go : forall t i w, exists t2, t2 == t - w /\
    step (None, t) (i, w) = if Qltb t2 (0 # 1) then (Some (go_idx (0 # 1) full i), t2) else (None, t2).

  Lemma scan_done l : forall r t i, fold_left step (enum_from i l) (Some r, t) = (Some r, t).
  Proof. induction l as [|w l IH]; intros r t i; simpl; [reflexivity|]. rewrite step_done. apply IH. Qed.

  Lemma scan_tie : forall (ws xs xs0 : list Q) (t t' : Q) (lastx : option Q),
    full = xs0 ++ xs -> length xs = length ws -> t == t' ->
    wscan (combine xs ws) t' lastx =
    match fst (fold_left step (enum_from (Z.of_nat (length xs0)) ws) (None, t)) with
    | Some r => Some r
    | None => match xs with [] => lastx | _ => Some (last xs (0 # 1)) end
    end.
  Proof.
    induction ws as [|w ws IH]; intros [|x xs] xs0 t t' lastx Hfull Hlen Ht; simpl in Hlen; try discriminate.
    - reflexivity.
    - cbn [combine wscan enum_from fold_left]. destruct (step_go t (Z.of_nat (length xs0)) w) as (t2 & Ht2 & ->).
      rewrite (Qltb_comp (Qred (t' - w)) t2 0 (0 # 1)) by (try reflexivity; rewrite Qred_correct, Ht2, Ht; reflexivity).
      destruct (Qltb t2 (0 # 1)).
      + rewrite scan_done. cbn [fst]. f_equal. rewrite Hfull. unfold go_idx. rewrite Nat2Z.id.
        symmetry. apply nth_middle.
      + replace (Z.of_nat (length xs0) + 1)%Z with (Z.of_nat (length (xs0 ++ [x]))) by (rewrite app_length; simpl; lia).
        rewrite (IH xs (xs0 ++ [x]) t2 (Qred (t' - w)) (Some x));
          [| rewrite Hfull, <- app_assoc; reflexivity | lia | rewrite Qred_correct, Ht2, Ht; reflexivity].
        destruct (fst _); [reflexivity|]. destruct xs; reflexivity.
  Qed.
End Scan.

Lemma last_go_idx (xs : list Q) : xs <> [] -> (Z.of_nat (length xs) < 2 ^ 62)%Z ->
  go_idx (0 # 1) xs (go_ssub 64 (go_len xs) 1) = last xs (0 # 1).
Proof.
  intros Hne Hl. unfold go_idx, go_ssub, go_len. rewrite wrap_s64_small by (zpow; lia).
  destruct (exists_last Hne) as (l & a & ->). rewrite last_last, app_length. simpl.
  replace (Z.to_nat (Z.of_nat (length l + 1) - 1)) with (length l) by lia. apply nth_middle.
Qed.

(* ---------- the sample Quantile and IQR work on: sorted unless marked Sorted ---------- *)
Definition sorted_rec (sortf : Sample_rec -> Sample_rec) (s : Sample_rec) : Sample_rec :=
  if Sample_Sorted s then s else sortf s.

Lemma valid_to_sample_sort (s : Sample_rec) (r : Sample_rec) :
  valid s -> to_sample r = sample_sort (to_sample s) -> valid r /\ length (Sample_Xs r) = length (Sample_Xs s).
Proof.
  intros Hv E. destruct s as [xs ws st], r as [xs' ws' st']. unfold valid, to_sample, sample_sort in *. sproj.
  destruct st; sproj.
  - injection E as E1 E2 E3. subst xs'. split; [|reflexivity].
    destruct ws' as [|a b]; [left; reflexivity|]. destruct ws as [|c d]; cbn [go_isnil] in E2; [discriminate|].
    injection E2 as <- <-. destruct Hv as [Hv|Hv]; [discriminate | right; exact Hv].
  - destruct ws as [|c d]; cbn [go_isnil] in E.
    + injection E as E1 E2 E3. subst xs'. destruct ws'; [|discriminate].
      split; [left; reflexivity|]. apply Permutation.Permutation_length, Qsort_perm.
    + destruct Hv as [Hv|Hv]; [discriminate|].
      injection E as E1 E2 E3. subst xs'. destruct ws' as [|a b]; cbn [go_isnil] in E2; [discriminate|].
      injection E2 as E2. rewrite E2. rewrite !map_length.
      assert (Hp : length (psort (combine xs (c :: d))) = length xs).
      { rewrite (Permutation.Permutation_length (psort_perm _)), combine_length, Hv. apply Nat.min_id. }
      split; [right; reflexivity | exact Hp].
Qed.

(* Quantile for 0 < q < 1 on the sample it works on (sorted or marked Sorted) *)
Ltac unwrap_idx Hlen := unfold go_ssub, go_sadd, go_len;
  repeat match goal with |- context [wrap_s 64 ?z] => rewrite (wrap_s64_small z) by (zpow; lia) end.

Theorem tie_Sample_Quantile : forall (boundsf : Sample_rec -> Q * Q) (nanv : Q) (sortf : Sample_rec -> Sample_rec) (s : Sample_rec) (q : Q),
  valid s -> sort_ok sortf -> bounds_ok nanv boundsf -> (Z.of_nat (length (Sample_Xs s)) < 2 ^ 62)%Z ->
  qr_rel nanv (gen_Sample_Quantile boundsf nanv sortf s q) (quantile_c (1 # 3) (to_sample s) q).
Proof.
  intros boundsf nanv sortf s q Hv Hsort Hb Hlen.
  unfold gen_Sample_Quantile, quantile_c. destruct (tie_Sample_Copy s) as [Ecopy _]. rewrite ?Ecopy.
  pose proof (Hb s) as Hbs.
  destruct (Sample_Xs s) as [|x0 xt] eqn:Exs.
  { unfold to_sample. rewrite Exs. sproj. reflexivity. }
  assert (Es : s_xs (to_sample s) = x0 :: xt) by (unfold to_sample; sproj; exact Exs).
  rewrite Es. unfold go_len. cbn [length]. destruct (Z.eqb_spec (Z.of_nat (S (length xt))) 0) as [C|_]; [lia|].
  change (Qle_bool q 0) with (Qleb q (0 # 1)). change (Qle_bool 1 q) with (Qleb (1 # 1) q).
  destruct (Qleb q (0 # 1)) eqn:Eq0.
  { rewrite Hbs. destruct (sample_bounds (to_sample s)) as [[mn mx]|]; cbn [bounds_val qr_rel]; reflexivity. }
  destruct (Qleb (1 # 1) q) eqn:Eq1.
  { rewrite Hbs. destruct (sample_bounds (to_sample s)) as [[mn mx]|]; cbn [bounds_val qr_rel]; reflexivity. }
  apply Qleb_niff in Eq0. apply Qleb_niff in Eq1.
  (* the sample after the conditional sort *)
  remember (sorted_rec sortf s) as r eqn:Hrdef.
  assert (Er : to_sample r = if s_sorted (to_sample s) then to_sample s else sample_sort (sample_copy (to_sample s))).
  { rewrite Hrdef. unfold sorted_rec, sample_copy. unfold to_sample at 2. sproj. destruct (Sample_Sorted s); [reflexivity | apply Hsort; exact Hv]. }
  rewrite <- Er.
  assert (Hr : valid r /\ length (Sample_Xs r) = length (Sample_Xs s)).
  { rewrite Hrdef. unfold sorted_rec. destruct (Sample_Sorted s) eqn:Est; [split; [exact Hv | reflexivity]|].
    apply valid_to_sample_sort; [exact Hv | apply Hsort; exact Hv]. }
  destruct Hr as [Hvr Hlr]. rewrite Exs in Hlr.
  cbv zeta.
  assert (Etup : forall (a b : list Q * list Q * bool),
            a = (Sample_Xs (sortf s), Sample_Weights (sortf s), Sample_Sorted (sortf s)) ->
            b = (x0 :: xt, Sample_Weights s, Sample_Sorted s) ->
            (if negb (Sample_Sorted s) then a else b) = (Sample_Xs r, Sample_Weights r, Sample_Sorted r)).
  { intros a b -> ->. rewrite Hrdef. unfold sorted_rec. destruct (Sample_Sorted s) eqn:Est; cbn [negb]; rewrite ?Exs, ?Est; reflexivity. }
  rewrite (Etup _ _ eq_refl eq_refl). clear Etup.
  clear Hrdef. destruct r as [xs ws st]. unfold to_sample, valid in *. sproj. cbn [length] in Hlr.
  assert (Hne : xs <> []) by (destruct xs; [discriminate | discriminate]).
  assert (Hl0 : (0 < Z.of_nat (length xs))%Z) by lia.
  assert (Hl1 : (Z.of_nat (length xs) < 2 ^ 62)%Z) by (cbn [length] in Hlen; rewrite Hlr; exact Hlen).
  destruct (go_isnil ws) eqn:Enil.
  - (* unweighted: R8 position, Modf, interpolation *)
    cbn iota beta.
    match goal with |- context [go_modf ?e] => set (n := e) end.
    assert (En : n == quantile_pos (1 # 3) (length xs) q).
    { unfold n, quantile_pos, go_i2f, go_len, Qofnat. ring. }
    assert (Hn : 0 <= n).
    { rewrite En. unfold quantile_pos, Qofnat.
      assert (0 <= inject_Z (Z.of_nat (length xs))) by (change 0 with (inject_Z 0); rewrite <- Zle_Qle; lia). nra. }
    rewrite (modf_floor n Hn). cbn iota beta. rewrite !go_f2i_inject.
    unfold quantile_unw. cbv zeta. rewrite <- (Qfloor_comp _ _ En).
    unfold go_len. set (k := Qfloor n).
    unwrap_idx Hlen; zcases; try (exfalso; lia); unwrap_idx Hlen; rewrite ?idx_go by lia; cbn [qr_rel];
      rewrite <- ?En; first [reflexivity | ring].
  - (* weighted: the scan with early return *)
    destruct ws as [|w0 wt]; [discriminate|]. destruct Hvr as [Hvr|Hvr]; [discriminate|].
    unfold quantile_w. cbv zeta.
    match goal with |- context [fold_left ?stp (go_enum (w0 :: wt)) (None, ?tg)] =>
      pose proof (scan_tie xs stp (fun r0 t0 i0 w1 => eq_refl)
                    ltac:(intros t0 i0 w1; eexists; split; [|reflexivity]; reflexivity)
                    (w0 :: wt) xs [] tg (wtotal (combine xs (w0 :: wt)) * q) None eq_refl (eq_sym Hvr)) as Hscan
    end.
    unfold go_enum. change 0%Z with (Z.of_nat (@length Q [])).
    match type of Hscan with (?tgeq -> _) => assert (Htg : tgeq) end.
    { pose proof (tie_Sample_Weight (mk_Sample xs (w0 :: wt) st)) as Hw. unfold to_sample, sample_weight in Hw. sproj. cbn [go_isnil] in Hw. sproj.
      rewrite Hw. unfold wtotal, vsum. rewrite wtotal_combine by (symmetry; exact Hvr). reflexivity. }
    specialize (Hscan Htg).
    destruct (fold_left _ _ _) as [[rv|] t3]; cbn [fst] in Hscan; rewrite Hscan; cbn [qr_rel]; [reflexivity|].
    destruct xs as [|a b]; [contradiction|]. cbn [qr_rel]. rewrite last_go_idx by (try discriminate; exact Hl1). reflexivity.
Qed.

(* for 0 < q < 1: NaN exactly for the empty sample *)
Lemma quantile_nan_empty c (m : sample) q : Qle_bool q 0 = false -> Qle_bool 1 q = false ->
  quantile_c c m q = RNaN -> forall q', quantile_c c m q' = RNaN.
Proof.
  unfold quantile_c. destruct (s_xs m) eqn:Ex; [reflexivity|]. intros -> -> H. exfalso.
  cbv zeta in H. destruct (s_ws _); unfold quantile_unw, quantile_w in H; cbv zeta in H;
    repeat match type of H with context [match ?e with _ => _ end] => destruct e end; discriminate.
Qed.

(* ---------- IQR (sample.go:334-339) ---------- *)
Definition iqr_rel (nanv : Q) (g : Q) (r : qr) : Prop :=
  match r with RVal v => g == v | RNaN => g == nanv - nanv | RPanic => False end.

Theorem tie_Sample_IQR : forall (boundsf : Sample_rec -> Q * Q) (nanv : Q) (sortf : Sample_rec -> Sample_rec) (s : Sample_rec),
  valid s -> sort_ok sortf -> bounds_ok nanv boundsf -> (Z.of_nat (length (Sample_Xs s)) < 2 ^ 62)%Z ->
  iqr_rel nanv (gen_Sample_IQR boundsf nanv sortf s) (iqr_c (1 # 3) (to_sample s)).
Proof.
  intros boundsf nanv sortf s Hv Hsort Hb Hlen. unfold gen_Sample_IQR, iqr_c.
  destruct (tie_Sample_Copy s) as [Ecopy _]. rewrite ?Ecopy. cbv zeta.
  remember (sorted_rec sortf s) as r eqn:Hrdef.
  assert (Er : to_sample r = if s_sorted (to_sample s) then to_sample s else sample_sort (sample_copy (to_sample s))).
  { rewrite Hrdef. unfold sorted_rec, sample_copy. unfold to_sample at 2. sproj. destruct (Sample_Sorted s); [reflexivity | apply Hsort; exact Hv]. }
  rewrite <- Er.
  assert (Hr : valid r /\ length (Sample_Xs r) = length (Sample_Xs s)).
  { rewrite Hrdef. unfold sorted_rec. destruct (Sample_Sorted s) eqn:Est; [split; [exact Hv | reflexivity]|].
    apply valid_to_sample_sort; [exact Hv | apply Hsort; exact Hv]. }
  destruct Hr as [Hvr Hlr].
  assert (Etup : forall (a b : list Q * list Q * bool),
            a = (Sample_Xs (sortf s), Sample_Weights (sortf s), Sample_Sorted (sortf s)) ->
            b = (Sample_Xs s, Sample_Weights s, Sample_Sorted s) ->
            (if negb (Sample_Sorted s) then a else b) = (Sample_Xs r, Sample_Weights r, Sample_Sorted r)).
  { intros a b -> ->. rewrite Hrdef. unfold sorted_rec. destruct (Sample_Sorted s) eqn:Est; cbn [negb]; rewrite ?Est; reflexivity. }
  rewrite (Etup _ _ eq_refl eq_refl). clear Etup Hrdef Er.
  assert (Emk : mk_Sample (Sample_Xs r) (Sample_Weights r) (Sample_Sorted r) = r) by (destruct r; reflexivity).
  cbn iota beta. rewrite Emk.
  pose proof (tie_Sample_Quantile boundsf nanv sortf r (3 # 4) Hvr Hsort Hb ltac:(rewrite Hlr; exact Hlen)) as H3.
  pose proof (tie_Sample_Quantile boundsf nanv sortf r (1 # 4) Hvr Hsort Hb ltac:(rewrite Hlr; exact Hlen)) as H1.
  destruct (quantile_c (1 # 3) (to_sample r) (3 # 4)) as [|a|] eqn:E3;
    destruct (quantile_c (1 # 3) (to_sample r) (1 # 4)) as [|b|] eqn:E1;
    cbn [qr_rel iqr_rel] in *; try contradiction; try (rewrite H3, H1; reflexivity); exfalso.
  (* one NaN and one value cannot happen: NaN exactly for the empty sample, at every q *)
  - rewrite (quantile_nan_empty _ _ (3 # 4) eq_refl eq_refl E3) in E1. discriminate.
  - rewrite (quantile_nan_empty _ _ (1 # 4) eq_refl eq_refl E1) in E3. discriminate.
Qed.

(* ---------- non-vacuity: a sort and a bounds function satisfying the hypotheses ---------- *)
Definition of_sample (m : sample) : Sample_rec :=
  mk_Sample (s_xs m) (match s_ws m with Some ws => ws | None => [] end) (s_sorted m).
Definition sort_example (s : Sample_rec) : Sample_rec := of_sample (sample_sort (to_sample s)).
Example sort_ok_example : sort_ok sort_example.
Proof.
  intros [xs ws st] Hv. unfold sort_example, of_sample, to_sample, sample_sort, valid in *. sproj.
  destruct st; sproj.
  - destruct ws; reflexivity.
  - destruct ws as [|w ws]; cbn [go_isnil]; sproj; [reflexivity|].
    destruct Hv as [Hv|Hv]; [discriminate|]. destruct xs as [|x xs]; [discriminate|].
    assert (Hp : length (psort (combine (x :: xs) (w :: ws))) = S (length (combine xs ws))).
    { rewrite (Permutation.Permutation_length (psort_perm _)). reflexivity. }
    destruct (psort (combine (x :: xs) (w :: ws))) as [|p ps]; [discriminate|]. reflexivity.
Qed.
Example bounds_ok_example nanv : bounds_ok nanv (fun s => bounds_val nanv (sample_bounds (to_sample s))).
Proof. intros s. reflexivity. Qed.

(* the generated code runs: median and IQR of {4, 1, 3, 2} (unsorted, unweighted) and a weighted quantile *)
Example tie_Quantile_example :
  Qred (gen_Sample_Quantile (fun s => bounds_val 0 (sample_bounds (to_sample s))) 0 sort_example
          (mk_Sample [4 # 1; 1; 3 # 1; 2 # 1] [] false) (1 # 2)) = 5 # 2 /\
  Qred (gen_Sample_IQR (fun s => bounds_val 0 (sample_bounds (to_sample s))) 0 sort_example
          (mk_Sample [4 # 1; 1; 3 # 1; 2 # 1] [] false)) = 13 # 6 /\
  Qred (gen_Sample_Quantile (fun s => bounds_val 0 (sample_bounds (to_sample s))) 0 sort_example
          (mk_Sample [4 # 1; 1; 3 # 1; 2 # 1] [1; 1; 5 # 1; 1] false) (1 # 2)) = 3 # 1.
Proof. vm_compute. repeat split. Qed.

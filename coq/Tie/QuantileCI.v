(* Tie/QuantileCI.v — T-tie for C11: stats/quantileci.go QuantileCI (the greedy accumulation for
   n <= 30 and the normal-approximation branch) against Model/QuantileCI.v (qci_full, st_init / more
   / step / loop / qci_small, qci_normal), the objects of the C11 theorems.

   Opaque: BinomialDist.PMF (pmff — the ties hold for EVERY mass function; the model's greedy loop
   is generic in P too and is instantiated with binom_pmf_i in quantile_ci), the package variable
   quantileCIApproxThreshold (thresholdv), BinomialDist.NormalApprox, NormalDist.InvCDF, NormalDist.CDF.
   Both loops are "for cond" loops: gen_QuantileCI takes fuel.  The greedy loop is tied to the
   model's own fuelled [loop] iteration for iteration (go_while needs one unit more: the model
   tests the guard once more at fuel 0).  The widening loop of the normal branch
   (for cdf(l,r) < confidence && ... { l--; r++ }) is in the model too ([widen], Model/QuantileCI.v); the generated
   loop is tied to it iteration for iteration (while_widen), so the tie of that branch holds WITH widenings:
   with fuel beyond the model's bound widen_fuel the generated code returns exactly qci_normal. *)
From Coq Require Import ZArith NArith QArith Qround Qabs List Bool Lia Lqa.
From MM Require Import Base.Num Base.GoSem Model.QuantileCI Proofs.TicksLinear Proofs.QuantileCI.
From MMGen Require Import Gen_stats_types Gen_stats_quantileci.
Import ListNotations.
Local Open Scope Q_scope.

Ltac rproj := cbn [QuantileCIResult_Quantile QuantileCIResult_N QuantileCIResult_Confidence QuantileCIResult_LoOrder
                   QuantileCIResult_HiOrder QuantileCIResult_Ambiguous BinomialDist_N BinomialDist_P NormalDist_Mu
                   r_lo r_hi r_conf r_amb s_l s_r s_acc s_amb] in *.

(* the result record the code returns for a model result *)
Definition to_res (q : Q) (n : Z) (r : qres) : QuantileCIResult_rec :=
  mk_QuantileCIResult q n (r_conf r) (r_lo r) (r_hi r) (r_amb r).

Definition small62 (z : Z) : Prop := (- 2 ^ 61 < z < 2 ^ 61)%Z.
Definition small60 (z : Z) : Prop := (- 2 ^ 60 < z < 2 ^ 60)%Z.
Ltac z62 := unfold small62, small60 in *; zpow; change (2 ^ 61)%Z with 2305843009213693952%Z in *; change (2 ^ 60)%Z with 1152921504606846976%Z in *; lia.
Lemma sadd1 z : small62 z -> go_sadd 64 z 1 = (z + 1)%Z.
Proof. intros H. unfold go_sadd. apply wrap_s64_small. z62. Qed.
Lemma ssub1 z : small62 z -> go_ssub 64 z 1 = (z - 1)%Z.
Proof. intros H. unfold go_ssub. apply wrap_s64_small. z62. Qed.

(* ---------- confidence >= 1 (quantileci.go:89-94) ---------- *)
Theorem tie_QuantileCI_full : forall ncdff ninvcdff normapproxf pmff thresholdv fuel (n : Z) (q c : Q),
  small62 n -> 1 <= c ->
  gen_QuantileCI ncdff ninvcdff normapproxf pmff thresholdv fuel n q c = Some (to_res q n (qci_full n)).
Proof.
  intros ncdff ninvcdff normapproxf pmff thresholdv fuel n q c Hn Hc. unfold gen_QuantileCI. cbv zeta.
  apply Qleb_iff in Hc. rewrite Hc. rewrite sadd1 by exact Hn. reflexivity.
Qed.

(* ---------- n <= threshold: the greedy accumulation (quantileci.go:124-191) ---------- *)
(* the mass function the code evaluates: samp.PMF(float64(k)) *)
Definition Pof (pmff : BinomialDist_rec -> Q -> Q) (n : Z) (q : Q) : Z -> Q :=
  fun k => pmff (mk_BinomialDist n q) (inject_Z k).

(* the loop state of the generated code, in the order of the declarations: (res.Ambiguous, l, r, accum, lp, rp) *)
Definition of_st (P : Z -> Q) (s : st) : bool * Z * Z * Q * Q * Q :=
  (s_amb s, s_l s, s_r s, s_acc s, lp P s, rp P s).

(* l and r stay far from the int64 bounds for f more iterations *)
Definition rng (f : nat) (s : st) : Prop :=
  (Z.abs (s_l s) + Z.of_nat f + 3 < 2 ^ 61)%Z /\ (Z.abs (s_r s) + Z.of_nat f + 3 < 2 ^ 61)%Z.

Section Greedy.
  Variables (P : Z -> Q) (c : Q).
  Variable cond : bool * Z * Z * Q * Q * Q -> bool.
  Variable body : bool * Z * Z * Q * Q * Q -> bool * Z * Z * Q * Q * Q.
  Hypothesis cond_ok : forall s, cond (of_st P s) = more P c s.
  Hypothesis body_ok : forall s, rng 1 s -> body (of_st P s) = of_st P (step P s).

  Lemma step_rng f s : rng (S f) s -> rng f (step P s).
  Proof.
    unfold rng, step. cbv zeta. intros [H1 H2]. destruct (Qle_bool _ _); rproj; split; lia.
  Qed.

  Lemma greedy_tie : forall f s, rng (S f) s ->
    go_while (S f) cond body (of_st P s) = option_map (of_st P) (loop P c f s).
  Proof.
    induction f as [|f IH]; intros s Hr.
    - cbn [go_while loop]. rewrite cond_ok. destruct (more P c s); reflexivity.
    - rewrite go_while_S. cbn [loop]. rewrite cond_ok. destruct (more P c s); [|reflexivity].
      rewrite body_ok by (destruct Hr as [H1 H2]; split; lia). apply IH. apply step_rng. exact Hr.
  Qed.
End Greedy.

Definition res_of_st (q : Q) (n : Z) (o : option st) : option QuantileCIResult_rec :=
  match o with
  | Some s => Some (to_res q n (clampR n (s_l s) (s_r s) (s_acc s) (s_amb s)))
  | None => None
  end.

Lemma inject_Z_sub1 a : inject_Z a - (1 # 1) == inject_Z (a - 1).
Proof. unfold Qeq, Qminus, Qplus, Qopp, inject_Z. simpl. lia. Qed.

Lemma mode_x_gen n q : small62 n ->
  (if Qeqb q (0 # 1) then 0%Z else go_f2i (go_ceil (go_i2f (go_sadd 64 n 1) * q) - (1 # 1))) = mode_x n q.
Proof.
  intros Hn. unfold mode_x. change (Qeq_bool q 0) with (Qeqb q (0 # 1)). destruct (Qeqb q (0 # 1)); [reflexivity|].
  rewrite sadd1 by exact Hn. unfold go_ceil, go_i2f. apply go_f2i_int. apply inject_Z_sub1.
Qed.

Theorem tie_QuantileCI_small_fuel : forall ncdff ninvcdff normapproxf pmff thresholdv (f : nat) (n : Z) (q c : Q),
  small62 n -> c < 1 -> (n <= thresholdv)%Z ->
  (Z.abs (mode_x n q) + Z.of_nat f + 5 < 2 ^ 61)%Z ->
  gen_QuantileCI ncdff ninvcdff normapproxf pmff thresholdv (S f) n q c =
  res_of_st q n (loop (Pof pmff n q) c f (st_init (Pof pmff n q) (mode_x n q))).
Proof.
  intros ncdff ninvcdff normapproxf pmff thresholdv f n q c Hn Hc Hth Hx. unfold gen_QuantileCI. cbv zeta. rproj.
  apply Qleb_niff in Hc. rewrite Hc.
  destruct (Z.leb_spec n thresholdv) as [_|C]; [|lia].
  set (P := Pof pmff n q).
  (* the start: x, accum, l, r, lp, rp, Ambiguous *)
  match goal with |- context [if Qeqb q (0 # 1) then ?a else ?b] =>
    replace (if Qeqb q (0 # 1) then a else b) with (mode_x n q)
      by (symmetry; first [apply (mode_x_gen n q Hn) | rewrite <- (mode_x_gen n q Hn); destruct (Qeqb q (0 # 1)); reflexivity]) end.
  set (x := mode_x n q) in *.
  assert (Hx1 : small62 x) by z62. assert (Hx2 : small62 (x + 1)) by z62.
  rewrite !(sadd1 x), !(ssub1 x) by assumption. rewrite (sadd1 n) by exact Hn.
  (* the loop *)
  match goal with |- context [go_while (S f) ?cnd ?bdy ?init] =>
    change init with (of_st P (st_init P x));
    rewrite (greedy_tie P c cnd bdy)
  end.
  - destruct (loop P c f (st_init P x)) as [[l r acc amb]|]; cbn [option_map of_st res_of_st]; rproj; [|reflexivity].
    unfold to_res, clampR. rproj. reflexivity.
  - intros [l r acc amb]. unfold of_st, more, lp, rp. rproj. unfold Qltb, Qleb.
    repeat match goal with |- context [Qle_bool ?a ?b] => destruct (Qle_bool a b) end; reflexivity.
  - intros [l r acc amb] [Hl Hr]. rproj. unfold of_st, step, lp, rp. rproj. cbv zeta.
    rewrite !(ssub1 l), !(sadd1 r), !(ssub1 (l - 1)) by z62.
    unfold Qltb, Qleb, Qeqb, P, Pof, go_i2f.
    repeat match goal with |- context [Qle_bool ?a ?b] => destruct (Qle_bool a b) end; cbn [negb]; rproj; reflexivity.
  - unfold rng, st_init. rproj. split; z62.
Qed.

(* with the model's own fuel n+1: exactly qci_small, the object of C11_small_interval, C11_small_nested,
   C11_small_all_c ... (instantiated there with P = binom_pmf_i n q) *)
Theorem tie_QuantileCI_small : forall ncdff ninvcdff normapproxf pmff thresholdv (n : Z) (q c : Q),
  (0 <= n < 2 ^ 31)%Z -> (Z.abs (mode_x n q) < 2 ^ 32)%Z -> c < 1 -> (n <= thresholdv)%Z ->
  gen_QuantileCI ncdff ninvcdff normapproxf pmff thresholdv (S (Z.to_nat (n + 1))) n q c =
  option_map (to_res q n) (qci_small (Pof pmff n q) n (mode_x n q) c).
Proof.
  intros ncdff ninvcdff normapproxf pmff thresholdv n q c Hn Hx Hc Hth.
  rewrite tie_QuantileCI_small_fuel; [| z62 | exact Hc | exact Hth |].
  - unfold qci_small, res_of_st. destruct (loop _ _ _ _); reflexivity.
  - change (2 ^ 31)%Z with 2147483648%Z in *. change (2 ^ 32)%Z with 4294967296%Z in *.
    change (2 ^ 61)%Z with 2305843009213693952%Z. lia.
Qed.

(* more fuel than the model's does not change an answer *)
Theorem tie_QuantileCI_small_more_fuel : forall ncdff ninvcdff normapproxf pmff thresholdv (f f' : nat) (n : Z) (q c : Q) r,
  gen_QuantileCI ncdff ninvcdff normapproxf pmff thresholdv f n q c = Some r -> c < 1 -> (n <= thresholdv)%Z -> (f <= f')%nat ->
  gen_QuantileCI ncdff ninvcdff normapproxf pmff thresholdv f' n q c = Some r.
Proof.
  intros ncdff ninvcdff normapproxf pmff thresholdv f f' n q c r H Hc Hth Hf. revert H. unfold gen_QuantileCI. cbv zeta. rproj.
  apply Qleb_niff in Hc. rewrite Hc. destruct (Z.leb_spec n thresholdv) as [_|C]; [|lia].
  match goal with |- context [go_while f ?cnd ?bdy ?init] =>
    destruct (go_while f cnd bdy init) as [s|] eqn:E; [|discriminate];
    rewrite (go_while_mono cnd bdy f f' init s Hf E) end.
  exact (fun H => H).
Qed.

(* ---------- n > threshold: the normal approximation (quantileci.go:192-279) ---------- *)
Definition band_of (ncdff : NormalDist_rec -> Q -> Q) (norm : NormalDist_rec) : Z -> Z -> Q :=
  fun l r => ncdff norm (inject_Z r - (1 # 2)) - ncdff norm (inject_Z l - (1 # 2)).

Lemma floor_half_int k : Qfloor (inject_Z k + (1 # 2)) = k.
Proof.
  apply Proofs.TicksLinear.floor_unique.
  - rewrite <- (Qplus_0_r (inject_Z k)) at 1. apply Qplus_le_r. discriminate.
  - apply Qplus_lt_r. reflexivity.
Qed.

(* the widening loop (quantileci.go: for cdf(l, r) < confidence && (l > 0 || r < n+1) { l--; r++ }) against the
   model's [widen]: with a guard that is the model's [widen_more] and a body that is (l-1, r+1) on small
   integers, and when the model's run has really stopped (its guard is false at its result), the generated
   loop with one unit more fuel returns the model's result *)
Definition small59 (z : Z) : Prop := (- 2 ^ 59 < z < 2 ^ 59)%Z.
Ltac z59 := unfold small62, small60, small59 in *; zpow; change (2 ^ 61)%Z with 2305843009213693952%Z in *;
            change (2 ^ 60)%Z with 1152921504606846976%Z in *; change (2 ^ 59)%Z with 576460752303423488%Z in *; lia.

Lemma widen_shape (B : Z -> Z -> Q) n c : forall f l r,
  exists k, (0 <= k <= Z.of_nat f)%Z /\ widen B f n c l r = ((l - k)%Z, (r + k)%Z).
Proof.
  induction f as [|f IH]; intros l r.
  - exists 0%Z. cbn [widen]. rewrite Z.sub_0_r, Z.add_0_r. split; [lia | reflexivity].
  - cbn [widen]. destruct (widen_more B n c l r).
    + destruct (IH (l - 1)%Z (r + 1)%Z) as (k & Hk & E). exists (k + 1)%Z. split; [lia|].
      rewrite E. f_equal; lia.
    + exists 0%Z. rewrite Z.sub_0_r, Z.add_0_r. split; [lia | reflexivity].
Qed.

Lemma while_widen (B : Z -> Z -> Q) n c (cnd : Z * Z -> bool) (bdy : Z * Z -> Z * Z) :
  (forall l r, cnd (l, r) = widen_more B n c l r) ->
  (forall l r, small62 l -> small62 r -> bdy (l, r) = ((l - 1)%Z, (r + 1)%Z)) ->
  forall f l r, (Z.abs l + Z.of_nat f < 2 ^ 61)%Z -> (Z.abs r + Z.of_nat f < 2 ^ 61)%Z ->
  widen_more B n c (fst (widen B f n c l r)) (snd (widen B f n c l r)) = false ->
  go_while (S f) cnd bdy (l, r) = Some (widen B f n c l r).
Proof.
  intros Hc Hb. induction f as [|f IH]; intros l r Hl Hr Hstop.
  - cbn [widen fst snd] in *. rewrite go_while_S, Hc, Hstop. reflexivity.
  - rewrite go_while_S, Hc. cbn [widen] in *. destruct (widen_more B n c l r) eqn:E; [|reflexivity].
    rewrite Hb by (unfold small62; zpow; change (2 ^ 61)%Z with 2305843009213693952%Z in *; lia).
    apply IH; [zpow; change (2 ^ 61)%Z with 2305843009213693952%Z in *; lia
              | zpow; change (2 ^ 61)%Z with 2305843009213693952%Z in *; lia | exact Hstop].
Qed.

(* the whole normal branch, widening loop included: with fuel beyond the model's own bound
   [widen_fuel] = max(l, n+1-r) the generated code returns exactly the model's [qci_normal] — the object of
   C11_normal_band, C11_normal_conf_ge_c, C11_normal_orders, C11_normal_no_widening *)
Theorem tie_QuantileCI_normal : forall ncdff ninvcdff normapproxf pmff thresholdv (f : nat) (n : Z) (q c : Q),
  small59 n -> c < 1 -> (thresholdv < n)%Z ->
  let norm := normapproxf (mk_BinomialDist n q) in
  let l1 := ninvcdff norm (qci_alpha c) in
  let r1 := (2 # 1) * NormalDist_Mu norm - l1 in
  small59 (Qfloor (l1 - (1 # 2))) -> small59 (Qceiling (r1 - (1 # 2))) ->
  let l0 := (Qfloor (l1 - (1 # 2)) + 1)%Z in
  let r := (Qceiling (r1 - (1 # 2)) + 1)%Z in
  let l := if (r <=? l0)%Z then (r - 1)%Z else l0 in
  (widen_fuel n l r <= f)%nat ->
  gen_QuantileCI ncdff ninvcdff normapproxf pmff thresholdv (S f) n q c =
  Some (to_res q n (qci_normal (band_of ncdff norm) n c l1 r1)).
Proof.
  intros ncdff ninvcdff normapproxf pmff thresholdv f n q c Hn Hc Hth norm l1 r1 Hl1 Hr1 l0 r l Hf.
  unfold gen_QuantileCI. cbv zeta. rproj.
  apply Qleb_niff in Hc. rewrite Hc. destruct (Z.leb_spec n thresholdv) as [C|_]; [lia|].
  fold norm. change (if Qltb (1 # 2) (((1 # 1) - c) / (2 # 1)) then 1 # 2 else ((1 # 1) - c) / (2 # 1)) with (qci_alpha c).
  fold l1. fold r1. unfold go_floor, go_ceil. rewrite !go_f2i_inject, !floor_half_int.
  rewrite !sadd1 by z59. fold l0. fold r.
  assert (Hl0 : small60 l0) by (unfold l0; z59). assert (Hr : small60 r) by (unfold r; z59).
  rewrite (ssub1 r) by z59.
  change (if (r <=? l0)%Z then (r - 1)%Z else l0) with l.
  assert (Hl : small60 l) by (unfold l; destruct (r <=? l0)%Z; z59).
  set (B := band_of ncdff norm).
  set (f0 := widen_fuel n l r) in *.
  assert (Bl : (- 2 ^ 59 <= l <= 2 ^ 59)%Z) by (unfold l, l0, r; destruct (_ <=? _)%Z; z59).
  assert (Br : (- 2 ^ 59 <= r <= 2 ^ 59)%Z) by (unfold r; z59).
  assert (Hf0 : (Z.of_nat f0 <= 2 ^ 60 + 1)%Z).
  { unfold f0, widen_fuel. z59. }
  (* the model's run stops within its own fuel *)
  destruct (Proofs.QuantileCI.widen_spec B n c f0 l r) as (k & Hk & Ek & Estop & _).
  { unfold f0, widen_fuel. lia. }
  destruct (widen_shape B n c f0 l r) as (k' & Hk' & Ek'). rewrite Ek in Ek'. injection Ek' as E1 _.
  assert (k' = k) by lia. subst k'.
  (* the generated loop *)
  match goal with |- context [go_while (S f) ?cnd ?bdy (l, r)] =>
    assert (Hw : go_while (S f) cnd bdy (l, r) = Some (widen B f0 n c l r)) end.
  { apply (go_while_mono _ _ (S f0) (S f)); [lia|].
    apply (while_widen B n c).
    - intros a b. cbv beta iota. rewrite ?(sadd1 n) by z59. reflexivity.
    - intros a b Ha Hb. cbv beta iota zeta. rewrite ssub1, sadd1 by assumption. reflexivity.
    - z59.
    - z59.
    - rewrite Ek. cbn [fst snd]. exact Estop. }
  rewrite Hw, Ek. clear Hw.
  set (lw := (l - k)%Z). set (rw := (r + k)%Z).
  assert (Hlw : small62 lw) by (unfold lw; z59). assert (Hrw : small62 rw) by (unfold rw; z59).
  rewrite (ssub1 rw) by exact Hrw. rewrite ?(sadd1 n) by z59.
  unfold qci_normal. cbv zeta. fold l0. fold r.
  change (if (r <=? l0)%Z then (r - 1)%Z else l0) with l.
  fold B. fold f0. rewrite Ek. fold lw. fold rw.
  change (Qle_bool c (B lw (rw - 1)%Z)) with (Qleb c (B lw (rw - 1)%Z)).
  repeat match goal with |- context [ncdff norm (go_i2f ?b - (1 # 2)) - ncdff norm (go_i2f ?a - (1 # 2))] =>
    change (ncdff norm (go_i2f b - (1 # 2)) - ncdff norm (go_i2f a - (1 # 2))) with (B a b) end.
  destruct ((lw <? rw - 1)%Z && Qleb c (B lw (rw - 1)%Z) && Qltb (B lw (rw - 1)%Z) (B lw rw));
    cbv iota beta;
    match goal with |- context [(lw <=? 0)%Z && (n + 1 <=? ?rr)%Z] => destruct ((lw <=? 0)%Z && (n + 1 <=? rr)%Z) end;
    unfold to_res, clampR; rproj; reflexivity.
Qed.

(* ---------- QuantileCIResult.SampleCI (quantileci.go:46-71) ---------- *)
(* Sample.Sort and Sample.Quantile are opaque (sortf, quantilef; Quantile itself is tied in
   Tie/Quantile.v, property C10); math.Inf is the opaque inff; the two explicit panics are panicv.
   An order statistic outside the sample makes Go panic (index out of range) and the model
   return SciPanic; the generated code is total there, so the tie assumes LoOrder <= N, 1 <= HiOrder. *)
From MMGen Require Import Gen_stats_sample.
Definition xr (inff : Z -> Q) (x : xreal) : Q :=
  match x with XInf true => inff (-1)%Z | XInf false => inff 1%Z | XFin v => v | XNaN => 0 end.

Lemma gen_Sample_Copy_id (s : Sample_rec) : gen_Sample_Copy s = s.
Proof.
  destruct s as [xs ws st]. unfold gen_Sample_Copy. cbn [Sample_Xs Sample_Weights Sample_Sorted]. cbv zeta.
  rewrite go_copy_full by (rewrite go_make_length; unfold go_len; lia).
  destruct ws as [|w ws]; cbn [go_isnil negb]; [reflexivity|].
  rewrite go_copy_full by (rewrite go_make_length; unfold go_len; lia). reflexivity.
Qed.

Theorem tie_SampleCI : forall (inff : Z -> Q) (panicv : Q * Q * Q) (quantilef : Sample_rec -> Q -> Q)
    (sortf : Sample_rec -> Sample_rec) (ci : QuantileCIResult_rec) (s : Sample_rec),
  (forall s0, Sample_Xs (sortf s0) = QSort.sort (Sample_Xs s0)) ->
  small62 (QuantileCIResult_LoOrder ci) -> small62 (QuantileCIResult_HiOrder ci) ->
  let N := QuantileCIResult_N ci in let lo := QuantileCIResult_LoOrder ci in let hi := QuantileCIResult_HiOrder ci in
  let g := gen_QuantileCIResult_SampleCI inff panicv quantilef sortf ci s in
  let s' := if Sample_Sorted s then s else sortf s in
  match sample_ci N lo hi (negb (go_isnil (Sample_Weights s))) (Sample_Sorted s) (Sample_Xs s) with
  | SciOk a b sorted =>
      Sample_Xs s' = sorted /\ g = (quantilef s' (QuantileCIResult_Quantile ci), xr inff a, xr inff b)
  | SciPanic =>
      (* the explicit panics; or an order statistic outside the sample *)
      (negb (go_isnil (Sample_Weights s)) || negb (go_len (Sample_Xs s) =? N)%Z = true /\ g = panicv) \/
      (N < lo \/ hi < 1)%Z
  end.
Proof.
  intros inff panicv quantilef sortf [Q0 N0 C0 lo hi A0] s Hsort Hlo Hhi. rproj. cbv zeta.
  unfold gen_QuantileCIResult_SampleCI, sample_ci. rproj. cbv zeta. rewrite gen_Sample_Copy_id. unfold go_len.
  destruct (negb (go_isnil (Sample_Weights s))) eqn:Ew; cbn [orb].
  { left. split; reflexivity. }
  destruct (Z.eqb_spec (Z.of_nat (length (Sample_Xs s))) N0) as [En|En]; cbn [negb].
  2:{ left. split; reflexivity. }
  assert (Etup : forall a b : list Q * list Q * bool,
            a = (Sample_Xs (sortf s), Sample_Weights (sortf s), Sample_Sorted (sortf s)) ->
            b = (Sample_Xs s, Sample_Weights s, Sample_Sorted s) ->
            (if negb (Sample_Sorted s) then a else b) =
            (let s' := if Sample_Sorted s then s else sortf s in (Sample_Xs s', Sample_Weights s', Sample_Sorted s'))).
  { intros a b -> ->. destruct (Sample_Sorted s) eqn:Est; cbn [negb]; cbv zeta; rewrite ?Est; reflexivity. }
  rewrite (Etup _ _ eq_refl eq_refl). clear Etup. cbv zeta.
  set (s' := if Sample_Sorted s then s else sortf s).
  assert (Exs : Sample_Xs s' = if Sample_Sorted s then Sample_Xs s else QSort.sort (Sample_Xs s)).
  { unfold s'. destruct (Sample_Sorted s); [reflexivity | apply Hsort]. }
  rewrite <- Exs.
  assert (Emk : mk_Sample (Sample_Xs s') (Sample_Weights s') (Sample_Sorted s') = s') by (destruct s'; reflexivity).
  rewrite Emk. rewrite !(ssub1 lo), !(ssub1 hi) by assumption.
  destruct (Z.ltb_spec lo 1) as [Hl|Hl]; destruct (Z.leb_spec (Z.of_nat (length (Sample_Xs s'))) (hi - 1)) as [Hh|Hh]; cbn [option_map]; cbv beta iota.
  - split; reflexivity.
  - destruct (Z.ltb_spec hi 1) as [Hh1|Hh1]; [right; right; exact Hh1|].
    destruct (nth_error (Sample_Xs s') (Z.to_nat (hi - 1))) as [v|] eqn:Ev; cbn [option_map]; cbv beta iota.
    + split; [reflexivity|]. unfold go_idx. rewrite (nth_error_nth _ _ _ Ev). reflexivity.
    + apply nth_error_None in Ev. lia.
  - destruct (nth_error (Sample_Xs s') (Z.to_nat (lo - 1))) as [v|] eqn:Ev; cbn [option_map]; cbv beta iota.
    + split; [reflexivity|]. unfold go_idx. rewrite (nth_error_nth _ _ _ Ev). reflexivity.
    + right. left. apply nth_error_None in Ev.
      assert (length (Sample_Xs s') = length (Sample_Xs s)).
      { rewrite Exs. destruct (Sample_Sorted s); [reflexivity|]. symmetry. apply Permutation.Permutation_length, QSort.Permuted_sort. }
      lia.
  - destruct (nth_error (Sample_Xs s') (Z.to_nat (lo - 1))) as [v|] eqn:Ev; cbn [option_map]; cbv beta iota.
    + destruct (Z.ltb_spec hi 1) as [Hh1|Hh1]; [right; right; exact Hh1|].
      destruct (nth_error (Sample_Xs s') (Z.to_nat (hi - 1))) as [w|] eqn:Ew2; cbn [option_map]; cbv beta iota.
      * split; [reflexivity|]. unfold go_idx. rewrite (nth_error_nth _ _ _ Ev), (nth_error_nth _ _ _ Ew2). reflexivity.
      * apply nth_error_None in Ew2. lia.
    + right. left. apply nth_error_None in Ev.
      assert (length (Sample_Xs s') = length (Sample_Xs s)).
      { rewrite Exs. destruct (Sample_Sorted s); [reflexivity|]. symmetry. apply Permutation.Permutation_length, QSort.Permuted_sort. }
      lia.
Qed.

(* ---------- the generated code runs (n = 10, q = 1/2, c = 9/10, a mass function with mode 5) ---------- *)
Example tie_QuantileCI_example :
  let pm := fun (d : BinomialDist_rec) (k : Q) => if Qleb 0 k && Qleb k (10 # 1) then (1 # 11) else 0 in
  gen_QuantileCI (fun _ _ => 0) (fun _ _ => 0) (fun _ => mk_NormalDist 0 1) pm 30 12 10 (1 # 2) (9 # 10) =
  option_map (to_res (1 # 2) 10) (qci_small (Pof pm 10 (1 # 2)) 10 (mode_x 10 (1 # 2)) (9 # 10)) /\
  gen_QuantileCI (fun _ _ => 0) (fun _ _ => 0) (fun _ => mk_NormalDist 0 1) pm 30 3 10 (1 # 2) (9 # 10) = None.
Proof. split; vm_compute; reflexivity. Qed.

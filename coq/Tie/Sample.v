(* Tie/Sample.v — T-tie for stats/sample.go Bounds on []float64, property C09 (Mean, Variance,
   StdDev: Tie/SampleMeanVar.v; vec/vec.go Sum and Linspace: Tie/Vec.v, Tie/Linspace.v): the loop
   generated from the current source computes [bounds] of Model/Sample.v.  math.NaN() is opaque
   (nanv).  Compiled by bin/ttie. *)
From Coq Require Import ZArith NArith QArith Qround Qabs List Lia Lqa.
From MM Require Import Base.Num Base.GoSem Model.Sample.
From MMGen Require Import Gen_stats_sample.
Import ListNotations.
Local Open Scope Q_scope.

(* ---------- Bounds ---------- *)
Lemma bounds_fold (f : Q * Q -> Q -> Q * Q) : (forall mn mx x, f (mn, mx) x = bounds_step (mn, mx) x) ->
  forall xs acc, fold_left f xs acc = fold_left bounds_step xs acc.
Proof.
  intros Hf. induction xs as [|x xs IH]; intros [mn mx]; cbn [fold_left]; [reflexivity|]. rewrite Hf. apply IH.
Qed.

Theorem tie_Bounds : forall (nanv : Q) (xs : list Q),
  gen_Bounds nanv xs = match bounds xs with None => (nanv, nanv) | Some b => b end.
Proof.
  intros nanv xs. unfold gen_Bounds, bounds. cbv zeta. destruct xs as [|x0 xs]; [reflexivity|].
  unfold go_len. destruct (Z.eqb_spec (Z.of_nat (length (x0 :: xs))) 0) as [E|_]; [simpl in E; lia|].
  unfold go_idx. cbn [Z.to_nat nth].
  match goal with |- (let '(a, b) := fold_left ?f ?l ?i in (a, b)) = _ =>
    transitivity (fold_left f l i);
      [destruct (fold_left f l i); reflexivity | apply (bounds_fold f (fun mn mx x => eq_refl))] end.
Qed.

(* Tie/SampleMeanVar.v — T-tie for stats/sample.go Mean, Variance, StdDev on []float64 (property
   C09; they are also callees of the t-tests and MeanCI, property C04: Tie/TTest.v imports this
   file): the loops generated from the current source compute mean_loop / var_loop of
   Model/Sample.v.  math.NaN() and math.Sqrt are opaque (nanv, sqrtf).  The slice length is
   assumed below 2^62 (the index i+1 is a Go int).  Compiled by bin/ttie. *)
From Coq Require Import ZArith NArith QArith Qround Qabs List Lia Lqa.
From MM Require Import Base.Num Base.GoSem Model.Sample.
From MMGen Require Import Gen_stats_sample.
Import ListNotations.
Local Open Scope Q_scope.

Definition fres_val (nanv : Q) (r : fres) : Q := match r with FVal v => v | _ => nanv end.

(* ---------- Mean ---------- *)
Lemma mean_fold (f : Q -> Z * Q -> Q) :
  (forall m i x, f m (i, x) = m + (x - m) / go_i2f (go_sadd 64 i 1)) ->
  forall xs k m m', m == m' -> (Z.of_nat (k + length xs) < 4611686018427387904)%Z ->
  fold_left f (enum_from (Z.of_nat k) xs) m == mean_loop xs k m'.
Proof.
  intros Hf. induction xs as [|x xs IH]; intros k m m' H Hk; cbn [fold_left enum_from mean_loop]; [exact H|].
  replace (Z.of_nat k + 1)%Z with (Z.of_nat (S k)) by lia.
  cbn [length] in Hk. apply IH; [| lia].
  rewrite Hf, Qred_correct. unfold go_sadd, go_i2f, Qofnat.
  rewrite wrap_s64_small by lia. replace (Z.of_nat k + 1)%Z with (Z.of_nat (S k)) by lia.
  rewrite H. reflexivity.
Qed.

Theorem tie_Mean : forall (nanv : Q) (xs : list Q), len_ok xs ->
  gen_Mean nanv xs == fres_val nanv (mean xs).
Proof.
  intros nanv xs Hl. unfold gen_Mean, mean, len_ok in *. cbv zeta. unfold go_len.
  destruct xs as [|x0 xs]; [reflexivity|].
  destruct (Z.eqb_spec (Z.of_nat (length (x0 :: xs))) 0) as [E|_]; [simpl in E; lia|].
  unfold fres_val, go_enum.
  apply (mean_fold _ (fun m i x => eq_refl) (x0 :: xs) 0%nat); [reflexivity | exact Hl].
Qed.

(* ---------- Variance (Welford) ---------- *)
Lemma var_fold (f : Q * Q -> Z * Q -> Q * Q) :
  (forall mean M2 n x, f (mean, M2) (n, x) =
     (mean + (x - mean) / go_i2f (go_sadd 64 n 1),
      M2 + (x - mean) * (x - (mean + (x - mean) / go_i2f (go_sadd 64 n 1))))) ->
  forall xs k mean M2 mean' M2', mean == mean' -> M2 == M2' ->
  (Z.of_nat (k + length xs) < 4611686018427387904)%Z ->
  snd (fold_left f (enum_from (Z.of_nat k) xs) (mean, M2)) == snd (var_loop xs k mean' M2').
Proof.
  intros Hf. induction xs as [|x xs IH]; intros k mean M2 mean' M2' H1 H2 Hk; cbn [fold_left enum_from var_loop snd]; [exact H2|].
  replace (Z.of_nat k + 1)%Z with (Z.of_nat (S k)) by lia. rewrite Hf. cbn [length] in Hk.
  unfold go_sadd, go_i2f. rewrite wrap_s64_small by lia.
  replace (Z.of_nat k + 1)%Z with (Z.of_nat (S k)) by lia. fold (Qofnat (S k)).
  apply IH; [| | lia].
  - rewrite Qred_correct, H1. reflexivity.
  - rewrite !Qred_correct, H1, H2. reflexivity.
Qed.

Theorem tie_Variance : forall (nanv : Q) (xs : list Q), len_ok xs ->
  gen_Variance nanv xs == fres_val nanv (variance xs).
Proof.
  intros nanv xs Hl. unfold gen_Variance, variance, len_ok in *. cbv zeta. unfold go_len.
  destruct xs as [|x0 [|x1 xs]]; [reflexivity | reflexivity |].
  destruct (Z.eqb_spec (Z.of_nat (length (x0 :: x1 :: xs))) 0) as [E|_]; [simpl in E; lia|].
  destruct (Z.leb_spec (Z.of_nat (length (x0 :: x1 :: xs))) 1) as [E|_]; [simpl in E; lia|].
  unfold fres_val, go_enum.
  match goal with |- (let '(_, y) := fold_left ?f ?l ?i in y / ?d) == _ =>
    transitivity (snd (fold_left f l i) / d); [destruct (fold_left f l i); reflexivity|] end.
  rewrite (var_fold _ (fun mean M2 n x => eq_refl) (x0 :: x1 :: xs) 0%nat 0 0 0 0) by (reflexivity || exact Hl).
  unfold go_ssub, go_i2f. rewrite wrap_s64_small by (simpl length in *; lia).
  replace (Z.of_nat (length (x0 :: x1 :: xs)) - 1)%Z with (Z.of_nat (length (x0 :: x1 :: xs) - 1)) by (simpl length; lia).
  reflexivity.
Qed.

(* StdDev is the opaque square root of Variance (the model never takes square roots) *)
Theorem tie_StdDev : forall (nanv : Q) (sqrtf : Q -> Q) (xs : list Q),
  gen_StdDev nanv sqrtf xs = sqrtf (gen_Variance nanv xs).
Proof. reflexivity. Qed.

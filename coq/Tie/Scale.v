(* Tie/Scale.v — T-tie for scale/linear.go (Map, Unmap, SetClamp) and scale/util.go (clamp),
   property C16: definitions generated from the current Go source (MMGen.Gen_scale_linear, Gen_scale_util) agree
   with the model Model/Scale.v.  Compiled by bin/ttie, not by the main build. *)
From Coq Require Import ZArith NArith QArith Qround Qabs List Lia Lqa.
From MM Require Import Base.Num Base.GoSem Model.Scale.
From MMGen Require Import Gen_scale_types Gen_scale_util Gen_scale_linear Gen_scale_log.
Local Open Scope Q_scope.

(* the model record leaves out Base (ticks only) *)
Definition to_model (s : Linear_rec) : linear := mkLin (Linear_Min s) (Linear_Max s) (Linear_Clamp s).

Theorem tie_clamp : forall x : Q, gen_clamp x == clampq x.
Proof. intros x. unfold gen_clamp, clampq. tie_q. Qed.

Theorem tie_Linear_Map : forall (s : Linear_rec) (x : Q), gen_Linear_Map s x == lin_map (to_model s) x.
Proof.
  intros [mn mx b cl] x. unfold gen_Linear_Map, lin_map, to_model, gen_clamp, clampq.
  cbn [Linear_Min Linear_Max Linear_Clamp l_min l_max l_clamp]. tie_q.
Qed.

Theorem tie_Linear_Unmap : forall (s : Linear_rec) (y : Q), gen_Linear_Unmap s y == lin_unmap (to_model s) y.
Proof.
  intros [mn mx b cl] y. unfold gen_Linear_Unmap, lin_unmap, to_model.
  cbn [Linear_Min Linear_Max Linear_Clamp l_min l_max l_clamp]. tie_q.
Qed.

Theorem tie_Linear_SetClamp : forall (s : Linear_rec) (c : bool),
  to_model (gen_Linear_SetClamp s c) = lin_set_clamp (to_model s) c.
Proof.
  intros [mn mx b cl] c. unfold gen_Linear_SetClamp, lin_set_clamp, to_model.
  cbn [Linear_Min Linear_Max Linear_Clamp l_min l_max l_clamp]. reflexivity.
Qed.

(* ====================================================================== *)
(* scale/log.go: ebounds, Map, Unmap, SetClamp — for EVERY log and exp      *)
(* ====================================================================== *)
(* math.Log, math.Exp and math.NaN() are the opaque parameters logf, expf, nanv.  Model/Scale.v
   keeps the value of the interpolation formula symbolic ([lmap], [lunmap], "stands for ...");
   the two functions below give those symbols their meaning for an arbitrary logf / expf, and
   the tie shows that the generated code computes exactly that — i.e. the decision structure
   (sign folding, NaN for x <= 0, 1/2 for a degenerate domain, 1 - y, clamping) and the shape of
   the formula are those of the model. *)
Definition to_logmodel (s : Log_rec) : logscale := mkLog (Log_Min s) (Log_Max s) (Log_Clamp s).

Definition lmap_val (logf : Q -> Q) (nanv : Q) (r : lmap) : Q :=
  match r with
  | LM_nan => nanv
  | LM_half => 1 # 2
  | LM_val neg cl mn mx x =>
      let y := (logf x - logf mn) / (logf mx - logf mn) in
      let y := if neg then 1 - y else y in
      if cl then clampq y else y
  end.

Definition lunmap_val (expf logf : Q -> Q) (r : lunmap) : Q :=
  match r with
  | LU_val neg mn mx y => let x := expf (y * (logf mx - logf mn) + logf mn) in if neg then - x else x
  end.

Ltac lgproj := cbn [Log_Min Log_Max Log_Base Log_Clamp g_min g_max g_clamp] in *.

Theorem tie_Log_ebounds : forall s : Log_rec, gen_Log_ebounds s = ebounds (to_logmodel s).
Proof. intros [mn mx b cl]. unfold gen_Log_ebounds, ebounds, to_logmodel. lgproj. reflexivity. Qed.

Theorem tie_Log_Map : forall (logf : Q -> Q) (nanv : Q) (s : Log_rec) (x : Q),
  gen_Log_Map logf nanv s x == lmap_val logf nanv (log_map_dec (to_logmodel s) x).
Proof.
  intros logf nanv s x. unfold gen_Log_Map, log_map_dec. rewrite tie_Log_ebounds.
  destruct s as [mn mx b cl]. unfold ebounds, to_logmodel, lmap_val, gen_clamp, clampq. lgproj.
  destruct (Qltb mn 0); cbv beta iota zeta; tie_q.
Qed.

Theorem tie_Log_Unmap : forall (expf logf : Q -> Q) (s : Log_rec) (y : Q),
  gen_Log_Unmap expf logf s y == lunmap_val expf logf (log_unmap_dec (to_logmodel s) y).
Proof.
  intros expf logf s y. unfold gen_Log_Unmap, log_unmap_dec. rewrite tie_Log_ebounds.
  destruct s as [mn mx b cl]. unfold ebounds, to_logmodel, lunmap_val. lgproj.
  destruct (Qltb mn 0); cbv beta iota zeta; reflexivity.
Qed.

Theorem tie_Log_SetClamp : forall (s : Log_rec) (c : bool),
  to_logmodel (gen_Log_SetClamp s c) = log_set_clamp (to_logmodel s) c.
Proof. intros [mn mx b cl] c. reflexivity. Qed.

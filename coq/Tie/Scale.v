(* Tie/Scale.v — T-tie for scale/linear.go (Map, Unmap, SetClamp) and scale/util.go (clamp),
   property C16: definitions generated from the current Go source (MMGen.Gen_scale_linear, Gen_scale_util) agree
   with the model Model/Scale.v.  Compiled by bin/ttie, not by the main build. *)
From Coq Require Import ZArith NArith QArith Qround Qabs List Lia Lqa.
From MM Require Import Base.Num Base.GoSem Model.Scale.
From MMGen Require Import Gen_scale_types Gen_scale_util Gen_scale_linear.
Local Open Scope Q_scope.

(* the model record leaves out Base (ticks only) *)
Definition to_model (s : Linear_rec) : linear := mkLin (Linear_Min s) (Linear_Max s) (Linear_Clamp s).

Theorem tie_clamp : forall x : Q, gen_clamp x == clampq x.
Proof. intros x. unfold gen_clamp, clampq. tie_q. Qed.

Theorem tie_Linear_Map : forall (s : Linear_rec) (x : Q), gen_Linear_Map s x == lin_map (to_model s) x.
Proof.
  intros [mn mx b cl] x. unfold gen_Linear_Map, lin_map, to_model, gen_clamp, clampq.
  cbn [Linear_Min Linear_Max Linear_Clamp l_min l_max l_clamp]. tie_q.
Qed.

Theorem tie_Linear_Unmap : forall (s : Linear_rec) (y : Q), gen_Linear_Unmap s y == lin_unmap (to_model s) y.
Proof.
  intros [mn mx b cl] y. unfold gen_Linear_Unmap, lin_unmap, to_model.
  cbn [Linear_Min Linear_Max Linear_Clamp l_min l_max l_clamp]. tie_q.
Qed.

Theorem tie_Linear_SetClamp : forall (s : Linear_rec) (c : bool),
  to_model (gen_Linear_SetClamp s c) = lin_set_clamp (to_model s) c.
Proof.
  intros [mn mx b cl] c. unfold gen_Linear_SetClamp, lin_set_clamp, to_model.
  cbn [Linear_Min Linear_Max Linear_Clamp l_min l_max l_clamp]. reflexivity.
Qed.

(* Tie/Sign.v — T-tie for mathx/sign.go (C08): Sign generated from the current source agrees
   with Model/Mathx.v sign_model on every finite argument; the final `return nan` (reached
   only by a NaN argument, which has no rational counterpart) is the opaque value nanv and
   is shown unreachable for finite x.  Compiled by bin/ttie. *)
From Coq Require Import ZArith NArith QArith Qround Qabs List Lia Lqa.
From MM Require Import Base.Num Base.GoSem Model.Mathx.
From MMGen Require Import Gen_mathx_sign.
Local Open Scope Q_scope.

Theorem tie_Sign : forall (nanv infv x : Q),
  gen_Sign nanv x == go_of_xreal nanv infv (sign_model (XFin x)).
Proof. intros nanv infv x. unfold gen_Sign, sign_model, go_of_xreal. tie_q. Qed.

(* Tie/Stream.v — T-tie for stats/stream.go (C13): the definitions that go2coq generates from
   the CURRENT Go source (MMGen.Gen_stats_stream) agree with the hand-written model
   Model/Stream.v, about which the C13 theorems are proved.

   Not part of the main build: compiled by bin/ttie against freshly generated files
   (coqc -Q coq MM -Q build/gen-<key> MMGen).  The proofs unfold, split on the comparisons
   and finish with field/ring/lia, so that harmless rewrites of the Go code (reordered sums,
   renamed locals, restructured ifs) still check, while a changed formula does not. *)
From Coq Require Import ZArith NArith QArith Qround Qabs List Lia Lqa.
From MM Require Import Base.Num Base.GoSem Model.Stream Proofs.Stream.
From MMGen Require Import Gen_stats_types Gen_stats_stream.
Local Open Scope Q_scope.

(* the generated record and the model state have the same seven fields *)
Definition to_model (r : StreamStats_rec) : sstate :=
  mkS (StreamStats_Count r) (StreamStats_Total r) (StreamStats_Min r) (StreamStats_Max r)
      (StreamStats_mean r) (StreamStats_meanOfSquares r) (StreamStats_vM2 r).

(* equality of states up to the representation of the rationals (the model normalises with Qred) *)
Definition sstate_equiv (a b : sstate) : Prop :=
  s_count a = s_count b /\ s_total a == s_total b /\ s_min a == s_min b /\ s_max a == s_max b /\
  s_mean a == s_mean b /\ s_msq a == s_msq b /\ s_m2 a == s_m2 b.

Ltac unfold_gen :=
  unfold gen_StreamStats_Add, gen_StreamStats_Combine, gen_StreamStats_Weight, gen_StreamStats_Mean,
         gen_StreamStats_Variance, gen_StreamStats_StdDev, gen_StreamStats_RMS,
         to_model, go_u2f, go_uadd in *;
  cbn [StreamStats_Count StreamStats_Total StreamStats_Min StreamStats_Max
       StreamStats_mean StreamStats_meanOfSquares StreamStats_vM2] in *.

Lemma QofN_nonzero n : (n <> 0)%N -> ~ QofN n == 0.
Proof. intros H C. unfold QofN, Qeq in C. simpl in C. lia. Qed.

Ltac split_equiv := unfold sstate_equiv; cbn [s_count s_total s_min s_max s_mean s_msq s_m2];
  repeat match goal with |- _ /\ _ => split end.

Ltac bool_cases :=
  repeat match goal with
  | |- context [if ?b then _ else _] => destruct b eqn:?
  end.

Ltac fin_q := rewrite ?Qred_correct; try reflexivity; try (field; auto); try lra.

(* Add: for every state whose count does not overflow uint64 *)
Theorem tie_Add : forall (s : StreamStats_rec) (x : Q),
  (StreamStats_Count s + 1 < 2 ^ 64)%N ->
  sstate_equiv (to_model (gen_StreamStats_Add s x)) (s_add (to_model s) x).
Proof.
  intros [c t mn mx m q v] x H. unfold_gen. unfold s_add. cbn [s_count s_total s_min s_max s_mean s_msq s_m2].
  rewrite (wrap_u_small 64 (c + 1)) by exact H.
  assert (Hc : ~ QofN (c + 1) == 0) by (apply QofN_nonzero; lia).
  bool_cases; unfold_gen; split_equiv; fin_q.
Qed.

Theorem tie_Combine : forall (s o : StreamStats_rec),
  (StreamStats_Count s + StreamStats_Count o < 2 ^ 64)%N ->
  sstate_equiv (to_model (gen_StreamStats_Combine s o)) (s_combine (to_model s) (to_model o)).
Proof.
  intros [c t mn mx m q v] [c' t' mn' mx' m' q' v'] H. unfold_gen. unfold s_combine.
  cbn [s_count s_total s_min s_max s_mean s_msq s_m2].
  destruct (c' =? 0)%N eqn:E1; [split_equiv; reflexivity|].
  destruct (c =? 0)%N eqn:E2; [split_equiv; reflexivity|].
  apply N.eqb_neq in E1, E2.
  rewrite (wrap_u_small 64 (c + c')) by exact H.
  assert (Hc : ~ QofN (c + c') == 0) by (apply QofN_nonzero; lia).
  bool_cases; unfold_gen; split_equiv; fin_q.
Qed.

Theorem tie_Weight : forall s, gen_StreamStats_Weight s = s_weight (to_model s).
Proof. intros s. unfold_gen. reflexivity. Qed.

Theorem tie_Mean : forall s, gen_StreamStats_Mean s = s_mean (to_model s).
Proof. intros s. unfold_gen. reflexivity. Qed.

(* Variance: Count - 1 wraps around for Count = 0 in Go; the model uses truncated subtraction *)
Theorem tie_Variance : forall s, (1 <= StreamStats_Count s)%N ->
  gen_StreamStats_Variance s = s_variance (to_model s).
Proof. intros s H. unfold_gen. unfold s_variance. rewrite go_usub_le by exact H. reflexivity. Qed.

(* the model never takes a square root: StdDev and RMS are tied for EVERY function sqrtf *)
Theorem tie_StdDev : forall (sqrtf : Q -> Q) s, (1 <= StreamStats_Count s)%N ->
  gen_StreamStats_StdDev sqrtf s = sqrtf (s_variance (to_model s)).
Proof. intros f s H. unfold gen_StreamStats_StdDev. rewrite tie_Variance by exact H. reflexivity. Qed.

Theorem tie_RMS : forall (sqrtf : Q -> Q) s,
  gen_StreamStats_RMS sqrtf s = sqrtf (s_rms_sq (to_model s)).
Proof. intros f s. unfold_gen. reflexivity. Qed.


(* ====================================================================== *)
(* The tie as a SIMULATION: along any history of Add / Combine calls on any number of
   accumulators, the states of the generated code stay equivalent to the states of the model
   (about which the C13 theorems speak: history_inv, mean/variance_is_batch, ...), as long as
   the model's counts stay below 2^64.                                       *)
(* ====================================================================== *)

Lemma sstate_equiv_refl a : sstate_equiv a a.
Proof. unfold sstate_equiv. repeat split; reflexivity. Qed.

Lemma sstate_equiv_trans a b c : sstate_equiv a b -> sstate_equiv b c -> sstate_equiv a c.
Proof.
  unfold sstate_equiv. intros (A1 & A2 & A3 & A4 & A5 & A6 & A7) (B1 & B2 & B3 & B4 & B5 & B6 & B7).
  repeat split; [congruence | etransitivity; eassumption ..].
Qed.

Lemma Qltb_comp a b c d : a == b -> c == d -> Qltb a c = Qltb b d.
Proof.
  intros H1 H2. destruct (Qltb a c) eqn:E1, (Qltb b d) eqn:E2; try reflexivity;
    [apply Qltb_iff in E1; apply Qltb_niff in E2 | apply Qltb_niff in E1; apply Qltb_iff in E2]; lra.
Qed.

Ltac sproj := cbn [s_count s_total s_min s_max s_mean s_msq s_m2] in *.

(* the model functions respect the equivalence *)
Lemma s_add_proper a b x : sstate_equiv a b -> sstate_equiv (s_add a x) (s_add b x).
Proof.
  destruct a as [c t mn mx m q v], b as [c' t' mn' mx' m' q' v']. unfold sstate_equiv. sproj.
  intros (Hc & Ht & Hmn & Hmx & Hm & Hq & Hv). subst c'. unfold s_add. sproj.
  rewrite (Qltb_comp x x mn mn') by (assumption || reflexivity).
  rewrite (Qltb_comp mx mx' x x) by (assumption || reflexivity).
  repeat split; rewrite ?Qred_correct; bool_cases; rewrite ?Ht, ?Hm, ?Hq, ?Hv; try reflexivity; assumption.
Qed.

Lemma s_combine_proper a b a' b' : sstate_equiv a b -> sstate_equiv a' b' ->
  sstate_equiv (s_combine a a') (s_combine b b').
Proof.
  destruct a as [c t mn mx m q v], b as [c1 t1 mn1 mx1 m1 q1 v1],
           a' as [d u nn nx n r w], b' as [d1 u1 nn1 nx1 n1 r1 w1]. unfold sstate_equiv. sproj.
  intros (Hc & Ht & Hmn & Hmx & Hm & Hq & Hv) (Hd & Hu & Hnn & Hnx & Hn & Hr & Hw). subst c1 d1.
  unfold s_combine. sproj.
  rewrite (Qltb_comp nn nn1 mn mn1) by assumption.
  rewrite (Qltb_comp mx mx1 nx nx1) by assumption.
  destruct (d =? 0)%N; [sproj; repeat split; (reflexivity || assumption)|].
  destruct (c =? 0)%N; [sproj; repeat split; (reflexivity || assumption)|]. sproj.
  repeat split; rewrite ?Qred_correct; bool_cases; rewrite ?Ht, ?Hu, ?Hm, ?Hn, ?Hq, ?Hr, ?Hv, ?Hw; try reflexivity; assumption.
Qed.

Definition sim (g : StreamStats_rec) (m : sstate) : Prop := sstate_equiv (to_model g) m.

Theorem tie_Add_sim : forall g m x, sim g m -> (s_count m + 1 < 2 ^ 64)%N ->
  sim (gen_StreamStats_Add g x) (s_add m x).
Proof.
  intros g m x H Hc. unfold sim in *.
  assert (E : StreamStats_Count g = s_count m) by (destruct H as (E & _); exact E).
  eapply sstate_equiv_trans; [apply tie_Add; rewrite E; exact Hc | apply s_add_proper; exact H].
Qed.

Theorem tie_Combine_sim : forall g m g' m', sim g m -> sim g' m' -> (s_count m + s_count m' < 2 ^ 64)%N ->
  sim (gen_StreamStats_Combine g g') (s_combine m m').
Proof.
  intros g m g' m' H H' Hc. unfold sim in *.
  assert (E : StreamStats_Count g = s_count m) by (destruct H as (E & _); exact E).
  assert (E' : StreamStats_Count g' = s_count m') by (destruct H' as (E' & _); exact E').
  eapply sstate_equiv_trans; [apply tie_Combine; rewrite E, E'; exact Hc | apply s_combine_proper; assumption].
Qed.

(* the observables of equivalent states *)
Theorem tie_observables_sim : forall g m, sim g m ->
  gen_StreamStats_Weight g = s_weight m /\ gen_StreamStats_Mean g == s_mean m /\
  ((1 <= s_count m)%N -> gen_StreamStats_Variance g == s_variance m) /\
  StreamStats_Total g == s_total m /\ StreamStats_Min g == s_min m /\ StreamStats_Max g == s_max m /\
  StreamStats_meanOfSquares g == s_rms_sq m.
Proof.
  intros [c t mn mx mu q v] m (Hc & Ht & Hmn & Hmx & Hm & Hq & Hv). unfold to_model in *. sproj. cbn [StreamStats_Count StreamStats_Total StreamStats_Min StreamStats_Max StreamStats_mean StreamStats_meanOfSquares StreamStats_vM2] in *.
  repeat split; try assumption.
  - unfold gen_StreamStats_Weight, s_weight, go_u2f. cbn [StreamStats_Count]. rewrite Hc. reflexivity.
  - intros H1. unfold gen_StreamStats_Variance, s_variance, go_u2f. cbn [StreamStats_Count StreamStats_vM2].
    rewrite go_usub_le by (rewrite Hc; exact H1). rewrite Hc, Hv. reflexivity.
Qed.

(* histories: the same operations on lists of accumulators *)
Definition g_step (accs : list StreamStats_rec) (o : sop) : list StreamStats_rec :=
  match o with
  | SAdd i x => match nth_error accs i with Some s => upd accs i (gen_StreamStats_Add s x) | None => accs end
  | SCombine i j => match nth_error accs i, nth_error accs j with
                    | Some s, Some t => upd accs i (gen_StreamStats_Combine s t)
                    | _, _ => accs
                    end
  | SNop _ => accs
  end.

(* no count of the MODEL run reaches 2^64 *)
Definition step_safe (ms : list sstate) (o : sop) : Prop :=
  match o with
  | SAdd i _ => forall s, nth_error ms i = Some s -> (s_count s + 1 < 2 ^ 64)%N
  | SCombine i j => forall s t, nth_error ms i = Some s -> nth_error ms j = Some t -> (s_count s + s_count t < 2 ^ 64)%N
  | SNop _ => True
  end.
Fixpoint safe (ms : list sstate) (ops : list sop) : Prop :=
  match ops with [] => True | o :: r => step_safe ms o /\ safe (s_step ms o) r end.

Lemma step_sim gs ms o : Forall2 sim gs ms -> step_safe ms o -> Forall2 sim (g_step gs o) (s_step ms o).
Proof.
  intros F Hs. destruct o as [i x|i j|i]; cbn [g_step s_step]; [| |exact F].
  - destruct (nth_error gs i) as [g|] eqn:E.
    + destruct (Forall2_nth_error _ _ _ _ _ F E) as (m & Em & Hgm). rewrite Em.
      apply Forall2_upd; [exact F|]. apply tie_Add_sim; [exact Hgm | apply (Hs m Em)].
    + rewrite (Forall2_nth_error_None _ _ _ _ F E). exact F.
  - destruct (nth_error gs i) as [g|] eqn:E.
    + destruct (Forall2_nth_error _ _ _ _ _ F E) as (m & Em & Hgm). rewrite Em.
      destruct (nth_error gs j) as [g'|] eqn:E'.
      * destruct (Forall2_nth_error _ _ _ _ _ F E') as (m' & Em' & Hgm'). rewrite Em'.
        apply Forall2_upd; [exact F|]. apply tie_Combine_sim; [exact Hgm | exact Hgm' | apply (Hs m m' Em Em')].
      * rewrite (Forall2_nth_error_None _ _ _ _ F E'). exact F.
    + rewrite (Forall2_nth_error_None _ _ _ _ F E). exact F.
Qed.

Theorem tie_history : forall ops gs ms, Forall2 sim gs ms -> safe ms ops ->
  Forall2 sim (fold_left g_step ops gs) (fold_left s_step ops ms).
Proof.
  induction ops as [|o r IH]; intros gs ms F Hs; simpl; [exact F|].
  destruct Hs as (H1 & H2). apply IH; [apply step_sim; assumption | exact H2].
Qed.

(* from the zero value (StreamStats{} in Go, s_init in the model) *)
Definition g_init : StreamStats_rec := mk_StreamStats 0 0 0 0 0 0 0.
Corollary tie_run : forall k ops, safe (repeat s_init k) ops ->
  Forall2 sim (fold_left g_step ops (repeat g_init k)) (s_run k ops).
Proof.
  intros k ops H. unfold s_run. apply tie_history; [|exact H]. clear H.
  induction k as [|k IH]; simpl; [constructor|]. constructor; [apply sstate_equiv_refl | exact IH].
Qed.

Print Assumptions tie_Add.
Print Assumptions tie_Combine.
Print Assumptions tie_Variance.
Print Assumptions tie_history.

(* Tie/Stream.v — T-tie for stats/stream.go (C13): the definitions that go2coq generates from
   the CURRENT Go source (MMGen.Gen_stats_stream) agree with the hand-written model
   Model/Stream.v, about which the C13 theorems are proved.

   Not part of the main build: compiled by bin/ttie against freshly generated files
   (coqc -Q coq MM -Q build/gen-<key> MMGen).  The proofs unfold, split on the comparisons
   and finish with field/ring/lia, so that harmless rewrites of the Go code (reordered sums,
   renamed locals, restructured ifs) still check, while a changed formula does not. *)
From Coq Require Import ZArith NArith QArith Qround Qabs List Lia Lqa.
From MM Require Import Base.Num Base.GoSem Model.Stream.
From MMGen Require Import Gen_stats_types Gen_stats_stream.
Local Open Scope Q_scope.

(* the generated record and the model state have the same seven fields *)
Definition to_model (r : StreamStats_rec) : sstate :=
  mkS (StreamStats_Count r) (StreamStats_Total r) (StreamStats_Min r) (StreamStats_Max r)
      (StreamStats_mean r) (StreamStats_meanOfSquares r) (StreamStats_vM2 r).

(* equality of states up to the representation of the rationals (the model normalises with Qred) *)
Definition sstate_equiv (a b : sstate) : Prop :=
  s_count a = s_count b /\ s_total a == s_total b /\ s_min a == s_min b /\ s_max a == s_max b /\
  s_mean a == s_mean b /\ s_msq a == s_msq b /\ s_m2 a == s_m2 b.

Ltac unfold_gen :=
  unfold gen_StreamStats_Add, gen_StreamStats_Combine, gen_StreamStats_Weight, gen_StreamStats_Mean,
         gen_StreamStats_Variance, gen_StreamStats_StdDev, gen_StreamStats_RMS,
         to_model, go_u2f, go_uadd in *;
  cbn [StreamStats_Count StreamStats_Total StreamStats_Min StreamStats_Max
       StreamStats_mean StreamStats_meanOfSquares StreamStats_vM2] in *.

Lemma QofN_nonzero n : (n <> 0)%N -> ~ QofN n == 0.
Proof. intros H C. unfold QofN, Qeq in C. simpl in C. lia. Qed.

Ltac split_equiv := unfold sstate_equiv; cbn [s_count s_total s_min s_max s_mean s_msq s_m2];
  repeat match goal with |- _ /\ _ => split end.

Ltac bool_cases :=
  repeat match goal with
  | |- context [if ?b then _ else _] => destruct b eqn:?
  end.

Ltac fin_q := rewrite ?Qred_correct; try reflexivity; try (field; auto); try lra.

(* Add: for every state whose count does not overflow uint64 *)
Theorem tie_Add : forall (s : StreamStats_rec) (x : Q),
  (StreamStats_Count s + 1 < 2 ^ 64)%N ->
  sstate_equiv (to_model (gen_StreamStats_Add s x)) (s_add (to_model s) x).
Proof.
  intros [c t mn mx m q v] x H. unfold_gen. unfold s_add. cbn [s_count s_total s_min s_max s_mean s_msq s_m2].
  rewrite (wrap_u_small 64 (c + 1)) by exact H.
  assert (Hc : ~ QofN (c + 1) == 0) by (apply QofN_nonzero; lia).
  bool_cases; unfold_gen; split_equiv; fin_q.
Qed.

Theorem tie_Combine : forall (s o : StreamStats_rec),
  (StreamStats_Count s + StreamStats_Count o < 2 ^ 64)%N ->
  sstate_equiv (to_model (gen_StreamStats_Combine s o)) (s_combine (to_model s) (to_model o)).
Proof.
  intros [c t mn mx m q v] [c' t' mn' mx' m' q' v'] H. unfold_gen. unfold s_combine.
  cbn [s_count s_total s_min s_max s_mean s_msq s_m2].
  destruct (c' =? 0)%N eqn:E1; [split_equiv; reflexivity|].
  destruct (c =? 0)%N eqn:E2; [split_equiv; reflexivity|].
  apply N.eqb_neq in E1, E2.
  rewrite (wrap_u_small 64 (c + c')) by exact H.
  assert (Hc : ~ QofN (c + c') == 0) by (apply QofN_nonzero; lia).
  bool_cases; unfold_gen; split_equiv; fin_q.
Qed.

Theorem tie_Weight : forall s, gen_StreamStats_Weight s = s_weight (to_model s).
Proof. intros s. unfold_gen. reflexivity. Qed.

Theorem tie_Mean : forall s, gen_StreamStats_Mean s = s_mean (to_model s).
Proof. intros s. unfold_gen. reflexivity. Qed.

(* Variance: Count - 1 wraps around for Count = 0 in Go; the model uses truncated subtraction *)
Theorem tie_Variance : forall s, (1 <= StreamStats_Count s)%N ->
  gen_StreamStats_Variance s = s_variance (to_model s).
Proof. intros s H. unfold_gen. unfold s_variance. rewrite go_usub_le by exact H. reflexivity. Qed.

(* the model never takes a square root: StdDev and RMS are tied for EVERY function sqrtf *)
Theorem tie_StdDev : forall (sqrtf : Q -> Q) s, (1 <= StreamStats_Count s)%N ->
  gen_StreamStats_StdDev sqrtf s = sqrtf (s_variance (to_model s)).
Proof. intros f s H. unfold gen_StreamStats_StdDev. rewrite tie_Variance by exact H. reflexivity. Qed.

Theorem tie_RMS : forall (sqrtf : Q -> Q) s,
  gen_StreamStats_RMS sqrtf s = sqrtf (s_rms_sq (to_model s)).
Proof. intros f s. unfold_gen. reflexivity. Qed.

Print Assumptions tie_Add.
Print Assumptions tie_Combine.
Print Assumptions tie_Variance.

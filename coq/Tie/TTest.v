(* Tie/TTest.v — T-tie for C04: stats/ttest.go (newTTestResult, TwoSampleTTest, TwoSampleWelchTTest,
   PairedTTest, OneSampleTTest) and stats/sample.go MeanCI against Model/TTest.v (two_sample, welch,
   paired, one_sample, ttail, meanci), the objects of the C04 theorems.

   Opaque: math.Sqrt (sqrtf: the model never takes square roots — it returns the sign of T and
   T^2 — so the tie states T = num / sqrtf(radicand) with the model's numerator and radicand, for
   every sqrtf that respects == and vanishes only at 0), math.Pow (powf, with powf x 2 == x*x),
   TDist.CDF (cdff: the tails are the model's [ttail] over F = cdff (TDist{DoF}), for EVERY cdff),
   the methods Weight/Mean/Variance of the TTestSample interface arguments (opaque values
   weightf_i, meanf_i, varf_i, assumed to be the model's lenQ / w_mean / w_variance of a list),
   the three error variables (opaque numbers; nil is None), InvCDF and math.Inf in MeanCI.
   A nil *TTestResult is read as the zero record (the error value discriminates). *)
From Coq Require Import ZArith NArith QArith Qround Qabs List Bool Lia Lqa.
From MM Require Import Base.Num Base.GoSem Model.Sample Model.TTest Proofs.TTest.
From MMGen Require Import Gen_stats_types Gen_stats_sample Gen_stats_ttest Tie_SampleMeanVar.
Import ListNotations.
Local Open Scope Q_scope.

Definition sqrt_ok (sqrtf : Q -> Q) : Prop :=
  (forall a b, a == b -> sqrtf a == sqrtf b) /\ (forall a, sqrtf a == 0 <-> a == 0).
Definition alt_ok (alt : Z) : Prop := (alt = -1 \/ alt = 0 \/ alt = 1)%Z.

Ltac tproj := cbn [TTestResult_N1 TTestResult_N2 TTestResult_T TTestResult_DoF TTestResult_AltHypothesis TTestResult_P
                   TDist_V t_n1 t_n2 t_sign t_sq t_dof fst snd] in *.

(* ---------- newTTestResult (ttest.go:33-45): the tail selection ---------- *)
Theorem tie_newTTestResult : forall (cdff : TDist_rec -> Q -> Q) (n1 n2 : Z) (t dof : Q) (alt : Z), alt_ok alt ->
  let r := gen_newTTestResult cdff n1 n2 t dof alt in
  TTestResult_N1 r = n1 /\ TTestResult_N2 r = n2 /\ TTestResult_T r = t /\ TTestResult_DoF r = dof /\
  TTestResult_AltHypothesis r = alt /\ TTestResult_P r == ttail (cdff (mk_TDist dof)) alt t.
Proof.
  intros cdff n1 n2 t dof alt Ha. unfold gen_newTTestResult. cbv zeta. tproj.
  repeat split; try reflexivity.
  destruct Ha as [-> | [-> | ->]]; cbn [Z.eqb Pos.eqb ttail]; unfold go_abs; reflexivity.
Qed.

(* what a test returns, against the model's outcome *)
Definition err_code (e1 e2 e3 : N) (e : terr) : N :=
  match e with ErrSampleSize => e1 | ErrZeroVariance => e2 | ErrMismatchedSamples => e3 end.

(* T = d / sqrtf R with the model's T^2 = d^2 / R and sign *)
Definition T_ratio (sqrtf : Q -> Q) (r : tres) (T : Q) : Prop :=
  exists d R, T == d / sqrtf R /\ t_sq r == d * d / R /\ t_sign r = Qsign d.
(* T = d * sqrtf N / sqrtf V with the model's T^2 = d^2 N / V and sign *)
Definition T_scaled (sqrtf : Q -> Q) (r : tres) (T : Q) : Prop :=
  exists d n V, T == d * sqrtf n / sqrtf V /\ t_sq r == d * d * n / V /\ t_sign r = Qsign d.

Definition test_rel (cdff : TDist_rec -> Q -> Q) (e1 e2 e3 : N) (alt : Z) (shape : tres -> Q -> Prop)
    (g : TTestResult_rec * option N) (m : tout) : Prop :=
  match m with
  | TErr e => snd g = Some (err_code e1 e2 e3 e)
  | TOk r => snd g = None /\
      TTestResult_N1 (fst g) = t_n1 r /\ TTestResult_N2 (fst g) = t_n2 r /\
      TTestResult_DoF (fst g) == t_dof r /\ TTestResult_AltHypothesis (fst g) = alt /\
      TTestResult_P (fst g) == ttail (cdff (mk_TDist (TTestResult_DoF (fst g)))) alt (TTestResult_T (fst g)) /\
      shape r (TTestResult_T (fst g))
  end.

(* the opaque TTestSample methods return the model's statistics of a list *)
Definition sample_ok (w m v : Q) (xs : list Q) : Prop := w == lenQ xs /\ m == w_mean xs /\ v == w_variance xs.

Lemma Qeqb_comp a a' b b' : a == a' -> b == b' -> Qeqb a b = Qeqb a' b'.
Proof.
  intros Ha Hb. destruct (Qeqb a b) eqn:E1; destruct (Qeqb a' b') eqn:E2; try reflexivity;
    [apply Qeqb_iff in E1; apply Qeqb_niff in E2 | apply Qeqb_niff in E1; apply Qeqb_iff in E2]; exfalso.
  - apply E2. rewrite <- Ha, <- Hb. exact E1.
  - apply E1. rewrite Ha, Hb. exact E2.
Qed.
Lemma Qleb_comp a a' b b' : a == a' -> b == b' -> Qleb a b = Qleb a' b'.
Proof.
  intros Ha Hb. destruct (Qleb a b) eqn:E1; destruct (Qleb a' b') eqn:E2; try reflexivity;
    [apply Qleb_iff in E1; apply Qleb_niff in E2 | apply Qleb_niff in E1; apply Qleb_iff in E2]; exfalso; lra.
Qed.

Lemma lenQ_zero xs : Qeqb (lenQ xs) (0 # 1) = (length xs =? 0)%nat.
Proof.
  unfold lenQ, Qofnat. destruct xs; [reflexivity|]. cbn [length Nat.eqb].
  apply Qeqb_niff. intros C. unfold Qeq in C. cbn in C. lia.
Qed.
Lemma lenQ_le1 xs : Qleb (lenQ xs) (1 # 1) = (length xs <=? 1)%nat.
Proof.
  unfold lenQ, Qofnat. destruct (Nat.leb_spec (length xs) 1) as [H|H].
  - apply Qleb_iff. unfold Qle. cbn. lia.
  - apply Qleb_niff. unfold Qlt. cbn. lia.
Qed.
Lemma f2i_lenQ w xs : w == lenQ xs -> go_f2i w = zlen xs.
Proof. intros H. apply go_f2i_int. exact H. Qed.

(* finish a TOk case: destruct the generated newTTestResult through its tie *)
Ltac finish_ok cdff Ha H :=
  match goal with |- context [gen_newTTestResult cdff ?n1 ?n2 ?t ?dof ?alt] =>
    pose proof (tie_newTTestResult cdff n1 n2 t dof alt Ha) as H; cbv zeta in H;
    destruct (gen_newTTestResult cdff n1 n2 t dof alt) as [N1 N2 T DoF Alt P]; tproj;
    destruct H as (-> & -> & -> & -> & -> & H)
  end.

(* ---------- TwoSampleTTest (ttest.go:66-80): pooled variance ---------- *)
Theorem tie_TwoSampleTTest : forall (cdff : TDist_rec -> Q -> Q) (e1 e2 e3 : N) (meanf_1 meanf_2 : Q) (sqrtf : Q -> Q)
    (varf_1 varf_2 weightf_1 weightf_2 : Q) (alt : Z) (x1 x2 : list Q),
  sqrt_ok sqrtf -> alt_ok alt -> sample_ok weightf_1 meanf_1 varf_1 x1 -> sample_ok weightf_2 meanf_2 varf_2 x2 ->
  test_rel cdff e1 e2 e3 alt (T_ratio sqrtf)
    (gen_TwoSampleTTest cdff e1 e2 meanf_1 meanf_2 sqrtf varf_1 varf_2 weightf_1 weightf_2 alt) (two_sample x1 x2).
Proof.
  intros cdff e1 e2 e3 m1 m2 sqrtf v1 v2 w1 w2 alt x1 x2 [Hsc Hs0] Ha (Hw1 & Hm1 & Hv1) (Hw2 & Hm2 & Hv2).
  unfold gen_TwoSampleTTest, two_sample, is_zero. cbv zeta.
  rewrite (Qeqb_comp w1 (lenQ x1) (0 # 1) (0 # 1)), (Qeqb_comp w2 (lenQ x2) (0 # 1) (0 # 1)), !lenQ_zero by (assumption || reflexivity).
  destruct ((length x1 =? 0)%nat || (length x2 =? 0)%nat); [reflexivity|].
  rewrite (Qeqb_comp v1 (w_variance x1) (0 # 1) 0), (Qeqb_comp v2 (w_variance x2) (0 # 1) 0) by (assumption || reflexivity).
  destruct (Qeqb (w_variance x1) 0 && Qeqb (w_variance x2) 0); [reflexivity|].
  finish_ok cdff Ha H. cbn [test_rel]. tproj.
  rewrite (f2i_lenQ _ _ Hw1), (f2i_lenQ _ _ Hw2).
  split; [reflexivity|]. split; [reflexivity|]. split; [reflexivity|].
  split; [rewrite Qred_correct, Hw1, Hw2; qcongr|]. split; [reflexivity|]. split; [exact H|].
  eexists; eexists. split; [reflexivity|]. tproj. split.
  - rewrite Qred_correct, Hw1, Hw2, Hm1, Hm2, Hv1, Hv2. qcongr.
  - apply Qsign_ext. rewrite Hm1, Hm2. reflexivity.
Qed.

(* ---------- TwoSampleWelchTTest (ttest.go:85-101) ---------- *)
Definition pow2_ok (powf : Q -> Q -> Q) : Prop := forall x, powf x (2 # 1) == x * x.

Theorem tie_TwoSampleWelchTTest : forall (cdff : TDist_rec -> Q -> Q) (e1 e2 e3 : N) (meanf_1 meanf_2 : Q) (powf : Q -> Q -> Q)
    (sqrtf : Q -> Q) (varf_1 varf_2 weightf_1 weightf_2 : Q) (alt : Z) (x1 x2 : list Q),
  sqrt_ok sqrtf -> pow2_ok powf -> alt_ok alt ->
  sample_ok weightf_1 meanf_1 varf_1 x1 -> sample_ok weightf_2 meanf_2 varf_2 x2 ->
  test_rel cdff e1 e2 e3 alt (T_ratio sqrtf)
    (gen_TwoSampleWelchTTest cdff e1 e2 meanf_1 meanf_2 powf sqrtf varf_1 varf_2 weightf_1 weightf_2 alt) (welch x1 x2).
Proof.
  intros cdff e1 e2 e3 m1 m2 powf sqrtf v1 v2 w1 w2 alt x1 x2 [Hsc Hs0] Hp Ha (Hw1 & Hm1 & Hv1) (Hw2 & Hm2 & Hv2).
  unfold gen_TwoSampleWelchTTest, welch, is_zero. cbv zeta.
  rewrite (Qleb_comp w1 (lenQ x1) (1 # 1) (1 # 1)), (Qleb_comp w2 (lenQ x2) (1 # 1) (1 # 1)), !lenQ_le1 by (assumption || reflexivity).
  destruct ((length x1 <=? 1)%nat || (length x2 <=? 1)%nat); [reflexivity|].
  rewrite (Qeqb_comp v1 (w_variance x1) (0 # 1) 0), (Qeqb_comp v2 (w_variance x2) (0 # 1) 0) by (assumption || reflexivity).
  destruct (Qeqb (w_variance x1) 0 && Qeqb (w_variance x2) 0); [reflexivity|].
  finish_ok cdff Ha H. cbn [test_rel]. tproj.
  rewrite (f2i_lenQ _ _ Hw1), (f2i_lenQ _ _ Hw2).
  split; [reflexivity|]. split; [reflexivity|]. split; [reflexivity|].
  split; [unfold pow2_ok in Hp; rewrite Qred_correct, !Hp, Hw1, Hw2, Hv1, Hv2; qcongr|]. split; [reflexivity|]. split; [exact H|].
  eexists; eexists. split; [reflexivity|]. tproj. split.
  - rewrite Qred_correct, Hw1, Hw2, Hm1, Hm2, Hv1, Hv2. qcongr.
  - apply Qsign_ext. rewrite Hm1, Hm2. reflexivity.
Qed.

(* ---------- OneSampleTTest (ttest.go:135-147) ---------- *)
Theorem tie_OneSampleTTest : forall (cdff : TDist_rec -> Q -> Q) (e1 e2 e3 : N) (meanf : Q) (sqrtf : Q -> Q)
    (varf weightf mu0 : Q) (alt : Z) (x : list Q),
  sqrt_ok sqrtf -> alt_ok alt -> sample_ok weightf meanf varf x ->
  test_rel cdff e1 e2 e3 alt (T_scaled sqrtf)
    (gen_OneSampleTTest cdff e1 e2 meanf sqrtf varf weightf mu0 alt) (one_sample x mu0).
Proof.
  intros cdff e1 e2 e3 m sqrtf v w mu0 alt x [Hsc Hs0] Ha (Hw & Hm & Hv).
  unfold gen_OneSampleTTest, one_sample, is_zero. cbv zeta.
  rewrite (Qeqb_comp w (lenQ x) (0 # 1) (0 # 1)), lenQ_zero by (assumption || reflexivity).
  destruct (length x =? 0)%nat; [reflexivity|].
  rewrite (Qeqb_comp v (w_variance x) (0 # 1) 0) by (assumption || reflexivity).
  destruct (Qeqb (w_variance x) 0); [reflexivity|].
  finish_ok cdff Ha H. cbn [test_rel]. tproj.
  rewrite (f2i_lenQ _ _ Hw).
  split; [reflexivity|]. split; [reflexivity|]. split; [reflexivity|].
  split; [rewrite Qred_correct, Hw; qcongr|]. split; [reflexivity|]. split; [exact H|].
  eexists; eexists; eexists. split; [reflexivity|]. tproj. split.
  - rewrite Qred_correct, Hw, Hm, Hv. qcongr.
  - apply Qsign_ext. rewrite Hm. reflexivity.
Qed.

(* ---------- the model's Welford loops are those of Model/Sample.v (C09), and respect == ---------- *)
Lemma w_mean_loop_eq xs : forall k m, w_mean_loop xs k m = mean_loop xs k m.
Proof. induction xs as [|x xs IH]; intros k m; simpl; [reflexivity | apply IH]. Qed.
Lemma w_var_loop_eq xs : forall k mean m2, w_var_loop xs k mean m2 = snd (var_loop xs k mean m2).
Proof. induction xs as [|x xs IH]; intros k mean m2; simpl; [reflexivity | apply IH]. Qed.

Lemma mean_loop_comp : forall a b k m m', Forall2 Qeq a b -> m == m' -> mean_loop a k m == mean_loop b k m'.
Proof.
  intros a b k m m' H. revert k m m'. induction H as [|x y a b Hxy _ IH]; intros k m m' Hm; cbn [mean_loop]; [exact Hm|].
  apply IH. rewrite !Qred_correct, Hxy, Hm. reflexivity.
Qed.
Lemma var_loop_comp : forall a b k mean mean' m2 m2', Forall2 Qeq a b -> mean == mean' -> m2 == m2' ->
  snd (var_loop a k mean m2) == snd (var_loop b k mean' m2').
Proof.
  intros a b k mean mean' m2 m2' H. revert k mean mean' m2 m2'.
  induction H as [|x y a b Hxy _ IH]; intros k mean mean' m2 m2' H1 H2; cbn [var_loop snd]; [exact H2|].
  apply IH; rewrite !Qred_correct, ?Hxy, ?H1, ?H2; reflexivity.
Qed.

Lemma Forall2_length {A B} {P : A -> B -> Prop} {l1 l2} : Forall2 P l1 l2 -> length l1 = length l2.
Proof. induction 1; simpl; congruence. Qed.

(* gen_Mean / gen_Variance on a list that is pointwise == to xs: the model's w_mean / w_variance of xs *)
Lemma gen_Mean_w nanv (l xs : list Q) : Forall2 Qeq l xs -> xs <> [] -> len_ok l -> gen_Mean nanv l == w_mean xs.
Proof.
  intros H Hne Hl. rewrite (tie_Mean nanv l Hl). unfold mean, w_mean.
  destruct H as [|x y a b Hxy Hab]; [contradiction|]. cbn [fres_val]. change (w_mean_loop (y :: b) 0 0) with (mean_loop (y :: b) 0 0).
  apply mean_loop_comp; [constructor; assumption | reflexivity].
Qed.
Lemma gen_Variance_w nanv (l xs : list Q) : Forall2 Qeq l xs -> (2 <= length xs)%nat -> len_ok l ->
  gen_Variance nanv l == w_variance xs.
Proof.
  intros H Hne Hl. rewrite (tie_Variance nanv l Hl). unfold variance, w_variance.
  pose proof (Forall2_length H) as Hlen.
  destruct (Nat.leb_spec (length xs) 1) as [C|_]; [lia|].
  destruct l as [|a [|b l]]; [simpl in Hlen; lia | simpl in Hlen; lia |]. cbn [fres_val].
  rewrite Qred_correct, (w_var_loop_eq xs 0 0 0), Hlen. apply Qdiv_comp; [|reflexivity].
  apply var_loop_comp; [exact H | reflexivity | reflexivity].
Qed.

(* ---------- PairedTTest (ttest.go:107-129) ---------- *)
Lemma vdiff_nth : forall (a b : list Q) i, length a = length b -> (i < length a)%nat ->
  nth i (vdiff a b) 0 = nth i a 0 - nth i b 0.
Proof.
  induction a as [|x a IH]; intros [|y b] i Hl Hi; simpl in *; try lia.
  destruct i as [|i]; [reflexivity | apply IH; lia].
Qed.

Lemma range_fill_vdiff (x1 x2 l : list Q) : length x1 = length x2 ->
  Forall2 (fun i v => v == go_idx (0 # 1) x1 i - go_idx (0 # 1) x2 i) (go_range 0 (Z.of_nat (length x1))) l ->
  Forall2 Qeq l (vdiff x1 x2).
Proof.
  intros Hlen H.
  assert (Hl : length l = length x1) by (rewrite <- (Forall2_length H), go_range_length; lia).
  assert (Hv : length (vdiff x1 x2) = length x1) by (apply vdiff_length; exact Hlen).
  assert (G : forall i, (i < length x1)%nat -> nth i l 0 == nth i (vdiff x1 x2) 0).
  { intros i Hi. rewrite vdiff_nth by assumption.
    assert (Hn : forall (P : Z -> Q -> Prop) zs vs, Forall2 P zs vs -> forall j, (j < length zs)%nat -> P (nth j zs 0%Z) (nth j vs 0)).
    { intros P zs vs F. induction F as [|z v zs vs Hzv _ IH]; intros [|j] Hj; simpl in *; try lia; [exact Hzv | apply IH; lia]. }
    specialize (Hn _ _ _ H i). rewrite go_range_length in Hn. specialize (Hn ltac:(lia)). cbv beta in Hn.
    unfold go_range in Hn. rewrite (nth_indep _ 0%Z (0 + Z.of_nat 0)%Z) in Hn by (rewrite map_length, seq_length; lia).
    rewrite (map_nth (fun k => (0 + Z.of_nat k)%Z)), seq_nth in Hn by lia.
    unfold go_idx in Hn. replace (Z.to_nat (0 + Z.of_nat (0 + i))) with i in Hn by lia. exact Hn. }
  clear H. revert l Hl G Hv. generalize (vdiff x1 x2) as d. generalize (length x1) as n.
  induction n as [|n IH]; intros d l Hl G Hv; destruct l; destruct d; simpl in *; try lia; constructor.
  - apply (G 0%nat). lia.
  - apply IH; [lia | intros i Hi; apply (G (S i)); lia | lia].
Qed.

Theorem tie_PairedTTest : forall (cdff : TDist_rec -> Q -> Q) (e1 e2 e3 : N) (nanv : Q) (sqrtf : Q -> Q)
    (x1 x2 : list Q) (mu0 : Q) (alt : Z),
  sqrt_ok sqrtf -> alt_ok alt -> len_ok x1 ->
  test_rel cdff e2 e3 e1 alt (T_scaled sqrtf)
    (gen_PairedTTest cdff e1 e2 e3 nanv sqrtf x1 x2 mu0 alt) (paired x1 x2 mu0).
Proof.
  intros cdff e1 e2 e3 nanv sqrtf x1 x2 mu0 alt [Hsc Hs0] Ha Hl.
  unfold gen_PairedTTest, paired, is_zero, go_len. cbv zeta.
  destruct (Nat.eqb_spec (length x1) (length x2)) as [Hlen|Hlen];
    [replace (Z.of_nat (length x1) =? Z.of_nat (length x2))%Z with true by (symmetry; apply Z.eqb_eq; lia)
    |replace (Z.of_nat (length x1) =? Z.of_nat (length x2))%Z with false by (symmetry; apply Z.eqb_neq; lia)];
    cbn [negb]; [|reflexivity].
  destruct (Nat.leb_spec (length x1) 1) as [H1|H1];
    [replace (Z.of_nat (length x1) <=? 1)%Z with true by (symmetry; apply Z.leb_le; lia); reflexivity
    |replace (Z.of_nat (length x1) <=? 1)%Z with false by (symmetry; apply Z.leb_gt; lia)].
  (* the difference vector *)
  match goal with |- context [fold_left ?f (go_range 0 (Z.of_nat (length x1))) (go_make (0 # 1) (Z.of_nat (length x1)))] =>
    pose proof (fold_range_fill (0 # 1) (fun i v => v == go_idx (0 # 1) x1 i - go_idx (0 # 1) x2 i) f
                  ltac:(intros ys i Hi; cbv beta zeta; eexists; split; [reflexivity|]; first [reflexivity | ring])
                  (length x1)) as Hfill;
    set (diff := fold_left f (go_range 0 (Z.of_nat (length x1))) (go_make (0 # 1) (Z.of_nat (length x1)))) in *
  end.
  apply (range_fill_vdiff x1 x2 diff Hlen) in Hfill.
  assert (Hdl : len_ok diff) by (unfold len_ok in *; rewrite (Forall2_length Hfill), vdiff_length by exact Hlen; exact Hl).
  assert (H2 : (2 <= length (vdiff x1 x2))%nat) by (rewrite vdiff_length by exact Hlen; lia).
  assert (Hne : vdiff x1 x2 <> []) by (intros C; rewrite C in H2; simpl in H2; lia).
  rewrite tie_StdDev.
  assert (Ev : gen_Variance nanv diff == w_variance (vdiff x1 x2)) by (apply gen_Variance_w; assumption).
  assert (Em : gen_Mean nanv diff == w_mean (vdiff x1 x2)) by (apply gen_Mean_w; assumption).
  assert (Ez : Qeqb (sqrtf (gen_Variance nanv diff)) (0 # 1) = Qeqb (w_variance (vdiff x1 x2)) 0).
  { destruct (Qeqb (w_variance (vdiff x1 x2)) 0) eqn:E.
    - apply Qeqb_iff in E. apply Qeqb_iff. apply Hs0. rewrite Ev. exact E.
    - apply Qeqb_niff in E. apply Qeqb_niff. intros C. apply E. rewrite <- Ev. apply Hs0. exact C. }
  rewrite Ez. destruct (Qeqb (w_variance (vdiff x1 x2)) 0); [reflexivity|].
  finish_ok cdff Ha H. cbn [test_rel]. tproj. unfold zlen, lenQ, Qofnat.
  split; [reflexivity|]. split; [reflexivity|]. split; [reflexivity|].
  split. { rewrite Qred_correct. unfold go_i2f, go_ssub. rewrite wrap_s64_small by (unfold len_ok in Hl; lia).
           unfold Z.sub. rewrite inject_Z_plus. reflexivity. }
  split; [reflexivity|]. split; [exact H|].
  exists (gen_Mean nanv diff - mu0), (go_i2f (Z.of_nat (length x1))), (gen_Variance nanv diff).
  split; [reflexivity|]. tproj. split.
  - rewrite Qred_correct, Em, Ev. reflexivity.
  - apply Qsign_ext. rewrite Em. reflexivity.
Qed.

(* ---------- MeanCI (sample.go:153-174) ---------- *)
Theorem tie_MeanCI : forall (inff : Z -> Q) (invcdff : TDist_rec -> Q -> Q) (nanv : Q) (sqrtf : Q -> Q) (xs : list Q) (c : Q),
  sqrt_ok sqrtf -> len_ok xs ->
  let '(m, lo, hi) := gen_MeanCI inff invcdff nanv sqrtf xs c in
  m == match fst (meanci xs c) with Some v => v | None => nanv end /\
  exists w, lo == m - w /\ hi == m + w /\
    match snd (meanci xs c) with
    | CIZero => w == 0
    | CIInf => w = inff 1%Z
    | CIStudent n v alpha =>
        w == - invcdff (mk_TDist (inject_Z (Z.of_nat n - 1))) alpha * sqrtf v / sqrtf (inject_Z (Z.of_nat n))
    end.
Proof.
  intros inff invcdff nanv sqrtf xs c [Hsc Hs0] Hl. unfold gen_MeanCI, meanci. cbv zeta. cbn [fst snd].
  split.
  { destruct xs as [|x xs]; [reflexivity|]. apply gen_Mean_w; [|discriminate|exact Hl].
    clear. induction (x :: xs); constructor; [reflexivity | assumption]. }
  change (Qle_bool c 0) with (Qleb c (0 # 1)). change (Qle_bool 1 c) with (Qleb (1 # 1) c).
  destruct (Qleb c (0 # 1)); [exists (0 # 1); repeat split; reflexivity|].
  unfold go_len.
  replace (Z.of_nat (length xs) <=? 1)%Z with (length xs <=? 1)%nat
    by (destruct (Nat.leb_spec (length xs) 1); symmetry; [apply Z.leb_le | apply Z.leb_gt]; lia).
  destruct (Qleb (1 # 1) c || (length xs <=? 1)%nat) eqn:E; [eexists; repeat split; reflexivity|].
  apply orb_false_iff in E. destruct E as [_ E]. apply Nat.leb_gt in E.
  eexists. split; [reflexivity|]. split; [reflexivity|].
  rewrite tie_StdDev. unfold go_i2f, go_ssub. rewrite wrap_s64_small by (unfold len_ok in Hl; lia).
  assert (Ev : gen_Variance nanv xs == w_variance xs).
  { apply gen_Variance_w; [|lia|exact Hl]. clear. induction xs; constructor; [reflexivity | assumption]. }
  rewrite (Hsc _ _ Ev). reflexivity.
Qed.

(* ---------- non-vacuity: hypotheses are satisfiable; the generated code runs ---------- *)
Definition sqrt_example (q : Q) : Q := q.       (* respects ==, vanishes only at 0 (not a square root: the ties hold for every such function) *)
Example sqrt_ok_example : sqrt_ok sqrt_example.
Proof. split; [intros a b H; exact H | intros a; reflexivity]. Qed.
Example pow2_ok_example : pow2_ok (fun x _ => x * x).
Proof. intros x. reflexivity. Qed.
Example sample_ok_example : sample_ok (lenQ [1; 2 # 1]) (w_mean [1; 2 # 1]) (w_variance [1; 2 # 1]) [1; 2 # 1].
Proof. repeat split; reflexivity. Qed.
Example tie_TTest_example :
  let F := fun (d : TDist_rec) (t : Q) => (1 # 2) + t / (4 # 1) in
  let '(r, e) := gen_PairedTTest F 1%N 2%N 3%N 0 sqrt_example [1; 2 # 1; 4 # 1] [0; 0; 1] 0 0%Z in
  (TTestResult_N1 r, Qred (TTestResult_T r), Qred (TTestResult_DoF r), e) = (3%Z, 6 # 1, 2 # 1, None) /\
  snd (gen_PairedTTest F 1%N 2%N 3%N 0 sqrt_example [1; 2 # 1] [0; 1] 0 0%Z) = Some 3%N /\
  snd (gen_PairedTTest F 1%N 2%N 3%N 0 sqrt_example [1; 2 # 1] [0] 0 0%Z) = Some 1%N.
Proof. vm_compute. repeat split. Qed.

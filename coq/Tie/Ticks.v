(* Tie/Ticks.v — T-tie for C17: scale/ticks.go TickOptions.FindLevel and the Linear tick code of
   scale/linear.go (ebase, spacingAtLevel, CountTicks, TicksAtLevel, Ticks, Nice) against
   Model/Ticks.v, the object of the C17 theorems (Proofs/Ticks.v, TicksLinear.v, TicksNice.v).

   FindLevel contains two "for cond" loops: the generated definition takes (fuel : nat) and
   returns an option.  The tie is stated in two steps: for EVERY fuel the generated code agrees
   with the model run on the same fuel (tie_FindLevel_fuel; None <-> FL_fuel), and with fuel at
   least the model's own bound fl_fuel lo hi it returns the model's answer (tie_FindLevel). *)
From Coq Require Import ZArith NArith QArith Qround Qabs List Bool Lia Lqa.
From MM Require Import Base.Num Base.GoSem Model.Ticks Proofs.Ticks.
From MMGen Require Import Gen_scale_types Gen_scale_ticks.
Import ListNotations.
Local Open Scope Z_scope.

Definition to_opts (o : TickOptions_rec) : tickopts :=
  mkOpts (TickOptions_Max o) (TickOptions_MinLevel o) (TickOptions_MaxLevel o).

(* FindLevel's results (int, bool) *)
Definition fl_val (r : flres) : option (Z * bool) :=
  match r with FL_ok l => Some (l, true) | FL_fail => Some (0, false) | FL_fuel => None end.

(* the model with the fuel of its two loops as a parameter; find_level is the instance fl_fuel lo hi *)
Definition find_level_f (fuel : nat) (o : tickopts) (cnt : Z -> Z) (guess : Z) : flres :=
  match level_bounds o with
  | None => FL_fail
  | Some (lo, hi) =>
      if o_max o <? 1 then FL_fail else
      let l := if guess <? lo then lo else if hi <? guess then hi else guess in
      if cnt l <=? o_max o then fl_down fuel cnt (o_max o) lo (l - 1)
      else fl_up fuel cnt (o_max o) hi (l + 1)
  end.

Lemma find_level_f_model o cnt guess :
  find_level o cnt guess =
  match level_bounds o with
  | Some (lo, hi) => find_level_f (fl_fuel lo hi) o cnt guess
  | None => FL_fail
  end.
Proof. unfold find_level, find_level_f. destruct (level_bounds o) as [[lo hi]|]; reflexivity. Qed.

(* more fuel does not change an answer of the model's loops *)
Lemma fl_down_mono cnt mx lo : forall f1 f2 l, (f1 <= f2)%nat ->
  fl_down f1 cnt mx lo l <> FL_fuel -> fl_down f2 cnt mx lo l = fl_down f1 cnt mx lo l.
Proof.
  induction f1 as [|f1 IH]; intros f2 l Hle H; [exfalso; apply H; reflexivity|].
  destruct f2 as [|f2]; [lia|]. cbn [fl_down] in *. destruct (_ && _); [|reflexivity].
  apply IH; [lia | exact H].
Qed.
Lemma fl_up_mono cnt mx hi : forall f1 f2 l, (f1 <= f2)%nat ->
  fl_up f1 cnt mx hi l <> FL_fuel -> fl_up f2 cnt mx hi l = fl_up f1 cnt mx hi l.
Proof.
  induction f1 as [|f1 IH]; intros f2 l Hle H; [exfalso; apply H; reflexivity|].
  destruct f2 as [|f2]; [lia|]. cbn [fl_up] in *. destruct (_ && _); [|reflexivity].
  apply IH; [lia | exact H].
Qed.

Lemma find_level_f_enough o cnt guess lo hi fuel :
  level_bounds o = Some (lo, hi) -> (fl_fuel lo hi <= fuel)%nat ->
  find_level_f fuel o cnt guess = find_level o cnt guess.
Proof.
  intros Hb Hf. pose proof (find_level_no_fuel o cnt guess) as Hn.
  rewrite find_level_f_model, Hb in *. unfold find_level_f in *. rewrite Hb in *.
  destruct (o_max o <? 1); [reflexivity|]. cbv zeta in *.
  destruct (cnt _ <=? o_max o); [apply fl_down_mono | apply fl_up_mono]; assumption.
Qed.

(* ---------- the two loops, for every condition / step that computes what the source says ---------- *)
Definition lvl (z : Z) : Prop := - 2 ^ 62 < z < 2 ^ 62.

(* for l--; l >= lo && cnt(l) <= mx; l-- {}   then l++ *)
Lemma down_loop (cnt : Z -> Z) (mx lo U : Z) (cond : Z -> bool) (body : Z -> Z) :
  (forall l, cond l = (lo <=? l) && (cnt l <=? mx)) ->
  (forall l, lo <= l <= U -> body l = l - 1) ->
  forall fuel l, lo - 1 <= l <= U ->
  match go_while fuel cond body l with
  | Some l' => lo - 1 <= l' <= U /\ fl_down fuel cnt mx lo l = FL_ok (l' + 1)
  | None => fl_down fuel cnt mx lo l = FL_fuel
  end.
Proof.
  intros Hc Hb. induction fuel as [|f IH]; intros l Hl; [reflexivity|].
  cbn [go_while fl_down]. rewrite Hc. destruct ((lo <=? l) && (cnt l <=? mx)) eqn:E.
  - apply andb_true_iff in E. destruct E as [E _]. apply Z.leb_le in E.
    rewrite (Hb l) by lia. apply IH; lia.
  - split; [exact Hl | reflexivity].
Qed.

(* for l++; l <= hi && cnt(l) > mx; l++ {} *)
Lemma up_loop (cnt : Z -> Z) (mx hi L : Z) (cond : Z -> bool) (body : Z -> Z) :
  (forall l, cond l = (l <=? hi) && (mx <? cnt l)) ->
  (forall l, L <= l <= hi -> body l = l + 1) ->
  forall fuel l, L <= l <= hi + 1 ->
  match go_while fuel cond body l with
  | Some l' => L <= l' <= hi + 1 /\ fl_up fuel cnt mx hi l = if hi <? l' then FL_fail else FL_ok l'
  | None => fl_up fuel cnt mx hi l = FL_fuel
  end.
Proof.
  intros Hc Hb. induction fuel as [|f IH]; intros l Hl; [reflexivity|].
  cbn [go_while fl_up]. rewrite Hc. destruct ((l <=? hi) && (mx <? cnt l)) eqn:E.
  - apply andb_true_iff in E. destruct E as [E _]. apply Z.leb_le in E.
    rewrite (Hb l) by lia. apply IH; lia.
  - split; [exact Hl | reflexivity].
Qed.

Lemma lvl_sub1 l : - 2 ^ 62 - 2 <= l <= 2 ^ 62 + 2 -> go_ssub 64 l 1 = l - 1.
Proof. unfold go_ssub. intros H. apply wrap_s64_small'. zpow. lia. Qed.
Lemma lvl_add1 l : - 2 ^ 62 - 2 <= l <= 2 ^ 62 + 2 -> go_sadd 64 l 1 = l + 1.
Proof. unfold go_sadd. intros H. apply wrap_s64_small'. zpow. lia. Qed.

(* a boolean identity between two combinations of integer comparisons *)
Ltac bool_eq := intros; cbv beta; zcases; cbn [andb orb negb]; try reflexivity; exfalso; lia.


Ltac lvl_tac := unfold lvl in *; zpow; lia.

(* replace the generated loop of the goal by the model's loop (down or up, whichever the model
   side of the goal runs), for any syntactic form of the condition and the step *)
Ltac loop_to_model cnt :=
  lazymatch goal with
  | |- context [fl_down ?f cnt ?mx ?lo ?l] =>
      lazymatch goal with
      | |- context [go_while f ?c ?b ?s] =>
          let H := fresh "HL" in
          pose proof (down_loop cnt mx lo (2 ^ 62) c b
            ltac:(bool_eq) ltac:(intros; cbv beta; apply lvl_sub1; lvl_tac) f s ltac:(lvl_tac)) as H;
          replace (fl_down f cnt mx lo l) with (fl_down f cnt mx lo s) by (f_equal; lia);
          destruct (go_while f c b s) as [?l'|]; [destruct H as [? H] | ]; rewrite H
      end
  | |- context [fl_up ?f cnt ?mx ?hi ?l] =>
      lazymatch goal with
      | |- context [go_while f ?c ?b ?s] =>
          let H := fresh "HL" in
          pose proof (up_loop cnt mx hi (- 2 ^ 62) c b
            ltac:(bool_eq) ltac:(intros; cbv beta; apply lvl_add1; lvl_tac) f s ltac:(lvl_tac)) as H;
          replace (fl_up f cnt mx hi l) with (fl_up f cnt mx hi s) by (f_equal; lia);
          destruct (go_while f c b s) as [?l'|]; [destruct H as [? H] | ]; rewrite H
      end
  end.

Theorem tie_FindLevel_fuel : forall (cnt : Z -> Z) (fuel : nat) (o : TickOptions_rec) (guess : Z),
  lvl (TickOptions_MinLevel o) -> lvl (TickOptions_MaxLevel o) ->
  gen_TickOptions_FindLevel cnt fuel o guess = fl_val (find_level_f fuel (to_opts o) cnt guess).
Proof.
  intros cnt fuel [mx mn ml] guess Hmn Hml.
  unfold gen_TickOptions_FindLevel, find_level_f, level_bounds, to_opts.
  cbn [TickOptions_Max TickOptions_MinLevel TickOptions_MaxLevel o_max o_minlevel o_maxlevel] in *. cbv zeta.
  repeat first [progress zcases | progress cbn [andb orb negb fl_val] | progress cbv beta iota];
    try reflexivity; try (exfalso; lia).
  all: rewrite ?lvl_sub1, ?lvl_add1 by lvl_tac.
  all: loop_to_model cnt; cbn [fl_val]; rewrite ?lvl_add1 by lvl_tac;
       repeat first [progress zcases | progress cbn [fl_val]]; try reflexivity; try (exfalso; lia).
Qed.

(* with at least the model's own fuel the generated code returns the model's answer — the
   object of C17_find_level_lowest, C17_find_level_fails_iff, C17_find_level_guess_irrelevant *)
Definition find_level_fuel (o : tickopts) : nat :=
  match level_bounds o with Some (lo, hi) => fl_fuel lo hi | None => O end.

Theorem tie_FindLevel : forall (cnt : Z -> Z) (fuel : nat) (o : TickOptions_rec) (guess : Z),
  lvl (TickOptions_MinLevel o) -> lvl (TickOptions_MaxLevel o) ->
  (find_level_fuel (to_opts o) <= fuel)%nat ->
  gen_TickOptions_FindLevel cnt fuel o guess = fl_val (find_level (to_opts o) cnt guess) /\
  find_level (to_opts o) cnt guess <> FL_fuel.
Proof.
  intros cnt fuel o guess Hmn Hml Hf. split; [|apply find_level_no_fuel].
  rewrite tie_FindLevel_fuel by assumption. f_equal.
  unfold find_level_fuel in Hf. destruct (level_bounds (to_opts o)) as [[lo hi]|] eqn:Hb.
  - apply (find_level_f_enough _ _ _ lo hi); assumption.
  - unfold find_level_f, find_level. rewrite Hb. reflexivity.
Qed.

(* non-vacuity: the default window, 2003 iterations suffice; a window that makes the first loop
   run out of a smaller fuel *)
Example tie_FindLevel_fuel_default : find_level_fuel (mkOpts 5 0 0) = 2002%nat.
Proof. reflexivity. Qed.
Example tie_FindLevel_out_of_fuel :
  gen_TickOptions_FindLevel (fun _ => 0) 5 (mk_TickOptions 5 0 0) 0 = None /\
  gen_TickOptions_FindLevel (fun l => 10 - l) 20 (mk_TickOptions 5 0 0) 0 = Some (5, true).
Proof. split; vm_compute; reflexivity. Qed.

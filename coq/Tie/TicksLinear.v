(* Tie/TicksLinear.v — T-tie for C17, scale/linear.go: ebase, spacingAtLevel, linearTicker.CountTicks /
   TicksAtLevel, Linear.CountTicks / TicksAtLevel, Linear.Ticks, Linear.Nice against Model/Ticks.v
   (lin_ebase, lin_spacing, lin_first_last, lin_count, lin_ticks_at, lin_ticks, lin_nice), the
   objects of C17_linear_* (Proofs/TicksLinear.v, TicksNice.v).

   math.Pow is the opaque parameter powf: the ties hold for EVERY powf that is the power function
   on integer arguments ([pow_ok], satisfiable: pow_ok_example).  math.Log (only used for the
   initial guess of the level search, which the model takes as a parameter) is the opaque logf;
   math.IsInf is the opaque isinff, assumed false (the T-tie reads float64 as finite rationals);
   the panics of ebase are the opaque panicv (excluded by lin_ebase base = Some eb).
   Ticks and Nice call FindLevel, whose Ticker argument is the concrete linearTicker: the
   translator instantiates FindLevel's count function with the generated linearTicker.CountTicks
   (devirtualisation), so the whole call chain is tied.  They inherit FindLevel's fuel. *)
From Coq Require Import ZArith NArith QArith Qround Qabs List Bool Lia Lqa Zquot.
From MM Require Import Base.Num Base.GoSem Model.Ticks Model.Sample Proofs.Ticks Proofs.TicksLinear Proofs.TicksCheck.
From MMGen Require Import Gen_scale_types Gen_vec_vec Gen_scale_ticks Gen_scale_linear Tie_Linspace Tie_Ticks.
Import ListNotations.
Local Open Scope Q_scope.

Definition pow_ok (powf : Q -> Q -> Q) : Prop :=
  forall b e : Z, (1 <= b)%Z -> powf (inject_Z b) (inject_Z e) == qpow b e.

Definition pow_example (x y : Q) : Q := qpow (Qfloor x) (Qfloor y).
Example pow_ok_example : pow_ok pow_example.
Proof. intros b e _. unfold pow_example. rewrite !Qfloor_Z. reflexivity. Qed.

Ltac lproj := cbn [Linear_Min Linear_Max Linear_Base Linear_Clamp linearTicker_s linearTicker_roundOut
                   TickOptions_Max TickOptions_MinLevel TickOptions_MaxLevel] in *.

(* ---------- ebase (linear.go:55-64) ---------- *)
Theorem tie_Linear_ebase : forall (panicv : Z) (s : Linear_rec),
  gen_Linear_ebase panicv s = match lin_ebase (Linear_Base s) with Some eb => eb | None => panicv end.
Proof.
  intros panicv [mn mx base cl]. unfold gen_Linear_ebase, lin_ebase. lproj.
  zcases; try reflexivity; exfalso; lia.
Qed.

(* ---------- spacingAtLevel (linear.go:85-106) ---------- *)
(* level % 2 (truncated remainder) against Z.odd: whatever test the source makes on it computes *)
Lemma rem2_cases level :
  (Z.odd level = true /\ (Z.rem level 2 = 1 \/ Z.rem level 2 = -1)%Z) \/ (Z.odd level = false /\ Z.rem level 2 = 0%Z).
Proof.
  rewrite Zrem_odd. destruct (Z.odd level) eqn:E; [left | right; split; reflexivity].
  split; [reflexivity|]. destruct level as [|p|p]; try discriminate; [left | right]; reflexivity.
Qed.

Lemma floor_half q level : q == inject_Z level / (2 # 1) -> Qfloor q = (level / 2)%Z.
Proof.
  intros H. rewrite (Qfloor_comp _ _ H). unfold Qdiv, Qinv, Qmult, inject_Z, Qfloor. simpl.
  rewrite Z.mul_1_r. reflexivity.
Qed.

Definition inf_ok (isinff : Q -> Z -> bool) : Prop := forall x k, isinff x k = false.

Theorem tie_Linear_spacingAtLevel : forall (isinff : Q -> Z -> bool) (panicv : Z) (powf : Q -> Q -> Q) (s : Linear_rec) (level : Z) (ro : bool) (eb : Z),
  inf_ok isinff -> pow_ok powf -> lin_ebase (Linear_Base s) = Some eb ->
  let '(fN, lN, sp) := gen_Linear_spacingAtLevel isinff panicv powf s level ro in
  let spm := lin_spacing (Linear_Base s) eb level in
  let '(f, l) := lin_first_last (Linear_Min s) (Linear_Max s) spm ro in
  sp == spm /\ fN = inject_Z f /\ lN = inject_Z l.
Proof.
  intros isinff panicv powf s level ro eb Hinf Hp He.
  unfold gen_Linear_spacingAtLevel. rewrite tie_Linear_ebase, He. rewrite ?Hinf.
  destruct s as [mn mx base cl]. lproj. cbv zeta.
  unfold go_srem, go_floor, go_i2f.
  repeat match goal with |- context [powf _ (inject_Z (Qfloor ?q))] =>
    rewrite (floor_half q level) by (first [reflexivity | field]) end.
  destruct (lin_ebase_ge base eb He) as (Heb & _ & _).
  pose proof (Hp eb (level / 2)%Z ltac:(lia)) as Hpw.
  set (pw := powf (inject_Z eb) (inject_Z (level / 2))) in *.
  unfold lin_first_last, lin_spacing, go_ceil. cbv zeta. rewrite !qfl_floor, !qcl_ceiling.
  destruct (rem2_cases level) as [[Ho [Hr|Hr]]|[Ho Hr]]; rewrite Ho, ?Hr; cbn [Z.eqb Pos.eqb andb orb negb];
    destruct (base =? 0)%Z; cbn [andb orb negb];
    destruct ro; (split; [rewrite Hpw; reflexivity|]); split; f_equal;
    first [apply Qfloor_comp | apply Qceiling_comp]; rewrite Hpw; reflexivity.
Qed.


(* ---------- CountTicks (linear.go:110-112, 125-135): the count, saturated at the largest int ---------- *)
Definition sat (z : Z) : Z := if (MAXINT <=? z)%Z then MAXINT else z.

Theorem tie_linearTicker_CountTicks : forall (isinff : Q -> Z -> bool) (panicv : Z) (powf : Q -> Q -> Q) (s : Linear_rec) (ro : bool) (level eb : Z),
  inf_ok isinff -> pow_ok powf -> lin_ebase (Linear_Base s) = Some eb ->
  gen_linearTicker_CountTicks isinff panicv powf (mk_linearTicker s ro) level =
  sat (lin_count (Linear_Base s) eb (Linear_Min s) (Linear_Max s) ro level).
Proof.
  intros isinff panicv powf s ro level eb Hinf Hp He. unfold gen_linearTicker_CountTicks, lin_count, sat. lproj.
  pose proof (tie_Linear_spacingAtLevel isinff panicv powf s level ro eb Hinf Hp He) as H.
  destruct (gen_Linear_spacingAtLevel isinff panicv powf s level ro) as [[fN lN] sp]. cbv zeta in H.
  destruct (lin_first_last _ _ _ ro) as [f l]. destruct H as (_ & -> & ->). cbv zeta.
  assert (E : inject_Z l - inject_Z f + (1 # 1) == inject_Z (l - f + 1)).
  { unfold Z.sub. rewrite !inject_Z_plus, inject_Z_opp. unfold Qminus. reflexivity. }
  rewrite (go_f2i_int _ _ E).
  match goal with |- context [Qleb ?m ?x] => replace (Qleb m x) with (MAXINT <=? l - f + 1)%Z end; [reflexivity|].
  destruct (Z.leb_spec MAXINT (l - f + 1)); symmetry; [apply Qleb_iff | apply Qleb_niff]; rewrite E;
    change (9223372036854775807 # 1) with (inject_Z MAXINT); [rewrite <- Zle_Qle | rewrite <- Zlt_Qlt]; assumption.
Qed.

Theorem tie_Linear_CountTicks : forall (isinff : Q -> Z -> bool) (panicv : Z) (powf : Q -> Q -> Q) (s : Linear_rec) (level eb : Z),
  inf_ok isinff -> pow_ok powf -> lin_ebase (Linear_Base s) = Some eb ->
  gen_Linear_CountTicks isinff panicv powf s level = sat (lin_count (Linear_Base s) eb (Linear_Min s) (Linear_Max s) false level).
Proof. intros. unfold gen_Linear_CountTicks. apply tie_linearTicker_CountTicks; assumption. Qed.

(* the level search sees the count only through comparisons with Max: a count saturated at the
   largest int gives the same answer as the exact count whenever Max is below the largest int *)
Lemma fl_down_sat c mx lo : (mx < MAXINT)%Z -> forall fuel l, fl_down fuel (fun k => sat (c k)) mx lo l = fl_down fuel c mx lo l.
Proof.
  intros Hm. induction fuel as [|f IH]; intros l; cbn [fl_down]; [reflexivity|].
  replace (sat (c l) <=? mx)%Z with (c l <=? mx)%Z; [rewrite IH; reflexivity|].
  unfold sat. destruct (Z.leb_spec MAXINT (c l)); destruct (Z.leb_spec (c l) mx); destruct (Z.leb_spec MAXINT mx); try reflexivity; lia.
Qed.
Lemma fl_up_sat c mx hi : (mx < MAXINT)%Z -> forall fuel l, fl_up fuel (fun k => sat (c k)) mx hi l = fl_up fuel c mx hi l.
Proof.
  intros Hm. induction fuel as [|f IH]; intros l; cbn [fl_up]; [reflexivity|].
  replace (mx <? sat (c l))%Z with (mx <? c l)%Z; [rewrite IH; reflexivity|].
  unfold sat. destruct (Z.leb_spec MAXINT (c l)); destruct (Z.ltb_spec mx (c l)); destruct (Z.ltb_spec mx MAXINT); try reflexivity; lia.
Qed.
Lemma find_level_sat o c g : (o_max o < MAXINT)%Z -> find_level o (fun k => sat (c k)) g = find_level o c g.
Proof.
  intros Hm. unfold find_level. destruct (level_bounds o) as [[lo hi]|]; [|reflexivity].
  destruct (o_max o <? 1)%Z; [reflexivity|]. cbv zeta.
  replace (sat (c (if (g <? lo)%Z then lo else if (hi <? g)%Z then hi else g)) <=? o_max o)%Z
    with (c (if (g <? lo)%Z then lo else if (hi <? g)%Z then hi else g) <=? o_max o)%Z.
  - destruct (_ <=? o_max o)%Z; [apply fl_down_sat | apply fl_up_sat]; exact Hm.
  - unfold sat. set (z := c _). destruct (Z.leb_spec MAXINT z); destruct (Z.leb_spec z (o_max o)); destruct (Z.leb_spec MAXINT (o_max o)); try reflexivity; lia.
Qed.

(* ---------- TicksAtLevel (linear.go:116-118, 130-134; vec.Linspace) ---------- *)
Lemma tick_seq_map n : forall f sp, tick_seq n f sp = map (fun i => inject_Z (f + Z.of_nat i) * sp) (seq 0 n).
Proof.
  induction n as [|n IH]; intros f sp; [reflexivity|]. cbn [tick_seq seq map].
  rewrite Z.add_0_r. f_equal. rewrite IH, <- seq_shift, map_map. apply map_ext. intros i.
  do 2 f_equal. lia.
Qed.

Lemma Forall2_Qeq_map {A} (f g : A -> Q) l : (forall a, In a l -> f a == g a) -> Forall2 Qeq (map f l) (map g l).
Proof. induction l as [|a l IH]; intros H; simpl; constructor; [apply H; left; reflexivity | apply IH; intros; apply H; right; assumption]. Qed.

Lemma Forall2_Qeq_trans (a b c : list Q) : Forall2 Qeq a b -> Forall2 Qeq b c -> Forall2 Qeq a c.
Proof.
  intros H. revert c. induction H as [|x y a b Hxy _ IH]; intros c Hc; inversion Hc; subst; constructor.
  - rewrite Hxy. assumption.
  - apply IH. assumption.
Qed.

(* Linspace(f*sp, l*sp, l-f+1) is the tick sequence (f+i)*sp *)
Lemma linspace_ticks (f l : Z) (sp sp' : Q) (lo hi : Q) (n : Z) : sp == sp' ->
  lo == inject_Z f * sp -> hi == inject_Z l * sp -> n = (l - f + 1)%Z -> (n < 2 ^ 62)%Z ->
  Forall2 Qeq (gen_Linspace lo hi n) (tick_seq (Z.to_nat n) f sp').
Proof.
  intros Hsp Hlo Hhi -> Hn. destruct (Z_le_gt_dec (l - f + 1) 0) as [Hneg|Hpos].
  - replace (Z.to_nat (l - f + 1)) with O by lia. cbn [tick_seq].
    unfold gen_Linspace. cbv zeta. unfold go_make. replace (Z.to_nat (l - f + 1)) with O by lia.
    destruct (Z.eqb_spec (l - f + 1) 1); [lia|]. rewrite go_range_nil by lia. constructor.
  - remember (Z.to_nat (l - f + 1)) as num eqn:Enum.
    assert (Hnum : (l - f + 1)%Z = Z.of_nat num) by lia. rewrite Hnum in Hn |- *.
    eapply Forall2_Qeq_trans; [apply tie_vec_Linspace; unfold len_ok; rewrite seq_length; zpow; lia|].
    rewrite tick_seq_map. unfold linspace.
    destruct num as [|[|k]] eqn:Ek; [constructor | |].
    + cbn. constructor; [|constructor]. rewrite Hlo, Hsp, Z.add_0_r. reflexivity.
    + apply Forall2_Qeq_map. intros i Hi. rewrite Qred_correct, Hlo, Hhi, <- Hsp. unfold Qofnat.
      rewrite inject_Z_plus.
      assert (El : inject_Z l == inject_Z f + inject_Z (Z.of_nat (S (S k) - 1))).
      { rewrite <- inject_Z_plus. apply inject_Z_injective. clear - Hnum. lia. }
      rewrite El.
      assert (Hnz : ~ inject_Z (Z.of_nat (S (S k) - 1)) == 0).
      { intros C. unfold Qeq in C. cbn [Qnum Qden inject_Z] in C. lia. }
      field. exact Hnz.
Qed.

Theorem tie_linearTicker_TicksAtLevel : forall (isinff : Q -> Z -> bool) (panicv : Z) (powf : Q -> Q -> Q) (s : Linear_rec) (ro : bool) (level eb : Z),
  inf_ok isinff -> pow_ok powf -> lin_ebase (Linear_Base s) = Some eb ->
  (lin_count (Linear_Base s) eb (Linear_Min s) (Linear_Max s) ro level < 2 ^ 62)%Z ->
  Forall2 Qeq (gen_linearTicker_TicksAtLevel isinff panicv powf (mk_linearTicker s ro) level)
              (lin_ticks_at (Linear_Base s) eb (Linear_Min s) (Linear_Max s) ro level).
Proof.
  intros isinff panicv powf s ro level eb Hinf Hp He Hc. unfold gen_linearTicker_TicksAtLevel, lin_ticks_at, lin_count in *. lproj.
  pose proof (tie_Linear_spacingAtLevel isinff panicv powf s level ro eb Hinf Hp He) as H.
  destruct (gen_Linear_spacingAtLevel isinff panicv powf s level ro) as [[fN lN] sp]. cbv zeta in *.
  destruct (lin_first_last _ _ _ ro) as [f l]. destruct H as (Hsp & -> & ->).
  assert (En : go_f2i (inject_Z l - inject_Z f + (1 # 1)) = (l - f + 1)%Z).
  { apply go_f2i_int. unfold Z.sub. rewrite !inject_Z_plus, inject_Z_opp. unfold Qminus. reflexivity. }
  rewrite En. apply (linspace_ticks f l sp); [exact Hsp | reflexivity | reflexivity | reflexivity | exact Hc].
Qed.

Theorem tie_Linear_TicksAtLevel : forall (isinff : Q -> Z -> bool) (panicv : Z) (powf : Q -> Q -> Q) (s : Linear_rec) (level eb : Z),
  inf_ok isinff -> pow_ok powf -> lin_ebase (Linear_Base s) = Some eb ->
  (lin_count (Linear_Base s) eb (Linear_Min s) (Linear_Max s) false level < 2 ^ 62)%Z ->
  Forall2 Qeq (gen_Linear_TicksAtLevel isinff panicv powf s level)
              (lin_ticks_at (Linear_Base s) eb (Linear_Min s) (Linear_Max s) false level).
Proof. intros. unfold gen_Linear_TicksAtLevel. apply tie_linearTicker_TicksAtLevel; assumption. Qed.

(* ---------- Ticks (linear.go:136-150) ---------- *)
(* the level FindLevel returns lies in the level window, hence far from the int64 bounds *)
Lemma find_level_ok_range o cnt g l : find_level o cnt g = FL_ok l ->
  lvl (o_minlevel o) -> lvl (o_maxlevel o) -> lvl l.
Proof.
  intros H Hmn Hmx. destruct (level_bounds o) as [[lo hi]|] eqn:Hb.
  - assert (Hlh : lvl lo /\ lvl hi).
    { unfold level_bounds in Hb. destruct (_ && _); [injection Hb as <- <-; unfold lvl; zpow; lia|].
      destruct (o_maxlevel o <? o_minlevel o)%Z; [discriminate|]. injection Hb as <- <-. auto. }
    destruct (Z_lt_le_dec (o_max o) 1) as [Hm|Hm].
    + unfold find_level in H. rewrite Hb in H. replace (o_max o <? 1)%Z with true in H by (symmetry; apply Z.ltb_lt; lia). discriminate.
    + pose proof (level_bounds_ordered o lo hi Hb) as Hord.
      pose proof (start_level_in lo hi g Hord) as Hs.
      destruct (find_level_outcome o cnt g lo hi Hb Hm) as [[_ (r & Hr & Hrb & _)]|[[_ (r & Hr & Hrb & _)]|[_ [Hr _]]]];
        rewrite Hr in H; try discriminate; injection H as <-; destruct Hlh; unfold lvl in *; zpow; lia.
  - unfold find_level in H. rewrite Hb in H. discriminate.
Qed.

(* the pair of slices Ticks returns, against the model's result *)
Definition ticks_rel (g : list Q * list Q) (r : ticks_res) : Prop :=
  match r with
  | TR_ticks a b => Forall2 Qeq (fst g) a /\ Forall2 Qeq (snd g) b
  | TR_none => g = ([], [])
  | TR_panic => False
  end.

(* the domain Ticks works on: a reversed one is swapped (linear.go:141-143) *)
Definition ordered (mn mx : Q) : Q * Q := if Qltb mx mn then (mx, mn) else (mn, mx).

Theorem tie_Linear_Ticks : forall (isinff : Q -> Z -> bool) (logf : Q -> Q) (panicv : Z) (powf : Q -> Q -> Q) (fuel : nat)
    (s : Linear_rec) (o : TickOptions_rec) (eb : Z),
  inf_ok isinff -> pow_ok powf -> lin_ebase (Linear_Base s) = Some eb ->
  lvl (TickOptions_MinLevel o) -> lvl (TickOptions_MaxLevel o) -> (TickOptions_Max o < MAXINT)%Z ->
  (find_level_fuel (to_opts o) <= fuel)%nat ->
  let '(mn, mx) := ordered (Linear_Min s) (Linear_Max s) in
  let guess := gen_Linear_guessLevel logf panicv (mk_Linear mn mx (Linear_Base s) (Linear_Clamp s)) in
  (* the two tick counts fit a Go int *)
  (forall l, find_level (to_opts o) (lin_count (Linear_Base s) eb mn mx false) guess = FL_ok l ->
     (lin_count (Linear_Base s) eb mn mx false l < 2 ^ 62)%Z /\ (lin_count (Linear_Base s) eb mn mx false (l - 1) < 2 ^ 62)%Z) ->
  exists g, gen_Linear_Ticks isinff logf panicv powf fuel s o = Some g /\
            ticks_rel g (lin_ticks (Linear_Base s) (Linear_Min s) (Linear_Max s) (to_opts o) guess).
Proof.
  intros isinff logf panicv powf fuel [mn mx base cl] o eb Hinf Hp He Hmn Hml Hmax Hf. lproj.
  unfold ordered, gen_Linear_Ticks, lin_ticks, lin_ticks_gen. lproj. cbv zeta.
  change (o_max (to_opts o)) with (TickOptions_Max o).
  destruct (Z.leb_spec (TickOptions_Max o) 0) as [Hm|Hm].
  { destruct (Qltb mx mn); intros _; (eexists; split; reflexivity). }
  destruct (Qeqb mn mx) eqn:Eq.
  { destruct (Qltb mx mn); intros _; (eexists; split; [reflexivity|]); split; repeat constructor; reflexivity. }
  rewrite He.
  (* both orientations: the same steps on the (ordered) domain *)
  destruct (Qltb mx mn); intros Hc;
  match goal with |- context [gen_TickOptions_FindLevel ?c fuel o ?g] =>
    destruct (tie_FindLevel c fuel o g Hmn Hml Hf) as [-> _] end;
  match goal with |- context [find_level (to_opts o) ?c ?g] =>
    match c with
    | context [gen_linearTicker_CountTicks isinff panicv powf (mk_linearTicker ?r false)] =>
        rewrite (find_level_ext (to_opts o) c (fun k => sat (lin_count base eb (Linear_Min r) (Linear_Max r) false k)))
          by (intros l; apply (tie_linearTicker_CountTicks isinff panicv powf r false l eb Hinf Hp He));
        rewrite (find_level_sat (to_opts o) (lin_count base eb (Linear_Min r) (Linear_Max r) false)) by exact Hmax
    end end; lproj;
  match goal with |- context [fl_val ?fl] => destruct fl as [l| |] eqn:El end; cbn [fl_val negb];
  try (eexists; split; reflexivity);
  try (exfalso; apply (find_level_no_fuel _ _ _ El));
  destruct (Hc l eq_refl) as [Hc1 Hc2];
  pose proof (find_level_ok_range _ _ _ _ El Hmn Hml) as Hl;
  rewrite ?lvl_sub1 by (unfold lvl in Hl; zpow; lia);
  (eexists; split; [reflexivity|]); split; cbn [fst snd];
  match goal with |- Forall2 Qeq (gen_Linear_TicksAtLevel isinff panicv powf ?r _) _ =>
    apply (tie_Linear_TicksAtLevel isinff panicv powf r _ eb Hinf Hp He); assumption end.
Qed.

(* ---------- Nice (linear.go:152-176, with the repair of D10) ---------- *)
Definition nice_rel (base : Z) (cl : bool) (s' : Linear_rec) (r : nice_res) : Prop :=
  match r with
  | NR_dom a b => Linear_Min s' == a /\ Linear_Max s' == b /\ Linear_Base s' = base /\ Linear_Clamp s' = cl
  | NR_panic => False
  end.

Lemma Qleb_comp a a' b b' : a == a' -> b == b' -> Qleb a b = Qleb a' b'.
Proof.
  intros Ha Hb. destruct (Qleb a b) eqn:E1; destruct (Qleb a' b') eqn:E2; try reflexivity;
    [apply Qleb_iff in E1; apply Qleb_niff in E2 | apply Qleb_niff in E1; apply Qleb_iff in E2]; exfalso; lra.
Qed.

Definition maxfloat64 : Q := inject_Z (2 ^ 1024 - 2 ^ 971).

(* one orientation of the domain: FindLevel -> model, then the two guarded updates of Min / Max *)
Ltac nice_case isinff panicv powf fuel o base eb Hp He Hmn Hml Hf Hinf Hmax :=
  match goal with |- context [gen_TickOptions_FindLevel ?c fuel o ?g] =>
    destruct (tie_FindLevel c fuel o g Hmn Hml Hf) as [-> _] end;
  match goal with |- context [find_level (to_opts o) ?c ?g] =>
    match c with
    | context [gen_linearTicker_CountTicks isinff panicv powf (mk_linearTicker ?r true)] =>
        rewrite (find_level_ext (to_opts o) c (fun k => sat (lin_count base eb (Linear_Min r) (Linear_Max r) true k)))
          by (intros l; apply (tie_linearTicker_CountTicks isinff panicv powf r true l eb Hinf Hp He));
        rewrite (find_level_sat (to_opts o) (lin_count base eb (Linear_Min r) (Linear_Max r) true)) by exact Hmax
    end end; lproj;
  match goal with |- context [fl_val ?fl] => destruct fl as [?l| |] eqn:?El end; cbn [fl_val negb];
  [ | eexists; split; [reflexivity|]; cbn [nice_rel]; lproj; repeat split; reflexivity
    | exfalso; match goal with E : find_level _ _ _ = FL_fuel |- _ => apply (find_level_no_fuel _ _ _ E) end ];
  match goal with |- context [gen_Linear_spacingAtLevel isinff panicv powf ?r ?l0 true] =>
    let H := fresh "H" in
    pose proof (tie_Linear_spacingAtLevel isinff panicv powf r l0 true eb Hinf Hp He) as H;
    destruct (gen_Linear_spacingAtLevel isinff panicv powf r l0 true) as [[?fN ?lN] ?sp];
    lproj; cbv zeta in H;
    match goal with Hov : forall l1, FL_ok ?l2 = FL_ok l1 -> _ |- _ => specialize (Hov l2 eq_refl) end;
    match type of H with context [lin_first_last ?a ?b ?c true] =>
      destruct (lin_first_last a b c true) as [?f ?la] end;
    let Hsp := fresh "Hsp" in
    destruct H as (Hsp & -> & ->); rewrite !Hinf; cbn [negb]; rewrite !Bool.andb_true_r;
    match goal with Hov : _ /\ _ /\ _ |- _ =>
      let Hf1 := fresh "Hf1" in let Hf2 := fresh "Hf2" in destruct Hov as (Hov & Hf1 & Hf2); rewrite ?Hf1, ?Hf2 end;
    cbn [andb];
    repeat match goal with |- context [Qleb ?m ?sp0] =>
      match m with context [Qmake] => idtac end;
      replace (Qleb m sp0) with false
        by (symmetry; apply Qleb_niff; rewrite ?Hsp;
            match goal with Hov : _ < maxfloat64 |- _ => exact Hov end)
    end; cbn [andb negb]; rewrite ?Bool.andb_true_r;
    (eexists; split; [reflexivity|]); cbn [nice_rel]; lproj;
    (split; [|split; [|split; reflexivity]]);
    [ match goal with |- context [Qleb (inject_Z ?f * ?sp) ?m] =>
        rewrite (Qleb_comp (inject_Z f * sp) (inject_Z f * lin_spacing base eb l0) m m) by (rewrite ?Hsp; reflexivity) end;
      destruct (Qleb _ _); [rewrite Hsp|]; reflexivity
    | match goal with |- context [Qleb ?m (inject_Z ?la * ?sp)] =>
        rewrite (Qleb_comp m m (inject_Z la * sp) (inject_Z la * lin_spacing base eb l0)) by (rewrite ?Hsp; reflexivity) end;
      destruct (Qleb _ _); [rewrite Hsp|]; reflexivity ]
  end.

Theorem tie_Linear_Nice : forall (isinff : Q -> Z -> bool) (logf : Q -> Q) (panicv : Z) (powf : Q -> Q -> Q) (fuel : nat)
    (s : Linear_rec) (o : TickOptions_rec) (eb : Z),
  pow_ok powf -> inf_ok isinff -> lin_ebase (Linear_Base s) = Some eb ->
  lvl (TickOptions_MinLevel o) -> lvl (TickOptions_MaxLevel o) -> (TickOptions_Max o < MAXINT)%Z ->
  (find_level_fuel (to_opts o) <= fuel)%nat ->
  let '(mn, mx) := nice_start (Linear_Min s) (Linear_Max s) in
  let guess := gen_Linear_guessLevel logf panicv (mk_Linear mn mx (Linear_Base s) (Linear_Clamp s)) in
  (* the spacing of the level found is below the largest float64 (above it the code substitutes
     math.MaxFloat64: an overflow regime outside the exact reading of float64) *)
  (forall l, find_level (to_opts o) (lin_count (Linear_Base s) eb mn mx true) guess = FL_ok l ->
             lin_spacing (Linear_Base s) eb l < maxfloat64 /\
             (* ... and the two nice ends are finite float64 values (the model moves an end only to a
                representable value, Model/Ticks.v f64_fin; the exact reading has no infinity) *)
             let '(f, la) := lin_first_last mn mx (lin_spacing (Linear_Base s) eb l) true in
             f64_fin (inject_Z f * lin_spacing (Linear_Base s) eb l) = true /\
             f64_fin (inject_Z la * lin_spacing (Linear_Base s) eb l) = true) ->
  exists s', gen_Linear_Nice isinff logf panicv powf fuel s o = Some s' /\
             nice_rel (Linear_Base s) (Linear_Clamp s) s'
               (lin_nice (Linear_Base s) (Linear_Min s) (Linear_Max s) (to_opts o) guess).
Proof.
  intros isinff logf panicv powf fuel [mn mx base cl] o eb Hp Hinf He Hmn Hml Hmax Hf. lproj.
  unfold nice_start, gen_Linear_Nice, lin_nice, lin_nice_gen. lproj. cbv zeta. rewrite He.
  destruct (Qeqb mn mx); [|destruct (Qltb mx mn)]; intros Hov;
    nice_case isinff panicv powf fuel o base eb Hp He Hmn Hml Hf Hinf Hmax.
Qed.

(* non-vacuity / the generated code runs: Ticks and Nice on [0,10] resp. [0.3, 9.7], at most 6
   major ticks, default level window, with the example power function *)
Definition red2 (r : option (list Q * list Q)) :=
  match r with Some (a, b) => Some (map Qred a, map Qred b) | None => None end.
Example tie_Linear_Ticks_example :
  red2 (gen_Linear_Ticks (fun _ _ => false) (fun _ => 1) 0%Z pow_example 2002 (mk_Linear 0 (10 # 1) 0 false) (mk_TickOptions 6 0 0))
  = Some ([0; 5 # 1; 10 # 1], [0; 1; 2 # 1; 3 # 1; 4 # 1; 5 # 1; 6 # 1; 7 # 1; 8 # 1; 9 # 1; 10 # 1]).
Proof. vm_compute. reflexivity. Qed.
Example tie_Linear_Nice_example :
  gen_Linear_Nice (fun _ _ => false) (fun _ => 1) 0%Z pow_example 2002 (mk_Linear (3 # 10) (97 # 10) 0 false) (mk_TickOptions 6 0 0)
  = Some (mk_Linear 0 (10 # 1) 0 false).
Proof. vm_compute. reflexivity. Qed.

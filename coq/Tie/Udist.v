(* Tie/Udist.v — T-tie for stats/udist.go twoUmin / twoUmax (C02, C03): the greedy loops
   generated from the current source (k = 1..K and k = K..1 over t[k-1] and the coefficient
   slice a[k]) compute Model/Udist.v twoUmin / twoUmax, for a coefficient slice that holds
   a[k] = t_k + 2 * sum_{j<k} t_j (what makeUmemo builds, udist.go:197-201) and sizes below
   2^20 (Go's int wraps at 2^63).  Compiled by bin/ttie. *)
From Coq Require Import ZArith NArith QArith List Lia.
From MM Require Import Base.Num Base.GoSem Base.GEComb Model.Udist.
From MMGen Require Import Gen_stats_alg Gen_stats_udist.
Import ListNotations.
Local Open Scope Z_scope.

Definition zt (t : list nat) : list Z := map Z.of_nat t.

(* a[k], 1 <= k <= K, is the coefficient of rank k (a[0] is unused) *)
Definition a_ok (t : list nat) (a : list Z) : Prop :=
  forall pre x post, t = pre ++ x :: post -> nth (S (length pre)) a 0 = acoef x (lsum pre).

Definition small (n1 : nat) (t : list nat) : Prop :=
  Z.of_nat n1 < 1048576 /\ Z.of_nat (lsum t) < 1048576 /\ Z.of_nat (length t) < 1048576.      (* 2^20 *)

Lemma lsum_app' l1 l2 : lsum (l1 ++ l2) = (lsum l1 + lsum l2)%nat.
Proof. induction l1 as [|a l1 IH]; simpl; [reflexivity|]. rewrite IH. lia. Qed.

Lemma lsum_rev' l : lsum (rev l) = lsum l.
Proof. induction l as [|a l IH]; simpl; [reflexivity|]. rewrite lsum_app', IH. simpl. lia. Qed.

Section Loops.
  Variables (n1 : nat) (t : list nat) (a : list Z).
  Hypothesis Ha : a_ok t a.
  Hypothesis Hsmall : small n1 t.
  (* the loop body, as an equation (the generated lambda satisfies it by computation) *)
  Variable step : Z * Z -> Z -> Z * Z.
  Hypothesis Hstep : forall u n k, step (u, n) k =
    (go_sadd 64 u (go_smul 64 (gen_minint n (go_idx 0 (zt t) (go_ssub 64 k 1))) (go_idx 0 a k)),
     go_ssub 64 n (gen_minint n (go_idx 0 (zt t) (go_ssub 64 k 1)))).

  Let M : Z := 2 * Z.of_nat (lsum t).
  Definition Inv (u : Z) (n : nat) : Prop :=
    - 1099511627776 <= u /\ u + Z.of_nat n * M <= 4398046511104 /\ (n <= n1)%nat.   (* 2^40, 2^42 *)

  Lemma step_one pre x post u n : t = pre ++ x :: post -> Inv u n ->
    step (u, Z.of_nat n) (Z.of_nat (S (length pre))) =
      (u + Z.of_nat (Nat.min n x) * acoef x (lsum pre), Z.of_nat (n - Nat.min n x)) /\
    Inv (u + Z.of_nat (Nat.min n x) * acoef x (lsum pre)) (n - Nat.min n x).
  Proof.
    intros Ht (I1 & I2 & I3). destruct Hsmall as (S1 & S2 & S3).
    assert (HS : lsum t = (lsum pre + (x + lsum post))%nat) by (rewrite Ht, lsum_app'; reflexivity).
    set (g := Nat.min n x). set (ak := acoef x (lsum pre)).
    assert (Hak : 0 <= ak <= M) by (unfold ak, acoef, M; lia).
    assert (HM : 0 <= M < 2097152) by (unfold M; lia).
    assert (Hg : 0 <= Z.of_nat g <= Z.of_nat n) by (unfold g; lia).
    assert (P1 : 0 <= Z.of_nat g * ak) by (apply Z.mul_nonneg_nonneg; lia).
    assert (P2 : Z.of_nat g * ak <= Z.of_nat g * M) by (apply Z.mul_le_mono_nonneg_l; lia).
    assert (P3 : Z.of_nat g * M <= Z.of_nat n * M) by (apply Z.mul_le_mono_nonneg_r; lia).
    assert (P4 : Z.of_nat n * M <= 1048576 * 2097152) by (apply Z.mul_le_mono_nonneg; lia).
    assert (P5 : Z.of_nat (n - g) * M = Z.of_nat n * M - Z.of_nat g * M) by (rewrite Nat2Z.inj_sub by lia; ring).
    assert (P6 : 0 <= Z.of_nat n * M) by (apply Z.mul_nonneg_nonneg; lia).
    split.
    - rewrite Hstep. unfold go_ssub.
      rewrite !(wrap_s64_small (Z.of_nat (S (length pre)) - 1)) by
        (assert (length pre <= length t)%nat by (rewrite Ht, app_length; lia); lia).
      replace (Z.of_nat (S (length pre)) - 1) with (Z.of_nat (length pre)) by lia.
      unfold go_idx. rewrite !Nat2Z.id.
      replace (nth (length pre) (zt t) 0) with (Z.of_nat x).
      2:{ unfold zt. rewrite Ht, map_app. simpl. rewrite <- (map_length Z.of_nat pre). symmetry. apply nth_middle. }
      rewrite (Ha pre x post Ht). fold ak.
      replace (gen_minint (Z.of_nat n) (Z.of_nat x)) with (Z.of_nat g) by (unfold gen_minint, g; zcases; lia).
      unfold go_sadd, go_smul.
      rewrite (wrap_s64_small (Z.of_nat g * ak)) by lia.
      rewrite (wrap_s64_small (u + Z.of_nat g * ak)) by lia.
      rewrite (wrap_s64_small (Z.of_nat n - Z.of_nat g)) by lia.
      f_equal. lia.
    - unfold Inv. fold g ak. rewrite P5. repeat split; lia.
  Qed.

  (* length pre is small enough for the index arithmetic above *)
  (* ascending loop: k = length pre + 1 .. K *)
  Lemma asc : forall post pre u n, t = pre ++ post -> Inv u n ->
    fst (fold_left step (go_range (Z.of_nat (S (length pre))) (Z.of_nat (S (length t)))) (u, Z.of_nat n)) =
    u + gmin_asc post (lsum pre) n.
  Proof.
    induction post as [|x post IH]; intros pre u n Ht HI.
    - rewrite Ht, app_nil_r. rewrite go_range_nil by lia. simpl. lia.
    - rewrite go_range_cons by (rewrite Ht, app_length; simpl; lia). cbn [fold_left].
      destruct (step_one pre x post u n Ht HI) as (E & HI'). rewrite E.
      replace (Z.of_nat (S (length pre)) + 1) with (Z.of_nat (S (length (pre ++ [x])))) by (rewrite app_length; simpl; lia).
      rewrite IH; [| rewrite <- app_assoc; exact Ht | exact HI'].
      simpl gmin_asc. rewrite lsum_app'. simpl lsum. rewrite Nat.add_0_r. lia.
  Qed.

  (* descending loop: k = length pre .. 1 *)
  Lemma desc : forall pre post u n, t = pre ++ post -> Inv u n ->
    fst (fold_left step (rev (go_range 1 (Z.of_nat (S (length pre))))) (u, Z.of_nat n)) =
    u + gmax (rev pre) n.
  Proof.
    induction pre as [|x pre IH] using rev_ind; intros post u n Ht HI.
    - cbn [length]. rewrite go_range_nil by lia. simpl. lia.
    - rewrite app_length. cbn [length].
      replace (Z.of_nat (S (length pre + 1))) with (Z.of_nat (S (length pre)) + 1) by lia.
      rewrite go_range_snoc by lia. rewrite rev_unit. cbn [fold_left].
      rewrite <- app_assoc in Ht. simpl in Ht.
      destruct (step_one pre x post u n Ht HI) as (E & HI'). rewrite E.
      rewrite (IH (x :: post)) by assumption.
      rewrite rev_unit. simpl gmax. rewrite lsum_rev'. lia.
  Qed.
End Loops.

Lemma init_ok n1 t : small n1 t ->
  go_smul 64 (go_sneg 64 (Z.of_nat n1)) (Z.of_nat n1) = - (Z.of_nat n1 * Z.of_nat n1) /\
  Inv n1 t (- (Z.of_nat n1 * Z.of_nat n1)) n1.
Proof.
  intros (S1 & S2 & S3).
  assert (P : 0 <= Z.of_nat n1 * Z.of_nat n1 <= 1048576 * 1048576) by (split; [apply Z.mul_nonneg_nonneg | apply Z.mul_le_mono_nonneg]; lia).
  assert (Q : 0 <= Z.of_nat n1 * (2 * Z.of_nat (lsum t)) <= 1048576 * 2097152) by (split; [apply Z.mul_nonneg_nonneg | apply Z.mul_le_mono_nonneg]; lia).
  split.
  - unfold go_smul, go_sneg. rewrite (wrap_s64_small (- Z.of_nat n1)) by lia.
    rewrite wrap_s64_small by lia. lia.
  - unfold Inv. repeat split; lia.
Qed.

Theorem tie_twoUmin : forall (n1 : nat) (t : list nat) (a : list Z), a_ok t a -> small n1 t ->
  gen_twoUmin (Z.of_nat n1) (zt t) a = twoUmin n1 (rev t).
Proof.
  intros n1 t a Ha Hs. unfold gen_twoUmin, twoUmin. cbv zeta. rewrite rev_involutive.
  destruct (init_ok n1 t Hs) as (E0 & HI). rewrite E0.
  unfold go_len. rewrite (map_length Z.of_nat t : length (zt t) = length t).
  replace (Z.of_nat (length t) + 1) with (Z.of_nat (S (length t))) by lia.
  match goal with |- (let '(x, _) := fold_left ?f ?l ?i in x) = _ =>
    transitivity (fst (fold_left f l i)); [destruct (fold_left f l i); reflexivity|] end.
  apply (asc n1 t a Ha Hs _ (fun u n k => eq_refl) t [] _ n1 eq_refl HI).
Qed.

Theorem tie_twoUmax : forall (n1 : nat) (t : list nat) (a : list Z), a_ok t a -> small n1 t ->
  gen_twoUmax (Z.of_nat n1) (zt t) a = twoUmax n1 (rev t).
Proof.
  intros n1 t a Ha Hs. unfold gen_twoUmax, twoUmax. cbv zeta.
  destruct (init_ok n1 t Hs) as (E0 & HI). rewrite E0.
  unfold go_len. rewrite (map_length Z.of_nat t : length (zt t) = length t). unfold go_range_down.
  change (0 + 1) with 1.
  replace (Z.of_nat (length t) + 1) with (Z.of_nat (S (length t))) by lia.
  match goal with |- (let '(x, _) := fold_left ?f ?l ?i in x) = _ =>
    transitivity (fst (fold_left f l i)); [destruct (fold_left f l i); reflexivity|] end.
  apply (desc n1 t a Ha Hs _ (fun u n k => eq_refl) t [] _ n1 (eq_sym (app_nil_r t)) HI).
Qed.

(* the hypothesis a_ok is satisfiable: the slice makeUmemo builds for t = [2; 1; 3] *)
Example a_ok_example : a_ok [2; 1; 3]%nat [0; 2; 5; 9].
Proof.
  intros pre x post H.
  destruct pre as [|p0 [|p1 [|p2 [|p3 pre]]]]; simpl in H; inversion H; subst; reflexivity.
Qed.

(* Tie/Utest.v — T-tie for stats/utest.go tieCorrection (C01): the loop generated from the
   current source computes Model/Utest.v tie_correction, as long as the sum of the cubes of the
   tie counts stays below 2^63 (Go's int wraps).  Compiled by bin/ttie. *)
From Coq Require Import ZArith NArith QArith Qround Qabs List Lia Lqa.
From MM Require Import Base.Num Base.GoSem Base.GEComb Model.Utest.
From MMGen Require Import Gen_stats_utest.
Import ListNotations.
Local Open Scope Z_scope.

Definition cubes (T : list nat) : Z := zsum (fun t => Z.of_nat t * Z.of_nat t * Z.of_nat t) T.

Lemma cubes_nonneg T : 0 <= cubes T.
Proof. unfold cubes. induction T as [|t T IH]; simpl; [lia|]. nia. Qed.

Lemma cube_facts t : 0 <= t -> 0 <= t * t /\ t * t <= t * t * t /\ t <= t * t * t.
Proof.
  intros H. destruct (Z.eq_dec t 0) as [->|E]; [lia|]. assert (H1 : 1 <= t) by lia.
  assert (H2 : 1 * 1 <= t * t) by (apply Z.mul_le_mono_nonneg; lia).
  assert (H3 : t * t * 1 <= t * t * t) by (apply Z.mul_le_mono_nonneg_l; lia).
  assert (H4 : 1 * t <= t * t) by (apply Z.mul_le_mono_nonneg_r; lia). lia.
Qed.

Lemma tc_fold (T : list nat) : forall acc, 0 <= acc -> acc + cubes T < 2 ^ 63 ->
  fold_left (fun t1 tie => go_sadd 64 t1 (go_ssub 64 (go_smul 64 (go_smul 64 tie tie) tie) tie))
            (map Z.of_nat T) acc = acc + tie_correction T.
Proof.
  induction T as [|a T IH]; intros acc H0 Hb; simpl; zpow.
  - unfold tie_correction. simpl. lia.
  - pose proof (cubes_nonneg T) as HT.
    change (cubes (a :: T)) with (Z.of_nat a * Z.of_nat a * Z.of_nat a + cubes T) in Hb.
    set (t := Z.of_nat a) in *. assert (Ht : 0 <= t) by (unfold t; lia).
    destruct (cube_facts t Ht) as (Hs & Hs' & Hd).
    match goal with |- fold_left ?f _ _ = _ => set (F := f) in * end.
    unfold go_sadd, go_ssub, go_smul.
    rewrite (wrap_s64_small' (t * t)) by lia.
    rewrite (wrap_s64_small' (t * t * t)) by lia.
    rewrite (wrap_s64_small' (t * t * t - t)) by lia.
    rewrite (wrap_s64_small' (acc + (t * t * t - t))) by lia.
    rewrite IH by lia. unfold tie_correction. simpl. fold t. lia.
Qed.

Theorem tie_tieCorrection : forall T : list nat, cubes T < 2 ^ 63 ->
  gen_tieCorrection (map Z.of_nat T) = inject_Z (tie_correction T).
Proof.
  intros T H. unfold gen_tieCorrection. cbv zeta. rewrite tc_fold by lia. reflexivity.
Qed.
